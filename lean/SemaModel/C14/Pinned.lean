/- C14: the pinned receiver (no truncation at chunk 0) can never complete a transfer onto a
   non-empty left-over file; an injective checksum instance (non-vacuity of `SumOK`) -/
import SemaModel.C14.Converge
namespace Sema.C14

variable {N K : Type} [DecidableEq N] [DecidableEq K]

theorem step_ffinal_mismatch_eq (cfg : Cfg N K) (hs : SumOK cfg) (s : St N K) (n : N) (k : K) (c d : Content)
    (hf : s.files n k = some c) (hp : progress (s.fph n k) = some (chunks cfg.cs c).length)
    (hne : n ≠ cfg.fowner k) (hus : cfg.up n = true) (huo : cfg.up (cfg.fowner k) = true)
    (hpos : 0 < (chunks cfg.cs c).length)
    (hd : s.files (cfg.fowner k) k = some d) (hdc : d ≠ c) :
    step cfg (.ffinal n k) s =
      clearVolatile { s with files := upd s.files (cfg.fowner k) k (some d) } n true := by
  unfold step
  simp only [enabled, apply, hf, hp]
  have hw : recvWrite cfg.trunc0 (some d) (chunks cfg.cs c).length [] = d := by
    unfold recvWrite
    rw [if_neg (by rintro ⟨h, _⟩; omega)]; simp
  have hsum : cfg.sum c ≠ cfg.sum d := fun e => hdc (hs.inj _ _ e).symm
  simp [hne, hd, hw, replySum, hpos, hsum, hus, huo]

theorem step_ffinal_empty_eq (cfg : Cfg N K) (hs : SumOK cfg) (s : St N K) (n : N) (k : K)
    (hf : s.files n k = some []) (hp : progress (s.fph n k) = some 0) (hne : n ≠ cfg.fowner k)
    (hus : cfg.up n = true) (huo : cfg.up (cfg.fowner k) = true) :
    step cfg (.ffinal n k) s =
      clearVolatile { s with files := upd s.files (cfg.fowner k) k (some (recvWrite cfg.trunc0 (s.files (cfg.fowner k) k) 0 [])) } n true := by
  unfold step
  have hch : (chunks cfg.cs []).length = 0 := by simp [chunks, chunksFuel]
  simp only [enabled, apply, hf, hp, hch]
  simp [hne, replySum, hs.empty_ne_zero, hus, huo]

/-- node `n` re-sends shard `k` onto a left-over `j` at the owner; `i` chunks have been appended -/
structure SendingP (cfg : Cfg N K) (n : N) (k : K) (c j : Content) (i : Nat) (s : St N K) : Prop where
  file : s.files n k = some c
  prog : progress (s.fph n k) = some i
  dst  : s.files (cfg.fowner k) k = some (j ++ ((chunks cfg.cs c).take i).flatten)

theorem sendFrom_pinned (cfg : Cfg N K) (hs : SumOK cfg) (htr : cfg.trunc0 = false) (hcs : 0 < cfg.cs)
    (n : N) (k : K) (c j : Content) (hne : n ≠ cfg.fowner k) (hus : cfg.up n = true)
    (huo : cfg.up (cfg.fowner k) = true) (hc : c ≠ []) (hj : j ≠ []) :
    ∀ (fuel i : Nat) (s : St N K), i + fuel = (chunks cfg.cs c).length → SendingP cfg n k c j i s →
      (sendFrom cfg noFault n k fuel i s).failed n = true ∧
      (sendFrom cfg noFault n k fuel i s).files n k = some c ∧
      (sendFrom cfg noFault n k fuel i s).files (cfg.fowner k) k = some (j ++ c) := by
  have hpos : 0 < (chunks cfg.cs c).length := (chunks_length_pos _ _).mpr hc
  intro fuel
  induction fuel with
  | zero =>
    intro i s hi hS
    have hi : i = (chunks cfg.cs c).length := by omega
    subst hi
    have hd : s.files (cfg.fowner k) k = some (j ++ c) := by
      rw [hS.dst, List.take_length, chunks_flatten _ hcs]
    have hdc : j ++ c ≠ c := by
      intro e
      have := congrArg List.length e
      simp at this
      exact hj this
    simp only [sendFrom]
    rw [if_neg (by simp [noFault])]
    rw [step_ffinal_mismatch_eq cfg hs s n k c (j ++ c) hS.file hS.prog hne hus huo hpos hd hdc]
    have hdis : enabled cfg (clearVolatile { s with files := upd s.files (cfg.fowner k) k (some (j ++ c)) } n true)
        (.fremove n k) = false := by
      simp [enabled, clearVolatile]
    unfold step
    rw [hdis]
    simp only [Bool.false_eq_true, if_false]
    refine ⟨by simp [clearVolatile], ?_, by simp [clearVolatile, upd]⟩
    simp only [clearVolatile, upd]
    rw [if_neg (by rintro ⟨e, _⟩; exact hne e)]
    exact hS.file
  | succ fuel ih =>
    intro i s hi hS
    have hlt : i < (chunks cfg.cs c).length := by omega
    simp only [sendFrom]
    rw [if_neg (by simp [noFault])]
    have hcor : corruptFor (noFault : Fault N K) k i = none := rfl
    rw [hcor]
    have e := step_fchunk_eq cfg s n k c i hS.file hS.prog hne hus huo hlt none
    have hS' : SendingP cfg n k c j (i + 1) (step cfg (.fchunk n k none) s) := by
      rw [e]
      refine ⟨?_, by simp [upd, progress], ?_⟩
      · show upd s.files (cfg.fowner k) k _ n k = some c
        simp only [upd]; rw [if_neg (by rintro ⟨e1, _⟩; exact hne e1)]; exact hS.file
      · show upd s.files (cfg.fowner k) k _ (cfg.fowner k) k = _
        simp only [upd, and_self, if_true, Option.getD_none, Option.some.injEq]
        rw [take_succ_flatten _ _ hlt, hS.dst]
        simp [recvWrite, htr]
    exact ih (i + 1) _ (by omega) hS'

/-- one more start-up of node `n` (restart, then the transfer of shard `k`) -/
def retry (cfg : Cfg N K) (n : N) (k : K) (s : St N K) : St N K :=
  syncFile cfg noFault n k (step cfg (.restart n) s)

def retries (cfg : Cfg N K) (n : N) (k : K) : Nat → St N K → St N K
  | 0, s => s
  | r + 1, s => retries cfg n k r (retry cfg n k s)

theorem retry_pinned (cfg : Cfg N K) (hs : SumOK cfg) (htr : cfg.trunc0 = false) (hcs : 0 < cfg.cs)
    (n : N) (k : K) (c j : Content) (hne : n ≠ cfg.fowner k) (hus : cfg.up n = true)
    (huo : cfg.up (cfg.fowner k) = true) (hc : c ≠ []) (hj : j ≠ []) (s : St N K)
    (hf : s.files n k = some c) (hd : s.files (cfg.fowner k) k = some j) :
    (retry cfg n k s).failed n = true ∧ (retry cfg n k s).files n k = some c ∧
      (retry cfg n k s).files (cfg.fowner k) k = some (j ++ c) := by
  unfold retry syncFile
  have e0 : step cfg (.restart n) s = clearVolatile s n false := by simp [step, enabled, apply]
  rw [e0]
  rw [if_neg (by simp [clearVolatile]; exact fun e => hne e.symm)]
  have hf' : (clearVolatile s n false).files n k = some c := hf
  rw [hf']
  simp only
  rw [if_neg (by simp [noFault, huo])]
  exact sendFrom_pinned cfg hs htr hcs n k c j hne hus huo hc hj _ 0 _ (by omega)
    ⟨hf, by simp [clearVolatile, progress], by show s.files _ _ = _; simp [hd]⟩

theorem retries_pinned (cfg : Cfg N K) (hs : SumOK cfg) (htr : cfg.trunc0 = false) (hcs : 0 < cfg.cs)
    (n : N) (k : K) (c : Content) (hne : n ≠ cfg.fowner k) (hus : cfg.up n = true)
    (huo : cfg.up (cfg.fowner k) = true) (hc : c ≠ []) :
    ∀ (r : Nat) (j : Content) (s : St N K), j ≠ [] → s.files n k = some c → s.files (cfg.fowner k) k = some j →
      (retries cfg n k (r + 1) s).failed n = true ∧ (retries cfg n k (r + 1) s).files n k = some c ∧
      ∃ j', j' ≠ [] ∧ j'.length = j.length + (r + 1) * c.length ∧
        (retries cfg n k (r + 1) s).files (cfg.fowner k) k = some j' := by
  intro r
  induction r with
  | zero =>
    intro j s hj hf hd
    obtain ⟨a, b, d⟩ := retry_pinned cfg hs htr hcs n k c j hne hus huo hc hj s hf hd
    exact ⟨a, b, j ++ c, by simp [hj], by simp, d⟩
  | succ r ih =>
    intro j s hj hf hd
    obtain ⟨_, b, d⟩ := retry_pinned cfg hs htr hcs n k c j hne hus huo hc hj s hf hd
    obtain ⟨x, y, j', z1, z2, z3⟩ := ih (j ++ c) (retry cfg n k s) (by simp [hj]) b d
    refine ⟨x, y, j', z1, ?_, z3⟩
    rw [z2]; simp [Nat.add_mul]; omega

/-! ### an injective checksum (so that `SumOK` is satisfiable) -/

def enc : Content → Nat
  | [] => 0
  | x :: xs => 2 ^ x * (2 * enc xs + 1)

theorem two_pow_odd_inj : ∀ (x y a b : Nat), 2 ^ x * (2 * a + 1) = 2 ^ y * (2 * b + 1) → x = y ∧ a = b := by
  have odd_ne_even : ∀ (p a b : Nat), 2 * a + 1 ≠ 2 ^ (p + 1) * (2 * b + 1) := by
    intro p a b h
    have : 2 ^ (p + 1) * (2 * b + 1) = 2 * (2 ^ p * (2 * b + 1)) := by
      rw [Nat.pow_succ, Nat.mul_comm (2 ^ p) 2, Nat.mul_assoc]
    rw [this] at h
    generalize 2 ^ p * (2 * b + 1) = q at h
    omega
  intro x
  induction x with
  | zero =>
    intro y a b h
    cases y with
    | zero => simp at h; exact ⟨rfl, by omega⟩
    | succ y => simp only [Nat.pow_zero, Nat.one_mul] at h; exact absurd h (odd_ne_even y a b)
  | succ x ih =>
    intro y a b h
    cases y with
    | zero => simp only [Nat.pow_zero, Nat.one_mul] at h; exact absurd h.symm (odd_ne_even x b a)
    | succ y =>
      have e1 : 2 ^ (x + 1) * (2 * a + 1) = 2 * (2 ^ x * (2 * a + 1)) := by
        rw [Nat.pow_succ, Nat.mul_comm (2 ^ x) 2, Nat.mul_assoc]
      have e2 : 2 ^ (y + 1) * (2 * b + 1) = 2 * (2 ^ y * (2 * b + 1)) := by
        rw [Nat.pow_succ, Nat.mul_comm (2 ^ y) 2, Nat.mul_assoc]
      rw [e1, e2] at h
      obtain ⟨e1, e2⟩ := ih y a b (by omega)
      exact ⟨by omega, e2⟩

theorem enc_pos (x : Nat) (xs : Content) : 0 < enc (x :: xs) := by
  simp only [enc]
  exact Nat.mul_pos (Nat.two_pow_pos x) (by omega)

theorem enc_inj : ∀ a b : Content, enc a = enc b → a = b := by
  intro a
  induction a with
  | nil =>
    intro b h
    cases b with
    | nil => rfl
    | cons y ys => have := enc_pos y ys; have h0 : enc ([] : Content) = 0 := rfl; omega
  | cons x xs ih =>
    intro b h
    cases b with
    | nil => have := enc_pos x xs; have h0 : enc ([] : Content) = 0 := rfl; omega
    | cons y ys =>
      simp only [enc] at h
      obtain ⟨e1, e2⟩ := two_pow_odd_inj _ _ _ _ h
      rw [e1, ih ys e2]

end Sema.C14
