/- C14: the inductive invariant behind `C14_no_loss` and its preservation by every event -/
import SemaModel.C14.Lemmas
namespace Sema.C14

variable {N K : Type} [DecidableEq N] [DecidableEq K]

/-- `ro` / `fo`: the records / shard files that existed when the server list changed (ghost). -/
structure Inv (cfg : Cfg N K) (ro fo : K → Option Content) (s : St N K) : Prop where
  /-- every copy of a record is the original -/
  r1 : ∀ n k v, s.recs n k = some v → ro k = some v
  /-- no record is lost -/
  r2 : ∀ k v, ro k = some v → ∃ n, s.recs n k = some v
  /-- a confirmed record is stored at its owner, and the owner is somebody else -/
  r3 : ∀ n k, s.rconf n k = true → n ≠ cfg.owner k ∧ (s.recs (cfg.owner k) k).isSome
  /-- a copy of a shard file outside its owner is the complete original -/
  f1 : ∀ n k c, s.files n k = some c → n ≠ cfg.fowner k → fo k = some c
  /-- no shard file is lost -/
  f2 : ∀ k c, fo k = some c → ∃ n, s.files n k = some c
  /-- the source directory is removed only when the owner holds the complete original -/
  f3 : ∀ n k, s.fph n k = .confirmed →
        n ≠ cfg.fowner k ∧ (s.files n k).isSome ∧ s.files (cfg.fowner k) k = fo k ∧ (fo k).isSome
  /-- at most one node other than the owner holds a shard -/
  f4 : ∀ n n' k, n ≠ cfg.fowner k → n' ≠ cfg.fowner k → (s.files n k).isSome → (s.files n' k).isSome → n = n'
  /-- nothing but (pieces of) known shards exists -/
  f5 : ∀ n k, (s.files n k).isSome → (fo k).isSome

/-- what the checksum is assumed to do (explicit hypotheses, never axioms) -/
structure SumOK (cfg : Cfg N K) : Prop where
  inj : ∀ a b, cfg.sum a = cfg.sum b → a = b
  empty_ne_zero : cfg.sum [] ≠ 0

omit [DecidableEq K] in
theorem inv_clear {cfg : Cfg N K} {ro fo} {s : St N K} (h : Inv cfg ro fo s) (n : N) (b : Bool) :
    Inv cfg ro fo (clearVolatile s n b) := by
  refine ⟨h.r1, h.r2, ?_, h.f1, h.f2, ?_, h.f4, h.f5⟩
  · intro n' k hc
    simp only [clearVolatile] at hc
    split at hc
    · simp at hc
    · exact h.r3 n' k hc
  · intro n' k hc
    simp only [clearVolatile] at hc
    split at hc
    · simp at hc
    · exact h.f3 n' k hc

theorem inv_rsend {cfg : Cfg N K} {ro fo} {s : St N K} (h : Inv cfg ro fo s) (src dst : N) (batch : List K)
    (ok : Bool) (hen : enabled cfg s (.rsend src dst batch ok) = true) :
    Inv cfg ro fo (apply cfg s (.rsend src dst batch ok)) := by
  simp only [enabled, decide_eq_true_eq, Bool.and_eq_true, List.all_eq_true, Bool.decide_and] at hen
  obtain ⟨hne, hb⟩ := hen
  have hb' : ∀ k ∈ batch, cfg.owner k = dst ∧ (s.recs src k).isSome := by
    intro k hk; have := hb k hk; simpa using this
  refine ⟨?_, ?_, ?_, h.f1, h.f2, h.f3, h.f4, h.f5⟩
  · intro n k v hv
    simp only [apply] at hv
    split at hv
    · exact h.r1 _ _ _ hv
    · exact h.r1 _ _ _ hv
  · intro k v hro
    obtain ⟨n, hn⟩ := h.r2 k v hro
    refine ⟨n, ?_⟩
    simp only [apply]
    split
    · rename_i hc
      obtain ⟨v', hv'⟩ := Option.isSome_iff_exists.mp (hb' k hc.2).2
      have := h.r1 _ _ _ hv'
      rw [hv', ← this, hro]
    · exact hn
  · intro n k hc
    simp only [apply] at hc ⊢
    have howner : cfg.owner k = dst ∧ k ∈ batch → (s.recs src k).isSome := fun hh => (hb' k hh.2).2
    split at hc
    · rename_i hcc
      obtain ⟨hn, hk, _⟩ := hcc
      have ho := (hb' k hk).1
      subst hn
      refine ⟨by rw [ho]; exact hne, ?_⟩
      simp [ho, hk, (hb' k hk).2]
    · obtain ⟨h1, h2⟩ := h.r3 n k hc
      refine ⟨h1, ?_⟩
      split
      · rename_i hcc; exact (hb' k hcc.2).2
      · exact h2

theorem inv_rdelete {cfg : Cfg N K} {ro fo} {s : St N K} (h : Inv cfg ro fo s) (src : N) (batch : List K)
    (hen : enabled cfg s (.rdelete src batch) = true) :
    Inv cfg ro fo (apply cfg s (.rdelete src batch)) := by
  simp only [enabled, List.all_eq_true] at hen
  refine ⟨?_, ?_, ?_, h.f1, h.f2, h.f3, h.f4, h.f5⟩
  · intro n k v hv
    simp only [apply] at hv
    split at hv
    · simp at hv
    · exact h.r1 _ _ _ hv
  · intro k v hro
    obtain ⟨n, hn⟩ := h.r2 k v hro
    by_cases hc : n = src ∧ k ∈ batch
    · obtain ⟨h1, h2⟩ := h.r3 src k (hen k hc.2)
      obtain ⟨v', hv'⟩ := Option.isSome_iff_exists.mp h2
      have := h.r1 _ _ _ hv'
      refine ⟨cfg.owner k, ?_⟩
      simp only [apply]
      rw [if_neg (by intro hh; exact h1 hh.1.symm), hv', ← this, hro]
    · exact ⟨n, by simp only [apply]; rw [if_neg hc]; exact hn⟩
  · intro n k hc
    simp only [apply] at hc ⊢
    split at hc
    · simp at hc
    · obtain ⟨h1, h2⟩ := h.r3 n k hc
      refine ⟨h1, ?_⟩
      rw [if_neg]
      · exact h2
      · intro hh
        exact (h.r3 src k (hen k hh.2)).1 hh.1.symm

/-- facts shared by `fchunk` and `ffinal`: the owner's file of shard `k` is overwritten by a node `src`
that holds `k`, is not the owner, and is not in phase `confirmed` -/
theorem inv_owner_write {cfg : Cfg N K} {ro fo} {s : St N K} (h : Inv cfg ro fo s) (src : N) (k : K)
    (c w : Content) (hsrc : s.files src k = some c) (hne : src ≠ cfg.fowner k)
    (hph : s.fph src k ≠ .confirmed) (fph' : N → K → Phase)
    (hfph : ∀ n k', fph' n k' = .confirmed → s.fph n k' = .confirmed ∨
        (n = src ∧ k' = k ∧ w = c)) :
    Inv cfg ro fo { s with files := upd s.files (cfg.fowner k) k (some w), fph := fph' } := by
  have hfo : fo k = some c := h.f1 _ _ _ hsrc hne
  have hother : ∀ n k', ¬ (n = cfg.fowner k ∧ k' = k) → upd s.files (cfg.fowner k) k (some w) n k' = s.files n k' := by
    intro n k' hh; simp [upd, hh]
  refine ⟨h.r1, h.r2, h.r3, ?_, ?_, ?_, ?_, ?_⟩
  · intro n k' c' hc' hn
    have : ¬ (n = cfg.fowner k ∧ k' = k) := by rintro ⟨h1, h2⟩; subst h2; exact hn h1
    simp only [hother n k' this] at hc'
    exact h.f1 _ _ _ hc' hn
  · intro k' c' hfo'
    by_cases hk : k' = k
    · subst hk
      refine ⟨src, ?_⟩
      simp only [hother src k' (by rintro ⟨h1, _⟩; exact hne h1)]
      rw [hsrc, ← hfo, hfo']
    · obtain ⟨n, hn⟩ := h.f2 k' c' hfo'
      exact ⟨n, by simp only [hother n k' (by rintro ⟨_, h2⟩; exact hk h2)]; exact hn⟩
  · intro n k' hc
    rcases hfph n k' hc with hold | ⟨h1, h2, h3⟩
    · obtain ⟨a1, a2, a3, a4⟩ := h.f3 n k' hold
      have hk : k' ≠ k := by
        intro e; subst e
        have : n = src := h.f4 n src k' a1 hne a2 (by simp [hsrc])
        subst this; exact hph hold
      refine ⟨a1, ?_, ?_, a4⟩
      · simp only [hother n k' (by rintro ⟨_, h2⟩; exact hk h2)]; exact a2
      · simp only [hother (cfg.fowner k') k' (by rintro ⟨_, h2⟩; exact hk h2)]; exact a3
    · subst h1; subst h2; subst h3
      refine ⟨hne, ?_, ?_, by simp [hfo]⟩
      · simp only [hother n k' (by rintro ⟨h1, _⟩; exact hne h1)]; simp [hsrc]
      · simp [upd, hfo]
  · intro n n' k' hn hn' h1 h2
    simp only [hother n k' (by rintro ⟨a, b⟩; subst b; exact hn a)] at h1
    simp only [hother n' k' (by rintro ⟨a, b⟩; subst b; exact hn' a)] at h2
    exact h.f4 n n' k' hn hn' h1 h2
  · intro n k' hs
    by_cases hh : n = cfg.fowner k ∧ k' = k
    · rw [hh.2]; simp [hfo]
    · simp only [hother n k' hh] at hs
      exact h.f5 n k' hs

theorem inv_fchunk {cfg : Cfg N K} {ro fo} {s : St N K} (h : Inv cfg ro fo s) (src : N) (k : K)
    (cor : Option Content) (hen : enabled cfg s (.fchunk src k cor) = true) :
    Inv cfg ro fo (apply cfg s (.fchunk src k cor)) := by
  simp only [enabled] at hen
  simp only [apply]
  split
  · rename_i c i hc hp
    rw [hc, hp] at hen
    simp only [decide_eq_true_eq, Bool.and_eq_true, Bool.decide_and] at hen
    have hne : src ≠ cfg.fowner k := by simpa using hen.1
    apply inv_owner_write h src k c _ hc hne
    · intro e; rw [e] at hp; simp [progress] at hp
    · intro n k' hcf
      left
      simp only [upd] at hcf
      split at hcf
      · simp at hcf
      · exact hcf
  · exact h

theorem inv_ffinal {cfg : Cfg N K} (hs : SumOK cfg) {ro fo} {s : St N K} (h : Inv cfg ro fo s) (src : N) (k : K)
    (hen : enabled cfg s (.ffinal src k) = true) :
    Inv cfg ro fo (apply cfg s (.ffinal src k)) := by
  simp only [enabled] at hen
  simp only [apply]
  split
  · rename_i c i hc hp
    rw [hc, hp] at hen
    simp only [decide_eq_true_eq, Bool.and_eq_true, Bool.decide_and] at hen
    have hne : src ≠ cfg.fowner k := by simpa using hen.1
    have hi : i = (chunks cfg.cs c).length := by simpa using hen.2
    have hph : s.fph src k ≠ .confirmed := by intro e; rw [e] at hp; simp [progress] at hp
    split
    · rename_i hsum
      apply inv_owner_write h src k c _ hc hne hph
      intro n k' hcf
      simp only [upd] at hcf
      split at hcf
      · rename_i hh
        right
        refine ⟨hh.1, hh.2, ?_⟩
        simp only [replySum, List.isEmpty_nil, and_true] at hsum
        split at hsum
        · exact (hs.inj _ _ hsum).symm
        · rename_i hi0
          have hi0 : i = 0 := by omega
          have hcnil : c = [] := by
            rcases Nat.eq_zero_or_pos (chunks cfg.cs c).length with hz | hpos
            · false_or_by_contra
              rename_i hcn
              have := (chunks_length_pos cfg.cs c).mpr hcn
              omega
            · omega
          rw [hcnil] at hsum
          exact absurd hsum hs.empty_ne_zero
      · left; exact hcf
    · have := inv_owner_write h src k c (recvWrite cfg.trunc0 (s.files (cfg.fowner k) k) i []) hc hne hph s.fph
        (fun n k' hcf => Or.inl hcf)
      exact inv_clear this src true
  · exact h

theorem inv_fremove {cfg : Cfg N K} {ro fo} {s : St N K} (h : Inv cfg ro fo s) (src : N) (k : K)
    (hen : enabled cfg s (.fremove src k) = true) :
    Inv cfg ro fo (apply cfg s (.fremove src k)) := by
  simp only [enabled, decide_eq_true_eq] at hen
  obtain ⟨a1, a2, a3, a4⟩ := h.f3 src k hen
  have hother : ∀ n k', ¬ (n = src ∧ k' = k) → upd s.files src k none n k' = s.files n k' := by
    intro n k' hh; simp [upd, hh]
  simp only [apply]
  refine ⟨h.r1, h.r2, h.r3, ?_, ?_, ?_, ?_, ?_⟩
  · intro n k' c' hc' hn
    by_cases hh : n = src ∧ k' = k
    · simp [upd, hh] at hc'
    · simp only [hother n k' hh] at hc'; exact h.f1 _ _ _ hc' hn
  · intro k' c' hfo'
    obtain ⟨n, hn⟩ := h.f2 k' c' hfo'
    by_cases hh : n = src ∧ k' = k
    · obtain ⟨e1, e2⟩ := hh
      subst e1; subst e2
      refine ⟨cfg.fowner k', ?_⟩
      simp only [hother (cfg.fowner k') k' (by rintro ⟨e, _⟩; exact a1 e.symm)]
      rw [a3, hfo']
    · exact ⟨n, by simp only [hother n k' hh]; exact hn⟩
  · intro n k' hc
    simp only [upd] at hc
    split at hc
    · simp at hc
    · rename_i hh
      obtain ⟨b1, b2, b3, b4⟩ := h.f3 n k' hc
      refine ⟨b1, ?_, ?_, b4⟩
      · simp only [hother n k' hh]; exact b2
      · have : ¬ (cfg.fowner k' = src ∧ k' = k) := by
          rintro ⟨e1, e2⟩; subst e2; exact a1 e1.symm
        simp only [hother _ k' this]; exact b3
  · intro n n' k' hn hn' h1 h2
    have g : ∀ m, (upd s.files src k none m k').isSome → (s.files m k').isSome := by
      intro m hm
      by_cases hh : m = src ∧ k' = k
      · simp [upd, hh] at hm
      · simpa only [hother m k' hh] using hm
    exact h.f4 n n' k' hn hn' (g n h1) (g n' h2)
  · intro n k' hs
    by_cases hh : n = src ∧ k' = k
    · simp [upd, hh] at hs
    · simp only [hother n k' hh] at hs; exact h.f5 n k' hs

/-- every event preserves the invariant -/
theorem inv_step {cfg : Cfg N K} (hs : SumOK cfg) {ro fo} {s : St N K} (h : Inv cfg ro fo s) (l : Label N K) :
    Inv cfg ro fo (step cfg l s) := by
  unfold step
  split
  · rename_i hen
    cases l with
    | rsend src dst batch ok => exact inv_rsend h src dst batch ok hen
    | rdelete src batch => exact inv_rdelete h src batch hen
    | fchunk src k cor => exact inv_fchunk h src k cor hen
    | ffinal src k => exact inv_ffinal hs h src k hen
    | fremove src k => exact inv_fremove h src k hen
    | fail n => exact inv_clear h n true
    | restart n => exact inv_clear h n false
  · exact h

theorem inv_reachable {cfg : Cfg N K} (hs : SumOK cfg) {ro fo} {s0 s : St N K} (h0 : Inv cfg ro fo s0)
    (hr : Reachable cfg s0 s) : Inv cfg ro fo s := by
  induction hr with
  | init => exact h0
  | step l _ ih => exact inv_step hs ih l

end Sema.C14
