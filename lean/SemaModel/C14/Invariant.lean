/- C14: the inductive invariant behind `C14_no_loss` and its preservation by every event -/
import SemaModel.C14.Lemmas
namespace Sema.C14

variable {N K : Type} [DecidableEq N] [DecidableEq K]

/-- `ro` / `fo` (ghost): the current content of every record / shard file — as it was when the server
list changed and, in a history with client writes, as it was last written through the cluster.
Only the nodes started in the current epoch (`cfg.up`) take part; a switched-off node may hold
anything (older copies included), and so may the routing owner (an older copy there is replaced by
the transfer of the current one). -/
structure Inv (cfg : Cfg N K) (ro fo : K → Option Content) (s : St N K) : Prop where
  /-- a copy of a record on a started node other than the owner is the current record -/
  r1 : ∀ n k v, cfg.up n = true → n ≠ cfg.owner k → s.recs n k = some v → ro k = some v
  /-- no record is lost: the current record is on a started node -/
  r2 : ∀ k v, ro k = some v → ∃ n, cfg.up n = true ∧ s.recs n k = some v
  /-- a confirmed record is still at the sender, the owner is somebody else, runs, and holds the
  current record -/
  r3 : ∀ n k, s.rconf n k = true → cfg.up n = true ∧ n ≠ cfg.owner k ∧ cfg.up (cfg.owner k) = true ∧
        (s.recs n k).isSome ∧ s.recs (cfg.owner k) k = ro k
  /-- a copy of a shard file on a started node other than the owner is the complete current file -/
  f1 : ∀ n k c, cfg.up n = true → n ≠ cfg.fowner k → s.files n k = some c → fo k = some c
  /-- no shard file is lost -/
  f2 : ∀ k c, fo k = some c → ∃ n, cfg.up n = true ∧ s.files n k = some c
  /-- the source directory is removed only when the owner (which runs) holds the complete current file -/
  f3 : ∀ n k, s.fph n k = .confirmed →
        cfg.up n = true ∧ n ≠ cfg.fowner k ∧ (s.files n k).isSome ∧ s.files (cfg.fowner k) k = fo k ∧
        cfg.up (cfg.fowner k) = true
  /-- at most one started node other than the owner holds a shard -/
  f4 : ∀ n n' k, cfg.up n = true → cfg.up n' = true → n ≠ cfg.fowner k → n' ≠ cfg.fowner k →
        (s.files n k).isSome → (s.files n' k).isSome → n = n'

/-- within one epoch without client writes and with nothing out of date to begin with: EVERY copy
of a record is the original and nothing but (pieces of) known shards exists -/
structure Strict (ro fo : K → Option Content) (s : St N K) : Prop where
  r : ∀ n k v, s.recs n k = some v → ro k = some v
  f : ∀ n k, (s.files n k).isSome → (fo k).isSome

/-- what the checksum is assumed to do (explicit hypotheses, never axioms) -/
structure SumOK (cfg : Cfg N K) : Prop where
  inj : ∀ a b, cfg.sum a = cfg.sum b → a = b
  empty_ne_zero : cfg.sum [] ≠ 0

omit [DecidableEq K] in
theorem inv_clear {cfg : Cfg N K} {ro fo} {s : St N K} (h : Inv cfg ro fo s) (n : N) (b : Bool) :
    Inv cfg ro fo (clearVolatile s n b) := by
  refine ⟨h.r1, h.r2, ?_, h.f1, h.f2, ?_, h.f4⟩
  · intro n' k hc
    simp only [clearVolatile] at hc
    split at hc
    · simp at hc
    · exact h.r3 n' k hc
  · intro n' k hc
    simp only [clearVolatile] at hc
    split at hc
    · simp at hc
    · exact h.f3 n' k hc

omit [DecidableEq K] in
/-- what `enabled` says about `rsend` -/
theorem rsend_enabled {cfg : Cfg N K} {s : St N K} {src dst : N} {batch : List K} {ok : Bool}
    (hen : enabled cfg s (.rsend src dst batch ok) = true) :
    cfg.up src = true ∧ cfg.up dst = true ∧ src ≠ dst ∧
      ∀ k ∈ batch, cfg.owner k = dst ∧ (s.recs src k).isSome := by
  simp only [enabled, decide_eq_true_eq, Bool.and_eq_true, List.all_eq_true, Bool.decide_and] at hen
  obtain ⟨h1, h2, h3, h4⟩ := hen
  exact ⟨h1, h2, h3, fun k hk => by have := h4 k hk; simpa using this⟩

theorem inv_rsend {cfg : Cfg N K} {ro fo} {s : St N K} (h : Inv cfg ro fo s) (src dst : N) (batch : List K)
    (ok : Bool) (hen : enabled cfg s (.rsend src dst batch ok) = true) :
    Inv cfg ro fo (apply cfg s (.rsend src dst batch ok)) := by
  obtain ⟨hus, hud, hne, hb'⟩ := rsend_enabled hen
  -- what the sender ships is the current record
  have hcur : ∀ k ∈ batch, s.recs src k = ro k ∧ (ro k).isSome := by
    intro k hk
    obtain ⟨ho, hsome⟩ := hb' k hk
    obtain ⟨v, hv⟩ := Option.isSome_iff_exists.mp hsome
    have := h.r1 src k v hus (by rw [ho]; exact hne) hv
    exact ⟨by rw [hv, this], by rw [this]; rfl⟩
  refine ⟨?_, ?_, ?_, h.f1, h.f2, h.f3, h.f4⟩
  · intro n k v hun hno hv
    simp only [apply] at hv
    split at hv
    · rename_i hc
      exact absurd (hc.1.trans (hb' k hc.2).1.symm) hno
    · exact h.r1 _ _ _ hun hno hv
  · intro k v hro
    obtain ⟨n, hun, hn⟩ := h.r2 k v hro
    refine ⟨n, hun, ?_⟩
    simp only [apply]
    split
    · rename_i hc
      rw [(hcur k hc.2).1, hro]
    · exact hn
  · intro n k hc
    simp only [apply] at hc ⊢
    split at hc
    · rename_i hcc
      obtain ⟨hn, hk, _⟩ := hcc
      have ho := (hb' k hk).1
      subst hn
      refine ⟨hus, by rw [ho]; exact hne, by rw [ho]; exact hud, ?_, ?_⟩
      · rw [if_neg (by rintro ⟨e, _⟩; exact hne e)]; exact (hb' k hk).2
      · rw [if_pos ⟨ho, hk⟩]; exact (hcur k hk).1
    · obtain ⟨h1, h2, h3, h4, h5⟩ := h.r3 n k hc
      refine ⟨h1, h2, h3, ?_, ?_⟩
      · rw [if_neg (by rintro ⟨e, hk⟩; exact h2 (e.trans (hb' k hk).1.symm))]; exact h4
      · split
        · rename_i hcc; exact (hcur k hcc.2).1
        · exact h5

theorem inv_rdelete {cfg : Cfg N K} {ro fo} {s : St N K} (h : Inv cfg ro fo s) (src : N) (batch : List K)
    (hen : enabled cfg s (.rdelete src batch) = true) :
    Inv cfg ro fo (apply cfg s (.rdelete src batch)) := by
  simp only [enabled, List.all_eq_true] at hen
  refine ⟨?_, ?_, ?_, h.f1, h.f2, h.f3, h.f4⟩
  · intro n k v hun hno hv
    simp only [apply] at hv
    split at hv
    · simp at hv
    · exact h.r1 _ _ _ hun hno hv
  · intro k v hro
    obtain ⟨n, hun, hn⟩ := h.r2 k v hro
    by_cases hc : n = src ∧ k ∈ batch
    · obtain ⟨_, h1, h2, _, h4⟩ := h.r3 src k (hen k hc.2)
      refine ⟨cfg.owner k, h2, ?_⟩
      simp only [apply]
      rw [if_neg (by intro hh; exact h1 hh.1.symm), h4, hro]
    · exact ⟨n, hun, by simp only [apply]; rw [if_neg hc]; exact hn⟩
  · intro n k hc
    simp only [apply] at hc ⊢
    split at hc
    · simp at hc
    · rename_i hnb
      obtain ⟨h1, h2, h3, h4, h5⟩ := h.r3 n k hc
      refine ⟨h1, h2, h3, ?_, ?_⟩
      · rw [if_neg hnb]; exact h4
      · rw [if_neg]
        · exact h5
        · intro hh
          exact (h.r3 src k (hen k hh.2)).2.1 hh.1.symm

/-- facts shared by `fchunk` and `ffinal`: the owner's file of shard `k` is overwritten by a started node
`src` that holds `k`, is not the owner, and is not in phase `confirmed` -/
theorem inv_owner_write {cfg : Cfg N K} {ro fo} {s : St N K} (h : Inv cfg ro fo s) (src : N) (k : K)
    (c w : Content) (hsrc : s.files src k = some c) (hus : cfg.up src = true)
    (huo : cfg.up (cfg.fowner k) = true) (hne : src ≠ cfg.fowner k)
    (hph : s.fph src k ≠ .confirmed) (fph' : N → K → Phase)
    (hfph : ∀ n k', fph' n k' = .confirmed → s.fph n k' = .confirmed ∨
        (n = src ∧ k' = k ∧ w = c)) :
    Inv cfg ro fo { s with files := upd s.files (cfg.fowner k) k (some w), fph := fph' } := by
  have hfo : fo k = some c := h.f1 _ _ _ hus hne hsrc
  have hother : ∀ n k', ¬ (n = cfg.fowner k ∧ k' = k) → upd s.files (cfg.fowner k) k (some w) n k' = s.files n k' := by
    intro n k' hh; simp [upd, hh]
  refine ⟨h.r1, h.r2, h.r3, ?_, ?_, ?_, ?_⟩
  · intro n k' c' hun hn hc'
    have : ¬ (n = cfg.fowner k ∧ k' = k) := by rintro ⟨h1, h2⟩; subst h2; exact hn h1
    simp only [hother n k' this] at hc'
    exact h.f1 _ _ _ hun hn hc'
  · intro k' c' hfo'
    by_cases hk : k' = k
    · subst hk
      refine ⟨src, hus, ?_⟩
      simp only [hother src k' (by rintro ⟨h1, _⟩; exact hne h1)]
      rw [hsrc, ← hfo, hfo']
    · obtain ⟨n, hun, hn⟩ := h.f2 k' c' hfo'
      exact ⟨n, hun, by simp only [hother n k' (by rintro ⟨_, h2⟩; exact hk h2)]; exact hn⟩
  · intro n k' hc
    rcases hfph n k' hc with hold | ⟨h1, h2, h3⟩
    · obtain ⟨a0, a1, a2, a3, a4⟩ := h.f3 n k' hold
      have hk : k' ≠ k := by
        intro e; subst e
        have : n = src := h.f4 n src k' a0 hus a1 hne a2 (by simp [hsrc])
        subst this; exact hph hold
      refine ⟨a0, a1, ?_, ?_, a4⟩
      · simp only [hother n k' (by rintro ⟨_, h2⟩; exact hk h2)]; exact a2
      · simp only [hother (cfg.fowner k') k' (by rintro ⟨_, h2⟩; exact hk h2)]; exact a3
    · subst h1; subst h2; subst h3
      refine ⟨hus, hne, ?_, ?_, huo⟩
      · simp only [hother n k' (by rintro ⟨h1, _⟩; exact hne h1)]; simp [hsrc]
      · simp [upd, hfo]
  · intro n n' k' hun hun' hn hn' h1 h2
    simp only [hother n k' (by rintro ⟨a, b⟩; subst b; exact hn a)] at h1
    simp only [hother n' k' (by rintro ⟨a, b⟩; subst b; exact hn' a)] at h2
    exact h.f4 n n' k' hun hun' hn hn' h1 h2

omit [DecidableEq K] in
/-- what `enabled` says about `fchunk` / `ffinal` -/
theorem fchunk_enabled {cfg : Cfg N K} {s : St N K} {src : N} {k : K} {cor : Option Content}
    (hen : enabled cfg s (.fchunk src k cor) = true) :
    ∃ c i, s.files src k = some c ∧ progress (s.fph src k) = some i ∧ cfg.up src = true ∧
      cfg.up (cfg.fowner k) = true ∧ src ≠ cfg.fowner k ∧ i < (chunks cfg.cs c).length := by
  simp only [enabled] at hen
  split at hen
  · rename_i c i hc hp
    simp only [decide_eq_true_eq, Bool.and_eq_true, Bool.decide_and] at hen
    exact ⟨c, i, hc, hp, hen.1, hen.2.1, by simpa using hen.2.2.1, by simpa using hen.2.2.2⟩
  · cases hen

omit [DecidableEq K] in
theorem ffinal_enabled {cfg : Cfg N K} {s : St N K} {src : N} {k : K}
    (hen : enabled cfg s (.ffinal src k) = true) :
    ∃ c i, s.files src k = some c ∧ progress (s.fph src k) = some i ∧ cfg.up src = true ∧
      cfg.up (cfg.fowner k) = true ∧ src ≠ cfg.fowner k ∧ i = (chunks cfg.cs c).length := by
  simp only [enabled] at hen
  split at hen
  · rename_i c i hc hp
    simp only [decide_eq_true_eq, Bool.and_eq_true, Bool.decide_and] at hen
    exact ⟨c, i, hc, hp, hen.1, hen.2.1, by simpa using hen.2.2.1, by simpa using hen.2.2.2⟩
  · cases hen

theorem inv_fchunk {cfg : Cfg N K} {ro fo} {s : St N K} (h : Inv cfg ro fo s) (src : N) (k : K)
    (cor : Option Content) (hen : enabled cfg s (.fchunk src k cor) = true) :
    Inv cfg ro fo (apply cfg s (.fchunk src k cor)) := by
  obtain ⟨c, i, hc, hp, hus, huo, hne, _⟩ := fchunk_enabled hen
  simp only [apply, hc, hp]
  apply inv_owner_write h src k c _ hc hus huo hne
  · intro e; rw [e] at hp; simp [progress] at hp
  · intro n k' hcf
    left
    simp only [upd] at hcf
    split at hcf
    · simp at hcf
    · exact hcf

theorem inv_ffinal {cfg : Cfg N K} (hs : SumOK cfg) {ro fo} {s : St N K} (h : Inv cfg ro fo s) (src : N) (k : K)
    (hen : enabled cfg s (.ffinal src k) = true) :
    Inv cfg ro fo (apply cfg s (.ffinal src k)) := by
  obtain ⟨c, i, hc, hp, hus, huo, hne, hi⟩ := ffinal_enabled hen
  simp only [apply, hc, hp]
  have hph : s.fph src k ≠ .confirmed := by intro e; rw [e] at hp; simp [progress] at hp
  split
  · rename_i hsum
    apply inv_owner_write h src k c _ hc hus huo hne hph
    intro n k' hcf
    simp only [upd] at hcf
    split at hcf
    · rename_i hh
      right
      refine ⟨hh.1, hh.2, ?_⟩
      simp only [replySum, List.isEmpty_nil, and_true] at hsum
      split at hsum
      · exact (hs.inj _ _ hsum).symm
      · rename_i hi0
        have hi0 : i = 0 := by omega
        have hcnil : c = [] := by
          rcases Nat.eq_zero_or_pos (chunks cfg.cs c).length with hz | hpos
          · false_or_by_contra
            rename_i hcn
            have := (chunks_length_pos cfg.cs c).mpr hcn
            omega
          · omega
        rw [hcnil] at hsum
        exact absurd hsum hs.empty_ne_zero
    · left; exact hcf
  · have := inv_owner_write h src k c (recvWrite cfg.trunc0 (s.files (cfg.fowner k) k) i []) hc hus huo hne hph s.fph
      (fun n k' hcf => Or.inl hcf)
    exact inv_clear this src true

theorem inv_fremove {cfg : Cfg N K} {ro fo} {s : St N K} (h : Inv cfg ro fo s) (src : N) (k : K)
    (hen : enabled cfg s (.fremove src k) = true) :
    Inv cfg ro fo (apply cfg s (.fremove src k)) := by
  simp only [enabled, decide_eq_true_eq] at hen
  obtain ⟨_, a1, a2, a3, a4⟩ := h.f3 src k hen
  have hother : ∀ n k', ¬ (n = src ∧ k' = k) → upd s.files src k none n k' = s.files n k' := by
    intro n k' hh; simp [upd, hh]
  simp only [apply]
  refine ⟨h.r1, h.r2, h.r3, ?_, ?_, ?_, ?_⟩
  · intro n k' c' hun hn hc'
    by_cases hh : n = src ∧ k' = k
    · simp [upd, hh] at hc'
    · simp only [hother n k' hh] at hc'; exact h.f1 _ _ _ hun hn hc'
  · intro k' c' hfo'
    obtain ⟨n, hun, hn⟩ := h.f2 k' c' hfo'
    by_cases hh : n = src ∧ k' = k
    · obtain ⟨e1, e2⟩ := hh
      subst e1; subst e2
      refine ⟨cfg.fowner k', a4, ?_⟩
      simp only [hother (cfg.fowner k') k' (by rintro ⟨e, _⟩; exact a1 e.symm)]
      rw [a3, hfo']
    · exact ⟨n, hun, by simp only [hother n k' hh]; exact hn⟩
  · intro n k' hc
    simp only [upd] at hc
    split at hc
    · simp at hc
    · rename_i hh
      obtain ⟨b0, b1, b2, b3, b4⟩ := h.f3 n k' hc
      refine ⟨b0, b1, ?_, ?_, b4⟩
      · simp only [hother n k' hh]; exact b2
      · have : ¬ (cfg.fowner k' = src ∧ k' = k) := by
          rintro ⟨e1, e2⟩; subst e2; exact a1 e1.symm
        simp only [hother _ k' this]; exact b3
  · intro n n' k' hun hun' hn hn' h1 h2
    have g : ∀ m, (upd s.files src k none m k').isSome → (s.files m k').isSome := by
      intro m hm
      by_cases hh : m = src ∧ k' = k
      · simp [upd, hh] at hm
      · simpa only [hother m k' hh] using hm
    exact h.f4 n n' k' hun hun' hn hn' (g n h1) (g n' h2)

/-- every event preserves the invariant -/
theorem inv_step {cfg : Cfg N K} (hs : SumOK cfg) {ro fo} {s : St N K} (h : Inv cfg ro fo s) (l : Label N K) :
    Inv cfg ro fo (step cfg l s) := by
  unfold step
  split
  · rename_i hen
    cases l with
    | rsend src dst batch ok => exact inv_rsend h src dst batch ok hen
    | rdelete src batch => exact inv_rdelete h src batch hen
    | fchunk src k cor => exact inv_fchunk h src k cor hen
    | ffinal src k => exact inv_ffinal hs h src k hen
    | fremove src k => exact inv_fremove h src k hen
    | fail n => exact inv_clear h n true
    | restart n => exact inv_clear h n false
  · exact h

theorem inv_reachable {cfg : Cfg N K} (hs : SumOK cfg) {ro fo} {s0 s : St N K} (h0 : Inv cfg ro fo s0)
    (hr : Reachable cfg s0 s) : Inv cfg ro fo s := by
  induction hr with
  | init => exact h0
  | step l _ ih => exact inv_step hs ih l

omit [DecidableEq K] in
/-- what the invariant says at the moment a source copy is removed -/
theorem remove_only_after_confirm {cfg : Cfg N K} {ro fo : K → Option Content} {s : St N K} (i : Inv cfg ro fo s) :
    (∀ src batch, enabled cfg s (.rdelete src batch) = true → ∀ k ∈ batch,
        src ≠ cfg.owner k ∧ (ro k).isSome ∧ s.recs (cfg.owner k) k = ro k) ∧
    (∀ src k, enabled cfg s (.fremove src k) = true →
        src ≠ cfg.fowner k ∧ (fo k).isSome ∧ s.files (cfg.fowner k) k = fo k ∧ s.files src k = fo k) := by
  constructor
  · intro src batch hen k hk
    simp only [enabled, List.all_eq_true] at hen
    obtain ⟨a0, a1, _, a3, a4⟩ := i.r3 src k (hen k hk)
    obtain ⟨v, hv⟩ := Option.isSome_iff_exists.mp a3
    have := i.r1 _ _ _ a0 a1 hv
    exact ⟨a1, by simp [this], a4⟩
  · intro src k hen
    simp only [enabled, decide_eq_true_eq] at hen
    obtain ⟨a0, a1, a2, a3, _⟩ := i.f3 src k hen
    obtain ⟨v, hv⟩ := Option.isSome_iff_exists.mp a2
    have := i.f1 _ _ _ a0 a1 hv
    exact ⟨a1, by simp [this], a3, by rw [hv, this]⟩

/-! ### every copy is the original (one epoch, no client writes, nothing out of date at the start) -/

omit [DecidableEq K] in
theorem strict_clear {ro fo} {s : St N K} (h : Strict ro fo s) (n : N) (b : Bool) :
    Strict ro fo (clearVolatile s n b) := ⟨h.r, h.f⟩

theorem strict_step {cfg : Cfg N K} {ro fo} {s : St N K} (hi : Inv cfg ro fo s) (h : Strict ro fo s)
    (l : Label N K) : Strict ro fo (step cfg l s) := by
  unfold step
  split
  · rename_i hen
    -- the owner's file of `k` is (over)written by a started node that holds the current file
    have hw : ∀ (src : N) (k : K) (c w : Content), s.files src k = some c → cfg.up src = true →
        src ≠ cfg.fowner k → ∀ n k', (upd s.files (cfg.fowner k) k (some w) n k').isSome → (fo k').isSome := by
      intro src k c w hc hus hne n k' hs'
      by_cases hh : n = cfg.fowner k ∧ k' = k
      · rw [hh.2, hi.f1 _ _ _ hus hne hc]; rfl
      · simp only [upd, hh, if_false] at hs'; exact h.f n k' hs'
    cases l with
    | rsend src dst batch ok =>
      refine ⟨?_, h.f⟩
      intro n k v hv
      simp only [apply] at hv
      split at hv <;> exact h.r _ _ _ hv
    | rdelete src batch =>
      refine ⟨?_, h.f⟩
      intro n k v hv
      simp only [apply] at hv
      split at hv
      · simp at hv
      · exact h.r _ _ _ hv
    | fchunk src k cor =>
      obtain ⟨c, i, hc, hp, hus, _, hne, _⟩ := fchunk_enabled hen
      simp only [apply, hc, hp]
      exact ⟨h.r, hw src k c _ hc hus hne⟩
    | ffinal src k =>
      obtain ⟨c, i, hc, hp, hus, _, hne, _⟩ := ffinal_enabled hen
      simp only [apply, hc, hp]
      split
      · exact ⟨h.r, hw src k c _ hc hus hne⟩
      · exact ⟨h.r, hw src k c _ hc hus hne⟩
    | fremove src k =>
      refine ⟨h.r, ?_⟩
      intro n k' hs'
      simp only [apply, upd] at hs'
      split at hs'
      · simp at hs'
      · exact h.f n k' hs'
    | fail n => exact strict_clear h n true
    | restart n => exact strict_clear h n false
  · exact h

theorem strict_reachable {cfg : Cfg N K} (hs : SumOK cfg) {ro fo} {s0 s : St N K} (h0 : Inv cfg ro fo s0)
    (hst : Strict ro fo s0) (hr : Reachable cfg s0 s) : Strict ro fo s := by
  induction hr with
  | init => exact hst
  | step l hr ih => exact strict_step (inv_reachable hs h0 hr) ih l

end Sema.C14
