/-
C14 — start-up rebalancing (cluster/sync.go, cluster/rpchandlers.go).  Executable model, core Lean only.

State of the cluster: per node a record map (node database, bucket `userCollections`) and a file
map (shard directory → content of `sharddb.bbolt`), plus the *volatile* state of a running `Sync`
(which records were confirmed by the receiver, how far each shard transfer got, whether `Sync`
returned an error — fatal in main.go).

Everything that happens is a `Label`; `step cfg l s` applies it when it is enabled and stutters
otherwise, so every list of labels is a run.  Failures are labels too (`fail`, `restart`, a reply
that is lost, a chunk that is corrupted in transit); an interrupted round is simply a run that stops
somewhere.  `syncNode` is the label sequence the code of `Sync` produces on one node.

Content is a list of symbols (`Nat`): bytes for hand-made chunk sequences, 4 KiB pages (by hash)
for real bbolt files; the theorems hold for every list.
-/
namespace Sema.C14

abbrev Content := List Nat

/-! ### the sender's read loop (`sendShardFile`): `f.Read(buf)` with `len buf = cs` -/

/-- data chunks: successive `cs`-sized pieces, the last one shorter; none for the empty file -/
def chunksFuel (cs : Nat) : Nat → Content → List Content
  | 0, _ => []
  | f + 1, c => if c.isEmpty then [] else c.take cs :: chunksFuel cs f (c.drop cs)

def chunks (cs : Nat) (c : Content) : List Content := chunksFuel cs c.length c

/-- the messages `(ChunkIndex, ChunkData)` of one transfer: the data chunks, then the empty chunk sent
when `Read` returns `io.EOF` -/
def messages (cs : Nat) (c : Content) : List (Nat × Content) :=
  (chunks cs c).zipIdx.map (fun p => (p.2, p.1)) ++ [((chunks cs c).length, [])]

/-! ### state -/

inductive Phase where
  | idle
  | sending (next : Nat)      -- chunks `0 .. next-1` were acknowledged
  | confirmed                 -- checksums compared equal; the source directory is about to be removed
deriving DecidableEq, Repr

structure St (N K : Type) where
  recs   : N → K → Option Content
  files  : N → K → Option Content
  rconf  : N → K → Bool        -- volatile: `rpcResp.Count == len(req.KeyValues)` seen, local delete pending
  fph    : N → K → Phase       -- volatile: progress of `sendShardFile`
  failed : N → Bool            -- `Sync` returned an error (the process exits: log.Fatal in main.go)

structure Cfg (N K : Type) where
  owner  : K → N               -- routing of a record key (RendezvousHash of the user id)
  fowner : K → N               -- routing of a shard (RendezvousHash of the shard id)
  /-- the nodes that are started with the current server list (its members, and former members that
  are started once more to hand their data over); the others are switched off and keep their disks -/
  up     : N → Bool := fun _ => true
  cs     : Nat                 -- CHUNKSIZE
  trunc0 : Bool                -- receiver truncates the file at chunk 0 (repaired code); pinned code: false
  sum    : Content → Nat       -- FileHash

inductive Label (N K : Type) where
  /-- phase 1: `RPCSetNodeKeyValue` executed at `dst` in one write transaction; `replyOk = false`:
      the reply never reaches the sender (sender killed, connection lost, time-out) -/
  | rsend (src dst : N) (batch : List K) (replyOk : Bool)
  /-- phase 1: the sender deletes the confirmed batch in one write transaction -/
  | rdelete (src : N) (batch : List K)
  /-- phase 2: next data chunk of shard `k` arrives at the owner; `corrupt = some d`: the payload was
      replaced by `d` in transit -/
  | fchunk (src : N) (k : K) (corrupt : Option Content)
  /-- phase 2: the terminating empty chunk, the checksum reply and the sender's comparison -/
  | ffinal (src : N) (k : K)
  /-- phase 2: `os.RemoveAll(shardDir)` at the sender -/
  | fremove (src : N) (k : K)
  /-- `Sync` of `n` returns an error (a send failed): the process exits, volatile state is gone -/
  | fail (n : N)
  /-- `n` is (re)started or killed: volatile state is gone -/
  | restart (n : N)

variable {N K : Type} [DecidableEq N] [DecidableEq K]

def upd (f : N → K → α) (n : N) (k : K) (v : α) : N → K → α :=
  fun n' k' => if n' = n ∧ k' = k then v else f n' k'

def progress : Phase → Option Nat
  | .idle => some 0
  | .sending i => some i
  | .confirmed => none

def clearVolatile (s : St N K) (n : N) (failedFlag : Bool) : St N K :=
  { s with rconf := fun n' k => if n' = n then false else s.rconf n' k,
           fph := fun n' k => if n' = n then .idle else s.fph n' k,
           failed := fun n' => if n' = n then failedFlag else s.failed n' }

/-- what `RPCSendShard` leaves on disk: `MkdirAll` at chunk 0, open `O_APPEND|O_CREATE` (plus
`O_TRUNC` at chunk 0 in the repaired code), write -/
def recvWrite (trunc0 : Bool) (old : Option Content) (idx : Nat) (data : Content) : Content :=
  if idx = 0 ∧ trunc0 then data else old.getD [] ++ data

/-- the `Checksum` field of the reply: computed only if `ChunkIndex > 0 ∧ len(ChunkData) == 0` -/
def replySum (sum : Content → Nat) (idx : Nat) (data file : Content) : Nat :=
  if idx > 0 ∧ data.isEmpty then sum file else 0

def enabled (cfg : Cfg N K) (s : St N K) : Label N K → Bool
  | .rsend src dst batch _ =>
      cfg.up src ∧ cfg.up dst ∧ src ≠ dst ∧ batch.all (fun k => cfg.owner k = dst ∧ (s.recs src k).isSome)
  | .rdelete src batch => batch.all (fun k => s.rconf src k)
  | .fchunk src k _ =>
      match s.files src k, progress (s.fph src k) with
      | some c, some i => cfg.up src ∧ cfg.up (cfg.fowner k) ∧ src ≠ cfg.fowner k ∧ i < (chunks cfg.cs c).length
      | _, _ => false
  | .ffinal src k =>
      match s.files src k, progress (s.fph src k) with
      | some c, some i => cfg.up src ∧ cfg.up (cfg.fowner k) ∧ src ≠ cfg.fowner k ∧ i = (chunks cfg.cs c).length
      | _, _ => false
  | .fremove src k => s.fph src k = .confirmed
  | .fail _ => true
  | .restart _ => true

def apply (cfg : Cfg N K) (s : St N K) : Label N K → St N K
  | .rsend src dst batch replyOk =>
      { s with recs := fun n k => if n = dst ∧ k ∈ batch then s.recs src k else s.recs n k,
               rconf := fun n k => if n = src ∧ k ∈ batch ∧ replyOk then true else s.rconf n k }
  | .rdelete src batch =>
      { s with recs := fun n k => if n = src ∧ k ∈ batch then none else s.recs n k,
               rconf := fun n k => if n = src ∧ k ∈ batch then false else s.rconf n k }
  | .fchunk src k corrupt =>
      match s.files src k, progress (s.fph src k) with
      | some c, some i =>
          let dst := cfg.fowner k
          let data := corrupt.getD ((chunks cfg.cs c).getD i [])
          { s with files := upd s.files dst k (some (recvWrite cfg.trunc0 (s.files dst k) i data)),
                   fph := upd s.fph src k (.sending (i + 1)) }
      | _, _ => s
  | .ffinal src k =>
      match s.files src k, progress (s.fph src k) with
      | some c, some i =>
          let dst := cfg.fowner k
          let file := recvWrite cfg.trunc0 (s.files dst k) i []
          let s' := { s with files := upd s.files dst k (some file) }
          if cfg.sum c = replySum cfg.sum i [] file then
            { s' with fph := upd s.fph src k .confirmed }
          else clearVolatile s' src true          -- "checksum mismatch after sending shard file"
      | _, _ => s
  | .fremove src k =>
      { s with files := upd s.files src k none, fph := upd s.fph src k .idle }
  | .fail n => clearVolatile s n true
  | .restart n => clearVolatile s n false

def step (cfg : Cfg N K) (l : Label N K) (s : St N K) : St N K :=
  if enabled cfg s l then apply cfg s l else s

def run (cfg : Cfg N K) (ls : List (Label N K)) (s : St N K) : St N K :=
  ls.foldl (fun s l => step cfg l s) s

/-- states reachable by any sequence of events, failures included -/
inductive Reachable (cfg : Cfg N K) (s0 : St N K) : St N K → Prop where
  | init : Reachable cfg s0 s0
  | step (l : Label N K) {s : St N K} : Reachable cfg s0 s → Reachable cfg s0 (step cfg l s)

/-! ### `Sync` of one node as a label sequence -/

/-- faults injected into one `Sync` (used by the driver; the convergence theorems use `noFault`) -/
structure Fault (N K : Type) where
  down     : N → Bool := fun _ => false          -- destinations that do not answer
  failAt   : Option (K × Nat) := none            -- the send of message `i` of shard `k` fails (sender or receiver side, before the write)
  corrupt  : Option (K × Nat × Content) := none  -- payload of data chunk `i` of shard `k` replaced in transit
  lostReply : Option N := none                   -- phase 1: the reply of this destination is lost (records stored there, not deleted here)
  stopAfterPhase1 : Bool := false                -- the node fails between the two phases

def noFault : Fault N K := {}

/-- phase 1 towards one destination -/
def syncRecsTo (cfg : Cfg N K) (flt : Fault N K) (rkeys : List K) (n dst : N) (s : St N K) : St N K :=
  if s.failed n ∨ dst = n then s else
  let batch := rkeys.filter (fun k => cfg.owner k = dst ∧ (s.recs n k).isSome)
  if batch.isEmpty then s
  else if flt.down dst ∨ cfg.up dst = false then step cfg (.fail n) s
  else if flt.lostReply = some dst then step cfg (.fail n) (step cfg (.rsend n dst batch false) s)
  else step cfg (.rdelete n batch) (step cfg (.rsend n dst batch true) s)

def corruptFor (flt : Fault N K) (k : K) (i : Nat) : Option Content :=
  match flt.corrupt with
  | some (k', i', d) => if k' = k ∧ i' = i then some d else none
  | none => none

/-- `sendShardFile`: data chunks `i, i+1, …` (fuel = number still to send), then the final message -/
def sendFrom (cfg : Cfg N K) (flt : Fault N K) (n : N) (k : K) : Nat → Nat → St N K → St N K
  | 0, i, s =>
      if flt.failAt = some (k, i) then step cfg (.fail n) s
      else step cfg (.fremove n k) (step cfg (.ffinal n k) s)
  | fuel + 1, i, s =>
      if flt.failAt = some (k, i) then step cfg (.fail n) s
      else
        sendFrom cfg flt n k fuel (i + 1) (step cfg (.fchunk n k (corruptFor flt k i)) s)

def syncFile (cfg : Cfg N K) (flt : Fault N K) (n : N) (k : K) (s : St N K) : St N K :=
  if s.failed n ∨ cfg.fowner k = n then s else
  match s.files n k with
  | none => s
  | some c =>
    if flt.down (cfg.fowner k) ∨ cfg.up (cfg.fowner k) = false then step cfg (.fail n) s
    else sendFrom cfg flt n k (chunks cfg.cs c).length 0 s

/-- `Sync` at start-up of node `n`: phase 1 over all destinations, then phase 2 over all shard
directories; the first error ends it -/
def syncNode (cfg : Cfg N K) (flt : Fault N K) (nodes : List N) (rkeys fkeys : List K) (n : N) (s : St N K) : St N K :=
  let s := step cfg (.restart n) s
  let s := nodes.foldl (fun s dst => syncRecsTo cfg flt rkeys n dst s) s
  let s := if flt.stopAfterPhase1 ∧ ¬ s.failed n then step cfg (.fail n) s else s
  fkeys.foldl (fun s k => syncFile cfg flt n k s) s

/-- one failure-free round: every node of `order` runs `Sync` -/
def round (cfg : Cfg N K) (nodes : List N) (rkeys fkeys : List K) (order : List N) (s : St N K) : St N K :=
  order.foldl (fun s n => syncNode cfg noFault nodes rkeys fkeys n s) s

/-! ### histories over several server lists

A *world* is a cluster state together with the current routing (`cfg.owner`, `cfg.fowner`, `cfg.up`)
and the logical content of the database (ghost): `ro k` / `fo k` is the record / shard file `k` as
it was last written through the cluster API — by the node that was its routing owner at that
moment.  That is "the original" of the property when copies on several nodes differ.

Events: an event of a start-up synchronisation under the current list (`sync`, failures included);
a change of the server list (`reconf`: new routing, new set of started nodes; every started node is
a fresh process, nodes outside `up` keep their disks untouched and may come back later — this is
how a rolled-back change leaves OLDER copies behind); a client write of a collection record
(`wrec`: created, shard id appended, deleted, re-created) or of a shard file (`wfile`: points
inserted, shard created, collection deleted), executed at the current routing owner. -/

structure World (N K : Type) where
  cfg : Cfg N K
  st  : St N K
  ro  : K → Option Content
  fo  : K → Option Content

inductive Ev (N K : Type) where
  | sync (l : Label N K)
  | reconf (owner fowner : K → N) (up : N → Bool)
  | wrec (k : K) (v : Option Content)
  | wfile (k : K) (c : Option Content)

/-- every process is new after a change of the server list -/
def clearAll (s : St N K) : St N K :=
  { s with rconf := fun _ _ => false, fph := fun _ _ => .idle, failed := fun _ => false }

def wstep : Ev N K → World N K → World N K
  | .sync l, w => { w with st := step w.cfg l w.st }
  | .reconf o f u, w => { w with cfg := { w.cfg with owner := o, fowner := f, up := u }, st := clearAll w.st }
  | .wrec k v, w =>
      { w with st := { w.st with recs := upd w.st.recs (w.cfg.owner k) k v },
               ro := fun k' => if k' = k then v else w.ro k' }
  | .wfile k c, w =>
      { w with st := { w.st with files := upd w.st.files (w.cfg.fowner k) k c },
               fo := fun k' => if k' = k then c else w.fo k' }

/-- A change of the server list the synchronisation can cope with (the state is the one at the moment
of the change, `o f u` the new routing):
(a) a copy that differs from the current content (an OLDER record, the left-over of an interrupted
    transfer, a copy of something deleted) and sits on a node that will be started, sits at the new
    owner — where the transfer of the current content replaces it; anywhere else the start-up
    synchronisation would ship it to the owner as if it were current;
(b) the current content is on a node that will be started;
(c) at most one started node other than the new owner holds a given shard. -/
structure Safe (w : World N K) (o f : K → N) (u : N → Bool) : Prop where
  ra : ∀ n k v, u n = true → w.st.recs n k = some v → w.ro k ≠ some v → n = o k
  rb : ∀ k v, w.ro k = some v → ∃ n, u n = true ∧ w.st.recs n k = some v
  fa : ∀ n k c, u n = true → w.st.files n k = some c → w.fo k ≠ some c → n = f k
  fb : ∀ k c, w.fo k = some c → ∃ n, u n = true ∧ w.st.files n k = some c
  fc : ∀ n n' k, u n = true → u n' = true → n ≠ f k → n' ≠ f k →
        (w.st.files n k).isSome → (w.st.files n' k).isSome → n = n'

/-- a client write of record `k` happens while the cluster serves, i.e. after every started node
completed its `Sync`: no started node other than the owner holds a copy, and the owner runs -/
def QuietR (w : World N K) (k : K) : Prop :=
  w.cfg.up (w.cfg.owner k) = true ∧ ∀ n, w.cfg.up n = true → n ≠ w.cfg.owner k → w.st.recs n k = none

def QuietF (w : World N K) (k : K) : Prop :=
  w.cfg.up (w.cfg.fowner k) = true ∧ ∀ n, w.cfg.up n = true → n ≠ w.cfg.fowner k → w.st.files n k = none

/-- histories: any interleaving of synchronisation events, safe list changes and client writes -/
inductive WReach (w0 : World N K) : World N K → Prop where
  | init : WReach w0 w0
  | sync (l : Label N K) {w : World N K} : WReach w0 w → WReach w0 (wstep (.sync l) w)
  | reconf (o f : K → N) (u : N → Bool) {w : World N K} : WReach w0 w → Safe w o f u →
      WReach w0 (wstep (.reconf o f u) w)
  | wrec (k : K) (v : Option Content) {w : World N K} : WReach w0 w → QuietR w k →
      WReach w0 (wstep (.wrec k v) w)
  | wfile (k : K) (c : Option Content) {w : World N K} : WReach w0 w → QuietF w k → c ≠ some [] →
      WReach w0 (wstep (.wfile k c) w)

/-! executable versions of `Safe` / `QuietR` / `QuietF` over explicit node and key lists (driver) -/

def safeB (w : World N K) (o f : K → N) (u : N → Bool) (nodes : List N) (rkeys fkeys : List K) : Bool :=
  (rkeys.all fun k =>
    (nodes.all fun n => !(u n) || (match w.st.recs n k with
        | some v => decide (w.ro k = some v) || decide (n = o k)
        | none => true)) &&
    (match w.ro k with
      | some v => nodes.any fun n => u n && decide (w.st.recs n k = some v)
      | none => true)) &&
  (fkeys.all fun k =>
    (nodes.all fun n => !(u n) || (match w.st.files n k with
        | some c => decide (w.fo k = some c) || decide (n = f k)
        | none => true)) &&
    (match w.fo k with
      | some c => nodes.any fun n => u n && decide (w.st.files n k = some c)
      | none => true) &&
    (nodes.all fun n => nodes.all fun n' =>
      !(u n && u n' && decide (n ≠ f k) && decide (n' ≠ f k) &&
        (w.st.files n k).isSome && (w.st.files n' k).isSome) || decide (n = n')))

def quietRB (w : World N K) (nodes : List N) (k : K) : Bool :=
  w.cfg.up (w.cfg.owner k) && nodes.all fun n => !(w.cfg.up n) || decide (n = w.cfg.owner k) || (w.st.recs n k).isNone

def quietFB (w : World N K) (nodes : List N) (k : K) : Bool :=
  w.cfg.up (w.cfg.fowner k) && nodes.all fun n => !(w.cfg.up n) || decide (n = w.cfg.fowner k) || (w.st.files n k).isNone

end Sema.C14
