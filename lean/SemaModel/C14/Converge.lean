/- C14: one failure-free round converges (repaired receiver), and the pinned receiver gets stuck -/
import SemaModel.C14.Invariant
namespace Sema.C14

variable {N K : Type} [DecidableEq N] [DecidableEq K]

def actor : Label N K → N
  | .rsend src _ _ _ => src
  | .rdelete src _ => src
  | .fchunk src _ _ => src
  | .ffinal src _ => src
  | .fremove src _ => src
  | .fail n => n
  | .restart n => n

/-- runs in which only node `a` acts (its own `Sync`) -/
inductive StepsBy (cfg : Cfg N K) (a : N) : St N K → St N K → Prop where
  | refl (s) : StepsBy cfg a s s
  | tail {s t} (l : Label N K) : actor l = a → StepsBy cfg a s t → StepsBy cfg a s (step cfg l t)

theorem StepsBy.trans {cfg : Cfg N K} {a : N} {s t u : St N K} (h1 : StepsBy cfg a s t) (h2 : StepsBy cfg a t u) :
    StepsBy cfg a s u := by
  induction h2 with
  | refl => exact h1
  | tail l hl _ ih => exact .tail l hl ih

theorem StepsBy.one {cfg : Cfg N K} {a : N} (s : St N K) (l : Label N K) (hl : actor l = a) :
    StepsBy cfg a s (step cfg l s) := .tail l hl (.refl s)

theorem StepsBy.reachable {cfg : Cfg N K} {a : N} {s0 s t : St N K} (h0 : Reachable cfg s0 s) (h : StepsBy cfg a s t) :
    Reachable cfg s0 t := by
  induction h with
  | refl => exact h0
  | tail l _ _ ih => exact .step l ih

theorem StepsBy.inv {cfg : Cfg N K} (hs : SumOK cfg) {ro fo} {a : N} {s t : St N K} (h0 : Inv cfg ro fo s)
    (h : StepsBy cfg a s t) : Inv cfg ro fo t := by
  induction h with
  | refl => exact h0
  | tail l _ _ ih => exact inv_step hs ih l

theorem reachable_run {cfg : Cfg N K} {s0 : St N K} (ls : List (Label N K)) :
    ∀ s, Reachable cfg s0 s → Reachable cfg s0 (run cfg ls s) := by
  induction ls with
  | nil => intro s h; exact h
  | cons l ls ih => intro s h; exact ih _ (.step l h)

theorem stepsBy_run {cfg : Cfg N K} {a : N} (ls : List (Label N K)) (hl : ∀ l ∈ ls, actor l = a) :
    ∀ s0 s, StepsBy cfg a s0 s → StepsBy cfg a s0 (run cfg ls s) := by
  induction ls with
  | nil => intro s0 s h; exact h
  | cons l ls ih =>
    intro s0 s h
    exact ih (fun l' h' => hl l' (List.mem_cons_of_mem _ h')) s0 _ (.tail l (hl l List.mem_cons_self) h)

/-! ### frame: what a step cannot do -/

theorem step_failed_other (cfg : Cfg N K) (l : Label N K) (s : St N K) (m : N) (hm : m ≠ actor l) :
    (step cfg l s).failed m = s.failed m := by
  unfold step
  split
  · cases l with
    | rsend _ _ _ _ => rfl
    | rdelete _ _ => rfl
    | fchunk src k cor => simp only [apply]; split <;> rfl
    | ffinal src k =>
      simp only [apply]
      split
      · split
        · rfl
        · simp only [clearVolatile]; rw [if_neg]; exact hm
      · rfl
    | fremove _ _ => rfl
    | fail n => simp only [apply, clearVolatile]; rw [if_neg]; exact hm
    | restart n => simp only [apply, clearVolatile]; rw [if_neg]; exact hm
  · rfl

omit [DecidableEq K] in
theorem clear_recs (s : St N K) (n : N) (b : Bool) : (clearVolatile s n b).recs = s.recs := rfl
omit [DecidableEq K] in
theorem clear_files (s : St N K) (n : N) (b : Bool) : (clearVolatile s n b).files = s.files := rfl

/-- a record entry outside the owner is never created -/
theorem step_recs_none (cfg : Cfg N K) (l : Label N K) (s : St N K) (m : N) (k : K)
    (hm : m ≠ cfg.owner k) (h : s.recs m k = none) : (step cfg l s).recs m k = none := by
  unfold step
  split
  · rename_i hen
    cases l with
    | rsend src dst batch ok =>
      obtain ⟨_, _, _, hb⟩ := rsend_enabled hen
      simp only [apply]
      split
      · rename_i hc
        exact absurd (hc.1.trans (hb k hc.2).1.symm) hm
      · exact h
    | rdelete src batch => simp only [apply]; split <;> simp [h]
    | fchunk src k' cor => simp only [apply]; split <;> exact h
    | ffinal src k' =>
      simp only [apply]
      split
      · split
        · exact h
        · exact h
      · exact h
    | fremove _ _ => exact h
    | fail n => exact h
    | restart n => exact h
  · exact h

/-- a shard file outside the owner is never created -/
theorem step_files_none (cfg : Cfg N K) (l : Label N K) (s : St N K) (m : N) (k : K)
    (hm : m ≠ cfg.fowner k) (h : s.files m k = none) : (step cfg l s).files m k = none := by
  have hu : ∀ (k' : K) (w : Option Content), upd s.files (cfg.fowner k') k' w m k = s.files m k := by
    intro k' w
    simp only [upd]
    rw [if_neg]
    rintro ⟨e1, e2⟩; subst e2; exact hm e1
  unfold step
  split
  · cases l with
    | rsend _ _ _ _ => exact h
    | rdelete _ _ => exact h
    | fchunk src k' cor =>
      simp only [apply]
      split
      · simp only [hu]; exact h
      · exact h
    | ffinal src k' =>
      simp only [apply]
      split
      · split
        · simp only [hu]; exact h
        · simp only [clear_files, hu]; exact h
      · exact h
    | fremove src k' =>
      simp only [apply, upd]
      split
      · rfl
      · exact h
    | fail n => exact h
    | restart n => exact h
  · exact h

theorem StepsBy.failed_other {cfg : Cfg N K} {a : N} {s t : St N K} (h : StepsBy cfg a s t) (m : N) (hm : m ≠ a) :
    t.failed m = s.failed m := by
  induction h with
  | refl => rfl
  | tail l hl _ ih => rw [step_failed_other cfg l _ m (by rw [hl]; exact hm), ih]

theorem StepsBy.recs_none {cfg : Cfg N K} {a : N} {s t : St N K} (h : StepsBy cfg a s t) (m : N) (k : K)
    (hm : m ≠ cfg.owner k) (h0 : s.recs m k = none) : t.recs m k = none := by
  induction h with
  | refl => exact h0
  | tail l _ _ ih => exact step_recs_none cfg l _ m k hm ih

theorem StepsBy.files_none {cfg : Cfg N K} {a : N} {s t : St N K} (h : StepsBy cfg a s t) (m : N) (k : K)
    (hm : m ≠ cfg.fowner k) (h0 : s.files m k = none) : t.files m k = none := by
  induction h with
  | refl => exact h0
  | tail l _ _ ih => exact step_files_none cfg l _ m k hm ih

/-! ### one shard transfer without faults -/

theorem step_fchunk_eq (cfg : Cfg N K) (s : St N K) (n : N) (k : K) (c : Content) (i : Nat)
    (hf : s.files n k = some c) (hp : progress (s.fph n k) = some i) (hne : n ≠ cfg.fowner k)
    (hus : cfg.up n = true) (huo : cfg.up (cfg.fowner k) = true)
    (hi : i < (chunks cfg.cs c).length) (cor : Option Content) :
    step cfg (.fchunk n k cor) s =
      { s with files := upd s.files (cfg.fowner k) k
                 (some (recvWrite cfg.trunc0 (s.files (cfg.fowner k) k) i (cor.getD ((chunks cfg.cs c).getD i [])))),
               fph := upd s.fph n k (.sending (i + 1)) } := by
  unfold step
  simp only [enabled, apply, hf, hp]
  simp [hne, hi, hus, huo]

theorem step_ffinal_eq (cfg : Cfg N K) (s : St N K) (n : N) (k : K) (c : Content)
    (hf : s.files n k = some c) (hp : progress (s.fph n k) = some (chunks cfg.cs c).length)
    (hne : n ≠ cfg.fowner k) (hus : cfg.up n = true) (huo : cfg.up (cfg.fowner k) = true)
    (hpos : 0 < (chunks cfg.cs c).length)
    (hd : s.files (cfg.fowner k) k = some c) :
    step cfg (.ffinal n k) s =
      { s with files := upd s.files (cfg.fowner k) k (some c), fph := upd s.fph n k .confirmed } := by
  unfold step
  simp only [enabled, apply, hf, hp]
  have hw : recvWrite cfg.trunc0 (some c) (chunks cfg.cs c).length [] = c := by
    unfold recvWrite
    rw [if_neg (by rintro ⟨h, _⟩; omega)]; simp
  simp [hne, hd, hw, replySum, hpos, hus, huo]

theorem step_fremove_eq (cfg : Cfg N K) (s : St N K) (n : N) (k : K) (hp : s.fph n k = .confirmed) :
    step cfg (.fremove n k) s = { s with files := upd s.files n k none, fph := upd s.fph n k .idle } := by
  unfold step
  simp [enabled, apply, hp]

theorem take_succ_flatten (l : List Content) (i : Nat) (hi : i < l.length) :
    (l.take (i + 1)).flatten = (l.take i).flatten ++ l.getD i [] := by
  rw [List.take_add_one, List.flatten_append]
  simp [List.getD, List.getElem?_eq_getElem hi]

/-- node `n` is sending shard `k` (content `c`) and `i` data chunks have been written at the owner -/
structure Sending (cfg : Cfg N K) (n : N) (k : K) (c : Content) (i : Nat) (s : St N K) : Prop where
  file : s.files n k = some c
  prog : progress (s.fph n k) = some i
  dst  : 0 < i → s.files (cfg.fowner k) k = some ((chunks cfg.cs c).take i).flatten
  ok   : s.failed n = false

/-- what a completed transfer leaves behind at the sender -/
structure Sent (cfg : Cfg N K) (n : N) (k : K) (s s' : St N K) : Prop where
  gone   : s'.files n k = none
  ok     : s'.failed n = false
  idle   : s'.fph n k = .idle
  others : ∀ k', k' ≠ k → s'.fph n k' = s.fph n k'
  steps  : StepsBy cfg n s s'

theorem sendFrom_spec (cfg : Cfg N K) (htr : cfg.trunc0 = true) (hcs : 0 < cfg.cs) (n : N) (k : K) (c : Content)
    (hne : n ≠ cfg.fowner k) (hus : cfg.up n = true) (huo : cfg.up (cfg.fowner k) = true) (hc : c ≠ []) :
    ∀ (fuel i : Nat) (s : St N K), i + fuel = (chunks cfg.cs c).length → Sending cfg n k c i s →
      Sent cfg n k s (sendFrom cfg noFault n k fuel i s) := by
  have hpos : 0 < (chunks cfg.cs c).length := (chunks_length_pos _ _).mpr hc
  intro fuel
  induction fuel with
  | zero =>
    intro i s hi hS
    have hi : i = (chunks cfg.cs c).length := by omega
    subst hi
    have hd : s.files (cfg.fowner k) k = some c := by
      rw [hS.dst hpos, List.take_length, chunks_flatten _ hcs]
    simp only [sendFrom]
    rw [if_neg (by simp [noFault])]
    rw [step_ffinal_eq cfg s n k c hS.file hS.prog hne hus huo hpos hd]
    rw [step_fremove_eq _ _ _ _ (by simp [upd])]
    refine ⟨by simp [upd], hS.ok, by simp [upd], ?_, ?_⟩
    · intro k' hk'; simp [upd, hk']
    · have e1 := step_ffinal_eq cfg s n k c hS.file hS.prog hne hus huo hpos hd
      have h1 : StepsBy cfg n s _ := StepsBy.one (cfg := cfg) s (.ffinal n k) rfl
      rw [e1] at h1
      have h2 := StepsBy.one (cfg := cfg) (a := n)
        { s with files := upd s.files (cfg.fowner k) k (some c), fph := upd s.fph n k .confirmed } (.fremove n k) rfl
      rw [step_fremove_eq _ _ _ _ (by simp [upd])] at h2
      exact h1.trans h2
  | succ fuel ih =>
    intro i s hi hS
    have hlt : i < (chunks cfg.cs c).length := by omega
    simp only [sendFrom]
    rw [if_neg (by simp [noFault])]
    have hcor : corruptFor (noFault : Fault N K) k i = none := rfl
    rw [hcor]
    have e := step_fchunk_eq cfg s n k c i hS.file hS.prog hne hus huo hlt none
    have h1 : StepsBy cfg n s (step cfg (.fchunk n k none) s) := StepsBy.one (cfg := cfg) s (.fchunk n k none) rfl
    have hS' : Sending cfg n k c (i + 1) (step cfg (.fchunk n k none) s) := by
      rw [e]
      refine ⟨?_, by simp [upd, progress], ?_, hS.ok⟩
      · show upd s.files (cfg.fowner k) k _ n k = some c
        simp only [upd]; rw [if_neg (by rintro ⟨e1, _⟩; exact hne e1)]; exact hS.file
      · intro _
        show upd s.files (cfg.fowner k) k _ (cfg.fowner k) k = _
        simp only [upd, and_self, if_true, Option.getD_none, Option.some.injEq]
        rw [take_succ_flatten _ _ hlt]
        by_cases h0 : i = 0
        · subst h0; simp [recvWrite, htr]
        · have := hS.dst (by omega)
          simp [recvWrite, h0, this]
    have hfph : ∀ k', k' ≠ k → (step cfg (.fchunk n k none) s).fph n k' = s.fph n k' := by
      rw [e]; intro k' hk'; simp [upd, hk']
    have r := ih (i + 1) _ (by omega) hS'
    refine ⟨r.gone, r.ok, r.idle, ?_, h1.trans r.steps⟩
    intro k' hk'
    rw [r.others k' hk', hfph k' hk']

/-! ### `Sync` of one node without faults -/

/-- the sender's own `Sync` is still running: no error so far, no transfer in flight -/
structure Ready (n : N) (s : St N K) : Prop where
  ok : s.failed n = false
  idle : ∀ k, s.fph n k = .idle

/-- hypotheses of the convergence theorems about the configuration -/
structure Good (cfg : Cfg N K) (fo : K → Option Content) : Prop where
  sum : SumOK cfg
  cs_pos : 0 < cfg.cs
  trunc : cfg.trunc0 = true
  nonempty : ∀ k c, fo k = some c → c ≠ []
  /-- the routing owner of every shard runs (it is a member of the server list) -/
  fdst : ∀ k, (fo k).isSome → cfg.up (cfg.fowner k) = true

theorem syncFile_spec {cfg : Cfg N K} {ro fo} (hg : Good cfg fo) (n : N) (hun : cfg.up n = true) (k : K) (s : St N K)
    (hinv : Inv cfg ro fo s) (hr : Ready n s) :
    Ready n (syncFile cfg noFault n k s) ∧ StepsBy cfg n s (syncFile cfg noFault n k s) ∧
      (n ≠ cfg.fowner k → (syncFile cfg noFault n k s).files n k = none) := by
  unfold syncFile
  by_cases ho : cfg.fowner k = n
  · rw [if_pos (Or.inr ho)]
    exact ⟨hr, .refl s, fun h => absurd ho.symm h⟩
  · rw [if_neg (by rw [hr.ok]; simp [ho])]
    split
    · rename_i hnone
      exact ⟨hr, .refl s, fun _ => hnone⟩
    · rename_i c hc
      have hne : n ≠ cfg.fowner k := fun e => ho e.symm
      have hfo := hinv.f1 n k c hun hne hc
      have hcne := hg.nonempty k c hfo
      have huo : cfg.up (cfg.fowner k) = true := hg.fdst k (by rw [hfo]; rfl)
      rw [if_neg (by simp [noFault, huo])]
      have hS : Sending cfg n k c 0 s := ⟨hc, by rw [hr.idle k]; rfl, fun h => absurd h (Nat.lt_irrefl 0), hr.ok⟩
      have r := sendFrom_spec cfg hg.trunc hg.cs_pos n k c hne hun huo hcne (chunks cfg.cs c).length 0 s (by omega) hS
      refine ⟨⟨r.ok, ?_⟩, r.steps, fun _ => r.gone⟩
      intro k'
      by_cases hk : k' = k
      · subst hk; exact r.idle
      · rw [r.others k' hk]; exact hr.idle k'

theorem syncFiles_spec {cfg : Cfg N K} {ro fo} (hg : Good cfg fo) (n : N) (hun : cfg.up n = true) :
    ∀ (fkeys : List K) (s : St N K), Inv cfg ro fo s → Ready n s →
      let s' := fkeys.foldl (fun s k => syncFile cfg noFault n k s) s
      Ready n s' ∧ StepsBy cfg n s s' ∧ ∀ k ∈ fkeys, n ≠ cfg.fowner k → s'.files n k = none := by
  intro fkeys
  induction fkeys with
  | nil => intro s _ hr; exact ⟨hr, .refl s, by simp⟩
  | cons k ks ih =>
    intro s hinv hr
    simp only [List.foldl_cons]
    obtain ⟨a1, a2, a3⟩ := syncFile_spec hg n hun k s hinv hr
    obtain ⟨b1, b2, b3⟩ := ih _ (a2.inv hg.sum hinv) a1
    refine ⟨b1, a2.trans b2, ?_⟩
    intro k' hk' hne
    rcases List.mem_cons.mp hk' with e | e
    · subst e; exact b2.files_none n k' hne (a3 hne)
    · exact b3 k' e hne

theorem step_rsend_eq (cfg : Cfg N K) (s : St N K) (src dst : N) (batch : List K) (ok : Bool)
    (hus : cfg.up src = true) (hud : cfg.up dst = true) (hne : src ≠ dst) (hb : ∀ k ∈ batch, cfg.owner k = dst ∧ (s.recs src k).isSome) :
    step cfg (.rsend src dst batch ok) s = apply cfg s (.rsend src dst batch ok) := by
  unfold step
  rw [if_pos]
  simp only [enabled, decide_eq_true_eq, Bool.and_eq_true, List.all_eq_true, Bool.decide_and]
  exact ⟨hus, hud, hne, fun k hk => by simpa using hb k hk⟩

theorem step_rdelete_eq (cfg : Cfg N K) (s : St N K) (src : N) (batch : List K)
    (hb : ∀ k ∈ batch, s.rconf src k = true) :
    step cfg (.rdelete src batch) s = apply cfg s (.rdelete src batch) := by
  unfold step
  rw [if_pos]
  simp only [enabled, List.all_eq_true]
  exact hb

theorem syncRecsTo_spec (cfg : Cfg N K) (rkeys : List K) (n dst : N) (hun : cfg.up n = true)
    (hud : cfg.up dst = true) (s : St N K) (hr : Ready n s) :
    Ready n (syncRecsTo cfg noFault rkeys n dst s) ∧ StepsBy cfg n s (syncRecsTo cfg noFault rkeys n dst s) ∧
      (∀ k ∈ rkeys, cfg.owner k = dst → dst ≠ n → (syncRecsTo cfg noFault rkeys n dst s).recs n k = none) := by
  unfold syncRecsTo
  by_cases hd : dst = n
  · rw [if_pos (Or.inr hd)]
    exact ⟨hr, .refl s, fun _ _ _ h => absurd hd h⟩
  · rw [if_neg (by rw [hr.ok]; simp [hd])]
    simp only
    generalize hbatch : rkeys.filter (fun k => decide (cfg.owner k = dst ∧ (s.recs n k).isSome = true)) = batch
    have hmem : ∀ k, k ∈ batch ↔ k ∈ rkeys ∧ cfg.owner k = dst ∧ (s.recs n k).isSome := by
      intro k; rw [← hbatch]; simp [List.mem_filter]
    by_cases he : batch.isEmpty
    · rw [if_pos he]
      refine ⟨hr, .refl s, ?_⟩
      intro k hk ho _
      have : k ∉ batch := by
        have : batch = [] := by simpa using he
        rw [this]; simp
      rw [hmem] at this
      have : ¬ (s.recs n k).isSome := fun h => this ⟨hk, ho, h⟩
      simpa using this
    · rw [if_neg he, if_neg (by simp [noFault, hud]), if_neg (by simp [noFault])]
      have hb1 : ∀ k ∈ batch, cfg.owner k = dst ∧ (s.recs n k).isSome := fun k hk => ((hmem k).mp hk).2
      have e1 := step_rsend_eq cfg s n dst batch true hun hud (fun e => hd e.symm) hb1
      have hb2 : ∀ k ∈ batch, (step cfg (.rsend n dst batch true) s).rconf n k = true := by
        intro k hk; rw [e1]; simp [apply, hk]
      have e2 := step_rdelete_eq cfg _ n batch hb2
      have st : StepsBy cfg n s (step cfg (.rdelete n batch) (step cfg (.rsend n dst batch true) s)) :=
        (StepsBy.one (cfg := cfg) s (.rsend n dst batch true) rfl).trans (StepsBy.one (cfg := cfg) _ (.rdelete n batch) rfl)
      refine ⟨⟨?_, ?_⟩, st, ?_⟩
      · rw [e2, e1]; exact hr.ok
      · intro k; rw [e2, e1]; exact hr.idle k
      · intro k hk ho _
        rw [e2]
        simp only [apply]
        by_cases hkb : k ∈ batch
        · rw [if_pos ⟨trivial, hkb⟩]
        · rw [if_neg (by rintro ⟨_, h⟩; exact hkb h)]
          rw [e1]
          simp only [apply]
          rw [if_neg (by rintro ⟨h, _⟩; exact hd h.symm)]
          have : ¬ (s.recs n k).isSome := fun h => hkb ((hmem k).mpr ⟨hk, ho, h⟩)
          simpa using this

theorem syncRecs_spec (cfg : Cfg N K) (rkeys : List K) (n : N) (hun : cfg.up n = true) :
    ∀ (nodes : List N) (s : St N K), (∀ d ∈ nodes, cfg.up d = true) → Ready n s →
      let s' := nodes.foldl (fun s dst => syncRecsTo cfg noFault rkeys n dst s) s
      Ready n s' ∧ StepsBy cfg n s s' ∧
        ∀ k ∈ rkeys, cfg.owner k ∈ nodes → n ≠ cfg.owner k → s'.recs n k = none := by
  intro nodes
  induction nodes with
  | nil => intro s _ hr; exact ⟨hr, .refl s, by simp⟩
  | cons d ds ih =>
    intro s hup hr
    simp only [List.foldl_cons]
    obtain ⟨a1, a2, a3⟩ := syncRecsTo_spec cfg rkeys n d hun (hup d List.mem_cons_self) s hr
    obtain ⟨b1, b2, b3⟩ := ih _ (fun d' hd' => hup d' (List.mem_cons_of_mem _ hd')) a1
    refine ⟨b1, a2.trans b2, ?_⟩
    intro k hk ho hne
    rcases List.mem_cons.mp ho with e | e
    · exact b2.recs_none n k hne (a3 k hk e (by rw [← e]; exact fun h => hne h.symm))
    · exact b3 k hk e hne

/-- what the failure-free `Sync` of node `n` achieves -/
structure NodeDone (cfg : Cfg N K) (n : N) (s s' : St N K) : Prop where
  ok    : s'.failed n = false
  recs  : ∀ k, n ≠ cfg.owner k → s'.recs n k = none
  files : ∀ k, n ≠ cfg.fowner k → s'.files n k = none
  steps : StepsBy cfg n s s'

/-- the key lists and the server list cover everything that exists -/
structure Covers (cfg : Cfg N K) (ro fo : K → Option Content) (nodes : List N) (rkeys fkeys : List K) : Prop where
  rk : ∀ k, (ro k).isSome → k ∈ rkeys
  fk : ∀ k, (fo k).isSome → k ∈ fkeys
  dst : ∀ k, (ro k).isSome → cfg.owner k ∈ nodes
  /-- every member of the server list runs -/
  up : ∀ d ∈ nodes, cfg.up d = true

theorem syncNode_noFault_eq (cfg : Cfg N K) (nodes : List N) (rkeys fkeys : List K) (n : N) (s : St N K) :
    syncNode cfg noFault nodes rkeys fkeys n s =
      fkeys.foldl (fun s k => syncFile cfg noFault n k s)
        (nodes.foldl (fun s dst => syncRecsTo cfg noFault rkeys n dst s) (step cfg (.restart n) s)) := by
  simp [syncNode, noFault]

theorem syncNode_spec {cfg : Cfg N K} {ro fo} (hg : Good cfg fo) {nodes : List N} {rkeys fkeys : List K}
    (hcov : Covers cfg ro fo nodes rkeys fkeys) (n : N) (hun : cfg.up n = true) (s : St N K) (hinv : Inv cfg ro fo s) :
    NodeDone cfg n s (syncNode cfg noFault nodes rkeys fkeys n s) := by
  rw [syncNode_noFault_eq]
  have h0 : StepsBy cfg n s (step cfg (.restart n) s) := StepsBy.one (cfg := cfg) s (.restart n) rfl
  have hr0 : Ready n (step cfg (.restart n) s) := by
    constructor <;> simp [step, enabled, apply, clearVolatile]
  obtain ⟨a1, a2, a3⟩ := syncRecs_spec cfg rkeys n hun nodes _ hcov.up hr0
  generalize hs1 : nodes.foldl (fun s dst => syncRecsTo cfg noFault rkeys n dst s) (step cfg (.restart n) s) = s1 at a1 a2 a3 ⊢
  have hinv1 : Inv cfg ro fo s1 := (h0.trans a2).inv hg.sum hinv
  obtain ⟨b1, b2, b3⟩ := syncFiles_spec hg n hun fkeys s1 hinv1 a1
  refine ⟨b1.ok, ?_, ?_, (h0.trans a2).trans b2⟩
  · intro k hne
    apply b2.recs_none n k hne
    cases hk : s.recs n k with
    | none => exact (h0.trans a2).recs_none n k hne hk
    | some v =>
      have hro : (ro k).isSome := by rw [hinv.r1 n k v hun hne hk]; rfl
      exact a3 k (hcov.rk k hro) (hcov.dst k hro) hne
  · intro k hne
    cases hk : s.files n k with
    | none => exact ((h0.trans a2).trans b2).files_none n k hne hk
    | some c =>
      have hfo : (fo k).isSome := by rw [hinv.f1 n k c hun hne hk]; rfl
      exact b3 k (hcov.fk k hfo) hne

/-- a failure-free round: every node that ran `Sync` holds nothing it does not own and did not
fail; entries outside the owner are never created -/
theorem round_spec {cfg : Cfg N K} {ro fo} (hg : Good cfg fo) {nodes : List N} {rkeys fkeys : List K}
    (hcov : Covers cfg ro fo nodes rkeys fkeys) (s0 : St N K) (h0 : Inv cfg ro fo s0) :
    ∀ (order : List N) (s : St N K), (∀ n ∈ order, cfg.up n = true) → Reachable cfg s0 s →
      Reachable cfg s0 (round cfg nodes rkeys fkeys order s) ∧
      (∀ n ∈ order, (round cfg nodes rkeys fkeys order s).failed n = false ∧
          (∀ k, n ≠ cfg.owner k → (round cfg nodes rkeys fkeys order s).recs n k = none) ∧
          (∀ k, n ≠ cfg.fowner k → (round cfg nodes rkeys fkeys order s).files n k = none)) ∧
      (∀ m k, m ≠ cfg.owner k → s.recs m k = none → (round cfg nodes rkeys fkeys order s).recs m k = none) ∧
      (∀ m k, m ≠ cfg.fowner k → s.files m k = none → (round cfg nodes rkeys fkeys order s).files m k = none) ∧
      (∀ m, m ∉ order → (round cfg nodes rkeys fkeys order s).failed m = s.failed m) := by
  intro order
  induction order with
  | nil => intro s _ hr; exact ⟨hr, by simp, fun _ _ _ h => h, fun _ _ _ h => h, fun _ _ => rfl⟩
  | cons n ns ih =>
    intro s hup hr
    have hinv : Inv cfg ro fo s := inv_reachable hg.sum h0 hr
    have d := syncNode_spec hg hcov n (hup n List.mem_cons_self) s hinv
    have hrt := d.steps.reachable hr
    obtain ⟨r1, r2, r3, r4, r5⟩ := ih _ (fun m hm => hup m (List.mem_cons_of_mem _ hm)) hrt
    have e : round cfg nodes rkeys fkeys (n :: ns) s =
        round cfg nodes rkeys fkeys ns (syncNode cfg noFault nodes rkeys fkeys n s) := rfl
    rw [e]
    refine ⟨r1, ?_, ?_, ?_, ?_⟩
    · intro m hm
      by_cases hmn : m ∈ ns
      · exact r2 m hmn
      · have : m = n := by
          rcases List.mem_cons.mp hm with h | h
          · exact h
          · exact absurd h hmn
        subst this
        exact ⟨by rw [r5 m hmn]; exact d.ok, fun k hk => r3 m k hk (d.recs k hk), fun k hk => r4 m k hk (d.files k hk)⟩
    · intro m k hm h; exact r3 m k hm (d.steps.recs_none m k hm h)
    · intro m k hm h; exact r4 m k hm (d.steps.files_none m k hm h)
    · intro m hm
      have h1 : m ≠ n := fun e => hm (by rw [e]; exact List.mem_cons_self)
      have h2 : m ∉ ns := fun e => hm (List.mem_cons_of_mem _ e)
      rw [r5 m h2, d.steps.failed_other m h1]

end Sema.C14
