/-
C14 — the start-up synchronisation as it really runs: every started node executes `Sync` at the same
time (one process per node, main.go), and inside one node each phase starts one goroutine per
destination (cluster/sync.go: `syncUserCollections`, `syncShards`) which are joined before the
next phase begins.  Executable model, core Lean only (linked into the driver).

A node's `Sync` is a program with a control state `Pc`:

  boot    the process starts (label `restart n`: volatile state gone)
  snap1   read transaction over the node database: `postage` = destination ↦ records to send
  phase1  one goroutine per destination `d`:   send  --rsend n d batch-->  delete  --rdelete n batch-->  done
          (`wg.Wait()`: the main goroutine continues when every goroutine is done)
  snap2   `filepath.Walk` over the shard directory: `postage` = destination ↦ shard paths (walk order)
  phase2  one goroutine per destination `d`, which sends its shards one after the other; for the
          shard at the head of its list the position inside `sendShardFile` is `St.fph n k`
          (idle / sending i: `i` chunks acknowledged / confirmed: checksums equal, directory not yet
          removed): next data chunk `fchunk`, the empty chunk with the checksum comparison `ffinal`,
          `os.RemoveAll` `fremove` (then the next shard)
  done    `Sync` returned nil

The atomic steps are the labels of `Model.lean`: the receiver's handling of ONE rpc (a bbolt write
transaction, resp. open-append-write-close of one chunk) and ONE local transaction of the sender; the
sender's gap between two rpcs is a scheduling point, and so is every gap between the main goroutine's
actions.  A call that cannot be executed (destination not started, file missing, …) returns an error:
the node's `Sync` fails (`act`), the process exits (`failed`; log.Fatal in main.go) and none of its
goroutines takes another step.  A schedule is a list of thread ids; `crun` lets the named thread take
its next step (nothing happens if it has none), so EVERY interleaving is a schedule.
-/
import SemaModel.C14.Model
namespace Sema.C14

/-- where one goroutine of phase 1 is -/
inductive RStage where
  | send      -- `RPCSetNodeKeyValue` not yet answered
  | delete    -- count compared equal; local delete transaction pending
  | done
deriving DecidableEq, Repr

/-- control state of one node's `Sync` -/
inductive Pc (N K : Type) where
  | boot
  | snap1
  | phase1 (dests : List N) (batch : N → List K) (stage : N → RStage)
  | snap2
  | phase2 (dests : List N) (todo : N → List K)
  | done

/-- a thread: the main goroutine of node `n`'s `Sync`, or its goroutine for destination `d` in the
current phase -/
inductive Tid (N : Type) where
  | main (n : N)
  | go (n d : N)
deriving DecidableEq, Repr

/-- the cluster state together with the control state of every node's `Sync` -/
structure CSt (N K : Type) where
  st : St N K
  pc : N → Pc N K

variable {N K : Type} [DecidableEq N] [DecidableEq K]

def setPc (pc : N → Pc N K) (n : N) (p : Pc N K) : N → Pc N K := fun m => if m = n then p else pc m

def Pc.isDone : Pc N K → Bool
  | .done => true
  | _ => false

/-- one call of node `n`'s `Sync` (an rpc or a local transaction): it is executed, or it returns an
error and `Sync` fails -/
def act (cfg : Cfg N K) (n : N) (l : Label N K) (s : St N K) : St N K :=
  if enabled cfg s l then step cfg l s else step cfg (.fail n) s

/-- phase 1, `postage[d]`: the records node `n` holds whose routing owner is `d` -/
def rbatch (cfg : Cfg N K) (rkeys : List K) (n d : N) (s : St N K) : List K :=
  rkeys.filter (fun k => cfg.owner k = d ∧ (s.recs n k).isSome)

/-- phase 1, the keys of `postage`: the owners (other than `n`) of the records `n` holds; a
destination may be listed more than once, the goroutine is per destination -/
def rdests (cfg : Cfg N K) (rkeys : List K) (n : N) (s : St N K) : List N :=
  (rkeys.filter (fun k => cfg.owner k ≠ n ∧ (s.recs n k).isSome)).map cfg.owner

/-- phase 2, `postage[d]`: the shard directories node `n` holds whose routing owner is `d`, in walk order -/
def ftodo (cfg : Cfg N K) (fkeys : List K) (n d : N) (s : St N K) : List K :=
  fkeys.filter (fun k => cfg.fowner k = d ∧ (s.files n k).isSome)

def fdests (cfg : Cfg N K) (fkeys : List K) (n : N) (s : St N K) : List N :=
  (fkeys.filter (fun k => cfg.fowner k ≠ n ∧ (s.files n k).isSome)).map cfg.fowner

def prog : Phase → Nat
  | .idle => 0
  | .sending i => i
  | .confirmed => 0

/-- the next call of `sendShardFile n k`: remove the directory once the checksums compared equal;
otherwise open the file (an error if it is not there), read the next chunk and send it — the empty
chunk when `Read` returned `io.EOF` -/
def fnext (cfg : Cfg N K) (s : St N K) (n : N) (k : K) : Label N K :=
  if s.fph n k = .confirmed then .fremove n k
  else match s.files n k with
    | none => .fail n
    | some c => if prog (s.fph n k) < (chunks cfg.cs c).length then .fchunk n k none else .ffinal n k

/-- the main goroutine of node `n` -/
def mainStep (cfg : Cfg N K) (rkeys fkeys : List K) (n : N) (c : CSt N K) : Option (CSt N K) :=
  if cfg.up n = false then none else
  match c.pc n with
  | .boot => some ⟨step cfg (.restart n) c.st, setPc c.pc n .snap1⟩
  | .snap1 =>
      if c.st.failed n = true then none else
      some ⟨c.st, setPc c.pc n (.phase1 (rdests cfg rkeys n c.st) (fun d => rbatch cfg rkeys n d c.st) (fun _ => .send))⟩
  | .phase1 dests _ stage =>
      if c.st.failed n = true then none else
      if dests.all (fun d => stage d = .done) then some ⟨c.st, setPc c.pc n .snap2⟩ else none
  | .snap2 =>
      if c.st.failed n = true then none else
      some ⟨c.st, setPc c.pc n (.phase2 (fdests cfg fkeys n c.st) (fun d => ftodo cfg fkeys n d c.st))⟩
  | .phase2 dests todo =>
      if c.st.failed n = true then none else
      if dests.all (fun d => (todo d).isEmpty) then some ⟨c.st, setPc c.pc n .done⟩ else none
  | .done => none

/-- the goroutine of node `n` for destination `d` -/
def goStep (cfg : Cfg N K) (n d : N) (c : CSt N K) : Option (CSt N K) :=
  if cfg.up n = false ∨ c.st.failed n = true then none else
  match c.pc n with
  | .phase1 dests batch stage =>
      if d ∈ dests then
        match stage d with
        | .send =>
            some ⟨act cfg n (.rsend n d (batch d) true) c.st,
                  setPc c.pc n (.phase1 dests batch (fun x => if x = d then .delete else stage x))⟩
        | .delete =>
            some ⟨act cfg n (.rdelete n (batch d)) c.st,
                  setPc c.pc n (.phase1 dests batch (fun x => if x = d then .done else stage x))⟩
        | .done => none
      else none
  | .phase2 dests todo =>
      if d ∈ dests then
        match todo d with
        | [] => none
        | k :: rest =>
            some ⟨act cfg n (fnext cfg c.st n k) c.st,
                  setPc c.pc n (.phase2 dests
                    (fun x => if x = d then (if c.st.fph n k = .confirmed then rest else k :: rest) else todo x))⟩
      else none
  | _ => none

def cstepT (cfg : Cfg N K) (rkeys fkeys : List K) : Tid N → CSt N K → Option (CSt N K)
  | .main n, c => mainStep cfg rkeys fkeys n c
  | .go n d, c => goStep cfg n d c

/-- a schedule: the named thread takes its next step; a thread that has none is skipped -/
def crun (cfg : Cfg N K) (rkeys fkeys : List K) (sched : List (Tid N)) (c : CSt N K) : CSt N K :=
  sched.foldl (fun c t => (cstepT cfg rkeys fkeys t c).getD c) c

/-- the start of a round: no process is running yet -/
def cinit (s : St N K) : CSt N K := ⟨s, fun _ => .boot⟩

/-- node `n`'s `Sync` has returned: with nil, or with an error (the process exited) -/
def finished (c : CSt N K) (n : N) : Bool :=
  match c.pc n with
  | .done => true
  | .boot => false
  | _ => c.st.failed n

/-! ### reads through any node

A request that arrives at node `m` is routed to the routing owner of the key (`internalRoute`: the
handler runs locally when `m` is the owner, otherwise `m` forwards it) and answered from what the
owner stores.  Both nodes have to be running. -/

def readRec (cfg : Cfg N K) (s : St N K) (m : N) (k : K) : Option Content :=
  if cfg.up m = true ∧ cfg.up (cfg.owner k) = true then
    (if cfg.owner k = m then s.recs m k else s.recs (cfg.owner k) k)
  else none

def readFile (cfg : Cfg N K) (s : St N K) (m : N) (k : K) : Option Content :=
  if cfg.up m = true ∧ cfg.up (cfg.fowner k) = true then
    (if cfg.fowner k = m then s.files m k else s.files (cfg.fowner k) k)
  else none

/-! ### the messages of a run (ghost): what `RPCSendShard` is called with -/

/-- the `(ChunkIndex, ChunkData)` a label sends for shard `k` from node `n` in state `s` -/
def labelMsg (cfg : Cfg N K) (s : St N K) (n : N) (k : K) : Label N K → Option (Nat × Content)
  | .fchunk src k' cor =>
      if src = n ∧ k' = k ∧ enabled cfg s (.fchunk src k' cor) then
        match s.files src k' with
        | some c => some (prog (s.fph src k'), cor.getD ((chunks cfg.cs c).getD (prog (s.fph src k')) []))
        | none => none
      else none
  | .ffinal src k' =>
      if src = n ∧ k' = k ∧ enabled cfg s (.ffinal src k') then some (prog (s.fph src k'), []) else none
  | _ => none

/-- the messages node `n` sends for shard `k` along a label sequence -/
def runMsgs (cfg : Cfg N K) (n : N) (k : K) : List (Label N K) → St N K → List (Nat × Content)
  | [], _ => []
  | l :: ls, s =>
      match labelMsg cfg s n k l with
      | some m => m :: runMsgs cfg n k ls (step cfg l s)
      | none => runMsgs cfg n k ls (step cfg l s)

/-- the call a goroutine's next step makes (`goStep` executes it, or fails the node when it cannot be
executed) -/
def goLabel (cfg : Cfg N K) (n d : N) (c : CSt N K) : Option (Label N K) :=
  if cfg.up n = false ∨ c.st.failed n = true then none else
  match c.pc n with
  | .phase1 dests batch stage =>
      if d ∈ dests then
        match stage d with
        | .send => some (.rsend n d (batch d) true)
        | .delete => some (.rdelete n (batch d))
        | .done => none
      else none
  | .phase2 dests todo =>
      if d ∈ dests then
        match todo d with
        | [] => none
        | k :: _ => some (fnext cfg c.st n k)
      else none
  | _ => none

/-- what the step of thread `t` in `c` calls `RPCSendShard` with, for shard `k` of node `n` -/
def tidMsg (cfg : Cfg N K) (n : N) (k : K) : Tid N → CSt N K → Option (Nat × Content)
  | .go n' d, c => if n' = n then (goLabel cfg n' d c).bind (labelMsg cfg c.st n k) else none
  | .main _, _ => none

/-- the messages node `n` sends for shard `k` along a schedule of the concurrent program -/
def cmsgs (cfg : Cfg N K) (rkeys fkeys : List K) (n : N) (k : K) : List (Tid N) → CSt N K → List (Nat × Content)
  | [], _ => []
  | t :: ts, c =>
      match cstepT cfg rkeys fkeys t c with
      | none => cmsgs cfg rkeys fkeys n k ts c
      | some c' => (tidMsg cfg n k t c).toList ++ cmsgs cfg rkeys fkeys n k ts c'

/-- the label sequence of one failure-free `sendShardFile` of a file with `len` data chunks -/
def sendLabels (n : N) (k : K) (len : Nat) : List (Label N K) :=
  List.replicate len (.fchunk n k none) ++ [.ffinal n k, .fremove n k]

end Sema.C14
