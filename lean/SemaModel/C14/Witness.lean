/- C14: the concrete witness used by the negation on the pinned receiver and by the non-vacuity
   examples (two nodes, one record, one shard of three symbols, chunk size 2) -/
import SemaModel.C14.Pinned
import SemaModel.C14.Spec
namespace Sema.C14

/-! the witness: two nodes, shard 7 = [1,2,3] on node 0, owner node 1, chunk size 2; the transfer is
interrupted after chunk 0 ("fail at chunk 1"), then a failure-free round runs. -/
def wSum (c : Content) : Nat := enc c + 1
def wCfg (trunc : Bool) : Cfg Nat Nat := { owner := fun _ => 1, fowner := fun _ => 1, cs := 2, trunc0 := trunc, sum := wSum }
def wS0 : St Nat Nat :=
  { recs := fun n k => if n = 0 ∧ k = 5 then some [9] else none,
    files := fun n k => if n = 0 ∧ k = 7 then some [1, 2, 3] else none,
    rconf := fun _ _ => false, fph := fun _ _ => .idle, failed := fun _ => false }
def wRo : Nat → Option Content := fun k => if k = 5 then some [9] else none
def wFo : Nat → Option Content := fun k => if k = 7 then some [1, 2, 3] else none
/-- `Sync` of node 0 interrupted at chunk 1 of shard 7 -/
def wS1 (trunc : Bool) : St Nat Nat := syncNode (wCfg trunc) { failAt := some (7, 1) } [0, 1] [5] [7] 0 wS0

theorem wSumOK (t : Bool) : SumOK (wCfg t) :=
  ⟨fun a b h => enc_inj a b (by simp only [wCfg, wSum] at h; omega), by simp [wCfg, wSum]⟩

theorem wInit : Init wRo wFo wS0 := by
  refine ⟨?_, ?_, ?_, ?_, ?_, fun _ _ => rfl, fun _ _ => rfl⟩
  · intro n k v h
    simp only [wS0] at h
    split at h
    · rename_i hh; simp [wRo, hh.2, ← h]
    · cases h
  · intro k v h
    simp only [wRo] at h
    split at h
    · rename_i hh; exact ⟨0, by simp [wS0, hh, ← h]⟩
    · cases h
  · intro n k c h
    simp only [wS0] at h
    split at h
    · rename_i hh; simp [wFo, hh.2, ← h]
    · cases h
  · intro k c h
    simp only [wFo] at h
    split at h
    · rename_i hh; exact ⟨0, by simp [wS0, hh, ← h]⟩
    · cases h
  · intro n n' k a b
    simp only [wS0] at a b
    split at a
    · split at b
      · rename_i h1 h2; rw [h1.1, h2.1]
      · cases b
    · cases a

def wLabels : List (Label Nat Nat) := [.restart 0, .rsend 0 1 [5] true, .rdelete 0 [5], .fchunk 0 7 none, .fail 0]

theorem wS1_eq (t : Bool) : wS1 t = run (wCfg t) wLabels wS0 := by cases t <;> rfl

theorem wReach (t : Bool) : Reachable (wCfg t) wS0 (wS1 t) := by
  rw [wS1_eq]; exact reachable_run _ _ .init

theorem wCovers (t : Bool) : Covers (wCfg t) wRo wFo [0, 1] [5] [7] := by
  refine ⟨?_, ?_, fun _ _ => by simp [wCfg]⟩
  · intro k h; simp only [wRo] at h; split at h <;> simp_all
  · intro k h; simp only [wFo] at h; split at h <;> simp_all

theorem wNonempty : ∀ k c, wFo k = some c → c ≠ [] := by
  intro k c hk
  simp only [wFo] at hk
  split at hk
  · cases hk; simp
  · cases hk

theorem wHolders (t : Bool) : ∀ n k, ((wS1 t).recs n k).isSome ∨ ((wS1 t).files n k).isSome → n ∈ [0, 1] := by
  have hs : StepsBy (wCfg t) 0 wS0 (wS1 t) := by
    rw [wS1_eq]
    exact stepsBy_run _ (by intro l hl; simp [wLabels] at hl; rcases hl with h | h | h | h | h <;> (subst h; rfl)) _ _ (.refl _)
  intro n k h
  by_cases e : n = 1
  · simp [e]
  · by_cases e0 : n = 0
    · simp [e0]
    · exfalso
      rcases h with h | h
      · have : (wS1 t).recs n k = none := hs.recs_none n k (by simpa [wCfg] using e) (by simp [wS0, e0])
        simp [this] at h
      · have : (wS1 t).files n k = none := hs.files_none n k (by simpa [wCfg] using e) (by simp [wS0, e0])
        simp [this] at h

end Sema.C14
