/- C14: the concrete witness used by the negation on the pinned receiver and by the non-vacuity
   examples (two nodes, one record, one shard of three symbols, chunk size 2) -/
import SemaModel.C14.Pinned
import SemaModel.C14.Epochs
import SemaModel.C14.ConcInv
namespace Sema.C14

/-! the witness: two nodes, shard 7 = [1,2,3] on node 0, owner node 1, chunk size 2; the transfer is
interrupted after chunk 0 ("fail at chunk 1"), then a failure-free round runs. -/
def wSum (c : Content) : Nat := enc c + 1
def wCfg (trunc : Bool) : Cfg Nat Nat := { owner := fun _ => 1, fowner := fun _ => 1, cs := 2, trunc0 := trunc, sum := wSum }
def wS0 : St Nat Nat :=
  { recs := fun n k => if n = 0 ∧ k = 5 then some [9] else none,
    files := fun n k => if n = 0 ∧ k = 7 then some [1, 2, 3] else none,
    rconf := fun _ _ => false, fph := fun _ _ => .idle, failed := fun _ => false }
def wRo : Nat → Option Content := fun k => if k = 5 then some [9] else none
def wFo : Nat → Option Content := fun k => if k = 7 then some [1, 2, 3] else none
/-- `Sync` of node 0 interrupted at chunk 1 of shard 7 -/
def wS1 (trunc : Bool) : St Nat Nat := syncNode (wCfg trunc) { failAt := some (7, 1) } [0, 1] [5] [7] 0 wS0

theorem wSumOK (t : Bool) : SumOK (wCfg t) :=
  ⟨fun a b h => enc_inj a b (by simp only [wCfg, wSum] at h; omega), by simp [wCfg, wSum]⟩

theorem wInit (t : Bool) : Init (wCfg t) wRo wFo wS0 := by
  refine ⟨?_, ?_, ?_, ?_, ?_, fun _ _ => rfl, fun _ _ => rfl, fun _ _ _ => rfl⟩
  · intro n k v h
    simp only [wS0] at h
    split at h
    · rename_i hh; simp [wRo, hh.2, ← h]
    · cases h
  · intro k v h
    simp only [wRo] at h
    split at h
    · rename_i hh; exact ⟨0, by simp [wS0, hh, ← h]⟩
    · cases h
  · intro n k c h
    simp only [wS0] at h
    split at h
    · rename_i hh; simp [wFo, hh.2, ← h]
    · cases h
  · intro k c h
    simp only [wFo] at h
    split at h
    · rename_i hh; exact ⟨0, by simp [wS0, hh, ← h]⟩
    · cases h
  · intro n n' k a b
    simp only [wS0] at a b
    split at a
    · split at b
      · rename_i h1 h2; rw [h1.1, h2.1]
      · cases b
    · cases a

def wLabels : List (Label Nat Nat) := [.restart 0, .rsend 0 1 [5] true, .rdelete 0 [5], .fchunk 0 7 none, .fail 0]

theorem wS1_eq (t : Bool) : wS1 t = run (wCfg t) wLabels wS0 := by cases t <;> rfl

theorem wReach (t : Bool) : Reachable (wCfg t) wS0 (wS1 t) := by
  rw [wS1_eq]; exact reachable_run _ _ .init

theorem wCovers (t : Bool) : Covers (wCfg t) wRo wFo [0, 1] [5] [7] := by
  refine ⟨?_, ?_, fun _ _ => by simp [wCfg], fun _ _ => rfl⟩
  · intro k h; simp only [wRo] at h; split at h <;> simp_all
  · intro k h; simp only [wFo] at h; split at h <;> simp_all

theorem wNonempty : ∀ k c, wFo k = some c → c ≠ [] := by
  intro k c hk
  simp only [wFo] at hk
  split at hk
  · cases hk; simp
  · cases hk

theorem wHolders (t : Bool) : ∀ n k, ((wS1 t).recs n k).isSome ∨ ((wS1 t).files n k).isSome → n ∈ [0, 1] := by
  have hs : StepsBy (wCfg t) 0 wS0 (wS1 t) := by
    rw [wS1_eq]
    exact stepsBy_run _ (by intro l hl; simp [wLabels] at hl; rcases hl with h | h | h | h | h <;> (subst h; rfl)) _ _ (.refl _)
  intro n k h
  by_cases e : n = 1
  · simp [e]
  · by_cases e0 : n = 0
    · simp [e0]
    · exfalso
      rcases h with h | h
      · have : (wS1 t).recs n k = none := hs.recs_none n k (by simpa [wCfg] using e) (by simp [wS0, e0])
        simp [this] at h
      · have : (wS1 t).files n k = none := hs.files_none n k (by simpa [wCfg] using e) (by simp [wS0, e0])
        simp [this] at h

/-! ### a history over three server lists (non-vacuity of the `C14_epochs_*` theorems)

Three nodes; record 0 (`[1]`) and shard 1 (`[1,2,3]`, never moves) on node 0.
1. the list grows: node 2 becomes the owner of record 0; node 0 sends it and is killed before its
   local delete — the record is on nodes 0 and 2;
2. the change is rolled back: node 0 is the owner again, node 2 is switched off and keeps its disk;
3. the cluster serves: the collection gains a shard, record 0 becomes `[1,9]` on node 0 — the copy on
   node 2 is now OLDER;
4. the list grows again (owner node 2, all nodes started) and a failure-free round runs. -/
abbrev eN := Fin 3
abbrev eK := Fin 2
def eRo : eK → Option Content := fun k => if k = 0 then some [1] else none
def eFo : eK → Option Content := fun k => if k = 1 then some [1, 2, 3] else none
def eCfg0 : Cfg eN eK := { owner := fun _ => 0, fowner := fun _ => 0, cs := 2, trunc0 := true, sum := wSum }
def eW0 : World eN eK := { cfg := eCfg0, st := placedSt (fun _ => 0) (fun _ => 0) eRo eFo, ro := eRo, fo := eFo }
def eEvents : List (Ev eN eK) :=
  [.reconf (fun _ => 2) (fun _ => 0) (fun _ => true),
   .sync (.restart 0), .sync (.rsend 0 2 [0] false), .sync (.fail 0),
   .reconf (fun _ => 0) (fun _ => 0) (fun n => n != 2),
   .sync (.restart 0),
   .wrec 0 (some [1, 9]),
   .reconf (fun _ => 2) (fun _ => 0) (fun _ => true)]
def eRun (es : List (Ev eN eK)) (w : World eN eK) : World eN eK := es.foldl (fun w e => wstep e w) w
def eW (i : Nat) : World eN eK := eRun (eEvents.take i) eW0
/-- the same history, but the last change makes node 0 the owner although node 2 is started with its
older copy (not `Safe`) -/
def eWbad : World eN eK := wstep (.reconf (fun _ => 0) (fun _ => 0) (fun _ => true)) (eW 7)

theorem eSumOK : SumOK eW0.cfg :=
  ⟨fun a b h => enc_inj a b (by simp only [eW0, eCfg0, wSum] at h; omega), by simp [eW0, eCfg0, wSum]⟩

theorem eInit : WInit eW0 := init_placedSt _ _ _ _ _ (fun _ => rfl)

theorem eSupp (i : Nat) (hi : i ≤ 8) : Supp (eW i) [0, 1, 2] [0] [1] := by
  have : i = 0 ∨ i = 1 ∨ i = 2 ∨ i = 3 ∨ i = 4 ∨ i = 5 ∨ i = 6 ∨ i = 7 ∨ i = 8 := by omega
  rcases this with h | h | h | h | h | h | h | h | h <;> subst h <;>
    exact ⟨by decide, by decide, by decide, by decide⟩

theorem eReach7 : WReach eW0 (eW 7) := by
  have r0 : WReach eW0 (eW 0) := .init
  have r1 : WReach eW0 (eW 1) :=
    .reconf _ _ _ r0 (safeB_sound (nodes := [0, 1, 2]) (rkeys := [0]) (fkeys := [1]) (eSupp 0 (by omega)) (by decide))
  have r2 : WReach eW0 (eW 2) := .sync _ r1
  have r3 : WReach eW0 (eW 3) := .sync _ r2
  have r4 : WReach eW0 (eW 4) := .sync _ r3
  have r5 : WReach eW0 (eW 5) :=
    .reconf _ _ _ r4 (safeB_sound (nodes := [0, 1, 2]) (rkeys := [0]) (fkeys := [1]) (eSupp 4 (by omega)) (by decide))
  have r6 : WReach eW0 (eW 6) := .sync _ r5
  exact .wrec _ _ r6 (quietRB_sound (nodes := [0, 1, 2]) (eSupp 6 (by omega)) 0 (by decide))

theorem eReach : WReach eW0 (eW 8) :=
  .reconf _ _ _ eReach7 (safeB_sound (nodes := [0, 1, 2]) (rkeys := [0]) (fkeys := [1]) (eSupp 7 (by omega)) (by decide))

theorem eCovers : Covers (eW 8).cfg (eW 8).ro (eW 8).fo [0, 1, 2] [0] [1] :=
  ⟨by decide, by decide, by decide, by decide⟩

/-! ### three nodes, all synchronising at the same time (non-vacuity of the `…_concurrent` theorems)

Records 0 (node 0) and 1 (node 1), shards 2 = `[1,2,3]` and 4 = `[7]` (node 0), 3 = `[4,5,6]` (node 1);
chunk size 2.  Under the new list everything is routed to node 2, except shard 4 → node 1: nodes 0 and
1 send to the same owner at the same time, node 0 runs two goroutines in phase 2.
Earlier attempts (`cLabels`): node 0 sent record 0 and never saw the reply; node 1 moved its record and
died after chunk 0 of shard 3 (the owner holds the left-over `[4,5]`). -/
abbrev cN := Fin 3
abbrev cK := Fin 5
def cRo : cK → Option Content := fun k => if k = 0 then some [9] else if k = 1 then some [8] else none
def cFo : cK → Option Content :=
  fun k => if k = 2 then some [1, 2, 3] else if k = 3 then some [4, 5, 6] else if k = 4 then some [7] else none
def cCfg : Cfg cN cK :=
  { owner := fun _ => 2, fowner := fun k => if k = 4 then 1 else 2, cs := 2, trunc0 := true, sum := wSum }
def cWhere : cK → cN := fun k => if k = 1 ∨ k = 3 then 1 else 0
def cS0 : St cN cK := placedSt cWhere cWhere cRo cFo
def cLabels : List (Label cN cK) :=
  [.restart 0, .rsend 0 2 [0] false, .fail 0,
   .restart 1, .rsend 1 2 [1] true, .rdelete 1 [1], .fchunk 1 3 none, .fail 1]
def cS1 : St cN cK := run cCfg cLabels cS0
/-- an interleaving: the three processes start, take their snapshots and run their goroutines in turns;
the chunks of shards 2, 3 (both to node 2) and 4 alternate; threads that have nothing to do are named
too (they are skipped) -/
def cSched : List (Tid cN) :=
  [.main 0, .main 1, .main 2, .main 0, .main 1, .go 2 0, .main 2,
   .go 0 2, .main 1, .main 2, .go 0 2, .main 1, .main 0, .main 0, .main 2,
   .go 1 2, .go 0 2, .go 0 1, .go 1 2, .main 0, .go 0 2, .go 0 1, .go 0 2, .go 1 2, .main 2,
   .go 0 1, .go 1 2, .go 1 0, .go 0 2, .main 0, .main 1]
def cRkeys : List cK := [0, 1]
def cFkeys : List cK := [2, 3, 4]

theorem cSumOK : SumOK cCfg :=
  ⟨fun a b h => enc_inj a b (by simp only [cCfg, wSum] at h; omega), by simp [cCfg, wSum]⟩
theorem cInit : Init cCfg cRo cFo cS0 := init_placedSt _ _ _ _ _ (fun _ => rfl)
theorem cReach : Reachable cCfg cS0 cS1 := reachable_run _ _ .init
theorem cCovers : Covers cCfg cRo cFo [0, 1, 2] cRkeys cFkeys := ⟨by decide, by decide, by decide, by decide⟩

set_option maxRecDepth 4000 in
/-- under `cSched` every `Sync` returns -/
theorem cFinished : ∀ n, cCfg.up n = true → finished (crun cCfg cRkeys cFkeys cSched (cinit cS1)) n = true := by decide

/-- the history above, all three nodes synchronising at once -/
def eSched : List (Tid eN) :=
  [.main 2, .main 0, .main 1, .main 0, .main 2, .main 1, .go 0 2, .main 2, .main 1, .main 2, .go 0 2,
   .main 1, .main 0, .main 2, .main 0, .main 1, .main 0]
theorem eFinished : ∀ n, (eW 8).cfg.up n = true → finished (crun (eW 8).cfg [0] [1] eSched (cinit (eW 8).st)) n = true := by
  decide

/-- two started non-owners hold the same shard (excluded by `Safe.fc` / `Inv.f4`) -/
def dCfg : Cfg (Fin 3) (Fin 1) := { owner := fun _ => 2, fowner := fun _ => 2, cs := 2, trunc0 := true, sum := wSum }
def dS : St (Fin 3) (Fin 1) :=
  { recs := fun _ _ => none, files := fun n _ => if n = 2 then none else some [1, 2, 3],
    rconf := fun _ _ => false, fph := fun _ _ => .idle, failed := fun _ => false }
def dSchedSeq : List (Tid (Fin 3)) :=
  [.main 0, .main 0, .main 0, .main 0, .go 0 2, .go 0 2, .go 0 2, .go 0 2, .main 0,
   .main 1, .main 1, .main 1, .main 1, .go 1 2, .go 1 2, .go 1 2, .go 1 2, .main 1]
def dSchedMix : List (Tid (Fin 3)) :=
  [.main 0, .main 0, .main 0, .main 0, .main 1, .main 1, .main 1, .main 1,
   .go 0 2, .go 1 2, .go 0 2, .go 1 2, .go 0 2, .go 1 2]

end Sema.C14
