/- line protocol for C14: the harness describes a cluster (who holds which record / shard file, who
   the routing owner of each key is under the new server list) and the `Sync` runs with their
   faults; the driver executes the model (`syncNode`, `recvWrite`, `messages`) and prints who
   holds what.  Core only. -/
import SemaModel.Base.DriverUtil
import SemaModel.C14.Model
import SemaModel.C14.Concurrent
namespace Sema.C14

structure DSt where
  cs : Nat := 2
  trunc : Bool := true
  nodes : List String := []
  rowner : List (String × String) := []
  fowner : List (String × String) := []
  rkeys : List String := []
  fkeys : List String := []
  orig : List (String × Content) := []   -- current content of a key ("r:"/"f:" prefixed): first declared, then as last written
  up : Option (List String) := none       -- nodes started in the current epoch (none: all)
  st : St String String :=
    { recs := fun _ _ => none, files := fun _ _ => none, rconf := fun _ _ => false,
      fph := fun _ _ => .idle, failed := fun _ => false }

def content? (s : String) : Option Content :=
  if s == "-" then some [] else (s.splitOn ".").mapM String.toNat?

/-- checksum instance of the driver: injective for symbols < 2^33 - 1 -/
def dsum (c : Content) : Nat := c.foldl (fun a x => a * 8589934592 + (x + 1)) 0 + 1

/-- digest used only for printing -/
def digest (c : Content) : String :=
  s!"{c.length}/{c.foldl (fun a x => (a * 31 + x + 1) % 4294967296) 7}"

def lookupD (l : List (String × String)) (k : String) : String := (l.lookup k).getD "?"

def setAssoc (l : List (String × String)) (k v : String) : List (String × String) :=
  (k, v) :: l.filter (fun p => p.1 != k)

def addKey (l : List String) (k : String) : List String := if l.contains k then l else l ++ [k]

def DSt.cfg (d : DSt) : Cfg String String :=
  { owner := lookupD d.rowner, fowner := lookupD d.fowner, cs := d.cs, trunc0 := d.trunc, sum := dsum,
    up := fun n => match d.up with | none => true | some l => l.contains n }

def DSt.world (d : DSt) : World String String :=
  { cfg := d.cfg, st := d.st, ro := fun k => d.orig.lookup ("r:" ++ k), fo := fun k => d.orig.lookup ("f:" ++ k) }

def setOrig (l : List (String × Content)) (k : String) (c : Option Content) : List (String × Content) :=
  let l := l.filter (fun p => p.1 != k)
  match c with
  | some c => (k, c) :: l
  | none => l

def content?? (s : String) : Option (Option Content) :=
  if s == "none" then some none else (content? s).map some

def sortKeys (l : List String) : List String := (l.toArray.qsort (· < ·)).toList

/-- the order in which `filepath.Walk` visits the shard directories `user/collection/shard`:
lexical per path component (a user id that is a prefix of another comes first, whatever follows) -/
def walkKey (k : String) : String := k.map fun c => if c == '/' then Char.ofNat 1 else c
def walkOrder (l : List String) : List String := (l.toArray.qsort (fun a b => walkKey a < walkKey b)).toList

def parseFault (toks : List String) : Option (Fault String String) :=
  toks.foldlM (fun (f : Fault String String) t =>
    match t.splitOn "=" with
    | ["down", v] => let ds := v.splitOn ","; some { f with down := fun n => ds.contains n }
    | ["failat", v] => match v.splitOn "@" with
        | [k, i] => i.toNat?.map fun i => { f with failAt := some (k, i) }
        | _ => none
    | ["corrupt", v] => match v.splitOn "@" with
        | [k, i, c] => match i.toNat?, content? c with
            | some i, some c => some { f with corrupt := some (k, i, c) }
            | _, _ => none
        | _ => none
    | ["stop1"] => some { f with stopAfterPhase1 := true }
    | _ => none) {}

/-- a copy is printed as `orig` when it is identical to what was declared first, else by its digest -/
def showCopy (d : DSt) (tag k : String) (c : Content) : String :=
  if d.orig.lookup (tag ++ k) == some c then s!"{k}=orig" else s!"{k}={digest c}"

def addOrig (l : List (String × Content)) (k : String) (c : Content) : List (String × Content) :=
  if (l.lookup k).isSome then l else (k, c) :: l

def dumpNode (d : DSt) (n : String) : String :=
  let rs := (sortKeys d.rkeys).filterMap fun k => (d.st.recs n k).map (showCopy d "r:" k)
  let fs := (sortKeys d.fkeys).filterMap fun k => (d.st.files n k).map (showCopy d "f:" k)
  s!"{n}[r " ++ " ".intercalate rs ++ " | f " ++ " ".intercalate fs ++ "]"

/-! ### concurrent rounds (`csync`): every started node runs `Sync` at the same time

The prediction is the SPECIFICATION of `C14_converges_concurrent` / `C14_epochs_converges_concurrent`
(`placedSpec`: every current record / shard file at its routing owner, on no other started node,
switched-off nodes untouched, no `Sync` failed) — whatever the real interleaving was.  In addition the
driver executes the concurrent program of `Concurrent.lean` under a pseudo-random schedule taken from
the line and reports when that run does not end in the specified state. -/

def placedSpec (d : DSt) : St String String :=
  let cfg := d.cfg
  let w := d.world
  { recs := fun n k =>
      if cfg.up n then (if n = cfg.owner k then (match w.ro k with | some v => some v | none => d.st.recs n k) else none)
      else d.st.recs n k,
    files := fun n k =>
      if cfg.up n then (if n = cfg.fowner k then (match w.fo k with | some v => some v | none => d.st.files n k) else none)
      else d.st.files n k,
    rconf := fun n k => if cfg.up n then false else d.st.rconf n k,
    fph := fun n k => if cfg.up n then .idle else d.st.fph n k,
    failed := fun n => if cfg.up n then false else d.st.failed n }

def cThreads (nodes : List String) : List (Tid String) :=
  nodes.flatMap fun n => Tid.main n :: nodes.map fun dst => Tid.go n dst

/-- the concurrent program under a pseudo-random schedule, until no thread can take a step -/
def crunRandom (cfg : Cfg String String) (rkeys fkeys : List String) (nodes : List String) :
    Nat → Nat → CSt String String → CSt String String
  | 0, _, c => c
  | fuel + 1, seed, c =>
      let succs := (cThreads nodes).filterMap fun t => cstepT cfg rkeys fkeys t c
      if succs.isEmpty then c else
      let seed' := (seed * 6364136223846793005 + 1442695040888963407) % 18446744073709551616
      crunRandom cfg rkeys fkeys nodes fuel seed' (succs.getD ((seed' / 8589934592) % succs.length) c)

def sameOn (d : DSt) (a b : St String String) : Bool :=
  d.nodes.all fun n =>
    (a.failed n == b.failed n) &&
    (d.rkeys.all fun k => a.recs n k == b.recs n k) && (d.fkeys.all fun k => a.files n k == b.files n k)

def stepLine (d : DSt) (line : String) : DSt × String :=
  let bad := (d, "bad-op")
  match (line.trimAscii.toString.splitOn " ").filter (· ≠ "") with
  | ["cfg", cs, tr] => match cs.toNat? with
      | some cs => ({ cs := cs, trunc := tr == "1" }, "ok")
      | none => bad
  | "scenario" :: _ => (d, "ok")
  | "note" :: _ => (d, "ok")
  | ["node", n] => ({ d with nodes := addKey d.nodes n }, "ok")
  | ["rec", n, k, c] => match content? c with
      | some c => ({ d with rkeys := addKey d.rkeys k, orig := addOrig d.orig ("r:" ++ k) c,
                            st := { d.st with recs := upd d.st.recs n k (some c) } }, "ok")
      | none => bad
  | ["file", n, k, c] => match content? c with
      | some c => ({ d with fkeys := addKey d.fkeys k, orig := addOrig d.orig ("f:" ++ k) c,
                            st := { d.st with files := upd d.st.files n k (some c) } }, "ok")
      | none => bad
  | ["rowner", k, n] => ({ d with rowner := setAssoc d.rowner k n }, "ok")
  | ["fowner", k, n] => ({ d with fowner := setAssoc d.fowner k n }, "ok")
  | "sync" :: n :: ftoks => match parseFault ftoks with
      | some flt =>
          let st := syncNode d.cfg flt d.nodes d.rkeys (walkOrder d.fkeys) n d.st
          ({ d with st := st }, if st.failed n then "fail" else "ok")
      | none => bad
  | ["csync", seed, ns] => match seed.toNat? with
      | some seed =>
          let cfg := d.cfg
          let ups := d.nodes.filter fun n => cfg.up n
          if sortKeys (ns.splitOn ",") != sortKeys ups then bad else
          let spec := placedSpec d
          let c := crunRandom cfg d.rkeys (walkOrder d.fkeys) ups 1000000 seed (cinit d.st)
          let failedNodes := (sortKeys ups).filter fun n => c.st.failed n
          let res :=
            if !failedNodes.isEmpty then "fail:" ++ ",".intercalate failedNodes
            else if !(ups.all fun n => (c.pc n).isDone) then "model-not-finished"
            else if !(sameOn d c.st spec) then "model-run-differs-from-spec"
            else "ok"
          ({ d with st := spec }, res)
      | none => bad
  | ["rsendlost", src, dst] =>
      -- the receiver stored the batch, the sender never saw the reply (killed / connection lost)
      let cfg := d.cfg
      let s := step cfg (.restart src) d.st
      let batch := d.rkeys.filter (fun k => cfg.owner k = dst ∧ (s.recs src k).isSome)
      let s := step cfg (.fail src) (step cfg (.rsend src dst batch false) s)
      ({ d with st := s }, "fail")
  | ["recv", n, k, idx, c] => match idx.toNat?, content? c with
      | some i, some c =>
          let file := recvWrite d.trunc (d.st.files n k) i c
          let sum := if i > 0 ∧ c.isEmpty then digest file else "0"
          ({ d with fkeys := addKey d.fkeys k, st := { d.st with files := upd d.st.files n k (some file) } },
           s!"w={c.length} sum={sum}")
      | _, _ => bad
  | ["msgs", cs, len] => match cs.toNat?, len.toNat? with
      | some cs, some len =>
          (d, "|".intercalate ((messages cs (List.replicate len 0)).map fun p => s!"{p.1}:{p.2.length}"))
      | _, _ => bad
  | ["dump"] => (d, " ".intercalate (d.nodes.map (dumpNode d)))
  | ["epoch", ups] =>
      -- the server list changes: the `rowner` / `fowner` lines before this one gave the new routing
      let u := (ups.splitOn ",").filter (· ≠ "")
      let w := d.world
      let safe := safeB w w.cfg.owner w.cfg.fowner (fun n => u.contains n) d.nodes d.rkeys d.fkeys
      ({ d with up := some u, st := clearAll d.st }, if safe then "safe" else "notsafe")
  | ["wrec", k, c] => match content?? c with
      | some v =>
          let w := d.world
          let q := quietRB w d.nodes k
          let w' := wstep (.wrec k v) w
          ({ d with rkeys := addKey d.rkeys k, orig := setOrig d.orig ("r:" ++ k) v, st := w'.st },
           if q then "ok" else "not-quiet")
      | none => bad
  | ["wfile", k, c] => match content?? c with
      | some v =>
          let w := d.world
          let q := quietFB w d.nodes k
          let w' := wstep (.wfile k v) w
          ({ d with fkeys := addKey d.fkeys k, orig := setOrig d.orig ("f:" ++ k) v, st := w'.st },
           if q then "ok" else "not-quiet")
      | none => bad
  | _ => bad

end Sema.C14

def Sema.C14.driverMain (stdin stdout : IO.FS.Stream) (_args : List String) : IO Unit :=
  Sema.loopState stdin stdout Sema.C14.stepLine {}
