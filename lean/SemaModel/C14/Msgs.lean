/- C14: the messages a sender emits (`labelMsg`, `runMsgs`: what `RPCSendShard` is called with along a
   run of the transition system) are `messages` — the list `C14_chunks` is about. -/
import SemaModel.C14.ConcInv
namespace Sema.C14

variable {N K : Type} [DecidableEq N] [DecidableEq K]

theorem messages_length (cs : Nat) (c : Content) : (messages cs c).length = (chunks cs c).length + 1 := by
  simp [messages]

theorem messages_drop_lt (cs : Nat) (c : Content) (i : Nat) (h : i < (chunks cs c).length) :
    (messages cs c).drop i = (i, (chunks cs c).getD i []) :: (messages cs c).drop (i + 1) := by
  have hl : i < (messages cs c).length := by rw [messages_length]; omega
  rw [List.drop_eq_getElem_cons hl]
  congr 1
  simp [messages, List.getElem_append_left, h, List.getD_eq_getElem?_getD]

theorem messages_drop_len (cs : Nat) (c : Content) :
    (messages cs c).drop (chunks cs c).length = [((chunks cs c).length, [])] := by
  simp [messages]

theorem prog_of_progress (ph : Phase) (i : Nat) (h : progress ph = some i) : prog ph = i := by
  cases ph <;> simp_all [progress, prog]

/-- one acknowledged data chunk later -/
theorem sending_fchunk (cfg : Cfg N K) (htr : cfg.trunc0 = true) (n : N) (k : K) (c : Content)
    (hne : n ≠ cfg.fowner k) (hus : cfg.up n = true) (huo : cfg.up (cfg.fowner k) = true)
    (i : Nat) (s : St N K) (hS : Sending cfg n k c i s) (hlt : i < (chunks cfg.cs c).length) :
    Sending cfg n k c (i + 1) (step cfg (.fchunk n k none) s) := by
  rw [step_fchunk_eq cfg s n k c i hS.file hS.prog hne hus huo hlt none]
  refine ⟨?_, by simp [upd, progress], ?_, hS.ok⟩
  · show upd s.files (cfg.fowner k) k _ n k = some c
    simp only [upd]; rw [if_neg (by rintro ⟨e1, _⟩; exact hne e1)]; exact hS.file
  · intro _
    show upd s.files (cfg.fowner k) k _ (cfg.fowner k) k = _
    simp only [upd, and_self, if_true, Option.getD_none, Option.some.injEq]
    rw [take_succ_flatten _ _ hlt]
    by_cases h0 : i = 0
    · subst h0; simp [recvWrite, htr]
    · have := hS.dst (by omega)
      simp [recvWrite, h0, this]

/-- the failure-free `sendShardFile` is the label sequence `sendLabels` -/
theorem sendFrom_eq_run (cfg : Cfg N K) (n : N) (k : K) :
    ∀ (fuel i : Nat) (s : St N K), sendFrom cfg noFault n k fuel i s = run cfg (sendLabels n k fuel) s := by
  intro fuel
  induction fuel with
  | zero =>
    intro i s
    simp only [sendFrom]
    rw [if_neg (by simp [noFault])]
    rfl
  | succ fuel ih =>
    intro i s
    simp only [sendFrom]
    rw [if_neg (by simp [noFault])]
    have hcor : corruptFor (noFault : Fault N K) k i = none := rfl
    rw [hcor, ih]
    simp [sendLabels, List.replicate_succ, run]

omit [DecidableEq K] in
theorem enabled_fchunk (cfg : Cfg N K) (s : St N K) (n : N) (k : K) (c : Content) (i : Nat) (cor : Option Content)
    (hf : s.files n k = some c) (hp : progress (s.fph n k) = some i) (hne : n ≠ cfg.fowner k)
    (hus : cfg.up n = true) (huo : cfg.up (cfg.fowner k) = true) (hi : i < (chunks cfg.cs c).length) :
    enabled cfg s (.fchunk n k cor) = true := by
  simp only [enabled, hf, hp]
  simp [hne, hi, hus, huo]

omit [DecidableEq K] in
theorem enabled_ffinal (cfg : Cfg N K) (s : St N K) (n : N) (k : K) (c : Content)
    (hf : s.files n k = some c) (hp : progress (s.fph n k) = some (chunks cfg.cs c).length) (hne : n ≠ cfg.fowner k)
    (hus : cfg.up n = true) (huo : cfg.up (cfg.fowner k) = true) :
    enabled cfg s (.ffinal n k) = true := by
  simp only [enabled, hf, hp]
  simp [hne, hus, huo]

/-- The chunk sequence the sender program emits is `messages`: along the failure-free
`sendShardFile n k` of a file `c` (from chunk `i` on, `i` chunks acknowledged) node `n` calls
`RPCSendShard` for shard `k` with exactly `(messages cs c).drop i` — from the start (`i = 0`) with
`messages cs c`. -/
theorem runMsgs_send (cfg : Cfg N K) (htr : cfg.trunc0 = true) (n : N) (k : K) (c : Content)
    (hne : n ≠ cfg.fowner k) (hus : cfg.up n = true) (huo : cfg.up (cfg.fowner k) = true) :
    ∀ (fuel i : Nat) (s : St N K), i + fuel = (chunks cfg.cs c).length → Sending cfg n k c i s →
      runMsgs cfg n k (sendLabels n k fuel) s = (messages cfg.cs c).drop i := by
  intro fuel
  induction fuel with
  | zero =>
    intro i s hi hS
    have hi : i = (chunks cfg.cs c).length := by omega
    subst hi
    have hen := enabled_ffinal cfg s n k c hS.file hS.prog hne hus huo
    have hm : labelMsg cfg s n k (.ffinal n k) = some ((chunks cfg.cs c).length, []) := by
      simp [labelMsg, hen, prog_of_progress _ _ hS.prog]
    have hm2 : ∀ s', labelMsg cfg s' n k (.fremove n k) = none := fun _ => rfl
    simp only [sendLabels, List.replicate_zero, List.nil_append, runMsgs, hm, hm2]
    rw [messages_drop_len]
  | succ fuel ih =>
    intro i s hi hS
    have hlt : i < (chunks cfg.cs c).length := by omega
    have hen := enabled_fchunk cfg s n k c i none hS.file hS.prog hne hus huo hlt
    have hm : labelMsg cfg s n k (.fchunk n k none) = some (i, (chunks cfg.cs c).getD i []) := by
      simp [labelMsg, hen, hS.file, prog_of_progress _ _ hS.prog]
    have hl : sendLabels n k (fuel + 1) = .fchunk n k none :: sendLabels n k fuel := by
      simp [sendLabels, List.replicate_succ]
    rw [hl]
    simp only [runMsgs, hm]
    rw [ih (i + 1) _ (by omega) (sending_fchunk cfg htr n k c hne hus huo i s hS hlt), messages_drop_lt _ _ _ hlt]

end Sema.C14
