/- C14: along EVERY schedule of the concurrent program that lets every `Sync` return, the messages a node
   sends for a shard it has to move (`cmsgs`) are exactly `messages` — the list `C14_chunks` is about. -/
import SemaModel.C14.ConcTerm
namespace Sema.C14

variable {N K : Type} [DecidableEq N] [DecidableEq K]

/-- what node `n` has still to send for shard `k` -/
def remaining (cfg : Cfg N K) (c : CSt N K) (n : N) (k : K) : List (Nat × Content) :=
  if cfg.up n = true ∧ n ≠ cfg.fowner k then
    match c.st.files n k with
    | none => []
    | some cnt =>
      if (c.pc n).isBoot = true then messages cfg.cs cnt
      else if c.st.fph n k = .confirmed then [] else (messages cfg.cs cnt).drop (prog (c.st.fph n k))
  else []

theorem remaining_congr (cfg : Cfg N K) (c c' : CSt N K) (n : N) (k : K)
    (hpc : (c'.pc n).isBoot = (c.pc n).isBoot) (hfph : c'.st.fph n k = c.st.fph n k)
    (hfiles : n ≠ cfg.fowner k → c'.st.files n k = c.st.files n k) :
    remaining cfg c' n k = remaining cfg c n k := by
  unfold remaining
  split
  · rename_i h; rw [hfiles h.2, hpc, hfph]
  · rfl

omit [DecidableEq K] in
theorem remaining_mk (cfg : Cfg N K) (s : St N K) (pc : N → Pc N K) (n : N) (k : K) (hun : cfg.up n = true)
    (hne : n ≠ cfg.fowner k) (cnt : Content) (ph : Phase) (hc : s.files n k = some cnt) (hph : s.fph n k = ph)
    (hb : (pc n).isBoot = false) :
    remaining cfg ⟨s, pc⟩ n k = if ph = .confirmed then [] else (messages cfg.cs cnt).drop (prog ph) := by
  unfold remaining
  rw [if_pos ⟨hun, hne⟩]
  simp only [hc, hb, hph, Bool.false_eq_true, if_false]

omit [DecidableEq K] in
theorem remaining_mk_none (cfg : Cfg N K) (s : St N K) (pc : N → Pc N K) (n : N) (k : K)
    (hc : s.files n k = none) : remaining cfg ⟨s, pc⟩ n k = [] := by
  unfold remaining
  split
  · simp only [hc]
  · rfl

omit [DecidableEq K] in
theorem remaining_eq (cfg : Cfg N K) (c : CSt N K) (n : N) (k : K) (hun : cfg.up n = true)
    (hne : n ≠ cfg.fowner k) (cnt : Content) (ph : Phase) (hc : c.st.files n k = some cnt) (hph : c.st.fph n k = ph)
    (hb : (c.pc n).isBoot = false) :
    remaining cfg c n k = if ph = .confirmed then [] else (messages cfg.cs cnt).drop (prog ph) :=
  remaining_mk cfg c.st c.pc n k hun hne cnt ph hc hph hb

/-- a step that sends nothing for `(n, k)` and does not touch what `remaining` reads -/
theorem remaining_step {cfg : Cfg N K} {ro fo} {nodes : List N} {rkeys fkeys : List K}
    (hok : RoundOK cfg ro fo nodes rkeys fkeys) {c c' : CSt N K} (h : CInv cfg ro fo c) (t : Tid N)
    (ht : cstepT cfg rkeys fkeys t c = some c') (n : N) (k : K) :
    remaining cfg c n k = (tidMsg cfg n k t c).toList ++ remaining cfg c' n k := by
  by_cases hg : cfg.up n = true ∧ n ≠ cfg.fowner k
  case neg =>
    -- nothing to send at all
    have h1 : ∀ x : CSt N K, remaining cfg x n k = [] := by intro x; unfold remaining; rw [if_neg hg]
    have h2 : tidMsg cfg n k t c = none := by
      cases t with
      | main m => rfl
      | go m d =>
        simp only [tidMsg]
        split
        · rename_i e
          subst e
          cases hl : goLabel cfg m d c with
          | none => rfl
          | some l =>
            simp only [Option.bind_some]
            -- a message needs an enabled `fchunk` / `ffinal` of `m` for `k`: `m` is up and not the owner
            cases l with
            | fchunk src k' cor =>
              simp only [labelMsg]
              split
              · rename_i hc
                obtain ⟨e1, e2, hen⟩ := hc
                subst e1; subst e2
                obtain ⟨_, _, _, _, hus, _, hne, _⟩ := fchunk_enabled hen
                exact absurd ⟨hus, hne⟩ hg
              · rfl
            | ffinal src k' =>
              simp only [labelMsg]
              split
              · rename_i hc
                obtain ⟨e1, e2, hen⟩ := hc
                subst e1; subst e2
                obtain ⟨_, _, _, _, hus, _, hne, _⟩ := ffinal_enabled hen
                exact absurd ⟨hus, hne⟩ hg
              · rfl
            | rsend _ _ _ _ => rfl
            | rdelete _ _ => rfl
            | fremove _ _ => rfl
            | fail _ => rfl
            | restart _ => rfl
        · rfl
    rw [h1 c, h1 c', h2]; rfl
  obtain ⟨hun, hne⟩ := hg
  by_cases hm : t.node = n
  case neg =>
    -- a step of another node
    have h2 : tidMsg cfg n k t c = none := by
      cases t with
      | main m => rfl
      | go m d =>
        have hm' : m ≠ n := hm
        simp only [tidMsg]; rw [if_neg hm']
    obtain ⟨⟨p, hp⟩, hst⟩ := cstep_shape ht
    have hpc : c'.pc n = c.pc n := by rw [hp]; simp only [setPc]; rw [if_neg (fun e => hm e.symm)]
    rw [h2]
    simp only [Option.toList_none, List.nil_append]
    symm
    apply remaining_congr
    · rw [hpc]
    · rcases hst with e | ⟨l, hl, e⟩
      · rw [e]
      · rw [e]; exact (step_priv h.inv l n hun (by rw [hl]; exact hm)).fph k
    · intro _
      rcases hst with e | ⟨l, hl, e⟩
      · rw [e]
      · rw [e]; exact (step_priv h.inv l n hun (by rw [hl]; exact hm)).files k hne
  -- a step of `n` itself
  have hnode := h.node n hun
  cases t with
  | main m =>
    simp only [Tid.node] at hm
    subst hm
    simp only [tidMsg, Option.toList_none, List.nil_append]
    simp only [cstepT, mainStep] at ht
    split at ht
    · cases ht
    · split at ht
      · -- boot: the volatile state is cleared, everything is still to be sent
        rename_i heq
        cases ht
        unfold remaining
        rw [if_pos ⟨hun, hne⟩, if_pos ⟨hun, hne⟩]
        have hf : (step cfg (.restart m) c.st).files m k = c.st.files m k := by simp [step, enabled, apply, clearVolatile]
        have hp : (step cfg (.restart m) c.st).fph m k = .idle := by simp [step, enabled, apply, clearVolatile]
        simp only [hf, hp, heq, setPc, if_true, Pc.isBoot, prog, List.drop_zero]
        cases c.st.files m k <;> simp
      all_goals
        rename_i heq
        first
        | (split at ht
           · cases ht
           · first
             | (cases ht
                apply Eq.symm
                apply remaining_congr
                · simp [setPc, heq, Pc.isBoot]
                · rfl
                · intro _; rfl)
             | (split at ht
                · cases ht
                  apply Eq.symm
                  apply remaining_congr
                  · simp [setPc, heq, Pc.isBoot]
                  · rfl
                  · intro _; rfl
                · cases ht))
        | cases ht
  | go m d =>
    simp only [Tid.node] at hm
    subst hm
    simp only [tidMsg, if_true]
    simp only [cstepT, goStep] at ht
    split at ht
    · cases ht
    · rename_i hcond
      have hgl : ¬ (cfg.up m = false ∨ c.st.failed m = true) := hcond
      split at ht
      · -- phase 1: records only
        rename_i dests batch stage heq
        rw [heq] at hnode
        split at ht
        · rename_i hd
          split at ht
          · rename_i hst
            cases ht
            obtain ⟨hen, _⟩ := nodeInv_rsend hnode hun hd hst
            have hl : goLabel cfg m d c = some (.rsend m d (batch d) true) := by
              simp [goLabel, hgl, heq, hd, hst]
            rw [hl]
            simp only [Option.bind_some, labelMsg, Option.toList_none, List.nil_append]
            apply Eq.symm
            apply remaining_congr
            · simp [setPc, heq, Pc.isBoot]
            · rw [act_pos _ _ _ _ hen]; simp [step, hen, apply]
            · intro _; rw [act_rsend_files]
          · rename_i hst
            cases ht
            obtain ⟨hen, _⟩ := nodeInv_rdelete hnode hd hst
            have hl : goLabel cfg m d c = some (.rdelete m (batch d)) := by
              simp [goLabel, hgl, heq, hd, hst]
            rw [hl]
            simp only [Option.bind_some, labelMsg, Option.toList_none, List.nil_append]
            apply Eq.symm
            apply remaining_congr
            · simp [setPc, heq, Pc.isBoot]
            · rw [act_pos _ _ _ _ hen]; simp [step, hen, apply]
            · intro _; rw [act_rdelete_files]
          · cases ht
        · cases ht
      · -- phase 2
        rename_i dests todo heq
        rw [heq] at hnode
        split at ht
        · rename_i hd
          split at ht
          · cases ht
          · rename_i k0 rest htodo
            cases ht
            have hl : goLabel cfg m d c = some (fnext cfg c.st m k0) := by
              simp [goLabel, hgl, heq, hd, htodo]
            rw [hl]
            simp only [Option.bind_some]
            have hB := hnode.2.2.1 d hd
            obtain ⟨hk0d, hmd, hsome⟩ := hB.2 k0 (by rw [htodo]; exact List.mem_cons_self)
            have hne0 : m ≠ cfg.fowner k0 := by rw [hk0d]; exact hmd
            obtain ⟨cnt, hc⟩ := Option.isSome_iff_exists.mp hsome
            have hpcb : ∀ (s' : St N K) (td : N → List K),
                ((⟨s', setPc c.pc m (.phase2 dests td)⟩ : CSt N K).pc m).isBoot = (c.pc m).isBoot := by
              intro s' td; simp [setPc, heq, Pc.isBoot]
            by_cases hph : c.st.fph m k0 = .confirmed
            · -- the directory is removed: nothing is sent, nothing was left to send
              have hfn : fnext cfg c.st m k0 = .fremove m k0 := by simp [fnext, hph]
              have hen : enabled cfg c.st (.fremove m k0) = true := by simp [enabled, hph]
              rw [hfn, act_pos _ _ _ _ hen, step_fremove_eq cfg c.st m k0 hph]
              simp only [labelMsg, Option.toList_none, List.nil_append]
              by_cases hk : k = k0
              · subst hk
                have hb : (c.pc m).isBoot = false := by rw [heq]; rfl
                rw [remaining_eq cfg c m k hun hne cnt _ hc hph hb, remaining_mk_none]
                · simp
                · simp [upd]
              · apply Eq.symm
                apply remaining_congr
                · exact hpcb _ _
                · simp only [upd]; rw [if_neg (by rintro ⟨_, e2⟩; exact hk e2)]
                · intro _; simp only [upd]; rw [if_neg (by rintro ⟨_, e2⟩; exact hk e2)]
            · have hp := prog_progress _ hph
              by_cases hlt : prog (c.st.fph m k0) < (chunks cfg.cs cnt).length
              · have hfn : fnext cfg c.st m k0 = .fchunk m k0 none := by simp [fnext, hph, hc, hlt]
                obtain ⟨hen, _⟩ := nodeInv_fchunk hok.good h.inv hun hnode hd htodo hph hc hlt
                have hfo : fo k0 = some cnt := h.inv.f1 m k0 cnt hun hne0 hc
                have huo : cfg.up (cfg.fowner k0) = true := hok.good.fdst k0 (by rw [hfo]; rfl)
                rw [hfn, act_pos _ _ _ _ hen, step_fchunk_eq cfg c.st m k0 cnt _ hc hp hne0 hun huo hlt none]
                by_cases hk : k = k0
                · subst hk
                  have hm' : labelMsg cfg c.st m k (.fchunk m k none) =
                      some (prog (c.st.fph m k), (chunks cfg.cs cnt).getD (prog (c.st.fph m k)) []) := by
                    simp [labelMsg, hen, hc]
                  rw [hm']
                  have hb : (c.pc m).isBoot = false := by rw [heq]; rfl
                  rw [remaining_eq cfg c m k hun hne cnt _ hc rfl hb,
                    remaining_mk cfg _ _ m k hun hne cnt (.sending (prog (c.st.fph m k) + 1))
                      (by simp only [upd]; rw [if_neg (by rintro ⟨e1, _⟩; exact hne0 e1)]; exact hc)
                      (by simp [upd]) (by simp [setPc, Pc.isBoot])]
                  rw [if_neg hph, if_neg (by simp)]
                  simp only [Option.toList_some, List.singleton_append, prog]
                  exact messages_drop_lt _ _ _ hlt
                · have hm' : labelMsg cfg c.st m k (.fchunk m k0 none) = none := by
                    simp only [labelMsg]; rw [if_neg (by rintro ⟨_, e2, _⟩; exact hk e2.symm)]
                  rw [hm']
                  simp only [Option.toList_none, List.nil_append]
                  apply Eq.symm
                  apply remaining_congr
                  · exact hpcb _ _
                  · simp only [upd]; rw [if_neg (by rintro ⟨_, e2⟩; exact hk e2)]
                  · intro _; simp only [upd]; rw [if_neg (by rintro ⟨_, e2⟩; exact hk e2)]
              · have hfn : fnext cfg c.st m k0 = .ffinal m k0 := by simp [fnext, hph, hc, hlt]
                obtain ⟨hen, _⟩ := nodeInv_ffinal hok.good h.inv hun hnode hd htodo hph hc hlt
                obtain ⟨c0, i, hc0, hp0, _, huo, _, hi⟩ := ffinal_enabled hen
                rw [hc] at hc0; cases hc0
                have hpi := prog_of_progress _ _ hp0
                have hfo : fo k0 = some cnt := h.inv.f1 m k0 cnt hun hne0 hc
                have hpos : 0 < (chunks cfg.cs cnt).length := (chunks_length_pos _ _).mpr (hok.good.nonempty k0 cnt hfo)
                have hs := prog_pos (c.st.fph m k0) (by omega)
                have hdo : c.st.files (cfg.fowner k0) k0 = some cnt := by
                  have := (hnode.2.2.2.2.2 k0 cnt _ hne0 hc hs).2 (by omega)
                  rw [this, hpi, hi, List.take_length, chunks_flatten _ hok.good.cs_pos]
                rw [hfn, act_pos _ _ _ _ hen,
                  step_ffinal_eq cfg c.st m k0 cnt hc (by rw [hp0, hi]) hne0 hun huo hpos hdo]
                by_cases hk : k = k0
                · subst hk
                  have hm' : labelMsg cfg c.st m k (.ffinal m k) = some ((chunks cfg.cs cnt).length, []) := by
                    simp [labelMsg, hen, hpi, hi]
                  rw [hm']
                  have hb : (c.pc m).isBoot = false := by rw [heq]; rfl
                  rw [remaining_eq cfg c m k hun hne cnt _ hc rfl hb,
                    remaining_mk cfg _ _ m k hun hne cnt .confirmed
                      (by simp only [upd]; rw [if_neg (by rintro ⟨e1, _⟩; exact hne0 e1)]; exact hc)
                      (by simp [upd]) (by simp [setPc, Pc.isBoot])]
                  rw [if_neg hph, if_pos rfl, hpi, hi, messages_drop_len]
                  rfl
                · have hm' : labelMsg cfg c.st m k (.ffinal m k0) = none := by
                    simp only [labelMsg]; rw [if_neg (by rintro ⟨_, e2, _⟩; exact hk e2.symm)]
                  rw [hm']
                  simp only [Option.toList_none, List.nil_append]
                  apply Eq.symm
                  apply remaining_congr
                  · exact hpcb _ _
                  · simp only [upd]; rw [if_neg (by rintro ⟨_, e2⟩; exact hk e2)]
                  · intro _; simp only [upd]; rw [if_neg (by rintro ⟨_, e2⟩; exact hk e2)]
        · cases ht
      · cases ht

/-- along every schedule that lets every started node's `Sync` return, node `n` sends for shard `k`
exactly what was left to send -/
theorem cmsgs_spec {cfg : Cfg N K} {ro fo} {nodes : List N} {rkeys fkeys : List K}
    (hok : RoundOK cfg ro fo nodes rkeys fkeys) (n : N) (k : K) (sched : List (Tid N)) :
    ∀ c : CSt N K, CInv cfg ro fo c →
      (∀ m, cfg.up m = true → finished (crun cfg rkeys fkeys sched c) m = true) →
      cmsgs cfg rkeys fkeys n k sched c = remaining cfg c n k := by
  induction sched with
  | nil =>
    intro c h hfin
    simp only [cmsgs]
    unfold remaining
    split
    · rename_i hg
      have := (cinv_finished h hfin).2.fnone n k hg.1 hg.2
      have this : c.st.files n k = none := this
      rw [this]
    · rfl
  | cons t ts ih =>
    intro c h hfin
    simp only [cmsgs]
    simp only [crun, List.foldl_cons] at hfin
    cases hst : cstepT cfg rkeys fkeys t c with
    | none =>
      rw [hst] at hfin
      exact ih c h hfin
    | some c' =>
      rw [hst] at hfin
      show (tidMsg cfg n k t c).toList ++ cmsgs cfg rkeys fkeys n k ts c' = _
      rw [remaining_step hok h t hst n k, ih c' (cinv_step hok h t hst).1 hfin]

end Sema.C14
