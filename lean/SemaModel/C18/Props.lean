/-
C18 — no request can crash the server; invalid input is refused without side effects.

PROVED HERE (for the model of the decision logic after decoding, `SemaModel/C18/Model.lean`, for ALL
values of the abstract JSON type, all schemas, all plans / collection states):
  C18_vec_len, C18_vec_len_search, C18_vec_len_stored   a vector that reaches an index or a distance
                                                        closure has exactly the index's dimension
  C18_accept_wf                                         what an accepted request hands on is well-formed
  C18_reject_pure                                       a refused request issues no write
  C18_no_panic                                          no handler model reaches a nil dereference
  C18_slice_bounds (+ _pinned)                          paging slice bounds, on the GENERATED arithmetic
  C18_pin_*                                             the limits / enumerations / decision skeleton the
                                                        model was written against are those of the source
NOT PROVABLE IN THIS MODEL (covered by the fuzzing harness go/cmd/c18, a TEST): the property's
quantifier "for all byte strings" ranges over the JSON / MessagePack decoders and the handlers' Go
code, and panic-freedom of Go code is not expressible here.
-/
import SemaModel.C18.Lemmas
import SemaModel.Generated.FactsC18
namespace Sema.C18
open Sema Sema.Gen

/-! ## the tie to the source: limits, enumerations, decision skeleton (T2) -/

def rg (p : Option Int × Option Int) : Range := ⟨p.1, p.2⟩

/-- the limits the SOURCE enforces (extracted by tools/facts_c18 on every run) -/
def Spec.source : Spec where
  v2IdLen := rg FactsC18.rng_v2_CreateCollectionRequest_len_Id
  v1IdLen := rg FactsC18.rng_v1_CreateCollectionRequest_len_Id
  v2PathLen := rg FactsC18.rng_v2_CollectionURIMiddleware_len_a3
  v1PathLen := rg FactsC18.rng_v1_CollectionURIMiddleware_len_a3
  flatVecSize := rg FactsC18.rng_models_IndexVectorFlatParameters_VectorSize
  vamanaVecSize := rg FactsC18.rng_models_IndexVectorVamanaParameters_VectorSize
  vamanaSearchSize := rg FactsC18.rng_models_IndexVectorVamanaParameters_SearchSize
  vamanaDegree := rg FactsC18.rng_models_IndexVectorVamanaParameters_DegreeBound
  alphaLo := FactsC18.flt_models_IndexVectorVamanaParameters_Alpha_lo
  alphaHi := FactsC18.flt_models_IndexVectorVamanaParameters_Alpha_hi
  binTrigger := rg FactsC18.rng_models_BinaryQuantizerParamaters_TriggerThreshold
  pqCentroids := rg FactsC18.rng_models_ProductQuantizerParameters_NumCentroids
  pqSubVectors := rg FactsC18.rng_models_ProductQuantizerParameters_NumSubVectors
  pqTrigger := rg FactsC18.rng_models_ProductQuantizerParameters_TriggerThreshold
  v2Insert := rg FactsC18.rng_v2_InsertPointsRequest_len_Points
  v2Update := rg FactsC18.rng_v2_UpdatePointsRequest_len_Points
  v2Delete := rg FactsC18.rng_v2_DeletePointsRequest_len_Ids
  v1Insert := rg FactsC18.rng_v1_InsertPointsRequest_len_Points
  v1Update := rg FactsC18.rng_v1_UpdatePointsRequest_len_Points
  v1Delete := rg FactsC18.rng_v1_DeletePointsRequest_len_Ids
  v1VecLen := rg FactsC18.rng_v1_InsertSinglePointRequest_len_Vector
  v1Limit := rg FactsC18.rng_v1_SearchPointsRequest_Limit
  v1CreateVecSize := rg FactsC18.rng_v1_CreateCollectionRequest_VectorSize
  sortLen := rg FactsC18.rng_models_SearchRequest_len_Sort
  offset := rg FactsC18.rng_models_SearchRequest_Offset
  limit := rg FactsC18.rng_models_SearchRequest_Limit
  qVamanaVec := rg FactsC18.rng_models_SearchVectorVamanaOptions_len_Vector
  qVamanaSearchSize := rg FactsC18.rng_models_SearchVectorVamanaOptions_SearchSize
  qVamanaLimit := rg FactsC18.rng_models_SearchVectorVamanaOptions_Limit
  qFlatVec := rg FactsC18.rng_models_SearchVectorFlatOptions_len_Vector
  qFlatLimit := rg FactsC18.rng_models_SearchVectorFlatOptions_Limit
  qTextLimit := rg FactsC18.rng_models_SearchTextOptions_Limit

def Enums.source : Enums where
  indexTypes := FactsC18.enum_models_IndexSchemaValue_Type.map S
  metrics := FactsC18.enum_models_IndexVectorFlatParameters_DistanceMetric.map S
  v1Metrics := FactsC18.enum_v1_CreateCollectionRequest_DistanceMetric.map S
  quantizers := FactsC18.enum_models_Quantizer_switch_Type.map S
  binMetrics := FactsC18.enum_models_BinaryQuantizerParamaters_DistanceMetric.map S
  analysers := FactsC18.enum_models_IndexTextParameters_Analyser.map S
  vecOps := FactsC18.enum_models_SearchVectorVamanaOptions_Operator.map S
  textOps := FactsC18.enum_models_SearchTextOptions_switch_Operator.map S
  strOps := FactsC18.enum_models_SearchStringOptions_switch_Operator.map S
  intOps := FactsC18.enum_models_SearchIntegerOptions_switch_Operator.map S
  floatOps := FactsC18.enum_models_SearchFloatOptions_switch_Operator.map S
  saOps := FactsC18.enum_models_SearchStringArrayOptions_switch_Operator.map S

/-- every numeric limit of the source equals the documented one the model uses (a boundary flip
`<` / `<=` changes the extracted inclusive range and breaks this) -/
theorem C18_pin_limits : Spec.source = Spec.documented := by decide

theorem C18_pin_enums :
    Enums.source = Enums.documented ∧
    FactsC18.enum_models_IndexVectorVamanaParameters_DistanceMetric = FactsC18.enum_models_IndexVectorFlatParameters_DistanceMetric ∧
    FactsC18.enum_models_SearchVectorFlatOptions_Operator = FactsC18.enum_models_SearchVectorVamanaOptions_Operator ∧
    FactsC18.enum_models_Query_String_Operator = ["equals"] ∧
    FactsC18.enum_models_Query_StringArray_Operator = ["containsAny"] ∧
    FactsC18.rng_v1_UpdateSinglePointRequest_len_Vector = FactsC18.rng_v1_InsertSinglePointRequest_len_Vector ∧
    FactsC18.rng_v1_SearchPointsRequest_len_Vector = FactsC18.rng_v1_InsertSinglePointRequest_len_Vector := by
  decide

/-- `Recover` is the outermost middleware of the production router, the header check the innermost -/
theorem C18_pin_chain : FactsC18.middlewareChain =
    ["middleware.AppHeaderMiddleware", "middleware.WhiteListIP", "middleware.ProxySecret", "middleware.ZeroLoggerMetrics", "middleware.Recover"] := by
  decide

/-! ## vectors that reach an index on a write -/

/-- the invariant on stored point data: whatever a flat / vamana index of the schema reads from it
as a float32 vector has that index's dimension -/
def VecInv (schema : Schema) (d : J) : Prop :=
  ∀ prop sv dim, (prop, sv) ∈ schema → sv.dim = some dim →
    ∀ vec, vectorReaching prop d = some vec → (vec.length : Int) = dim

theorem reachSegs_null (segs : List Str) : reachSegs segs .null = none := by
  cases segs with
  | nil => simp [reachSegs, query]
  | cons k rest =>
    by_cases hk : k = []
    · simp [reachSegs, query, hk]
    · simp [reachSegs, query, hk]

theorem reachSegs_erase (segs : List Str) (m : Obj) (k : Str) (vec : List Int)
    (h : reachSegs segs (.obj (eraseKey m k)) = some vec) : reachSegs segs (.obj m) = some vec := by
  cases segs with
  | nil => simp [reachSegs_obj_self] at h
  | cons s rest =>
    by_cases hs : s = []
    · subst hs; simp [reachSegs_nil_seg] at h
    · by_cases hsk : s = k
      · subst hsk
        simp [reachSegs, query_cons_obj s rest _ hs, lookup_eraseKey_same] at h
      · simp only [reachSegs, query_cons_obj s rest _ hs, lookup_eraseKey_other m k s hsk] at h ⊢
        exact h

theorem vecInv_of_compat (schema : Schema) (m m' : Obj) (h : compat schema m = some m') : VecInv schema (.obj m') := by
  intro prop sv dim hmem hd vec hv
  rw [vectorReaching_eq] at hv
  have hp := compat_passes schema m m' h prop sv dim hd hmem
  cases hc : compatPath (splitDot prop) sv m' with
  | none => simp [hc] at hp
  | some m'' => exact compatPath_reach _ sv dim hd m' m'' hc vec hv

theorem vecInv_null (schema : Schema) : VecInv schema .null := by
  intro prop sv dim _ _ vec hv
  rw [vectorReaching_eq, reachSegs_null] at hv
  simp at hv

theorem vecInv_erase (schema : Schema) (m : Obj) (k : Str) (h : VecInv schema (.obj m)) :
    VecInv schema (.obj (eraseKey m k)) := by
  intro prop sv dim hmem hd vec hv
  rw [vectorReaching_eq] at hv
  have := reachSegs_erase _ m k vec hv
  rw [← vectorReaching_eq] at this
  exact h prop sv dim hmem hd vec this

theorem vecInv_dataOf (schema : Schema) (isNil : Bool) (m : Obj) (h : VecInv schema (.obj m)) :
    VecInv schema (dataOf isNil m) := by
  unfold dataOf
  split
  · exact vecInv_null schema
  · exact h

theorem extractId_data (createNew : Bool) (m m2 : Obj) (id : Option Str) (h : extractId createNew m = some (id, m2)) :
    (m2 = m ∨ m2 = eraseKey m pId) ∧ (∀ s, id = some s → uuidOk s = true) ∧ (createNew = false → id.isSome) := by
  unfold extractId at h
  cases hl : lookup m pId with
  | none =>
    simp only [hl] at h
    by_cases hc : createNew = true
    · simp [hc] at h; obtain ⟨rfl, rfl⟩ := h; simp [hc]
    · simp [hc] at h
  | some v =>
    cases v with
    | str s =>
      simp only [hl] at h
      by_cases hu : uuidOk s = true
      · simp [hu] at h; obtain ⟨rfl, rfl⟩ := h
        exact ⟨Or.inr rfl, by intro s' hs'; cases hs'; exact hu, by simp⟩
      · simp [hu] at h
    | _ => simp [hl] at h

theorem vecInv_v2InsertPoint (schema : Schema) (maxSize : Int) (p : J) (sp : StoredPoint)
    (h : v2InsertPoint schema maxSize p = some sp) :
    VecInv schema sp.data ∧ (sp.data.encSize : Int) ≤ maxSize ∧ (∀ s, sp.id = some s → uuidOk s = true) := by
  unfold v2InsertPoint at h
  cases hp : pointObj p with
  | none => simp [hp] at h
  | some pr =>
    obtain ⟨isNil, m⟩ := pr
    simp only [hp] at h
    cases hc : compat schema m with
    | none => simp [hc] at h
    | some m1 =>
      simp only [hc] at h
      cases he : extractId true m1 with
      | none => simp [he] at h
      | some pr2 =>
        obtain ⟨id, m2⟩ := pr2
        simp only [he] at h
        split at h
        · simp at h
        · rename_i hsz
          simp at h; subst h
          obtain ⟨hm2, hid, _⟩ := extractId_data true m1 m2 id he
          have hv1 := vecInv_of_compat schema m m1 hc
          refine ⟨?_, by simpa using hsz, hid⟩
          apply vecInv_dataOf
          rcases hm2 with rfl | rfl
          · exact hv1
          · exact vecInv_erase schema m1 pId hv1

theorem vecInv_v2UpdatePoint (schema : Schema) (maxSize : Int) (p : J) (sp : StoredPoint)
    (h : v2UpdatePoint schema maxSize p = some sp) :
    VecInv schema sp.data ∧ (sp.data.encSize : Int) ≤ maxSize ∧ (∃ s, sp.id = some s ∧ uuidOk s = true) := by
  unfold v2UpdatePoint at h
  cases hp : pointObj p with
  | none => simp [hp] at h
  | some pr =>
    obtain ⟨isNil, m⟩ := pr
    simp only [hp] at h
    cases he : extractId false m with
    | none => simp [he] at h
    | some pr2 =>
      obtain ⟨id, m1⟩ := pr2
      simp only [he] at h
      cases hc : compat schema m1 with
      | none => simp [hc] at h
      | some m2 =>
        simp only [hc] at h
        split at h
        · simp at h
        · rename_i hsz
          simp at h; subst h
          obtain ⟨_, hid, hsome⟩ := extractId_data false m m1 id he
          refine ⟨vecInv_dataOf schema isNil m2 (vecInv_of_compat schema m1 m2 hc), by simpa using hsz, ?_⟩
          cases id with
          | none => simp at hsome
          | some s => exact ⟨s, rfl, hid s rfl⟩

theorem vecInv_v1StorePoint (schema : Schema) (dim maxSize : Int) (p : V1Point) (sp : StoredPoint)
    (h : v1StorePoint schema dim maxSize p = some sp) :
    VecInv schema sp.data ∧ (sp.data.encSize : Int) ≤ maxSize ∧ (p.vector.length : Int) = dim := by
  unfold v1StorePoint at h
  split at h
  · simp at h
  · rename_i hdim
    cases hc : compat schema (v1PointObj p) with
    | none => simp [hc] at h
    | some m =>
      simp only [hc] at h
      split at h
      · simp at h
      · rename_i hsz
        simp at h; subst h
        exact ⟨vecInv_of_compat schema _ m hc, by simpa using hsz, by simpa using hdim⟩

/-- what the write handlers hand to the cluster layer -/
def Effect.points : Effect → List StoredPoint
  | .insertPoints pts => pts
  | .updatePoints pts => pts
  | _ => []

theorem withCol_eff (rng : Range) (v1 : Bool) (ctx : Ctx) (k : ColCtx → Outcome) (e : Effect)
    (h : (withCol rng v1 ctx k).eff = some e) :
    ∃ c, ctx.col = some c ∧ rng.viol ctx.cidLen = false ∧ (v1 = true → isV1Collection c.schema = true) ∧ (k c).eff = some e := by
  unfold withCol at h
  split at h
  · simp [reject] at h
  · rename_i hr
    cases hc : ctx.col with
    | none => simp [hc, reject] at h
    | some c =>
      simp only [hc] at h
      split at h
      · simp [reject] at h
      · rename_i hv
        refine ⟨c, rfl, by simpa using hr, ?_, h⟩
        intro hv1; subst hv1; simpa using hv

/-- **C18_vec_len (writes).** For every endpoint, every context and every decoded body: if the
handler model accepts a write, then for every point it hands to the cluster layer and every flat /
vamana entry of the collection's schema, the vector the shard extracts from the stored bytes for
that entry (msgpack `Query(property)` + `castDataToArray[float32]`) has exactly the entry's
`VectorSize`.  No hypothesis on the schema (property names with empty segments, `*`, digits and
duplicate entries included), the point, the plan.  Vectors in the stored data under a path that
is not an index entry never reach an index. -/
theorem C18_vec_len (sp : Spec) (en : Enums) (ctx : Ctx) (req : Req) (e : Effect)
    (h : (handle sp en ctx req).eff = some e) :
    ∃ c, (e.points ≠ [] → ctx.col = some c) ∧ ∀ p ∈ e.points, VecInv c.schema p.data := by
  cases req with
  | v2Insert b =>
    obtain ⟨c, hc, _, _, hk⟩ := withCol_eff _ _ _ _ _ h
    refine ⟨c, fun _ => hc, ?_⟩
    cases b with
    | none => simp [reject] at hk
    | some pts =>
      simp only at hk
      split at hk
      · simp [reject] at hk
      · cases hm : mapAll (v2InsertPoint c.schema ctx.plan.maxPointSize) pts with
        | none => simp [hm, reject] at hk
        | some sps =>
          simp only [hm] at hk
          split at hk
          · simp [reject] at hk
          · simp [accept] at hk; subst hk
            intro p hp
            obtain ⟨x, _, hx⟩ := mapAll_mem _ _ _ hm p hp
            exact (vecInv_v2InsertPoint _ _ _ _ hx).1
  | v2Update b =>
    obtain ⟨c, hc, _, _, hk⟩ := withCol_eff _ _ _ _ _ h
    refine ⟨c, fun _ => hc, ?_⟩
    cases b with
    | none => simp [reject] at hk
    | some pts =>
      simp only at hk
      split at hk
      · simp [reject] at hk
      · cases hm : mapAll (v2UpdatePoint c.schema ctx.plan.maxPointSize) pts with
        | none => simp [hm, reject] at hk
        | some sps =>
          simp [hm, accept] at hk; subst hk
          intro p hp
          obtain ⟨x, _, hx⟩ := mapAll_mem _ _ _ hm p hp
          exact (vecInv_v2UpdatePoint _ _ _ _ hx).1
  | v1Insert b =>
    obtain ⟨c, hc, _, _, hk⟩ := withCol_eff _ _ _ _ _ h
    refine ⟨c, fun _ => hc, ?_⟩
    cases b with
    | none => simp [reject] at hk
    | some pts =>
      simp only at hk
      split at hk
      · simp [reject] at hk
      · cases hd : v1Dim c.schema with
        | none => simp [hd] at hk
        | some dim =>
          simp only [hd] at hk
          cases hm : mapAll (v1StorePoint c.schema dim ctx.plan.maxPointSize) pts with
          | none => simp [hm, reject] at hk
          | some sps =>
            simp only [hm] at hk
            have key : ∀ p ∈ sps, VecInv c.schema p.data := by
              intro p hp
              obtain ⟨x, _, hx⟩ := mapAll_mem _ _ _ hm p hp
              exact (vecInv_v1StorePoint _ _ _ _ _ hx).1
            simp only [Bool.false_eq_true, if_false] at hk
            split at hk
            · simp [reject] at hk
            · simp [accept] at hk; subst hk; exact key
  | v1Update b =>
    obtain ⟨c, hc, _, _, hk⟩ := withCol_eff _ _ _ _ _ h
    refine ⟨c, fun _ => hc, ?_⟩
    cases b with
    | none => simp [reject] at hk
    | some pts =>
      simp only at hk
      split at hk
      · simp [reject] at hk
      · cases hd : v1Dim c.schema with
        | none => simp [hd] at hk
        | some dim =>
          simp only [hd] at hk
          cases hm : mapAll (v1StorePoint c.schema dim ctx.plan.maxPointSize) pts with
          | none => simp [hm, reject] at hk
          | some sps =>
            simp only [hm] at hk
            have key : ∀ p ∈ sps, VecInv c.schema p.data := by
              intro p hp
              obtain ⟨x, _, hx⟩ := mapAll_mem _ _ _ hm p hp
              exact (vecInv_v1StorePoint _ _ _ _ _ hx).1
            simp [accept] at hk; subst hk; exact key
  | v2List | v1List => simp [handle] at h
  | v2Get | v1Get => simp [handle, getCollection] at h; obtain ⟨c, _, _, _, hk⟩ := withCol_eff _ _ _ _ _ h; simp at hk
  | v2DeleteCol | v1DeleteCol =>
    obtain ⟨c, _, _, _, hk⟩ := withCol_eff _ _ _ _ _ h
    simp [accept] at hk; subst hk
    exact ⟨c, by simp [Effect.points], by simp [Effect.points]⟩
  | v2Delete b | v1Delete b =>
    obtain ⟨c, _, _, _, hk⟩ := withCol_eff _ _ _ _ _ h
    refine ⟨c, ?_⟩
    cases b with
    | none => simp [reject] at hk
    | some ids =>
      simp only at hk
      split at hk
      · simp [reject] at hk
      · simp [accept] at hk; subst hk; simp [Effect.points]
  | v2Search b =>
    obtain ⟨c, _, _, _, hk⟩ := withCol_eff _ _ _ _ _ h
    refine ⟨c, ?_⟩
    cases b with
    | none => simp [reject] at hk
    | some r =>
      simp only at hk
      split at hk
      · simp [reject] at hk
      · split at hk
        · simp [reject] at hk
        · simp at hk
        · simp [accept] at hk; subst hk; simp [Effect.points]
  | v1Search b =>
    obtain ⟨c, _, _, _, hk⟩ := withCol_eff _ _ _ _ _ h
    refine ⟨c, ?_⟩
    cases b with
    | none => simp [reject] at hk
    | some r =>
      simp only at hk
      split at hk
      · simp [reject] at hk
      · split at hk
        · simp at hk
        · split at hk
          · simp [reject] at hk
          · simp [accept] at hk; subst hk; simp [Effect.points]
  | v2Create b =>
    refine ⟨⟨[], 0⟩, ?_⟩
    simp only [handle, v2Create] at h
    cases b with
    | none => simp [reject] at h
    | some b =>
      simp only at h
      split at h
      · simp [reject] at h
      · unfold createOutcome at h
        split at h
        · simp [reject] at h
        · split at h
          · simp [reject] at h
          · simp [accept] at h; subst h; simp [Effect.points]
  | v1Create b =>
    refine ⟨⟨[], 0⟩, ?_⟩
    simp only [handle, v1Create] at h
    cases b with
    | none => simp [reject] at h
    | some b =>
      simp only at h
      split at h
      · simp [reject] at h
      · unfold createOutcome at h
        split at h
        · simp [reject] at h
        · split at h
          · simp [reject] at h
          · simp [accept] at h; subst h; simp [Effect.points]

/-- **C18_vec_len (stored data).** `Shard.UpdatePoints` merges the accepted map into the stored one
key by key; the invariant of the stored data is preserved, so by induction over the history of a
collection every vector any index ever reads has the index's dimension. -/
theorem C18_vec_len_stored (schema : Schema) (existing incoming merged : Obj)
    (he : VecInv schema (.obj existing)) (hi : VecInv schema (.obj incoming))
    (hm : ∀ k, lookup merged k = mergeLookup existing incoming k) : VecInv schema (.obj merged) := by
  intro prop sv dim hmem hd vec hv
  rw [vectorReaching_eq] at hv
  cases hs : splitDot prop with
  | nil => rw [hs] at hv; simp [reachSegs_obj_self] at hv
  | cons k rest =>
    rw [hs] at hv
    by_cases hk : k = []
    · subst hk; simp [reachSegs_nil_seg] at hv
    · simp only [reachSegs, query_cons_obj k rest merged hk, hm k, mergeLookup] at hv
      cases hl : lookup incoming k with
      | some v =>
        simp only [hl] at hv
        by_cases hdel : isDeleteVal v = true
        · simp [hdel] at hv
        · simp only [hdel] at hv
          apply hi prop sv dim hmem hd vec
          rw [vectorReaching_eq, hs]
          simpa [reachSegs, query_cons_obj k rest incoming hk, hl] using hv
      | none =>
        simp only [hl] at hv
        apply he prop sv dim hmem hd vec
        rw [vectorReaching_eq, hs]
        simpa [reachSegs, query_cons_obj k rest existing hk] using hv

/-! ## vectors that reach a distance closure on a search -/

theorem VS.and_ok (a b : VS) : a.and b = .ok ↔ a = .ok ∧ b = .ok := by
  cases a <;> cases b <;> simp [VS.and]

mutual
theorem reach_ok (schema : Schema) : (q : Query) → q.validSchema schema = .ok →
    ∀ r ∈ q.reach schema, (r.len : Int) = r.dim
  | .mk property flat vamana text s i f sa ff vf tf and or => by
    intro h r hr
    unfold Query.validSchema at h
    unfold Query.reach at hr
    by_cases h1 : property = pAnd
    · rw [if_pos h1] at h hr
      exact reach_okL schema and h r hr
    · by_cases h2 : property = pOr
      · rw [if_neg h1, if_pos h2] at h hr
        exact reach_okL schema or h r hr
      · by_cases h3 : property = pId
        · rw [if_neg h1, if_neg h2, if_pos h3] at hr; simp at hr
        · rw [if_neg h1, if_neg h2, if_neg h3] at h hr
          cases hl : lookup schema property with
          | none => simp [hl] at hr
          | some value =>
            simp only [hl] at h hr
            by_cases t1 : value.type = tVectorFlat
            · rw [if_pos t1] at h hr
              cases flat with
              | none => simp at hr
              | some o =>
                cases hp : value.flat with
                | none => simp [hp] at hr
                | some p =>
                  simp only [hp] at h hr
                  split at h
                  · simp at h
                  · rename_i hlen
                    rcases List.mem_append.mp hr with hr | hr
                    · exact reach_okO schema ff h r hr
                    · simp at hr; subst hr; simpa using hlen
            · by_cases t2 : value.type = tVectorVamana
              · rw [if_neg t1, if_pos t2] at h hr
                cases vamana with
                | none => simp at hr
                | some o =>
                  cases hp : value.vamana with
                  | none => simp [hp] at hr
                  | some p =>
                    simp only [hp] at h hr
                    split at h
                    · simp at h
                    · rename_i hlen
                      rcases List.mem_append.mp hr with hr | hr
                      · exact reach_okO schema vf h r hr
                      · simp at hr; subst hr; simpa using hlen
              · by_cases t3 : value.type = tText
                · rw [if_neg t1, if_neg t2, if_pos t3] at h hr
                  cases text with
                  | none => simp at hr
                  | some o => exact reach_okO schema tf h r hr
                · rw [if_neg t1, if_neg t2, if_neg t3] at hr; simp at hr
theorem reach_okL (schema : Schema) : (l : List Query) → validSchemaL schema l = .ok →
    ∀ r ∈ reachL schema l, (r.len : Int) = r.dim
  | [] => by intro _ r hr; simp [reachL] at hr
  | q :: qs => by
    intro h r hr
    simp only [validSchemaL, VS.and_ok] at h
    simp only [reachL] at hr
    rcases List.mem_append.mp hr with hr | hr
    · exact reach_ok schema q h.1 r hr
    · exact reach_okL schema qs h.2 r hr
theorem reach_okO (schema : Schema) : (o : Option Query) → validSchemaO schema o = .ok →
    ∀ r ∈ reachO schema o, (r.len : Int) = r.dim
  | none => by intro _ r hr; simp [reachO] at hr
  | some q => by
    intro h r hr
    simp only [validSchemaO] at h
    simp only [reachO] at hr
    exact reach_ok schema q h r hr
end

/-- **C18_vec_len (searches).** If a search is accepted (v2: `Validate` + `ValidateSchema`; v1: the
handler's own dimension check), every query vector `indexManager.Search` hands to a vector store's
distance closure — at any depth of `_and` / `_or` / filter nesting — has exactly the dimension of
the index it is handed to. -/
theorem C18_vec_len_search (sp : Spec) (en : Enums) (ctx : Ctx) (req : Req) (schema : Schema) (r : SearchReq)
    (h : (handle sp en ctx req).eff = some (.search schema r)) :
    ∀ x ∈ r.query.reach schema, (x.len : Int) = x.dim := by
  cases req with
  | v2Search b =>
    obtain ⟨c, _, _, _, hk⟩ := withCol_eff _ _ _ _ _ h
    cases b with
    | none => simp [reject] at hk
    | some r0 =>
      simp only at hk
      split at hk
      · simp [reject] at hk
      · split at hk
        · simp [reject] at hk
        · simp at hk
        · rename_i hvs
          simp [accept] at hk
          obtain ⟨rfl, rfl⟩ := hk
          exact reach_ok _ _ hvs
  | v1Search b =>
    obtain ⟨c, _, _, hv1, hk⟩ := withCol_eff _ _ _ _ _ h
    cases b with
    | none => simp [reject] at hk
    | some b =>
      simp only at hk
      split at hk
      · simp [reject] at hk
      · cases hd : v1Dim c.schema with
        | none => simp [hd] at hk
        | some dim =>
          simp only [hd] at hk
          split at hk
          · simp [reject] at hk
          · rename_i hlen
            simp [accept] at hk
            obtain ⟨rfl, rfl⟩ := hk
            -- the query the v1 handler builds: one vamana leaf on "vector"
            intro x hx
            unfold v1Dim at hd
            cases hl : lookup c.schema kVector with
            | none => simp [hl] at hd
            | some value =>
              simp only [hl] at hd
              cases hp : value.vamana with
              | none => simp [hp] at hd
              | some p =>
                simp [hp] at hd
                have hv := hv1 rfl
                simp only [isV1Collection, hl, Bool.and_eq_true, decide_eq_true_eq] at hv
                have hkv1 : kVector ≠ pAnd := by decide
                have hkv2 : kVector ≠ pOr := by decide
                have hkv3 : kVector ≠ pId := by decide
                simp only [v1SearchReq, Query.reach, if_neg hkv1, if_neg hkv2, if_neg hkv3, hl, hv.1,
                  if_neg tVamana_ne_tFlat, if_true, hp, reachO, List.nil_append, List.mem_singleton] at hx
                subst hx
                simp only at hlen ⊢
                simp at hlen
                omega
  | v2Insert b | v2Update b | v1Insert b | v1Update b =>
    obtain ⟨e, hc, hp⟩ := C18_vec_len sp en ctx _ _ h
    -- these handlers never produce a search effect
    obtain ⟨c, _, _, _, hk⟩ := withCol_eff _ _ _ _ _ h
    cases b with
    | none => simp [reject] at hk
    | some pts =>
      simp only at hk
      (repeat' split at hk) <;> simp [reject, accept] at hk
  | v2Delete b | v1Delete b =>
    obtain ⟨c, _, _, _, hk⟩ := withCol_eff _ _ _ _ _ h
    cases b with
    | none => simp [reject] at hk
    | some ids =>
      simp only at hk
      (repeat' split at hk) <;> simp [reject, accept] at hk
  | v2List | v1List => simp [handle] at h
  | v2Get | v1Get => obtain ⟨c, _, _, _, hk⟩ := withCol_eff _ _ _ _ _ h; simp at hk
  | v2DeleteCol | v1DeleteCol => obtain ⟨c, _, _, _, hk⟩ := withCol_eff _ _ _ _ _ h; simp [accept] at hk
  | v2Create b =>
    simp only [handle, v2Create] at h
    cases b with
    | none => simp [reject] at h
    | some b => simp only [createOutcome] at h; (repeat' split at h) <;> simp [reject, accept] at h
  | v1Create b =>
    simp only [handle, v1Create] at h
    cases b with
    | none => simp [reject] at h
    | some b => simp only [createOutcome] at h; (repeat' split at h) <;> simp [reject, accept] at h

/-! ## a refused request issues no write; no handler reaches a nil dereference -/

/-- an answer either carries nothing for the cluster layer or is a 200 -/
def Outcome.sane (o : Outcome) : Prop := o.eff = none ∨ o.status = 200

theorem sane_withCol (rng : Range) (v1 : Bool) (ctx : Ctx) (k : ColCtx → Outcome) (hk : ∀ c, (k c).sane) :
    (withCol rng v1 ctx k).sane := by
  unfold withCol
  (repeat' split) <;> first | exact hk _ | simp [Outcome.sane, reject]

theorem sane_create (ctx : Ctx) (id : Str) (schema : Schema) : (createOutcome ctx id schema).sane := by
  unfold createOutcome
  (repeat' split) <;> simp [Outcome.sane, reject, accept]

theorem handle_sane (sp : Spec) (en : Enums) (ctx : Ctx) (req : Req) : (handle sp en ctx req).sane := by
  cases req with
  | v2List | v1List => simp [handle, Outcome.sane]
  | v2Create b =>
    simp only [handle, v2Create]
    (repeat' split) <;> first | exact sane_create _ _ _ | simp [Outcome.sane, reject]
  | v1Create b =>
    simp only [handle, v1Create]
    (repeat' split) <;> first | exact sane_create _ _ _ | simp [Outcome.sane, reject]
  | v2Get | v1Get => exact sane_withCol _ _ _ _ (fun _ => by simp [Outcome.sane])
  | v2DeleteCol | v1DeleteCol => exact sane_withCol _ _ _ _ (fun _ => by simp [Outcome.sane, accept])
  | v2Insert b =>
    refine sane_withCol _ _ _ _ (fun c => ?_)
    (repeat' split) <;> simp [Outcome.sane, reject, accept]
  | v2Update b =>
    refine sane_withCol _ _ _ _ (fun c => ?_)
    (repeat' split) <;> simp [Outcome.sane, reject, accept]
  | v2Delete b | v1Delete b =>
    refine sane_withCol _ _ _ _ (fun c => ?_)
    (repeat' split) <;> simp [Outcome.sane, reject, accept]
  | v2Search b =>
    refine sane_withCol _ _ _ _ (fun c => ?_)
    (repeat' split) <;> simp [Outcome.sane, reject, accept]
  | v1Insert b | v1Update b =>
    refine sane_withCol _ _ _ _ (fun c => ?_)
    (repeat' split) <;> simp [Outcome.sane, reject, accept]
  | v1Search b =>
    refine sane_withCol _ _ _ _ (fun c => ?_)
    (repeat' split) <;> simp [Outcome.sane, reject, accept]

/-- **C18_reject_pure.** On every endpoint, for every context and body: an answer other than 200
(every 4xx in particular) hands nothing to the cluster layer — no write and no read is issued on
the reject path; conversely whatever is handed on is answered 200 by the handler model. -/
theorem C18_reject_pure (sp : Spec) (en : Enums) (ctx : Ctx) (req : Req) :
    ((handle sp en ctx req).status ≠ 200 → (handle sp en ctx req).eff = none) ∧
    (∀ e, (handle sp en ctx req).eff = some e → (handle sp en ctx req).status = 200) := by
  have h := handle_sane sp en ctx req
  constructor
  · intro hs
    rcases h with h | h
    · exact h
    · exact absurd h hs
  · intro e he
    rcases h with h | h
    · simp [h] at he
    · exact h

theorem schema_valid_mem (sp : Spec) (en : Enums) (schema : Schema) (h : schema.valid sp en = true)
    (prop : Str) (v : SchemaValue) (hl : lookup schema prop = some v) : v.valid sp en = true := by
  have := lookup_mem schema prop v hl
  simp only [Schema.valid, List.all_eq_true] at h
  exact h _ this

theorem valid_flat_some (sp : Spec) (en : Enums) (v : SchemaValue) (h : v.valid sp en = true) (ht : v.type = tVectorFlat) :
    v.flat.isSome = true := by
  unfold SchemaValue.valid at h
  simp only [Bool.and_eq_true] at h
  have h2 := h.2
  rw [if_pos ht] at h2
  cases hf : v.flat with
  | none => simp [hf] at h2
  | some _ => rfl

theorem valid_vamana_some (sp : Spec) (en : Enums) (v : SchemaValue) (h : v.valid sp en = true) (ht : v.type = tVectorVamana) :
    v.vamana.isSome = true := by
  unfold SchemaValue.valid at h
  simp only [Bool.and_eq_true] at h
  have h2 := h.2
  have hne : ¬ v.type = tVectorFlat := by rw [ht]; exact tVamana_ne_tFlat
  rw [if_neg hne, if_pos ht] at h2
  cases hf : v.vamana with
  | none => simp [hf] at h2
  | some _ => rfl

theorem VS.and_ne_panic (a b : VS) (ha : a ≠ .panic) (hb : b ≠ .panic) : a.and b ≠ .panic := by
  cases a <;> cases b <;> simp_all [VS.and]

mutual
theorem validSchema_no_panic (sp : Spec) (en : Enums) (schema : Schema) (hs : schema.valid sp en = true) :
    (q : Query) → q.validSchema schema ≠ .panic
  | .mk property flat vamana text s i f sa ff vf tf and or => by
    unfold Query.validSchema
    by_cases h1 : property = pAnd
    · rw [if_pos h1]; exact validSchemaL_no_panic sp en schema hs and
    · by_cases h2 : property = pOr
      · rw [if_neg h1, if_pos h2]; exact validSchemaL_no_panic sp en schema hs or
      · by_cases h3 : property = pId
        · rw [if_neg h1, if_neg h2, if_pos h3]; simp
        · rw [if_neg h1, if_neg h2, if_neg h3]
          cases hl : lookup schema property with
          | none => simp
          | some value =>
            have hv := schema_valid_mem sp en schema hs property value hl
            simp only
            by_cases t1 : value.type = tVectorFlat
            · rw [if_pos t1]
              cases flat with
              | none => simp
              | some o =>
                have := valid_flat_some sp en value hv t1
                cases hp : value.flat with
                | none => simp [hp] at this
                | some p =>
                  simp only
                  split
                  · simp
                  · exact validSchemaO_no_panic sp en schema hs ff
            · by_cases t2 : value.type = tVectorVamana
              · rw [if_neg t1, if_pos t2]
                cases vamana with
                | none => simp
                | some o =>
                  have := valid_vamana_some sp en value hv t2
                  cases hp : value.vamana with
                  | none => simp [hp] at this
                  | some p =>
                    simp only
                    split
                    · simp
                    · exact validSchemaO_no_panic sp en schema hs vf
              · rw [if_neg t1, if_neg t2]
                by_cases t3 : value.type = tText
                · rw [if_pos t3]
                  cases text with
                  | none => simp
                  | some o => exact validSchemaO_no_panic sp en schema hs tf
                · rw [if_neg t3]
                  (repeat' split) <;> simp
theorem validSchemaL_no_panic (sp : Spec) (en : Enums) (schema : Schema) (hs : schema.valid sp en = true) :
    (l : List Query) → validSchemaL schema l ≠ .panic
  | [] => by simp [validSchemaL]
  | q :: qs => by
    simp only [validSchemaL]
    exact VS.and_ne_panic _ _ (validSchema_no_panic sp en schema hs q) (validSchemaL_no_panic sp en schema hs qs)
theorem validSchemaO_no_panic (sp : Spec) (en : Enums) (schema : Schema) (hs : schema.valid sp en = true) :
    (o : Option Query) → validSchemaO schema o ≠ .panic
  | none => by simp [validSchemaO]
  | some q => by simp only [validSchemaO]; exact validSchema_no_panic sp en schema hs q
end

theorem isV1_dim (schema : Schema) (h : isV1Collection schema = true) : (v1Dim schema).isSome = true := by
  unfold isV1Collection at h
  unfold v1Dim
  cases hl : lookup schema kVector with
  | none => simp [hl] at h
  | some v =>
    simp only [hl, Bool.and_eq_true] at h
    cases hv : v.vamana with
    | none => simp [hv] at h
    | some p => simp [hv]

/-- **C18_no_panic.** Status 0 stands for a nil dereference in the Go handler (`ValidateSchema`
reading the index parameters of the schema entry, the v1 handlers reading
`IndexSchema["vector"].VectorVamana`).  If the collection's schema passed `IndexSchema.Validate`
when it was created, no request to any endpoint reaches one.  (On the pinned tree the v1
middleware did not check `isV1Collection`: DESIGN section 8 no. 11.) -/
theorem C18_no_panic (sp : Spec) (en : Enums) (ctx : Ctx) (req : Req)
    (hs : ∀ c, ctx.col = some c → c.schema.valid sp en = true) : (handle sp en ctx req).status ≠ 0 := by
  have wc : ∀ rng v1 (k : ColCtx → Outcome), (∀ c, ctx.col = some c → (v1 = true → isV1Collection c.schema = true) → (k c).status ≠ 0) →
      (withCol rng v1 ctx k).status ≠ 0 := by
    intro rng v1 k hk
    unfold withCol
    split
    · simp [reject]
    · cases hc : ctx.col with
      | none => simp [reject]
      | some c =>
        simp only
        split
        · simp [reject]
        · rename_i hv
          apply hk c hc
          intro h1; subst h1; simpa using hv
  cases req with
  | v2List | v1List => simp [handle]
  | v2Create b =>
    simp only [handle, v2Create, createOutcome]
    (repeat' split) <;> simp [reject, accept]
  | v1Create b =>
    simp only [handle, v1Create, createOutcome]
    (repeat' split) <;> simp [reject, accept]
  | v2Get | v1Get => exact wc _ _ _ (fun _ _ _ => by simp)
  | v2DeleteCol | v1DeleteCol => exact wc _ _ _ (fun _ _ _ => by simp [accept])
  | v2Insert b | v2Update b | v2Delete b | v1Delete b =>
    refine wc _ _ _ (fun c _ _ => ?_)
    (repeat' split) <;> simp [reject, accept]
  | v2Search b =>
    refine wc _ _ _ (fun c hc _ => ?_)
    cases b with
    | none => simp [reject]
    | some r =>
      simp only
      split
      · simp [reject]
      · have := validSchema_no_panic sp en c.schema (hs c hc) r.query
        cases hvs : r.query.validSchema c.schema with
        | ok => simp [accept]
        | bad => simp [reject]
        | panic => exact absurd hvs this
  | v1Insert b | v1Update b =>
    refine wc _ _ _ (fun c _ hv => ?_)
    have hd := isV1_dim c.schema (hv rfl)
    cases hdim : v1Dim c.schema with
    | none => simp [hdim] at hd
    | some dim =>
      (repeat' split) <;> simp_all [reject, accept]
  | v1Search b =>
    refine wc _ _ _ (fun c _ hv => ?_)
    have hd := isV1_dim c.schema (hv rfl)
    cases hdim : v1Dim c.schema with
    | none => simp [hdim] at hd
    | some dim =>
      (repeat' split) <;> simp_all [reject, accept]

/-- **C18_headers.** The header middleware stands in front of every endpoint: a request without
`X-User-Id` / `X-Plan-Id`, with an unknown plan, or whose user id is not a single path segment
(".", "..", anything containing `/` or `\`) is answered 400 and hands nothing on; otherwise the
endpoint's handler decides — so every theorem about `handle` is a theorem about `handleHttp`. -/
theorem C18_headers (sp : Spec) (en : Enums) (h : Headers) (ctx : Ctx) (req : Req) :
    (headersOk h = false → (handleHttp sp en h ctx req).status = 400 ∧ (handleHttp sp en h ctx req).eff = none) ∧
    (headersOk h = true → handleHttp sp en h ctx req = handle sp en ctx req) ∧
    (headersOk h = true → h.userId ≠ [] ∧ h.userId ≠ S "." ∧ h.userId ≠ S ".." ∧
        ∀ c ∈ h.userId, c ≠ 0x2f#8 ∧ c ≠ 0x5c#8) := by
  refine ⟨?_, ?_, ?_⟩
  · intro hh; simp [handleHttp, hh, reject]
  · intro hh; simp [handleHttp, hh]
  · intro hh
    simp only [headersOk, userIdOk, Bool.and_eq_true, Bool.not_eq_true', decide_eq_false_iff_not,
      List.any_eq_false, Bool.or_eq_true, decide_eq_true_eq, not_or] at hh
    obtain ⟨⟨⟨⟨⟨h1, h2⟩, h3⟩, h4⟩, _⟩, _⟩ := hh
    refine ⟨?_, h2, h3, h4⟩
    intro he; simp [he] at h1

example : headersOk ⟨S "alice", S "BASIC", true⟩ = true ∧ headersOk ⟨S "..", S "BASIC", true⟩ = false ∧
    headersOk ⟨S "a/b", S "BASIC", true⟩ = false ∧ headersOk ⟨S "a\\b", S "BASIC", true⟩ = false ∧
    headersOk ⟨S ".", S "BASIC", true⟩ = false ∧ headersOk ⟨S "alice", S "NOPE", false⟩ = false := by decide

/-! ## paging arithmetic -/

theorem toInt_gsmin (a b : BitVec 64) : (FactsC18.smin a b).toInt = if a.toInt < b.toInt then a.toInt else b.toInt := by
  unfold FactsC18.smin
  by_cases h : a.toInt < b.toInt <;> simp [BitVec.slt, h]
theorem toInt_gsmax (a b : BitVec 64) : (FactsC18.smax a b).toInt = if a.toInt < b.toInt then b.toInt else a.toInt := by
  unfold FactsC18.smax
  by_cases h : a.toInt < b.toInt <;> simp [BitVec.slt, h]
theorem toInt_smin (a b : BitVec 64) : (smin a b).toInt = if a.toInt < b.toInt then a.toInt else b.toInt := by
  unfold smin
  by_cases h : a.toInt < b.toInt <;> simp [BitVec.slt, h]

set_option linter.unusedSimpArgs false in
/-- **C18_slice_bounds.** About the arithmetic GENERATED from the working tree's `Shard.SearchPoints`
(`finalResults[sliceLo:sliceHi]`, Go `int` = `BitVec 64` with wrapping `+`/`-`): for every offset ≥ 0
(validated), every limit ≥ 0 (validated 1..100, then clamped by the cluster layer, or replaced by
`len`) and every slice length, `0 ≤ lo ≤ hi ≤ len` — the slice expression cannot panic. No
hypothesis that `offset + limit` does not wrap. -/
theorem C18_slice_bounds (off lim n : BitVec 64) (ho : 0 ≤ off.toInt) (hl : 0 ≤ lim.toInt) (hn : 0 ≤ n.toInt) :
    sliceOk (FactsC18.sliceLo off lim n) (FactsC18.sliceHi off lim n) n := by
  have := BitVec.toInt_lt (x := n); have := BitVec.toInt_lt (x := off); have := BitVec.toInt_lt (x := lim)
  simp only [sliceOk, FactsC18.sliceLo, FactsC18.sliceHi, toInt_gsmin, toInt_gsmax, BitVec.toInt_add, BitVec.toInt_sub, Int.bmod_def]
  (repeat' split) <;> omega

set_option linter.unusedSimpArgs false in
/-- the working tree clamps offset and limit at 0 (`max(Offset, 0)`, `max(Limit, 0)`): for its arithmetic
the bounds hold for EVERY offset and limit, negative ones included (a negative limit can reach the shard
when `maxSearchLimit` is configured negative) -/
theorem C18_slice_bounds_clamped (off lim n : BitVec 64) (hn : 0 ≤ n.toInt) :
    sliceOk (FactsC18.sliceLo off lim n) (FactsC18.sliceHi off lim n) n := by
  have := BitVec.toInt_lt (x := n); have := BitVec.toInt_lt (x := off); have := BitVec.toInt_lt (x := lim)
  have := BitVec.le_toInt (x := off); have := BitVec.le_toInt (x := lim)
  simp only [sliceOk, FactsC18.sliceLo, FactsC18.sliceHi, toInt_gsmin, toInt_gsmax, BitVec.toInt_add, BitVec.toInt_sub, Int.bmod_def,
    BitVec.toInt_zero, BitVec.toInt_ofNat]
  (repeat' split) <;> omega

set_option linter.unusedSimpArgs false in
/-- the arithmetic of the PINNED tree, `finalResults[min(off,n) : min(off+lim,n)]`: in bounds IFF
`offset + limit` does not wrap — the excluded inputs are DESIGN section 8 no. 10 -/
theorem C18_slice_bounds_pinned (off lim n : BitVec 64) (ho : 0 ≤ off.toInt) (hl : 0 ≤ lim.toInt) (hn : 0 ≤ n.toInt) :
    sliceOk (pinnedLo off lim n) (pinnedHi off lim n) n ↔ off.toInt + lim.toInt < 2 ^ 63 := by
  have := BitVec.toInt_lt (x := n); have := BitVec.toInt_lt (x := off); have := BitVec.toInt_lt (x := lim)
  simp only [sliceOk, pinnedLo, pinnedHi, toInt_smin, BitVec.toInt_add, BitVec.toInt_sub, Int.bmod_def]
  (repeat' split) <;> omega

/-- the witness of the defect: offset = MaxInt64, limit = 100 pass validation, the pinned slice panics -/
example : ¬ sliceOk (pinnedLo 0x7fffffffffffffff#64 100#64 1#64) (pinnedHi 0x7fffffffffffffff#64 100#64 1#64) 1#64 := by
  unfold sliceOk; decide
example : Spec.documented.offset.viol 0x7fffffffffffffff = false ∧ Spec.documented.limit.viol 100 = false := by decide
/-- and the same inputs are fine with the arithmetic of the working tree -/
example : sliceOk (FactsC18.sliceLo 0x7fffffffffffffff#64 100#64 1#64) (FactsC18.sliceHi 0x7fffffffffffffff#64 100#64 1#64) 1#64 := by
  unfold sliceOk; decide

/-! ## accepted requests are well-formed -/

mutual
/-- the preconditions `indexManager.Search` (shard/index/search.go) and the indexes behind it assume
of a query: the property is indexed, the options for that index type are present, the operator
is one the index implements, limits are within range, vectors have the index dimension, `_id`
values parse as UUIDs, `_and` / `_or` have at least one sub-query; recursively for filters. -/
def Query.dispatchWF (sp : Spec) (en : Enums) (schema : Schema) : Query → Bool
  | .mk property flat vamana text string integer float stringArray ff vf tf and or =>
    if property = pAnd then !and.isEmpty && dispatchWFL sp en schema and
    else if property = pOr then !or.isEmpty && dispatchWFL sp en schema or
    else if property = pId then idClauseValid string stringArray
    else match lookup schema property with
      | none => false
      | some value =>
        if value.type = tVectorFlat then
          match flat, value.flat with
          | some o, some p => (o.vector.length : Int) == p.vectorSize && en.vecOps.contains o.operator &&
              !sp.qFlatLimit.viol o.limit && dispatchWFO sp en schema ff
          | _, _ => false
        else if value.type = tVectorVamana then
          match vamana, value.vamana with
          | some o, some p => (o.vector.length : Int) == p.vectorSize && en.vecOps.contains o.operator &&
              !sp.qVamanaLimit.viol o.limit && !sp.qVamanaSearchSize.viol o.searchSize && decide (o.limit ≤ o.searchSize) &&
              dispatchWFO sp en schema vf
          | _, _ => false
        else if value.type = tText then
          match text with
          | some o => en.textOps.contains o.operator && !sp.qTextLimit.viol o.limit && !o.value.isEmpty && dispatchWFO sp en schema tf
          | none => false
        else if value.type = tString then
          match string with | some o => en.strOps.contains o.operator && !o.value.isEmpty | none => false
        else if value.type = tStringArray then
          match stringArray with | some o => en.saOps.contains o.operator && !o.value.isEmpty | none => false
        else if value.type = tInteger then
          match integer with | some o => en.intOps.contains o.operator | none => false
        else if value.type = tFloat then
          match float with | some o => en.floatOps.contains o.operator | none => false
        else false
def dispatchWFL (sp : Spec) (en : Enums) (schema : Schema) : List Query → Bool
  | [] => true
  | q :: qs => q.dispatchWF sp en schema && dispatchWFL sp en schema qs
def dispatchWFO (sp : Spec) (en : Enums) (schema : Schema) : Option Query → Bool
  | none => true
  | some q => q.dispatchWF sp en schema
end

theorem optAll_some {α} (f : α → Bool) (o : Option α) (x : α) (h : optAll f o = true) (ho : o = some x) : f x = true := by
  subst ho; exact h

mutual
theorem dispatchWF_of_valid (sp : Spec) (en : Enums) (schema : Schema) (hs : schema.valid sp en = true) :
    (q : Query) → q.valid sp en = true → q.validSchema schema = .ok → q.dispatchWF sp en schema = true
  | .mk property flat vamana text s i f sa ff vf tf and or => by
    intro hv hvs
    unfold Query.valid at hv
    simp only [Bool.and_eq_true] at hv
    obtain ⟨⟨⟨⟨⟨⟨⟨⟨⟨⟨⟨⟨⟨⟨⟨hne, hflat⟩, hff⟩, hvam⟩, hvf⟩, htext⟩, htf⟩, hstr⟩, hint⟩, hflt⟩, hsa⟩, hand⟩, hor⟩, handL⟩, horL⟩, hid⟩ := hv
    unfold Query.validSchema at hvs
    unfold Query.dispatchWF
    by_cases h1 : property = pAnd
    · rw [if_pos h1] at hvs ⊢
      simp only [h1, decide_true, Bool.true_and, Bool.not_eq_true'] at hand
      simp only [Bool.and_eq_true, Bool.not_eq_true', hand, true_and]
      exact dispatchWFL_of_valid sp en schema hs and handL hvs
    · by_cases h2 : property = pOr
      · rw [if_neg h1, if_pos h2] at hvs ⊢
        simp only [h2, decide_true, Bool.true_and, Bool.not_eq_true'] at hor
        simp only [Bool.and_eq_true, Bool.not_eq_true', hor, true_and]
        exact dispatchWFL_of_valid sp en schema hs or horL hvs
      · by_cases h3 : property = pId
        · rw [if_neg h1, if_neg h2, if_pos h3]
          rw [if_pos h3] at hid
          exact hid
        · rw [if_neg h1, if_neg h2, if_neg h3] at hvs ⊢
          cases hl : lookup schema property with
          | none => simp [hl] at hvs
          | some value =>
            simp only [hl] at hvs ⊢
            by_cases t1 : value.type = tVectorFlat
            · rw [if_pos t1] at hvs ⊢
              cases hfl : flat with
              | none => simp [hfl] at hvs
              | some o =>
                simp only [hfl] at hvs ⊢
                cases hp : value.flat with
                | none => simp [hp] at hvs
                | some p =>
                  simp only [hp] at hvs ⊢
                  split at hvs
                  · simp at hvs
                  · rename_i hlen
                    have ho := optAll_some _ _ o hflat hfl
                    simp only [flatOptsValid, Bool.and_eq_true, Bool.not_eq_true'] at ho
                    simp only [Bool.and_eq_true, Bool.not_eq_true', beq_iff_eq]
                    refine ⟨⟨⟨by simpa using hlen, ho.1.2⟩, ho.2⟩, ?_⟩
                    exact dispatchWFO_of_valid sp en schema hs ff hff hvs
            · by_cases t2 : value.type = tVectorVamana
              · rw [if_neg t1, if_pos t2] at hvs ⊢
                cases hvm : vamana with
                | none => simp [hvm] at hvs
                | some o =>
                  simp only [hvm] at hvs ⊢
                  cases hp : value.vamana with
                  | none => simp [hp] at hvs
                  | some p =>
                    simp only [hp] at hvs ⊢
                    split at hvs
                    · simp at hvs
                    · rename_i hlen
                      have ho := optAll_some _ _ o hvam hvm
                      simp only [vamanaOptsValid, Bool.and_eq_true, Bool.not_eq_true', decide_eq_false_iff_not, Int.not_lt] at ho
                      simp only [Bool.and_eq_true, Bool.not_eq_true', beq_iff_eq, decide_eq_true_eq]
                      refine ⟨⟨⟨⟨⟨by simpa using hlen, ho.1.1.1.2⟩, ho.1.2⟩, ho.1.1.2⟩, ho.2⟩, ?_⟩
                      exact dispatchWFO_of_valid sp en schema hs vf hvf hvs
              · rw [if_neg t1, if_neg t2] at hvs ⊢
                by_cases t3 : value.type = tText
                · rw [if_pos t3] at hvs ⊢
                  cases htx : text with
                  | none => simp [htx] at hvs
                  | some o =>
                    simp only [htx] at hvs ⊢
                    have ho := optAll_some _ _ o htext htx
                    simp only [textOptsValid, Bool.and_eq_true, Bool.not_eq_true'] at ho
                    simp only [Bool.and_eq_true, Bool.not_eq_true']
                    exact ⟨⟨⟨ho.1.2, ho.2⟩, ho.1.1⟩, dispatchWFO_of_valid sp en schema hs tf htf hvs⟩
                · rw [if_neg t3] at hvs ⊢
                  by_cases t4 : value.type = tString
                  · rw [if_pos t4] at hvs ⊢
                    cases hst : s with
                    | none => simp [hst] at hvs
                    | some o =>
                      have ho := optAll_some _ _ o hstr hst
                      simp only [strOptsValid, Bool.and_eq_true, Bool.not_eq_true'] at ho
                      simp only [Bool.and_eq_true, Bool.not_eq_true']
                      exact ⟨ho.1.2, ho.1.1⟩
                  · rw [if_neg t4] at hvs ⊢
                    by_cases t5 : value.type = tStringArray
                    · rw [if_pos t5] at hvs ⊢
                      cases hst : sa with
                      | none => simp [hst] at hvs
                      | some o =>
                        have ho := optAll_some _ _ o hsa hst
                        simp only [saOptsValid, Bool.and_eq_true, Bool.not_eq_true'] at ho
                        simp only [Bool.and_eq_true, Bool.not_eq_true']
                        exact ⟨ho.2, ho.1⟩
                    · rw [if_neg t5] at hvs ⊢
                      by_cases t6 : value.type = tInteger
                      · rw [if_pos t6] at hvs ⊢
                        cases hst : i with
                        | none => simp [hst] at hvs
                        | some o =>
                          have ho := optAll_some _ _ o hint hst
                          simp only [intOptsValid, Bool.and_eq_true] at ho
                          exact ho.1
                      · rw [if_neg t6] at hvs ⊢
                        by_cases t7 : value.type = tFloat
                        · rw [if_pos t7] at hvs ⊢
                          cases hst : f with
                          | none => simp [hst] at hvs
                          | some o =>
                            have ho := optAll_some _ _ o hflt hst
                            simp only [floatOptsValid, Bool.and_eq_true] at ho
                            exact ho.1
                        · rw [if_neg t7] at hvs
                          simp at hvs
theorem dispatchWFL_of_valid (sp : Spec) (en : Enums) (schema : Schema) (hs : schema.valid sp en = true) :
    (l : List Query) → validL sp en l = true → validSchemaL schema l = .ok → dispatchWFL sp en schema l = true
  | [] => by intro _ _; rfl
  | q :: qs => by
    intro hv hvs
    simp only [validL, Bool.and_eq_true] at hv
    simp only [validSchemaL, VS.and_ok] at hvs
    simp only [dispatchWFL, Bool.and_eq_true]
    exact ⟨dispatchWF_of_valid sp en schema hs q hv.1 hvs.1, dispatchWFL_of_valid sp en schema hs qs hv.2 hvs.2⟩
theorem dispatchWFO_of_valid (sp : Spec) (en : Enums) (schema : Schema) (hs : schema.valid sp en = true) :
    (o : Option Query) → validO sp en o = true → validSchemaO schema o = .ok → dispatchWFO sp en schema o = true
  | none => by intro _ _; rfl
  | some q => by
    intro hv hvs
    simp only [validO] at hv
    simp only [validSchemaO] at hvs
    simp only [dispatchWFO]
    exact dispatchWF_of_valid sp en schema hs q hv hvs
end

/-- what the cluster / shard layer may assume of what a handler hands on (documented limits) -/
def Effect.wf (ctx : Ctx) : Effect → Prop
  | .createCollection id schema =>
      schema.valid Spec.documented Enums.documented = true ∧ ctx.exists_ = false ∧ ctx.ncols < ctx.plan.maxCollections ∧
      3 ≤ id.length ∧ id.length ≤ 24
  | .deleteCollection => ctx.col.isSome = true
  | .insertPoints pts => ∃ c, ctx.col = some c ∧ 1 ≤ pts.length ∧ pts.length ≤ 10000 ∧
      c.pointCount + pts.length ≤ ctx.plan.maxPoints ∧
      ∀ p ∈ pts, (p.data.encSize : Int) ≤ ctx.plan.maxPointSize ∧ (∀ s, p.id = some s → uuidOk s = true)
  | .updatePoints pts => ∃ c, ctx.col = some c ∧ 1 ≤ pts.length ∧ pts.length ≤ 100 ∧
      ∀ p ∈ pts, (p.data.encSize : Int) ≤ ctx.plan.maxPointSize ∧ (∃ s, p.id = some s ∧ uuidOk s = true)
  | .deletePoints ids => ctx.col.isSome = true ∧ 1 ≤ ids.length ∧ ids.length ≤ 100 ∧ ∀ s ∈ ids, uuidOk s = true
  | .search schema r => ∃ c, ctx.col = some c ∧ c.schema = schema ∧
      (schema.valid Spec.documented Enums.documented = true → r.query.dispatchWF Spec.documented Enums.documented schema = true) ∧
      0 ≤ r.offset ∧ 1 ≤ r.limit ∧ r.limit ≤ 100 ∧ r.sort.length ≤ 10 ∧ ∀ so ∈ r.sort, so.property ≠ []

theorem viol_r (lo hi x : Int) : (r lo hi).viol x = false ↔ lo ≤ x ∧ x ≤ hi := by
  simp [r, Range.viol]

theorem viol_lo (lo x : Int) : (Range.mk (some lo) none).viol x = false ↔ lo ≤ x := by
  simp [Range.viol]

theorem viol_hi (hi x : Int) : (Range.mk none (some hi)).viol x = false ↔ x ≤ hi := by
  simp [Range.viol]

theorem v1Schema_valid (b : V1Create) (h1 : Spec.documented.v1CreateVecSize.viol b.vectorSize = false)
    (h2 : Enums.documented.v1Metrics.contains b.metric = true) :
    (v1Schema b).valid Spec.documented Enums.documented = true := by
  have hm : Enums.documented.metrics.contains b.metric = true ∧ b.metric ≠ mHaversine := by
    simp only [Enums.documented, List.contains_iff_mem, List.mem_cons, List.not_mem_nil, or_false] at h2 ⊢
    rcases h2 with h | h | h <;> (rw [h]; decide)
  have hv : Spec.documented.vamanaVecSize.viol b.vectorSize = false := h1
  simp only [Schema.valid, v1Schema, List.all_cons, List.all_nil, Bool.and_true, SchemaValue.valid, VamanaP.valid,
    optQuantValid, hv, hm.1, hm.2, Bool.and_eq_true]
  refine ⟨by decide, ?_⟩
  rw [if_neg tVamana_ne_tFlat, if_pos True.intro]
  simp only [decide_false, Bool.false_and, Bool.not_false, Bool.true_and, Bool.and_true]
  decide

theorem mapAll_forall {α β} (f : α → Option β) (P : β → Prop) (l : List α) (rs : List β) (h : mapAll f l = some rs)
    (hp : ∀ x y, x ∈ l → f x = some y → P y) : ∀ y ∈ rs, P y := by
  intro y hy
  obtain ⟨x, hx, hf⟩ := mapAll_mem f l rs h y hy
  exact hp x y hx hf

theorem v1StorePoint_id (schema : Schema) (dim maxSize : Int) (p : V1Point) (spt : StoredPoint)
    (h : v1StorePoint schema dim maxSize p = some spt) : spt.id = if p.id.isEmpty then none else some p.id := by
  unfold v1StorePoint at h
  (repeat' split at h) <;> simp_all
  all_goals (subst h; rfl)

/-- **C18_accept_wf.** With the documented limits (pinned to the source by `C18_pin_limits`,
`C18_pin_enums`): whatever a handler model hands to the cluster layer satisfies the preconditions the
shard-level code assumes — ids parse as UUIDs (`uuid.MustParse` in the handlers cannot panic),
batch sizes and point sizes are within the plan, the collection exists; for a search: every leaf
the index manager dispatches addresses an indexed property with the options of that index type
present, an operator that index implements, limits / search sizes within range and
`limit ≤ searchSize`, vectors of the index dimension, `_and` / `_or` non-empty, `_id` values
parsing as UUIDs; `0 ≤ offset`, `1 ≤ limit ≤ 100`, at most 10 sort keys, none empty.
(`select` is not bounded by the code, hence not here.) -/
theorem C18_accept_wf (ctx : Ctx) (req : Req) (e : Effect)
    (h : (handle Spec.documented Enums.documented ctx req).eff = some e) : e.wf ctx := by
  cases req with
  | v2List | v1List => simp [handle] at h
  | v2Get | v1Get => obtain ⟨c, _, _, _, hk⟩ := withCol_eff _ _ _ _ _ h; simp at hk
  | v2DeleteCol | v1DeleteCol =>
    obtain ⟨c, hc, _, _, hk⟩ := withCol_eff _ _ _ _ _ h
    simp [accept] at hk; subst hk
    simp [Effect.wf, hc]
  | v2Create b =>
    simp only [handle, v2Create] at h
    cases b with
    | none => simp [reject] at h
    | some b =>
      simp only at h
      split at h
      · simp [reject] at h
      · rename_i hv
        simp only [Bool.or_eq_true, not_or, Bool.not_eq_true, Bool.not_eq_false'] at hv
        unfold createOutcome at h
        split at h
        · simp [reject] at h
        · rename_i hex
          split at h
          · simp [reject] at h
          · rename_i hq
            simp [accept] at h; subst h
            have := (viol_r 3 24 _).mp hv.1.1
            refine ⟨by simpa using hv.2, by simpa using hex, by omega, ?_, ?_⟩ <;> omega
  | v1Create b =>
    simp only [handle, v1Create] at h
    cases b with
    | none => simp [reject] at h
    | some b =>
      simp only at h
      split at h
      · simp [reject] at h
      · rename_i hv
        simp only [Bool.or_eq_true, not_or, Bool.not_eq_true, Bool.not_eq_false'] at hv
        unfold createOutcome at h
        split at h
        · simp [reject] at h
        · rename_i hex
          split at h
          · simp [reject] at h
          · rename_i hq
            simp [accept] at h; subst h
            have := (viol_r 3 16 _).mp hv.1.1.1
            refine ⟨v1Schema_valid b hv.1.2 (by simpa using hv.2), by simpa using hex, by omega, ?_, ?_⟩ <;> omega
  | v2Insert b =>
    obtain ⟨c, hc, _, _, hk⟩ := withCol_eff _ _ _ _ _ h
    cases b with
    | none => simp [reject] at hk
    | some pts =>
      simp only at hk
      split at hk
      · simp [reject] at hk
      · rename_i hn
        cases hm : mapAll (v2InsertPoint c.schema ctx.plan.maxPointSize) pts with
        | none => simp [hm, reject] at hk
        | some sps =>
          simp only [hm] at hk
          split at hk
          · simp [reject] at hk
          · rename_i hq
            simp [accept] at hk; subst hk
            have hlen := mapAll_length _ _ _ hm
            have hn2 : Spec.documented.v2Insert.viol (pts.length : Int) = false := by simpa using hn
            have := (viol_r 1 10000 _).mp hn2
            refine ⟨c, hc, by omega, by omega, by rw [hlen]; omega, ?_⟩
            exact mapAll_forall _ _ _ _ hm (fun x y _ hxy => (vecInv_v2InsertPoint _ _ _ _ hxy).2)
  | v2Update b =>
    obtain ⟨c, hc, _, _, hk⟩ := withCol_eff _ _ _ _ _ h
    cases b with
    | none => simp [reject] at hk
    | some pts =>
      simp only at hk
      split at hk
      · simp [reject] at hk
      · rename_i hn
        cases hm : mapAll (v2UpdatePoint c.schema ctx.plan.maxPointSize) pts with
        | none => simp [hm, reject] at hk
        | some sps =>
          simp [hm, accept] at hk; subst hk
          have hlen := mapAll_length _ _ _ hm
          have hn2 : Spec.documented.v2Update.viol (pts.length : Int) = false := by simpa using hn
          have := (viol_r 1 100 _).mp hn2
          refine ⟨c, hc, by omega, by omega, ?_⟩
          exact mapAll_forall _ _ _ _ hm (fun x y _ hxy => (vecInv_v2UpdatePoint _ _ _ _ hxy).2)
  | v2Delete b | v1Delete b =>
    obtain ⟨c, hc, _, _, hk⟩ := withCol_eff _ _ _ _ _ h
    cases b with
    | none => simp [reject] at hk
    | some ids =>
      simp only at hk
      split at hk
      · simp [reject] at hk
      · rename_i hn
        simp only [Bool.or_eq_true, not_or, Bool.not_eq_true, Bool.not_eq_false'] at hn
        simp [accept] at hk; subst hk
        have := (viol_r 1 100 _).mp hn.1
        refine ⟨by simp [hc], by omega, by omega, ?_⟩
        simpa [List.all_eq_true] using hn.2
  | v2Search b =>
    obtain ⟨c, hc, _, _, hk⟩ := withCol_eff _ _ _ _ _ h
    cases b with
    | none => simp [reject] at hk
    | some r0 =>
      simp only at hk
      split at hk
      · simp [reject] at hk
      · rename_i hv
        split at hk
        · simp [reject] at hk
        · simp at hk
        · rename_i hvs
          simp [accept] at hk
          obtain ⟨rfl, rfl⟩ := hk
          have hv' : r0.valid Spec.documented Enums.documented = true := by simpa using hv
          simp only [SearchReq.valid, Bool.and_eq_true, Bool.not_eq_true'] at hv'
          obtain ⟨⟨⟨⟨hq, hsl⟩, hsp⟩, hoff⟩, hlim⟩ := hv'
          have h1 := (viol_lo 0 _).mp hoff
          have h2 := (viol_r 1 100 _).mp hlim
          have h3 := (viol_hi 10 _).mp hsl
          refine ⟨c, hc, rfl, fun hs => dispatchWF_of_valid _ _ _ hs _ hq hvs, h1, h2.1, h2.2, by omega, ?_⟩
          intro so hso
          have := (List.all_eq_true.mp hsp) so hso
          intro hempty
          simp [hempty] at this
  | v1Insert b =>
    obtain ⟨c, hc, _, _, hk⟩ := withCol_eff _ _ _ _ _ h
    cases b with
    | none => simp [reject] at hk
    | some pts =>
      simp only at hk
      split at hk
      · simp [reject] at hk
      · rename_i hn
        simp only [Bool.or_eq_true, not_or, Bool.not_eq_true, Bool.not_eq_false'] at hn
        cases hd : v1Dim c.schema with
        | none => simp [hd] at hk
        | some dim =>
          simp only [hd] at hk
          cases hm : mapAll (v1StorePoint c.schema dim ctx.plan.maxPointSize) pts with
          | none => simp [hm, reject] at hk
          | some sps =>
            simp only [hm, Bool.false_eq_true, if_false] at hk
            split at hk
            · simp [reject] at hk
            · rename_i hq
              simp [accept] at hk; subst hk
              have hlen := mapAll_length _ _ _ hm
              have := (viol_r 1 10000 _).mp hn.1
              refine ⟨c, hc, by omega, by omega, by rw [hlen]; omega, ?_⟩
              refine mapAll_forall _ _ _ _ hm (fun x y hx hxy => ⟨(vecInv_v1StorePoint _ _ _ _ _ hxy).2.1, ?_⟩)
              intro s hs
              rw [v1StorePoint_id _ _ _ _ _ hxy] at hs
              have hvx := (List.all_eq_true.mp hn.2) x hx
              simp only [v1PointValid, Bool.false_eq_true, if_false, Bool.and_eq_true, Bool.or_eq_true] at hvx
              split at hs
              · simp at hs
              · rename_i hne
                simp at hs; subst hs
                rcases hvx.1 with h0 | h0
                · exact absurd h0 hne
                · exact h0
  | v1Update b =>
    obtain ⟨c, hc, _, _, hk⟩ := withCol_eff _ _ _ _ _ h
    cases b with
    | none => simp [reject] at hk
    | some pts =>
      simp only at hk
      split at hk
      · simp [reject] at hk
      · rename_i hn
        simp only [Bool.or_eq_true, not_or, Bool.not_eq_true, Bool.not_eq_false'] at hn
        cases hd : v1Dim c.schema with
        | none => simp [hd] at hk
        | some dim =>
          simp only [hd] at hk
          cases hm : mapAll (v1StorePoint c.schema dim ctx.plan.maxPointSize) pts with
          | none => simp [hm, reject] at hk
          | some sps =>
            simp [hm, accept] at hk; subst hk
            have hlen := mapAll_length _ _ _ hm
            have := (viol_r 1 100 _).mp hn.1
            refine ⟨c, hc, by omega, by omega, ?_⟩
            refine mapAll_forall _ _ _ _ hm (fun x y hx hxy => ⟨(vecInv_v1StorePoint _ _ _ _ _ hxy).2.1, ?_⟩)
            have hvx := (List.all_eq_true.mp hn.2) x hx
            simp only [v1PointValid, if_true, Bool.and_eq_true] at hvx
            rw [v1StorePoint_id _ _ _ _ _ hxy]
            have hne : x.id.isEmpty = false := by
              cases hxi : x.id with
              | nil => rw [hxi] at hvx; simp [uuidOk] at hvx
              | cons a as => rfl
            exact ⟨x.id, by simp [hne], hvx.1⟩
  | v1Search b =>
    obtain ⟨c, hc, _, hv1, hk⟩ := withCol_eff _ _ _ _ _ h
    cases b with
    | none => simp [reject] at hk
    | some b =>
      simp only at hk
      split at hk
      · simp [reject] at hk
      · rename_i hn
        simp only [Bool.or_eq_true, not_or, Bool.not_eq_true] at hn
        cases hd : v1Dim c.schema with
        | none => simp [hd] at hk
        | some dim =>
          simp only [hd] at hk
          split at hk
          · simp [reject] at hk
          · rename_i hlen
            simp [accept] at hk
            obtain ⟨rfl, rfl⟩ := hk
            have hl := (viol_r 0 75 _).mp hn.2
            have hvl := (viol_r 1 2000 _).mp hn.1
            have hlim : 1 ≤ (v1SearchReq b).limit ∧ (v1SearchReq b).limit ≤ 75 := by
              simp only [v1SearchReq]
              by_cases hz : b.limit = 0
              · simp [hz]
              · have : (b.limit == 0) = false := by simpa using hz
                simp only [this]; constructor <;> omega
            refine ⟨c, hc, rfl, ?_, by simp [v1SearchReq], hlim.1, by omega, by simp [v1SearchReq], by simp [v1SearchReq]⟩
            intro _
            -- the single vamana leaf on "vector"
            unfold v1Dim at hd
            cases hlk : lookup c.schema kVector with
            | none => simp [hlk] at hd
            | some value =>
              simp only [hlk] at hd
              cases hp : value.vamana with
              | none => simp [hp] at hd
              | some p =>
                simp [hp] at hd
                have hv := hv1 rfl
                simp only [isV1Collection, hlk, Bool.and_eq_true, decide_eq_true_eq] at hv
                have hkv1 : kVector ≠ pAnd := by decide
                have hkv2 : kVector ≠ pOr := by decide
                have hkv3 : kVector ≠ pId := by decide
                have hq : (v1SearchReq b).query = .mk kVector none (some ⟨b.vector, S "near", 75, (v1SearchReq b).limit, none⟩)
                    none none none none none none none none [] [] := rfl
                rw [hq]
                generalize (v1SearchReq b).limit = L at hlim
                simp only [Query.dispatchWF, if_neg hkv1, if_neg hkv2, if_neg hkv3, hlk, hv.1,
                  if_neg tVamana_ne_tFlat, if_true, hp, dispatchWFO, Bool.and_true, Bool.and_eq_true, beq_iff_eq,
                  Bool.not_eq_true', decide_eq_true_eq]
                simp at hlen
                refine ⟨⟨⟨⟨by omega, by decide⟩, ?_⟩, by decide⟩, hlim.2⟩
                exact (viol_r 1 75 _).mpr hlim

/-! ## what is not executed decides nothing; what is executed cannot be masked -/

/-- **C18_search_dormant.** `ValidateSchema` and the set of vectors that reach a distance closure depend
on the EXECUTED part of a query only (`Query.live`: for `_and` / `_or` the list of that name; for a
property with an index the options of the index's type and their filter): an `_and` list on an `_or`
node, option blocks of other types, lists on a leaf — however ill-fitting — change neither. -/
theorem C18_search_dormant (schema : Schema) (q : Query) :
    (q.live schema).validSchema schema = q.validSchema schema ∧ (q.live schema).reach schema = q.reach schema :=
  ⟨live_validSchema schema q, live_reach schema q⟩

/-- consequently the v2 search handler answers two requests alike when their queries have the same
executed part and both pass (or both fail) the schema-independent `Validate` -/
theorem C18_search_status_live (sp : Spec) (en : Enums) (ctx : Ctx) (c : ColCtx) (hc : ctx.col = some c) (r1 r2 : SearchReq)
    (hl : r1.query.live c.schema = r2.query.live c.schema) (hv : r1.valid sp en = r2.valid sp en) :
    (handle sp en ctx (.v2Search (some r1))).status = (handle sp en ctx (.v2Search (some r2))).status := by
  have hvs : r1.query.validSchema c.schema = r2.query.validSchema c.schema := by
    rw [← live_validSchema c.schema r1.query, ← live_validSchema c.schema r2.query, hl]
  simp only [handle, v2Search, withCol, hc]
  split
  · rfl
  · simp only [Bool.false_and, Bool.false_eq_true, if_false, hv]
    split
    · rfl
    · rw [hvs]
      cases r2.query.validSchema c.schema <;> rfl

/-- **C18_wrong_length_refused** (the contrapositive of `C18_vec_len_search`, spelled out): if anywhere in
the executed part of a v2 search — top level, inside `_and` / `_or`, inside the filter of a vector or
text leaf, at any depth, whatever valid filters, weights, dormant lists and blocks stand beside it — a
vector's length differs from the dimension of the index it would be run on, nothing is handed to the
cluster layer. -/
theorem C18_wrong_length_refused (sp : Spec) (en : Enums) (ctx : Ctx) (c : ColCtx) (hc : ctx.col = some c) (r : SearchReq)
    (x : Reach) (hx : x ∈ r.query.reach c.schema) (hne : (x.len : Int) ≠ x.dim) :
    (handle sp en ctx (.v2Search (some r))).eff = none := by
  simp only [handle, v2Search, withCol, hc]
  split
  · rfl
  · simp only [Bool.false_and, Bool.false_eq_true, if_false]
    split
    · rfl
    · cases hvs : r.query.validSchema c.schema with
      | bad => rfl
      | panic => rfl
      | ok => exact absurd (reach_ok c.schema r.query hvs x hx) hne

/-- **C18_v1_by_type.** The v1 endpoints of a collection go by the declared TYPE of the `vector` entry: if it
is not `vectorVamana` — whatever parameter blocks the entry carries, a vamana block included — every v1
request addressing the collection is answered 400 and nothing is handed on. -/
theorem C18_v1_by_type (sp : Spec) (en : Enums) (ctx : Ctx) (c : ColCtx) (hc : ctx.col = some c) (sv : SchemaValue)
    (hl : lookup c.schema kVector = some sv) (ht : sv.type ≠ tVectorVamana) (req : Req)
    (hreq : match req with | .v1Get | .v1DeleteCol | .v1Insert _ | .v1Update _ | .v1Delete _ | .v1Search _ => True | _ => False) :
    (handle sp en ctx req).status = 400 ∧ (handle sp en ctx req).eff = none := by
  have hv : isV1Collection c.schema = false := by simp [isV1Collection, hl, ht]
  have wc : ∀ rng (k : ColCtx → Outcome), (withCol rng true ctx k).status = 400 ∧ (withCol rng true ctx k).eff = none := by
    intro rng k
    unfold withCol
    split
    · simp [reject]
    · simp [hc, hv, reject]
  cases req with
  | v1Get => exact wc _ _
  | v1DeleteCol => exact wc _ _
  | v1Insert b => exact wc _ _
  | v1Update b => exact wc _ _
  | v1Delete b => exact wc _ _
  | v1Search b => exact wc _ _
  | _ => exact absurd hreq (by simp)

/-! ## non-vacuity: the hypotheses of the theorems are satisfiable on concrete states
(kept small: `decide` evaluates the model in the kernel without sharing) -/

def exSchema : Schema :=
  [(S "vec", { type := tVectorFlat, flat := some ⟨2, S "euclidean", none⟩, vamana := none, text := none, string := none, stringArray := none })]
def exSchema2 : Schema := exSchema ++
  [(S "meta.kind", { type := tString, flat := none, vamana := none, text := none, string := some false, stringArray := none })]
def exCtx : Ctx := { plan := ⟨6, 60, 1024⟩, ncols := 1, exists_ := false, cidLen := 5, col := some ⟨exSchema, 3⟩ }
def exPoint (n : Nat) : J := .obj [(S "vec", .arr (List.replicate n (.num .f64 0x3FF0000000000000)))]
def exQuery (n : Nat) : Query :=
  .mk pAnd none none none none none none none none none none
    [.mk (S "vec") (some ⟨List.replicate n 0, S "near", 0, 5, none⟩) none none none none none none none none none [] []] []
def exSearch (n : Nat) : SearchReq :=
  { query := exQuery n, select := [S "*"], sort := [⟨S "vec", true⟩], offset := 0x7fffffffffffffff, limit := 100 }

-- C18_vec_len / C18_accept_wf / C18_reject_pure: an accepted insert (hypothesis `eff = some e`, one point) ...
example : (handle Spec.documented Enums.documented exCtx (.v2Insert (some [exPoint 2]))).status = 200 := by decide
example : ((handle Spec.documented Enums.documented exCtx (.v2Insert (some [exPoint 2]))).eff.map fun e => e.points.length) = some 1 := by decide
-- ... whose stored vector is read back by the index with length 2
example : ((v2InsertPoint exSchema 1024 (exPoint 2)).map fun p => (vectorReaching (S "vec") p.data).map List.length) = some (some 2) := by decide
-- a vector of length 3 or 1 is refused and nothing is handed on
example : (handle Spec.documented Enums.documented exCtx (.v2Insert (some [exPoint 3]))).status = 400 := by decide
example : (handle Spec.documented Enums.documented exCtx (.v2Insert (some [exPoint 1]))).eff.isNone = true := by decide
-- CheckCompatibleMap over two entries, one of them nested, with an `_id`
example : (compat exSchema2 [(pId, .str (S "123e4567-e89b-12d3-a456-426614174000")),
    (S "vec", .arr [.num .f32 0, .num .f64 0]), (S "meta", .obj [(S "kind", .str (S "x"))])]).isSome = true := by decide
example : (compat exSchema2 [(S "vec", .arr [.num .f32 0, .num .f64 0]), (S "meta", .str (S "x"))]).isSome = false := by decide
-- C18_vec_len_search: an accepted search with offset = MaxInt64 (the input of DESIGN section 8 no. 10);
-- one query vector reaches a distance closure
example : (handle Spec.documented Enums.documented exCtx (.v2Search (some (exSearch 2)))).status = 200 := by decide
example : ((exQuery 2).reach exSchema).length = 1 := by decide
example : (handle Spec.documented Enums.documented exCtx (.v2Search (some (exSearch 3)))).status = 400 := by decide
-- C18_no_panic: the stored schema passes IndexSchema.Validate
example : exSchema2.valid Spec.documented Enums.documented = true := by decide
-- v1 on a collection without the v1 index: refused with 400 (pinned tree: nil dereference)
example : (handle Spec.documented Enums.documented exCtx (.v1Search (some ⟨[0, 0], 5⟩))).status = 400 := by decide
-- C18_search_dormant: an `_or` node whose dormant `_and` list holds a vector of the wrong length is accepted like its
-- executed part alone; the same leaf in the executed list is refused whatever valid `_and` list stands beside it
def exLeaf (n : Nat) : Query := .mk (S "vec") (some ⟨List.replicate n 0, S "near", 0, 5, none⟩) none none none none none none none none none [] []
def exOr (live dormant : Nat) : Query := .mk pOr none none none none none none none none none none [exLeaf dormant] [exLeaf live]
example : (exOr 2 3).validSchema exSchema = .ok ∧ (exOr 3 2).validSchema exSchema = .bad ∧
    ((exOr 2 3).live exSchema).and.length = 0 ∧ ((exOr 2 3).live exSchema).or.length = 1 := by decide
-- C18_wrong_length_refused: a wrong-length leaf that carries a valid filter of its own, inside the filter of a well-formed leaf
def exFiltered (outer inner : Nat) : Query :=
  .mk (S "vec") (some ⟨List.replicate outer 0, S "near", 0, 5, none⟩) none none none none none none
    (some (.mk (S "vec") (some ⟨List.replicate inner 0, S "near", 0, 5, none⟩) none none none none none none (some (exLeaf 2)) none none [] [])) none none [] []
example : ((exFiltered 2 3).reach exSchema).map (fun x => (x.dim, x.len)) = [(2, 2), (2, 3), (2, 2)] ∧ (exFiltered 2 3).validSchema exSchema = .bad ∧ (exFiltered 2 2).validSchema exSchema = .ok := by decide
-- C18_v1_by_type: `vector` declared as a flat index with a vamana block beside it (accepted by IndexSchema.Validate)
def exStray : Schema :=
  [(kVector, { type := tVectorFlat, flat := some ⟨3, S "euclidean", none⟩, vamana := some ⟨3, S "euclidean", 75, 64, 0x3FF3333340000000, none⟩, text := none, string := none, stringArray := none })]
example : exStray.valid Spec.documented Enums.documented = true ∧ isV1Collection exStray = false ∧
    (handle Spec.documented Enums.documented { exCtx with col := some ⟨exStray, 0⟩ } (.v1Search (some ⟨[0, 0, 0], 5⟩))).status = 400 := by decide
-- C18_vec_len_stored, hypothesis `hm`: one new key, nothing deleted
example : ∀ k, lookup [(S "note", J.null)] k = mergeLookup [] [(S "note", J.null)] k := by
  intro k
  by_cases h : S "note" = k <;> simp [mergeLookup, lookup, h, isDeleteVal]

/-! ## the decision skeleton the model was written against (T2 pin)

Every `if` condition, `switch` tag, `case` list and type-switch case list, in source order, of every
`Validate()`, `CheckCompatibleMap`, `convertToVector`, `ValidateSchema`, `ExtractIdField`, the v1 / v2
handlers and collection middlewares, `DecodeValid`, the header middleware, and the two quota checks
of the cluster layer.  Regenerated from the working tree on every run; any edit of a decision in
that code breaks this `rfl` (then: re-read the Go, repair the model, re-pin).
To re-pin: copy `skeleton` / `routes` from lean/SemaModel/Generated/FactsC18.lean. -/

theorem C18_pin_routes : FactsC18.routes = ["root v5.Handle(\"/v1/\", http.StripPrefix(\"/v1\", httpv1.SetupV1Handlers(v1)))",
  "root v5.Handle(\"/v2/\", http.StripPrefix(\"/v2\", httpv2.SetupV2Handlers(v1)))",
  "v1 v2.HandleFunc(\"/ping\", handlePing)",
  "v1 v2.HandleFunc(\"GET /collections\", v3.HandleListCollections)",
  "v1 v2.HandleFunc(\"POST /collections\", v3.HandleCreateCollection)",
  "v1 v2.Handle(\"GET /collections/{collectionId}\", v4(v3.HandleGetCollection))",
  "v1 v2.Handle(\"DELETE /collections/{collectionId}\", v4(v3.HandleDeleteCollection))",
  "v1 v2.Handle(\"POST /collections/{collectionId}/points\", v4(v3.HandleInsertPoints))",
  "v1 v2.Handle(\"PUT /collections/{collectionId}/points\", v4(v3.HandleUpdatePoints))",
  "v1 v2.Handle(\"DELETE /collections/{collectionId}/points\", v4(v3.HandleDeletePoints))",
  "v1 v2.Handle(\"POST /collections/{collectionId}/points/search\", v4(v3.HandleSearchPoints))",
  "v2 v2.HandleFunc(\"/ping\", handlePing)",
  "v2 v2.HandleFunc(\"GET /collections\", v3.HandleListCollections)",
  "v2 v2.HandleFunc(\"POST /collections\", v3.HandleCreateCollection)",
  "v2 v2.Handle(\"GET /collections/{collectionId}\", v4(v3.HandleGetCollection))",
  "v2 v2.Handle(\"DELETE /collections/{collectionId}\", v4(v3.HandleDeleteCollection))",
  "v2 v2.Handle(\"POST /collections/{collectionId}/points\", v4(v3.HandleInsertPoints))",
  "v2 v2.Handle(\"PUT /collections/{collectionId}/points\", v4(v3.HandleUpdatePoints))",
  "v2 v2.Handle(\"DELETE /collections/{collectionId}/points\", v4(v3.HandleDeletePoints))",
  "v2 v2.Handle(\"POST /collections/{collectionId}/points/search\", v4(v3.HandleSearchPoints))"] := rfl

/-- the recursion sites the model's `Query.valid`, `Query.validSchema`, `Query.reach` and `Query.live` transcribe: which list
(`q.And` / `q.Or`) and which filter `Query.Validate`, `Query.ValidateSchema` and `indexManager.Search` (shard/index/search.go)
hand on, under which case of their switches — `_and` runs / checks the `_and` list, `_or` the `_or` list, a vector / text leaf
its own filter, and `Validate` (alone) looks at every block and both lists -/
theorem C18_pin_dispatch : FactsC18.dispatch = [
  ("models.Query.Validate", "-", "call v1.VectorFlat.Validate()"),
  ("models.Query.Validate", "-", "call v1.VectorVamana.Validate()"),
  ("models.Query.Validate", "-", "call v1.Text.Validate()"),
  ("models.Query.Validate", "-", "call v1.String.Validate()"),
  ("models.Query.Validate", "-", "call v1.Integer.Validate()"),
  ("models.Query.Validate", "-", "call v1.Float.Validate()"),
  ("models.Query.Validate", "-", "call v1.StringArray.Validate()"),
  ("models.Query.Validate", "-", "range v1.And"),
  ("models.Query.Validate", "-", "call v10.Validate()"),
  ("models.Query.Validate", "-", "range v1.Or"),
  ("models.Query.Validate", "-", "call v13.Validate()"),
  ("models.Query.Validate", "case v1.StringArray != nil", "range v1.StringArray.Value"),
  ("models.Query.ValidateSchema", "case \"_and\"", "range v1.And"),
  ("models.Query.ValidateSchema", "case \"_and\"", "call v3.ValidateSchema(v2)"),
  ("models.Query.ValidateSchema", "case \"_or\"", "range v1.Or"),
  ("models.Query.ValidateSchema", "case \"_or\"", "call v5.ValidateSchema(v2)"),
  ("models.Query.ValidateSchema", "case IndexTypeVectorFlat", "call v1.VectorFlat.Filter.ValidateSchema(v2)"),
  ("models.Query.ValidateSchema", "case IndexTypeVectorVamana", "call v1.VectorVamana.Filter.ValidateSchema(v2)"),
  ("models.Query.ValidateSchema", "case IndexTypeText", "call v1.Text.Filter.ValidateSchema(v2)"),
  ("index.indexManager.Search", "case \"_and\"", "call v1.searchParallel(v2, v3.And, false)"),
  ("index.indexManager.Search", "case \"_or\"", "call v1.searchParallel(v2, v3.Or, true)"),
  ("index.indexManager.Search", "case \"_id\"", "call v1.searchById(v3)"),
  ("index.indexManager.Search", "case models.IndexTypeVectorVamana", "call v1.Search(v2, *v3.VectorVamana.Filter)"),
  ("index.indexManager.Search", "case models.IndexTypeVectorVamana", "call a2.Search(v2, *v3.VectorVamana, v11)"),
  ("index.indexManager.Search", "case models.IndexTypeVectorFlat", "call v1.Search(v2, *v3.VectorFlat.Filter)"),
  ("index.indexManager.Search", "case models.IndexTypeVectorFlat", "call a2.Search(v2, *v3.VectorFlat, v16)"),
  ("index.indexManager.Search", "case models.IndexTypeText", "call v1.Search(v2, *v3.Text.Filter)"),
  ("index.indexManager.Search", "case models.IndexTypeText", "call v22.Search(*v3.Text, v21)"),
  ("index.indexManager.Search", "case models.IndexTypeString", "call v24.Search(*v3.String)"),
  ("index.indexManager.Search", "case models.IndexTypeStringArray", "call v27.Search(*v3.StringArray)"),
  ("index.indexManager.Search", "case models.IndexTypeInteger", "call v30.Search(v3.Integer.Value, v3.Integer.EndValue, v3.Integer.Operator)"),
  ("index.indexManager.Search", "case models.IndexTypeFloat", "call v33.Search(v3.Float.Value, v3.Float.EndValue, v3.Float.Operator)")
] := rfl

theorem C18_pin_skeleton : FactsC18.skeleton = [
  ("models.IndexSchema.Validate", "if v3 != nil"),
  ("models.IndexSchemaValue.Validate", "if v1.Type != IndexTypeFloat && v1.Type != IndexTypeInteger && v1.Type != IndexTypeString && v1.Type != IndexTypeStringArray && v1.Type != IndexTypeText && v1.Type != IndexTypeVectorFlat && v1.Type != IndexTypeVectorVamana"),
  ("models.IndexSchemaValue.Validate", "switch v1.Type"),
  ("models.IndexSchemaValue.Validate", "case IndexTypeVectorFlat"),
  ("models.IndexSchemaValue.Validate", "case IndexTypeVectorVamana"),
  ("models.IndexSchemaValue.Validate", "case IndexTypeText"),
  ("models.IndexSchemaValue.Validate", "case IndexTypeString"),
  ("models.IndexSchemaValue.Validate", "case IndexTypeStringArray"),
  ("models.IndexSchemaValue.Validate", "case IndexTypeInteger"),
  ("models.IndexSchemaValue.Validate", "case IndexTypeFloat"),
  ("models.IndexSchemaValue.Validate", "default"),
  ("models.IndexSchemaValue.Validate", "if v1.VectorFlat == nil"),
  ("models.IndexSchemaValue.Validate", "if v1.VectorVamana == nil"),
  ("models.IndexSchemaValue.Validate", "if v1.Text == nil"),
  ("models.IndexSchemaValue.Validate", "if v1.String == nil"),
  ("models.IndexSchemaValue.Validate", "if v1.StringArray == nil"),
  ("models.convertToVector", "typeswitch v3 := v1.(type)"),
  ("models.convertToVector", "case []float32"),
  ("models.convertToVector", "case []float64"),
  ("models.convertToVector", "case []any"),
  ("models.convertToVector", "default"),
  ("models.convertToVector", "typeswitch v8 := v7.(type)"),
  ("models.convertToVector", "case float32"),
  ("models.convertToVector", "case float64"),
  ("models.convertToVector", "default"),
  ("models.IndexSchema.CheckCompatibleMap", "if !v13"),
  ("models.IndexSchema.CheckCompatibleMap", "if v10 == len(v5)-1"),
  ("models.IndexSchema.CheckCompatibleMap", "if v15"),
  ("models.IndexSchema.CheckCompatibleMap", "if v17"),
  ("models.IndexSchema.CheckCompatibleMap", "if v9"),
  ("models.IndexSchema.CheckCompatibleMap", "switch v4.Type"),
  ("models.IndexSchema.CheckCompatibleMap", "case IndexTypeVectorFlat"),
  ("models.IndexSchema.CheckCompatibleMap", "case IndexTypeVectorVamana"),
  ("models.IndexSchema.CheckCompatibleMap", "case IndexTypeText"),
  ("models.IndexSchema.CheckCompatibleMap", "case IndexTypeString"),
  ("models.IndexSchema.CheckCompatibleMap", "case IndexTypeInteger"),
  ("models.IndexSchema.CheckCompatibleMap", "case IndexTypeFloat"),
  ("models.IndexSchema.CheckCompatibleMap", "case IndexTypeStringArray"),
  ("models.IndexSchema.CheckCompatibleMap", "if v19 != nil"),
  ("models.IndexSchema.CheckCompatibleMap", "if v4.VectorFlat == nil"),
  ("models.IndexSchema.CheckCompatibleMap", "if len(v18) != int(v4.VectorFlat.VectorSize)"),
  ("models.IndexSchema.CheckCompatibleMap", "if v21 != nil"),
  ("models.IndexSchema.CheckCompatibleMap", "if v4.VectorVamana == nil"),
  ("models.IndexSchema.CheckCompatibleMap", "if len(v20) != int(v4.VectorVamana.VectorSize)"),
  ("models.IndexSchema.CheckCompatibleMap", "if !v22"),
  ("models.IndexSchema.CheckCompatibleMap", "typeswitch v23 := v8.(type)"),
  ("models.IndexSchema.CheckCompatibleMap", "case int64"),
  ("models.IndexSchema.CheckCompatibleMap", "case int"),
  ("models.IndexSchema.CheckCompatibleMap", "case int32"),
  ("models.IndexSchema.CheckCompatibleMap", "case uint"),
  ("models.IndexSchema.CheckCompatibleMap", "case uint32"),
  ("models.IndexSchema.CheckCompatibleMap", "case float32"),
  ("models.IndexSchema.CheckCompatibleMap", "case float64"),
  ("models.IndexSchema.CheckCompatibleMap", "default"),
  ("models.IndexSchema.CheckCompatibleMap", "typeswitch v24 := v8.(type)"),
  ("models.IndexSchema.CheckCompatibleMap", "case float64"),
  ("models.IndexSchema.CheckCompatibleMap", "case float32"),
  ("models.IndexSchema.CheckCompatibleMap", "default"),
  ("models.IndexSchema.CheckCompatibleMap", "typeswitch v25 := v8.(type)"),
  ("models.IndexSchema.CheckCompatibleMap", "case []string"),
  ("models.IndexSchema.CheckCompatibleMap", "case []any"),
  ("models.IndexSchema.CheckCompatibleMap", "default"),
  ("models.IndexSchema.CheckCompatibleMap", "if v30"),
  ("models.IndexVectorFlatParameters.Validate", "if v1.VectorSize < 1 || v1.VectorSize > 4096"),
  ("models.IndexVectorFlatParameters.Validate", "if v1.DistanceMetric != DistanceCosine && v1.DistanceMetric != DistanceDot && v1.DistanceMetric != DistanceEuclidean && v1.DistanceMetric != DistanceHamming && v1.DistanceMetric != DistanceHaversine && v1.DistanceMetric != DistanceJaccard"),
  ("models.IndexVectorFlatParameters.Validate", "if v1.DistanceMetric == DistanceHaversine && v1.VectorSize != 2"),
  ("models.IndexVectorFlatParameters.Validate", "if v1.Quantizer != nil"),
  ("models.IndexVectorFlatParameters.Validate", "if v2 != nil"),
  ("models.IndexVectorVamanaParameters.Validate", "if v1.VectorSize < 1 || v1.VectorSize > 4096"),
  ("models.IndexVectorVamanaParameters.Validate", "if v1.DistanceMetric != DistanceCosine && v1.DistanceMetric != DistanceDot && v1.DistanceMetric != DistanceEuclidean && v1.DistanceMetric != DistanceHamming && v1.DistanceMetric != DistanceHaversine && v1.DistanceMetric != DistanceJaccard"),
  ("models.IndexVectorVamanaParameters.Validate", "if v1.DistanceMetric == DistanceHaversine && v1.VectorSize != 2"),
  ("models.IndexVectorVamanaParameters.Validate", "if v1.SearchSize < 25 || v1.SearchSize > 75"),
  ("models.IndexVectorVamanaParameters.Validate", "if v1.DegreeBound < 32 || v1.DegreeBound > 64"),
  ("models.IndexVectorVamanaParameters.Validate", "if v1.Alpha < 1.1 || v1.Alpha > 1.5"),
  ("models.IndexVectorVamanaParameters.Validate", "if v1.Quantizer != nil"),
  ("models.IndexVectorVamanaParameters.Validate", "if v2 != nil"),
  ("models.IndexTextParameters.Validate", "if v1.Analyser != \"standard\""),
  ("models.Quantizer.Validate", "switch v1.Type"),
  ("models.Quantizer.Validate", "case QuantizerNone"),
  ("models.Quantizer.Validate", "case QuantizerBinary"),
  ("models.Quantizer.Validate", "case QuantizerProduct"),
  ("models.Quantizer.Validate", "default"),
  ("models.Quantizer.Validate", "if v1.Binary == nil"),
  ("models.Quantizer.Validate", "if v1.Product == nil"),
  ("models.Quantizer.ValidateFor", "if v1.Type != QuantizerProduct || v1.Product == nil"),
  ("models.Quantizer.ValidateFor", "switch v3"),
  ("models.Quantizer.ValidateFor", "case DistanceHamming, DistanceJaccard"),
  ("models.Quantizer.ValidateFor", "case DistanceEuclidean, DistanceCosine, DistanceDot"),
  ("models.Quantizer.ValidateFor", "default"),
  ("models.Quantizer.ValidateFor", "if v2%uint(v1.Product.NumSubVectors) != 0"),
  ("models.BinaryQuantizerParamaters.Validate", "if v1.Threshold == nil && (v1.TriggerThreshold < 0 || v1.TriggerThreshold > 50000)"),
  ("models.BinaryQuantizerParamaters.Validate", "if v1.DistanceMetric != DistanceHamming && v1.DistanceMetric != DistanceJaccard"),
  ("models.ProductQuantizerParameters.Validate", "if v1.NumCentroids < 2 || v1.NumCentroids > 256"),
  ("models.ProductQuantizerParameters.Validate", "if v1.NumSubVectors < 2"),
  ("models.ProductQuantizerParameters.Validate", "if v1.TriggerThreshold < 1000 || v1.TriggerThreshold > 10000"),
  ("models.SearchRequest.Validate", "if v2 != nil"),
  ("models.SearchRequest.Validate", "if len(v1.Sort) > 10"),
  ("models.SearchRequest.Validate", "if v4 != nil"),
  ("models.SearchRequest.Validate", "if v1.Offset < 0"),
  ("models.SearchRequest.Validate", "if v1.Limit < 1 || v1.Limit > 100"),
  ("models.Query.Validate", "if len(v1.Property) == 0"),
  ("models.Query.Validate", "if v1.VectorFlat != nil"),
  ("models.Query.Validate", "if v2 != nil"),
  ("models.Query.Validate", "if v1.VectorVamana != nil"),
  ("models.Query.Validate", "if v3 != nil"),
  ("models.Query.Validate", "if v1.Text != nil"),
  ("models.Query.Validate", "if v4 != nil"),
  ("models.Query.Validate", "if v1.String != nil"),
  ("models.Query.Validate", "if v5 != nil"),
  ("models.Query.Validate", "if v1.Integer != nil"),
  ("models.Query.Validate", "if v6 != nil"),
  ("models.Query.Validate", "if v1.Float != nil"),
  ("models.Query.Validate", "if v7 != nil"),
  ("models.Query.Validate", "if v1.StringArray != nil"),
  ("models.Query.Validate", "if v8 != nil"),
  ("models.Query.Validate", "if len(v1.And) == 0 && v1.Property == \"_and\""),
  ("models.Query.Validate", "if len(v1.Or) == 0 && v1.Property == \"_or\""),
  ("models.Query.Validate", "if len(v1.And) > 0"),
  ("models.Query.Validate", "if v11 != nil"),
  ("models.Query.Validate", "if len(v1.Or) > 0"),
  ("models.Query.Validate", "if v14 != nil"),
  ("models.Query.Validate", "if v1.Property == \"_id\""),
  ("models.Query.Validate", "switch "),
  ("models.Query.Validate", "case v1.String != nil"),
  ("models.Query.Validate", "case v1.StringArray != nil"),
  ("models.Query.Validate", "default"),
  ("models.Query.Validate", "if v1.String.Operator != OperatorEquals"),
  ("models.Query.Validate", "if v15 != nil"),
  ("models.Query.Validate", "if v1.StringArray.Operator != OperatorContainsAny"),
  ("models.Query.Validate", "if v17 != nil"),
  ("models.Query.ValidateSchema", "switch v1.Property"),
  ("models.Query.ValidateSchema", "case \"_and\""),
  ("models.Query.ValidateSchema", "case \"_or\""),
  ("models.Query.ValidateSchema", "case \"_id\""),
  ("models.Query.ValidateSchema", "if v4 != nil"),
  ("models.Query.ValidateSchema", "if v6 != nil"),
  ("models.Query.ValidateSchema", "if !v8"),
  ("models.Query.ValidateSchema", "switch v7.Type"),
  ("models.Query.ValidateSchema", "case IndexTypeVectorFlat"),
  ("models.Query.ValidateSchema", "case IndexTypeVectorVamana"),
  ("models.Query.ValidateSchema", "case IndexTypeText"),
  ("models.Query.ValidateSchema", "case IndexTypeString"),
  ("models.Query.ValidateSchema", "case IndexTypeStringArray"),
  ("models.Query.ValidateSchema", "case IndexTypeInteger"),
  ("models.Query.ValidateSchema", "case IndexTypeFloat"),
  ("models.Query.ValidateSchema", "default"),
  ("models.Query.ValidateSchema", "if v1.VectorFlat == nil"),
  ("models.Query.ValidateSchema", "if len(v1.VectorFlat.Vector) != int(v7.VectorFlat.VectorSize)"),
  ("models.Query.ValidateSchema", "if v1.VectorFlat.Filter != nil"),
  ("models.Query.ValidateSchema", "if v9 != nil"),
  ("models.Query.ValidateSchema", "if v1.VectorVamana == nil"),
  ("models.Query.ValidateSchema", "if len(v1.VectorVamana.Vector) != int(v7.VectorVamana.VectorSize)"),
  ("models.Query.ValidateSchema", "if v1.VectorVamana.Filter != nil"),
  ("models.Query.ValidateSchema", "if v10 != nil"),
  ("models.Query.ValidateSchema", "if v1.Text == nil"),
  ("models.Query.ValidateSchema", "if v1.Text.Filter != nil"),
  ("models.Query.ValidateSchema", "if v11 != nil"),
  ("models.Query.ValidateSchema", "if v1.String == nil"),
  ("models.Query.ValidateSchema", "if v1.StringArray == nil"),
  ("models.Query.ValidateSchema", "if v1.Integer == nil"),
  ("models.Query.ValidateSchema", "if v1.Float == nil"),
  ("models.SortOption.Validate", "if len(v1.Property) == 0"),
  ("models.SearchVectorVamanaOptions.Validate", "if len(v1.Vector) < 1 || len(v1.Vector) > 4096"),
  ("models.SearchVectorVamanaOptions.Validate", "if v1.Operator != OperatorNear"),
  ("models.SearchVectorVamanaOptions.Validate", "if v1.SearchSize < 25 || v1.SearchSize > 75"),
  ("models.SearchVectorVamanaOptions.Validate", "if v1.Limit < 1 || v1.Limit > 75"),
  ("models.SearchVectorVamanaOptions.Validate", "if v1.SearchSize < v1.Limit"),
  ("models.SearchVectorVamanaOptions.Validate", "if v1.Filter != nil"),
  ("models.SearchVectorVamanaOptions.Validate", "if v2 != nil"),
  ("models.SearchVectorFlatOptions.Validate", "if len(v1.Vector) < 1 || len(v1.Vector) > 4096"),
  ("models.SearchVectorFlatOptions.Validate", "if v1.Operator != OperatorNear"),
  ("models.SearchVectorFlatOptions.Validate", "if v1.Limit < 1 || v1.Limit > 75"),
  ("models.SearchVectorFlatOptions.Validate", "if v1.Filter != nil"),
  ("models.SearchVectorFlatOptions.Validate", "if v2 != nil"),
  ("models.SearchTextOptions.Validate", "if len(v1.Value) == 0"),
  ("models.SearchTextOptions.Validate", "switch v1.Operator"),
  ("models.SearchTextOptions.Validate", "case OperatorContainsAll"),
  ("models.SearchTextOptions.Validate", "case OperatorContainsAny"),
  ("models.SearchTextOptions.Validate", "default"),
  ("models.SearchTextOptions.Validate", "if v1.Limit < 1 || v1.Limit > 75"),
  ("models.SearchTextOptions.Validate", "if v1.Filter != nil"),
  ("models.SearchTextOptions.Validate", "if v2 != nil"),
  ("models.SearchStringOptions.Validate", "if len(v1.Value) == 0"),
  ("models.SearchStringOptions.Validate", "switch v1.Operator"),
  ("models.SearchStringOptions.Validate", "case OperatorEquals, OperatorNotEquals, OperatorStartsWith"),
  ("models.SearchStringOptions.Validate", "case OperatorGreaterThan, OperatorGreaterOrEq"),
  ("models.SearchStringOptions.Validate", "case OperatorLessThan, OperatorLessOrEq"),
  ("models.SearchStringOptions.Validate", "case OperatorInRange"),
  ("models.SearchStringOptions.Validate", "default"),
  ("models.SearchStringOptions.Validate", "if v1.EndValue <= v1.Value"),
  ("models.SearchIntegerOptions.Validate", "switch v1.Operator"),
  ("models.SearchIntegerOptions.Validate", "case OperatorEquals, OperatorNotEquals"),
  ("models.SearchIntegerOptions.Validate", "case OperatorGreaterThan, OperatorGreaterOrEq"),
  ("models.SearchIntegerOptions.Validate", "case OperatorLessThan, OperatorLessOrEq"),
  ("models.SearchIntegerOptions.Validate", "case OperatorInRange"),
  ("models.SearchIntegerOptions.Validate", "default"),
  ("models.SearchIntegerOptions.Validate", "if v1.EndValue <= v1.Value"),
  ("models.SearchFloatOptions.Validate", "switch v1.Operator"),
  ("models.SearchFloatOptions.Validate", "case OperatorEquals, OperatorNotEquals"),
  ("models.SearchFloatOptions.Validate", "case OperatorGreaterThan, OperatorGreaterOrEq"),
  ("models.SearchFloatOptions.Validate", "case OperatorLessThan, OperatorLessOrEq"),
  ("models.SearchFloatOptions.Validate", "case OperatorInRange"),
  ("models.SearchFloatOptions.Validate", "default"),
  ("models.SearchFloatOptions.Validate", "if v1.EndValue <= v1.Value"),
  ("models.SearchStringArrayOptions.Validate", "if len(v1.Value) == 0"),
  ("models.SearchStringArrayOptions.Validate", "switch v1.Operator"),
  ("models.SearchStringArrayOptions.Validate", "case OperatorContainsAll"),
  ("models.SearchStringArrayOptions.Validate", "case OperatorContainsAny"),
  ("models.SearchStringArrayOptions.Validate", "default"),
  ("models.PointAsMap.ExtractIdField", "if !v4"),
  ("models.PointAsMap.ExtractIdField", "if v2"),
  ("models.PointAsMap.ExtractIdField", "if !v4"),
  ("models.PointAsMap.ExtractIdField", "if v7 != nil"),
  ("v2.CreateCollectionRequest.Validate", "if len(v1.Id) < 3 || len(v1.Id) > 24"),
  ("v2.CreateCollectionRequest.Validate", "if !((v2 <= '9' && v2 >= '0') || (v2 <= 'z' && v2 >= 'a'))"),
  ("v2.SemaDBHandlers.HandleCreateCollection", "if v5 != nil"),
  ("v2.SemaDBHandlers.HandleCreateCollection", "switch v9"),
  ("v2.SemaDBHandlers.HandleCreateCollection", "case nil"),
  ("v2.SemaDBHandlers.HandleCreateCollection", "case cluster.ErrQuotaReached"),
  ("v2.SemaDBHandlers.HandleCreateCollection", "case cluster.ErrExists"),
  ("v2.SemaDBHandlers.HandleCreateCollection", "default"),
  ("v2.SemaDBHandlers.HandleListCollections", "if v6 != nil"),
  ("v2.SemaDBHandlers.CollectionURIMiddleware", "if len(a3) < 3 || len(a3) > 24"),
  ("v2.SemaDBHandlers.CollectionURIMiddleware", "if a6 == cluster.ErrNotFound"),
  ("v2.SemaDBHandlers.CollectionURIMiddleware", "if a6 != nil"),
  ("v2.SemaDBHandlers.HandleGetCollection", "if errors.Is(v6, cluster.ErrShardUnavailable)"),
  ("v2.SemaDBHandlers.HandleGetCollection", "if v6 != nil"),
  ("v2.SemaDBHandlers.HandleDeleteCollection", "if v6 != nil"),
  ("v2.SemaDBHandlers.HandleDeleteCollection", "if len(v5) != len(v4.ShardIds)"),
  ("v2.InsertPointsRequest.Validate", "if len(v1.Points) < 1 || len(v1.Points) > 10000"),
  ("v2.SemaDBHandlers.HandleInsertPoints", "if v6 != nil"),
  ("v2.SemaDBHandlers.HandleInsertPoints", "if v11 != nil"),
  ("v2.SemaDBHandlers.HandleInsertPoints", "if v13 != nil"),
  ("v2.SemaDBHandlers.HandleInsertPoints", "if v13 != nil"),
  ("v2.SemaDBHandlers.HandleInsertPoints", "if len(v15) > v7.UserPlan.MaxPointSize"),
  ("v2.SemaDBHandlers.HandleInsertPoints", "if errors.Is(v6, cluster.ErrQuotaReached)"),
  ("v2.SemaDBHandlers.HandleInsertPoints", "if errors.Is(v6, cluster.ErrShardUnavailable)"),
  ("v2.SemaDBHandlers.HandleInsertPoints", "if v6 != nil"),
  ("v2.SemaDBHandlers.HandleInsertPoints", "if len(v18) > 0"),
  ("v2.UpdatePointsRequest.Validate", "if len(v1.Points) < 1 || len(v1.Points) > 100"),
  ("v2.SemaDBHandlers.HandleUpdatePoints", "if v5 != nil"),
  ("v2.SemaDBHandlers.HandleUpdatePoints", "if v11 != nil"),
  ("v2.SemaDBHandlers.HandleUpdatePoints", "if v13 != nil"),
  ("v2.SemaDBHandlers.HandleUpdatePoints", "if v11 != nil"),
  ("v2.SemaDBHandlers.HandleUpdatePoints", "if len(v14) > v6.UserPlan.MaxPointSize"),
  ("v2.SemaDBHandlers.HandleUpdatePoints", "if v5 != nil"),
  ("v2.SemaDBHandlers.HandleUpdatePoints", "if len(v17) > 0"),
  ("v2.DeletePointsRequest.Validate", "if len(v1.Ids) < 1 || len(v1.Ids) > 100"),
  ("v2.DeletePointsRequest.Validate", "if v4 != nil"),
  ("v2.SemaDBHandlers.HandleDeletePoints", "if v5 != nil"),
  ("v2.SemaDBHandlers.HandleDeletePoints", "if v5 != nil"),
  ("v2.SemaDBHandlers.HandleDeletePoints", "if len(v10) > 0"),
  ("v2.SemaDBHandlers.HandleSearchPoints", "if v5 != nil"),
  ("v2.SemaDBHandlers.HandleSearchPoints", "if v4.Limit == 0"),
  ("v2.SemaDBHandlers.HandleSearchPoints", "if v7 != nil"),
  ("v2.SemaDBHandlers.HandleSearchPoints", "if v5 != nil"),
  ("v2.SemaDBHandlers.HandleSearchPoints", "if v11.DecodedData == nil"),
  ("v2.SemaDBHandlers.HandleSearchPoints", "if len(v11.Point.Data) > 0"),
  ("v2.SemaDBHandlers.HandleSearchPoints", "if v13 != nil"),
  ("v2.SemaDBHandlers.HandleSearchPoints", "if v11.Distance != nil"),
  ("v2.SemaDBHandlers.HandleSearchPoints", "if v11.Score != nil"),
  ("v1.CreateCollectionRequest.Validate", "if len(v1.Id) < 3 || len(v1.Id) > 16"),
  ("v1.CreateCollectionRequest.Validate", "if !((v2 <= '9' && v2 >= '0') || (v2 <= 'Z' && v2 >= 'A') || (v2 <= 'z' && v2 >= 'a'))"),
  ("v1.CreateCollectionRequest.Validate", "if v1.VectorSize < 1 || v1.VectorSize > 4096"),
  ("v1.CreateCollectionRequest.Validate", "if v1.DistanceMetric != models.DistanceCosine && v1.DistanceMetric != models.DistanceDot && v1.DistanceMetric != models.DistanceEuclidean"),
  ("v1.SemaDBHandlers.HandleCreateCollection", "if v5 != nil"),
  ("v1.SemaDBHandlers.HandleCreateCollection", "switch v9"),
  ("v1.SemaDBHandlers.HandleCreateCollection", "case nil"),
  ("v1.SemaDBHandlers.HandleCreateCollection", "case cluster.ErrQuotaReached"),
  ("v1.SemaDBHandlers.HandleCreateCollection", "case cluster.ErrExists"),
  ("v1.SemaDBHandlers.HandleCreateCollection", "default"),
  ("v1.SemaDBHandlers.HandleListCollections", "if v6 != nil"),
  ("v1.SemaDBHandlers.HandleListCollections", "if !isV1Collection(v8)"),
  ("v1.SemaDBHandlers.CollectionURIMiddleware", "if len(a3) < 3 || len(a3) > 16"),
  ("v1.SemaDBHandlers.CollectionURIMiddleware", "if a6 == cluster.ErrNotFound"),
  ("v1.SemaDBHandlers.CollectionURIMiddleware", "if a6 != nil"),
  ("v1.SemaDBHandlers.CollectionURIMiddleware", "if !isV1Collection(a5)"),
  ("v1.SemaDBHandlers.HandleGetCollection", "if errors.Is(v6, cluster.ErrShardUnavailable)"),
  ("v1.SemaDBHandlers.HandleGetCollection", "if v6 != nil"),
  ("v1.SemaDBHandlers.HandleDeleteCollection", "if v6 != nil"),
  ("v1.SemaDBHandlers.HandleDeleteCollection", "if len(v5) != len(v4.ShardIds)"),
  ("v1.InsertSinglePointRequest.Validate", "if len(v1.Id) > 0"),
  ("v1.InsertSinglePointRequest.Validate", "if v2 != nil"),
  ("v1.InsertSinglePointRequest.Validate", "if len(v1.Vector) < 1 || len(v1.Vector) > 2000"),
  ("v1.InsertPointsRequest.Validate", "if len(v1.Points) < 1 || len(v1.Points) > 10000"),
  ("v1.InsertPointsRequest.Validate", "if v4 != nil"),
  ("v1.SemaDBHandlers.HandleInsertPoints", "if v6 != nil"),
  ("v1.SemaDBHandlers.HandleInsertPoints", "if len(v10.Vector) != int(v7.IndexSchema[\"vector\"].VectorVamana.VectorSize)"),
  ("v1.SemaDBHandlers.HandleInsertPoints", "if len(v10.Id) > 0"),
  ("v1.SemaDBHandlers.HandleInsertPoints", "if v14 != nil"),
  ("v1.SemaDBHandlers.HandleInsertPoints", "if v16 != nil"),
  ("v1.SemaDBHandlers.HandleInsertPoints", "if len(v15) > v7.UserPlan.MaxPointSize"),
  ("v1.SemaDBHandlers.HandleInsertPoints", "if errors.Is(v6, cluster.ErrQuotaReached)"),
  ("v1.SemaDBHandlers.HandleInsertPoints", "if errors.Is(v6, cluster.ErrShardUnavailable)"),
  ("v1.SemaDBHandlers.HandleInsertPoints", "if v6 != nil"),
  ("v1.SemaDBHandlers.HandleInsertPoints", "if len(v19) > 0"),
  ("v1.UpdateSinglePointRequest.Validate", "if v2 != nil"),
  ("v1.UpdateSinglePointRequest.Validate", "if len(v1.Vector) < 1 || len(v1.Vector) > 2000"),
  ("v1.UpdatePointsRequest.Validate", "if len(v1.Points) < 1 || len(v1.Points) > 100"),
  ("v1.UpdatePointsRequest.Validate", "if v4 != nil"),
  ("v1.SemaDBHandlers.HandleUpdatePoints", "if v5 != nil"),
  ("v1.SemaDBHandlers.HandleUpdatePoints", "if len(v9.Vector) != int(v6.IndexSchema[\"vector\"].VectorVamana.VectorSize)"),
  ("v1.SemaDBHandlers.HandleUpdatePoints", "if v12 != nil"),
  ("v1.SemaDBHandlers.HandleUpdatePoints", "if v14 != nil"),
  ("v1.SemaDBHandlers.HandleUpdatePoints", "if len(v13) > v6.UserPlan.MaxPointSize"),
  ("v1.SemaDBHandlers.HandleUpdatePoints", "if v5 != nil"),
  ("v1.SemaDBHandlers.HandleUpdatePoints", "if len(v17) > 0"),
  ("v1.DeletePointsRequest.Validate", "if len(v1.Ids) < 1 || len(v1.Ids) > 100"),
  ("v1.DeletePointsRequest.Validate", "if v4 != nil"),
  ("v1.SemaDBHandlers.HandleDeletePoints", "if v5 != nil"),
  ("v1.SemaDBHandlers.HandleDeletePoints", "if v5 != nil"),
  ("v1.SemaDBHandlers.HandleDeletePoints", "if len(v10) > 0"),
  ("v1.SearchPointsRequest.Validate", "if len(v1.Vector) < 1 || len(v1.Vector) > 2000"),
  ("v1.SearchPointsRequest.Validate", "if v1.Limit < 0 || v1.Limit > 75"),
  ("v1.SemaDBHandlers.HandleSearchPoints", "if v5 != nil"),
  ("v1.SemaDBHandlers.HandleSearchPoints", "if v4.Limit == 0"),
  ("v1.SemaDBHandlers.HandleSearchPoints", "if len(v4.Vector) != int(v6.IndexSchema[\"vector\"].VectorVamana.VectorSize)"),
  ("v1.SemaDBHandlers.HandleSearchPoints", "if v5 != nil"),
  ("v1.SemaDBHandlers.HandleSearchPoints", "if v12.Distance != nil"),
  ("utils.DecodeValid", "if a1 != nil"),
  ("utils.DecodeValid", "switch v5"),
  ("utils.DecodeValid", "case \"application/json\""),
  ("utils.DecodeValid", "case \"application/msgpack\""),
  ("utils.DecodeValid", "default"),
  ("utils.DecodeValid", "if v6 != nil"),
  ("utils.DecodeValid", "if v8 != nil"),
  ("utils.DecodeValid", "if v9 != nil"),
  ("utils.DecodeValid", "if v11 != nil"),
  ("utils.DecodeValid", "if v12 != nil"),
  ("middleware.AppHeaderMiddleware", "if a3.PlanId == \"\" || a3.UserId == \"\""),
  ("middleware.AppHeaderMiddleware", "if a3.UserId == \".\" || a3.UserId == \"..\" || strings.ContainsAny(a3.UserId, `/\\`)"),
  ("middleware.AppHeaderMiddleware", "if !a6"),
  ("cluster.ClusterNode.InsertPoints", "if v5 != nil"),
  ("cluster.ClusterNode.InsertPoints", "if v6+int64(len(v3)) > v2.UserPlan.MaxCollectionPointCount"),
  ("cluster.ClusterNode.InsertPoints", "if a3 != nil"),
  ("cluster.ClusterNode.InsertPoints", "if v5 != nil"),
  ("cluster.ClusterNode.InsertPoints", "if a7 != nil"),
  ("index.indexManager.Search", "switch v3.Property"),
  ("index.indexManager.Search", "case \"_and\""),
  ("index.indexManager.Search", "case \"_or\""),
  ("index.indexManager.Search", "case \"_id\""),
  ("index.indexManager.Search", "if !v5"),
  ("index.indexManager.Search", "if v9 != nil"),
  ("index.indexManager.Search", "switch v6"),
  ("index.indexManager.Search", "case models.IndexTypeVectorVamana"),
  ("index.indexManager.Search", "case models.IndexTypeVectorFlat"),
  ("index.indexManager.Search", "case models.IndexTypeText"),
  ("index.indexManager.Search", "case models.IndexTypeString"),
  ("index.indexManager.Search", "case models.IndexTypeStringArray"),
  ("index.indexManager.Search", "case models.IndexTypeInteger"),
  ("index.indexManager.Search", "case models.IndexTypeFloat"),
  ("index.indexManager.Search", "default"),
  ("index.indexManager.Search", "if v3.VectorVamana == nil"),
  ("index.indexManager.Search", "if v3.VectorVamana.Filter != nil"),
  ("index.indexManager.Search", "if v9 != nil"),
  ("index.indexManager.Search", "if a5 != nil"),
  ("index.indexManager.Search", "if v15 != nil"),
  ("index.indexManager.Search", "if v3.VectorFlat == nil"),
  ("index.indexManager.Search", "if v3.VectorFlat.Filter != nil"),
  ("index.indexManager.Search", "if v9 != nil"),
  ("index.indexManager.Search", "if a5 != nil"),
  ("index.indexManager.Search", "if v20 != nil"),
  ("index.indexManager.Search", "if v3.Text == nil"),
  ("index.indexManager.Search", "if v3.Text.Filter != nil"),
  ("index.indexManager.Search", "if v9 != nil"),
  ("index.indexManager.Search", "if v23 != nil"),
  ("index.indexManager.Search", "if v3.String == nil"),
  ("index.indexManager.Search", "if v3.StringArray == nil"),
  ("index.indexManager.Search", "if v3.Integer == nil"),
  ("index.indexManager.Search", "if v3.Float == nil"),
  ("index.indexManager.searchById", "if v4 != nil"),
  ("index.indexManager.searchById", "switch "),
  ("index.indexManager.searchById", "case v2.String != nil"),
  ("index.indexManager.searchById", "case v2.StringArray != nil"),
  ("index.indexManager.searchById", "default"),
  ("index.indexManager.searchById", "if v2.String.Operator != models.OperatorEquals"),
  ("index.indexManager.searchById", "if v2.StringArray.Operator != models.OperatorContainsAny"),
  ("index.indexManager.searchById", "if v9 != nil"),
  ("index.indexManager.searchById", "if v9 == nil"),
  ("cluster.ClusterNode.RPCCreateCollection", "if v2.Dest != v1.MyHostname"),
  ("cluster.ClusterNode.RPCCreateCollection", "if v5 != nil"),
  ("cluster.ClusterNode.RPCCreateCollection", "if a3 != nil"),
  ("cluster.ClusterNode.RPCCreateCollection", "if a2.Get(a4) != nil"),
  ("cluster.ClusterNode.RPCCreateCollection", "if a3 != nil"),
  ("cluster.ClusterNode.RPCCreateCollection", "if a6 >= v2.Collection.UserPlan.MaxCollections"),
  ("cluster.ClusterNode.RPCCreateCollection", "if a7 != nil")
] := rfl

end Sema.C18
