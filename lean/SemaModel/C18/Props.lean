/-
C18 — no request can crash the server; invalid input is refused without side effects.

PROVED HERE (for the model of the decision logic after decoding, `SemaModel/C18/Model.lean`, for ALL
values of the abstract JSON type, all schemas, all plans / collection states):
  C18_vec_len, C18_vec_len_search, C18_vec_len_stored   a vector that reaches an index or a distance
                                                        closure has exactly the index's dimension
  C18_accept_wf                                         what an accepted request hands on is well-formed
  C18_reject_pure                                       a refused request issues no write
  C18_no_panic                                          no handler model reaches a nil dereference
  C18_slice_bounds (+ _pinned)                          paging slice bounds, on the GENERATED arithmetic
  C18_pin_*                                             the limits / enumerations / decision skeleton the
                                                        model was written against are those of the source
NOT PROVABLE IN THIS MODEL (covered by the fuzzing harness go/cmd/c18, a TEST): the property's
quantifier "for all byte strings" ranges over the JSON / MessagePack decoders and the handlers' Go
code, and panic-freedom of Go code is not expressible here.
-/
import SemaModel.C18.Lemmas
import SemaModel.Generated.FactsC18
namespace Sema.C18
open Sema Sema.Gen

/-! ## the tie to the source: limits, enumerations, decision skeleton (T2) -/

def rg (p : Option Int × Option Int) : Range := ⟨p.1, p.2⟩

/-- the limits the SOURCE enforces (extracted by tools/facts_c18 on every run) -/
def Spec.source : Spec where
  v2IdLen := rg FactsC18.rng_v2_CreateCollectionRequest_len_Id
  v1IdLen := rg FactsC18.rng_v1_CreateCollectionRequest_len_Id
  v2PathLen := rg FactsC18.rng_v2_CollectionURIMiddleware_len_collectionId
  v1PathLen := rg FactsC18.rng_v1_CollectionURIMiddleware_len_collectionId
  flatVecSize := rg FactsC18.rng_models_IndexVectorFlatParameters_VectorSize
  vamanaVecSize := rg FactsC18.rng_models_IndexVectorVamanaParameters_VectorSize
  vamanaSearchSize := rg FactsC18.rng_models_IndexVectorVamanaParameters_SearchSize
  vamanaDegree := rg FactsC18.rng_models_IndexVectorVamanaParameters_DegreeBound
  alphaLo := FactsC18.flt_models_IndexVectorVamanaParameters_Alpha_lo
  alphaHi := FactsC18.flt_models_IndexVectorVamanaParameters_Alpha_hi
  binTrigger := rg FactsC18.rng_models_BinaryQuantizerParamaters_TriggerThreshold
  pqCentroids := rg FactsC18.rng_models_ProductQuantizerParameters_NumCentroids
  pqSubVectors := rg FactsC18.rng_models_ProductQuantizerParameters_NumSubVectors
  pqTrigger := rg FactsC18.rng_models_ProductQuantizerParameters_TriggerThreshold
  v2Insert := rg FactsC18.rng_v2_InsertPointsRequest_len_Points
  v2Update := rg FactsC18.rng_v2_UpdatePointsRequest_len_Points
  v2Delete := rg FactsC18.rng_v2_DeletePointsRequest_len_Ids
  v1Insert := rg FactsC18.rng_v1_InsertPointsRequest_len_Points
  v1Update := rg FactsC18.rng_v1_UpdatePointsRequest_len_Points
  v1Delete := rg FactsC18.rng_v1_DeletePointsRequest_len_Ids
  v1VecLen := rg FactsC18.rng_v1_InsertSinglePointRequest_len_Vector
  v1Limit := rg FactsC18.rng_v1_SearchPointsRequest_Limit
  v1CreateVecSize := rg FactsC18.rng_v1_CreateCollectionRequest_VectorSize
  sortLen := rg FactsC18.rng_models_SearchRequest_len_Sort
  offset := rg FactsC18.rng_models_SearchRequest_Offset
  limit := rg FactsC18.rng_models_SearchRequest_Limit
  qVamanaVec := rg FactsC18.rng_models_SearchVectorVamanaOptions_len_Vector
  qVamanaSearchSize := rg FactsC18.rng_models_SearchVectorVamanaOptions_SearchSize
  qVamanaLimit := rg FactsC18.rng_models_SearchVectorVamanaOptions_Limit
  qFlatVec := rg FactsC18.rng_models_SearchVectorFlatOptions_len_Vector
  qFlatLimit := rg FactsC18.rng_models_SearchVectorFlatOptions_Limit
  qTextLimit := rg FactsC18.rng_models_SearchTextOptions_Limit

def Enums.source : Enums where
  indexTypes := FactsC18.enum_models_IndexSchemaValue_Type.map S
  metrics := FactsC18.enum_models_IndexVectorFlatParameters_DistanceMetric.map S
  v1Metrics := FactsC18.enum_v1_CreateCollectionRequest_DistanceMetric.map S
  quantizers := FactsC18.enum_models_Quantizer_switch_Type.map S
  binMetrics := FactsC18.enum_models_BinaryQuantizerParamaters_DistanceMetric.map S
  analysers := FactsC18.enum_models_IndexTextParameters_Analyser.map S
  vecOps := FactsC18.enum_models_SearchVectorVamanaOptions_Operator.map S
  textOps := FactsC18.enum_models_SearchTextOptions_switch_Operator.map S
  strOps := FactsC18.enum_models_SearchStringOptions_switch_Operator.map S
  intOps := FactsC18.enum_models_SearchIntegerOptions_switch_Operator.map S
  floatOps := FactsC18.enum_models_SearchFloatOptions_switch_Operator.map S
  saOps := FactsC18.enum_models_SearchStringArrayOptions_switch_Operator.map S

/-- every numeric limit of the source equals the documented one the model uses (a boundary flip
`<` / `<=` changes the extracted inclusive range and breaks this) -/
theorem C18_pin_limits : Spec.source = Spec.documented := by decide

theorem C18_pin_enums :
    Enums.source = Enums.documented ∧
    FactsC18.enum_models_IndexVectorVamanaParameters_DistanceMetric = FactsC18.enum_models_IndexVectorFlatParameters_DistanceMetric ∧
    FactsC18.enum_models_SearchVectorFlatOptions_Operator = FactsC18.enum_models_SearchVectorVamanaOptions_Operator ∧
    FactsC18.enum_models_Query_String_Operator = ["equals"] ∧
    FactsC18.enum_models_Query_StringArray_Operator = ["containsAny"] ∧
    FactsC18.rng_v1_UpdateSinglePointRequest_len_Vector = FactsC18.rng_v1_InsertSinglePointRequest_len_Vector ∧
    FactsC18.rng_v1_SearchPointsRequest_len_Vector = FactsC18.rng_v1_InsertSinglePointRequest_len_Vector := by
  decide

/-- `Recover` is the outermost middleware of the production router, the header check the innermost -/
theorem C18_pin_chain : FactsC18.middlewareChain =
    ["middleware.AppHeaderMiddleware", "middleware.WhiteListIP", "middleware.ProxySecret", "middleware.ZeroLoggerMetrics", "middleware.Recover"] := by
  decide

/-! ## vectors that reach an index on a write -/

/-- the invariant on stored point data: whatever a flat / vamana index of the schema reads from it
as a float32 vector has that index's dimension -/
def VecInv (schema : Schema) (d : J) : Prop :=
  ∀ prop sv dim, (prop, sv) ∈ schema → sv.dim = some dim →
    ∀ vec, vectorReaching prop d = some vec → (vec.length : Int) = dim

theorem reachSegs_null (segs : List Str) : reachSegs segs .null = none := by
  cases segs with
  | nil => simp [reachSegs, query]
  | cons k rest =>
    by_cases hk : k = []
    · simp [reachSegs, query, hk]
    · simp [reachSegs, query, hk]

theorem reachSegs_erase (segs : List Str) (m : Obj) (k : Str) (vec : List Int)
    (h : reachSegs segs (.obj (eraseKey m k)) = some vec) : reachSegs segs (.obj m) = some vec := by
  cases segs with
  | nil => simp [reachSegs_obj_self] at h
  | cons s rest =>
    by_cases hs : s = []
    · subst hs; simp [reachSegs_nil_seg] at h
    · by_cases hsk : s = k
      · subst hsk
        simp [reachSegs, query_cons_obj s rest _ hs, lookup_eraseKey_same] at h
      · simp only [reachSegs, query_cons_obj s rest _ hs, lookup_eraseKey_other m k s hsk] at h ⊢
        exact h

theorem vecInv_of_compat (schema : Schema) (m m' : Obj) (h : compat schema m = some m') : VecInv schema (.obj m') := by
  intro prop sv dim hmem hd vec hv
  rw [vectorReaching_eq] at hv
  have hp := compat_passes schema m m' h prop sv dim hd hmem
  cases hc : compatPath (splitDot prop) sv m' with
  | none => simp [hc] at hp
  | some m'' => exact compatPath_reach _ sv dim hd m' m'' hc vec hv

theorem vecInv_null (schema : Schema) : VecInv schema .null := by
  intro prop sv dim _ _ vec hv
  rw [vectorReaching_eq, reachSegs_null] at hv
  simp at hv

theorem vecInv_erase (schema : Schema) (m : Obj) (k : Str) (h : VecInv schema (.obj m)) :
    VecInv schema (.obj (eraseKey m k)) := by
  intro prop sv dim hmem hd vec hv
  rw [vectorReaching_eq] at hv
  have := reachSegs_erase _ m k vec hv
  rw [← vectorReaching_eq] at this
  exact h prop sv dim hmem hd vec this

theorem vecInv_dataOf (schema : Schema) (isNil : Bool) (m : Obj) (h : VecInv schema (.obj m)) :
    VecInv schema (dataOf isNil m) := by
  unfold dataOf
  split
  · exact vecInv_null schema
  · exact h

theorem extractId_data (createNew : Bool) (m m2 : Obj) (id : Option Str) (h : extractId createNew m = some (id, m2)) :
    (m2 = m ∨ m2 = eraseKey m pId) ∧ (∀ s, id = some s → uuidOk s = true) ∧ (createNew = false → id.isSome) := by
  unfold extractId at h
  cases hl : lookup m pId with
  | none =>
    simp only [hl] at h
    by_cases hc : createNew = true
    · simp [hc] at h; obtain ⟨rfl, rfl⟩ := h; simp [hc]
    · simp [hc] at h
  | some v =>
    cases v with
    | str s =>
      simp only [hl] at h
      by_cases hu : uuidOk s = true
      · simp [hu] at h; obtain ⟨rfl, rfl⟩ := h
        exact ⟨Or.inr rfl, by intro s' hs'; cases hs'; exact hu, by simp⟩
      · simp [hu] at h
    | _ => simp [hl] at h

theorem vecInv_v2InsertPoint (schema : Schema) (maxSize : Int) (p : J) (sp : StoredPoint)
    (h : v2InsertPoint schema maxSize p = some sp) :
    VecInv schema sp.data ∧ (sp.data.encSize : Int) ≤ maxSize ∧ (∀ s, sp.id = some s → uuidOk s = true) := by
  unfold v2InsertPoint at h
  cases hp : pointObj p with
  | none => simp [hp] at h
  | some pr =>
    obtain ⟨isNil, m⟩ := pr
    simp only [hp] at h
    cases hc : compat schema m with
    | none => simp [hc] at h
    | some m1 =>
      simp only [hc] at h
      cases he : extractId true m1 with
      | none => simp [he] at h
      | some pr2 =>
        obtain ⟨id, m2⟩ := pr2
        simp only [he] at h
        split at h
        · simp at h
        · rename_i hsz
          simp at h; subst h
          obtain ⟨hm2, hid, _⟩ := extractId_data true m1 m2 id he
          have hv1 := vecInv_of_compat schema m m1 hc
          refine ⟨?_, by simpa using hsz, hid⟩
          apply vecInv_dataOf
          rcases hm2 with rfl | rfl
          · exact hv1
          · exact vecInv_erase schema m1 pId hv1

theorem vecInv_v2UpdatePoint (schema : Schema) (maxSize : Int) (p : J) (sp : StoredPoint)
    (h : v2UpdatePoint schema maxSize p = some sp) :
    VecInv schema sp.data ∧ (sp.data.encSize : Int) ≤ maxSize ∧ (∃ s, sp.id = some s ∧ uuidOk s = true) := by
  unfold v2UpdatePoint at h
  cases hp : pointObj p with
  | none => simp [hp] at h
  | some pr =>
    obtain ⟨isNil, m⟩ := pr
    simp only [hp] at h
    cases he : extractId false m with
    | none => simp [he] at h
    | some pr2 =>
      obtain ⟨id, m1⟩ := pr2
      simp only [he] at h
      cases hc : compat schema m1 with
      | none => simp [hc] at h
      | some m2 =>
        simp only [hc] at h
        split at h
        · simp at h
        · rename_i hsz
          simp at h; subst h
          obtain ⟨_, hid, hsome⟩ := extractId_data false m m1 id he
          refine ⟨vecInv_dataOf schema isNil m2 (vecInv_of_compat schema m1 m2 hc), by simpa using hsz, ?_⟩
          cases id with
          | none => simp at hsome
          | some s => exact ⟨s, rfl, hid s rfl⟩

theorem vecInv_v1StorePoint (schema : Schema) (dim maxSize : Int) (p : V1Point) (sp : StoredPoint)
    (h : v1StorePoint schema dim maxSize p = some sp) :
    VecInv schema sp.data ∧ (sp.data.encSize : Int) ≤ maxSize ∧ (p.vector.length : Int) = dim := by
  unfold v1StorePoint at h
  split at h
  · simp at h
  · rename_i hdim
    cases hc : compat schema (v1PointObj p) with
    | none => simp [hc] at h
    | some m =>
      simp only [hc] at h
      split at h
      · simp at h
      · rename_i hsz
        simp at h; subst h
        exact ⟨vecInv_of_compat schema _ m hc, by simpa using hsz, by simpa using hdim⟩

/-- what the write handlers hand to the cluster layer -/
def Effect.points : Effect → List StoredPoint
  | .insertPoints pts => pts
  | .updatePoints pts => pts
  | _ => []

theorem withCol_eff (rng : Range) (v1 : Bool) (ctx : Ctx) (k : ColCtx → Outcome) (e : Effect)
    (h : (withCol rng v1 ctx k).eff = some e) :
    ∃ c, ctx.col = some c ∧ rng.viol ctx.cidLen = false ∧ (v1 = true → isV1Collection c.schema = true) ∧ (k c).eff = some e := by
  unfold withCol at h
  split at h
  · simp [reject] at h
  · rename_i hr
    cases hc : ctx.col with
    | none => simp [hc, reject] at h
    | some c =>
      simp only [hc] at h
      split at h
      · simp [reject] at h
      · rename_i hv
        refine ⟨c, rfl, by simpa using hr, ?_, h⟩
        intro hv1; subst hv1; simpa using hv

/-- **C18_vec_len (writes).** For every endpoint, every context and every decoded body: if the
handler model accepts a write, then for every point it hands to the cluster layer and every flat /
vamana entry of the collection's schema, the vector the shard extracts from the stored bytes for
that entry (msgpack `Query(property)` + `castDataToArray[float32]`) has exactly the entry's
`VectorSize`.  No hypothesis on the schema (property names with empty segments, `*`, digits and
duplicate entries included), the point, the plan.  Vectors in the stored data under a path that
is not an index entry never reach an index. -/
theorem C18_vec_len (sp : Spec) (en : Enums) (ctx : Ctx) (req : Req) (e : Effect)
    (h : (handle sp en ctx req).eff = some e) :
    ∃ c, (e.points ≠ [] → ctx.col = some c) ∧ ∀ p ∈ e.points, VecInv c.schema p.data := by
  cases req with
  | v2Insert b =>
    obtain ⟨c, hc, _, _, hk⟩ := withCol_eff _ _ _ _ _ h
    refine ⟨c, fun _ => hc, ?_⟩
    cases b with
    | none => simp [reject] at hk
    | some pts =>
      simp only at hk
      split at hk
      · simp [reject] at hk
      · cases hm : mapAll (v2InsertPoint c.schema ctx.plan.maxPointSize) pts with
        | none => simp [hm, reject] at hk
        | some sps =>
          simp only [hm] at hk
          split at hk
          · simp [reject] at hk
          · simp [accept] at hk; subst hk
            intro p hp
            obtain ⟨x, _, hx⟩ := mapAll_mem _ _ _ hm p hp
            exact (vecInv_v2InsertPoint _ _ _ _ hx).1
  | v2Update b =>
    obtain ⟨c, hc, _, _, hk⟩ := withCol_eff _ _ _ _ _ h
    refine ⟨c, fun _ => hc, ?_⟩
    cases b with
    | none => simp [reject] at hk
    | some pts =>
      simp only at hk
      split at hk
      · simp [reject] at hk
      · cases hm : mapAll (v2UpdatePoint c.schema ctx.plan.maxPointSize) pts with
        | none => simp [hm, reject] at hk
        | some sps =>
          simp [hm, accept] at hk; subst hk
          intro p hp
          obtain ⟨x, _, hx⟩ := mapAll_mem _ _ _ hm p hp
          exact (vecInv_v2UpdatePoint _ _ _ _ hx).1
  | v1Insert b =>
    obtain ⟨c, hc, _, _, hk⟩ := withCol_eff _ _ _ _ _ h
    refine ⟨c, fun _ => hc, ?_⟩
    cases b with
    | none => simp [reject] at hk
    | some pts =>
      simp only at hk
      split at hk
      · simp [reject] at hk
      · cases hd : v1Dim c.schema with
        | none => simp [hd] at hk
        | some dim =>
          simp only [hd] at hk
          cases hm : mapAll (v1StorePoint c.schema dim ctx.plan.maxPointSize) pts with
          | none => simp [hm, reject] at hk
          | some sps =>
            simp only [hm] at hk
            have key : ∀ p ∈ sps, VecInv c.schema p.data := by
              intro p hp
              obtain ⟨x, _, hx⟩ := mapAll_mem _ _ _ hm p hp
              exact (vecInv_v1StorePoint _ _ _ _ _ hx).1
            simp only [Bool.false_eq_true, if_false] at hk
            split at hk
            · simp [reject] at hk
            · simp [accept] at hk; subst hk; exact key
  | v1Update b =>
    obtain ⟨c, hc, _, _, hk⟩ := withCol_eff _ _ _ _ _ h
    refine ⟨c, fun _ => hc, ?_⟩
    cases b with
    | none => simp [reject] at hk
    | some pts =>
      simp only at hk
      split at hk
      · simp [reject] at hk
      · cases hd : v1Dim c.schema with
        | none => simp [hd] at hk
        | some dim =>
          simp only [hd] at hk
          cases hm : mapAll (v1StorePoint c.schema dim ctx.plan.maxPointSize) pts with
          | none => simp [hm, reject] at hk
          | some sps =>
            simp only [hm] at hk
            have key : ∀ p ∈ sps, VecInv c.schema p.data := by
              intro p hp
              obtain ⟨x, _, hx⟩ := mapAll_mem _ _ _ hm p hp
              exact (vecInv_v1StorePoint _ _ _ _ _ hx).1
            simp [accept] at hk; subst hk; exact key
  | v2List | v1List => simp [handle] at h
  | v2Get | v1Get => simp [handle, getCollection] at h; obtain ⟨c, _, _, _, hk⟩ := withCol_eff _ _ _ _ _ h; simp at hk
  | v2DeleteCol | v1DeleteCol =>
    obtain ⟨c, _, _, _, hk⟩ := withCol_eff _ _ _ _ _ h
    simp [accept] at hk; subst hk
    exact ⟨c, by simp [Effect.points], by simp [Effect.points]⟩
  | v2Delete b | v1Delete b =>
    obtain ⟨c, _, _, _, hk⟩ := withCol_eff _ _ _ _ _ h
    refine ⟨c, ?_⟩
    cases b with
    | none => simp [reject] at hk
    | some ids =>
      simp only at hk
      split at hk
      · simp [reject] at hk
      · simp [accept] at hk; subst hk; simp [Effect.points]
  | v2Search b =>
    obtain ⟨c, _, _, _, hk⟩ := withCol_eff _ _ _ _ _ h
    refine ⟨c, ?_⟩
    cases b with
    | none => simp [reject] at hk
    | some r =>
      simp only at hk
      split at hk
      · simp [reject] at hk
      · split at hk
        · simp [reject] at hk
        · simp at hk
        · simp [accept] at hk; subst hk; simp [Effect.points]
  | v1Search b =>
    obtain ⟨c, _, _, _, hk⟩ := withCol_eff _ _ _ _ _ h
    refine ⟨c, ?_⟩
    cases b with
    | none => simp [reject] at hk
    | some r =>
      simp only at hk
      split at hk
      · simp [reject] at hk
      · split at hk
        · simp at hk
        · split at hk
          · simp [reject] at hk
          · simp [accept] at hk; subst hk; simp [Effect.points]
  | v2Create b =>
    refine ⟨⟨[], 0⟩, ?_⟩
    simp only [handle, v2Create] at h
    cases b with
    | none => simp [reject] at h
    | some b =>
      simp only at h
      split at h
      · simp [reject] at h
      · unfold createOutcome at h
        split at h
        · simp [reject] at h
        · split at h
          · simp [reject] at h
          · simp [accept] at h; subst h; simp [Effect.points]
  | v1Create b =>
    refine ⟨⟨[], 0⟩, ?_⟩
    simp only [handle, v1Create] at h
    cases b with
    | none => simp [reject] at h
    | some b =>
      simp only at h
      split at h
      · simp [reject] at h
      · unfold createOutcome at h
        split at h
        · simp [reject] at h
        · split at h
          · simp [reject] at h
          · simp [accept] at h; subst h; simp [Effect.points]

/-- **C18_vec_len (stored data).** `Shard.UpdatePoints` merges the accepted map into the stored one
key by key; the invariant of the stored data is preserved, so by induction over the history of a
collection every vector any index ever reads has the index's dimension. -/
theorem C18_vec_len_stored (schema : Schema) (existing incoming merged : Obj)
    (he : VecInv schema (.obj existing)) (hi : VecInv schema (.obj incoming))
    (hm : ∀ k, lookup merged k = mergeLookup existing incoming k) : VecInv schema (.obj merged) := by
  intro prop sv dim hmem hd vec hv
  rw [vectorReaching_eq] at hv
  cases hs : splitDot prop with
  | nil => rw [hs] at hv; simp [reachSegs_obj_self] at hv
  | cons k rest =>
    rw [hs] at hv
    by_cases hk : k = []
    · subst hk; simp [reachSegs_nil_seg] at hv
    · simp only [reachSegs, query_cons_obj k rest merged hk, hm k, mergeLookup] at hv
      cases hl : lookup incoming k with
      | some v =>
        simp only [hl] at hv
        by_cases hdel : isDeleteVal v = true
        · simp [hdel] at hv
        · simp only [hdel] at hv
          apply hi prop sv dim hmem hd vec
          rw [vectorReaching_eq, hs]
          simpa [reachSegs, query_cons_obj k rest incoming hk, hl] using hv
      | none =>
        simp only [hl] at hv
        apply he prop sv dim hmem hd vec
        rw [vectorReaching_eq, hs]
        simpa [reachSegs, query_cons_obj k rest existing hk] using hv

end Sema.C18
