/-
C18, round 4 — two classes of requests the handler model decides and the fuzzer's deterministic probes
(`go/cmd/c18/probe.go`: `enumSweep`, `depthSweep`) send to the real server:

  * ENUM-TYPED FIELDS.  A field that the documented schema restricts to a fixed set of strings (index `type`,
    `distanceMetric` of flat / vamana parameters and of the binary quantizer, quantizer `type`, text `analyser`,
    the v1 `distanceMetric`, the `operator` of all seven kinds of query options) and whose decoded value is not
    in the set — the empty string, which is what the decoders leave for a field that is missing, `null` or `""`,
    included — makes the request a refused one: 400, nothing handed on.   `C18_enum_missing_refused`
  * DEPTH.  `Query.Validate`, `Query.ValidateSchema` (and `indexManager.Search`) recurse through five sites:
    the `_and` list, the `_or` list, the `filter` of vectorFlat / vectorVamana / text options.  Nothing in the
    model counts levels: a search is answered the same below ANY number of well-formed levels
    (`C18_depth_transparent`, `C18_depth_status`), and a sub-query that fails schema validation anywhere in the
    executed part — below any number of levels, well-formed or not — makes the request a refused one
    (`C18_deep_bad_refused`).
-/
import SemaModel.C18.Lemmas
namespace Sema.C18
open Sema

/-! ## enum-typed fields -/

def optAny (f : α → Bool) : Option α → Bool
  | none => false
  | some x => f x

mutual
/-- somewhere in the query — in ANY option block (executed or not), in the filter of a block, in either list,
at any depth — an `operator` is not in the accepted set of its kind of options -/
def Query.badOp (en : Enums) : Query → Bool
  | .mk _ flat vamana text string integer float stringArray ff vf tf and or =>
    optAny (fun o => !en.vecOps.contains o.operator) flat ||
    optAny (fun o => !en.vecOps.contains o.operator) vamana ||
    optAny (fun o => !en.textOps.contains o.operator) text ||
    optAny (fun o => !en.strOps.contains o.operator) string ||
    optAny (fun o => !en.intOps.contains o.operator) integer ||
    optAny (fun o => !en.floatOps.contains o.operator) float ||
    optAny (fun o => !en.saOps.contains o.operator) stringArray ||
    badOpO en ff || badOpO en vf || badOpO en tf || badOpL en and || badOpL en or
def badOpL (en : Enums) : List Query → Bool
  | [] => false
  | q :: qs => q.badOp en || badOpL en qs
def badOpO (en : Enums) : Option Query → Bool
  | none => false
  | some q => q.badOp en
end

theorem optAll_optAny {α} {f g : α → Bool} (hfg : ∀ x, f x = true → g x = false) (o : Option α)
    (h : optAll f o = true) : optAny g o = false := by
  cases o with
  | none => rfl
  | some x => exact hfg x h

mutual
/-- `Query.Validate` accepts no query that carries an operator outside its set -/
theorem valid_noBadOp (sp : Spec) (en : Enums) : (q : Query) → q.valid sp en = true → q.badOp en = false
  | .mk property flat vamana text string integer float stringArray ff vf tf and or => by
    intro hv
    unfold Query.valid at hv
    simp only [Bool.and_eq_true, and_assoc] at hv
    obtain ⟨_, hflat, hff, hvam, hvf, htext, htf, hstr, hint, hflt, hsa, _, _, hand, hor, _⟩ := hv
    have e1 := optAll_optAny (g := fun o => !en.vecOps.contains o.operator)
      (by intro o ho; simp only [flatOptsValid, Bool.and_eq_true] at ho; show (!_) = false; rw [ho.1.2]; rfl) flat hflat
    have e2 := optAll_optAny (g := fun o => !en.vecOps.contains o.operator)
      (by intro o ho; simp only [vamanaOptsValid, Bool.and_eq_true] at ho; show (!_) = false; rw [ho.1.1.1.2]; rfl) vamana hvam
    have e3 := optAll_optAny (g := fun o => !en.textOps.contains o.operator)
      (by intro o ho; simp only [textOptsValid, Bool.and_eq_true] at ho; show (!_) = false; rw [ho.1.2]; rfl) text htext
    have e4 := optAll_optAny (g := fun o => !en.strOps.contains o.operator)
      (by intro o ho; simp only [strOptsValid, Bool.and_eq_true] at ho; show (!_) = false; rw [ho.1.2]; rfl) string hstr
    have e5 := optAll_optAny (g := fun o => !en.intOps.contains o.operator)
      (by intro o ho; simp only [intOptsValid, Bool.and_eq_true] at ho; show (!_) = false; rw [ho.1]; rfl) integer hint
    have e6 := optAll_optAny (g := fun o => !en.floatOps.contains o.operator)
      (by intro o ho; simp only [floatOptsValid, Bool.and_eq_true] at ho; show (!_) = false; rw [ho.1]; rfl) float hflt
    have e7 := optAll_optAny (g := fun o => !en.saOps.contains o.operator)
      (by intro o ho; simp only [saOptsValid, Bool.and_eq_true] at ho; show (!_) = false; rw [ho.2]; rfl) stringArray hsa
    have e8 := valid_noBadOpO sp en ff hff
    have e9 := valid_noBadOpO sp en vf hvf
    have e10 := valid_noBadOpO sp en tf htf
    have e11 := valid_noBadOpL sp en and hand
    have e12 := valid_noBadOpL sp en or hor
    unfold Query.badOp
    rw [e1, e2, e3, e4, e5, e6, e7, e8, e9, e10, e11, e12]
    rfl
theorem valid_noBadOpL (sp : Spec) (en : Enums) : (l : List Query) → validL sp en l = true → badOpL en l = false
  | [] => by intro _; rfl
  | q :: qs => by
    intro h
    simp only [validL, Bool.and_eq_true] at h
    simp only [badOpL, valid_noBadOp sp en q h.1, valid_noBadOpL sp en qs h.2, Bool.or_self]
theorem valid_noBadOpO (sp : Spec) (en : Enums) : (o : Option Query) → validO sp en o = true → badOpO en o = false
  | none => by intro _; rfl
  | some q => by
    intro h
    simp only [validO] at h
    simp only [badOpO, valid_noBadOp sp en q h]
end

theorem not_mem_of_contains_false {l : List Str} {x : Str} (h : l.contains x = false) : ¬ x ∈ l := by
  simpa using h

/-- the quantizer of the parameter block that goes with the entry's declared type -/
def SchemaValue.quantizer (sv : SchemaValue) : Option Quantizer :=
  if sv.type = tVectorFlat then sv.flat.bind (·.quantizer)
  else if sv.type = tVectorVamana then sv.vamana.bind (·.quantizer)
  else none

theorem valid_quantizer (sp : Spec) (en : Enums) (sv : SchemaValue) (q : Quantizer)
    (h : sv.valid sp en = true) (hq : sv.quantizer = some q) : q.valid sp en = true := by
  unfold SchemaValue.quantizer at hq
  unfold SchemaValue.valid at h
  simp only [Bool.and_eq_true] at h
  by_cases t1 : sv.type = tVectorFlat
  · rw [if_pos t1] at hq
    have h2 := h.2; rw [if_pos t1] at h2
    cases hf : sv.flat with
    | none => simp [hf] at hq
    | some p =>
      simp only [hf] at h2
      simp only [hf, Option.bind] at hq
      simp only [FlatP.valid, Bool.and_eq_true, hq, optQuantValid] at h2
      exact h2.2.1
  · by_cases t2 : sv.type = tVectorVamana
    · rw [if_neg t1, if_pos t2] at hq
      have h2 := h.2; rw [if_neg t1, if_pos t2] at h2
      cases hf : sv.vamana with
      | none => simp [hf] at hq
      | some p =>
        simp only [hf] at h2
        simp only [hf, Option.bind] at hq
        simp only [VamanaP.valid, Bool.and_eq_true, hq, optQuantValid] at h2
        exact h2.2.1
    · rw [if_neg t1, if_neg t2] at hq; simp at hq

/-- A decoded request carries, in a place its validation looks at, an enum-typed field whose value is not in
the accepted set.  One constructor per enum-typed field of the request types. -/
inductive BadEnum (en : Enums) : Req → Prop
  /-- `indexSchema.<p>.type` -/
  | indexType (b : V2Create) (k : Str) (sv : SchemaValue) :
      (k, sv) ∈ b.schema → en.indexTypes.contains sv.type = false → BadEnum en (.v2Create (some b))
  /-- `indexSchema.<p>.vectorFlat.distanceMetric` of an entry declared `vectorFlat` -/
  | flatMetric (b : V2Create) (k : Str) (sv : SchemaValue) (p : FlatP) :
      (k, sv) ∈ b.schema → sv.type = tVectorFlat → sv.flat = some p → en.metrics.contains p.metric = false →
      BadEnum en (.v2Create (some b))
  /-- `indexSchema.<p>.vectorVamana.distanceMetric` of an entry declared `vectorVamana` -/
  | vamanaMetric (b : V2Create) (k : Str) (sv : SchemaValue) (p : VamanaP) :
      (k, sv) ∈ b.schema → sv.type = tVectorVamana → sv.vamana = some p → en.metrics.contains p.metric = false →
      BadEnum en (.v2Create (some b))
  /-- `quantizer.type` of the declared block (flat or vamana): anything but none / binary / product; whatever
  parameter blocks the quantizer object carries -/
  | quantizerType (b : V2Create) (k : Str) (sv : SchemaValue) (q : Quantizer) :
      (k, sv) ∈ b.schema → sv.quantizer = some q → q.type ≠ qNone → q.type ≠ qBinary → q.type ≠ qProduct →
      BadEnum en (.v2Create (some b))
  /-- `quantizer.binary.distanceMetric` of a binary quantizer -/
  | binaryMetric (b : V2Create) (k : Str) (sv : SchemaValue) (q : Quantizer) (bq : BinaryQ) :
      (k, sv) ∈ b.schema → sv.quantizer = some q → q.type = qBinary → q.binary = some bq →
      en.binMetrics.contains bq.metric = false → BadEnum en (.v2Create (some b))
  /-- `indexSchema.<p>.text.analyser` of an entry declared `text` -/
  | analyser (b : V2Create) (k : Str) (sv : SchemaValue) (a : Str) :
      (k, sv) ∈ b.schema → sv.type = tText → sv.text = some a → en.analysers.contains a = false →
      BadEnum en (.v2Create (some b))
  /-- `distanceMetric` of a v1 create request -/
  | v1Metric (b : V1Create) : en.v1Metrics.contains b.metric = false → BadEnum en (.v1Create (some b))
  /-- the `operator` of any of the seven kinds of query options, anywhere in the query of a search -/
  | operator (r : SearchReq) : r.query.badOp en = true → BadEnum en (.v2Search (some r))

theorem schema_invalid_of_entry (sp : Spec) (en : Enums) (s : Schema) (k : Str) (sv : SchemaValue)
    (hm : (k, sv) ∈ s) (h : sv.valid sp en = false) : s.valid sp en = false := by
  cases hs : s.valid sp en with
  | false => rfl
  | true =>
    have := List.all_eq_true.mp hs (k, sv) hm
    simp [h] at this

theorem v2Create_invalid (sp : Spec) (en : Enums) (ctx : Ctx) (b : V2Create) (h : b.schema.valid sp en = false) :
    (v2Create sp en ctx (some b)).eff = none ∧ (v2Create sp en ctx (some b)).status = 400 := by
  simp [v2Create, h, reject]

/-- **C18_enum_missing_refused.** A request with an enum-typed field outside its accepted set — every enum-typed
field of every request type, see `BadEnum` — is refused: nothing is handed to the cluster layer and the answer
is 400 (for a search: unless the collection middleware has answered 404 for an unknown collection before the
body is looked at).  `C18_enum_empty_unaccepted` adds that the empty string — what a missing, `null` or `""`
field decodes to — is outside every documented set. -/
theorem C18_enum_missing_refused (sp : Spec) (en : Enums) (ctx : Ctx) (req : Req) (h : BadEnum en req) :
    (handle sp en ctx req).eff = none ∧
    ((handle sp en ctx req).status = 400 ∨ (ctx.col = none ∧ (handle sp en ctx req).status = 404)) := by
  cases h with
  | indexType b k sv hm ht =>
    have : sv.valid sp en = false := by simp [SchemaValue.valid, not_mem_of_contains_false ht]
    have := v2Create_invalid sp en ctx b (schema_invalid_of_entry sp en _ k sv hm this)
    exact ⟨this.1, Or.inl this.2⟩
  | flatMetric b k sv p hm ht hp hmet =>
    have : sv.valid sp en = false := by simp [SchemaValue.valid, ht, hp, FlatP.valid, not_mem_of_contains_false hmet]
    have := v2Create_invalid sp en ctx b (schema_invalid_of_entry sp en _ k sv hm this)
    exact ⟨this.1, Or.inl this.2⟩
  | vamanaMetric b k sv p hm ht hp hmet =>
    have hne : tVectorVamana ≠ tVectorFlat := by decide
    have : sv.valid sp en = false := by simp [SchemaValue.valid, ht, hne, hp, VamanaP.valid, not_mem_of_contains_false hmet]
    have := v2Create_invalid sp en ctx b (schema_invalid_of_entry sp en _ k sv hm this)
    exact ⟨this.1, Or.inl this.2⟩
  | quantizerType b k sv q hm hq h1 h2 h3 =>
    have hqv : q.valid sp en = false := by simp [Quantizer.valid, h1, h2, h3]
    have : sv.valid sp en = false := by
      cases hv : sv.valid sp en with
      | false => rfl
      | true => rw [valid_quantizer sp en sv q hv hq] at hqv; exact absurd hqv (by simp)
    have := v2Create_invalid sp en ctx b (schema_invalid_of_entry sp en _ k sv hm this)
    exact ⟨this.1, Or.inl this.2⟩
  | binaryMetric b k sv q bq hm hq ht hb hmet =>
    have hne : qBinary ≠ qNone := by decide
    have hqv : q.valid sp en = false := by simp [Quantizer.valid, ht, hne, hb, BinaryQ.valid, not_mem_of_contains_false hmet]
    have : sv.valid sp en = false := by
      cases hv : sv.valid sp en with
      | false => rfl
      | true => rw [valid_quantizer sp en sv q hv hq] at hqv; exact absurd hqv (by simp)
    have := v2Create_invalid sp en ctx b (schema_invalid_of_entry sp en _ k sv hm this)
    exact ⟨this.1, Or.inl this.2⟩
  | analyser b k sv a hm ht ha hmet =>
    have hne1 : tText ≠ tVectorFlat := by decide
    have hne2 : tText ≠ tVectorVamana := by decide
    have : sv.valid sp en = false := by simp [SchemaValue.valid, ht, hne1, hne2, ha, not_mem_of_contains_false hmet]
    have := v2Create_invalid sp en ctx b (schema_invalid_of_entry sp en _ k sv hm this)
    exact ⟨this.1, Or.inl this.2⟩
  | v1Metric b hmet =>
    simp [handle, v1Create, not_mem_of_contains_false hmet, reject]
  | operator r hb =>
    have hv : r.valid sp en = false := by
      cases hq : r.query.valid sp en with
      | false => simp [SearchReq.valid, hq]
      | true => rw [valid_noBadOp sp en r.query hq] at hb; exact absurd hb (by simp)
    simp only [handle, v2Search, withCol]
    split
    · exact ⟨rfl, Or.inl rfl⟩
    · cases hc : ctx.col with
      | none => exact ⟨rfl, Or.inr ⟨rfl, rfl⟩⟩
      | some c => simp [hv, reject]

/-- the empty string (a missing / `null` / `""` field after decoding) is in none of the documented sets, and is
none of the three quantizer types -/
theorem C18_enum_empty_unaccepted :
    Enums.documented.indexTypes.contains [] = false ∧ Enums.documented.metrics.contains [] = false ∧
    Enums.documented.v1Metrics.contains [] = false ∧ Enums.documented.quantizers.contains [] = false ∧
    Enums.documented.binMetrics.contains [] = false ∧ Enums.documented.analysers.contains [] = false ∧
    Enums.documented.vecOps.contains [] = false ∧ Enums.documented.textOps.contains [] = false ∧
    Enums.documented.strOps.contains [] = false ∧ Enums.documented.intOps.contains [] = false ∧
    Enums.documented.floatOps.contains [] = false ∧ Enums.documented.saOps.contains [] = false ∧
    ([] : Str) ≠ qNone ∧ ([] : Str) ≠ qBinary ∧ ([] : Str) ≠ qProduct := by
  decide

/-! ## depth -/

/-- one well-formed level around a query: an `_and` / `_or` node holding it among siblings, or a flat / vamana /
text leaf with it as the filter -/
inductive Wrap where
  | and (before after : List Query)
  | or (before after : List Query)
  | flat (prop : Str) (o : VecOpts)
  | vamana (prop : Str) (o : VecOpts)
  | text (prop : Str) (o : TextOpts)

def Wrap.apply : Wrap → Query → Query
  | .and b a, x => .mk pAnd none none none none none none none none none none (b ++ x :: a) []
  | .or b a, x => .mk pOr none none none none none none none none none none [] (b ++ x :: a)
  | .flat p o, x => .mk p (some o) none none none none none none (some x) none none [] []
  | .vamana p o, x => .mk p none (some o) none none none none none none (some x) none [] []
  | .text p o, x => .mk p none none (some o) none none none none none none (some x) [] []

/-- a property name that addresses an index (not empty, none of the reserved names) -/
def leafName (p : Str) : Prop := p.isEmpty = false ∧ p ≠ pAnd ∧ p ≠ pOr ∧ p ≠ pId

/-- the level is well-formed in itself: the siblings pass `Validate` and `ValidateSchema`; a leaf's own options
pass `Validate`, its property has an index of that type and (vector leaves) its vector has the index's dimension -/
def Wrap.ok (sp : Spec) (en : Enums) (schema : Schema) : Wrap → Prop
  | .and b a => validL sp en b = true ∧ validL sp en a = true ∧ validSchemaL schema b = .ok ∧ validSchemaL schema a = .ok
  | .or b a => validL sp en b = true ∧ validL sp en a = true ∧ validSchemaL schema b = .ok ∧ validSchemaL schema a = .ok
  | .flat p o => leafName p ∧ flatOptsValid sp en o = true ∧
      ∃ v fp, lookup schema p = some v ∧ v.type = tVectorFlat ∧ v.flat = some fp ∧ (o.vector.length : Int) = fp.vectorSize
  | .vamana p o => leafName p ∧ vamanaOptsValid sp en o = true ∧
      ∃ v vp, lookup schema p = some v ∧ v.type = tVectorVamana ∧ v.vamana = some vp ∧ (o.vector.length : Int) = vp.vectorSize
  | .text p o => leafName p ∧ textOptsValid sp en o = true ∧ ∃ v, lookup schema p = some v ∧ v.type = tText

/-- n levels, the head of the list outermost -/
def wrapAll : List Wrap → Query → Query
  | [], x => x
  | w :: ws, x => w.apply (wrapAll ws x)

theorem validL_append (sp : Spec) (en : Enums) (b : List Query) (x : Query) (a : List Query) :
    validL sp en (b ++ x :: a) = (validL sp en b && x.valid sp en && validL sp en a) := by
  induction b with
  | nil => simp [validL]
  | cons q qs ih => simp [validL, ih, Bool.and_assoc]

theorem VS.and_ok_right (x : VS) : x.and .ok = x := by cases x <;> rfl
theorem VS.and_eq_ok (a b : VS) : a.and b = .ok ↔ a = .ok ∧ b = .ok := by
  cases a <;> cases b <;> simp [VS.and]

theorem validSchemaL_append (schema : Schema) (b : List Query) (x : Query) (a : List Query)
    (hb : validSchemaL schema b = .ok) (ha : validSchemaL schema a = .ok) :
    validSchemaL schema (b ++ x :: a) = x.validSchema schema := by
  induction b with
  | nil => simp [validSchemaL, ha, VS.and_ok_right]
  | cons q qs ih =>
    simp only [validSchemaL, VS.and_eq_ok] at hb
    simp only [List.cons_append, validSchemaL, hb.1, ih hb.2, VS.and]

theorem wrap_valid (sp : Spec) (en : Enums) (schema : Schema) (w : Wrap) (x : Query) (h : w.ok sp en schema) :
    (w.apply x).valid sp en = x.valid sp en := by
  have hao : pAnd ≠ pOr := by decide
  have hai : pAnd ≠ pId := by decide
  have hoi : pOr ≠ pId := by decide
  have hoa : pOr ≠ pAnd := by decide
  have hae : pAnd ≠ [] := by decide
  have hoe : pOr ≠ [] := by decide
  cases w with
  | and b a =>
    obtain ⟨hb, ha, _, _⟩ := h
    simp [Wrap.apply, Query.valid, optAll, validO, validL, validL_append, hb, ha, hao, hai, hae]
  | or b a =>
    obtain ⟨hb, ha, _, _⟩ := h
    simp [Wrap.apply, Query.valid, optAll, validO, validL, validL_append, hb, ha, hoa, hoi, hoe]
  | flat p o =>
    obtain ⟨⟨h0, h1, h2, h3⟩, ho, _⟩ := h
    simp [Wrap.apply, Query.valid, optAll, validO, validL, h0, h1, h2, h3, ho]
  | vamana p o =>
    obtain ⟨⟨h0, h1, h2, h3⟩, ho, _⟩ := h
    simp [Wrap.apply, Query.valid, optAll, validO, validL, h0, h1, h2, h3, ho]
  | text p o =>
    obtain ⟨⟨h0, h1, h2, h3⟩, ho, _⟩ := h
    simp [Wrap.apply, Query.valid, optAll, validO, validL, h0, h1, h2, h3, ho]

theorem wrap_validSchema (sp : Spec) (en : Enums) (schema : Schema) (w : Wrap) (x : Query) (h : w.ok sp en schema) :
    (w.apply x).validSchema schema = x.validSchema schema := by
  have hoa : pOr ≠ pAnd := by decide
  cases w with
  | and b a =>
    obtain ⟨_, _, hb, ha⟩ := h
    simp only [Wrap.apply, Query.validSchema, if_true]
    exact validSchemaL_append schema b x a hb ha
  | or b a =>
    obtain ⟨_, _, hb, ha⟩ := h
    simp only [Wrap.apply, Query.validSchema, hoa, if_false, if_true]
    exact validSchemaL_append schema b x a hb ha
  | flat p o =>
    obtain ⟨⟨_, h1, h2, h3⟩, _, v, fp, hl, ht, hf, hlen⟩ := h
    simp [Wrap.apply, Query.validSchema, h1, h2, h3, hl, ht, hf, hlen, validSchemaO]
  | vamana p o =>
    obtain ⟨⟨_, h1, h2, h3⟩, _, v, vp, hl, ht, hf, hlen⟩ := h
    have hne : tVectorVamana ≠ tVectorFlat := by decide
    simp [Wrap.apply, Query.validSchema, h1, h2, h3, hl, ht, hne, hf, hlen, validSchemaO]
  | text p o =>
    obtain ⟨⟨_, h1, h2, h3⟩, _, v, hl, ht⟩ := h
    have hne1 : tText ≠ tVectorFlat := by decide
    have hne2 : tText ≠ tVectorVamana := by decide
    simp [Wrap.apply, Query.validSchema, h1, h2, h3, hl, ht, hne1, hne2, validSchemaO]

/-- **C18_depth_transparent.** Below ANY number of well-formed levels — through `_and`, `_or`, the filter of a
vectorFlat / vectorVamana / text leaf, in any mixture — a query gets the verdict of `Query.Validate` and of
`Query.ValidateSchema` that it gets on its own: no level is counted, nothing is cut off. -/
theorem C18_depth_transparent (sp : Spec) (en : Enums) (schema : Schema) (ws : List Wrap)
    (hw : ∀ w ∈ ws, w.ok sp en schema) (x : Query) :
    (wrapAll ws x).valid sp en = x.valid sp en ∧ (wrapAll ws x).validSchema schema = x.validSchema schema := by
  induction ws with
  | nil => exact ⟨rfl, rfl⟩
  | cons w ws ih =>
    have hw1 := hw w (List.mem_cons_self ..)
    have ih := ih (fun w' h' => hw w' (List.mem_cons_of_mem _ h'))
    simp only [wrapAll]
    rw [wrap_valid sp en schema w _ hw1, wrap_validSchema sp en schema w _ hw1]
    exact ih

/-- consequently the v2 search handler gives a request whose query stands below any number of well-formed levels
the status (and, when refused, the empty effect) of the request with the bare query -/
theorem C18_depth_status (sp : Spec) (en : Enums) (ctx : Ctx) (c : ColCtx) (hc : ctx.col = some c) (r : SearchReq)
    (ws : List Wrap) (hw : ∀ w ∈ ws, w.ok sp en c.schema) :
    (handle sp en ctx (.v2Search (some { r with query := wrapAll ws r.query }))).status =
      (handle sp en ctx (.v2Search (some r))).status ∧
    ((handle sp en ctx (.v2Search (some r))).eff = none →
      (handle sp en ctx (.v2Search (some { r with query := wrapAll ws r.query }))).eff = none) := by
  obtain ⟨h1, h2⟩ := C18_depth_transparent sp en c.schema ws hw r.query
  have hv : SearchReq.valid sp en { r with query := wrapAll ws r.query } = r.valid sp en := by
    simp only [SearchReq.valid, h1]
  simp only [handle, v2Search, withCol, hc]
  split
  · exact ⟨rfl, fun _ => rfl⟩
  · simp only [Bool.false_and, Bool.false_eq_true, if_false, hv, h2]
    split
    · exact ⟨rfl, fun _ => rfl⟩
    · cases r.query.validSchema c.schema <;> simp [reject, accept]

/-- `x` stands in the EXECUTED part of `q`: `q` itself, or — any number of levels down — in the `_and` list of an
`_and` node, the `_or` list of an `_or` node, the filter of the flat / vamana / text options of a property whose
index has that type.  The levels need not be well-formed. -/
inductive Executed (schema : Schema) (x : Query) : Query → Prop
  | here : Executed schema x x
  | and (y q : Query) : q.property = pAnd → y ∈ q.and → Executed schema x y → Executed schema x q
  | or (y q : Query) : q.property = pOr → y ∈ q.or → Executed schema x y → Executed schema x q
  | flatFilter (y q : Query) (v : SchemaValue) : leafName q.property → lookup schema q.property = some v →
      v.type = tVectorFlat → q.flatFilter = some y → Executed schema x y → Executed schema x q
  | vamanaFilter (y q : Query) (v : SchemaValue) : leafName q.property → lookup schema q.property = some v →
      v.type = tVectorVamana → q.vamanaFilter = some y → Executed schema x y → Executed schema x q
  | textFilter (y q : Query) (v : SchemaValue) : leafName q.property → lookup schema q.property = some v →
      v.type = tText → q.textFilter = some y → Executed schema x y → Executed schema x q

theorem VS.and_ne_ok_left (a b : VS) (h : a ≠ .ok) : a.and b ≠ .ok := by
  cases a <;> cases b <;> simp_all [VS.and]
theorem VS.and_ne_ok_right (a b : VS) (h : b ≠ .ok) : a.and b ≠ .ok := by
  cases a <;> cases b <;> simp_all [VS.and]

theorem validSchemaL_mem_ne_ok (schema : Schema) (l : List Query) (y : Query) (hm : y ∈ l)
    (h : y.validSchema schema ≠ .ok) : validSchemaL schema l ≠ .ok := by
  induction l with
  | nil => simp at hm
  | cons q qs ih =>
    simp only [validSchemaL]
    rcases List.mem_cons.mp hm with rfl | hm
    · exact VS.and_ne_ok_left _ _ h
    · exact VS.and_ne_ok_right _ _ (ih hm)

/-- a sub-query of the executed part that does not pass `ValidateSchema` is never masked by what stands above it -/
theorem executed_ne_ok (schema : Schema) (x q : Query) (he : Executed schema x q)
    (hx : x.validSchema schema ≠ .ok) : q.validSchema schema ≠ .ok := by
  induction he with
  | here => exact hx
  | and y q hp hm _ ih =>
    obtain ⟨property, flat, vamana, text, s, i, f, sa, ff, vf, tf, and, or⟩ := q
    simp only [Query.property] at hp
    simp only [Query.and] at hm
    unfold Query.validSchema
    rw [if_pos hp]
    exact validSchemaL_mem_ne_ok schema and y hm ih
  | or y q hp hm _ ih =>
    obtain ⟨property, flat, vamana, text, s, i, f, sa, ff, vf, tf, and, or⟩ := q
    simp only [Query.property] at hp
    simp only [Query.or] at hm
    have hne : property ≠ pAnd := by rw [hp]; decide
    unfold Query.validSchema
    rw [if_neg hne, if_pos hp]
    exact validSchemaL_mem_ne_ok schema or y hm ih
  | flatFilter y q v hn hl ht hf _ ih =>
    obtain ⟨property, flat, vamana, text, s, i, f, sa, ff, vf, tf, and, or⟩ := q
    simp only [Query.property] at hn hl
    simp only [Query.flatFilter] at hf
    obtain ⟨_, h1, h2, h3⟩ := hn
    unfold Query.validSchema
    rw [if_neg h1, if_neg h2, if_neg h3]
    simp only [hl, ht, if_true]
    cases flat with
    | none => simp
    | some o =>
      cases v.flat with
      | none => simp
      | some p =>
        simp only []
        split
        · simp
        · rw [hf]; exact ih
  | vamanaFilter y q v hn hl ht hf _ ih =>
    obtain ⟨property, flat, vamana, text, s, i, f, sa, ff, vf, tf, and, or⟩ := q
    simp only [Query.property] at hn hl
    simp only [Query.vamanaFilter] at hf
    obtain ⟨_, h1, h2, h3⟩ := hn
    have hne : tVectorVamana ≠ tVectorFlat := by decide
    unfold Query.validSchema
    rw [if_neg h1, if_neg h2, if_neg h3]
    simp only [hl, ht, hne, if_true, if_false]
    cases vamana with
    | none => simp
    | some o =>
      cases v.vamana with
      | none => simp
      | some p =>
        simp only []
        split
        · simp
        · rw [hf]; exact ih
  | textFilter y q v hn hl ht hf _ ih =>
    obtain ⟨property, flat, vamana, text, s, i, f, sa, ff, vf, tf, and, or⟩ := q
    simp only [Query.property] at hn hl
    simp only [Query.textFilter] at hf
    obtain ⟨_, h1, h2, h3⟩ := hn
    have hne1 : tText ≠ tVectorFlat := by decide
    have hne2 : tText ≠ tVectorVamana := by decide
    unfold Query.validSchema
    rw [if_neg h1, if_neg h2, if_neg h3]
    simp only [hl, ht, hne1, hne2, if_true, if_false]
    cases text with
    | none => simp
    | some o => simp only []; rw [hf]; exact ih

/-- **C18_deep_bad_refused.** If anywhere in the executed part of the query of a v2 search — below any number of
levels — a sub-query does not pass `ValidateSchema` (a property without an index, options of another type than
the index's, a vector of the wrong length), the request is not answered 200 and nothing is handed to the cluster
layer.  (With a stored schema that passed `IndexSchema.Validate` the answer is 400: `C18_no_panic`.) -/
theorem C18_deep_bad_refused (sp : Spec) (en : Enums) (ctx : Ctx) (c : ColCtx) (hc : ctx.col = some c) (r : SearchReq)
    (x : Query) (he : Executed c.schema x r.query) (hx : x.validSchema c.schema ≠ .ok) :
    (handle sp en ctx (.v2Search (some r))).eff = none ∧ (handle sp en ctx (.v2Search (some r))).status ≠ 200 := by
  have hq := executed_ne_ok c.schema x r.query he hx
  simp only [handle, v2Search, withCol, hc]
  split
  · simp [reject]
  · simp only [Bool.false_and, Bool.false_eq_true, if_false]
    split
    · simp [reject]
    · cases hvs : r.query.validSchema c.schema with
      | ok => exact absurd hvs hq
      | bad => simp [reject]
      | panic => simp

/-! ## non-vacuity -/

def edVecV : SchemaValue := { type := tVectorFlat, flat := some ⟨2, S "euclidean", none⟩, vamana := none, text := none, string := none, stringArray := none }
def edSchema : Schema :=
  [(S "vec", edVecV),
   (S "txt", { type := tText, flat := none, vamana := none, text := some (S "standard"), string := none, stringArray := none })]
def edCtx : Ctx := { plan := ⟨6, 60, 1024⟩, ncols := 1, exists_ := false, cidLen := 5, col := some ⟨edSchema, 3⟩ }
def edLeaf (n : Nat) : Query := .mk (S "vec") (some ⟨List.replicate n 0, S "near", 0, 5, none⟩) none none none none none none none none none [] []
def edOpts : VecOpts := ⟨[0, 0], S "near", 0, 5, none⟩
def edText : TextOpts := ⟨S "a", S "containsAny", 5, none⟩
/-- the five sites in turn, `k` times over -/
def edLevels : Nat → List Wrap
  | 0 => []
  | k + 1 => [.and [] [edLeaf 2], .or [edLeaf 2] [], .flat (S "vec") edOpts, .text (S "txt") edText] ++ edLevels k

-- `"quantizer": {}` (type decoded as the empty string) on a flat index: BadEnum.quantizerType applies; the model answers 400
def edCreate (q : Quantizer) : V2Create :=
  ⟨S "abc", [(S "p", { type := tVectorFlat, flat := some ⟨4, S "euclidean", some q⟩, vamana := none, text := none, string := none, stringArray := none })]⟩
example : (handle Spec.documented Enums.documented edCtx (.v2Create (some (edCreate ⟨[], none, none⟩)))).status = 400 ∧
    (handle Spec.documented Enums.documented edCtx (.v2Create (some (edCreate ⟨qNone, none, none⟩)))).status = 200 := by decide
example : BadEnum Enums.documented (.v2Create (some (edCreate ⟨[], none, none⟩))) :=
  .quantizerType _ (S "p") _ ⟨[], none, none⟩ (List.mem_cons_self ..) rfl (by decide) (by decide) (by decide)
-- an operator that is missing (decoded as the empty string) in the filter of a leaf
example : (Wrap.apply (.flat (S "vec") edOpts) (.mk (S "txt") none none (some ⟨S "a", [], 5, none⟩) none none none none none none none [] [])).badOp Enums.documented = true := by decide
-- C18_depth_transparent / C18_deep_bad_refused: the hypotheses hold for the sample levels; 8 levels deep the
-- well-formed leaf is accepted and the wrong-length leaf refused
theorem edLevels_ok : ∀ k, ∀ w ∈ edLevels k, w.ok Spec.documented Enums.documented edSchema
  | 0 => by intro w hw; simp [edLevels] at hw
  | k + 1 => by
    intro w hw
    simp only [edLevels, List.cons_append, List.nil_append, List.mem_cons] at hw
    rcases hw with rfl | rfl | rfl | rfl | hw
    · exact ⟨by decide, by decide, by decide, by decide⟩
    · exact ⟨by decide, by decide, by decide, by decide⟩
    · exact ⟨⟨by decide, by decide, by decide, by decide⟩, by decide, edVecV, ⟨2, S "euclidean", none⟩, rfl, by decide, rfl, by decide⟩
    · exact ⟨⟨by decide, by decide, by decide, by decide⟩, by decide, _, rfl, by decide⟩
    · exact edLevels_ok k w hw
-- ... hence at EVERY depth 4k the leaf gets its own verdict (instance of C18_depth_transparent)
example (k : Nat) (n : Nat) : (wrapAll (edLevels k) (edLeaf n)).validSchema edSchema = (edLeaf n).validSchema edSchema :=
  (C18_depth_transparent Spec.documented Enums.documented edSchema (edLevels k) (edLevels_ok k) (edLeaf n)).2
example : (wrapAll (edLevels 2) (edLeaf 2)).validSchema edSchema = .ok ∧ (wrapAll (edLevels 2) (edLeaf 3)).validSchema edSchema = .bad := by decide
example : Executed edSchema (edLeaf 3) (Wrap.apply (.and [] []) (Wrap.apply (.flat (S "vec") edOpts) (edLeaf 3))) :=
  .and _ _ rfl (List.mem_cons_self ..) (.flatFilter _ _ edVecV ⟨by decide, by decide, by decide, by decide⟩ rfl (by decide) rfl .here)

end Sema.C18
