/- helper lemmas for the C18 property theorems -/
import SemaModel.C18.Model
namespace Sema.C18
open Sema

/-! ### association lists -/

theorem lookup_setKey_same (m : Obj) (k : Str) (v : J) : lookup (setKey m k v) k = some v := by
  induction m with
  | nil => simp [setKey, lookup]
  | cons p rest ih =>
    obtain ⟨k', v'⟩ := p
    by_cases h : k' = k
    · simp [setKey, lookup, h]
    · simp [setKey, lookup, h, ih]

theorem lookup_setKey_other (m : Obj) (k k2 : Str) (v : J) (h : k2 ≠ k) :
    lookup (setKey m k v) k2 = lookup m k2 := by
  induction m with
  | nil => simp [setKey, lookup, Ne.symm h]
  | cons p rest ih =>
    obtain ⟨k', v'⟩ := p
    by_cases h1 : k' = k
    · subst h1
      simp [setKey, lookup, Ne.symm h]
    · by_cases h2 : k' = k2
      · subst h2; simp [setKey, lookup, h]
      · simp [setKey, lookup, h1, h2, ih]

theorem lookup_eraseKey_same (m : Obj) (k : Str) : lookup (eraseKey m k) k = none := by
  induction m with
  | nil => simp [eraseKey, lookup]
  | cons p rest ih =>
    obtain ⟨k', v'⟩ := p
    by_cases h : k' = k
    · simpa [eraseKey, List.filter, h] using ih
    · simp only [eraseKey] at ih
      simp [eraseKey, List.filter, h, lookup, ih]

theorem lookup_eraseKey_other (m : Obj) (k k2 : Str) (h : k2 ≠ k) :
    lookup (eraseKey m k) k2 = lookup m k2 := by
  induction m with
  | nil => simp [eraseKey, lookup]
  | cons p rest ih =>
    obtain ⟨k', v'⟩ := p
    simp only [eraseKey] at ih
    by_cases h1 : k' = k
    · subst h1
      simp [eraseKey, List.filter, lookup, Ne.symm h, ih]
    · by_cases h2 : k' = k2
      · subst h2; simp [eraseKey, List.filter, h, lookup]
      · simp [eraseKey, List.filter, h1, lookup, h2, ih]

theorem lookup_mem {α} (m : List (Str × α)) (k : Str) (v : α) (h : lookup m k = some v) : (k, v) ∈ m := by
  induction m with
  | nil => simp [lookup] at h
  | cons p rest ih =>
    obtain ⟨k', v'⟩ := p
    by_cases h1 : k' = k
    · simp [lookup, h1] at h
      simp [h1, h]
    · simp [lookup, h1] at h
      exact List.mem_cons_of_mem _ (ih h)

/-! ### mapM / mapAll -/

theorem mapM_length {α β} (f : α → Option β) (l : List α) (r : List β) (h : l.mapM f = some r) :
    r.length = l.length := by
  induction l generalizing r with
  | nil => simp at h; subst h; rfl
  | cons x xs ih =>
    simp only [List.mapM_cons, Option.bind_eq_bind, Option.pure_def] at h
    cases hx : f x with
    | none => simp [hx] at h
    | some y =>
      cases hxs : xs.mapM f with
      | none => simp [hx, hxs] at h
      | some ys =>
        simp [hx, hxs] at h
        subst h
        simp [ih ys hxs]

theorem mapAll_mem {α β} (f : α → Option β) (l : List α) (r : List β) (h : mapAll f l = some r) :
    ∀ y ∈ r, ∃ x ∈ l, f x = some y := by
  induction l generalizing r with
  | nil => simp [mapAll] at h; subst h; simp
  | cons x xs ih =>
    simp only [mapAll] at h
    cases hx : f x with
    | none => simp [hx] at h
    | some y0 =>
      cases hxs : mapAll f xs with
      | none => simp [hx, hxs] at h
      | some ys =>
        simp [hx, hxs] at h
        subst h
        intro y hy
        rcases List.mem_cons.mp hy with rfl | hy
        · exact ⟨x, List.mem_cons_self, hx⟩
        · obtain ⟨x', hx', hf⟩ := ih ys hxs y hy
          exact ⟨x', List.mem_cons_of_mem _ hx', hf⟩

theorem mapAll_length {α β} (f : α → Option β) (l : List α) (r : List β) (h : mapAll f l = some r) :
    r.length = l.length := by
  induction l generalizing r with
  | nil => simp [mapAll] at h; subst h; rfl
  | cons x xs ih =>
    simp only [mapAll] at h
    cases hx : f x with
    | none => simp [hx] at h
    | some y0 =>
      cases hxs : mapAll f xs with
      | none => simp [hx, hxs] at h
      | some ys =>
        simp [hx, hxs] at h
        subst h
        simp [ih ys hxs]

/-! ### vectors: castF32 / convertToVector -/

theorem castF32_arr (v : J) (vec : List Int) (h : castF32 v = some vec) :
    ∃ l, v = .arr l ∧ vec.length = l.length := by
  cases v with
  | arr l => exact ⟨l, rfl, mapM_length _ _ _ h⟩
  | _ => simp [castF32] at h

theorem convertToVector_arr (l : List J) (vec : List J) (h : convertToVector (.arr l) = some vec) :
    vec.length = l.length := mapM_length _ _ _ h

/-- a value the index can read as a float32 vector and that `checkLeaf` of a vector entry accepts
has the entry's dimension -/
theorem checkLeaf_dim (sv : SchemaValue) (d : Int) (hd : sv.dim = some d) (v v' : J) (vec : List Int)
    (hc : checkLeaf sv v = some v') (hv : castF32 v = some vec) : (vec.length : Int) = d := by
  obtain ⟨l, rfl, hl⟩ := castF32_arr v vec hv
  unfold SchemaValue.dim at hd
  unfold checkLeaf at hc
  by_cases h1 : sv.type = tVectorFlat
  · simp only [h1, if_true] at hd hc
    cases hcv : convertToVector (.arr l) with
    | none => simp [hcv] at hc
    | some cv =>
      cases hp : sv.flat with
      | none => simp [hp] at hd
      | some p =>
        simp only [hcv, hp] at hc
        simp only [hp, Option.map_some, Option.some.injEq] at hd
        have := convertToVector_arr l cv hcv
        by_cases hne : ((cv.length : Int) != p.vectorSize) = true
        · simp [hne] at hc
        · simp at hne
          omega
  · simp only [h1, if_false] at hd hc
    by_cases h2 : sv.type = tVectorVamana
    · simp only [h2, if_true] at hd hc
      cases hcv : convertToVector (.arr l) with
      | none => simp [hcv] at hc
      | some cv =>
        cases hp : sv.vamana with
        | none => simp [hp] at hd
        | some p =>
          simp only [hcv, hp] at hc
          simp only [hp, Option.map_some, Option.some.injEq] at hd
          have := convertToVector_arr l cv hcv
          by_cases hne : ((cv.length : Int) != p.vectorSize) = true
          · simp [hne] at hc
          · simp at hne
            omega
    · simp [h2] at hd

/-- a vector entry never accepts an object -/
theorem checkLeaf_obj (sv : SchemaValue) (d : Int) (hd : sv.dim = some d) (kv : Obj) :
    checkLeaf sv (.obj kv) = none := by
  unfold SchemaValue.dim at hd
  unfold checkLeaf
  by_cases h1 : sv.type = tVectorFlat
  · simp [h1, convertToVector]
  · by_cases h2 : sv.type = tVectorVamana
    · simp [h2, convertToVector]
    · simp [h1, h2] at hd

/-! ### msgpack Query on an accepted map -/

theorem query_cons_obj (k : Str) (rest : List Str) (m : Obj) (hk : k ≠ []) :
    query (k :: rest) (.obj m) = match lookup m k with | none => .vals [] | some x => query rest x := by
  rw [query]; simp only [hk, if_false]
  cases lookup m k <;> rfl

/-- the vector an index reads from `data` (an object) under `segs` -/
def reachSegs (segs : List Str) (d : J) : Option (List Int) :=
  match query segs d with
  | .vals (.null :: _) => none
  | .vals (v :: _) => castF32 v
  | _ => none

theorem vectorReaching_eq (prop : Str) (d : J) : vectorReaching prop d = reachSegs (splitDot prop) d := by
  unfold vectorReaching getProperty reachSegs
  cases query (splitDot prop) d with
  | err => rfl
  | vals l =>
    cases l with
    | nil => rfl
    | cons v vs => cases v <;> rfl

theorem reachSegs_obj_self (m : Obj) : reachSegs [] (.obj m) = none := by
  simp [reachSegs, query, castF32]

theorem reachSegs_nil_seg (rest : List Str) (m : Obj) : reachSegs ([] :: rest) (.obj m) = none := by
  simp [reachSegs, query, castF32]

/-- `Good`: what `compatPath` guarantees for a vector entry on the map it accepted -/
theorem compatPath_reach (segs : List Str) (sv : SchemaValue) (d : Int) (hd : sv.dim = some d)
    (m m' : Obj) (hc : compatPath segs sv m = some m') (vec : List Int)
    (hr : reachSegs segs (.obj m) = some vec) : (vec.length : Int) = d := by
  induction segs generalizing m m' with
  | nil => simp [reachSegs_obj_self] at hr
  | cons k rest ih =>
    by_cases hk : k = []
    · subst hk; simp [reachSegs_nil_seg] at hr
    · cases rest with
      | nil =>
        simp only [compatPath] at hc
        simp only [reachSegs, query_cons_obj k [] m hk] at hr
        cases hl : lookup m k with
        | none => simp [hl] at hr
        | some x =>
          simp only [hl, query] at hr hc
          cases hcl : checkLeaf sv x with
          | none => simp [hcl] at hc
          | some x' =>
            have hx : castF32 x = some vec := by
              cases x <;> simp_all
            exact checkLeaf_dim sv d hd x x' vec hcl hx
      | cons k2 rest2 =>
        simp only [compatPath] at hc
        simp only [reachSegs, query_cons_obj k (k2 :: rest2) m hk] at hr
        cases hl : lookup m k with
        | none => simp [hl] at hr
        | some x =>
          cases x with
          | obj m2 =>
            simp only [hl] at hr hc
            cases hc2 : compatPath (k2 :: rest2) sv m2 with
            | none => simp [hc2] at hc
            | some m2' =>
              apply ih m2 m2' hc2
              simpa [reachSegs] using hr
          | _ => simp [hl] at hc


/-! ### stability of an accepted vector entry under the rewriting done for the other entries -/

theorem compatPath_single_isSome (k : Str) (sv : SchemaValue) (m : Obj) :
    (compatPath [k] sv m).isSome = (match lookup m k with | none => true | some v => (checkLeaf sv v).isSome) := by
  simp only [compatPath]
  cases lookup m k with
  | none => simp
  | some v => simp

theorem compatPath_cons_isSome (k k2 : Str) (rest : List Str) (sv : SchemaValue) (m : Obj) :
    (compatPath (k :: k2 :: rest) sv m).isSome =
      (match lookup m k with
       | none => true
       | some (.obj m2) => (compatPath (k2 :: rest) sv m2).isSome
       | some _ => false) := by
  simp only [compatPath]
  cases lookup m k with
  | none => simp
  | some v =>
    cases v with
    | obj m2 => simp
    | _ => simp

theorem tVamana_ne_tFlat : tVectorVamana ≠ tVectorFlat := by decide

theorem toF32Elem_idem (x y : J) (h : toF32Elem x = some y) : toF32Elem y = some y := by
  cases x with
  | num k v => cases k <;> simp [toF32Elem] at h <;> subst h <;> rfl
  | _ => simp [toF32Elem] at h

theorem mapM_idem (f : J → Option J) (hf : ∀ x y, f x = some y → f y = some y) (l cv : List J)
    (h : l.mapM f = some cv) : cv.mapM f = some cv := by
  induction l generalizing cv with
  | nil => simp at h; subst h; rfl
  | cons x xs ih =>
    simp only [List.mapM_cons, Option.bind_eq_bind, Option.pure_def] at h
    cases hx : f x with
    | none => simp [hx] at h
    | some y =>
      cases hxs : xs.mapM f with
      | none => simp [hx, hxs] at h
      | some ys =>
        simp [hx, hxs] at h
        subst h
        simp [List.mapM_cons, hf x y hx, ih ys hxs]

theorem convertToVector_idem (l cv : List J) (h : convertToVector (.arr l) = some cv) :
    convertToVector (.arr cv) = some cv := mapM_idem toF32Elem toF32Elem_idem l cv h

/-- the two vector arms of `checkLeaf` -/
def vecArm (size : Int) (x : J) : Option J :=
  match convertToVector x with
  | some vec => if (vec.length : Int) != size then none else some (.arr vec)
  | none => none

theorem checkLeaf_vec_eq (sv : SchemaValue) (d : Int) (hd : sv.dim = some d) (x : J) :
    checkLeaf sv x = vecArm d x := by
  unfold SchemaValue.dim at hd
  unfold checkLeaf vecArm
  by_cases h1 : sv.type = tVectorFlat
  · simp only [h1, if_true] at hd ⊢
    cases hp : sv.flat with
    | none => simp [hp] at hd
    | some p =>
      simp only [hp, Option.map_some, Option.some.injEq] at hd
      subst hd
      cases convertToVector x <;> rfl
  · by_cases h2 : sv.type = tVectorVamana
    · simp only [h2, tVamana_ne_tFlat, if_true, if_false] at hd ⊢
      cases hp : sv.vamana with
      | none => simp [hp] at hd
      | some p =>
        simp only [hp, Option.map_some, Option.some.injEq] at hd
        subst hd
        cases convertToVector x <;> rfl
    · simp [h1, h2] at hd

/-- for a vector entry: `checkLeaf` succeeds exactly on arrays of floats of the right length -/
theorem checkLeaf_vec (sv : SchemaValue) (d : Int) (hd : sv.dim = some d) (x y : J) :
    checkLeaf sv x = some y ↔ ∃ l cv, x = .arr l ∧ convertToVector (.arr l) = some cv ∧ (cv.length : Int) = d ∧ y = .arr cv := by
  rw [checkLeaf_vec_eq sv d hd]
  unfold vecArm
  constructor
  · intro h
    cases x with
    | arr l =>
      cases hcv : convertToVector (.arr l) with
      | none => simp [hcv] at h
      | some cv =>
        simp only [hcv] at h
        by_cases hne : (cv.length : Int) = d
        · simp [hne] at h
          exact ⟨l, cv, rfl, hcv, hne, h.symm⟩
        · simp [hne] at h
    | _ => simp [convertToVector] at h
  · rintro ⟨l, cv, rfl, hcv, hlen, rfl⟩
    simp [hcv, hlen]

/-- whatever entry B does to an array leaf, the result is the array itself or its float32 conversion -/
theorem checkLeaf_arr (sv : SchemaValue) (l : List J) (y : J) (h : checkLeaf sv (.arr l) = some y) :
    y = .arr l ∨ ∃ cv, convertToVector (.arr l) = some cv ∧ y = .arr cv := by
  unfold checkLeaf at h
  split at h
  · right
    cases hcv : convertToVector (.arr l) with
    | none => simp [hcv] at h
    | some cv =>
      cases hp : sv.flat with
      | none => simp [hcv, hp] at h
      | some p =>
        simp only [hcv, hp] at h
        split at h
        · simp at h
        · exact ⟨cv, rfl, by simpa using h.symm⟩
  · split at h
    · right
      cases hcv : convertToVector (.arr l) with
      | none => simp [hcv] at h
      | some cv =>
        cases hp : sv.vamana with
        | none => simp [hcv, hp] at h
        | some p =>
          simp only [hcv, hp] at h
          split at h
          · simp at h
          · exact ⟨cv, rfl, by simpa using h.symm⟩
    · split at h
      · simp at h
      · split at h
        · simp at h
        · split at h
          · simp at h
          · split at h
            · simp at h
              exact Or.inl h.2.symm
            · left; simpa using h.symm

theorem checkLeaf_obj_id (sv : SchemaValue) (m2 : Obj) (y : J) (h : checkLeaf sv (.obj m2) = some y) : y = .obj m2 := by
  unfold checkLeaf at h
  split at h
  · simp [convertToVector] at h
  · split at h
    · simp [convertToVector] at h
    · split at h
      · simp at h
      · split at h
        · simp at h
        · split at h
          · simp at h
          · split at h
            · simp at h
            · simpa using h.symm

theorem checkLeaf_vec_stable (svA : SchemaValue) (d : Int) (hd : svA.dim = some d) (svB : SchemaValue)
    (x xb : J) (hA : (checkLeaf svA x).isSome) (hB : checkLeaf svB x = some xb) : (checkLeaf svA xb).isSome := by
  cases hAx : checkLeaf svA x with
  | none => simp [hAx] at hA
  | some xa =>
    obtain ⟨l, cv, rfl, hcv, hlen, rfl⟩ := (checkLeaf_vec svA d hd x xa).mp hAx
    rcases checkLeaf_arr svB l xb hB with rfl | ⟨cv2, hcv2, rfl⟩
    · simp [hAx]
    · rw [hcv] at hcv2
      cases hcv2
      have := (checkLeaf_vec svA d hd (.arr cv) (.arr cv)).mpr ⟨cv, cv, rfl, convertToVector_idem l cv hcv, hlen, rfl⟩
      simp [this]

/-- what one `compatPath` step does to the top level of the map: nothing, or it replaces the
value under the first key of its path -/
theorem compatPath_top (kb : Str) (restB : List Str) (svB : SchemaValue) (m m' : Obj)
    (hB : compatPath (kb :: restB) svB m = some m') :
    (lookup m kb = none ∧ m' = m) ∨ ∃ x y, lookup m kb = some x ∧ m' = setKey m kb y := by
  cases hl : lookup m kb with
  | none =>
    left
    refine ⟨rfl, ?_⟩
    cases restB <;> simp [compatPath, hl] at hB <;> exact hB.symm
  | some x =>
    right
    cases restB with
    | nil =>
      simp only [compatPath, hl] at hB
      cases hc : checkLeaf svB x with
      | none => simp [hc] at hB
      | some y => simp [hc] at hB; exact ⟨x, y, rfl, hB.symm⟩
    | cons k2 r2 =>
      simp only [compatPath, hl] at hB
      cases x with
      | obj m2 =>
        cases hc : compatPath (k2 :: r2) svB m2 with
        | none => simp [hc] at hB
        | some m2' => simp [hc] at hB; exact ⟨_, _, rfl, hB.symm⟩
      | _ => simp at hB

/-- "the check of the vector entry A passes on m" is preserved by the rewriting step of any entry B -/
theorem compatPath_stable (pA : List Str) (svA : SchemaValue) (d : Int) (hd : svA.dim = some d)
    (pB : List Str) (svB : SchemaValue) (m m' : Obj)
    (hA : (compatPath pA svA m).isSome) (hB : compatPath pB svB m = some m') :
    (compatPath pA svA m').isSome := by
  induction pA generalizing m m' pB with
  | nil => simp [compatPath]
  | cons k restA ih =>
    cases pB with
    | nil => simp [compatPath] at hB; subst hB; exact hA
    | cons kb restB =>
      by_cases hkk : kb = k
      · subst hkk
        cases hl : lookup m kb with
        | none =>
          rcases compatPath_top kb restB svB m m' hB with ⟨_, rfl⟩ | ⟨x, y, hx, _⟩
          · exact hA
          · simp [hl] at hx
        | some x =>
          cases restA with
          | nil =>
            rw [compatPath_single_isSome, hl] at hA
            simp only at hA
            cases restB with
            | nil =>
              simp only [compatPath, hl] at hB
              cases hclB : checkLeaf svB x with
              | none => simp [hclB] at hB
              | some xb =>
                simp [hclB] at hB
                subst hB
                rw [compatPath_single_isSome, lookup_setKey_same]
                exact checkLeaf_vec_stable svA d hd svB x xb hA hclB
            | cons kb2 restB2 =>
              simp only [compatPath, hl] at hB
              cases x with
              | obj m2 => simp [checkLeaf_obj svA d hd] at hA
              | _ => simp at hB
          | cons ka2 restA2 =>
            rw [compatPath_cons_isSome, hl] at hA
            cases x with
            | obj m2 =>
              simp only at hA
              cases restB with
              | nil =>
                simp only [compatPath, hl] at hB
                cases hclB : checkLeaf svB (.obj m2) with
                | none => simp [hclB] at hB
                | some xb =>
                  simp [hclB] at hB
                  subst hB
                  have := checkLeaf_obj_id svB m2 xb hclB
                  subst this
                  rw [compatPath_cons_isSome, lookup_setKey_same]
                  exact hA
              | cons kb2 restB2 =>
                simp only [compatPath, hl] at hB
                cases hB2 : compatPath (kb2 :: restB2) svB m2 with
                | none => simp [hB2] at hB
                | some m2b =>
                  simp [hB2] at hB
                  subst hB
                  rw [compatPath_cons_isSome, lookup_setKey_same]
                  exact ih (kb2 :: restB2) m2 m2b hA hB2
            | _ => simp at hA
      · have hlk : lookup m' k = lookup m k := by
          rcases compatPath_top kb restB svB m m' hB with ⟨_, rfl⟩ | ⟨x, y, _, rfl⟩
          · rfl
          · exact lookup_setKey_other m kb k y (Ne.symm hkk)
        cases restA with
        | nil =>
          rw [compatPath_single_isSome] at hA ⊢
          rw [hlk]; exact hA
        | cons ka2 restA2 =>
          rw [compatPath_cons_isSome] at hA ⊢
          rw [hlk]; exact hA

/-- after the whole of `CheckCompatibleMap`, the check of every vector entry of the schema still
passes on the rewritten map -/
theorem compat_passes (schema : Schema) (m m' : Obj) (h : compat schema m = some m')
    (prop : Str) (sv : SchemaValue) (d : Int) (hd : sv.dim = some d) (hmem : (prop, sv) ∈ schema) :
    (compatPath (splitDot prop) sv m').isSome := by
  -- generalise: any entry whose check passes on the current map passes on the final map
  have pres : ∀ (rest : Schema) (a b : Obj), compat rest a = some b →
      (compatPath (splitDot prop) sv a).isSome → (compatPath (splitDot prop) sv b).isSome := by
    intro rest
    induction rest with
    | nil => intro a b hab ha; simp [compat] at hab; subst hab; exact ha
    | cons e rest ih =>
      intro a b hab ha
      obtain ⟨pB, svB⟩ := e
      simp only [compat] at hab
      cases hstep : compatPath (splitDot pB) svB a with
      | none => simp [hstep] at hab
      | some a1 =>
        simp [hstep] at hab
        exact ih a1 b hab (compatPath_stable _ sv d hd _ svB a a1 ha hstep)
  induction schema generalizing m with
  | nil => simp at hmem
  | cons e rest ih =>
    obtain ⟨pB, svB⟩ := e
    simp only [compat] at h
    cases hstep : compatPath (splitDot pB) svB m with
    | none => simp [hstep] at h
    | some m1 =>
      simp [hstep] at h
      rcases List.mem_cons.mp hmem with heq | hmem'
      · cases heq
        -- our entry is processed now: it passes on m, hence on m1 (its own step), hence to the end
        have h0 : (compatPath (splitDot prop) sv m).isSome := by simp [hstep]
        have h1 := compatPath_stable _ sv d hd _ sv m m1 h0 hstep
        exact pres rest m1 m' h h1
      · exact ih m1 h hmem'

/-! ### the executed part of a query

`indexManager.Search` (shard/index/search.go) looks at a query node through its property name only:
`_and` runs the `_and` list, `_or` the `_or` list, `_id` reads the string / stringArray options, a
property with an index runs the options of THE INDEX'S TYPE (and, for vector / text options, their
filter first).  Everything else a node carries — the other list, option blocks of other types, lists
on a leaf — is dormant: `Query.Validate` still looks at it (every block and both lists must be
well-formed), `ValidateSchema` and the execution must not. -/

mutual
def Query.live (schema : Schema) : Query → Query
  | .mk property flat vamana text string integer float stringArray ff vf tf and or =>
    if property = pAnd then .mk property none none none none none none none none none none (liveL schema and) []
    else if property = pOr then .mk property none none none none none none none none none none [] (liveL schema or)
    else if property = pId then .mk property none none none string none none stringArray none none none [] []
    else match lookup schema property with
      | none => emptyQuery property
      | some value =>
        if value.type = tVectorFlat then .mk property flat none none none none none none (liveO schema ff) none none [] []
        else if value.type = tVectorVamana then .mk property none vamana none none none none none none (liveO schema vf) none [] []
        else if value.type = tText then .mk property none none text none none none none none none (liveO schema tf) [] []
        else if value.type = tString then .mk property none none none string none none none none none none [] []
        else if value.type = tStringArray then .mk property none none none none none none stringArray none none none [] []
        else if value.type = tInteger then .mk property none none none none integer none none none none none [] []
        else if value.type = tFloat then .mk property none none none none none float none none none none [] []
        else emptyQuery property
def liveL (schema : Schema) : List Query → List Query
  | [] => []
  | q :: qs => q.live schema :: liveL schema qs
def liveO (schema : Schema) : Option Query → Option Query
  | none => none
  | some q => some (q.live schema)
end

mutual
theorem live_validSchema (schema : Schema) : (q : Query) → (q.live schema).validSchema schema = q.validSchema schema
  | .mk property flat vamana text s i f sa ff vf tf and or => by
    unfold Query.live
    by_cases h1 : property = pAnd
    · rw [if_pos h1]; unfold Query.validSchema; rw [if_pos h1, if_pos h1]; exact live_validSchemaL schema and
    · rw [if_neg h1]
      by_cases h2 : property = pOr
      · rw [if_pos h2]; unfold Query.validSchema; rw [if_neg h1, if_pos h2, if_neg h1, if_pos h2]; exact live_validSchemaL schema or
      · rw [if_neg h2]
        by_cases h3 : property = pId
        · rw [if_pos h3]; unfold Query.validSchema; rw [if_neg h1, if_neg h2, if_pos h3, if_neg h1, if_neg h2, if_pos h3]
        · rw [if_neg h3]
          cases hl : lookup schema property with
          | none =>
            simp only []
            unfold emptyQuery Query.validSchema
            rw [if_neg h1, if_neg h2, if_neg h3, if_neg h1, if_neg h2, if_neg h3]
            simp only [hl]
          | some value =>
            simp only []
            by_cases t1 : value.type = tVectorFlat
            · rw [if_pos t1]; unfold Query.validSchema
              rw [if_neg h1, if_neg h2, if_neg h3, if_neg h1, if_neg h2, if_neg h3]
              simp only [hl, if_pos t1]
              cases flat with
              | none => rfl
              | some o =>
                cases value.flat with
                | none => rfl
                | some p =>
                  simp only []
                  split
                  · rfl
                  · exact live_validSchemaO schema ff
            · rw [if_neg t1]
              by_cases t2 : value.type = tVectorVamana
              · rw [if_pos t2]; unfold Query.validSchema
                rw [if_neg h1, if_neg h2, if_neg h3, if_neg h1, if_neg h2, if_neg h3]
                simp only [hl, if_neg t1, if_pos t2]
                cases vamana with
                | none => rfl
                | some o =>
                  cases value.vamana with
                  | none => rfl
                  | some p =>
                    simp only []
                    split
                    · rfl
                    · exact live_validSchemaO schema vf
              · rw [if_neg t2]
                by_cases t3 : value.type = tText
                · rw [if_pos t3]; unfold Query.validSchema
                  rw [if_neg h1, if_neg h2, if_neg h3, if_neg h1, if_neg h2, if_neg h3]
                  simp only [hl, if_neg t1, if_neg t2, if_pos t3]
                  cases text with
                  | none => rfl
                  | some o => exact live_validSchemaO schema tf
                · rw [if_neg t3]
                  by_cases t4 : value.type = tString
                  · rw [if_pos t4]; unfold Query.validSchema
                    rw [if_neg h1, if_neg h2, if_neg h3, if_neg h1, if_neg h2, if_neg h3]
                    simp only [hl, if_neg t1, if_neg t2, if_neg t3, if_pos t4]
                  · rw [if_neg t4]
                    by_cases t5 : value.type = tStringArray
                    · rw [if_pos t5]; unfold Query.validSchema
                      rw [if_neg h1, if_neg h2, if_neg h3, if_neg h1, if_neg h2, if_neg h3]
                      simp only [hl, if_neg t1, if_neg t2, if_neg t3, if_neg t4, if_pos t5]
                    · rw [if_neg t5]
                      by_cases t6 : value.type = tInteger
                      · rw [if_pos t6]; unfold Query.validSchema
                        rw [if_neg h1, if_neg h2, if_neg h3, if_neg h1, if_neg h2, if_neg h3]
                        simp only [hl, if_neg t1, if_neg t2, if_neg t3, if_neg t4, if_neg t5, if_pos t6]
                      · rw [if_neg t6]
                        by_cases t7 : value.type = tFloat
                        · rw [if_pos t7]; unfold Query.validSchema
                          rw [if_neg h1, if_neg h2, if_neg h3, if_neg h1, if_neg h2, if_neg h3]
                          simp only [hl, if_neg t1, if_neg t2, if_neg t3, if_neg t4, if_neg t5, if_neg t6, if_pos t7]
                        · rw [if_neg t7]; unfold emptyQuery Query.validSchema
                          rw [if_neg h1, if_neg h2, if_neg h3, if_neg h1, if_neg h2, if_neg h3]
                          simp only [hl, if_neg t1, if_neg t2, if_neg t3, if_neg t4, if_neg t5, if_neg t6, if_neg t7]
theorem live_validSchemaL (schema : Schema) : (l : List Query) → validSchemaL schema (liveL schema l) = validSchemaL schema l
  | [] => by simp [liveL, validSchemaL]
  | q :: qs => by simp only [liveL, validSchemaL]; rw [live_validSchema schema q, live_validSchemaL schema qs]
theorem live_validSchemaO (schema : Schema) : (o : Option Query) → validSchemaO schema (liveO schema o) = validSchemaO schema o
  | none => by simp [liveO, validSchemaO]
  | some q => by simp only [liveO, validSchemaO]; exact live_validSchema schema q
end

mutual
theorem live_reach (schema : Schema) : (q : Query) → (q.live schema).reach schema = q.reach schema
  | .mk property flat vamana text s i f sa ff vf tf and or => by
    unfold Query.live
    by_cases h1 : property = pAnd
    · rw [if_pos h1]; unfold Query.reach; rw [if_pos h1, if_pos h1]; exact live_reachL schema and
    · rw [if_neg h1]
      by_cases h2 : property = pOr
      · rw [if_pos h2]; unfold Query.reach; rw [if_neg h1, if_pos h2, if_neg h1, if_pos h2]; exact live_reachL schema or
      · rw [if_neg h2]
        by_cases h3 : property = pId
        · rw [if_pos h3]; unfold Query.reach; rw [if_neg h1, if_neg h2, if_pos h3, if_neg h1, if_neg h2, if_pos h3]
        · rw [if_neg h3]
          cases hl : lookup schema property with
          | none =>
            simp only []
            unfold emptyQuery Query.reach
            rw [if_neg h1, if_neg h2, if_neg h3, if_neg h1, if_neg h2, if_neg h3]
            simp only [hl]
          | some value =>
            simp only []
            by_cases t1 : value.type = tVectorFlat
            · rw [if_pos t1]; unfold Query.reach
              rw [if_neg h1, if_neg h2, if_neg h3, if_neg h1, if_neg h2, if_neg h3]
              simp only [hl, if_pos t1]
              cases flat with
              | none => rfl
              | some o =>
                cases value.flat with
                | none => rfl
                | some p => simp only []; rw [live_reachO schema ff]
            · rw [if_neg t1]
              by_cases t2 : value.type = tVectorVamana
              · rw [if_pos t2]; unfold Query.reach
                rw [if_neg h1, if_neg h2, if_neg h3, if_neg h1, if_neg h2, if_neg h3]
                simp only [hl, if_neg t1, if_pos t2]
                cases vamana with
                | none => rfl
                | some o =>
                  cases value.vamana with
                  | none => rfl
                  | some p => simp only []; rw [live_reachO schema vf]
              · rw [if_neg t2]
                by_cases t3 : value.type = tText
                · rw [if_pos t3]; unfold Query.reach
                  rw [if_neg h1, if_neg h2, if_neg h3, if_neg h1, if_neg h2, if_neg h3]
                  simp only [hl, if_neg t1, if_neg t2, if_pos t3]
                  cases text with
                  | none => rfl
                  | some o => exact live_reachO schema tf
                · rw [if_neg t3]
                  have hnone : ∀ q : Query, q.property = property → q.flat = none → q.vamana = none → q.text = none → q.reach schema = [] := by
                    intro q hp _ _ _
                    cases q with
                    | mk p2 fl va te _ _ _ _ _ _ _ _ _ =>
                      simp only [Query.property] at hp
                      subst hp
                      unfold Query.reach
                      rw [if_neg h1, if_neg h2, if_neg h3]
                      simp only [hl, if_neg t1, if_neg t2, if_neg t3]
                  have hrhs : (Query.mk property flat vamana text s i f sa ff vf tf and or).reach schema = [] := by
                    unfold Query.reach
                    rw [if_neg h1, if_neg h2, if_neg h3]
                    simp only [hl, if_neg t1, if_neg t2, if_neg t3]
                  rw [hrhs]
                  (repeat' split) <;> exact hnone _ rfl rfl rfl rfl
theorem live_reachL (schema : Schema) : (l : List Query) → reachL schema (liveL schema l) = reachL schema l
  | [] => by simp [liveL, reachL]
  | q :: qs => by simp only [liveL, reachL]; rw [live_reach schema q, live_reachL schema qs]
theorem live_reachO (schema : Schema) : (o : Option Query) → reachO schema (liveO schema o) = reachO schema o
  | none => by simp [liveO, reachO]
  | some q => by simp only [liveO, reachO]; exact live_reach schema q
end

end Sema.C18
