/-
C18 — model of the DECISION LOGIC AFTER DECODING of every HTTP endpoint of semadb (API v1 and v2),
over an abstract JSON-like value type `J`.

What is modelled, line by line where it matters (Go file in brackets):
  * every `Validate()` of the request types                       [httpapi/v1,v2/handlers.go, models/*.go]
  * `IndexSchema.CheckCompatibleMap`, `convertToVector`           [models/index.go]
  * `Query.ValidateSchema`                                         [models/search.go]
  * `PointAsMap.ExtractIdField`, point size / plan checks          [models/point.go, handlers]
  * what a validated request hands on: the property values the shard extracts again from the
    marshalled point with msgpack `Query(path)`                    [shard/index/utils.go, dispatch.go]
    and the (dimension, query vector) pairs `indexManager.Search` hands to a distance closure
                                                                   [shard/index/search.go]
  * the paging arithmetic of `Shard.SearchPoints` on `BitVec 64`   [shard/shard.go]  (generated, T1-style,
    see Generated/FactsC18.lean; the pinned, defective arithmetic is kept here as `pinnedLo/Hi`)

Numbers: a typed Go integer is its mathematical value (`Int`); a float is the IEEE binary64 bit
pattern of its exact value (float32 widened exactly), compared with Base/Float.lean.
Strings are byte strings (`Bytes`).  msgpack Marshal/Unmarshal of a point is the identity on `J`.
Core-only: linked into the driver executable.
-/
import SemaModel.Base.Bytes
import SemaModel.Base.Float
namespace Sema.C18
open Sema

abbrev Str := Bytes

/-- ASCII string constant as bytes (only used with ASCII literals) -/
def S (s : String) : Str := s.toList.map fun c => BitVec.ofNat 8 c.toNat

/-! ## the abstract JSON value (what `any` holds after json / msgpack decoding) -/

/-- dynamic Go type of a decoded number (`encoding/json` only produces `f64`; msgpack all of them) -/
inductive NumKind | f64 | f32 | i8 | i16 | i32 | i64 | u8 | u16 | u32 | u64
  deriving DecidableEq, Repr, Inhabited

inductive J where
  | null
  | bool (b : Bool)
  /-- integers: the value; floats: binary64 bit pattern of the exact value -/
  | num (k : NumKind) (v : Int)
  | str (s : Str)
  | arr (l : List J)
  | obj (kv : List (Str × J))
  deriving Inhabited

abbrev Obj := List (Str × J)

def lookup (kv : List (Str × α)) (k : Str) : Option α :=
  match kv with
  | [] => none
  | (k', v) :: rest => if k' = k then some v else lookup rest k

/-- `m[k] = v` for a key that is present (replaces the first occurrence; appends otherwise) -/
def setKey (kv : Obj) (k : Str) (v : J) : Obj :=
  match kv with
  | [] => [(k, v)]
  | (k', v') :: rest => if k' = k then (k, v) :: rest else (k', v') :: setKey rest k v

def eraseKey (kv : Obj) (k : Str) : Obj := kv.filter fun p => !(p.1 = k)

def NumKind.isFloat : NumKind → Bool
  | .f64 | .f32 => true
  | _ => false

/-! ## msgpack: encoded size and `Decoder.Query` -/

def hdrStr (n : Nat) : Nat := if n < 32 then 1 else if n < 256 then 2 else if n ≤ 65535 then 3 else 5
def hdrSeq (n : Nat) : Nat := if n < 16 then 1 else if n ≤ 65535 then 3 else 5

def NumKind.encSize : NumKind → Nat
  | .f64 | .i64 | .u64 => 9
  | .f32 | .i32 | .u32 => 5
  | .i16 | .u16 => 3
  | .i8 | .u8 => 2

mutual
/-- `len(msgpack.Marshal(v))` with the default encoder flags (no compact ints / floats) -/
def J.encSize : J → Nat
  | .null => 1
  | .bool _ => 1
  | .num k _ => k.encSize
  | .str s => hdrStr s.length + s.length
  | .arr l => hdrSeq l.length + encSizeL l
  | .obj kv => hdrSeq kv.length + encSizeKV kv
def encSizeL : List J → Nat
  | [] => 0
  | x :: xs => x.encSize + encSizeL xs
def encSizeKV : List (Str × J) → Nat
  | [] => 0
  | (k, x) :: xs => hdrStr k.length + k.length + x.encSize + encSizeKV xs
end

/-- `strings.Split(s, ".")` -/
def splitDotAux : Str → Str → List Str
  | [], cur => [cur.reverse]
  | c :: cs, cur => if c = 0x2e#8 then cur.reverse :: splitDotAux cs [] else splitDotAux cs (c :: cur)
def splitDot (s : Str) : List Str := splitDotAux s []

def digitVal (c : Byte) : Option Nat := if 0x30 ≤ c.toNat ∧ c.toNat ≤ 0x39 then some (c.toNat - 0x30) else none
/-- `strconv.Atoi` as far as an array index is concerned: `none` = syntax / range error; a negative
value never equals an index -/
def atoiIdx (s : Str) : Option Int :=
  let (neg, ds) := match s with
    | c :: rest => if c = 0x2b#8 then (false, rest) else if c = 0x2d#8 then (true, rest) else (false, s)
    | [] => (false, s)
  if ds.isEmpty then none else
  match ds.foldlM (fun (acc : Nat) c => (digitVal c).map (acc * 10 + ·)) 0 with
  | none => none
  | some n => if neg then (if n ≤ 2 ^ 63 then some (-(n : Int)) else none) else (if n < 2 ^ 63 then some (n : Int) else none)

inductive QRes | err | vals (l : List J)
  deriving Inhabited

def QRes.append : QRes → QRes → QRes
  | .vals a, .vals b => .vals (a ++ b)
  | _, _ => .err

/-- msgpack `Decoder.Query(path)` on the encoding of `v`; `segs` are the dot-separated keys still to
consume (`nextKey`).  An empty key (also: no key left) returns the current value whole. -/
def query : List Str → J → QRes
  | [], v => .vals [v]
  | seg :: rest, v =>
    if seg = [] then .vals [v] else
    match v with
    | .obj kv => match lookup kv seg with
        | none => .vals []
        | some x => query rest x
    | .arr l =>
        if seg = S "*" then l.foldl (fun acc x => acc.append (query rest x)) (.vals [])
        else match atoiIdx seg with
          | none => .err
          | some i => if i < 0 then .vals [] else match l[i.toNat]? with
              | none => .vals []
              | some x => query rest x
    | _ => .err

/-- `getPropertyFromBytes`: the value an index receives for `property` (`none`: field absent / nil;
`err`: the shard refuses the batch) -/
inductive Prop' | err | absent | val (v : J)

def getProperty (property : Str) (data : J) : Prop' :=
  match query (splitDot property) data with
  | .err => .err
  | .vals [] => .absent
  | .vals (.null :: _) => .absent
  | .vals (v :: _) => .val v

/-- `castDataToArray[float32]`: the vector handed to the flat / vamana index (`none`: cast error) -/
def castF32 : J → Option (List Int)
  | .arr l => l.mapM fun x => match x with | .num .f32 v => some v | _ => none
  | _ => none

/-! ## limits and enumerations (documented values; pinned to the source by Generated/FactsC18.lean) -/

structure Range where
  lo : Option Int
  hi : Option Int
  deriving DecidableEq, Repr

/-- the rejecting condition `x < lo || x > hi` -/
def Range.viol (r : Range) (x : Int) : Bool :=
  (match r.lo with | some l => decide (x < l) | none => false) ||
  (match r.hi with | some h => decide (x > h) | none => false)

structure Spec where
  v2IdLen : Range            -- CreateCollectionRequest.Validate (v2)
  v1IdLen : Range
  v2PathLen : Range          -- CollectionURIMiddleware
  v1PathLen : Range
  flatVecSize : Range        -- IndexVectorFlatParameters
  vamanaVecSize : Range
  vamanaSearchSize : Range
  vamanaDegree : Range
  alphaLo : Int              -- float32(1.1) widened, bit pattern
  alphaHi : Int
  binTrigger : Range
  pqCentroids : Range
  pqSubVectors : Range
  pqTrigger : Range
  v2Insert : Range           -- number of points per request
  v2Update : Range
  v2Delete : Range
  v1Insert : Range
  v1Update : Range
  v1Delete : Range
  v1VecLen : Range
  v1Limit : Range
  v1CreateVecSize : Range
  sortLen : Range
  offset : Range
  limit : Range
  qVamanaVec : Range
  qVamanaSearchSize : Range
  qVamanaLimit : Range
  qFlatVec : Range
  qFlatLimit : Range
  qTextLimit : Range
  deriving DecidableEq, Repr

structure Enums where
  indexTypes : List Str
  metrics : List Str          -- accepted by both vector index types
  v1Metrics : List Str
  quantizers : List Str
  binMetrics : List Str
  analysers : List Str
  vecOps : List Str
  textOps : List Str
  strOps : List Str           -- all accepted operators of SearchStringOptions (inRange included)
  intOps : List Str
  floatOps : List Str
  saOps : List Str
  deriving DecidableEq, Repr

def r (lo hi : Int) : Range := ⟨some lo, some hi⟩

/-- documented limits (httpapi/v2/openapi.yaml, httpapi/v1/openapi.yaml, docs/) -/
def Spec.documented : Spec where
  v2IdLen := r 3 24
  v1IdLen := r 3 16
  v2PathLen := r 3 24
  v1PathLen := r 3 16
  flatVecSize := r 1 4096
  vamanaVecSize := r 1 4096
  vamanaSearchSize := r 25 75
  vamanaDegree := r 32 64
  alphaLo := 0x3FF19999A0000000
  alphaHi := 0x3FF8000000000000
  binTrigger := r 0 50000
  pqCentroids := r 2 256
  pqSubVectors := ⟨some 2, none⟩
  pqTrigger := r 1000 10000
  v2Insert := r 1 10000
  v2Update := r 1 100
  v2Delete := r 1 100
  v1Insert := r 1 10000
  v1Update := r 1 100
  v1Delete := r 1 100
  v1VecLen := r 1 2000
  v1Limit := r 0 75
  v1CreateVecSize := r 1 4096
  sortLen := ⟨none, some 10⟩
  offset := ⟨some 0, none⟩
  limit := r 1 100
  qVamanaVec := r 1 4096
  qVamanaSearchSize := r 25 75
  qVamanaLimit := r 1 75
  qFlatVec := r 1 4096
  qFlatLimit := r 1 75
  qTextLimit := r 1 75

def tVectorFlat := S "vectorFlat"
def tVectorVamana := S "vectorVamana"
def tText := S "text"
def tString := S "string"
def tInteger := S "integer"
def tFloat := S "float"
def tStringArray := S "stringArray"
def mHaversine := S "haversine"
def qNone := S "none"
def qBinary := S "binary"
def qProduct := S "product"
def opEquals := S "equals"
def opContainsAny := S "containsAny"
def opInRange := S "inRange"
def pAnd := S "_and"
def pOr := S "_or"
def pId := S "_id"
def kVector := S "vector"
def kMetadata := S "metadata"

def Enums.documented : Enums where
  -- each list is a SET of accepted values; tools/facts_c18 emits them sorted (byte order of the Go strings)
  indexTypes := [tFloat, tInteger, tString, tStringArray, tText, tVectorFlat, tVectorVamana]
  metrics := [S "cosine", S "dot", S "euclidean", S "hamming", mHaversine, S "jaccard"]
  v1Metrics := [S "cosine", S "dot", S "euclidean"]
  quantizers := [qBinary, qNone, qProduct]
  binMetrics := [S "hamming", S "jaccard"]
  analysers := [S "standard"]
  vecOps := [S "near"]
  textOps := [S "containsAll", opContainsAny]
  strOps := [opEquals, S "greaterThan", S "greaterThanOrEquals", opInRange, S "lessThan", S "lessThanOrEquals", S "notEquals", S "startsWith"]
  intOps := [opEquals, S "greaterThan", S "greaterThanOrEquals", opInRange, S "lessThan", S "lessThanOrEquals", S "notEquals"]
  floatOps := [opEquals, S "greaterThan", S "greaterThanOrEquals", opInRange, S "lessThan", S "lessThanOrEquals", S "notEquals"]
  saOps := [S "containsAll", opContainsAny]

/-! ## uuid.Parse (github.com/google/uuid v1.6.0) -/

def isHex (c : Byte) : Bool :=
  let n := c.toNat
  (0x30 ≤ n && n ≤ 0x39) || (0x61 ≤ n && n ≤ 0x66) || (0x41 ≤ n && n ≤ 0x46)

/-- the 36-character form `xxxxxxxx-xxxx-xxxx-xxxx-xxxxxxxxxxxx` -/
def uuid36 (s : Str) : Bool :=
  s.length == 36 &&
  (List.range 36).all fun i =>
    let c := s.getD i 0
    if i == 8 || i == 13 || i == 18 || i == 23 then c == 0x2d#8 else isHex c

def lowerAscii (c : Byte) : Byte := if 0x41 ≤ c.toNat ∧ c.toNat ≤ 0x5a then c + 0x20#8 else c

/-- `uuid.Parse(s)` succeeds: 36 standard, 45 with `urn:uuid:` (case-insensitive prefix), 38 with
braces, 32 plain hex -/
def uuidOk (s : Str) : Bool :=
  if s.length == 36 then uuid36 s
  else if s.length == 45 then (s.take 9).map lowerAscii == S "urn:uuid:" && uuid36 (s.drop 9)
  else if s.length == 38 then uuid36 ((s.drop 1).take 36)   -- braces are not checked by the library
  else if s.length == 32 then s.all isHex
  else false

/-! ## index schema -/

structure BinaryQ where
  threshold : Option Int
  trigger : Int
  metric : Str
  deriving Repr

structure ProductQ where
  numCentroids : Int
  numSubVectors : Int
  trigger : Int
  deriving Repr

structure Quantizer where
  type : Str
  binary : Option BinaryQ
  product : Option ProductQ
  deriving Repr

structure FlatP where
  vectorSize : Int
  metric : Str
  quantizer : Option Quantizer
  deriving Repr

structure VamanaP where
  vectorSize : Int
  metric : Str
  searchSize : Int
  degreeBound : Int
  alpha : Int
  quantizer : Option Quantizer
  deriving Repr

structure SchemaValue where
  type : Str
  flat : Option FlatP
  vamana : Option VamanaP
  text : Option Str          -- analyser
  string : Option Bool       -- caseSensitive
  stringArray : Option Bool
  deriving Repr

abbrev Schema := List (Str × SchemaValue)

def fbits (x : Int) : BitVec 64 := BitVec.ofInt 64 x

def BinaryQ.valid (sp : Spec) (en : Enums) (b : BinaryQ) : Bool :=
  !(b.threshold.isNone && sp.binTrigger.viol b.trigger) && en.binMetrics.contains b.metric

def ProductQ.valid (sp : Spec) (p : ProductQ) : Bool :=
  !sp.pqCentroids.viol p.numCentroids && !sp.pqSubVectors.viol p.numSubVectors && !sp.pqTrigger.viol p.trigger

def Quantizer.valid (sp : Spec) (en : Enums) (q : Quantizer) : Bool :=
  if q.type = qNone then true
  else if q.type = qBinary then (match q.binary with | none => false | some b => b.valid sp en)
  else if q.type = qProduct then (match q.product with | none => false | some p => p.valid sp)
  else false

/-- `Quantizer.ValidateFor(vectorSize, distanceMetric)`: what the vector store demands of a product
quantizer (shard/vectorstore `newProductQuantizer`); hamming / jaccard replace the quantizer -/
def Quantizer.validFor (q : Quantizer) (vectorSize : Int) (metric : Str) : Bool :=
  if q.type = qProduct then
    match q.product with
    | none => true
    | some p =>
      if metric = S "hamming" || metric = S "jaccard" then true
      else if metric = S "euclidean" || metric = S "cosine" || metric = S "dot" then vectorSize % p.numSubVectors == 0
      else false
  else true

def optQuantValid (sp : Spec) (en : Enums) (vectorSize : Int) (metric : Str) : Option Quantizer → Bool
  | none => true
  | some q => q.valid sp en && q.validFor vectorSize metric

def FlatP.valid (sp : Spec) (en : Enums) (p : FlatP) : Bool :=
  !sp.flatVecSize.viol p.vectorSize && en.metrics.contains p.metric &&
  !(p.metric = mHaversine && p.vectorSize != 2) && optQuantValid sp en p.vectorSize p.metric p.quantizer

def VamanaP.valid (sp : Spec) (en : Enums) (p : VamanaP) : Bool :=
  !sp.vamanaVecSize.viol p.vectorSize && en.metrics.contains p.metric &&
  !(p.metric = mHaversine && p.vectorSize != 2) &&
  !sp.vamanaSearchSize.viol p.searchSize && !sp.vamanaDegree.viol p.degreeBound &&
  !(F64.lt (fbits p.alpha) (fbits sp.alphaLo) || F64.gt (fbits p.alpha) (fbits sp.alphaHi)) &&
  optQuantValid sp en p.vectorSize p.metric p.quantizer

/-- `IndexSchemaValue.Validate` -/
def SchemaValue.valid (sp : Spec) (en : Enums) (v : SchemaValue) : Bool :=
  en.indexTypes.contains v.type &&
  (if v.type = tVectorFlat then (match v.flat with | none => false | some p => p.valid sp en)
   else if v.type = tVectorVamana then (match v.vamana with | none => false | some p => p.valid sp en)
   else if v.type = tText then (match v.text with | none => false | some a => en.analysers.contains a)
   else if v.type = tString then v.string.isSome
   else if v.type = tStringArray then v.stringArray.isSome
   else true)

/-- `IndexSchema.Validate` (the Go map is visited in arbitrary order: all entries must pass) -/
def Schema.valid (sp : Spec) (en : Enums) (s : Schema) : Bool := s.all fun p => p.2.valid sp en

/-! ## CheckCompatibleMap -/

/-- one element of `convertToVector`: float32 stays, float64 is converted (rounding not modelled) -/
def toF32Elem : J → Option J
  | .num .f32 v => some (.num .f32 v)
  | .num .f64 v => some (.num .f32 v)
  | _ => none

/-- `convertToVector` on a decoded value: only `[]any` of float32 / float64 occurs after decoding;
the result is a `[]float32` (element values: rounding to float32 is not modelled, only kind and count) -/
def convertToVector : J → Option (List J)
  | .arr l => l.mapM toF32Elem
  | _ => none

/-- the type switch of one schema entry on the value found at its path.
`none`: incompatible (400); `some v'`: accepted, the map now holds `v'` -/
def checkLeaf (sv : SchemaValue) (v : J) : Option J :=
  if sv.type = tVectorFlat then
    match convertToVector v, sv.flat with
    | some vec, some p => if (vec.length : Int) != p.vectorSize then none else some (.arr vec)
    | _, _ => none
  else if sv.type = tVectorVamana then
    match convertToVector v, sv.vamana with
    | some vec, some p => if (vec.length : Int) != p.vectorSize then none else some (.arr vec)
    | _, _ => none
  else if sv.type = tText || sv.type = tString then
    match v with | .str _ => some v | _ => none
  else if sv.type = tInteger then
    match v with
    | .num .i64 _ => some v
    | .num .i32 x | .num .u32 x | .num .f32 x | .num .f64 x => some (.num .i64 x)   -- value conversion not modelled
    | _ => none
  else if sv.type = tFloat then
    match v with
    | .num .f64 _ => some v
    | .num .f32 x => some (.num .f64 x)
    | _ => none
  else if sv.type = tStringArray then
    match v with
    | .arr l => if l.all (fun x => match x with | .str _ => true | _ => false) then some v else none
    | _ => none
  else some v

/-- one schema entry: walk `parts` (= `strings.Split(property, ".")`) through nested maps -/
def compatPath : List Str → SchemaValue → Obj → Option Obj
  | [], _, m => some m
  | [k], sv, m =>
    match lookup m k with
    | none => some m                      -- property not in the map: skipped
    | some v => (checkLeaf sv v).map fun v' => setKey m k v'
  | part :: rest, sv, m =>
    match lookup m part with
    | none => some m
    | some (.obj m2) => (compatPath rest sv m2).map fun m2' => setKey m part (.obj m2')
    | some _ => none                      -- "expected nested map"

/-- `IndexSchema.CheckCompatibleMap`; `none` = error. A nil map (`J.null`) has no keys. -/
def compat : Schema → Obj → Option Obj
  | [], m => some m
  | (prop, sv) :: rest, m => (compatPath (splitDot prop) sv m).bind (compat rest)

/-! ## points: ExtractIdField, size check -/

/-- `ExtractIdField(createNew)`: `none` = error; `some (idGiven?, map without _id)` -/
def extractId (createNew : Bool) (m : Obj) : Option (Option Str × Obj) :=
  match lookup m pId with
  | none => if createNew then some (none, m) else none
  | some (.str s) => if uuidOk s then some (some s, eraseKey m pId) else none
  | some _ => none

/-- a decoded element of `points`: `null` (nil map) or an object -/
def pointObj : J → Option (Bool × Obj)
  | .null => some (true, [])
  | .obj kv => some (false, kv)
  | _ => none

/-- the data bytes' content that is stored for a point (nil map marshals to msgpack nil) -/
def dataOf (isNil : Bool) (m : Obj) : J := if isNil && m.isEmpty then .null else .obj m

structure StoredPoint where
  id : Option Str        -- none: a fresh uuid
  data : J
  deriving Inhabited

/-- body of the per-point loop of `HandleInsertPoints` (v2) -/
def v2InsertPoint (schema : Schema) (maxSize : Int) (p : J) : Option StoredPoint :=
  match pointObj p with
  | none => none
  | some (isNil, m) =>
    match compat schema m with
    | none => none
    | some m1 =>
      match extractId true m1 with
      | none => none
      | some (id, m2) =>
        let d := dataOf isNil m2
        if (d.encSize : Int) > maxSize then none else some ⟨id, d⟩

/-- body of the per-point loop of `HandleUpdatePoints` (v2) -/
def v2UpdatePoint (schema : Schema) (maxSize : Int) (p : J) : Option StoredPoint :=
  match pointObj p with
  | none => none
  | some (isNil, m) =>
    match extractId false m with
    | none => none
    | some (id, m1) =>
      match compat schema m1 with
      | none => none
      | some m2 =>
        let d := dataOf isNil m2
        if (d.encSize : Int) > maxSize then none else some ⟨id, d⟩

/-! ## search request -/

structure VecOpts where
  vector : List Int
  operator : Str
  searchSize : Int      -- vamana only
  limit : Int
  weight : Option Int
  deriving Repr

structure TextOpts where
  value : Str
  operator : Str
  limit : Int
  weight : Option Int
  deriving Repr

structure StrOpts where
  value : Str
  operator : Str
  endValue : Str
  deriving Repr

structure IntOpts where
  value : Int
  operator : Str
  endValue : Int
  deriving Repr

structure FloatOpts where
  value : Int
  operator : Str
  endValue : Int
  deriving Repr

structure SAOpts where
  value : List Str
  operator : Str
  deriving Repr

/-- `models.Query`; the `Filter` of the vectorFlat / vectorVamana / text options is stored beside
the options (`none` when the options are absent) -/
inductive Query where
  | mk (property : Str)
      (flat : Option VecOpts) (vamana : Option VecOpts) (text : Option TextOpts)
      (string : Option StrOpts) (integer : Option IntOpts) (float : Option FloatOpts) (stringArray : Option SAOpts)
      (flatFilter vamanaFilter textFilter : Option Query)
      (and or : List Query)
  deriving Inhabited

def Query.property : Query → Str | .mk p .. => p
def Query.flat : Query → Option VecOpts | .mk _ f .. => f
def Query.vamana : Query → Option VecOpts | .mk _ _ v .. => v
def Query.text : Query → Option TextOpts | .mk _ _ _ t .. => t
def Query.string : Query → Option StrOpts | .mk _ _ _ _ s .. => s
def Query.integer : Query → Option IntOpts | .mk _ _ _ _ _ i .. => i
def Query.float : Query → Option FloatOpts | .mk _ _ _ _ _ _ f .. => f
def Query.stringArray : Query → Option SAOpts | .mk _ _ _ _ _ _ _ sa .. => sa
def Query.flatFilter : Query → Option Query | .mk _ _ _ _ _ _ _ _ ff .. => ff
def Query.vamanaFilter : Query → Option Query | .mk _ _ _ _ _ _ _ _ _ vf .. => vf
def Query.textFilter : Query → Option Query | .mk _ _ _ _ _ _ _ _ _ _ tf .. => tf
def Query.and : Query → List Query | .mk _ _ _ _ _ _ _ _ _ _ _ a _ => a
def Query.or : Query → List Query | .mk _ _ _ _ _ _ _ _ _ _ _ _ o => o

/-- `SearchVectorVamanaOptions.Validate` without the filter -/
def vamanaOptsValid (sp : Spec) (en : Enums) (o : VecOpts) : Bool :=
  !sp.qVamanaVec.viol o.vector.length && en.vecOps.contains o.operator &&
  !sp.qVamanaSearchSize.viol o.searchSize && !sp.qVamanaLimit.viol o.limit && !(o.searchSize < o.limit)

def flatOptsValid (sp : Spec) (en : Enums) (o : VecOpts) : Bool :=
  !sp.qFlatVec.viol o.vector.length && en.vecOps.contains o.operator && !sp.qFlatLimit.viol o.limit

def textOptsValid (sp : Spec) (en : Enums) (o : TextOpts) : Bool :=
  !o.value.isEmpty && en.textOps.contains o.operator && !sp.qTextLimit.viol o.limit

def strOptsValid (en : Enums) (o : StrOpts) : Bool :=
  !o.value.isEmpty && en.strOps.contains o.operator &&
  !(o.operator = opInRange && lexLe o.endValue o.value)

def intOptsValid (en : Enums) (o : IntOpts) : Bool :=
  en.intOps.contains o.operator && !(o.operator = opInRange && o.endValue ≤ o.value)

def floatOptsValid (en : Enums) (o : FloatOpts) : Bool :=
  en.floatOps.contains o.operator && !(o.operator = opInRange && F64.le (fbits o.endValue) (fbits o.value))

def saOptsValid (en : Enums) (o : SAOpts) : Bool :=
  !o.value.isEmpty && en.saOps.contains o.operator

def optAll (f : α → Bool) : Option α → Bool
  | none => true
  | some x => f x

/-- the `_id` clause of `Query.Validate` -/
def idClauseValid (s : Option StrOpts) (sa : Option SAOpts) : Bool :=
  match s, sa with
  | some o, _ => o.operator = opEquals && uuidOk o.value
  | none, some o => o.operator = opContainsAny && o.value.all uuidOk
  | none, none => false

mutual
/-- `Query.Validate` -/
def Query.valid (sp : Spec) (en : Enums) : Query → Bool
  | .mk property flat vamana text string integer float stringArray ff vf tf and or =>
    !property.isEmpty &&
    optAll (flatOptsValid sp en) flat && validO sp en ff &&
    optAll (vamanaOptsValid sp en) vamana && validO sp en vf &&
    optAll (textOptsValid sp en) text && validO sp en tf &&
    optAll (strOptsValid en) string && optAll (intOptsValid en) integer &&
    optAll (floatOptsValid en) float && optAll (saOptsValid en) stringArray &&
    !(property = pAnd && and.isEmpty) && !(property = pOr && or.isEmpty) &&
    validL sp en and && validL sp en or &&
    (if property = pId then idClauseValid string stringArray else true)
def validL (sp : Spec) (en : Enums) : List Query → Bool
  | [] => true
  | q :: qs => q.valid sp en && validL sp en qs
def validO (sp : Spec) (en : Enums) : Option Query → Bool
  | none => true
  | some q => q.valid sp en
end

/-- result of `Query.ValidateSchema`: `panic` models a nil dereference of the index parameters
(impossible for a validated schema, `Props.schema_ok_no_panic`) -/
inductive VS | ok | bad | panic
  deriving DecidableEq, Repr

def VS.and : VS → VS → VS
  | .ok, x => x
  | .bad, _ => .bad
  | .panic, _ => .panic

mutual
/-- `Query.ValidateSchema(schema)` -/
def Query.validSchema (schema : Schema) : Query → VS
  | .mk property flat vamana text string integer float stringArray ff vf tf and or =>
    if property = pAnd then validSchemaL schema and
    else if property = pOr then validSchemaL schema or
    else if property = pId then .ok
    else match lookup schema property with
      | none => .bad
      | some value =>
        if value.type = tVectorFlat then
          match flat with
          | none => .bad
          | some o => match value.flat with
            | none => .panic
            | some p => if (o.vector.length : Int) != p.vectorSize then .bad else validSchemaO schema ff
        else if value.type = tVectorVamana then
          match vamana with
          | none => .bad
          | some o => match value.vamana with
            | none => .panic
            | some p => if (o.vector.length : Int) != p.vectorSize then .bad else validSchemaO schema vf
        else if value.type = tText then
          match text with
          | none => .bad
          | some _ => validSchemaO schema tf
        else if value.type = tString then (if string.isSome then .ok else .bad)
        else if value.type = tStringArray then (if stringArray.isSome then .ok else .bad)
        else if value.type = tInteger then (if integer.isSome then .ok else .bad)
        else if value.type = tFloat then (if float.isSome then .ok else .bad)
        else .bad
def validSchemaL (schema : Schema) : List Query → VS
  | [] => .ok
  | q :: qs => (q.validSchema schema).and (validSchemaL schema qs)
def validSchemaO (schema : Schema) : Option Query → VS
  | none => .ok
  | some q => q.validSchema schema
end

/-- one vector handed to a distance closure by `indexManager.Search`: index dimension, query length -/
structure Reach where
  dim : Int
  len : Nat
  deriving Repr

mutual
/-- every (dimension, query vector length) pair `indexManager.Search` can hand to a vector store
(over-approximation: errors of sub-searches are ignored) -/
def Query.reach (schema : Schema) : Query → List Reach
  | .mk property flat vamana text _ _ _ _ ff vf tf and or =>
    if property = pAnd then reachL schema and
    else if property = pOr then reachL schema or
    else if property = pId then []
    else match lookup schema property with
      | none => []
      | some value =>
        if value.type = tVectorFlat then
          match flat, value.flat with
          | some o, some p => reachO schema ff ++ [⟨p.vectorSize, o.vector.length⟩]
          | _, _ => []
        else if value.type = tVectorVamana then
          match vamana, value.vamana with
          | some o, some p => reachO schema vf ++ [⟨p.vectorSize, o.vector.length⟩]
          | _, _ => []
        else if value.type = tText then
          match text with
          | some _ => reachO schema tf
          | none => []
        else []
def reachL (schema : Schema) : List Query → List Reach
  | [] => []
  | q :: qs => q.reach schema ++ reachL schema qs
def reachO (schema : Schema) : Option Query → List Reach
  | none => []
  | some q => q.reach schema
end

structure SortOpt where
  property : Str
  descending : Bool
  deriving Repr

structure SearchReq where
  query : Query
  select : List Str
  sort : List SortOpt
  offset : Int
  limit : Int

/-- `SearchRequest.Validate` -/
def SearchReq.valid (sp : Spec) (en : Enums) (r : SearchReq) : Bool :=
  r.query.valid sp en && !sp.sortLen.viol r.sort.length && r.sort.all (fun s => !s.property.isEmpty) &&
  !sp.offset.viol r.offset && !sp.limit.viol r.limit

/-! ## paging arithmetic of the PINNED `Shard.SearchPoints` (Go `int` = `BitVec 64`, wrapping `+`)
`finalResults[min(Offset, n) : min(Offset+Limit, n)]` — kept to state the defect; the arithmetic of
the working tree is generated into `Sema.Gen.FactsC18.sliceLo / sliceHi`. -/

def smin (a b : BitVec 64) : BitVec 64 := if a.slt b then a else b
def smax (a b : BitVec 64) : BitVec 64 := if a.slt b then b else a
def pinnedLo (off _lim n : BitVec 64) : BitVec 64 := smin off n
def pinnedHi (off lim n : BitVec 64) : BitVec 64 := smin (off + lim) n

/-- Go's slice expression `s[lo:hi]` on a slice of length (= capacity bound used here) `n` does not panic -/
def sliceOk (lo hi n : BitVec 64) : Prop := 0 ≤ lo.toInt ∧ lo.toInt ≤ hi.toInt ∧ hi.toInt ≤ n.toInt

/-! ## handlers -/

structure Plan where
  maxCollections : Int
  maxPoints : Int
  maxPointSize : Int
  deriving Repr

/-- what the collection middleware finds for the path's collection id -/
structure ColCtx where
  schema : Schema
  pointCount : Int
  deriving Repr

structure Ctx where
  plan : Plan
  ncols : Int                 -- collections the user owns (create quota)
  exists_ : Bool              -- create: a collection with the requested id exists
  cidLen : Nat                -- length of the {collectionId} path value
  col : Option ColCtx

inductive Effect where
  | createCollection (id : Str) (schema : Schema)
  | deleteCollection
  | insertPoints (pts : List StoredPoint)
  | updatePoints (pts : List StoredPoint)
  | deletePoints (ids : List Str)
  | search (schema : Schema) (r : SearchReq)      -- a read

def Effect.isWrite : Effect → Bool
  | .search .. => false
  | _ => true

/-- answer of a handler model: HTTP status and what was handed to the cluster layer.
status 0 = the Go code would panic (nil dereference) -/
structure Outcome where
  status : Nat
  eff : Option Effect

def reject (code : Nat) : Outcome := ⟨code, none⟩
def accept (e : Effect) : Outcome := ⟨200, some e⟩

def isV1Collection (s : Schema) : Bool :=
  match lookup s kVector with
  | some v => v.type = tVectorVamana && v.vamana.isSome
  | none => false

/-- collection middleware (both versions): 400 on id length, 404 when absent, (v1) 400 for a
collection without the v1 index -/
def withCol (rng : Range) (v1 : Bool) (ctx : Ctx) (k : ColCtx → Outcome) : Outcome :=
  if rng.viol ctx.cidLen then reject 400 else
  match ctx.col with
  | none => reject 404
  | some c => if v1 && !isV1Collection c.schema then reject 400 else k c

def alnumLower (c : Byte) : Bool := let n := c.toNat; (0x61 ≤ n && n ≤ 0x7a) || (0x30 ≤ n && n ≤ 0x39)
def alnumAny (c : Byte) : Bool := let n := c.toNat; alnumLower c || (0x41 ≤ n && n ≤ 0x5a)

def createOutcome (ctx : Ctx) (id : Str) (schema : Schema) : Outcome :=
  if ctx.exists_ then reject 409
  else if ctx.ncols ≥ ctx.plan.maxCollections then reject 403
  else accept (.createCollection id schema)

/-- decoded bodies -/
structure V2Create where
  id : Str
  schema : Schema

def v2Create (sp : Spec) (en : Enums) (ctx : Ctx) (body : Option V2Create) : Outcome :=
  match body with
  | none => reject 400
  | some b =>
    if sp.v2IdLen.viol b.id.length || !b.id.all alnumLower || !b.schema.valid sp en then reject 400
    else createOutcome ctx b.id b.schema

def mapAll (f : α → Option β) : List α → Option (List β)
  | [] => some []
  | x :: xs => match f x with
    | none => none
    | some y => (mapAll f xs).map (y :: ·)

def v2Insert (sp : Spec) (ctx : Ctx) (body : Option (List J)) : Outcome :=
  withCol sp.v2PathLen false ctx fun c =>
    match body with
    | none => reject 400
    | some pts =>
      if sp.v2Insert.viol pts.length then reject 400 else
      match mapAll (v2InsertPoint c.schema ctx.plan.maxPointSize) pts with
      | none => reject 400
      | some sps =>
        if c.pointCount + pts.length > ctx.plan.maxPoints then reject 403
        else accept (.insertPoints sps)

def v2Update (sp : Spec) (ctx : Ctx) (body : Option (List J)) : Outcome :=
  withCol sp.v2PathLen false ctx fun c =>
    match body with
    | none => reject 400
    | some pts =>
      if sp.v2Update.viol pts.length then reject 400 else
      match mapAll (v2UpdatePoint c.schema ctx.plan.maxPointSize) pts with
      | none => reject 400
      | some sps => accept (.updatePoints sps)

def deletePoints (rng pathRng : Range) (v1 : Bool) (ctx : Ctx) (body : Option (List Str)) : Outcome :=
  withCol pathRng v1 ctx fun _ =>
    match body with
    | none => reject 400
    | some ids =>
      if rng.viol ids.length || !ids.all uuidOk then reject 400 else accept (.deletePoints ids)

def v2Search (sp : Spec) (en : Enums) (ctx : Ctx) (body : Option SearchReq) : Outcome :=
  withCol sp.v2PathLen false ctx fun c =>
    match body with
    | none => reject 400
    | some r =>
      if !r.valid sp en then reject 400 else
      match r.query.validSchema c.schema with
      | .bad => reject 400
      | .panic => ⟨0, none⟩
      | .ok => accept (.search c.schema r)

def getCollection (rng : Range) (v1 : Bool) (ctx : Ctx) : Outcome :=
  withCol rng v1 ctx fun _ => ⟨200, none⟩

def deleteCollection (rng : Range) (v1 : Bool) (ctx : Ctx) : Outcome :=
  withCol rng v1 ctx fun _ => accept .deleteCollection

/-! ### API v1 -/

structure V1Create where
  id : Str
  vectorSize : Int
  metric : Str

def v1Schema (b : V1Create) : Schema :=
  [(kVector, { type := tVectorVamana, flat := none, text := none, string := none, stringArray := none,
               vamana := some { vectorSize := b.vectorSize, metric := b.metric, searchSize := 75, degreeBound := 64,
                                alpha := 0x3FF3333340000000, quantizer := none } })]

def v1Create (sp : Spec) (en : Enums) (ctx : Ctx) (body : Option V1Create) : Outcome :=
  match body with
  | none => reject 400
  | some b =>
    if sp.v1IdLen.viol b.id.length || !b.id.all alnumAny || sp.v1CreateVecSize.viol b.vectorSize ||
       !en.v1Metrics.contains b.metric then reject 400
    else createOutcome ctx b.id (v1Schema b)

structure V1Point where
  id : Str
  vector : List Int
  metadata : J

/-- dimension of the v1 index; `none` models the nil dereference of the pinned code (guarded by
`isV1Collection` in the middleware since the repair) -/
def v1Dim (s : Schema) : Option Int :=
  match lookup s kVector with
  | some v => v.vamana.map (·.vectorSize)
  | none => none

def v1PointObj (p : V1Point) : Obj :=
  [(kVector, .arr (p.vector.map fun x => .num .f32 x)), (kMetadata, p.metadata)]

def v1PointValid (sp : Spec) (requireId : Bool) (p : V1Point) : Bool :=
  (if requireId then uuidOk p.id else (p.id.isEmpty || uuidOk p.id)) && !sp.v1VecLen.viol p.vector.length

/-- per-point loop body of the v1 insert / update handlers: dimension of the v1 index, then (since
the repair) `CheckCompatibleMap` against the whole schema, then the size limit -/
def v1StorePoint (schema : Schema) (dim : Int) (maxSize : Int) (p : V1Point) : Option StoredPoint :=
  if (p.vector.length : Int) != dim then none
  else match compat schema (v1PointObj p) with
    | none => none
    | some m =>
      if ((J.obj m).encSize : Int) > maxSize then none
      else some ⟨if p.id.isEmpty then none else some p.id, .obj m⟩

def v1Write (rng : Range) (requireId : Bool) (sp : Spec) (ctx : Ctx) (body : Option (List V1Point)) : Outcome :=
  withCol sp.v1PathLen true ctx fun c =>
    match body with
    | none => reject 400
    | some pts =>
      if rng.viol pts.length || !pts.all (v1PointValid sp requireId) then reject 400 else
      match v1Dim c.schema with
      | none => ⟨0, none⟩
      | some dim =>
        match mapAll (v1StorePoint c.schema dim ctx.plan.maxPointSize) pts with
        | none => reject 400
        | some sps =>
          if requireId then accept (.updatePoints sps)
          else if c.pointCount + pts.length > ctx.plan.maxPoints then reject 403
          else accept (.insertPoints sps)

def v1Insert (sp : Spec) (ctx : Ctx) (body : Option (List V1Point)) : Outcome := v1Write sp.v1Insert false sp ctx body
def v1Update (sp : Spec) (ctx : Ctx) (body : Option (List V1Point)) : Outcome := v1Write sp.v1Update true sp ctx body

structure V1Search where
  vector : List Int
  limit : Int

def emptyQuery (property : Str) : Query := .mk property none none none none none none none none none none [] []

/-- the `models.SearchRequest` built by the v1 search handler -/
def v1SearchReq (b : V1Search) : SearchReq :=
  let lim := if b.limit == 0 then 10 else b.limit
  { query := .mk kVector none (some ⟨b.vector, S "near", 75, lim, none⟩) none none none none none none none none [] [],
    select := [kMetadata], sort := [], offset := 0, limit := lim }

def v1Search (sp : Spec) (ctx : Ctx) (body : Option V1Search) : Outcome :=
  withCol sp.v1PathLen true ctx fun c =>
    match body with
    | none => reject 400
    | some b =>
      if sp.v1VecLen.viol b.vector.length || sp.v1Limit.viol b.limit then reject 400 else
      match v1Dim c.schema with
      | none => ⟨0, none⟩
      | some dim =>
        if (b.vector.length : Int) != dim then reject 400 else accept (.search c.schema (v1SearchReq b))

/-- v2 search handler's defaulting of the limit happens after validation (`limit` is ≥ 1 there,
so it never fires); kept for fidelity -/
def defaultLimit (r : SearchReq) : SearchReq := if r.limit == 0 then { r with limit := 10 } else r

/-! ## every endpoint -/

/-- a request to one of the endpoints, body already decoded (`none`: the decoder refused it) -/
inductive Req where
  | v2List | v2Create (b : Option V2Create) | v2Get | v2DeleteCol
  | v2Insert (b : Option (List J)) | v2Update (b : Option (List J)) | v2Delete (b : Option (List Str))
  | v2Search (b : Option SearchReq)
  | v1List | v1Create (b : Option V1Create) | v1Get | v1DeleteCol
  | v1Insert (b : Option (List V1Point)) | v1Update (b : Option (List V1Point)) | v1Delete (b : Option (List Str))
  | v1Search (b : Option V1Search)

def handle (sp : Spec) (en : Enums) (ctx : Ctx) : Req → Outcome
  | .v2List => ⟨200, none⟩
  | .v2Create b => v2Create sp en ctx b
  | .v2Get => getCollection sp.v2PathLen false ctx
  | .v2DeleteCol => deleteCollection sp.v2PathLen false ctx
  | .v2Insert b => v2Insert sp ctx b
  | .v2Update b => v2Update sp ctx b
  | .v2Delete b => deletePoints sp.v2Delete sp.v2PathLen false ctx b
  | .v2Search b => v2Search sp en ctx b
  | .v1List => ⟨200, none⟩
  | .v1Create b => v1Create sp en ctx b
  | .v1Get => getCollection sp.v1PathLen true ctx
  | .v1DeleteCol => deleteCollection sp.v1PathLen true ctx
  | .v1Insert b => v1Insert sp ctx b
  | .v1Update b => v1Update sp ctx b
  | .v1Delete b => deletePoints sp.v1Delete sp.v1PathLen true ctx b
  | .v1Search b => v1Search sp ctx b

/-! ## header middleware (`AppHeaderMiddleware`, in front of every route) -/

/-- `X-User-Id` is used verbatim as a directory name and key prefix: it must be a single plain path
segment — not empty, not "." / "..", no `/` or `\` -/
def userIdOk (u : Str) : Bool :=
  !u.isEmpty && !(u = S ".") && !(u = S "..") && !u.any (fun c => c = 0x2f#8 || c = 0x5c#8)

structure Headers where
  userId : Str
  planId : Str
  planKnown : Bool      -- `userPlans[planId]` exists

def headersOk (h : Headers) : Bool := userIdOk h.userId && !h.planId.isEmpty && h.planKnown

/-- a request as the router sees it: the header middleware first, then the endpoint -/
def handleHttp (sp : Spec) (en : Enums) (h : Headers) (ctx : Ctx) (req : Req) : Outcome :=
  if headersOk h then handle sp en ctx req else reject 400

/-! ## what reaches an index on a write -/

/-- the vector a flat / vamana index receives for schema entry `prop` from stored data `d`
(`getOperation` + `preProcessVamana`): `none` = nothing reaches it (absent, nil, or an error that
aborts the batch) -/
def vectorReaching (prop : Str) (d : J) : Option (List Int) :=
  match getProperty prop d with
  | .val v => castF32 v
  | _ => none

def SchemaValue.dim (sv : SchemaValue) : Option Int :=
  if sv.type = tVectorFlat then sv.flat.map (·.vectorSize)
  else if sv.type = tVectorVamana then sv.vamana.map (·.vectorSize)
  else none

/-- `v == "_delete"` (shard.DELETEVALUE) -/
def isDeleteVal : J → Bool
  | .str s => s = S "_delete"
  | _ => false

/-- `Shard.UpdatePoints` merge, as a lookup: top-level keys of the incoming map replace those stored,
the value `"_delete"` removes the key -/
def mergeLookup (existing incoming : Obj) (k : Str) : Option J :=
  match lookup incoming k with
  | some v => if isDeleteVal v then none else some v
  | none => lookup existing k

end Sema.C18
