/-
Line protocol of the C18 model driver (core-only).  One op per line, tokens separated by blanks.

  h <endpoint> <key=value>* ; <schema J | n> ; <body J | !>    -> status the handler model answers
       keys: plan=<maxCollections>,<maxPoints>,<maxPointSize> ncols=<n> exists=<0|1> cid=<len> found=<0|1> count=<n>
             user=<str> planid=<str> planok=<0|1>   (the X-User-Id / X-Plan-Id headers; planok: the plan is configured)
       `!` = the decoder refused the body
  uuid <str>                      -> 1 | 0                                   (uuid.Parse succeeds)
  size <schema J> ; <point J>     -> err | <n>   (v2 insert: CheckCompatibleMap, ExtractIdField, len(msgpack.Marshal))
  qry <str path> ; <J>            -> err | none | <J>                        (msgpack Decoder.Query, first value)
  page <off> <lim> <n>            -> <lo> <hi>   (GENERATED paging arithmetic of Shard.SearchPoints, signed decimal)
  pagecount <off> <lim> <n>       -> hi - lo     (number of points a single-shard search returns)

J tokens (prefix notation):  n   T   F   #<kind>:<int>   s<hex>   [<n> v1 .. vn   {<n> k1 v1 .. kn vn
  kinds f64 f32 i8 i16 i32 i64 u8 u16 u32 u64; floats carry the binary64 bit pattern (f32 widened) as a
  non-negative integer.  Bodies are the request structs AFTER typed decoding, rendered field by field
  under their json names (nil pointer = n, nil slice = [0).
-/
import SemaModel.Base.DriverUtil
import SemaModel.C18.Model
import SemaModel.Generated.FactsC18
namespace Sema.C18
open Sema

/-! ### tokens -> J -/

def kindOf (s : String) : Option NumKind :=
  match s with
  | "f64" => some .f64 | "f32" => some .f32 | "i8" => some .i8 | "i16" => some .i16 | "i32" => some .i32
  | "i64" => some .i64 | "u8" => some .u8 | "u16" => some .u16 | "u32" => some .u32 | "u64" => some .u64
  | _ => none

def strTok (t : String) : Option Str :=
  if t.startsWith "s" then (if t.length == 1 then some [] else bytesOfHex (t.drop 1).toString) else none

mutual
partial def parseJ (ts : List String) : Option (J × List String) :=
  match ts with
  | [] => none
  | t :: rest =>
    if t == "n" then some (.null, rest)
    else if t == "T" then some (.bool true, rest)
    else if t == "F" then some (.bool false, rest)
    else if t.startsWith "#" then
      match (t.drop 1).toString.splitOn ":" with
      | [k, v] => match kindOf k, v.toInt? with
        | some k, some v => some (.num k v, rest)
        | _, _ => none
      | _ => none
    else if t.startsWith "s" then (strTok t).map fun s => (.str s, rest)
    else if t.startsWith "[" then
      match (t.drop 1).toString.toNat? with
      | some n => (parseJs n rest).map fun (l, r) => (.arr l, r)
      | none => none
    else if t.startsWith "{" then
      match (t.drop 1).toString.toNat? with
      | some n => (parseKVs n rest).map fun (l, r) => (.obj l, r)
      | none => none
    else none
partial def parseJs (n : Nat) (ts : List String) : Option (List J × List String) :=
  match n with
  | 0 => some ([], ts)
  | n + 1 => match parseJ ts with
    | none => none
    | some (v, rest) => (parseJs n rest).map fun (l, r) => (v :: l, r)
partial def parseKVs (n : Nat) (ts : List String) : Option (List (Str × J) × List String) :=
  match n with
  | 0 => some ([], ts)
  | n + 1 => match ts with
    | k :: rest => match strTok k, parseJ rest with
      | some k, some (v, rest2) => (parseKVs n rest2).map fun (l, r) => ((k, v) :: l, r)
      | _, _ => none
    | [] => none
end

mutual
partial def showJ : J → String
  | .null => "n"
  | .bool true => "T"
  | .bool false => "F"
  | .num k v => "#" ++ (match k with
      | .f64 => "f64" | .f32 => "f32" | .i8 => "i8" | .i16 => "i16" | .i32 => "i32" | .i64 => "i64"
      | .u8 => "u8" | .u16 => "u16" | .u32 => "u32" | .u64 => "u64") ++ ":" ++ toString v
  | .str s => "s" ++ hexOfBytes s
  | .arr l => "[" ++ toString l.length ++ String.join (l.map fun x => " " ++ showJ x)
  | .obj kv => "{" ++ toString kv.length ++ String.join (kv.map fun (k, x) => " s" ++ hexOfBytes k ++ " " ++ showJ x)
end

/-! ### J -> decoded request structs (canonical rendering produced by the harness) -/

def fld (kv : Obj) (k : String) : Option J := lookup kv (S k)
def asObj : J → Option Obj | .obj kv => some kv | _ => none
def asStr : J → Option Str | .str s => some s | _ => none
def asBool : J → Option Bool | .bool b => some b | _ => none
def asNum : J → Option Int | .num _ v => some v | _ => none
def asArr : J → Option (List J) | .arr l => some l | _ => none
/-- nil pointer -> none, else parse -/
def optional (f : J → Option α) : J → Option (Option α)
  | .null => some none
  | j => (f j).map some

def getStr (kv : Obj) (k : String) : Option Str := (fld kv k).bind asStr
def getNum (kv : Obj) (k : String) : Option Int := (fld kv k).bind asNum
def getBool (kv : Obj) (k : String) : Option Bool := (fld kv k).bind asBool
def getOpt (kv : Obj) (k : String) (f : J → Option α) : Option (Option α) := (fld kv k).bind (optional f)
def getStrs (kv : Obj) (k : String) : Option (List Str) := ((fld kv k).bind asArr).bind fun l => l.mapM asStr
def getNums (kv : Obj) (k : String) : Option (List Int) := ((fld kv k).bind asArr).bind fun l => l.mapM asNum

def pBinaryQ (j : J) : Option BinaryQ := do
  let kv ← asObj j
  pure ⟨← getOpt kv "threshold" asNum, ← getNum kv "triggerThreshold", ← getStr kv "distanceMetric"⟩
def pProductQ (j : J) : Option ProductQ := do
  let kv ← asObj j
  pure ⟨← getNum kv "numCentroids", ← getNum kv "numSubVectors", ← getNum kv "triggerThreshold"⟩
def pQuantizer (j : J) : Option Quantizer := do
  let kv ← asObj j
  pure ⟨← getStr kv "type", ← getOpt kv "binary" pBinaryQ, ← getOpt kv "product" pProductQ⟩
def pFlat (j : J) : Option FlatP := do
  let kv ← asObj j
  pure ⟨← getNum kv "vectorSize", ← getStr kv "distanceMetric", ← getOpt kv "quantizer" pQuantizer⟩
def pVamana (j : J) : Option VamanaP := do
  let kv ← asObj j
  pure ⟨← getNum kv "vectorSize", ← getStr kv "distanceMetric", ← getNum kv "searchSize", ← getNum kv "degreeBound",
        ← getNum kv "alpha", ← getOpt kv "quantizer" pQuantizer⟩
def pSchemaValue (j : J) : Option SchemaValue := do
  let kv ← asObj j
  pure ⟨← getStr kv "type", ← getOpt kv "vectorFlat" pFlat, ← getOpt kv "vectorVamana" pVamana,
        ← getOpt kv "text" (fun j => (asObj j).bind fun kv => getStr kv "analyser"),
        ← getOpt kv "string" (fun j => (asObj j).bind fun kv => getBool kv "caseSensitive"),
        ← getOpt kv "stringArray" (fun j => (asObj j).bind fun kv => getBool kv "caseSensitive")⟩
/-- a nil map (`n`) is the empty schema -/
def pSchema : J → Option Schema
  | .null => some []
  | .obj kv => kv.mapM fun (k, v) => (pSchemaValue v).map fun sv => (k, sv)
  | _ => none

partial def pQuery (j : J) : Option Query := do
  let kv ← asObj j
  let property ← getStr kv "property"
  let vec (j : J) (withSS : Bool) : Option (VecOpts × Option Query) := do
    let o ← asObj j
    let ss ← if withSS then getNum o "searchSize" else pure 0
    pure (⟨← getNums o "vector", ← getStr o "operator", ss, ← getNum o "limit", ← getOpt o "weight" asNum⟩, ← getOpt o "filter" pQuery)
  let flat ← getOpt kv "vectorFlat" (vec · false)
  let vamana ← getOpt kv "vectorVamana" (vec · true)
  let text ← getOpt kv "text" fun j => do
    let o ← asObj j
    pure ((⟨← getStr o "value", ← getStr o "operator", ← getNum o "limit", ← getOpt o "weight" asNum⟩ : TextOpts), ← getOpt o "filter" pQuery)
  let string ← getOpt kv "string" fun j => do
    let o ← asObj j
    pure (⟨← getStr o "value", ← getStr o "operator", ← getStr o "endValue"⟩ : StrOpts)
  let integer ← getOpt kv "integer" fun j => do
    let o ← asObj j
    pure (⟨← getNum o "value", ← getStr o "operator", ← getNum o "endValue"⟩ : IntOpts)
  let float ← getOpt kv "float" fun j => do
    let o ← asObj j
    pure (⟨← getNum o "value", ← getStr o "operator", ← getNum o "endValue"⟩ : FloatOpts)
  let sa ← getOpt kv "stringArray" fun j => do
    let o ← asObj j
    pure (⟨← getStrs o "value", ← getStr o "operator"⟩ : SAOpts)
  let and ← ((fld kv "_and").bind asArr).bind fun l => l.mapM pQuery
  let or ← ((fld kv "_or").bind asArr).bind fun l => l.mapM pQuery
  pure (.mk property (flat.map (·.1)) (vamana.map (·.1)) (text.map (·.1)) string integer float sa
        (flat.bind (·.2)) (vamana.bind (·.2)) (text.bind (·.2)) and or)

def pSearch (j : J) : Option SearchReq := do
  let kv ← asObj j
  let sort ← ((fld kv "sort").bind asArr).bind fun l => l.mapM fun s => do
    let o ← asObj s
    pure (⟨← getStr o "property", ← getBool o "descending"⟩ : SortOpt)
  pure ⟨← (fld kv "query").bind pQuery, ← getStrs kv "select", sort, ← getNum kv "offset", ← getNum kv "limit"⟩

def pV2Create (j : J) : Option V2Create := do
  let kv ← asObj j
  pure ⟨← getStr kv "id", ← (fld kv "indexSchema").bind pSchema⟩
def pPoints (j : J) : Option (List J) := (asObj j).bind fun kv => (fld kv "points").bind asArr
def pIds (j : J) : Option (List Str) := (asObj j).bind fun kv => getStrs kv "ids"
def pV1Create (j : J) : Option V1Create := do
  let kv ← asObj j
  pure ⟨← getStr kv "id", ← getNum kv "vectorSize", ← getStr kv "distanceMetric"⟩
def pV1Points (j : J) : Option (List V1Point) := do
  let l ← pPoints j
  l.mapM fun p => do
    let o ← asObj p
    pure ⟨← getStr o "id", ← getNums o "vector", ← fld o "metadata"⟩
def pV1Search (j : J) : Option V1Search := do
  let kv ← asObj j
  pure ⟨← getNums kv "vector", ← getNum kv "limit"⟩

/-! ### op lines -/

/-- split a token list at `;` -/
def splitSemi (ts : List String) : List (List String) :=
  ts.foldr (fun t acc => if t == ";" then [] :: acc else match acc with | a :: rest => (t :: a) :: rest | [] => [[t]]) [[]]

def kvArg (args : List String) (k : String) : Option String :=
  args.findSome? fun a => if a.startsWith (k ++ "=") then some (a.drop (k.length + 1)).toString else none

def natArg (args : List String) (k : String) : Nat := ((kvArg args k).bind String.toNat?).getD 0
def intArg (args : List String) (k : String) : Int := ((kvArg args k).bind String.toInt?).getD 0

def whole (ts : List String) : Option J :=
  match parseJ ts with
  | some (j, []) => some j
  | _ => none

def sp0 := Spec.documented
def en0 := Enums.documented

def hLine (ep : String) (args schemaT bodyT : List String) : String :=
  let plan : Plan := match ((kvArg args "plan").getD "").splitOn "," with
    | [a, b, c] => ⟨a.toInt?.getD 0, b.toInt?.getD 0, c.toInt?.getD 0⟩
    | _ => ⟨0, 0, 0⟩
  match whole schemaT with
  | none => "bad-schema-tokens"
  | some sj =>
    match pSchema sj with
    | none => "bad-schema"
    | some schema =>
      let ctx : Ctx := { plan := plan, ncols := intArg args "ncols", exists_ := natArg args "exists" == 1,
                         cidLen := natArg args "cid",
                         col := if natArg args "found" == 1 then some ⟨schema, intArg args "count"⟩ else none }
      -- body: `!` = decode failure; otherwise it must be canonical
      let body : Option (Option J) := if bodyT == ["!"] then some none else (whole bodyT).map some
      match body with
      | none => "bad-body-tokens"
      | some bj =>
        -- headers: user=<str> planid=<str> planok=<0|1> (absent = a valid pair)
        let hdr : Headers := match kvArg args "user" with
          | none => ⟨S "u", S "p", true⟩
          | some u => ⟨(strTok u).getD [], ((kvArg args "planid").bind strTok).getD [], natArg args "planok" == 1⟩
        let run {α : Type} (p : J → Option α) (mk : Option α → Req) : String :=
          match bj with
          | none => toString (handleHttp sp0 en0 hdr ctx (mk none)).status
          | some j => match p j with
            | none => "bad-body"
            | some b => toString (handleHttp sp0 en0 hdr ctx (mk (some b))).status
        let nobody (r : Req) : String := toString (handleHttp sp0 en0 hdr ctx r).status
        match ep with
        | "v2List" => nobody .v2List
        | "v2Get" => nobody .v2Get
        | "v2DeleteCol" => nobody .v2DeleteCol
        | "v1List" => nobody .v1List
        | "v1Get" => nobody .v1Get
        | "v1DeleteCol" => nobody .v1DeleteCol
        | "v2Create" => run pV2Create .v2Create
        | "v2Insert" => run pPoints .v2Insert
        | "v2Update" => run pPoints .v2Update
        | "v2Delete" => run pIds .v2Delete
        | "v2Search" => run pSearch .v2Search
        | "v1Create" => run pV1Create .v1Create
        | "v1Insert" => run pV1Points .v1Insert
        | "v1Update" => run pV1Points .v1Update
        | "v1Delete" => run pIds .v1Delete
        | "v1Search" => run pV1Search .v1Search
        | _ => "bad-endpoint"

def showSigned (x : BitVec 64) : String := toString x.toInt

def step (line : String) : String :=
  let ts := (line.trimAscii.toString.splitOn " ").filter (· ≠ "")
  match ts with
  | "http" :: _ => "-"      -- replay lines for the harness only
  | "h" :: ep :: rest =>
    match splitSemi rest with
    | [args, schemaT, bodyT] => hLine ep args schemaT bodyT
    | _ => "bad-op"
  | ["uuid", t] => match strTok t with
    | some s => if uuidOk s then "1" else "0"
    | none => "bad-op"
  | "size" :: rest =>
    match splitSemi rest with
    | [schemaT, pointT] =>
      match (whole schemaT).bind pSchema, whole pointT with
      | some schema, some p =>
        match v2InsertPoint schema 1000000000 p with
        | none => "err"
        | some spt => toString spt.data.encSize
      | _, _ => "bad-op"
    | _ => "bad-op"
  | "qry" :: p :: ";" :: rest =>
    match strTok p, whole rest with
    | some path, some j =>
      match query (splitDot path) j with
      | .err => "err"
      | .vals [] => "none"
      | .vals (v :: _) => showJ v
    | _, _ => "bad-op"
  | ["page", a, b, c] =>
    match a.toInt?, b.toInt?, c.toInt? with
    | some off, some lim, some n =>
      let o := BitVec.ofInt 64 off; let l := BitVec.ofInt 64 lim; let m := BitVec.ofInt 64 n
      showSigned (Gen.FactsC18.sliceLo o l m) ++ " " ++ showSigned (Gen.FactsC18.sliceHi o l m)
    | _, _, _ => "bad-op"
  | ["pagecount", a, b, c] =>
    match a.toInt?, b.toInt?, c.toInt? with
    | some off, some lim, some n =>
      let o := BitVec.ofInt 64 off; let l := BitVec.ofInt 64 lim; let m := BitVec.ofInt 64 n
      toString ((Gen.FactsC18.sliceHi o l m).toInt - (Gen.FactsC18.sliceLo o l m).toInt)
    | _, _, _ => "bad-op"
  | _ => "bad-op"

end Sema.C18

def Sema.C18.driverMain (stdin stdout : IO.FS.Stream) (_args : List String) : IO Unit :=
  Sema.loopPure stdin stdout Sema.C18.step
