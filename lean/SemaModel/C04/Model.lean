/-
C04 — executable model of the flat vector index: shard/index/flat/flat.go (`Search`,
`InsertUpdateDelete`), the three vector stores of shard/vectorstore (plain / binary / product) and
their `Storable` point types.  Core-only (linked into the driver).

* The point types are *interpreters of the storage plans that tools/facts_c04 extracts from the
  source* (`Generated/FactsC04.lean`): which suffix WriteTo writes under which guard, what ReadFrom
  tries in which order, what DeleteFrom deletes, what IdFromKey recognises.
* A vector is its byte encoding (`conversion.Float32ToBytes`; C19 proves the codecs round-trip); a
  quantised code likewise.  `len(p.Vector) != 0` is `p.vec ≠ []`.
* Floats are never computed here (DESIGN 3.2): the quantiser's `encode`, the learned threshold and
  the k-means result are *oracles*; a distance is an element of an ordered type `D` produced by an
  abstract `dist` from the projection of the point that the distance closure reads.
-/
import SemaModel.C08.Model
import SemaModel.Generated.FactsC04
import SemaModel.Generated.Keys
namespace Sema.C04
open Sema Sema.C08 Sema.Gen Sema.Gen.FactsC04

/-! ### stored points -/

/-- `plainPoint` / `binaryQuantizedPoint` / `productQuantizedPoint` (the id is the map key) -/
structure Pt where
  vec : Bytes := []      -- Vector
  code : Bytes := []     -- BinaryVector / CentroidIds
  dirty : Bool := false  -- isDirty (set by Fit)
  deriving Repr, DecidableEq, Inhabited

def Pt.fld (p : Pt) : Fld → Bytes
  | .vec => p.vec
  | .code => p.code

def Pt.setFld (p : Pt) (f : Fld) (b : Bytes) : Pt :=
  match f with
  | .vec => { p with vec := b }
  | .code => { p with code := b }

abbrev Id := BitVec 64

def nodeKey (id : Id) (s : Byte) : Bytes := Keys.NodeKey id s

/-- the guard `len(p.Field) != 0` of a write step -/
def Pt.guard (p : Pt) : Option Fld → Bool
  | none => true
  | some f => !(p.fld f).isEmpty

/-- `WriteTo` -/
def writeSteps (id : Id) (p : Pt) : List WStep → KV → KV
  | [], kv => kv
  | w :: rest, kv =>
    if p.guard w.guard then
      if w.ret then kv.put (nodeKey id w.suffix) (p.fld w.src)
      else writeSteps id p rest (kv.put (nodeKey id w.suffix) (p.fld w.src))
    else writeSteps id p rest kv

/-- `ReadFrom`: `none` = ErrNotFound.  Running off the end of the plan returns what was filled. -/
def readSteps (id : Id) (kv : KV) : List RStep → Pt → Option Pt
  | [], p => some p
  | r :: rest, p =>
    match kv.get (nodeKey id r.suffix) with
    | some b =>
      let p' := p.setFld r.dst b
      if r.stopIfFound then some p' else readSteps id kv rest p'
    | none => if r.failIfMissing then none else readSteps id kv rest p

/-- `DeleteFrom` -/
def deleteSteps (id : Id) : List Byte → KV → KV
  | [], kv => kv
  | s :: rest, kv => deleteSteps id rest (kv.delete (nodeKey id s))

/-- `IdFromKey`: the first recognised suffix wins -/
def idFromKeySteps (key : Bytes) : List Byte → Option Id
  | [] => none
  | s :: rest =>
    let r := Keys.NodeIdFromKey key s
    if r.2 then some r.1 else idFromKeySteps key rest

/-- the `Storable` instance a plan denotes -/
def storable (pl : Plan) : Storable Id Pt where
  idFromKey := fun key => idFromKeySteps key pl.ids
  readFrom := fun id kv => readSteps id kv pl.read {}
  writeTo := fun id p kv => writeSteps id p pl.write kv
  deleteFrom := fun id kv => deleteSteps id pl.delete kv
  checkClear := fun p => if pl.trackDirty then (p.dirty, { p with dirty := false }) else (false, p)

/-! ### vector stores -/

inductive Kind where
  | plain | binary | product
  deriving Repr, DecidableEq

def planOf : Kind → Plan
  | .plain => plainPoint
  | .binary => binaryQuantizedPoint
  | .product => productQuantizedPoint

/-- configuration of a store (`models.Quantizer` + metric): `fixed = some t` is a configured binary
threshold (always the case for hamming / jaccard: threshold 0.5), `trigger` the TriggerThreshold -/
structure Cfg where
  kind : Kind
  fixed : Option Bytes := none
  trigger : Nat := 0
  deriving Repr

def thresholdKey : Bytes := binaryThresholdKeyBytes
def centroidDistsKey : Bytes := productCentroidDistsKeyBytes
def flatCentroidsKey : Bytes := productFlatCentroidsKeyBytes

/-- `plainStore` / `binaryQuantizer` / `productQuantizer`.  `params` = threshold bytes (binary) or
flatCentroids bytes (product), `[]` = not trained (`threshold == nil` / `len(flatCentroids) == 0`);
`aux` = centroidDists bytes. -/
structure Store where
  cfg : Cfg
  cache : Cache Id Pt := {}
  params : Bytes := []
  aux : Bytes := []

def Store.trained (s : Store) : Bool := !s.params.isEmpty
def Store.st (s : Store) : Storable Id Pt := storable (planOf s.cfg.kind)

/-- `vectorstore.New` on a bucket: parameters are read back from the bucket -/
def Store.new (cfg : Cfg) (kv : KV) : Store :=
  match cfg.kind with
  | .plain => { cfg := cfg }
  | .binary =>
    match cfg.fixed with
    | some t => { cfg := cfg, params := t }
    | none => if binaryNewGetsThreshold then { cfg := cfg, params := (kv.get thresholdKey).getD [] } else { cfg := cfg }
  | .product =>
    if productNewGetsCentroids then
      { cfg := cfg, params := (kv.get flatCentroidsKey).getD [], aux := (kv.get centroidDistsKey).getD [] }
    else { cfg := cfg }

/-- `Set(id, vector)`: `enc` is the oracle for `encode(vector)` under the current parameters; an
untrained quantiser encodes to nil, the plain store has no code -/
def Store.set (s : Store) (id : Id) (vec enc : Bytes) : Store :=
  let code := match s.cfg.kind with
    | .plain => []
    | _ => if s.trained then enc else []
  { s with cache := C08.put s.cache id { vec := vec, code := code } }

/-- `Delete(id)` -/
def Store.del (s : Store) (kv : KV) (id : Id) : Store :=
  { s with cache := C08.delete s.st s.cache kv id }

/-- the oracle of `Fit`: the learned parameters and the code of every item under them -/
structure FitOracle where
  params : Bytes
  aux : Bytes := []
  code : Id → Bytes
  /-- k-means takes its initial centroids as *slices of the stored vectors* and then updates them in
  place (utils/kmeans.go), so the product quantiser's `Fit` may overwrite parts of some points'
  full vectors; which and with what is part of the oracle.  (Unobservable: a trained store reads
  only the codes.) -/
  vec : Id → Option Bytes := fun _ => none

/-- `Fit`.  Returns `none` when the `ForEach` inside fails. -/
def Store.fit (s : Store) (kv : KV) (o : FitOracle) : Option Store :=
  match s.cfg.kind with
  | .plain => some s
  | _ =>
    if s.trained || C08.count s.st s.cache kv < s.cfg.trigger then some s
    else
      match C08.loadAll s.st s.cache kv with
      | none => none
      | some c =>
        -- binary: `sum == nil` when no item was visited, the threshold stays nil
        if (live c.items).isEmpty then some { s with cache := c }
        else
          let items := c.items.map fun p =>
            if p.2.isDeleted then p
            else (p.1, { p.2 with value := { vec := (o.vec p.1).getD p.2.value.vec, code := o.code p.1, dirty := true } })
          some { s with cache := { c with items := items }, params := o.params, aux := o.aux }

/-- `Flush`: the item cache, then the parameters -/
def Store.flush (s : Store) (kv : KV) : Store × KV :=
  let (c, kv1) : Cache Id Pt × KV := C08.flush s.st s.cache kv
  let kv2 := match s.cfg.kind with
    | .plain => kv1
    | .binary => if binaryFlushPutsThreshold && !s.params.isEmpty then kv1.put thresholdKey s.params else kv1
    | .product =>
      if productFlushPutsCentroids && !s.params.isEmpty then (kv1.put centroidDistsKey s.aux).put flatCentroidsKey s.params else kv1
  ({ s with cache := c }, kv2)

/-- the representation the distance closure of `DistanceFromFloat` reads from a point -/
def Store.distKey (s : Store) (p : Pt) : Bytes :=
  match s.cfg.kind with
  | .plain => p.vec
  | _ => if s.trained then p.code else p.vec

/-- `ForEach` of the store -/
def Store.forEach (s : Store) (kv : KV) : Option (Store × List (Id × Pt)) :=
  (C08.forEach s.st s.cache kv).map fun r => ({ s with cache := r.1 }, r.2)

/-! ### flat.Search -/

/-- `models.SearchResult` restricted to what the flat index fills in -/
structure Res (D : Type) where
  id : Id
  d : D
  deriving Repr, DecidableEq

/-- the comparison of the skip test `len(res) == cap(res) && dist ⋈ last` -/
inductive SkipOp where
  | ge | gt
  deriving Repr, DecidableEq

def skipOpOf (s : String) : Option SkipOp :=
  if s == ">=" then some .ge else if s == ">" then some .gt else none

section search
variable {D : Type} [LT D] [DecidableLT D]

/-- the swap loop `for i := len(res)-1; i > 0 && res[i].d < res[i-1].d; i--`, on the result slice
held in *reverse* (`rev.head` is `res[len(res)-1]`): `x` sinks below every entry it is strictly
smaller than -/
def bubble (x : Res D) : List (Res D) → List (Res D)
  | [] => [x]
  | y :: ys => if x.d < y.d then y :: bubble x ys else x :: y :: ys

/-- one callback of `ForEach` for a point that passed the filter -/
def step (op : SkipOp) (limit : Nat) (rev : List (Res D)) (x : Res D) : List (Res D) :=
  if rev.length = limit then
    match rev with
    | [] => []                        -- limit = 0: Go indexes res[-1]; validation keeps limit ≥ 1
    | last :: rest =>
      let skip := match op with
        | .ge => !(x.d < last.d)      -- dist >= last
        | .gt => last.d < x.d         -- dist >  last
      if skip then rev else bubble x rest   -- res[len-1] = sr; swap loop
  else bubble x rev                   -- append; swap loop

/-- `IndexFlat.Search` over the enumeration `enum` the store's `ForEach` produced; `pass` is the
filter test (`filter == nil || filter.Contains(id)`), `dist` the distance closure -/
def search (op : SkipOp) (limit : Nat) (pass : Id → Bool) (dist : α → D) (enum : List (Id × α)) : List (Res D) :=
  (enum.foldl (fun rev it => if pass it.1 then step op limit rev ⟨it.1, dist it.2⟩ else rev) []).reverse

end search

end Sema.C04
