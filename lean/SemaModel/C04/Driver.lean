/-
C04 line protocol.  State: named vector stores, each with its bucket.

  new   <name> <plain|binary|product> <fixed threshold hex|-> <trigger>      fresh store on an empty bucket
  open  <name>                              vectorstore.New on the store's bucket (eviction / restart)
  set   <name> <id> <vec hex> <enc hex|->   Set(id, vector); enc = oracle for encode(vector)
  del   <name> <id>                         Delete(id)
  fit   <name> <params hex|-> <aux hex|-> <id=code;…|->   Fit with the oracle of the learned parameters → trained=0|1
  flush <name>                              Flush → the bucket, key=value,… in key order
  foreach <name>                            ids ForEach visits (sorted) | error
  exists <name> <id>                        0|1
  search <limit> <id:dist:pass;…|->         flat.Search over this enumeration → canonical answer
  hyb flat <weight hex32|-> <dist hex32>    the hybrid expression generated from flat.go (`(-1 * weight) * dist`, weight 1 when
                                            absent), evaluated with hardware float32 → hex32 of the result (bit for bit)
-/
import SemaModel.Base.DriverUtil
import SemaModel.C04.Model
import SemaModel.C04.HybridGen
namespace Sema.C04
open Sema Sema.C08 Sema.Gen.FactsC04

def hexB (b : Bytes) : String := if b.isEmpty then "-" else hexOfBytes b
def bytes? (s : String) : Option Bytes := if s == "-" then some [] else bytesOfHex s
def id? (s : String) : Option Id := (natOfHex s).map (BitVec.ofNat 64)
def hexId (x : Id) : String := hexOfNat 16 x.toNat

structure DState where
  stores : List (String × Store × KV) := []

def DState.get (st : DState) (n : String) : Option (Store × KV) := (st.stores.find? (·.1 == n)).map (·.2)
def DState.put (st : DState) (n : String) (v : Store × KV) : DState :=
  if st.stores.any (·.1 == n) then { stores := st.stores.map fun e => if e.1 == n then (n, v) else e }
  else { stores := st.stores ++ [(n, v)] }

def kind? : String → Option Kind
  | "plain" => some .plain
  | "binary" => some .binary
  | "product" => some .product
  | _ => none

def digest (kv : KV) : String :=
  if kv.entries.isEmpty then "-" else ",".intercalate (kv.entries.map fun e => hexB e.1 ++ "=" ++ hexB e.2)

def insertNat (x : Nat) : List Nat → List Nat
  | [] => [x]
  | y :: ys => if x ≤ y then x :: y :: ys else y :: insertNat x ys
def sortNat (l : List Nat) : List Nat := l.foldl (fun acc x => insertNat x acc) []

/-- `id=code` or `id=code/vec` (the vector as k-means left it) -/
def parseCodes (s : String) : Option (List (Id × Bytes × Option Bytes)) :=
  if s == "-" then some [] else
  (s.splitOn ";").mapM fun e =>
    match e.splitOn "=" with
    | [a, b] =>
      match b.splitOn "/" with
      | [c] => do let i ← id? a; let c ← bytes? c; pure (i, c, none)
      | [c, v] => do let i ← id? a; let c ← bytes? c; let v ← bytes? v; pure (i, c, some v)
      | _ => none
    | _ => none

/-- a candidate of a search line: id, distance as an order-preserving natural number, filter bit -/
def parseCands (s : String) : Option (List (Id × Nat × Bool)) :=
  if s == "-" then some [] else
  (s.splitOn ";").mapM fun e =>
    match e.splitOn ":" with
    | [a, d, p] => do let i ← id? a; let dd ← natOfHex d; pure (i, dd, p == "1")
    | _ => none

/-- canonical form of an answer (DESIGN C04): the distance sequence, then per distance value either
the sorted members (when every candidate at that distance is in the answer) or only their number -/
def canonical (cands : List (Id × Nat × Bool)) (res : List (Res Nat)) : String :=
  let ds := res.map (·.d)
  let distinct := ds.foldl (fun acc d => if acc.contains d then acc else acc ++ [d]) ([] : List Nat)
  let groups := distinct.map fun g =>
    let members := sortNat ((res.filter (·.d == g)).map (·.id.toNat))
    let total := (cands.filter fun c => c.2.2 && c.2.1 == g).length
    if members.length == total then
      hexOfNat 8 g ++ ":[" ++ ",".intercalate (members.map (hexOfNat 16)) ++ "]"
    else hexOfNat 8 g ++ ":#" ++ toString members.length
  "n=" ++ toString res.length ++ " d=" ++ ",".intercalate (ds.map (hexOfNat 8)) ++ " g=" ++ ";".intercalate groups

def flatOp : SkipOp := (skipOpOf flatSkipOp).getD .ge

def dstep (st : DState) (line : String) : DState × String :=
  let bad := (st, "bad-op")
  match line.trimAscii.toString.splitOn " " with
  | "new" :: n :: k :: fx :: trig :: _ =>     -- an optional further token carries the Go-side configuration
    match kind? k, bytes? fx, trig.toNat? with
    | some kind, some f, some t =>
      let cfg : Cfg := { kind := kind, fixed := if fx == "-" then none else some f, trigger := t }
      (st.put n (Store.new cfg KV.empty, KV.empty), "ok")
    | _, _, _ => bad
  | ["open", n] =>
    match st.get n with
    | some (s, kv) => let s' := Store.new s.cfg kv; (st.put n (s', kv), s!"trained={if s'.trained then 1 else 0}")
    | none => bad
  | ["set", n, i, v, e] =>
    match st.get n, id? i, bytes? v, bytes? e with
    | some (s, kv), some id, some vec, some enc => (st.put n (s.set id vec enc, kv), "ok")
    | _, _, _, _ => bad
  | ["del", n, i] =>
    match st.get n, id? i with
    | some (s, kv), some id => (st.put n (s.del kv id, kv), "ok")
    | _, _ => bad
  | ["fit", n, p, a, cs] =>
    match st.get n, bytes? p, bytes? a, parseCodes cs with
    | some (s, kv), some params, some aux, some codes =>
      let codeOf : Id → Bytes := fun id => ((codes.find? (fun e => e.1 == id)).map (fun e => e.2.1)).getD []
      let vecOf : Id → Option Bytes := fun id => (codes.find? (fun e => e.1 == id)).bind (fun e => e.2.2)
      let o : FitOracle := { params := params, aux := aux, code := codeOf, vec := vecOf }
      match s.fit kv o with
      | some s' => (st.put n (s', kv), s!"trained={if s'.trained then 1 else 0}")
      | none => (st, "error")
    | _, _, _, _ => bad
  | ["flush", n] =>
    match st.get n with
    | some (s, kv) => let r := s.flush kv; (st.put n r, digest r.2)
    | none => bad
  | ["foreach", n] =>
    match st.get n with
    | some (s, kv) =>
      match s.forEach kv with
      | some (s', l) => (st.put n (s', kv), if l.isEmpty then "-" else ",".intercalate ((sortNat (l.map (·.1.toNat))).map (hexOfNat 16)))
      | none => (st, "error")
    | none => bad
  | ["exists", n, i] =>
    match st.get n, id? i with
    | some (s, kv), some id =>
      let r := C08.get s.st s.cache kv id
      (st.put n ({ s with cache := r.1 }, kv), if r.2.isSome then "1" else "0")
    | _, _ => bad
  | ["search", lim, cs] =>
    match lim.toNat?, parseCands cs with
    | some limit, some cands =>
      let res := search (D := Nat) flatOp limit (fun id => (cands.find? (·.1 == id)).map (·.2.2) |>.getD false)
        (fun d => d) (cands.map fun c => (c.1, c.2.1))
      (st, canonical cands res)
    | _, _ => bad
  | ["hyb", "flat", w, d] =>
    match (if w == "-" then some none else (natOfHex w).map some), natOfHex d with
    | some w, some d =>
      let r := (hybridGen (w.map fun b => Go.FExpr.var (BitVec.ofNat 32 b)) (Go.FExpr.var (BitVec.ofNat 32 d))).eval
      (st, if r.isNaN then "nan" else hexOfNat 8 r.toBits.toNat)
    | _, _ => bad
  | _ => bad

end Sema.C04

def Sema.C04.driverMain (stdin stdout : IO.FS.Stream) (_args : List String) : IO Unit :=
  Sema.loopState stdin stdout Sema.C04.dstep ({} : Sema.C04.DState)
