/-
C04 — the hybrid score of the flat search, from the definitions generated from shard/index/flat/flat.go
(SemaModel/Generated/Hybrid.lean).  Core-only: the driver evaluates it (`hyb flat` op lines); the theorems
about it are in Formula.lean.
-/
import SemaModel.Generated.Hybrid
namespace Sema.C04
open Sema Sema.Go Sema.Gen

/-- the hybrid score `IndexFlat.Search` reports for a distance `d` and the optional query weight `w` -/
def hybridGen (w : Option FExpr) (d : FExpr) : FExpr := Hybrid.flat_hybrid (Hybrid.flat_weight ⟨w⟩) d

end Sema.C04
