/-
C04 — helper lemmas for the bounded insertion of flat.Search (any linear order of distances).
-/
import SemaModel.C04.Model
import SemaModel.C08.Lemmas
import SemaModel.C19.Props
import Mathlib.Data.List.Sort
import Mathlib.Order.Defs.LinearOrder
namespace Sema.C04
open Sema List

variable {D : Type} [LinearOrder D]

/-- exact k-nearest-neighbour answers: `res` is sorted, has `min limit |cands|` entries, and the
candidates split into `res` and a rest no entry of which is strictly closer than any entry of `res` -/
structure IsKNN (limit : Nat) (cands res : List (Res D)) : Prop where
  sorted : res.Pairwise (fun a b => a.d ≤ b.d)
  length : res.length = min limit cands.length
  split : ∃ dropped, cands ~ res ++ dropped ∧ ∀ r ∈ res, ∀ c ∈ dropped, r.d ≤ c.d

theorem bubble_perm (x : Res D) (l : List (Res D)) : bubble x l ~ x :: l := by
  induction l with
  | nil => simp [bubble]
  | cons y ys ih =>
    simp only [bubble]
    split
    · exact (ih.cons y).trans (Perm.swap x y ys)
    · exact Perm.refl _

theorem mem_bubble {x z : Res D} {l : List (Res D)} : z ∈ bubble x l ↔ z = x ∨ z ∈ l := by
  rw [(bubble_perm x l).mem_iff]; simp

theorem length_bubble (x : Res D) (l : List (Res D)) : (bubble x l).length = l.length + 1 := by
  rw [(bubble_perm x l).length_eq]; simp

/-- the slice held in reverse is non-increasing -/
abbrev Desc (l : List (Res D)) : Prop := l.Pairwise (fun a b => b.d ≤ a.d)

theorem bubble_desc (x : Res D) {l : List (Res D)} (h : Desc l) : Desc (bubble x l) := by
  induction l with
  | nil => simp [bubble]
  | cons y ys ih =>
    have hy := pairwise_cons.1 h
    simp only [bubble]
    split
    · rename_i hlt
      refine pairwise_cons.2 ⟨?_, ih hy.2⟩
      intro z hz
      rcases mem_bubble.1 hz with rfl | hz
      · exact le_of_lt hlt
      · exact hy.1 z hz
    · rename_i hnlt
      have hle : y.d ≤ x.d := not_lt.1 hnlt
      refine pairwise_cons.2 ⟨?_, h⟩
      intro z hz
      rcases mem_cons.1 hz with rfl | hz
      · exact hle
      · exact le_trans (hy.1 z hz) hle

/-- invariant of the scan: `rev` is the result slice in reverse, `p` the candidates seen so far -/
structure Inv (limit : Nat) (rev p : List (Res D)) : Prop where
  desc : Desc rev
  length : rev.length = min limit p.length
  split : ∃ dropped, p ~ rev ++ dropped ∧ ∀ r ∈ rev, ∀ c ∈ dropped, r.d ≤ c.d

theorem inv_nil (limit : Nat) : Inv (D := D) limit [] [] :=
  ⟨Pairwise.nil, by simp, [], by simp, by simp⟩

/-- the skip test of either flavour never skips a strictly closer point and only skips points
that are no closer than the last entry -/
def skips (op : SkipOp) (x last : Res D) : Bool :=
  match op with
  | .ge => !(x.d < last.d)
  | .gt => last.d < x.d

theorem skips_true {op : SkipOp} {x last : Res D} (h : skips op x last = true) : last.d ≤ x.d := by
  cases op <;> simp [skips] at h
  · exact h
  · exact le_of_lt h

theorem skips_false {op : SkipOp} {x last : Res D} (h : skips op x last = false) : x.d ≤ last.d := by
  cases op <;> simp [skips] at h
  · exact le_of_lt h
  · exact h

theorem step_full (op : SkipOp) (limit : Nat) (last : Res D) (rest : List (Res D)) (x : Res D)
    (h : (last :: rest).length = limit) :
    step op limit (last :: rest) x = if skips op x last then last :: rest else bubble x rest := by
  unfold step skips
  simp only [h, if_true]
  cases op <;> rfl

theorem step_notfull (op : SkipOp) (limit : Nat) (rev : List (Res D)) (x : Res D)
    (h : rev.length ≠ limit) : step op limit rev x = bubble x rev := by
  unfold step; simp [h]

theorem step_zero (op : SkipOp) (x : Res D) : step op 0 [] x = [] := by
  unfold step; simp

theorem inv_step (op : SkipOp) (limit : Nat) {rev p : List (Res D)} (x : Res D) (h : Inv limit rev p) :
    Inv limit (step op limit rev x) (x :: p) := by
  obtain ⟨hd, hl, dropped, hp, ho⟩ := h
  have hplen := hp.length_eq
  simp only [length_append] at hplen
  by_cases hfull : rev.length = limit
  · -- the slice is full
    have hle : limit ≤ p.length := by omega
    cases rev with
    | nil =>
      simp only [length_nil] at hfull
      subst hfull
      rw [step_zero]
      refine ⟨Pairwise.nil, by simp, x :: dropped, ?_, by simp⟩
      simpa using hp.cons x
    | cons last rest =>
      have hdl := pairwise_cons.1 hd
      have hlen : (last :: rest).length = min limit (x :: p).length := by
        simp only [length_cons] at hfull ⊢; omega
      rw [step_full op limit last rest x hfull]
      cases hskip : skips op x last
      · -- replaces the last entry
        simp only [Bool.false_eq_true, if_false]
        have hx : x.d ≤ last.d := skips_false hskip
        refine ⟨bubble_desc x hdl.2, ?_, last :: dropped, ?_, ?_⟩
        · rw [length_bubble]; simp only [length_cons] at hlen ⊢; omega
        · have h1 : x :: p ~ x :: (last :: rest ++ dropped) := hp.cons x
          have h2 : x :: (last :: rest ++ dropped) ~ (x :: rest) ++ (last :: dropped) := by
            simp only [cons_append]
            exact (perm_middle (a := last) (l₁ := rest) (l₂ := dropped)).symm.cons x
          exact h1.trans (h2.trans ((bubble_perm x rest).symm.append_right _))
        · intro r hr c hc
          have hc' : last.d ≤ c.d := by
            rcases mem_cons.1 hc with rfl | hc
            · exact le_refl _
            · exact ho last (mem_cons_self) c hc
          rcases mem_bubble.1 hr with rfl | hr
          · exact le_trans hx hc'
          · exact le_trans (hdl.1 r hr) hc'
      · -- skipped: no closer than the last entry
        simp only [if_true]
        have hlast : last.d ≤ x.d := skips_true hskip
        refine ⟨hd, hlen, x :: dropped, ?_, ?_⟩
        · exact (hp.cons x).trans perm_middle.symm
        · intro r hr c hc
          rcases mem_cons.1 hc with rfl | hc
          · rcases mem_cons.1 hr with rfl | hr
            · exact hlast
            · exact le_trans (hdl.1 r hr) hlast
          · exact ho r hr c hc
  · -- the slice is not full: nothing has been dropped yet
    rw [step_notfull op limit rev x hfull]
    have hlt : p.length < limit := by omega
    have hrl : rev.length = p.length := by omega
    have hdn : dropped = [] := by
      apply eq_nil_of_length_eq_zero; omega
    subst hdn
    refine ⟨bubble_desc x hd, ?_, [], ?_, by simp⟩
    · rw [length_bubble]; simp only [length_cons]; omega
    · simp only [append_nil] at hp ⊢
      exact (hp.cons x).trans (bubble_perm x rev).symm

/-- the candidates of an enumeration, in enumeration order -/
def candsOf (pass : Id → Bool) (dist : α → D) (enum : List (Id × α)) : List (Res D) :=
  (enum.filter fun it => pass it.1).map fun it => ⟨it.1, dist it.2⟩

omit [LinearOrder D] in
theorem candsOf_cons (pass : Id → Bool) (dist : α → D) (it : Id × α) (rest : List (Id × α)) :
    candsOf pass dist (it :: rest) =
      if pass it.1 then ⟨it.1, dist it.2⟩ :: candsOf pass dist rest else candsOf pass dist rest := by
  unfold candsOf
  by_cases h : pass it.1 <;> simp [h]

theorem inv_fold (op : SkipOp) (limit : Nat) (pass : Id → Bool) (dist : α → D) (enum : List (Id × α))
    {rev p : List (Res D)} (h : Inv limit rev p) :
    Inv limit (enum.foldl (fun rev it => if pass it.1 then step op limit rev ⟨it.1, dist it.2⟩ else rev) rev)
      ((candsOf pass dist enum).reverse ++ p) := by
  induction enum generalizing rev p with
  | nil => simpa [candsOf] using h
  | cons it rest ih =>
    simp only [foldl_cons, candsOf_cons]
    by_cases hp : pass it.1
    · simp only [hp, if_true, reverse_cons, append_assoc, singleton_append]
      exact ih (inv_step op limit _ h)
    · simp only [hp]
      exact ih h

theorem search_isKNN (op : SkipOp) (limit : Nat) (pass : Id → Bool) (dist : α → D) (enum : List (Id × α)) :
    IsKNN limit (candsOf pass dist enum) (search op limit pass dist enum) := by
  have h := inv_fold op limit pass dist enum (inv_nil (D := D) limit)
  simp only [append_nil] at h
  obtain ⟨hd, hl, dropped, hp, ho⟩ := h
  unfold search
  refine ⟨?_, ?_, dropped, ?_, ?_⟩
  · exact pairwise_reverse.2 hd
  · simpa using hl
  · exact (reverse_perm _).symm.trans (hp.trans ((reverse_perm _).symm.append_right _))
  · intro r hr c hc
    exact ho r (mem_reverse.1 hr) c hc

/-- an exact answer lists the `limit` smallest distances of the candidates, in order -/
theorem IsKNN.dists_eq {limit : Nat} {cands res : List (Res D)} (h : IsKNN limit cands res) :
    res.map (·.d) = ((cands.map (·.d)).insertionSort (· ≤ ·)).take limit := by
  obtain ⟨hs, hl, dropped, hp, ho⟩ := h
  let sd := (dropped.map (·.d)).insertionSort (· ≤ ·)
  have hsd : sd ~ dropped.map (·.d) := perm_insertionSort _ _
  have hL : (res.map (·.d) ++ sd).Pairwise (· ≤ ·) := by
    refine pairwise_append.2 ⟨?_, pairwise_insertionSort _ _, ?_⟩
    · exact (pairwise_map).2 hs
    · intro a ha b hb
      obtain ⟨r, hr, rfl⟩ := mem_map.1 ha
      obtain ⟨c, hc, rfl⟩ := mem_map.1 (hsd.mem_iff.1 hb)
      exact ho r hr c hc
  have hperm : (cands.map (·.d)).insertionSort (· ≤ ·) ~ res.map (·.d) ++ sd := by
    refine (perm_insertionSort _ _).trans ?_
    have := hp.map (·.d)
    rw [map_append] at this
    exact this.trans (hsd.symm.append_left _)
  have heq : (cands.map (·.d)).insertionSort (· ≤ ·) = res.map (·.d) ++ sd :=
    hperm.eq_of_pairwise' (pairwise_insertionSort _ _) hL
  rw [heq]
  have hlen := hp.length_eq
  simp only [length_append] at hlen
  by_cases hk : limit ≤ cands.length
  · rw [take_left']; simp only [length_map]; omega
  · have hdn : dropped = [] := by apply eq_nil_of_length_eq_zero; omega
    subst hdn
    simp only [sd, map_nil, insertionSort_nil, append_nil]
    rw [take_of_length_le]; simp only [length_map]; omega


theorem IsKNN.subperm {limit : Nat} {cands res : List (Res D)} (h : IsKNN limit cands res) : res <+~ cands := by
  obtain ⟨_, _, dropped, hp, _⟩ := h
  exact (sublist_append_left res dropped).subperm.trans hp.symm.subperm

theorem IsKNN.mem_cands {limit : Nat} {cands res : List (Res D)} (h : IsKNN limit cands res) {r : Res D}
    (hr : r ∈ res) : r ∈ cands := h.subperm.subset hr

/-- a candidate strictly closer than some returned entry is itself returned -/
theorem IsKNN.closer_mem {limit : Nat} {cands res : List (Res D)} (h : IsKNN limit cands res) {c r : Res D}
    (hc : c ∈ cands) (hr : r ∈ res) (hlt : c.d < r.d) : c ∈ res := by
  obtain ⟨_, _, dropped, hp, ho⟩ := h
  rcases mem_append.1 (hp.mem_iff.1 hc) with h1 | h1
  · exact h1
  · exact absurd (ho r hr c h1) (not_le.2 hlt)

theorem insertionSort_perm_eq {l₁ l₂ : List D} (h : l₁ ~ l₂) :
    l₁.insertionSort (· ≤ ·) = l₂.insertionSort (· ≤ ·) :=
  ((perm_insertionSort _ l₁).trans (h.trans (perm_insertionSort _ l₂).symm)).eq_of_pairwise'
    (pairwise_insertionSort _ _) (pairwise_insertionSort _ _)

/-- two exact answers over the same candidates (in any two orders) list the same distances -/
theorem IsKNN.dists_unique {limit : Nat} {c₁ c₂ r₁ r₂ : List (Res D)} (h₁ : IsKNN limit c₁ r₁)
    (h₂ : IsKNN limit c₂ r₂) (hc : c₁ ~ c₂) : r₁.map (·.d) = r₂.map (·.d) := by
  rw [h₁.dists_eq, h₂.dists_eq, insertionSort_perm_eq (hc.map _)]

/-- a group of equidistant candidates that one exact answer contains completely is contained
completely, with the same members, in every other exact answer -/
theorem IsKNN.group_unique {limit : Nat} {c₁ c₂ r₁ r₂ : List (Res D)} (h₁ : IsKNN limit c₁ r₁)
    (h₂ : IsKNN limit c₂ r₂) (hc : c₁ ~ c₂) (g : D)
    (hin : (c₁.filter fun c => c.d = g).length ≤ (r₁.filter fun c => c.d = g).length) :
    (r₂.filter fun c => decide (c.d = g)) ~ (r₁.filter fun c => decide (c.d = g)) := by
  have hd := h₁.dists_unique h₂ hc
  have hcount : (r₁.filter fun c => decide (c.d = g)).length = (r₂.filter fun c => decide (c.d = g)).length := by
    have e : ∀ l : List (Res D), (l.filter fun c => decide (c.d = g)).length = ((l.map (·.d)).filter fun d => decide (d = g)).length := by
      intro l; induction l with
      | nil => rfl
      | cons a l ih => by_cases ha : a.d = g <;> simp [filter_cons, ha, ih]
    rw [e, e, hd]
  have s₁ : (r₁.filter fun c => decide (c.d = g)) <+~ (c₁.filter fun c => decide (c.d = g)) := h₁.subperm.filter _
  have p₁ : (r₁.filter fun c => decide (c.d = g)) ~ (c₁.filter fun c => decide (c.d = g)) := s₁.perm_of_length_le hin
  have s₂ : (r₂.filter fun c => decide (c.d = g)) <+~ (r₁.filter fun c => decide (c.d = g)) :=
    (h₂.subperm.filter _).trans ((hc.symm.filter _).trans p₁.symm).subperm
  exact s₂.perm_of_length_le (by omega)


/-! ## the storage plans extracted from the source satisfy the write-back-cache laws -/

section plans
open Sema.C08 Sema.Gen Sema.Gen.FactsC04

theorem le64_natLE8 (b0 b1 b2 b3 b4 b5 b6 b7 : Byte) :
    le64 (BitVec.ofNat 64 (natLE [b0, b1, b2, b3, b4, b5, b6, b7])) = [b0, b1, b2, b3, b4, b5, b6, b7] := by
  have h0 := b0.isLt; have h1 := b1.isLt; have h2 := b2.isLt; have h3 := b3.isLt
  have h4 := b4.isLt; have h5 := b5.isLt; have h6 := b6.isLt; have h7 := b7.isLt
  simp only [le64, natLE, List.cons.injEq, and_true]
  refine ⟨?_, ?_, ?_, ?_, ?_, ?_, ?_, ?_⟩ <;>
  · apply BitVec.eq_of_toNat_eq
    rw [byteAt_toNat, BitVec.toNat_ofNat]
    omega

theorem len10 {α} (l : List α) (h : l.length = 10) : ∃ a0 a1 a2 a3 a4 a5 a6 a7 a8 a9, l = [a0,a1,a2,a3,a4,a5,a6,a7,a8,a9] := by
  rcases l with _ | ⟨a0, l⟩ <;> try (simp at h)
  rcases l with _ | ⟨a1, l⟩ <;> try (simp at h)
  rcases l with _ | ⟨a2, l⟩ <;> try (simp at h)
  rcases l with _ | ⟨a3, l⟩ <;> try (simp at h)
  rcases l with _ | ⟨a4, l⟩ <;> try (simp at h)
  rcases l with _ | ⟨a5, l⟩ <;> try (simp at h)
  rcases l with _ | ⟨a6, l⟩ <;> try (simp at h)
  rcases l with _ | ⟨a7, l⟩ <;> try (simp at h)
  rcases l with _ | ⟨a8, l⟩ <;> try (simp at h)
  rcases l with _ | ⟨a9, l⟩ <;> try (simp at h)
  subst h
  exact ⟨a0,a1,a2,a3,a4,a5,a6,a7,a8,a9, rfl⟩

/-- a key recognised under suffix `s` is the node key of the recognised id -/
theorem nodeIdFromKey_true (key : Bytes) (s : Byte) (id : Id) (h : Keys.NodeIdFromKey key s = (id, true)) :
    key = Keys.NodeKey id s := by
  rw [C19.nodeKey_eq]
  unfold Keys.NodeIdFromKey at h
  split at h
  · cases h
  · rename_i hc
    simp only [Bool.or_eq_true, bne_iff_ne, ne_eq, not_or, Decidable.not_not] at hc
    obtain ⟨⟨hl, h0⟩, h9⟩ := hc
    obtain ⟨k0, b0, b1, b2, b3, b4, b5, b6, b7, k9, rfl⟩ := len10 key hl
    simp [Go.idx, bget] at h0 h9
    subst h0 h9
    simp only [Prod.mk.injEq, and_true] at h
    subst h
    simp [Go.slice, Go.getLE64, ofLE64, le64_natLE8]

theorem nodeKey_eq_iff (id id' : Id) (s s' : Byte) : nodeKey id s = nodeKey id' s' ↔ id = id' ∧ s = s' :=
  C19.nodeKey_inj id id' s s'

/-- the persisted form of a point: what `ReadFrom` returns after `WriteTo` -/
def norm (p : Pt) : Pt := if p.code = [] then { vec := p.vec } else { code := p.code }

def qKey (id : Id) : Bytes := nodeKey id 0x71#8
def vKey (id : Id) : Bytes := nodeKey id 0x76#8

/-- write precondition of the plain store and the graph node: there is no code -/
def okPlain (_ : Id) (v : Pt) (_ : KV) : Prop := v.code = []
/-- write precondition of the quantised stores: something is written, and a point without code is
not shadowed by a stale code key -/
def okQ (id : Id) (v : Pt) (kv : KV) : Prop :=
  (v.code ≠ [] ∨ v.vec ≠ []) ∧ (v.code = [] → kv.get (qKey id) = none)

theorem isEmpty_false_iff (b : Bytes) : (b.isEmpty = false) ↔ b ≠ [] := by
  cases b <;> simp

macro "plan_simp" "[" ts:Lean.Parser.Tactic.simpLemma,* "]" : tactic =>
  `(tactic| simp [obs, storable, plainPoint, binaryQuantizedPoint, productQuantizedPoint, graphNode, writeSteps,
      readSteps, deleteSteps, Pt.fld, Pt.setFld, Pt.guard, get_put, get_delete, nodeKey_eq_iff, norm, qKey, vKey, $ts,*])

theorem laws_binary : Laws (storable binaryQuantizedPoint) norm okQ := by
  refine ⟨?_, ?_, ?_, ?_, ?_, ?_, ?_, ?_, ?_, ?_, ?_⟩
  · intro id v kv ⟨h1, h2⟩
    by_cases hc : v.code = []
    · have hv : v.vec ≠ [] := by simpa [hc] using h1
      have h2' := h2 hc
      simp [qKey] at h2'
      plan_simp [hc, hv, h2']
    · plan_simp [hc]
  · intro id id' v kv h
    by_cases hc : v.code = [] <;> by_cases hv : v.vec = [] <;> plan_simp [hc, hv, h]
  · intro id kv
    plan_simp []
  · intro id id' kv h
    plan_simp [h]
  · intro id id' v v' kv h ⟨h1, h2⟩
    refine ⟨h1, fun hc => ?_⟩
    have := h2 hc
    by_cases hc' : v.code = [] <;> by_cases hv : v.vec = [] <;> plan_simp [hc', hv, h] <;> simpa [qKey] using this
  · intro id id' v' kv h ⟨h1, h2⟩
    refine ⟨h1, fun hc => ?_⟩
    have := h2 hc
    plan_simp [h]; simpa [qKey] using this
  · intro v
    simp [storable, binaryQuantizedPoint, norm]
  · intro id v kv h
    simpa [storable, binaryQuantizedPoint, okQ] using h
  · intro id kv v h
    revert h
    plan_simp []
    cases kv.get (nodeKey id 0x71#8) <;> cases kv.get (nodeKey id 0x76#8) <;> simp <;> (intro h; subst h; rfl)
  · intro v
    simp [storable, binaryQuantizedPoint]
  · intro id v kv ⟨h1, h2⟩
    refine ⟨h1, fun hc => ?_⟩
    have := h2 hc
    by_cases hv : v.vec = [] <;> plan_simp [hc, hv] <;> simpa [qKey] using this

/-- write precondition of the product store: as `okQ`, and a point without vector (one that was
read back from a trained bucket) is only rewritten over its existing vector key -/
def okP (id : Id) (v : Pt) (kv : KV) : Prop :=
  okQ id v kv ∧ (v.vec = [] → (kv.get (vKey id)).isSome)

theorem laws_product : Laws (storable productQuantizedPoint) norm okP := by
  refine ⟨?_, ?_, ?_, ?_, ?_, ?_, ?_, ?_, ?_, ?_, ?_⟩
  · intro id v kv ⟨⟨h1, h2⟩, _⟩
    by_cases hc : v.code = []
    · have hv : v.vec ≠ [] := by simpa [hc] using h1
      have h2' := h2 hc
      simp [qKey] at h2'
      plan_simp [hc, hv, h2']
    · by_cases hv : v.vec = [] <;> plan_simp [hc, hv]
  · intro id id' v kv h
    by_cases hc : v.code = [] <;> by_cases hv : v.vec = [] <;> plan_simp [hc, hv, h]
  · intro id kv
    plan_simp []
  · intro id id' kv h
    plan_simp [h]
  · intro id id' v v' kv h ⟨⟨h1, h2⟩, h3⟩
    refine ⟨⟨h1, fun hc => ?_⟩, fun hv' => ?_⟩
    · have := h2 hc
      by_cases hc' : v.code = [] <;> by_cases hv : v.vec = [] <;> plan_simp [hc', hv, h] <;> simpa [qKey] using this
    · have := h3 hv'
      by_cases hc' : v.code = [] <;> by_cases hv : v.vec = [] <;> plan_simp [hc', hv, h] <;> simpa [vKey] using this
  · intro id id' v' kv h ⟨⟨h1, h2⟩, h3⟩
    refine ⟨⟨h1, fun hc => ?_⟩, fun hv' => ?_⟩
    · have := h2 hc
      plan_simp [h]; simpa [qKey] using this
    · have := h3 hv'
      plan_simp [h]; simpa [vKey] using this
  · intro v
    simp [storable, productQuantizedPoint, norm]
  · intro id v kv h
    simpa [storable, productQuantizedPoint, okP, okQ] using h
  · intro id kv v h
    revert h
    plan_simp []
    cases kv.get (nodeKey id 0x71#8) <;> cases kv.get (nodeKey id 0x76#8) <;> simp <;> (intro h; subst h; rfl)
  · intro v
    simp [storable, productQuantizedPoint]
  · intro id v kv ⟨⟨h1, h2⟩, h3⟩
    refine ⟨⟨h1, fun hc => ?_⟩, fun hv' => ?_⟩
    · have := h2 hc
      by_cases hv : v.vec = [] <;> plan_simp [hc, hv] <;> simpa [qKey] using this
    · have := h3 hv'
      by_cases hc : v.code = [] <;> plan_simp [hc, hv'] <;> simpa [vKey] using this

theorem laws_plain : Laws (storable plainPoint) norm okPlain := by
  refine ⟨?_, ?_, ?_, ?_, ?_, ?_, ?_, ?_, ?_, ?_, ?_⟩
  · intro id v kv h
    simp only [okPlain] at h
    plan_simp [h]
  · intro id id' v kv h
    plan_simp [h]
  · intro id kv
    plan_simp []
  · intro id id' kv h
    plan_simp [h]
  · intro id id' v v' kv _ h; exact h
  · intro id id' v' kv _ h; exact h
  · intro v
    simp [storable, plainPoint]
  · intro id v kv h
    simpa [storable, plainPoint, okPlain] using h
  · intro id kv v h
    simp [storable, plainPoint]
  · intro v
    simp [storable, plainPoint]
  · intro id v kv h; exact h

theorem laws_graphNode : Laws (storable graphNode) norm okPlain := by
  refine ⟨?_, ?_, ?_, ?_, ?_, ?_, ?_, ?_, ?_, ?_, ?_⟩
  · intro id v kv h
    simp only [okPlain] at h
    plan_simp [h]
  · intro id id' v kv h
    plan_simp [h]
  · intro id kv
    plan_simp []
  · intro id id' kv h
    plan_simp [h]
  · intro id id' v v' kv _ h; exact h
  · intro id id' v' kv _ h; exact h
  · intro v
    simp [storable, graphNode, norm]
  · intro id v kv h
    simpa [storable, graphNode, okPlain] using h
  · intro id kv v h
    revert h
    plan_simp []
    cases kv.get (nodeKey id 0x65#8) <;> simp <;> (intro h; subst h; rfl)
  · intro v
    simp [storable, graphNode]
  · intro id v kv h; exact h

/-! ### enumeration by key suffix -/

theorem nodeIdFromKey_nodeKey (id : Id) (s s' : Byte) :
    (Keys.NodeIdFromKey (Keys.NodeKey id s) s').2 = decide (s = s') ∧
    (s = s' → (Keys.NodeIdFromKey (Keys.NodeKey id s) s').1 = id) := by
  by_cases h : s = s'
  · subst h; simp [C19.nodeKey_roundtrip]
  · simp [C19.nodeKey_suffix_sep id s s' h, h]

theorem idFromKeySteps_nodeKey (id : Id) (s : Byte) (ids : List Byte) :
    idFromKeySteps (nodeKey id s) ids = if s ∈ ids then some id else none := by
  induction ids with
  | nil => simp [idFromKeySteps]
  | cons s' rest ih =>
    obtain ⟨h1, h2⟩ := nodeIdFromKey_nodeKey id s s'
    unfold idFromKeySteps
    simp only [nodeKey] at ih ⊢
    by_cases h : s = s'
    · subst h; simp [h1, h2 rfl]
    · have h' : ¬ s' = s := fun x => h x.symm
      simp [h1, h, ih, List.mem_cons]

theorem idFromKeySteps_some (key : Bytes) (ids : List Byte) (id : Id) (h : idFromKeySteps key ids = some id) :
    ∃ s, s ∈ ids ∧ key = nodeKey id s := by
  induction ids with
  | nil => simp [idFromKeySteps] at h
  | cons s rest ih =>
    unfold idFromKeySteps at h
    cases hr : (Keys.NodeIdFromKey key s).2
    · simp [hr] at h
      obtain ⟨s', hs, hk⟩ := ih h
      exact ⟨s', List.mem_cons_of_mem _ hs, hk⟩
    · simp [hr] at h
      refine ⟨s, List.mem_cons_self, nodeIdFromKey_true key s id ?_⟩
      rw [← h, ← hr]

/-- well-formed bucket of the product store: a code key never stands without its vector key -/
def wfProduct (kv : KV) : Prop := ∀ id, (kv.get (qKey id)).isSome → (kv.get (vKey id)).isSome

theorem getD_isSome (kv : KV) (key : Bytes) : key ∈ keys kv ↔ (kv.get key).isSome := (get_isSome_iff kv key).symm

theorem enum_plain : EnumLaws (storable plainPoint) (fun _ => True) := by
  constructor
  · intro kv id _ h
    refine ⟨nodeKey id 0x76#8, ?_, by simp [storable, plainPoint, idFromKeySteps_nodeKey]⟩
    rw [getD_isSome]
    revert h
    plan_simp []
    cases kv.get (nodeKey id 0x76#8) <;> simp
  · intro kv key id _ hk hid
    obtain ⟨s, hs, rfl⟩ := idFromKeySteps_some key _ id hid
    rw [getD_isSome] at hk
    simp [storable, plainPoint] at hs
    subst hs
    revert hk
    plan_simp []
    cases kv.get (nodeKey id 0x76#8) <;> simp

theorem enum_graphNode : EnumLaws (storable graphNode) (fun _ => True) := by
  constructor
  · intro kv id _ h
    refine ⟨nodeKey id 0x65#8, ?_, by simp [storable, graphNode, idFromKeySteps_nodeKey]⟩
    rw [getD_isSome]
    revert h
    plan_simp []
    cases kv.get (nodeKey id 0x65#8) <;> simp
  · intro kv key id _ hk hid
    obtain ⟨s, hs, rfl⟩ := idFromKeySteps_some key _ id hid
    rw [getD_isSome] at hk
    simp [storable, graphNode] at hs
    subst hs
    revert hk
    plan_simp []
    cases kv.get (nodeKey id 0x65#8) <;> simp

theorem enum_product : EnumLaws (storable productQuantizedPoint) wfProduct := by
  constructor
  · intro kv id hwf h
    refine ⟨nodeKey id 0x76#8, ?_, by simp [storable, productQuantizedPoint, idFromKeySteps_nodeKey]⟩
    rw [getD_isSome]
    have hq := hwf id
    revert h hq
    plan_simp []
    cases kv.get (nodeKey id 0x71#8) <;> cases kv.get (nodeKey id 0x76#8) <;> simp
  · intro kv key id _ hk hid
    obtain ⟨s, hs, rfl⟩ := idFromKeySteps_some key _ id hid
    rw [getD_isSome] at hk
    simp [storable, productQuantizedPoint] at hs
    subst hs
    revert hk
    plan_simp []
    cases kv.get (nodeKey id 0x71#8) <;> cases kv.get (nodeKey id 0x76#8) <;> simp

/-- the obligation that is false on the pinned tree: every binary-store item that can be read can
be enumerated -/
theorem enum_binary : EnumLaws (storable binaryQuantizedPoint) (fun _ => True) := by
  constructor
  · intro kv id _ h
    by_cases hq : (kv.get (nodeKey id 0x71#8)).isSome
    · exact ⟨nodeKey id 0x71#8, (getD_isSome _ _).2 hq, by simp [storable, binaryQuantizedPoint, idFromKeySteps_nodeKey]⟩
    · refine ⟨nodeKey id 0x76#8, ?_, by simp [storable, binaryQuantizedPoint, idFromKeySteps_nodeKey]⟩
      rw [getD_isSome]
      revert h hq
      plan_simp []
      cases kv.get (nodeKey id 0x71#8) <;> cases kv.get (nodeKey id 0x76#8) <;> simp
  · intro kv key id _ hk hid
    obtain ⟨s, hs, rfl⟩ := idFromKeySteps_some key _ id hid
    rw [getD_isSome] at hk
    simp [storable, binaryQuantizedPoint] at hs
    rcases hs with rfl | rfl <;>
    · revert hk
      plan_simp []
      cases kv.get (nodeKey id 0x71#8) <;> cases kv.get (nodeKey id 0x76#8) <;> simp


/-! ### bucket invariants and parameter keys -/

theorem wf_trivial (pl : Plan) (ok : Id → Pt → KV → Prop) : WfLaws (storable pl) ok (fun _ => True) :=
  ⟨fun _ _ _ _ _ => trivial, fun _ _ _ => trivial⟩

theorem wf_product : WfLaws (storable productQuantizedPoint) okP wfProduct := by
  constructor
  · intro id v kv ⟨⟨h1, _⟩, h3⟩ hwf id'
    have := hwf id'
    by_cases hid : id' = id
    · subst hid
      by_cases hc : v.code = [] <;> by_cases hv : v.vec = []
      · simp [hc, hv] at h1
      · plan_simp [hc, hv, wfProduct]
      · have := h3 hv
        revert this
        plan_simp [hc, hv]
      · plan_simp [hc, hv]
    · revert this
      by_cases hc : v.code = [] <;> by_cases hv : v.vec = [] <;> plan_simp [hc, hv, hid]
  · intro id kv hwf id'
    have := hwf id'
    revert this
    by_cases hid : id' = id
    · subst hid; plan_simp []
    · plan_simp [hid]

/-- a key that is not a node key (e.g. a parameter key) is invisible to the point plans -/
theorem readSteps_put_other (id : Id) (kv : KV) (pk x : Bytes) (hpk : ∀ id s, nodeKey id s ≠ pk)
    (rs : List RStep) (p : Pt) : readSteps id (kv.put pk x) rs p = readSteps id kv rs p := by
  induction rs generalizing p with
  | nil => rfl
  | cons r rest ih =>
    simp only [readSteps, get_put, hpk id r.suffix, if_false, ih]

theorem writeSteps_get_other (id : Id) (p : Pt) (ws : List WStep) (kv : KV) (pk : Bytes)
    (hpk : ∀ id s, nodeKey id s ≠ pk) : (writeSteps id p ws kv).get pk = kv.get pk := by
  induction ws generalizing kv with
  | nil => rfl
  | cons w rest ih =>
    have hne : ¬ pk = nodeKey id w.suffix := fun h => hpk id w.suffix h.symm
    unfold writeSteps
    split
    · split
      · simp [get_put, hne]
      · rw [ih]; simp [get_put, hne]
    · exact ih kv

theorem deleteSteps_get_other (id : Id) (ss : List Byte) (kv : KV) (pk : Bytes)
    (hpk : ∀ id s, nodeKey id s ≠ pk) : (deleteSteps id ss kv).get pk = kv.get pk := by
  induction ss generalizing kv with
  | nil => rfl
  | cons s rest ih =>
    have hne : ¬ pk = nodeKey id s := fun h => hpk id s h.symm
    simp only [deleteSteps]
    rw [ih]; simp [get_delete, hne]

theorem nodeKey_length (id : Id) (s : Byte) : (nodeKey id s).length = 10 := by
  simp [nodeKey, C19.nodeKey_eq, le64]

theorem nodeKey_ne_of_length (pk : Bytes) (h : pk.length ≠ 10) : ∀ id s, nodeKey id s ≠ pk := by
  intro id s he
  exact h (by rw [← he, nodeKey_length])

theorem thresholdKey_ne : ∀ id s, nodeKey id s ≠ thresholdKey :=
  nodeKey_ne_of_length _ (by simp [thresholdKey, centroidDistsKey, flatCentroidsKey, binaryThresholdKeyBytes, productCentroidDistsKeyBytes, productFlatCentroidsKeyBytes])
theorem centroidDistsKey_ne : ∀ id s, nodeKey id s ≠ centroidDistsKey :=
  nodeKey_ne_of_length _ (by simp [thresholdKey, centroidDistsKey, flatCentroidsKey, binaryThresholdKeyBytes, productCentroidDistsKeyBytes, productFlatCentroidsKeyBytes])
theorem flatCentroidsKey_ne : ∀ id s, nodeKey id s ≠ flatCentroidsKey :=
  nodeKey_ne_of_length _ (by simp [thresholdKey, centroidDistsKey, flatCentroidsKey, binaryThresholdKeyBytes, productCentroidDistsKeyBytes, productFlatCentroidsKeyBytes])

/-- `Flush` of the item cache leaves every non-node key of the bucket alone -/
theorem flush_get_other (pl : Plan) {ok : Id → Pt → KV → Prop} (L : Laws (storable pl) norm ok)
    {c : Cache Id Pt} {kv : KV} (h : Tracked (storable pl) norm ok c kv) (pk : Bytes)
    (hpk : ∀ id s, nodeKey id s ≠ pk) : (C08.flush (storable pl) c kv).2.get pk = kv.get pk := by
  have := flush_preserves L (fun kv' => kv'.get pk = kv.get pk)
    (fun id v kv' _ hI => by simp only [storable]; rw [writeSteps_get_other id v _ kv' pk hpk]; exact hI)
    (fun id kv' hI => by simp only [storable]; rw [deleteSteps_get_other id _ kv' pk hpk]; exact hI)
    c.items [] kv h.nodup (fun id e hm hd hw => h.dirty id e (find_of_mem h.nodup hm) hd hw) rfl
  simpa [C08.flush] using this

end plans

end Sema.C04
