/-
C04 — helper lemmas for the bounded insertion of flat.Search (any linear order of distances).
-/
import SemaModel.C04.Model
import Mathlib.Data.List.Sort
import Mathlib.Order.Defs.LinearOrder
namespace Sema.C04
open Sema List

variable {D : Type} [LinearOrder D]

/-- exact k-nearest-neighbour answers: `res` is sorted, has `min limit |cands|` entries, and the
candidates split into `res` and a rest no entry of which is strictly closer than any entry of `res` -/
structure IsKNN (limit : Nat) (cands res : List (Res D)) : Prop where
  sorted : res.Pairwise (fun a b => a.d ≤ b.d)
  length : res.length = min limit cands.length
  split : ∃ dropped, cands ~ res ++ dropped ∧ ∀ r ∈ res, ∀ c ∈ dropped, r.d ≤ c.d

theorem bubble_perm (x : Res D) (l : List (Res D)) : bubble x l ~ x :: l := by
  induction l with
  | nil => simp [bubble]
  | cons y ys ih =>
    simp only [bubble]
    split
    · exact (ih.cons y).trans (Perm.swap x y ys)
    · exact Perm.refl _

theorem mem_bubble {x z : Res D} {l : List (Res D)} : z ∈ bubble x l ↔ z = x ∨ z ∈ l := by
  rw [(bubble_perm x l).mem_iff]; simp

theorem length_bubble (x : Res D) (l : List (Res D)) : (bubble x l).length = l.length + 1 := by
  rw [(bubble_perm x l).length_eq]; simp

/-- the slice held in reverse is non-increasing -/
abbrev Desc (l : List (Res D)) : Prop := l.Pairwise (fun a b => b.d ≤ a.d)

theorem bubble_desc (x : Res D) {l : List (Res D)} (h : Desc l) : Desc (bubble x l) := by
  induction l with
  | nil => simp [bubble]
  | cons y ys ih =>
    have hy := pairwise_cons.1 h
    simp only [bubble]
    split
    · rename_i hlt
      refine pairwise_cons.2 ⟨?_, ih hy.2⟩
      intro z hz
      rcases mem_bubble.1 hz with rfl | hz
      · exact le_of_lt hlt
      · exact hy.1 z hz
    · rename_i hnlt
      have hle : y.d ≤ x.d := not_lt.1 hnlt
      refine pairwise_cons.2 ⟨?_, h⟩
      intro z hz
      rcases mem_cons.1 hz with rfl | hz
      · exact hle
      · exact le_trans (hy.1 z hz) hle

/-- invariant of the scan: `rev` is the result slice in reverse, `p` the candidates seen so far -/
structure Inv (limit : Nat) (rev p : List (Res D)) : Prop where
  desc : Desc rev
  length : rev.length = min limit p.length
  split : ∃ dropped, p ~ rev ++ dropped ∧ ∀ r ∈ rev, ∀ c ∈ dropped, r.d ≤ c.d

theorem inv_nil (limit : Nat) : Inv (D := D) limit [] [] :=
  ⟨Pairwise.nil, by simp, [], by simp, by simp⟩

/-- the skip test of either flavour never skips a strictly closer point and only skips points
that are no closer than the last entry -/
def skips (op : SkipOp) (x last : Res D) : Bool :=
  match op with
  | .ge => !(x.d < last.d)
  | .gt => last.d < x.d

theorem skips_true {op : SkipOp} {x last : Res D} (h : skips op x last = true) : last.d ≤ x.d := by
  cases op <;> simp [skips] at h
  · exact h
  · exact le_of_lt h

theorem skips_false {op : SkipOp} {x last : Res D} (h : skips op x last = false) : x.d ≤ last.d := by
  cases op <;> simp [skips] at h
  · exact le_of_lt h
  · exact h

theorem step_full (op : SkipOp) (limit : Nat) (last : Res D) (rest : List (Res D)) (x : Res D)
    (h : (last :: rest).length = limit) :
    step op limit (last :: rest) x = if skips op x last then last :: rest else bubble x rest := by
  unfold step skips
  simp only [h, if_true]
  cases op <;> rfl

theorem step_notfull (op : SkipOp) (limit : Nat) (rev : List (Res D)) (x : Res D)
    (h : rev.length ≠ limit) : step op limit rev x = bubble x rev := by
  unfold step; simp [h]

theorem step_zero (op : SkipOp) (x : Res D) : step op 0 [] x = [] := by
  unfold step; simp

theorem inv_step (op : SkipOp) (limit : Nat) {rev p : List (Res D)} (x : Res D) (h : Inv limit rev p) :
    Inv limit (step op limit rev x) (x :: p) := by
  obtain ⟨hd, hl, dropped, hp, ho⟩ := h
  have hplen := hp.length_eq
  simp only [length_append] at hplen
  by_cases hfull : rev.length = limit
  · -- the slice is full
    have hle : limit ≤ p.length := by omega
    cases rev with
    | nil =>
      simp only [length_nil] at hfull
      subst hfull
      rw [step_zero]
      refine ⟨Pairwise.nil, by simp, x :: dropped, ?_, by simp⟩
      simpa using hp.cons x
    | cons last rest =>
      have hdl := pairwise_cons.1 hd
      have hlen : (last :: rest).length = min limit (x :: p).length := by
        simp only [length_cons] at hfull ⊢; omega
      rw [step_full op limit last rest x hfull]
      cases hskip : skips op x last
      · -- replaces the last entry
        simp only [Bool.false_eq_true, if_false]
        have hx : x.d ≤ last.d := skips_false hskip
        refine ⟨bubble_desc x hdl.2, ?_, last :: dropped, ?_, ?_⟩
        · rw [length_bubble]; simp only [length_cons] at hlen ⊢; omega
        · have h1 : x :: p ~ x :: (last :: rest ++ dropped) := hp.cons x
          have h2 : x :: (last :: rest ++ dropped) ~ (x :: rest) ++ (last :: dropped) := by
            simp only [cons_append]
            exact (perm_middle (a := last) (l₁ := rest) (l₂ := dropped)).symm.cons x
          exact h1.trans (h2.trans ((bubble_perm x rest).symm.append_right _))
        · intro r hr c hc
          have hc' : last.d ≤ c.d := by
            rcases mem_cons.1 hc with rfl | hc
            · exact le_refl _
            · exact ho last (mem_cons_self) c hc
          rcases mem_bubble.1 hr with rfl | hr
          · exact le_trans hx hc'
          · exact le_trans (hdl.1 r hr) hc'
      · -- skipped: no closer than the last entry
        simp only [if_true]
        have hlast : last.d ≤ x.d := skips_true hskip
        refine ⟨hd, hlen, x :: dropped, ?_, ?_⟩
        · exact (hp.cons x).trans perm_middle.symm
        · intro r hr c hc
          rcases mem_cons.1 hc with rfl | hc
          · rcases mem_cons.1 hr with rfl | hr
            · exact hlast
            · exact le_trans (hdl.1 r hr) hlast
          · exact ho r hr c hc
  · -- the slice is not full: nothing has been dropped yet
    rw [step_notfull op limit rev x hfull]
    have hlt : p.length < limit := by omega
    have hrl : rev.length = p.length := by omega
    have hdn : dropped = [] := by
      apply eq_nil_of_length_eq_zero; omega
    subst hdn
    refine ⟨bubble_desc x hd, ?_, [], ?_, by simp⟩
    · rw [length_bubble]; simp only [length_cons]; omega
    · simp only [append_nil] at hp ⊢
      exact (hp.cons x).trans (bubble_perm x rev).symm

/-- the candidates of an enumeration, in enumeration order -/
def candsOf (pass : Id → Bool) (dist : α → D) (enum : List (Id × α)) : List (Res D) :=
  (enum.filter fun it => pass it.1).map fun it => ⟨it.1, dist it.2⟩

omit [LinearOrder D] in
theorem candsOf_cons (pass : Id → Bool) (dist : α → D) (it : Id × α) (rest : List (Id × α)) :
    candsOf pass dist (it :: rest) =
      if pass it.1 then ⟨it.1, dist it.2⟩ :: candsOf pass dist rest else candsOf pass dist rest := by
  unfold candsOf
  by_cases h : pass it.1 <;> simp [h]

theorem inv_fold (op : SkipOp) (limit : Nat) (pass : Id → Bool) (dist : α → D) (enum : List (Id × α))
    {rev p : List (Res D)} (h : Inv limit rev p) :
    Inv limit (enum.foldl (fun rev it => if pass it.1 then step op limit rev ⟨it.1, dist it.2⟩ else rev) rev)
      ((candsOf pass dist enum).reverse ++ p) := by
  induction enum generalizing rev p with
  | nil => simpa [candsOf] using h
  | cons it rest ih =>
    simp only [foldl_cons, candsOf_cons]
    by_cases hp : pass it.1
    · simp only [hp, if_true, reverse_cons, append_assoc, singleton_append]
      exact ih (inv_step op limit _ h)
    · simp only [hp]
      exact ih h

theorem search_isKNN (op : SkipOp) (limit : Nat) (pass : Id → Bool) (dist : α → D) (enum : List (Id × α)) :
    IsKNN limit (candsOf pass dist enum) (search op limit pass dist enum) := by
  have h := inv_fold op limit pass dist enum (inv_nil (D := D) limit)
  simp only [append_nil] at h
  obtain ⟨hd, hl, dropped, hp, ho⟩ := h
  unfold search
  refine ⟨?_, ?_, dropped, ?_, ?_⟩
  · exact pairwise_reverse.2 hd
  · simpa using hl
  · exact (reverse_perm _).symm.trans (hp.trans ((reverse_perm _).symm.append_right _))
  · intro r hr c hc
    exact ho r (mem_reverse.1 hr) c hc

/-- an exact answer lists the `limit` smallest distances of the candidates, in order -/
theorem IsKNN.dists_eq {limit : Nat} {cands res : List (Res D)} (h : IsKNN limit cands res) :
    res.map (·.d) = ((cands.map (·.d)).insertionSort (· ≤ ·)).take limit := by
  obtain ⟨hs, hl, dropped, hp, ho⟩ := h
  let sd := (dropped.map (·.d)).insertionSort (· ≤ ·)
  have hsd : sd ~ dropped.map (·.d) := perm_insertionSort _ _
  have hL : (res.map (·.d) ++ sd).Pairwise (· ≤ ·) := by
    refine pairwise_append.2 ⟨?_, pairwise_insertionSort _ _, ?_⟩
    · exact (pairwise_map).2 hs
    · intro a ha b hb
      obtain ⟨r, hr, rfl⟩ := mem_map.1 ha
      obtain ⟨c, hc, rfl⟩ := mem_map.1 (hsd.mem_iff.1 hb)
      exact ho r hr c hc
  have hperm : (cands.map (·.d)).insertionSort (· ≤ ·) ~ res.map (·.d) ++ sd := by
    refine (perm_insertionSort _ _).trans ?_
    have := hp.map (·.d)
    rw [map_append] at this
    exact this.trans (hsd.symm.append_left _)
  have heq : (cands.map (·.d)).insertionSort (· ≤ ·) = res.map (·.d) ++ sd :=
    hperm.eq_of_pairwise' (pairwise_insertionSort _ _) hL
  rw [heq]
  have hlen := hp.length_eq
  simp only [length_append] at hlen
  by_cases hk : limit ≤ cands.length
  · rw [take_left']; simp only [length_map]; omega
  · have hdn : dropped = [] := by apply eq_nil_of_length_eq_zero; omega
    subst hdn
    simp only [sd, map_nil, insertionSort_nil, append_nil]
    rw [take_of_length_le]; simp only [length_map]; omega


theorem IsKNN.subperm {limit : Nat} {cands res : List (Res D)} (h : IsKNN limit cands res) : res <+~ cands := by
  obtain ⟨_, _, dropped, hp, _⟩ := h
  exact (sublist_append_left res dropped).subperm.trans hp.symm.subperm

theorem IsKNN.mem_cands {limit : Nat} {cands res : List (Res D)} (h : IsKNN limit cands res) {r : Res D}
    (hr : r ∈ res) : r ∈ cands := h.subperm.subset hr

/-- a candidate strictly closer than some returned entry is itself returned -/
theorem IsKNN.closer_mem {limit : Nat} {cands res : List (Res D)} (h : IsKNN limit cands res) {c r : Res D}
    (hc : c ∈ cands) (hr : r ∈ res) (hlt : c.d < r.d) : c ∈ res := by
  obtain ⟨_, _, dropped, hp, ho⟩ := h
  rcases mem_append.1 (hp.mem_iff.1 hc) with h1 | h1
  · exact h1
  · exact absurd (ho r hr c h1) (not_le.2 hlt)

theorem insertionSort_perm_eq {l₁ l₂ : List D} (h : l₁ ~ l₂) :
    l₁.insertionSort (· ≤ ·) = l₂.insertionSort (· ≤ ·) :=
  ((perm_insertionSort _ l₁).trans (h.trans (perm_insertionSort _ l₂).symm)).eq_of_pairwise'
    (pairwise_insertionSort _ _) (pairwise_insertionSort _ _)

/-- two exact answers over the same candidates (in any two orders) list the same distances -/
theorem IsKNN.dists_unique {limit : Nat} {c₁ c₂ r₁ r₂ : List (Res D)} (h₁ : IsKNN limit c₁ r₁)
    (h₂ : IsKNN limit c₂ r₂) (hc : c₁ ~ c₂) : r₁.map (·.d) = r₂.map (·.d) := by
  rw [h₁.dists_eq, h₂.dists_eq, insertionSort_perm_eq (hc.map _)]

/-- a group of equidistant candidates that one exact answer contains completely is contained
completely, with the same members, in every other exact answer -/
theorem IsKNN.group_unique {limit : Nat} {c₁ c₂ r₁ r₂ : List (Res D)} (h₁ : IsKNN limit c₁ r₁)
    (h₂ : IsKNN limit c₂ r₂) (hc : c₁ ~ c₂) (g : D)
    (hin : (c₁.filter fun c => c.d = g).length ≤ (r₁.filter fun c => c.d = g).length) :
    (r₂.filter fun c => decide (c.d = g)) ~ (r₁.filter fun c => decide (c.d = g)) := by
  have hd := h₁.dists_unique h₂ hc
  have hcount : (r₁.filter fun c => decide (c.d = g)).length = (r₂.filter fun c => decide (c.d = g)).length := by
    have e : ∀ l : List (Res D), (l.filter fun c => decide (c.d = g)).length = ((l.map (·.d)).filter fun d => decide (d = g)).length := by
      intro l; induction l with
      | nil => rfl
      | cons a l ih => by_cases ha : a.d = g <;> simp [filter_cons, ha, ih]
    rw [e, e, hd]
  have s₁ : (r₁.filter fun c => decide (c.d = g)) <+~ (c₁.filter fun c => decide (c.d = g)) := h₁.subperm.filter _
  have p₁ : (r₁.filter fun c => decide (c.d = g)) ~ (c₁.filter fun c => decide (c.d = g)) := s₁.perm_of_length_le hin
  have s₂ : (r₂.filter fun c => decide (c.d = g)) <+~ (r₁.filter fun c => decide (c.d = g)) :=
    (h₂.subperm.filter _).trans ((hc.symm.filter _).trans p₁.symm).subperm
  exact s₂.perm_of_length_le (by omega)

end Sema.C04
