/-
C04 — the hybrid score of the flat search as a theorem about the expression generated from
shard/index/flat/flat.go (SemaModel/Generated/Hybrid.lean: `flat_weight`, `flat_hybrid`):
`HybridScore: (-1 * weight * dist)` with `weight` = 1 when `options.Weight` is nil.
Floats are the symbolic `Go.FExpr` (operands and operations exactly as in the source: Go parses
`-1 * weight * dist` as `((-1) * weight) * dist`); IEEE rounding is not interpreted — the driver evaluates
the same tree with hardware float32 and compares bit for bit with the real `_hybridScore` (`hyb` op lines).
-/
import SemaModel.C04.Lemmas
import SemaModel.C04.HybridGen
namespace Sema.C04
open Sema Sema.Go Sema.Gen List

/-- the weight default: `var weight float32 = 1; if options.Weight != nil { weight = *options.Weight }` -/
theorem C04_weight_default (w : Option FExpr) : Hybrid.flat_weight ⟨w⟩ = w.getD (FExpr.lit 1) := by
  cases w <;> rfl

/-- **hybrid = (-1 * weight) * dist**, exactly as generated -/
theorem C04_hybrid_formula (w : Option FExpr) (d : FExpr) :
    hybridGen w d = FExpr.mul (FExpr.mul (FExpr.neg (FExpr.lit 1)) (w.getD (FExpr.lit 1))) d := by
  cases w <;> rfl

variable {D : Type} [LinearOrder D] {α : Type}

/-- `C04_hybrid` with the generated expression: `sym` names the distance value as a leaf of the tree (e.g. the
float32 bit pattern as `FExpr.var`), `ev` is ANY evaluation of trees into a linear order.  Every entry of the
answer carries the generated formula of its own distance; if the evaluated hybrid score is antitone in the
distance (IEEE float32: whenever the weight is ≥ 0 and no NaN occurs) the scores are non-increasing. -/
theorem C04_hybrid_generated {S : Type} [LinearOrder S] (ev : FExpr → S) (sym : D → FExpr) (w : Option FExpr)
    (hmono : ∀ a b : D, a ≤ b → ev (hybridGen w (sym b)) ≤ ev (hybridGen w (sym a)))
    (op : SkipOp) (limit : Nat) (pass : Id → Bool) (dist : α → D) (enum : List (Id × α)) :
    let out := (search op limit pass dist enum).map fun r => (r, hybridGen w (sym r.d))
    (∀ e ∈ out, e.2 = FExpr.mul (FExpr.mul (FExpr.neg (FExpr.lit 1)) (w.getD (FExpr.lit 1))) (sym e.1.d)) ∧
      out.Pairwise (fun a b => ev b.2 ≤ ev a.2) := by
  refine ⟨?_, ?_⟩
  · intro e he
    simp only [mem_map] at he
    obtain ⟨r, _, rfl⟩ := he
    exact C04_hybrid_formula w _
  · simp only [pairwise_map]
    exact (search_isKNN op limit pass dist enum).sorted.imp fun h => hmono _ _ h

example : hybridGen none (.var 0x40000000#32) = .mul (.mul (.neg (.lit 1)) (.lit 1)) (.var 0x40000000#32) := by decide
example : hybridGen (some (.var 0x3f000000#32)) (.var 0x40000000#32) =
    .mul (.mul (.neg (.lit 1)) (.var 0x3f000000#32)) (.var 0x40000000#32) := by decide

end Sema.C04
