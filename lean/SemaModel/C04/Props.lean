/-
C04 — flat vector search is exact k-nearest-neighbour search within the filter; same answer warm
or cold.

* `flat.Search` is the bounded insertion of C04/Model.lean; the comparison operators and the loop
  bound it uses are pinned to the source (`Generated/FactsC04.lean`).
* Distances are elements of an arbitrary linear order `D` (DESIGN 3.2); the theorems hold for every
  enumeration order of the store's items (Go map order is an oracle) and for both flavours of the
  skip test.
* The point types of the three vector stores are the storage plans extracted from the source; the
  enumeration theorems are proved *over those generated tables*.
-/
import SemaModel.C04.Lemmas
import SemaModel.C08.Props
namespace Sema.C04
open Sema List Sema.C08 Sema.Gen Sema.Gen.FactsC04

variable {D : Type} [LinearOrder D]

/-! ### the source still has the shape the model transcribes -/

/-- skip test `dist >= last` or `dist > last` (the theorems cover both), swap test `<`, swap loop
down to index 1 (`i > 0`) -/
example : (skipOpOf flatSkipOp).isSome = true ∧ flatSwapOp = "<" ∧ flatLoopLow = 0 := by decide

/-! ### exactness -/

/-- **C04_exact**: for EVERY enumeration order `enum` of the store's items, every filter and every
distance closure, the answer of `flat.Search`
(1) is sorted by non-decreasing distance,
(2) has `min limit |candidates|` entries,
(3) consists of candidates — items of the enumeration that pass the filter, each reported with the
    distance the closure assigns to it, none reported more often than it is enumerated —
(4) and no candidate left out is strictly closer than any returned entry (exact kNN up to ties).
Hypothesis `0 < limit`: with `limit = 0` the Go code indexes `res[-1]` (validation enforces 1..75). -/
theorem C04_exact (op : SkipOp) (limit : Nat) (_hl : 0 < limit) (pass : Id → Bool) (dist : α → D)
    (enum : List (Id × α)) :
    let cands := candsOf pass dist enum
    let res := search op limit pass dist enum
    res.Pairwise (fun a b => a.d ≤ b.d) ∧
    res.length = min limit cands.length ∧
    ∃ dropped, cands ~ res ++ dropped ∧ ∀ r ∈ res, ∀ c ∈ dropped, r.d ≤ c.d := by
  have h := search_isKNN op limit pass dist enum
  exact ⟨h.sorted, h.length, h.split⟩

/-- every returned id is a genuine candidate and its reported distance is `dist(query, item)` -/
theorem C04_candidates (op : SkipOp) (limit : Nat) (pass : Id → Bool) (dist : α → D) (enum : List (Id × α))
    (r : Res D) (hr : r ∈ search op limit pass dist enum) :
    ∃ it, it ∈ enum ∧ pass it.1 = true ∧ r = ⟨it.1, dist it.2⟩ := by
  have := (search_isKNN op limit pass dist enum).mem_cands hr
  simp only [candsOf, mem_map, mem_filter] at this
  obtain ⟨it, ⟨h1, h2⟩, rfl⟩ := this
  exact ⟨it, h1, h2, rfl⟩

/-- a candidate strictly closer than some returned entry is returned -/
theorem C04_no_closer_left_out (op : SkipOp) (limit : Nat) (pass : Id → Bool) (dist : α → D)
    (enum : List (Id × α)) (it : Id × α) (hit : it ∈ enum) (hp : pass it.1 = true) (r : Res D)
    (hr : r ∈ search op limit pass dist enum) (hlt : dist it.2 < r.d) :
    (⟨it.1, dist it.2⟩ : Res D) ∈ search op limit pass dist enum := by
  refine (search_isKNN op limit pass dist enum).closer_mem ?_ hr hlt
  simp only [candsOf, mem_map, mem_filter]
  exact ⟨it, ⟨hit, hp⟩, rfl⟩

/-- the reported distances are the `limit` smallest candidate distances, in order -/
theorem C04_sorted_prefix (op : SkipOp) (limit : Nat) (pass : Id → Bool) (dist : α → D) (enum : List (Id × α)) :
    (search op limit pass dist enum).map (·.d) =
      (((candsOf pass dist enum).map (·.d)).insertionSort (· ≤ ·)).take limit :=
  (search_isKNN op limit pass dist enum).dists_eq

/-- with a unique id per item (a Go map) no id is returned twice -/
theorem C04_nodup (op : SkipOp) (limit : Nat) (pass : Id → Bool) (dist : α → D) (enum : List (Id × α))
    (hn : (enum.map (·.1)).Nodup) : ((search op limit pass dist enum).map (·.id)).Nodup := by
  obtain ⟨dropped, hp, _⟩ := (search_isKNN op limit pass dist enum).split
  have hc : ((candsOf pass dist enum).map (·.id)).Nodup := by
    have : (candsOf pass dist enum).map (·.id) = (enum.filter fun it => pass it.1).map (·.1) := by
      simp [candsOf, List.map_map, Function.comp_def]
    rw [this]
    exact (List.Sublist.map _ List.filter_sublist).nodup hn
  have := (hp.map (·.id)).nodup_iff.1 hc
  rw [List.map_append] at this
  exact (List.nodup_append.1 this).1

/-- **order independence** ("the same answer" as the harness compares it): two enumeration orders
of the same items give (a) equal distance sequences, (b) for every distance value whose group of
candidates one answer contains completely, the same members in the other answer, and (c) every
candidate strictly closer than the last entry in both. -/
theorem C04_order_indep (op₁ op₂ : SkipOp) (limit : Nat) (pass : Id → Bool) (dist : α → D)
    (enum₁ enum₂ : List (Id × α)) (hperm : enum₁ ~ enum₂) :
    let r₁ := search op₁ limit pass dist enum₁
    let r₂ := search op₂ limit pass dist enum₂
    r₁.map (·.d) = r₂.map (·.d) ∧
    (∀ g : D, ((candsOf pass dist enum₁).filter fun c => c.d = g).length ≤ (r₁.filter fun c => c.d = g).length →
      (r₂.filter fun c => decide (c.d = g)) ~ (r₁.filter fun c => decide (c.d = g))) := by
  have h₁ := search_isKNN op₁ limit pass dist enum₁
  have h₂ := search_isKNN op₂ limit pass dist enum₂
  have hc : candsOf pass dist enum₁ ~ candsOf pass dist enum₂ := by
    unfold candsOf; exact (hperm.filter _).map _
  exact ⟨h₁.dists_unique h₂ hc, fun g hg => h₁.group_unique h₂ hc g hg⟩

/-! ### hybrid score -/

/-- a result with its hybrid score `-1 * weight * dist`, over an abstract `scale` (multiplication by
the weight) and `neg` -/
def withHybrid {S : Type} (neg : S → S) (scale : D → S) (res : List (Res D)) : List (Res D × S) :=
  res.map fun r => (r, neg (scale r.d))

/-- **hybrid**: every entry carries `neg (scale dist)`; if scaling is monotone (weight ≥ 0) and
negation antitone, the hybrid scores are non-increasing along the answer -/
theorem C04_hybrid {S : Type} [LinearOrder S] (neg : S → S) (scale : D → S)
    (hneg : ∀ a b, a ≤ b → neg b ≤ neg a) (hscale : ∀ a b, a ≤ b → scale a ≤ scale b)
    (op : SkipOp) (limit : Nat) (pass : Id → Bool) (dist : α → D) (enum : List (Id × α)) :
    let out := withHybrid neg scale (search op limit pass dist enum)
    (∀ e ∈ out, e.2 = neg (scale e.1.d)) ∧ out.Pairwise (fun a b => b.2 ≤ a.2) := by
  refine ⟨?_, ?_⟩
  · intro e he
    simp only [withHybrid, mem_map] at he
    obtain ⟨r, _, rfl⟩ := he
    rfl
  · simp only [withHybrid, pairwise_map]
    exact (search_isKNN op limit pass dist enum).sorted.imp fun h => hneg _ _ (hscale _ _ h)

/-! ### enumeration by key suffix (over the generated tables) -/

/-- the keys `WriteTo` puts for a point -/
def writtenSuffixes (p : Pt) : List WStep → List Byte
  | [] => []
  | w :: rest => if p.guard w.guard then (if w.ret then [w.suffix] else w.suffix :: writtenSuffixes p rest) else writtenSuffixes p rest

theorem writeSteps_keys (id : Id) (p : Pt) (ws : List WStep) (kv : KV) (s : Byte) (hs : s ∈ writtenSuffixes p ws) :
    nodeKey id s ∈ keys (writeSteps id p ws kv) := by
  induction ws generalizing kv with
  | nil => simp [writtenSuffixes] at hs
  | cons w rest ih =>
    have keep : ∀ (ws : List WStep) (kv : KV) (k : Bytes), k ∈ keys kv → k ∈ keys (writeSteps id p ws kv) := by
      intro ws
      induction ws with
      | nil => intro kv k h; exact h
      | cons w rest ih' =>
        intro kv k h
        unfold writeSteps
        split
        · split
          · exact (mem_keys_put _ _ _ _).2 (Or.inr h)
          · exact ih' _ _ ((mem_keys_put _ _ _ _).2 (Or.inr h))
        · exact ih' _ _ h
    unfold writtenSuffixes at hs
    unfold writeSteps
    split
    · rename_i hg
      simp only [hg, if_true] at hs
      split
      · rename_i hr
        simp only [hr, if_true, mem_singleton] at hs
        subst hs
        exact (mem_keys_put _ _ _ _).2 (Or.inl rfl)
      · rename_i hr
        simp only [hr] at hs
        rcases mem_cons.1 hs with rfl | hs
        · exact keep _ _ _ ((mem_keys_put _ _ _ _).2 (Or.inl rfl))
        · exact ih _ hs
    · rename_i hg
      simp only [hg] at hs
      exact ih _ hs

/-- the points `Set` (and `Fit`) produce in a store: a vector is always present; a code is present
exactly when the quantiser is trained (never for the plain store) -/
def Settable (k : Kind) (trained : Bool) (p : Pt) : Prop :=
  p.vec ≠ [] ∧ (match k with
    | .plain => p.code = []
    | _ => (p.code ≠ [] ↔ trained = true))

/-- **C04_enumerable**: for every store type and every state (trained or not), every item that
`Flush` writes is recovered by `ForEach` on an empty cache: `WriteTo` puts a key that `IdFromKey`
maps back to the id.  Proved over the generated suffix tables; this is the obligation that is false
on a tree whose `binaryQuantizedPoint.IdFromKey` recognises only `'v'`. -/
theorem C04_enumerable (k : Kind) (trained : Bool) (id : Id) (p : Pt) (hp : Settable k trained p) (kv : KV) :
    ∃ key, key ∈ keys ((storable (planOf k)).writeTo id p kv) ∧ (storable (planOf k)).idFromKey key = some id := by
  obtain ⟨hv, hc⟩ := hp
  have hve : p.vec.isEmpty = false := by cases h : p.vec <;> simp_all
  cases k with
  | plain =>
    refine ⟨nodeKey id 0x76#8, writeSteps_keys id p _ kv _ ?_, by simp [storable, planOf, plainPoint, idFromKeySteps_nodeKey]⟩
    simp [planOf, plainPoint, writtenSuffixes, Pt.guard]
  | binary =>
    cases trained with
    | true =>
      have hce : p.code.isEmpty = false := by
        have : p.code ≠ [] := hc.2 rfl
        cases h : p.code <;> simp_all
      refine ⟨nodeKey id 0x71#8, writeSteps_keys id p _ kv _ ?_, by simp [storable, planOf, binaryQuantizedPoint, idFromKeySteps_nodeKey]⟩
      simp [planOf, binaryQuantizedPoint, writtenSuffixes, Pt.guard, Pt.fld, hce]
    | false =>
      have hce : p.code.isEmpty = true := by
        have : ¬ p.code ≠ [] := fun h => by simpa using hc.1 h
        cases h : p.code <;> simp_all
      refine ⟨nodeKey id 0x76#8, writeSteps_keys id p _ kv _ ?_, by simp [storable, planOf, binaryQuantizedPoint, idFromKeySteps_nodeKey]⟩
      simp [planOf, binaryQuantizedPoint, writtenSuffixes, Pt.guard, Pt.fld, hce, hve]
  | product =>
    refine ⟨nodeKey id 0x76#8, writeSteps_keys id p _ kv _ ?_, by simp [storable, planOf, productQuantizedPoint, idFromKeySteps_nodeKey]⟩
    by_cases hce : p.code.isEmpty = true <;> simp [planOf, productQuantizedPoint, writtenSuffixes, Pt.guard, Pt.fld, hce, hve]

/-- …and in general: on a (well-formed) committed bucket `ForEach` of an empty cache enumerates
exactly the ids `ReadFrom` can read, each once (no duplicates even where a point has two keys) -/
theorem C04_forEach_complete (k : Kind) (kv : KV) (hwf : wfOf k kv) :
    ∃ c l, forEach (storable (planOf k)) Cache.empty kv = some (c, l) ∧ (l.map (·.1)).Nodup ∧
      ∀ id p, obs (storable (planOf k)) norm kv id = some p ↔ ∃ v, (id, v) ∈ l ∧ norm v = p := by
  have hc := coherent_empty (storable (planOf k)) norm (okOf k) kv
  obtain ⟨c, l, h1, _, _, _, h5, h6⟩ := forEach_spec (laws_of k) (enum_of k) hwf hc.tracked
  refine ⟨c, l, h1, h5, fun id p => ?_⟩
  rw [← h6 id p, coherent_view hc]

/-! ### warm = cold -/

/-- the distance closure reads only the persisted projection of a point: always once the quantiser
is trained (it reads the code), and before that as long as no point carries a code -/
theorem distKey_norm (s : Store) (p : Pt) (h : s.cfg.kind = .plain ∨ s.trained = false → p.code = []) :
    s.distKey (norm p) = s.distKey p := by
  unfold Store.distKey norm
  cases hk : s.cfg.kind <;> cases ht : s.trained <;> by_cases hc : p.code = [] <;> simp_all

theorem norm_code (p : Pt) : (norm p).code = p.code := by
  unfold norm
  by_cases h : p.code = [] <;> simp [h]

/-- `flat.Search` depends on the distance closure only through its values on the enumerated items -/
theorem search_congr {α : Type} (op : SkipOp) (limit : Nat) (pass : Id → Bool) (d₁ d₂ : α → D) (l : List (Id × α))
    (h : ∀ it ∈ l, d₁ it.2 = d₂ it.2) : search op limit pass d₁ l = search op limit pass d₂ l := by
  unfold search
  congr 1
  generalize ([] : List (Res D)) = acc
  induction l generalizing acc with
  | nil => rfl
  | cons it rest ih =>
    simp only [List.foldl_cons]
    rw [h it List.mem_cons_self]
    exact ih (fun x hx => h x (List.mem_cons_of_mem _ hx)) _

theorem candsOf_congr {α : Type} (pass : Id → Bool) (d₁ d₂ : α → D) (l : List (Id × α))
    (h : ∀ it ∈ l, d₁ it.2 = d₂ it.2) : candsOf pass d₁ l = candsOf pass d₂ l := by
  unfold candsOf
  apply List.map_congr_left
  intro it hit
  rw [h it (List.mem_filter.mp hit).1]

/-- **C04_warm_cold**: take the same committed bucket, a store whose quantiser parameters are the
persisted ones, and two coherent caches — e.g. the warm shared cache and a fresh one (cold start,
eviction, cache disabled).  `ForEach` succeeds on both, and the two flat searches — each applying THE
CLOSURE THE CODE APPLIES, `dist (s.distKey p)` on the point as it sits in that cache (a warm cache may hold
more of a point than its persisted projection: the full vector beside a code) — agree: equal distance
sequences; every tie group that lies wholly inside one answer has the same members in the other; every
returned id is readable from the bucket and carries the distance of its persisted projection.

Hypothesis `hmode` (USED: it is what makes the closure a function of the persisted projection,
`distKey_norm`): while the store reads vectors — plain store, or quantiser not yet trained — no committed
point carries a code.  It holds in every state the store reaches (codes are written by `Fit`, which trains),
and it cannot be dropped: an untrained binary store over a bucket holding `{vec, code}` reads `vec` from a
warm item and `[]` from the cold one (`example` below). -/
theorem C04_warm_cold (s : Store) (dist : Bytes → D) (op₁ op₂ : SkipOp) (limit : Nat) (pass : Id → Bool)
    {c₁ c₂ : Cache Id Pt} {kv : KV} (hwf : wfOf s.cfg.kind kv)
    (h₁ : Coherent s.st norm (okOf s.cfg.kind) c₁ kv) (h₂ : Coherent s.st norm (okOf s.cfg.kind) c₂ kv)
    (hmode : s.cfg.kind = .plain ∨ s.trained = false → ∀ id p, obs s.st norm kv id = some p → p.code = []) :
    ∃ c₁' l₁ c₂' l₂, forEach s.st c₁ kv = some (c₁', l₁) ∧ forEach s.st c₂ kv = some (c₂', l₂) ∧
      let r₁ := search op₁ limit pass (fun p => dist (s.distKey p)) l₁
      let r₂ := search op₂ limit pass (fun p => dist (s.distKey p)) l₂
      r₁.map (·.d) = r₂.map (·.d) ∧
      (∀ g : D, ((candsOf pass (fun p => dist (s.distKey p)) l₁).filter fun c => c.d = g).length ≤
          (r₁.filter fun c => c.d = g).length →
        (r₂.filter fun c => decide (c.d = g)) ~ (r₁.filter fun c => decide (c.d = g))) ∧
      (∀ r, r ∈ r₁ ∨ r ∈ r₂ → pass r.id = true ∧ ∃ p, obs s.st norm kv r.id = some p ∧ r.d = dist (s.distKey p)) := by
  obtain ⟨c₁', l₁, c₂', l₂, e₁, e₂, hperm, hmem⟩ := C08_answer_indep_partial s.cfg.kind hwf h₁ h₂
  have hmem₂ : ∀ id p, (id, p) ∈ (l₂.map fun p => (p.1, norm p.2)) ↔ obs s.st norm kv id = some p :=
    fun id p => (hperm.mem_iff).symm.trans (hmem id p)
  refine ⟨c₁', l₁, c₂', l₂, e₁, e₂, ?_⟩
  -- on the enumerated items the closure of the code reads the persisted projection only (uses `hmode`)
  have hcl : ∀ (l : List (Id × Pt)),
      (∀ id p, (id, p) ∈ (l.map fun p => (p.1, norm p.2)) ↔ obs s.st norm kv id = some p) →
      ∀ it ∈ l, dist (s.distKey it.2) = dist (s.distKey (norm it.2)) := by
    intro l hm it hit
    have hobs : obs s.st norm kv it.1 = some (norm it.2) :=
      (hm it.1 (norm it.2)).mp (List.mem_map.mpr ⟨it, hit, rfl⟩)
    rw [distKey_norm s it.2 (fun hk => by
      have := hmode hk it.1 (norm it.2) hobs
      rwa [norm_code] at this)]
  rw [search_congr op₁ limit pass (fun p => dist (s.distKey p)) (fun p => dist (s.distKey (norm p))) l₁ (hcl l₁ hmem),
    search_congr op₂ limit pass (fun p => dist (s.distKey p)) (fun p => dist (s.distKey (norm p))) l₂ (hcl l₂ hmem₂),
    candsOf_congr pass (fun p => dist (s.distKey p)) (fun p => dist (s.distKey (norm p))) l₁ (hcl l₁ hmem)]
  -- searching `l` with `dist ∘ distKey ∘ norm` is searching the projected list with `dist ∘ distKey`
  have hs : ∀ (op : SkipOp) (l : List (Id × Pt)),
      search op limit pass (fun p => dist (s.distKey (norm p))) l =
        search op limit pass (fun p => dist (s.distKey p)) (l.map fun p => (p.1, norm p.2)) := by
    intro op l
    unfold search
    rw [List.foldl_map]
  have hcands : ∀ (l : List (Id × Pt)),
      candsOf pass (fun p => dist (s.distKey (norm p))) l =
        candsOf pass (fun p => dist (s.distKey p)) (l.map fun p => (p.1, norm p.2)) := by
    intro l
    simp [candsOf, List.filter_map, List.map_map, Function.comp_def]
  have key := C04_order_indep op₁ op₂ limit pass (fun p => dist (s.distKey p)) _ _ hperm
  simp only [hs, hcands]
  refine ⟨key.1, key.2, ?_⟩
  intro r hr
  have cand : ∀ (op : SkipOp) (l : List (Id × Pt)),
      (∀ id p, (id, p) ∈ (l.map fun p => (p.1, norm p.2)) ↔ obs s.st norm kv id = some p) →
      r ∈ search op limit pass (fun p => dist (s.distKey p)) (l.map fun p => (p.1, norm p.2)) →
      pass r.id = true ∧ ∃ p, obs s.st norm kv r.id = some p ∧ r.d = dist (s.distKey p) := by
    intro op l hm hr
    obtain ⟨it, hit, hp, rfl⟩ := C04_candidates op limit pass _ _ r hr
    exact ⟨hp, it.2, (hm it.1 it.2).1 hit, rfl⟩
  rcases hr with hr | hr
  · exact cand op₁ l₁ hmem hr
  · exact cand op₂ l₂ hmem₂ hr

/-- `hmode` cannot be dropped: for an untrained binary store the closure reads the vector; a warm item
`{vec, code}` and its persisted projection `{code}` (what a cold cache reads back) give different inputs -/
example : (let s : Store := { cfg := { kind := .binary, trigger := 5 } }
    let p : Pt := { vec := [1#8], code := [2#8] }
    s.trained = false ∧ s.distKey p = [1#8] ∧ s.distKey (norm p) = []) := by decide

/-- the hypotheses of `C04_warm_cold` are satisfiable on a non-empty bucket with a warm and a cold cache: a
trained binary store (`hmode` is then vacuous by its premise), the coherent pair `C08.exWarm` -/
example : ∃ (s : Store) (c₁ c₂ : Cache Id Pt) (kv : KV),
    s.cfg.kind = .binary ∧ s.trained = true ∧ wfOf s.cfg.kind kv ∧
    Coherent s.st norm (okOf s.cfg.kind) c₁ kv ∧ Coherent s.st norm (okOf s.cfg.kind) c₂ kv ∧
    c₁.items.length = 2 ∧ c₂.items.length = 0 ∧
    (s.cfg.kind = .plain ∨ s.trained = false → ∀ id p, obs s.st norm kv id = some p → p.code = []) := by
  refine ⟨{ cfg := { kind := .binary, trigger := 1 }, params := [7#8] }, C08.exWarm.1, Cache.empty, C08.exWarm.2,
    rfl, by decide, trivial, ?_, ?_, by decide, rfl, ?_⟩
  · exact (C08.C08_flush_binary C08.exWarm_tracked).1
  · exact C08.coherent_empty _ _ _ _
  · intro h; rcases h with h | h <;> simp [Store.trained] at h

/-- … and with an UNTRAINED plain store over a bucket of raw vectors, where the premise of `hmode` holds and
its conclusion has to be (and is) established: no committed point carries a code -/
example : ∃ (s : Store) (c₁ : Cache Id Pt) (kv : KV),
    s.cfg.kind = .plain ∧ Coherent s.st norm (okOf s.cfg.kind) c₁ kv ∧ c₁.items.length = 1 ∧
    (s.cfg.kind = .plain ∨ s.trained = false → ∀ id p, obs s.st norm kv id = some p → p.code = []) := by
  have ht : Tracked (storable plainPoint) norm okPlain (put Cache.empty 5#64 { vec := [1#8] }) KV.empty :=
    tracked_put (coherent_empty _ _ _ _).tracked _ _ rfl
  refine ⟨{ cfg := { kind := .plain, trigger := 0 } }, (flush (storable plainPoint) (put Cache.empty 5#64 { vec := [1#8] }) KV.empty).1,
    (flush (storable plainPoint) (put Cache.empty 5#64 { vec := [1#8] }) KV.empty).2, rfl, (C08.C08_flush_plain ht).1, by decide, ?_⟩
  intro _ id p hp
  -- a plain point read back never has a code
  revert hp
  simp only [Store.st, planOf]
  plan_simp []
  intro h
  cases hg : KV.get _ (nodeKey id 0x76#8) <;> simp_all
  rintro rfl rfl
  simp

/-! ### non-vacuity -/

/-- ties, a filter, a full slice: the answer on two orders of the same five items -/
example :
    (search (D := Nat) .ge 2 (fun id => id != 9#64) id [(1#64, 5), (2#64, 3), (9#64, 0), (3#64, 3), (4#64, 7)]).map (·.d) = [3, 3] ∧
    (search (D := Nat) .ge 2 (fun id => id != 9#64) id [(4#64, 7), (3#64, 3), (9#64, 0), (2#64, 3), (1#64, 5)]).map (·.d) = [3, 3] ∧
    (search (D := Nat) .ge 1 (fun id => id != 9#64) id [(1#64, 5), (2#64, 3), (3#64, 3)]).map (·.id) = [2#64] ∧
    (search (D := Nat) .ge 1 (fun id => id != 9#64) id [(1#64, 5), (3#64, 3), (2#64, 3)]).map (·.id) = [3#64] := by
  decide

/-- `Settable` is inhabited in every state the theorem covers -/
example : Settable .binary true { vec := [1#8], code := [2#8] } ∧ Settable .binary false { vec := [1#8] } ∧
    Settable .product true { vec := [1#8], code := [2#8] } ∧ Settable .plain false { vec := [1#8] } := by
  simp [Settable]

end Sema.C04
