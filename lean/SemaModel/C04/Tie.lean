/-
C04 — the tie between the hand-written `step` / `bubble` of `C04/Model.lean` ("one callback of `ForEach`
for a point that passed the filter") and the source.  `SemaModel/Generated/FlatSearch.lean` is produced
by `tools/go2lean` on every check run from a *fragment* of `shard/index/flat/flat.go IndexFlat.Search`:
the statements of the `ForEach` callback from `dist := distFn(point)` to the swap loop (the filter test
before them is the model's `pass`; `return nil` inside the fragment = "this callback ends").

What stays abstract: `VPoint` (`vectorstore.VectorStorePoint`) with `VPoint_Id`; `D` (`float32`) with a
decidable `<` **and** `≤` (`dist >= last` is translated as `last ≤ dist`, exact for IEEE values);
`distFn : VPoint → D`; `cap(res)` is the variable `res_cap` (`make(.., 0, options.Limit)`), updated by
`append` through the abstract `growCap`; `*float32` is `Option D` (`&dist` of a variable assigned once =
`some dist`; `*p` = `Go.deref p`).  `HybridScore: -1 * weight * dist` (float arithmetic) is *not*
translated: the field is dropped by the spec (`structSpec.Drop`), the model's `Res` has no such field.

Representation maps: the model keeps the result slice reversed (`rev.head = res[len-1]`);
`toRes r = ⟨r.NodeId, Go.deref r.Distance⟩`, `rev = (res.map toRes).reverse`, `limit = res_cap.toNat`.
Hypotheses: `≤` is the negation of the flipped `<` (`hle`: the model's `.ge => !(x.d < last.d)` — i.e. no
NaN — made explicit); `0 ≤ res_cap`; `len(res) ≤ cap(res)` (true of a slice).  The comparison operator of
the skip test is `SkipOp.ge`, what the source has today (`FactsC04.flatSkipOp = ">="`); the C04 theorems
hold for both operators.
-/
import SemaModel.C04.Model
import SemaModel.Generated.FlatSearch
namespace Sema.C04
open Sema
open Sema.Gen.FlatSearch (SearchResult Search_step Search_step_loop1)

section
variable {VPoint D : Type} [Inhabited VPoint] [Inhabited D] [LT D] [DecidableRel (α := D) (· < ·)]
  [LE D] [DecidableRel (α := D) (· ≤ ·)]

def toRes (r : SearchResult D) : Res D := ⟨r.NodeId, Go.deref r.Distance⟩

/-- the model's (reversed) view of the result slice -/
def toRev (res : List (SearchResult D)) : List (Res D) := (res.map toRes).reverse

namespace Tie

/-- `bubble` on generated elements (reversed prefix, like the model) -/
def bubbleG (x : SearchResult D) : List (SearchResult D) → List (SearchResult D)
  | [] => [x]
  | y :: ys => if Go.deref x.Distance < Go.deref y.Distance then y :: bubbleG x ys else x :: y :: ys

theorem map_bubbleG (x : SearchResult D) (l : List (SearchResult D)) :
    (bubbleG x l).map toRes = bubble (toRes x) (l.map toRes) := by
  induction l with
  | nil => rfl
  | cons y ys ih =>
    simp only [bubbleG, List.map_cons, bubble, toRes] at ih ⊢
    split <;> simp [ih, toRes]

theorem bubbleG_length (x : SearchResult D) (l : List (SearchResult D)) : (bubbleG x l).length = l.length + 1 := by
  induction l with
  | nil => rfl
  | cons y ys ih => simp only [bubbleG]; split <;> simp [ih]

theorem getI_mid {α : Type} [Inhabited α] (a c : List α) (b : α) (k : Int) (hk : k = a.length) :
    Go.getI (a ++ b :: c) k = b := by
  subst hk
  have h0 : ¬ ((a.length : Int) < 0) := by omega
  simp [Go.getI, h0, List.getD_eq_getElem?_getD]

theorem setI_mid {α : Type} (a c : List α) (b v : α) (k : Int) (hk : k = a.length) :
    Go.setI (a ++ b :: c) k v = a ++ v :: c := by
  subst hk
  have h0 : ¬ ((a.length : Int) < 0) := by omega
  simp [Go.setI, h0]

theorem snoc_cases {α : Type} (l : List α) : l = [] ∨ ∃ init x, l = init ++ [x] := by
  induction l with
  | nil => exact .inl rfl
  | cons a l ih =>
    rcases ih with rfl | ⟨init, x, rfl⟩
    · exact .inr ⟨[], a, rfl⟩
    · exact .inr ⟨a :: init, x, rfl⟩

/-- **the swap loop is `bubble`**: started at the element `e` behind the prefix `rpre.reverse` -/
theorem loop_eq (e : SearchResult D) : ∀ (rpre post : List (SearchResult D)) (fuel : Nat),
    rpre.length + 1 ≤ fuel →
    ∃ j, Search_step_loop1 fuel (rpre.length : Int) (rpre.reverse ++ e :: post) =
      .next (j, (bubbleG e rpre).reverse ++ post) := by
  intro rpre
  induction rpre with
  | nil =>
    intro post fuel hf
    obtain ⟨f, rfl⟩ : ∃ f, fuel = f + 1 := ⟨fuel - 1, by omega⟩
    exact ⟨0, by simp [Search_step_loop1, bubbleG]⟩
  | cons y r ih =>
    intro post fuel hf
    obtain ⟨f, rfl⟩ : ∃ f, fuel = f + 1 := ⟨fuel - 1, by simp at hf; omega⟩
    have e1 : (y :: r).reverse ++ e :: post = (r.reverse ++ [y]) ++ e :: post := by simp
    have e2 : (y :: r).reverse ++ e :: post = r.reverse ++ y :: (e :: post) := by simp
    have hlen : ((y :: r).length : Int) = (r.length : Int) + 1 := by simp
    have hm1 : (r.length : Int) + 1 - 1 = (r.length : Int) := by omega
    have hge : Go.getI ((y :: r).reverse ++ e :: post) ((r.length : Int) + 1) = e := by
      rw [e1]; exact getI_mid _ _ _ _ (by simp)
    have hgy : Go.getI ((y :: r).reverse ++ e :: post) (r.length : Int) = y := by
      rw [e2]; exact getI_mid _ _ _ _ (by simp)
    have hpos : ((r.length : Int) + 1 > 0) := by omega
    rw [hlen]
    simp only [Search_step_loop1, hm1, hge, hgy, hpos, decide_true, Bool.true_and]
    by_cases hlt : Go.deref e.Distance < Go.deref y.Distance
    · simp only [hlt, decide_true, if_true]
      have hs1 : Go.setI ((y :: r).reverse ++ e :: post) ((r.length : Int) + 1) y = r.reverse ++ y :: (y :: post) := by
        rw [e1, setI_mid _ _ _ _ _ (by simp)]; simp
      have hs2 : Go.setI (r.reverse ++ y :: (y :: post)) (r.length : Int) e = r.reverse ++ e :: (y :: post) :=
        setI_mid _ _ _ _ _ (by simp)
      rw [hs1, hs2]
      obtain ⟨j, hj⟩ := ih (y :: post) f (by simp at hf; omega)
      exact ⟨j, by rw [hj]; simp [bubbleG, hlt]⟩
    · exact ⟨(r.length : Int) + 1, by simp [hlt, bubbleG]⟩

/-- the statements after the element was stored at the end -/
theorem tail_eq (sr : SearchResult D) (pre : List (SearchResult D)) (c : Int) :
    (Search_step_loop1 (Go.countFuel 0 (Go.len (pre ++ [sr]) - 1)) (Go.len (pre ++ [sr]) - 1) (pre ++ [sr])).finish
        (fun x => Go.Out.ret (x.2, c)) = .ret ((bubbleG sr pre.reverse).reverse, c) := by
  have hidx : Go.len (pre ++ [sr]) - 1 = (pre.reverse.length : Int) := by simp [Go.len]
  obtain ⟨j, hj⟩ := loop_eq sr pre.reverse [] (Go.countFuel 0 (pre.reverse.length : Int)) (by simp [Go.countFuel])
  simp only [List.reverse_reverse] at hj
  rw [hidx, hj]
  simp [Go.Ctl.finish]

end Tie

/-- **`step .ge` = the callback fragment of `IndexFlat.Search`** -/
theorem C04_tie_step (pid : VPoint → BitVec 64) (growCap : Int → Int → Int) (distFn : VPoint → D) (point : VPoint)
    (res : List (SearchResult D)) (cap : Int)
    (hle : ∀ a b : D, a ≤ b ↔ ¬ b < a) (hc : 0 ≤ cap) (hlen : (res.length : Int) ≤ cap) :
    ∃ res', Search_step pid growCap distFn point res cap = .ret (res', cap) ∧
      toRev res' = step .ge cap.toNat (toRev res) ⟨pid point, distFn point⟩ ∧ (res'.length : Int) ≤ cap := by
  generalize hsr : ({ NodeId := pid point, Distance := some (distFn point) } : SearchResult D) = sr
  have hsrM : toRes sr = ⟨pid point, distFn point⟩ := by rw [← hsr]; simp [toRes, Go.deref]
  have hl : Go.len res = (res.length : Int) := rfl
  rcases Int.lt_or_le (res.length : Int) cap with hlt | hge
  · -- room left: append, swap loop
    have hL1 : (Go.len res == cap) = false := by simp [hl]; omega
    have hL2 : decide (Go.len res < cap) = true := by simp [hl, hlt]
    have hcapA : Go.capAppend growCap cap (Go.len (res ++ [sr])) = cap := by
      simp [Go.capAppend, Go.len]; omega
    refine ⟨(Tie.bubbleG sr res.reverse).reverse, ?_, ?_, ?_⟩
    · simp only [Search_step, hL1, Bool.false_and, Bool.false_eq_true, if_false, hsr, hL2, if_true, hcapA]
      exact Tie.tail_eq sr res cap
    · have h1 : ¬ (res.length = cap.toNat) := by omega
      simp [step, h1, toRev, Tie.map_bubbleG, hsrM]
    · simp [Tie.bubbleG_length]; omega
  · have heq : (res.length : Int) = cap := by omega
    have hL1 : (Go.len res == cap) = true := by simp [hl, heq]
    have hL2 : decide (Go.len res < cap) = false := by simp [hl]; omega
    have h1 : res.length = cap.toNat := by omega
    rcases Tie.snoc_cases res with rfl | ⟨init, l, rfl⟩
    · -- limit 0 (Go panics: res[-1]); both sides leave the empty result
      have hcap0 : cap = 0 := by simpa using heq.symm
      subst hcap0
      refine ⟨[], ?_, by simp [toRev, step], by simp⟩
      simp only [Search_step, hL1, Bool.true_and, hsr, hL2]
      split
      · rfl
      · simp [Go.setI, Go.len, Go.countFuel, Search_step_loop1, Go.Ctl.finish]
    · have hget : Go.getI (init ++ [l]) (Go.len (init ++ [l]) - 1) = l := Tie.getI_mid init [] l _ (by simp [Go.len])
      have hrev : toRev (init ++ [l]) = toRes l :: toRev init := by simp [toRev]
      by_cases hfar : Go.deref l.Distance ≤ distFn point
      · -- not closer than the last one: skipped
        refine ⟨init ++ [l], ?_, ?_, hlen⟩
        · simp [Search_step, hL1, hget, hfar]
        · have : ¬ distFn point < (toRes l).d := (hle _ _).mp hfar
          simp only [List.length_append, List.length_cons, List.length_nil] at h1
          rw [hrev]
          simp [step, toRev, h1, this]
      · -- replaces the last one, swap loop
        have hset : Go.setI (init ++ [l]) (Go.len (init ++ [l]) - 1) sr = init ++ [sr] :=
          Tie.setI_mid init [] l sr _ (by simp [Go.len])
        refine ⟨(Tie.bubbleG sr init.reverse).reverse, ?_, ?_, ?_⟩
        · simp only [Search_step, hL1, Bool.true_and, hget, hfar, decide_false, Bool.false_eq_true, if_false, hsr, hL2, hset]
          exact Tie.tail_eq sr init cap
        · have : distFn point < (toRes l).d := by
            by_cases h : distFn point < (toRes l).d
            · exact h
            · exact absurd ((hle _ _).mpr h) hfar
          simp only [List.length_append, List.length_cons, List.length_nil] at h1
          rw [hrev]
          simp [step, h1, this, toRev, Tie.map_bubbleG, hsrM]
        · simp only [List.length_append, List.length_cons, List.length_nil] at hlen
          simp [Tie.bubbleG_length]; omega

/-- the callback run over the points `ForEach` enumerates (hand-written driver loop: `ForEach` itself and the
filter test `filter != nil && !filter.Contains(point.Id())` are not translated; `pass` is that test) -/
def runG (pid : VPoint → BitVec 64) (growCap : Int → Int → Int) (distFn : VPoint → D) (pass : Id → Bool) :
    List VPoint → List (SearchResult D) × Int → Go.Out (List (SearchResult D) × Int)
  | [], s => .ret s
  | p :: ps, s =>
    if pass (pid p) then
      match Search_step pid growCap distFn p s.1 s.2 with
      | .ret s' => runG pid growCap distFn pass ps s'
      | .outOfFuel => .outOfFuel
    else runG pid growCap distFn pass ps s

/-- **`search .ge` = the translated callback folded over the enumeration**, from `res = make(.., 0, limit)` -/
theorem C04_tie_search (pid : VPoint → BitVec 64) (growCap : Int → Int → Int) (distFn : VPoint → D) (pass : Id → Bool)
    (points : List VPoint) (limit : Nat) (hle : ∀ a b : D, a ≤ b ↔ ¬ b < a) :
    ∃ res, runG pid growCap distFn pass points ([], (limit : Int)) = .ret (res, (limit : Int)) ∧
      res.map toRes = search .ge limit pass distFn (points.map fun p => (pid p, p)) := by
  have key : ∀ (ps : List VPoint) (res : List (SearchResult D)), (res.length : Int) ≤ (limit : Int) →
      ∃ res', runG pid growCap distFn pass ps (res, (limit : Int)) = .ret (res', (limit : Int)) ∧
        toRev res' = (ps.map fun p => (pid p, p)).foldl
          (fun rev it => if pass it.1 then step .ge limit rev ⟨it.1, distFn it.2⟩ else rev) (toRev res) := by
    intro ps
    induction ps with
    | nil => intro res _; exact ⟨res, rfl, rfl⟩
    | cons p ps ih =>
      intro res hlen
      by_cases hp : pass (pid p) = true
      · obtain ⟨r1, e1, e2, e3⟩ := C04_tie_step pid growCap distFn p res (limit : Int) hle (by omega) hlen
        obtain ⟨r2, f1, f2⟩ := ih r1 e3
        refine ⟨r2, ?_, ?_⟩
        · simp only [runG, hp, if_true, e1]; exact f1
        · simp only [List.map_cons, List.foldl_cons, hp, if_true]
          rw [f2, e2]; simp
      · obtain ⟨r2, f1, f2⟩ := ih res hlen
        refine ⟨r2, ?_, ?_⟩
        · simp only [runG, hp]; exact f1
        · simp only [List.map_cons, List.foldl_cons, hp]; exact f2
  obtain ⟨res, e1, e2⟩ := key points [] (by simp)
  refine ⟨res, e1, ?_⟩
  have : res.map toRes = (toRev res).reverse := by simp [toRev]
  rw [this, e2]
  simp [search, toRev]

end

/-! ### non-vacuity: `hle` holds on ℕ, and the generated code runs (points are numbers, limit 2) -/

example : ∀ a b : Nat, a ≤ b ↔ ¬ b < a := by intro a b; omega

example :
    (match runG (D := Nat) (fun p : Nat => BitVec.ofNat 64 p) (fun _ n => 2 * n) (fun p => p) (fun id => id != 7#64)
        [5, 7, 3, 9, 1] ([], 2) with
     | .ret (res, c) => (res.map fun r => (r.NodeId.toNat, Go.deref r.Distance), c)
     | .outOfFuel => ([], 0)) = ([(1, 1), (3, 3)], 2) := by decide

end Sema.C04
