/-
C06 — executable model of hybrid merging, selection, sorting and paging.  Core-only.

  searchParallel  (shard/index/search.go)   ↦ `searchParallel`
  back-fill       (shard/shard.go)          ↦ `backfill`
  select          (shard/shard.go)          ↦ `queryVal` (msgpack `Decoder.Query`), `setNested`, `selectDoc`
  CompareAny (+ isNumber, compareNumbers, compareIntegerFloat), AccessNestedProperty, SortSearchResults
                  (utils/compare.go)        ↦ `cmpAny` (`numOf`, `cmpNumbers`, `cmpIntegerFloat`), `accessVal`, `sortCmp`
  offset / limit  (shard/shard.go)          ↦ `pagePinned` (the slice expression of the pinned tree),
                                              `pageRepaired` (after the overflow-safe repair)

Hybrid scores live in an arbitrary type `S` with an arbitrary `add` (Go: float32 `+=`); sorting is
any function that returns a sorted permutation (Go's `slices.SortFunc` is unstable; the
`slices.SortStableFunc` by hybrid score in the single-sub-query shortcut of `searchParallel` is
additionally the identity on a list that is already in order).

The model follows the repaired tree (repository commits `fix: a composite query with a single sub-query
returns its results by hybrid score like merged ones`, `fix: a select path that does not fit a point's
structure is skipped, not a 500`, `fix: CompareAny orders numbers of different kinds by value`): the
three hypotheses the earlier model had to carry (two or more sub-queries, no select path through a
scalar, one reflect.Kind per sort key) are gone.  The hybrid-score order is a property of COMPOSITE
queries (`_and` / `_or` at the root); a plain ranking query keeps the order of its index (C03–C05).
-/
import SemaModel.Base.Bytes
import SemaModel.Base.Float
namespace Sema.C06
open Sema

abbrev Id := Nat

/-! ### searchParallel -/

/-- a ranked search result; `_distance` / `_score` of a multiply-found point are not part of C06 -/
structure Res (S : Type) where
  id : Id
  hybrid : S
  deriving Repr

/-- what one (sub-)query returns: the id set (`*roaring64.Bitmap`) and the ranked results -/
structure SubResult (S : Type) where
  set : List Id
  res : List (Res S)

def dedup : List Id → List Id
  | [] => []
  | a :: l => if a ∈ dedup l then dedup l else a :: dedup l

/-- `roaring64.FastAnd(sets...)` -/
def interAll : List (List Id) → List Id
  | [] => []
  | s :: rest => (dedup s).filter (fun id => rest.all (fun r => decide (id ∈ r)))

/-- `roaring64.FastOr(sets...)` -/
def unionAll (sets : List (List Id)) : List Id := dedup sets.flatten

/-- one iteration of the de-duplication loop: the first occurrence of a node id is appended, a
later one adds its hybrid score to the entry already there -/
def mergeStep {S : Type} (add : S → S → S) (acc : List (Res S)) (r : Res S) : List (Res S) :=
  if acc.any (fun x => x.id == r.id) then
    acc.map (fun x => if x.id == r.id then { x with hybrid := add x.hybrid r.hybrid } else x)
  else acc ++ [r]

/-- `searchParallel`: for `len(queries) == 1` the shortcut hands the sub-result on after a
`slices.SortStableFunc` by hybrid score (`stable`); otherwise union / intersection of the sets,
de-duplication in sub-query order (in the `_and` case results outside the intersection are dropped),
then `slices.SortFunc` by hybrid score, descending (`sorter`, unstable). -/
def searchParallel {S : Type} (add : S → S → S) (sorter stable : List (Res S) → List (Res S))
    (isOr : Bool) (subs : List (SubResult S)) : SubResult S :=
  match subs with
  | [one] => ⟨one.set, stable one.res⟩
  | _ =>
    let finalSet := if isOr then unionAll (subs.map (·.set)) else interAll (subs.map (·.set))
    let all := (subs.map (·.res)).flatten
    let kept := if isOr then all else all.filter (fun r => decide (r.id ∈ finalSet))
    ⟨finalSet, sorter (kept.foldl (mergeStep add) [])⟩

/-- one line of the final answer: ranked entries carry a hybrid score, back-filled ones do not -/
structure Entry (S : Type) where
  id : Id
  hybrid : Option S

def insertAsc (a : Id) : List Id → List Id
  | [] => [a]
  | x :: l => if a ≤ x then a :: x :: l else x :: insertAsc a l

/-- ascending order (roaring's iterator) -/
def sortAsc (l : List Id) : List Id := l.foldr insertAsc []

/-- `Shard.SearchPoints`, back-fill: the ranked results in order, then the ids of `rSet` that are
not among them, ascending -/
def backfill {S : Type} (r : SubResult S) : List (Entry S) :=
  r.res.map (fun x => ⟨x.id, some x.hybrid⟩) ++
    (sortAsc ((dedup r.set).filter (fun id => !(r.res.any (fun x => x.id == id))))).map (fun id => ⟨id, none⟩)

/-! ### stored values, as msgpack decodes them into `any` -/

inductive Val where
  | nil
  | bool (b : Bool)
  | int (w : Nat) (v : BitVec 64)  -- int8 / int16 / int32 / int64, by the *encoded* width; `reflect.Value.Int()` = `v.toInt`
  | uint (w : Nat) (v : BitVec 64) -- uint8 / uint16 / uint32 / uint64; `reflect.Value.Uint()` = `v.toNat`
  | f32 (bits : BitVec 32)
  | f64 (bits : BitVec 64)
  | str (s : Bytes)
  | bin (b : Bytes)                -- []byte
  | arr (l : List Val)
  | map (m : List (String × Val))
  deriving Inhabited

abbrev Doc := List (String × Val)

def lookup : Doc → String → Option Val
  | [], _ => none
  | (k', v) :: rest, k => if k' = k then some v else lookup rest k

/-- `m[k] = v` -/
def put : Doc → String → Val → Doc
  | [], k, v => [(k, v)]
  | (k', v') :: rest, k, v => if k' = k then (k, v) :: rest else (k', v') :: put rest k v

/-- `utils.AccessNestedProperty` on a value: `[]` is the value itself -/
def accessVal : Val → List String → Option Val
  | v, [] => some v
  | .map m, k :: rest => match lookup m k with
    | none => none
    | some v => accessVal v rest
  | _, _ :: _ => none

def access (d : Doc) (path : List String) : Option Val := accessVal (.map d) path

/-- msgpack `Decoder.Query` along map keys: `ok none` = "not found", `error` = the path runs into a
value that is neither a map nor an array ("msgpack: unsupported code … decoding key"), or into an
array with a key that is not an index.  Array indices and `*` are outside the model. -/
def queryVal : Val → List String → Except Unit (Option Val)
  | v, [] => .ok (some v)
  | .map m, k :: rest => match lookup m k with
    | none => .ok none
    | some v => queryVal v rest
  | _, _ :: _ => .error ()

/-- the nested rebuild of `SearchPoints`: `current[s] = res[0]` at the last segment, intermediate
maps created on demand; an intermediate that exists but is not a map is the error
"could not access nested property when selecting" -/
def setNested : Doc → List String → Val → Except Unit Doc
  | d, [], _ => .ok d
  | d, [s], v => .ok (put d s v)
  | d, s :: rest, v =>
    match lookup d s with
    | none => match setNested [] rest v with
      | .ok m => .ok (put d s (.map m))
      | .error e => .error e
    | some (.map m) => match setNested m rest v with
      | .ok m' => .ok (put d s (.map m'))
      | .error e => .error e
    | some _ => .error ()

/-- `dec.Decode(&DecodedData)` into the map built so far: every top-level key of the document is set -/
def overlay (acc d : Doc) : Doc := d.foldl (fun a e => put a e.1 e.2) acc

/-- the select loop over one point; a path is a list of segments (`strings.Split(p, ".")`), `["*"]`
is the star.  A path that does not fit the structure of this point — `Query` fails, or the nested
rebuild meets a non-map placed by an earlier select — is skipped (`continue` / `continue selectLoop`):
the point simply lacks the path. -/
def selectDoc (d : Doc) : List (List String) → Doc → Except Unit Doc
  | [], acc => .ok acc
  | p :: rest, acc =>
    if p = ["*"] then .ok (overlay acc d)
    else match queryVal (.map d) p with
      | .error _ => selectDoc d rest acc
      | .ok none => selectDoc d rest acc
      | .ok (some v) => match setNested acc p v with
        | .error _ => selectDoc d rest acc
        | .ok acc' => selectDoc d rest acc'

/-! ### CompareAny -/

/-- `reflect.Kind` of the decoded value -/
def kindOf : Val → Nat
  | .nil => 0          -- reflect.Invalid
  | .bool _ => 1
  | .int w _ => if w = 8 then 3 else if w = 16 then 4 else if w = 32 then 5 else 6
  | .uint w _ => if w = 8 then 8 else if w = 16 then 9 else if w = 32 then 10 else 11
  | .f32 _ => 13
  | .f64 _ => 14
  | .map _ => 21
  | .arr _ => 23       -- reflect.Slice
  | .bin _ => 23
  | .str _ => 24

def cmpInt (a b : Int) : Int := if a < b then -1 else if b < a then 1 else 0

/-- `cmp.Compare` on float64: NaN is less than any non-NaN and equal to NaN; -0 = +0 -/
def cmpF64 (x y : BitVec 64) : Int :=
  if F64.isNaN x then (if F64.isNaN y then 0 else -1)
  else if F64.isNaN y then 1
  else if F64.lt x y then -1 else if F64.lt y x then 1 else 0

/-- a float32 is compared through `reflect.Value.Float()`, i.e. after an exact widening -/
def cmpF32 (x y : BitVec 32) : Int :=
  if F32.isNaN x then (if F32.isNaN y then 0 else -1)
  else if F32.isNaN y then 1
  else if F32.lt x y then -1 else if F32.lt y x then 1 else 0

def cmpStr (a b : Bytes) : Int := if lexLt a b then -1 else if lexLt b a then 1 else 0

def asInt : Val → Int | .int _ v => v.toInt | _ => 0      -- `av.Int()`
def asUint : Val → Nat | .uint _ v => v.toNat | _ => 0   -- `av.Uint()`
def asF32 : Val → BitVec 32 | .f32 x => x | _ => 0     -- `av.Float()` of a float32 (exact widening)
def asF64 : Val → BitVec 64 | .f64 x => x | _ => 0     -- `av.Float()`
def asStr : Val → Bytes | .str s => s | _ => []        -- `av.String()`

/-! #### numbers of different kinds: `compareNumbers`

A float is read through its exact value: every finite float64 is an integer multiple of `2^-1074`,
so `value · 2^1074` is an integer (`scaled64`); a float32 widens exactly (`scaled32`).  `±Inf` come
out beyond every finite value.  NaN is a flag of its own. -/

/-- the common scale: `2^1074` -/
def K : Int := 2 ^ 1074

/-- magnitude of a float64 bit pattern (sign bit removed) times `2^1074` -/
def mag64 (b : Nat) : Nat :=
  let e := b / 2 ^ 52
  let m := b % 2 ^ 52
  if e = 0 then m else (2 ^ 52 + m) * 2 ^ (e - 1)

/-- magnitude of a float32 bit pattern times `2^1074`; exponent 255 (`Inf`) widens to the float64 `Inf` -/
def mag32 (b : Nat) : Nat :=
  let e := b / 2 ^ 23
  let m := b % 2 ^ 23
  if e = 0 then m * 2 ^ 925
  else if e < 255 then (2 ^ 23 + m) * 2 ^ (e - 1) * 2 ^ 925
  else mag64 (2047 * 2 ^ 52) + m

def scaled64 (x : BitVec 64) : Int := if F64.isNeg x then -(mag64 (F64.mag x) : Int) else (mag64 (F64.mag x) : Int)
def scaled32 (x : BitVec 32) : Int := if F32.isNeg x then -(mag32 (F32.mag x) : Int) else (mag32 (F32.mag x) : Int)

/-- what `isNumber` / `CanInt` / `CanUint` / `CanFloat` and `Int()` / `Uint()` / `Float()` see -/
inductive Num where
  | int (v : Int)                   -- `av.Int()`
  | uint (v : Nat)                  -- `av.Uint()`
  | flt (nan : Bool) (s : Int)      -- `av.Float()`: is it NaN; its value times `2^1074`

def numOf : Val → Option Num
  | .int _ v => some (.int v.toInt)
  | .uint _ v => some (.uint v.toNat)
  | .f32 x => some (.flt (F32.isNaN x) (scaled32 x))
  | .f64 x => some (.flt (F64.isNaN x) (scaled64 x))
  | _ => none

/-- `cmp.Compare` on two float64 values: NaN is less than any non-NaN and equal to NaN -/
def cmpFlt (na : Bool) (sa : Int) (nb : Bool) (sb : Int) : Int :=
  if na then (if nb then 0 else -1) else if nb then 1 else cmpInt sa sb

/-- `math.Trunc`, on the scaled value: the integer part, towards zero -/
def truncK (s : Int) : Int := if 0 ≤ s then s / K else -((-s) / K)

/-- `compareIntegerFloat(n, f, lo, hi)`: NaN or below the integer type → the integer is greater; at or
above `hi` → smaller; otherwise `t := math.Trunc(f)`, the integers `n` and `T(t)` are compared and
`cmp.Compare(t, f)` decides a tie -/
def cmpIntegerFloat (n : Int) (nan : Bool) (s : Int) (lo hi : Int) : Int :=
  if nan ∨ s < lo * K then 1
  else if hi * K ≤ s then -1
  else
    let t := truncK s
    if cmpInt n t ≠ 0 then cmpInt n t else cmpInt (t * K) s

/-- `compareNumbers`, with the final `return -compareNumbers(bv, av)` unfolded -/
def cmpNumbers : Num → Num → Int
  | .int a, .int b => cmpInt a b
  | .uint a, .uint b => cmpInt a b
  | .flt na sa, .flt nb sb => cmpFlt na sa nb sb
  | .int a, .uint b => if a < 0 then -1 else cmpInt a b            -- `uint64(av.Int())` of a non-negative int64
  | .int a, .flt nb sb => cmpIntegerFloat a nb sb (-(2 ^ 63)) (2 ^ 63)
  | .uint a, .flt nb sb => cmpIntegerFloat a nb sb 0 (2 ^ 64)
  | .uint a, .int b => -(if b < 0 then -1 else cmpInt b a)
  | .flt na sa, .int b => -(cmpIntegerFloat b na sa (-(2 ^ 63)) (2 ^ 63))
  | .flt na sa, .uint b => -(cmpIntegerFloat b na sa 0 (2 ^ 64))

/-- `utils.CompareAny`: two numbers of different kinds are compared by value (`compareNumbers`), other
values of different kinds by `reflect.Kind`; the same kind by the `switch at` -/
def cmpAny (a b : Val) : Int :=
  let ka := kindOf a
  let kb := kindOf b
  if ka ≠ kb then
    match numOf a, numOf b with
    | some x, some y => cmpNumbers x y
    | _, _ => cmpInt ka kb
  else if 2 ≤ ka ∧ ka ≤ 6 then cmpInt (asInt a) (asInt b)          -- Int, Int8 … Int64
  else if 7 ≤ ka ∧ ka ≤ 12 then cmpInt (asUint a) (asUint b)       -- Uint, Uint8 … Uint64, Uintptr
  else if ka = 13 then cmpF32 (asF32 a) (asF32 b)                  -- Float32
  else if ka = 14 then cmpF64 (asF64 a) (asF64 b)                  -- Float64
  else if ka = 24 then cmpStr (asStr a) (asStr b)                  -- String
  else 0                                                           -- "we just say they are equal"

structure SortOpt where
  path : List String
  desc : Bool

/-- the body of the loop of `SortSearchResults` for one sort option; `0` = `continue` -/
def keyCmp (o : SortOpt) (a b : Doc) : Int :=
  match access a o.path, access b o.path with
  | some _, none => -1
  | none, some _ => 1
  | none, none => 0
  | some x, some y => if o.desc then cmpAny y x else cmpAny x y

/-- the comparator handed to `slices.SortFunc` -/
def sortCmp : List SortOpt → Doc → Doc → Int
  | [], _, _ => 0
  | o :: rest, a, b => if keyCmp o a b ≠ 0 then keyCmp o a b else sortCmp rest a b

/-! ### offset / limit -/

/-- Go `int` addition / subtraction on a 64-bit platform -/
def wrap64 (x : Int) : Int := (x + 2 ^ 63) % 2 ^ 64 - 2 ^ 63

/-- `s[lo:hi]` -/
def goSlice {α : Type} (l : List α) (lo hi : Int) : Except Unit (List α) :=
  if 0 ≤ lo ∧ lo ≤ hi ∧ hi ≤ l.length then .ok ((l.take hi.toNat).drop lo.toNat) else .error ()

/-- pinned tree: `finalResults[min(Offset, len):min(Offset+Limit, len)]` after `Limit == 0 → len` -/
def pagePinned {α : Type} (l : List α) (off lim : Int) : Except Unit (List α) :=
  let lim := if lim = 0 then (l.length : Int) else lim
  goSlice l (min off l.length) (min (wrap64 (off + lim)) l.length)

/-- repaired: `start := min(max(Offset,0), len); end := start + min(max(Limit,0), len-start)` -/
def pageRepaired {α : Type} (l : List α) (off lim : Int) : Except Unit (List α) :=
  let lim := if lim = 0 then (l.length : Int) else lim
  let start := min (max off 0) l.length
  let stop := wrap64 (start + min (max lim 0) (wrap64 (l.length - start)))
  goSlice l start stop

/-! ### the whole of `Shard.SearchPoints` after the index search -/

structure Request where
  select : List (List String)
  sort : List SortOpt
  off : Int
  lim : Int

/-- one returned point: id, hybrid score when ranked, and the data that comes back (`DecodedData`,
or the stored document when the raw `Data` is passed upstream) -/
structure Row (S : Type) where
  id : Id
  hybrid : Option S
  data : Doc

/-- the select / sort block is entered iff something other than a leading star is selected, or a
sort is requested -/
def needDecode (rq : Request) : Bool :=
  (match rq.select with | [] => false | p :: _ => p ≠ ["*"]) || !rq.sort.isEmpty

/-- the data a point comes back with -/
def shape (rq : Request) (stored : Doc) : Except Unit Doc :=
  if needDecode rq then
    (if rq.select.isEmpty then .ok [] else selectDoc stored rq.select [])   -- no select: `Data` was not loaded
  else if rq.select.isEmpty then .ok [] else .ok stored

def mapExcept {α β : Type} (f : α → Except Unit β) : List α → Except Unit (List β)
  | [] => .ok []
  | a :: l => match f a with
    | .error e => .error e
    | .ok b => match mapExcept f l with
      | .error e => .error e
      | .ok bs => .ok (b :: bs)

inductive Outcome (S : Type) where
  | rows (l : List (Row S))
  | selectError
  | slicePanic

/-- everything `Shard.SearchPoints` does before the offset / limit slice: back-fill of what the index
search returned (in the order it returned it); select; `sorter` is `utils.SortSearchResults` -/
def fullRows {S : Type} (docOf : Id → Doc)
    (sorter : List (Row S) → List (Row S)) (r : SubResult S) (rq : Request) : Except Unit (List (Row S)) :=
  match mapExcept (fun (e : Entry S) => (shape rq (docOf e.id)).map (fun d => (⟨e.id, e.hybrid, d⟩ : Row S)))
      (backfill r) with
  | .error e => .error e
  | .ok rows => .ok (if rq.sort.isEmpty then rows else sorter rows)

def searchPoints {S : Type} (docOf : Id → Doc)
    (sorter : List (Row S) → List (Row S)) (repaired : Bool)
    (r : SubResult S) (rq : Request) : Outcome S :=
  match fullRows docOf sorter r rq with
  | .error _ => .selectError
  | .ok rows =>
    match (if repaired then pageRepaired rows rq.off rq.lim else pagePinned rows rq.off rq.lim) with
    | .error _ => .slicePanic
    | .ok p => .rows p

/-! ### notions used to state the merge property -/

/-- the hybrid scores the sub-queries report for `id`, in sub-query order -/
def contribs {S : Type} (rs : List (Res S)) (id : Id) : List S :=
  (rs.filter (fun r => r.id == id)).map (·.hybrid)

/-- `c₁ + c₂ + … + cₙ`, left to right, starting from the first contribution (not from zero) -/
def sumLeft {S : Type} (add : S → S → S) : List S → Option S
  | [] => none
  | x :: xs => some (xs.foldl add x)

/-- the hybrid score a ranked list reports for `id` -/
def hybridOf {S : Type} (rs : List (Res S)) (id : Id) : Option S := (rs.find? (fun r => r.id == id)).map (·.hybrid)

/-! ### query trees: `indexManager.Search` recursing through `_and` / `_or` -/

mutual
/-- a query tree whose leaves are the answers of the ranking / filter indices -/
inductive QTree (S : Type) where
  | leaf (r : SubResult S)
  | node (isOr : Bool) (subs : QForest S)
inductive QForest (S : Type) where
  | nil
  | cons (t : QTree S) (ts : QForest S)
end

/-- a composite query (`_and` / `_or`) at the root, as opposed to a plain ranking / filter query -/
def QTree.isComposite {S : Type} : QTree S → Bool
  | .leaf _ => false
  | .node _ _ => true

def QForest.isNil {S : Type} : QForest S → Bool
  | .nil => true
  | .cons _ _ => false

mutual
/-- `indexManager.Search` on a composite query: every sub-query is searched, then `searchParallel` -/
def evalTree {S : Type} (add : S → S → S) (sorter stable : List (Res S) → List (Res S)) : QTree S → SubResult S
  | .leaf r => r
  | .node isOr subs => searchParallel add sorter stable isOr (evalForest add sorter stable subs)
def evalForest {S : Type} (add : S → S → S) (sorter stable : List (Res S) → List (Res S)) : QForest S → List (SubResult S)
  | .nil => []
  | .cons t ts => evalTree add sorter stable t :: evalForest add sorter stable ts
end

mutual
/-- the documented id set of a query tree: union for `_or`, intersection for `_and` (empty for no sub-query) -/
def inSetB {S : Type} : QTree S → Id → Bool
  | .leaf r, id => decide (id ∈ r.set)
  | .node isOr ts, id => if isOr then anySetB ts id else (!ts.isNil && allSetB ts id)
def anySetB {S : Type} : QForest S → Id → Bool
  | .nil, _ => false
  | .cons t ts, id => inSetB t id || anySetB ts id
def allSetB {S : Type} : QForest S → Id → Bool
  | .nil, _ => true
  | .cons t ts, id => inSetB t id && allSetB ts id
end

mutual
/-- the documented hybrid score of a point in a query tree: at a leaf what the index reports; at a
composite the sum, in sub-query order, of the hybrid scores of the sub-queries that rank the point —
provided the point is in the composite's id set; `none` = not ranked -/
def hybridSpec {S : Type} (add : S → S → S) : QTree S → Id → Option S
  | .leaf r, id => hybridOf r.res id
  | .node isOr ts, id => if inSetB (.node isOr ts) id then sumLeft add (hybridsSpec add ts id) else none
def hybridsSpec {S : Type} (add : S → S → S) : QForest S → Id → List S
  | .nil, _ => []
  | .cons t ts, id => (hybridSpec add t id).toList ++ hybridsSpec add ts id
end

mutual
/-- the leaves are well formed: ranked ids are in the leaf's id set, each at most once -/
def leavesWF {S : Type} : QTree S → Prop
  | .leaf r => (∀ x ∈ r.res, x.id ∈ r.set) ∧ (r.res.map (·.id)).Nodup
  | .node _ ts => forestWF ts
def forestWF {S : Type} : QForest S → Prop
  | .nil => True
  | .cons t ts => leavesWF t ∧ forestWF ts
end

end Sema.C06
