/-
C06 — the hybrid score of a leaf (ranking) sub-query, from the definitions generated from the three indexes
(SemaModel/Generated/Hybrid.lean).  Core-only: the driver evaluates it (`hyb` op lines); the theorems are in
Formula.lean.
-/
import SemaModel.Generated.Hybrid
namespace Sema.C06
open Sema Sema.Go Sema.Gen

/-- the three ranking indexes -/
inductive LeafKind where
  | text | flat | vamana
  deriving DecidableEq, Repr

/-- the hybrid score a leaf search reports for its ranking value `x` (tf-idf score / distance) and the optional
query weight `w`, as generated from the source of the index -/
def leafHybrid (k : LeafKind) (w : Option FExpr) (x : FExpr) : FExpr :=
  match k with
  | .text => Hybrid.text_hybrid x (Hybrid.text_weight ⟨w⟩)
  | .flat => Hybrid.flat_hybrid (Hybrid.flat_weight ⟨w⟩) x
  | .vamana => Hybrid.vamana_hybrid ⟨x⟩ (Hybrid.vamana_weight ⟨w⟩)

end Sema.C06
