/-
C06 — the tie between the hand-written `accessVal` / `access` / `keyCmp` / `sortCmp` of
`C06/Model.lean` and the source.  `SemaModel/Generated/Compare.lean` is produced from
`utils/compare.go` by `tools/go2lean` on every check run: `AccessNestedProperty` (a `for … range`
with `return` inside, a type switch on an interface value) and `SortSearchResults` with its
comparison closure.  `CompareAny` uses `reflect` and stays a parameter (`CompareAny`), as does
`slices.SortFunc` (`sortFunc`).

Representation maps:
  model `Val` → Go interface value `Go.Any Val`:  `ofVal` (`.map m ↦ .map (ofDoc m)`, `.nil ↦ .nil`,
      every other value is an opaque dynamic value `.val v`); injective
  model `Doc` → `models.SearchResult{DecodedData}`: `toResult`
  Go `models.SortOption{Property, Descending}` → model `SortOpt`: `toOpt`, the path is
      `strings.Split(Property, ".")` (`Go.strSplit`, not interpreted)
  `CompareAny` ↔ `cmpAny`: hypothesis `hcmp` of `C06_tie_sortCmp` (the reflect-based function is
      compared with `cmpAny` by the correspondence harness, not here)
-/
import SemaModel.C06.Props
import SemaModel.Generated.Compare
import SemaModel.Generated.Paging
namespace Sema.C06
open Sema

mutual
/-- a stored value as the interface value `AccessNestedProperty` walks through -/
def ofVal : Val → Go.Any Val
  | .map m => .map (ofDoc m)
  | .nil => .nil
  | .bool b => .val (.bool b)
  | .int w v => .val (.int w v)
  | .uint w v => .val (.uint w v)
  | .f32 b => .val (.f32 b)
  | .f64 b => .val (.f64 b)
  | .str s => .val (.str s)
  | .bin b => .val (.bin b)
  | .arr l => .val (.arr l)
def ofDoc : List (String × Val) → List (String × Go.Any Val)
  | [] => []
  | (k, v) :: rest => (k, ofVal v) :: ofDoc rest
end

def toResult (d : Doc) : Gen.Compare.SearchResult Val := ⟨ofDoc d⟩

def toOpt (s : Gen.Compare.SortOption) : SortOpt := ⟨Go.strSplit s.Property ".", s.Descending⟩

namespace Tie

theorem mapGet_ofDoc (m : Doc) (k : String) : Go.mapGet? (ofDoc m) k = (lookup m k).map ofVal := by
  induction m with
  | nil => simp [ofDoc, Go.mapGet?, lookup]
  | cons e rest ih =>
    obtain ⟨k', v⟩ := e
    by_cases h : k' = k <;> simp [ofDoc, Go.mapGet?, lookup, h, ih]

/-- a value that is not a map ends the walk -/
theorem loop_nonmap (p : String) (rest : List String) (c : Go.Any Val) (h : ∀ m, c ≠ .map m) :
    Gen.Compare.AccessNestedProperty_loop1 (p :: rest) c = Go.Brk.ret (Go.Any.nil, false) := by
  cases c with
  | map m => exact absurd rfl (h m)
  | nil => simp [Gen.Compare.AccessNestedProperty_loop1]
  | val a => simp [Gen.Compare.AccessNestedProperty_loop1]

theorem loop_eq : ∀ (path : List String) (cur : Val),
    Gen.Compare.AccessNestedProperty_loop1 path (ofVal cur) =
      match accessVal cur path with
      | some v => Go.Brk.next (ofVal v)
      | none => Go.Brk.ret (Go.Any.nil, false) := by
  intro path
  induction path with
  | nil => intro cur; simp [Gen.Compare.AccessNestedProperty_loop1, accessVal]
  | cons p rest ih =>
    intro cur
    cases cur with
    | map m =>
      simp only [ofVal, Gen.Compare.AccessNestedProperty_loop1, mapGet_ofDoc, accessVal]
      cases hl : lookup m p with
      | none => simp
      | some v => simpa using ih v
    | nil => rw [ofVal, loop_nonmap _ _ _ (by intro m; simp)]; simp [accessVal]
    | bool b => rw [ofVal, loop_nonmap _ _ _ (by intro m; simp)]; simp [accessVal]
    | int w v => rw [ofVal, loop_nonmap _ _ _ (by intro m; simp)]; simp [accessVal]
    | uint w v => rw [ofVal, loop_nonmap _ _ _ (by intro m; simp)]; simp [accessVal]
    | f32 b => rw [ofVal, loop_nonmap _ _ _ (by intro m; simp)]; simp [accessVal]
    | f64 b => rw [ofVal, loop_nonmap _ _ _ (by intro m; simp)]; simp [accessVal]
    | str s => rw [ofVal, loop_nonmap _ _ _ (by intro m; simp)]; simp [accessVal]
    | bin b => rw [ofVal, loop_nonmap _ _ _ (by intro m; simp)]; simp [accessVal]
    | arr l => rw [ofVal, loop_nonmap _ _ _ (by intro m; simp)]; simp [accessVal]

end Tie

/-- **`utils.AccessNestedProperty` is the model's `access`**: on the representation of any model
document, for any path string, the translated function returns the value the model finds along
`strings.Split(path, ".")` and `true`, or `nil, false`. -/
theorem C06_tie_access (d : Doc) (path : String) :
    Gen.Compare.AccessNestedProperty (ofDoc d) path =
      match access d (Go.strSplit path ".") with
      | some v => (ofVal v, true)
      | none => (Go.Any.nil, false) := by
  have h := Tie.loop_eq (Go.strSplit path ".") (.map d)
  simp only [ofVal] at h
  simp only [Gen.Compare.AccessNestedProperty, access, h]
  cases accessVal (.map d) (Go.strSplit path ".") <;> simp [Go.Brk.finish]

/-- **the comparison closure of `utils.SortSearchResults` is the model's `sortCmp`**, for every
`CompareAny` that agrees with `cmpAny` on represented values -/
theorem C06_tie_sortCmp (cmp : Go.Any Val → Go.Any Val → Int) (hcmp : ∀ x y, cmp (ofVal x) (ofVal y) = cmpAny x y)
    (opts : List Gen.Compare.SortOption) (a b : Doc) :
    (Gen.Compare.SortSearchResults_loop1 cmp (toResult a) (toResult b) opts).finish (fun _ => 0) =
      sortCmp (opts.map toOpt) a b := by
  induction opts with
  | nil => simp [Gen.Compare.SortSearchResults_loop1, sortCmp, Go.Brk.finish]
  | cons s rest ih =>
    have ea := C06_tie_access a s.Property
    have eb := C06_tie_access b s.Property
    have ih' : (Gen.Compare.SortSearchResults_loop1 cmp ⟨ofDoc a⟩ ⟨ofDoc b⟩ rest).finish (fun _ => 0) =
        sortCmp (rest.map toOpt) a b := ih
    cases ha : access a (Go.strSplit s.Property ".") <;> cases hb : access b (Go.strSplit s.Property ".") <;>
      rw [ha] at ea <;> rw [hb] at eb <;> rw [Gen.Compare.SortSearchResults_loop1] <;>
      simp only [toResult, List.map_cons, sortCmp, keyCmp, toOpt, ha, hb, ea, eb]
    · simpa using ih'
    · simp [Go.Brk.finish]
    · simp [Go.Brk.finish]
    · rename_i x y
      cases hd : s.Descending
      · simp only [hcmp, Bool.false_eq_true, if_false, Bool.not_true, Bool.and_false, Bool.false_and, Bool.and_self]
        by_cases hz : cmpAny x y = 0
        · simpa [hz] using ih'
        · simp [hz, Go.Brk.finish]
      · simp only [hcmp, if_true, Bool.not_true, Bool.and_false, Bool.false_and, Bool.and_self, Bool.false_eq_true, if_false]
        by_cases hz : cmpAny y x = 0
        · simpa [hz] using ih'
        · simp [hz, Go.Brk.finish]

/-! the hypothesis `hcmp` is satisfiable: `ofVal` has a left inverse, so `cmpAny` itself, read through
it, is such a `CompareAny` -/

mutual
def toVal : Go.Any Val → Val
  | .nil => .nil
  | .map m => .map (toDoc m)
  | .val v => v
def toDoc : List (String × Go.Any Val) → Doc
  | [] => []
  | (k, v) :: rest => (k, toVal v) :: toDoc rest
end

mutual
theorem Tie.toVal_ofVal : (v : Val) → toVal (ofVal v) = v
  | .map m => by simp [ofVal, toVal, Tie.toDoc_ofDoc m]
  | .nil => by simp [ofVal, toVal]
  | .bool _ => by simp [ofVal, toVal]
  | .int _ _ => by simp [ofVal, toVal]
  | .uint _ _ => by simp [ofVal, toVal]
  | .f32 _ => by simp [ofVal, toVal]
  | .f64 _ => by simp [ofVal, toVal]
  | .str _ => by simp [ofVal, toVal]
  | .bin _ => by simp [ofVal, toVal]
  | .arr _ => by simp [ofVal, toVal]
theorem Tie.toDoc_ofDoc : (m : List (String × Val)) → toDoc (ofDoc m) = m
  | [] => by simp [ofDoc, toDoc]
  | (k, v) :: rest => by simp [ofDoc, toDoc, Tie.toVal_ofVal v, Tie.toDoc_ofDoc rest]
end

example : ∃ cmp : Go.Any Val → Go.Any Val → Int, ∀ x y, cmp (ofVal x) (ofVal y) = cmpAny x y :=
  ⟨fun u v => cmpAny (toVal u) (toVal v), fun x y => by simp [Tie.toVal_ofVal]⟩

/-- non-vacuity: a nested document, a path that is found and one that runs into a scalar
(the walk itself; `strings.Split` is not interpreted) -/
example : Gen.Compare.AccessNestedProperty_loop1 ["a", "b"] (ofVal (.map [("a", .map [("b", .bool true)])])) =
    Go.Brk.next (ofVal (.bool true)) := by
  simp [Tie.loop_eq, accessVal, lookup]
example : Gen.Compare.AccessNestedProperty_loop1 ["a", "b", "c"] (ofVal (.map [("a", .map [("b", .bool true)])])) =
    Go.Brk.ret (Go.Any.nil, false) := by
  simp [Tie.loop_eq, accessVal, lookup]

/-- all `SortSearchResults` does is hand the results and that closure to `slices.SortFunc`
(in place: the sorted slice is what the caller sees) -/
theorem C06_tie_sort {α : Type} (sortFunc : {α : Type} → List α → (α → α → Int) → List α) (cmp : Go.Any α → Go.Any α → Int)
    (rs : List (Gen.Compare.SearchResult α)) (opts : List Gen.Compare.SortOption) :
    Gen.Compare.SortSearchResults sortFunc cmp rs opts =
      sortFunc rs (fun a b => (Gen.Compare.SortSearchResults_loop1 cmp a b opts).finish (fun _ => 0)) := rfl


/-! ### offset / limit

`SemaModel/Generated/Paging.lean` is the run of statements at the end of `Shard.SearchPoints`
(`if searchRequest.Limit == 0 { … }` … `finalResults = finalResults[start:end]`) translated as a
function of `searchRequest` and `finalResults`, with Go's wrapping `int` arithmetic (`Go.wrap64` at
every `+` / `-`; no no-overflow assumption).  A slice expression out of range panics in Go; the
translation is total (`Go.sliceI`), the model's `goSlice` says when it would panic. -/

theorem Tie.wrap64_eq (x : Int) : Go.wrap64 x = wrap64 x := rfl

/-- **the paging statements of `Shard.SearchPoints` are the model's `pageRepaired`**: for every
offset and limit (any `Int`: the arithmetic is the same on both sides), whenever the model says the
slice expression does not panic, the translated statements return the model's page. -/
theorem C06_tie_page (l : List Gen.Paging.SearchResult) (off lim : Int) (r : List Gen.Paging.SearchResult)
    (h : pageRepaired l off lim = .ok r) :
    Gen.Paging.SearchPoints_paging ⟨off, lim⟩ l = r := by
  unfold pageRepaired goSlice at h
  unfold Gen.Paging.SearchPoints_paging
  simp only [Tie.wrap64_eq, Go.len, Go.sliceI]
  by_cases hl : lim = 0
  · subst hl
    simp only [if_true, beq_self_eq_true] at h ⊢
    split at h
    · simpa using (Except.ok.inj h)
    · cases h
  · have hb : (lim == 0) = false := by simpa using hl
    simp only [hl, if_false, hb, Bool.false_eq_true] at h ⊢
    split at h
    · simpa using (Except.ok.inj h)
    · cases h

/-- non-vacuity, and the connection with `C06_page_repaired`: for in-range requests the model never
panics, so the translated statements return `(rows.drop offset).take limit'` -/
theorem C06_tie_page_value (l : List Gen.Paging.SearchResult) (off lim : Nat)
    (hoff : off < 2 ^ 63) (hlim : lim < 2 ^ 63) (hlen : l.length < 2 ^ 63) :
    Gen.Paging.SearchPoints_paging ⟨off, lim⟩ l = (l.drop off).take (if lim = 0 then l.length else lim) :=
  C06_tie_page l off lim _ (C06_page_repaired l off lim hoff hlim hlen)

end Sema.C06
