/-
line protocol for C06 (stateful).

  new
  doc <id> <val>                      the stored document of node <id> (a map), syntax below
  kinds                               → the model's reflect.Kind table (validated against Go's on every run)
  fadd <hex8> <hex8>                  → float32 sum (validates the driver's addition against Go's)
  hyb <text|flat|vamana> <weight hex8|-> <value hex8>
                                      → hex8: the leaf hybrid expression generated from the index's source (LeafHybrid.lean),
                                        evaluated with hardware float32 on the leaf's real score / distance (bit for bit)
  cmp <val> <val>                     → cmpAny
  search tree=<T> select=<-|p,p,…> sort=<-|p:a,p:d,…> off=<int> lim=<int> variant=<pinned|repaired> pick=<-|id,id,…> [req=…]

  <T>   ::= R(id:hbits,…) ranked leaf (id set = its ids) | F(id,…) filter leaf | A[T;T;…] | O[T;T;…]
  <val> ::= N | B0 | B1 | I<w>:<dec> | U<w>:<dec> | F<hex8> | D<hex16> | S<hex> | X<hex> | A[v,…] | M{key=v,…}

The answers of the leaves (ids, `_hybridScore` bit patterns) are taken from the real code; hybrid
scores are added with IEEE float32 addition (`Float32`, the same operation as Go's `+=` on float32 —
validated by the `fadd` lines) and ordered by `F32.key`.  `pick` is the order in which the
implementation returned the page: it only chooses *which* sorted permutation the driver prints (ties
of an unstable sort); the driver re-checks that what it prints is a sorted permutation.
-/
import SemaModel.Base.DriverUtil
import SemaModel.Base.Float
import SemaModel.C06.Model
import SemaModel.C06.LeafHybrid
namespace Sema.C06
open Sema

/-! parsing -/

abbrev P (α : Type) := List Char → Option (α × List Char)

def takeWhileC (p : Char → Bool) : List Char → List Char × List Char
  | [] => ([], [])
  | c :: cs => if p c then let (a, b) := takeWhileC p cs; (c :: a, b) else ([], c :: cs)

def isHex (c : Char) : Bool := c.isDigit || ('a' ≤ c && c ≤ 'f')

def pHexBytes (cs : List Char) : Option (Bytes × List Char) :=
  let (h, rest) := takeWhileC isHex cs
  (if h.isEmpty then some [] else bytesOfHex (String.ofList h)).map (fun b => (b, rest))

def pInt (cs : List Char) : Option (Int × List Char) :=
  match cs with
  | '-' :: rest =>
    let (d, r) := takeWhileC Char.isDigit rest
    (String.ofList d).toNat?.map (fun n => (-(n : Int), r))
  | _ =>
    let (d, r) := takeWhileC Char.isDigit cs
    (String.ofList d).toNat?.map (fun n => ((n : Int), r))

def isKeyChar (c : Char) : Bool := c.isAlphanum || c == '_'

mutual
partial def pVal : P Val
  | 'N' :: r => some (.nil, r)
  | 'B' :: '0' :: r => some (.bool false, r)
  | 'B' :: '1' :: r => some (.bool true, r)
  | 'I' :: r =>
    let (w, r1) := takeWhileC Char.isDigit r
    match r1 with
    | ':' :: r2 => (pInt r2).bind fun (v, r3) => (String.ofList w).toNat?.map fun wn => (.int wn (BitVec.ofInt 64 v), r3)
    | _ => none
  | 'U' :: r =>
    let (w, r1) := takeWhileC Char.isDigit r
    match r1 with
    | ':' :: r2 => (pInt r2).bind fun (v, r3) => (String.ofList w).toNat?.map fun wn => (.uint wn (BitVec.ofNat 64 v.toNat), r3)
    | _ => none
  | 'F' :: r =>
    let (h, r1) := takeWhileC isHex r
    (natOfHex (String.ofList h)).map fun n => (.f32 (BitVec.ofNat 32 n), r1)
  | 'D' :: r =>
    let (h, r1) := takeWhileC isHex r
    (natOfHex (String.ofList h)).map fun n => (.f64 (BitVec.ofNat 64 n), r1)
  | 'S' :: r => (pHexBytes r).map fun (b, r1) => (.str b, r1)
  | 'X' :: r => (pHexBytes r).map fun (b, r1) => (.bin b, r1)
  | 'A' :: '[' :: r => (pVals r).map fun (l, r1) => (.arr l, r1)
  | 'M' :: '{' :: r => (pFields r).map fun (m, r1) => (.map m, r1)
  | _ => none
partial def pVals : P (List Val)
  | ']' :: r => some ([], r)
  | ',' :: r => pVals r
  | cs => (pVal cs).bind fun (v, r) => (pVals r).map fun (vs, r2) => (v :: vs, r2)
partial def pFields : P Doc
  | '}' :: r => some ([], r)
  | ',' :: r => pFields r
  | cs =>
    let (k, r) := takeWhileC isKeyChar cs
    match r with
    | '=' :: r1 => (pVal r1).bind fun (v, r2) => (pFields r2).map fun (m, r3) => ((String.ofList k, v) :: m, r3)
    | _ => none
end

inductive Tree where
  | ranked (l : List (Res Nat))
  | filter (ids : List Id)
  | node (isOr : Bool) (subs : List Tree)
  deriving Inhabited

def pNat (cs : List Char) : Option (Nat × List Char) :=
  let (d, r) := takeWhileC Char.isDigit cs
  (String.ofList d).toNat?.map (fun n => (n, r))

partial def pRanked : P (List (Res Nat))
  | ')' :: r => some ([], r)
  | ',' :: r => pRanked r
  | cs => (pNat cs).bind fun (id, r) =>
    match r with
    | ':' :: r1 =>
      let (h, r2) := takeWhileC isHex r1
      (natOfHex (String.ofList h)).bind fun bits => (pRanked r2).map fun (l, r3) => (⟨id, bits⟩ :: l, r3)
    | _ => none

partial def pIds : P (List Id)
  | ')' :: r => some ([], r)
  | ',' :: r => pIds r
  | cs => (pNat cs).bind fun (id, r) => (pIds r).map fun (l, r2) => (id :: l, r2)

mutual
partial def pTree : P Tree
  | 'R' :: '(' :: r => (pRanked r).map fun (l, r1) => (.ranked l, r1)
  | 'F' :: '(' :: r => (pIds r).map fun (l, r1) => (.filter l, r1)
  | 'A' :: '[' :: r => (pTrees r).map fun (l, r1) => (.node false l, r1)
  | 'O' :: '[' :: r => (pTrees r).map fun (l, r1) => (.node true l, r1)
  | _ => none
partial def pTrees : P (List Tree)
  | ']' :: r => some ([], r)
  | ';' :: r => pTrees r
  | cs => (pTree cs).bind fun (t, r) => (pTrees r).map fun (ts, r2) => (t :: ts, r2)
end

/-! printing -/

def hexB (b : Bytes) : String := if b.isEmpty then "" else hexOfBytes b

def insertKV (a : String × String) : List (String × String) → List (String × String)
  | [] => [a]
  | x :: l => if a.1 ≤ x.1 then a :: x :: l else x :: insertKV a l

partial def showVal : Val → String
  | .nil => "N"
  | .bool b => if b then "B1" else "B0"
  | .int w v => s!"I{w}:{v.toInt}"
  | .uint w v => s!"U{w}:{v.toNat}"
  | .f32 x => "F" ++ hexOfNat 8 x.toNat
  | .f64 x => "D" ++ hexOfNat 16 x.toNat
  | .str s => "S" ++ hexB s
  | .bin s => "X" ++ hexB s
  | .arr l => "A[" ++ ",".intercalate (l.map showVal) ++ "]"
  | .map m => "M{" ++ ",".intercalate (((m.map fun e => (e.1, showVal e.2)).foldr insertKV []).map fun e => e.1 ++ "=" ++ e.2) ++ "}"

/-! scores: float32 bit patterns -/

def fadd (a b : Nat) : Nat := ((Float32.ofBits a.toUInt32) + (Float32.ofBits b.toUInt32)).toBits.toNat
def fkey (a : Nat) : Int := F32.key (BitVec.ofNat 32 a)

/-- by hybrid score, highest first; `List.mergeSort` is stable, so this serves both for the unstable
`slices.SortFunc` of `searchParallel` (ties are re-arranged towards the implementation's order below)
and for the `slices.SortStableFunc` of its single-sub-query shortcut -/
def sortHybrid (l : List (Res Nat)) : List (Res Nat) := l.mergeSort fun a b => fkey a.hybrid ≥ fkey b.hybrid

instance : Inhabited (QTree Nat) := ⟨.leaf ⟨[], []⟩⟩
instance : Inhabited (QForest Nat) := ⟨.nil⟩

-- the parsed tree as a query tree of the model: a ranked leaf's id set is its ids
mutual
partial def toQ : Tree → QTree Nat
  | .ranked l => .leaf ⟨l.map (·.id), l⟩
  | .filter ids => .leaf ⟨ids, []⟩
  | .node isOr subs => .node isOr (toQF subs)
partial def toQF : List Tree → QForest Nat
  | [] => .nil
  | t :: ts => .cons (toQ t) (toQF ts)
end

/-- the model's `evalTree` (the one `C06_tree` / `C06_answer` are about) -/
def evalParsed (t : Tree) : SubResult Nat := evalTree fadd sortHybrid sortHybrid (toQ t)

/-! choosing the sorted permutation the implementation chose (ties only) -/

/-- split into maximal runs of consecutive tied elements -/
def runs {α : Type} (tied : α → α → Bool) : List α → List (List α)
  | [] => []
  | a :: l =>
    match runs tied l with
    | (b :: bs) :: rest => if tied a b then (a :: b :: bs) :: rest else [a] :: (b :: bs) :: rest
    | rest => [a] :: rest

def idxOf (l : List Nat) (a : Nat) : Option Nat := l.findIdx? (· == a)

/-- inside each run of ties: the elements the implementation returned (in its order) are placed
where the page window meets the run, the others around them -/
def arrange {α : Type} (idOf : α → Nat) (tied : α → α → Bool) (lo : Nat) (pick : List Nat) (l : List α) : List α :=
  let rec go (pos : Nat) : List (List α) → List α
    | [] => []
    | run :: rest =>
      let picked := (run.filter fun a => (idxOf pick (idOf a)).isSome).mergeSort fun a b => (idxOf pick (idOf a)).getD 0 ≤ (idxOf pick (idOf b)).getD 0
      let others := run.filter fun a => (idxOf pick (idOf a)).isNone
      let before := if lo > pos then min (lo - pos) others.length else 0
      (others.take before ++ picked ++ others.drop before) ++ go (pos + run.length) rest
  go 0 (runs tied l)

def sortedBy {α : Type} (c : α → α → Int) : List α → Bool
  | a :: b :: l => c a b ≤ 0 && sortedBy c (b :: l)
  | _ => true

def insNat (a : Nat) : List Nat → List Nat
  | [] => [a]
  | x :: l => if a ≤ x then a :: x :: l else x :: insNat a l

/-! the step function -/

structure St where
  docs : List (Id × Doc) := []

def docOf (st : St) (id : Id) : Doc :=
  match st.docs.find? (·.1 == id) with
  | some e => e.2
  | none => []

def field (key : String) (parts : List String) : String :=
  match parts.find? (fun p => p.startsWith (key ++ "=")) with
  | some p => (p.drop (key.length + 1)).toString
  | none => "-"

def parsePaths (s : String) : List (List String) :=
  if s == "-" || s.isEmpty then [] else (s.splitOn ",").map (·.splitOn ".")

def parseSort (s : String) : List SortOpt :=
  if s == "-" || s.isEmpty then [] else
  (s.splitOn ",").map fun e =>
    match e.splitOn ":" with
    | [p, d] => ⟨p.splitOn ".", d == "d"⟩
    | _ => ⟨e.splitOn ".", false⟩

def parseIds (s : String) : List Nat :=
  if s == "-" || s.isEmpty then [] else (s.splitOn ",").filterMap (·.toNat?)

def showRow (r : Row Nat) : String :=
  s!"{r.id}:" ++ (match r.hybrid with | some h => hexOfNat 8 h | none => "-") ++ ":" ++ showVal (.map r.data)

def kindsLine : String :=
  " ".intercalate ([Val.nil, .bool true, .int 8 0, .int 16 0, .int 32 0, .int 64 0, .uint 8 0, .uint 16 0, .uint 32 0, .uint 64 0,
    .f32 0, .f64 0, .map [], .arr [], .bin [], .str []].map fun v => toString (kindOf v))

def step (st : St) (line : String) : St × String :=
  let ws := (line.trimAscii.toString.splitOn " ").filter (· ≠ "")
  match ws with
  | ["new"] => ({}, "ok")
  | ["kinds"] => (st, kindsLine)
  | ["hyb", kind, w, x] =>
    let k? : Option LeafKind := if kind == "text" then some .text else if kind == "flat" then some .flat else if kind == "vamana" then some .vamana else none
    match k?, (if w == "-" then some none else (natOfHex w).map some), natOfHex x with
    | some k, some w, some x =>
      let r := (leafHybrid k (w.map fun b => Go.FExpr.var (BitVec.ofNat 32 b)) (Go.FExpr.var (BitVec.ofNat 32 x))).eval
      (st, hexOfNat 8 r.toBits.toNat)
    | _, _, _ => (st, "bad-op")
  | ["fadd", a, b] =>
    match natOfHex a, natOfHex b with
    | some x, some y => (st, hexOfNat 8 (fadd x y))
    | _, _ => (st, "bad-op")
  | ["cmp", a, b] =>
    match pVal a.toList, pVal b.toList with
    | some (x, _), some (y, _) => (st, toString (cmpAny x y))
    | _, _ => (st, "bad-op")
  | ["doc", id, v] =>
    match id.toNat?, pVal v.toList with
    | some i, some (.map m, _) => ({ st with docs := (i, m) :: st.docs.filter (·.1 != i) }, "ok")
    | _, _ => (st, "bad-doc")
  | "search" :: rest =>
    match pTree (field "tree" rest).toList with
    | none => (st, "bad-tree")
    | some (t, _) =>
      let rq : Request := {
        select := parsePaths (field "select" rest), sort := parseSort (field "sort" rest),
        off := (field "off" rest).toInt?.getD 0, lim := (field "lim" rest).toInt?.getD 0 }
      let repaired := field "variant" rest == "repaired"
      let pick := parseIds (field "pick" rest)
      let r := evalParsed t
      let lo := rq.off.toNat
      -- ties of the ranking (no explicit sort): equal hybrid scores (a composite root is in hybrid-score
      -- order, a plain leaf in the order of its index: runs of equal hybrid scores are contiguous in both)
      let r' : SubResult Nat := if rq.sort.isEmpty then
          ⟨r.set, arrange (·.id) (fun a b => fkey a.hybrid == fkey b.hybrid) lo pick r.res⟩ else r
      let c := fun (a b : Row Nat) => sortCmp rq.sort a.data b.data
      let sorter := fun (rows : List (Row Nat)) =>
        arrange (·.id) (fun a b => c a b == 0) lo pick (rows.mergeSort fun a b => c a b ≤ 0)
      -- the driver's own obligations: what it prints is a sorted permutation
      let okRank := (r'.res.map (·.id)).foldr insNat [] == (r.res.map (·.id)).foldr insNat []
      match searchPoints (docOf st) sorter repaired r' rq with
      | .selectError => (st, "error:select")
      | .slicePanic => (st, "panic:slice")
      | .rows p =>
        let all := match searchPoints (docOf st) sorter true r' { rq with off := 0, lim := 0 } with
          | .rows a => a | _ => []
        let okSort := rq.sort.isEmpty || sortedBy c all
        if !(okRank && okSort) then (st, "driver-bug:not-a-sorted-permutation") else
        (st, s!"n={p.length} " ++ "|".intercalate (p.map showRow))
  | _ => (st, "bad-op")

end Sema.C06

def Sema.C06.driverMain (stdin stdout : IO.FS.Stream) (_args : List String) : IO Unit :=
  Sema.loopState stdin stdout Sema.C06.step ({} : Sema.C06.St)
