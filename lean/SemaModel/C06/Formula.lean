/-
C06 — the leaf hybrid scores of a composite query as theorems about the expressions generated from the
three ranking indexes (SemaModel/Generated/Hybrid.lean):

  text    `HybridScore: score * weight`                 shard/index/text/text.go
  flat    `HybridScore: (-1 * weight * dist)`           shard/index/flat/flat.go
  vamana  `HybridScore: (-1 * elem.Distance * weight)`  shard/index/vamana/vamana.go

each with `weight` = 1 when the query gives none.  `C06_merge` (any score type, any `add`) is instantiated with
the symbolic float type `Go.FExpr` and `FExpr.add`: the hybrid score of a merged row is the left-to-right sum
of leaf formulas.  IEEE rounding is not interpreted.
-/
import SemaModel.C06.Props
import SemaModel.C06.LeafHybrid
namespace Sema.C06
open Sema Sema.Go Sema.Gen

/-- **weight × score / −weight × distance**, operand for operand as the three sources have it -/
theorem C06_leaf_hybrid_formula (w : Option FExpr) (x : FExpr) :
    leafHybrid .text w x = FExpr.mul x (w.getD (FExpr.lit 1)) ∧
    leafHybrid .flat w x = FExpr.mul (FExpr.mul (FExpr.neg (FExpr.lit 1)) (w.getD (FExpr.lit 1))) x ∧
    leafHybrid .vamana w x = FExpr.mul (FExpr.mul (FExpr.neg (FExpr.lit 1)) x) (w.getD (FExpr.lit 1)) := by
  cases w <;> exact ⟨rfl, rfl, rfl⟩

/-- a leaf sub-result whose hybrid scores are the generated formula of kind `k`, weight `w`, over the ranking
values `val` -/
def leafResult (k : LeafKind) (w : Option FExpr) (set : List Id) (ranked : List (Id × FExpr)) : SubResult FExpr :=
  ⟨set, ranked.map fun p => ⟨p.1, leafHybrid k w p.2⟩⟩

/-- `C06_merge` over leaves with generated hybrid scores: the merged hybrid score of a row is its contributions
added from the left (`FExpr.add`, sub-query order), and every contribution is the generated leaf formula of one
of the sub-queries for that point's own ranking value. -/
theorem C06_merge_generated (le : FExpr → FExpr → Prop)
    (sorter stable : List (Res FExpr) → List (Res FExpr))
    (hperm : ∀ l, (sorter l).Perm l) (hsorted : ∀ l, (sorter l).Pairwise (fun a b => le b.hybrid a.hybrid))
    (hstperm : ∀ l, (stable l).Perm l) (hstsorted : ∀ l, (stable l).Pairwise (fun a b => le b.hybrid a.hybrid))
    (isOr : Bool) (leaves : List (LeafKind × Option FExpr × List Id × List (Id × FExpr)))
    (hwf : ∀ l ∈ leaves, ∀ p ∈ l.2.2.2, p.1 ∈ l.2.2.1) (hnd : ∀ l ∈ leaves, (l.2.2.2.map (·.1)).Nodup) :
    let subs := leaves.map fun l => leafResult l.1 l.2.1 l.2.2.1 l.2.2.2
    let out := searchParallel FExpr.add sorter stable isOr subs
    ∀ r ∈ out.res, ∃ cs : List FExpr, some r.hybrid = sumLeft FExpr.add cs ∧ cs ≠ [] ∧
      ∀ c ∈ cs, ∃ l ∈ leaves, ∃ p ∈ l.2.2.2, p.1 = r.id ∧ c = leafHybrid l.1 l.2.1 p.2 := by
  intro subs out r hr
  have hwf' : ∀ s ∈ subs, ∀ r ∈ s.res, r.id ∈ s.set := by
    intro s hs r hr
    obtain ⟨l, hl, rfl⟩ := List.mem_map.mp hs
    obtain ⟨p, hp, rfl⟩ := List.mem_map.mp hr
    exact hwf l hl p hp
  have hnd' : ∀ s ∈ subs, (s.res.map (·.id)).Nodup := by
    intro s hs
    obtain ⟨l, hl, rfl⟩ := List.mem_map.mp hs
    simpa [leafResult, List.map_map, Function.comp_def] using hnd l hl
  obtain ⟨_, _, _, hsum, _⟩ := C06_merge FExpr.add le sorter stable hperm hsorted hstperm hstsorted isOr subs hwf' hnd'
  refine ⟨_, hsum r hr, ?_, ?_⟩
  · intro h0
    have := hsum r hr
    rw [h0] at this
    simp [sumLeft] at this
  · intro c hc
    simp only [contribs, List.mem_map, List.mem_filter, List.mem_flatten] at hc
    obtain ⟨r', ⟨⟨rs, hrs, hr'⟩, hid⟩, rfl⟩ := hc
    obtain ⟨s, hs, rfl⟩ := hrs
    obtain ⟨l, hl, rfl⟩ := List.mem_map.mp hs
    obtain ⟨p, hp, rfl⟩ := List.mem_map.mp hr'
    exact ⟨l, hl, p, hp, by simpa using hid, rfl⟩

example : leafHybrid .flat (some (.var 0x3f000000#32)) (.var 0x40000000#32) =
    .mul (.mul (.neg (.lit 1)) (.var 0x3f000000#32)) (.var 0x40000000#32) := by decide
example : leafHybrid .text none (.var 0x40000000#32) = .mul (.var 0x40000000#32) (.lit 1) := by decide

end Sema.C06
