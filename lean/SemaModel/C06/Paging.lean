/-
C06 — consecutive pages tile the sorted answer: asking for `lim₁` rows at `off` and then `lim₂` rows at
`off + lim₁` returns, concatenated, exactly what one request for `lim₁ + lim₂` rows at `off` returns — no
row twice, none skipped, order kept — for every list, offset and positive limits below 2^63.  Corollary
of `C06_page_repaired` (the slice expression of the repaired tree, tied to the source in `C06/Tie.lean`).
-/
import SemaModel.C06.Props
namespace Sema.C06
open Sema

theorem take_drop_tile {α : Type} (l : List α) (off a b : Nat) :
    (l.drop off).take a ++ (l.drop (off + a)).take b = (l.drop off).take (a + b) := by
  rw [List.take_add, List.drop_drop]

/-- `C06_pages_tile` -/
theorem C06_pages_tile {α : Type} (l : List α) (off lim₁ lim₂ : Nat)
    (h1 : 0 < lim₁) (h2 : 0 < lim₂) (hlen : l.length < 2 ^ 63)
    (hsum : off + lim₁ + lim₂ < 2 ^ 63) :
    ∃ p q, pageRepaired l off lim₁ = .ok p ∧ pageRepaired l ((off + lim₁ : Nat) : Int) lim₂ = .ok q ∧
      pageRepaired l off ((lim₁ + lim₂ : Nat) : Int) = .ok (p ++ q) := by
  refine ⟨_, _, C06_page_repaired l off lim₁ (by omega) (by omega) hlen,
    C06_page_repaired l (off + lim₁) lim₂ (by omega) (by omega) hlen, ?_⟩
  rw [C06_page_repaired l off (lim₁ + lim₂) (by omega) (by omega) hlen]
  have e1 : (if lim₁ = 0 then l.length else lim₁) = lim₁ := by simp; omega
  have e2 : (if lim₂ = 0 then l.length else lim₂) = lim₂ := by simp; omega
  have e3 : (if lim₁ + lim₂ = 0 then l.length else lim₁ + lim₂) = lim₁ + lim₂ := by simp; omega
  rw [e1, e2, e3, take_drop_tile]

/-- pages of a fixed size, from the start: the first `k` pages concatenated are the first `k·n` rows -/
theorem C06_pages_prefix {α : Type} (l : List α) (n : Nat) (k : Nat) :
    ((List.range k).map (fun i => (l.drop (i * n)).take n)).flatten = l.take (k * n) := by
  induction k with
  | zero => simp
  | succ k ih =>
    rw [List.range_succ, List.map_append, List.flatten_append, ih]
    simp only [List.map_cons, List.map_nil, List.flatten_cons, List.flatten_nil, List.append_nil]
    rw [Nat.succ_mul, List.take_add]

/-- when the rows are pairwise distinct (ids of an answer are: `C06_answer`), consecutive pages share no row -/
theorem C06_pages_disjoint {α : Type} (l : List α) (off a b : Nat) (hn : l.Nodup) :
    ∀ x ∈ (l.drop off).take a, x ∉ (l.drop (off + a)).take b := by
  have h : ((l.drop off).take a ++ (l.drop (off + a)).take b).Nodup := by
    rw [take_drop_tile]
    exact List.Nodup.sublist ((List.take_sublist _ _).trans (List.drop_sublist _ _)) hn
  intro x hx hq
  exact (List.nodup_append.mp h).2.2 x hx x hq rfl

/-- `limit = 0` asks for everything from `offset` on -/
theorem C06_page_all {α : Type} (l : List α) (off : Nat) (hoff : off < 2 ^ 63) (hlen : l.length < 2 ^ 63) :
    pageRepaired l off ((0 : Nat) : Int) = .ok (l.drop off) := by
  rw [C06_page_repaired l off 0 hoff (by decide) hlen]
  simp only [if_true]
  rw [List.take_of_length_le (by simp)]

/-- non-vacuity: the hypotheses are met by two pages of a five-row answer, and the pages are the expected ones -/
example : ∃ p q, pageRepaired [1, 2, 3, 4, 5] ((1 : Nat) : Int) ((2 : Nat) : Int) = .ok p ∧
    pageRepaired [1, 2, 3, 4, 5] ((1 + 2 : Nat) : Int) ((2 : Nat) : Int) = .ok q ∧
    pageRepaired [1, 2, 3, 4, 5] ((1 : Nat) : Int) ((2 + 2 : Nat) : Int) = .ok (p ++ q) :=
  C06_pages_tile [1, 2, 3, 4, 5] 1 2 2 (by decide) (by decide) (by simp) (by decide)
example : (([1, 2, 3, 4, 5] : List Nat).drop 1).take 2 = [2, 3] ∧ (([1, 2, 3, 4, 5] : List Nat).drop 3).take 2 = [4, 5] := by decide

end Sema.C06
