/-
C06 — hybrid scores, field selection, sorting and paging behave as documented.

Model: SemaModel/C06/Model.lean (searchParallel, back-fill, select, CompareAny / SortSearchResults,
offset / limit).  All statements are unbounded: any number of sub-queries and results, any score
type with any `add`, any order relation on scores, any sorting routine that returns a sorted
permutation (Go's `slices.SortFunc` is unstable), any stored document, any select and sort list.

Where the documented behaviour holds only under a hypothesis, the hypothesis is stated and a witness
shows that it cannot be dropped (`…_witness`): those witnesses are the findings of notes/C06.md.
-/
import SemaModel.C06.Lemmas
namespace Sema.C06
open Sema

/-! ### merge -/

/-- `C06_merge`.  For a composite query with two or more sub-queries (or none), whose sub-results
are well formed (ranked ids are in the sub-result's id set):

* the id set is the union (`_or`) / intersection (`_and`) of the sub-sets;
* the ranked part names each point once, and names exactly the points of the id set that some
  sub-query ranked;
* each ranked point carries `c₁ + c₂ + … + cₙ`, its contributions in sub-query order;
* the ranked part is ordered by hybrid score, highest first. -/
theorem C06_merge {S : Type} (add : S → S → S) (le : S → S → Prop)
    (sorter : List (Res S) → List (Res S))
    (hperm : ∀ l, (sorter l).Perm l) (hsorted : ∀ l, (sorter l).Pairwise (fun a b => le b.hybrid a.hybrid))
    (isOr : Bool) (subs : List (SubResult S)) (hlen : subs.length ≠ 1)
    (hwf : ∀ s ∈ subs, ∀ r ∈ s.res, r.id ∈ s.set) :
    let out := searchParallel add sorter isOr subs
    let all := (subs.map (·.res)).flatten
    (∀ id, id ∈ out.set ↔ if isOr then ∃ s ∈ subs, id ∈ s.set else subs ≠ [] ∧ ∀ s ∈ subs, id ∈ s.set) ∧
    (out.res.map (·.id)).Nodup ∧
    (∀ id, id ∈ out.res.map (·.id) ↔ id ∈ out.set ∧ id ∈ all.map (·.id)) ∧
    (∀ r ∈ out.res, some r.hybrid = sumLeft add (contribs all r.id)) ∧
    out.res.Pairwise (fun a b => le b.hybrid a.hybrid) := by
  intro out all
  -- the shortcut is not taken
  have hout : out = ⟨if isOr then unionAll (subs.map (·.set)) else interAll (subs.map (·.set)),
      sorter ((if isOr then all else all.filter (fun r => decide (r.id ∈
        (if isOr then unionAll (subs.map (·.set)) else interAll (subs.map (·.set)))))).foldl (mergeStep add) [])⟩ := by
    show searchParallel add sorter isOr subs = _
    unfold searchParallel
    cases subs with
    | nil => rfl
    | cons a rest =>
      cases rest with
      | nil => simp at hlen
      | cons b rest2 => rfl
  have hset : ∀ id, id ∈ out.set ↔ if isOr then ∃ s ∈ subs, id ∈ s.set else subs ≠ [] ∧ ∀ s ∈ subs, id ∈ s.set := by
    intro id
    rw [hout]
    cases isOr
    · simp only [Bool.false_eq_true, if_false, mem_interAll, ne_eq, List.map_eq_nil_iff, List.mem_map,
        forall_exists_index, and_imp, forall_apply_eq_imp_iff₂]
    · simp only [if_true, mem_unionAll, List.mem_map]
      constructor
      · rintro ⟨_, ⟨s, hs, rfl⟩, hm⟩; exact ⟨s, hs, hm⟩
      · rintro ⟨s, hs, hm⟩; exact ⟨_, ⟨s, hs, rfl⟩, hm⟩
  have hallset : isOr = true → ∀ id, id ∈ all.map (·.id) → id ∈ out.set := by
    intro hor id hid
    rw [hset, hor]
    simp only [if_true]
    simp only [all, List.mem_map, List.mem_flatten] at hid
    obtain ⟨r, ⟨l, ⟨s, hs, rfl⟩, hr⟩, rfl⟩ := hid
    exact ⟨s, hs, hwf s hs r hr⟩
  generalize hk : (if isOr then all else all.filter (fun r => decide (r.id ∈
        (if isOr then unionAll (subs.map (·.set)) else interAll (subs.map (·.set)))))) = kept at hout
  have hkept_ids : ∀ id, id ∈ kept.map (·.id) ↔ id ∈ out.set ∧ id ∈ all.map (·.id) := by
    intro id
    cases hor : isOr
    · subst hk; rw [hout]; simp only [hor, Bool.false_eq_true, if_false, List.mem_map, List.mem_filter, decide_eq_true_eq]
      constructor
      · rintro ⟨r, ⟨hr, hm⟩, rfl⟩; exact ⟨hm, r, hr, rfl⟩
      · rintro ⟨hm, r, hr, rfl⟩; exact ⟨r, ⟨hr, hm⟩, rfl⟩
    · subst hk; simp only [hor, if_true]
      exact ⟨fun h => ⟨hallset hor id h, h⟩, fun h => h.2⟩
  have hcontrib : ∀ id, id ∈ out.set → contribs kept id = contribs all id := by
    intro id hid
    cases hor : isOr
    · subst hk; simp only [hor, Bool.false_eq_true, if_false]
      rw [contribs_filter]
      rw [hout] at hid; simp only [hor, Bool.false_eq_true, if_false] at hid
      simp [hid]
    · subst hk; simp [hor]
  obtain ⟨hnd, hmem⟩ := ids_foldl add kept [] (by simp)
  have hres : out.res = sorter (kept.foldl (mergeStep add) []) := by rw [hout]
  have hp := hperm (kept.foldl (mergeStep add) [])
  refine ⟨hset, ?_, ?_, ?_, ?_⟩
  · rw [hres]; exact ((hp.map _).nodup_iff).mpr hnd
  · intro id
    rw [hres, ((hp.map (·.id)).mem_iff), hmem]
    simp only [List.map_nil, List.not_mem_nil, false_or]
    exact hkept_ids id
  · intro r hr
    rw [hres] at hr
    have hr' := hp.mem_iff.mp hr
    have hin : r.id ∈ out.set := by
      have : r.id ∈ kept.map (·.id) := by
        have := (hmem r.id).mp (List.mem_map.mpr ⟨r, hr', rfl⟩)
        simpa using this
      exact ((hkept_ids r.id).mp this).1
    rw [← hybridOf_of_mem hnd hr', hybridOf_merge, hcontrib r.id hin]
  · rw [hres]; exact hsorted _

/-- a single sub-query is passed through untouched -/
theorem C06_merge_single {S : Type} (add : S → S → S) (sorter : List (Res S) → List (Res S)) (isOr : Bool)
    (one : SubResult S) : searchParallel add sorter isOr [one] = one := rfl

/-- **the hypothesis `subs.length ≠ 1` is needed for the order clause**: a single ranking sub-query
whose weight is negative comes back in its own order (best score first), which is the lowest hybrid
score first — whatever sorting routine `searchParallel` uses. -/
theorem C06_single_sub_witness :
    ∃ leaf : SubResult Int, ∀ sorter : List (Res Int) → List (Res Int),
      ¬ (searchParallel (· + ·) sorter true [leaf]).res.Pairwise (fun a b => b.hybrid ≤ a.hybrid) := by
  refine ⟨⟨[1, 2], [⟨1, -2⟩, ⟨2, -1⟩]⟩, ?_⟩
  intro sorter
  rw [C06_merge_single]
  simp

/-- back-fill: the ranked results first, in their order; then exactly the remaining ids of the id
set, ascending; every id of the set once. -/
theorem C06_backfill {S : Type} (r : SubResult S) (hn : (r.res.map (·.id)).Nodup) (hwf : ∀ x ∈ r.res, x.id ∈ r.set) :
    ∃ unranked : List Id,
      backfill r = r.res.map (fun x => (⟨x.id, some x.hybrid⟩ : Entry S)) ++ unranked.map (fun id => ⟨id, none⟩) ∧
      unranked.Pairwise (· < ·) ∧
      (∀ id, id ∈ unranked ↔ id ∈ r.set ∧ id ∉ r.res.map (·.id)) ∧
      (∀ id, id ∈ (backfill r).map (·.id) ↔ id ∈ r.set) ∧
      ((backfill r).map (·.id)).Nodup := by
  let rem := (dedup r.set).filter (fun id => !(r.res.any (fun x => x.id == id)))
  have hrem : ∀ id, id ∈ rem ↔ id ∈ r.set ∧ id ∉ r.res.map (·.id) := by
    intro id
    simp only [rem, List.mem_filter, mem_dedup, Bool.not_eq_true', List.mem_map]
    constructor
    · rintro ⟨h1, h2⟩
      refine ⟨h1, ?_⟩
      rintro ⟨x, hx, rfl⟩
      have : r.res.any (fun y => y.id == x.id) = true := List.any_eq_true.mpr ⟨x, hx, by simp⟩
      rw [this] at h2; cases h2
    · rintro ⟨h1, h2⟩
      refine ⟨h1, ?_⟩
      cases hany : r.res.any (fun x => x.id == id) with
      | false => rfl
      | true =>
        obtain ⟨x, hx, hxi⟩ := List.any_eq_true.mp hany
        exact absurd ⟨x, hx, by simpa using hxi⟩ h2
  have hremnd : rem.Nodup := (nodup_dedup r.set).filter _
  have hsp := sortAsc_perm rem
  have hsnd : (sortAsc rem).Nodup := hsp.nodup_iff.mpr hremnd
  have hmem : ∀ id, id ∈ sortAsc rem ↔ id ∈ r.set ∧ id ∉ r.res.map (·.id) := fun id => by rw [hsp.mem_iff, hrem]
  refine ⟨sortAsc rem, rfl, ?_, hmem, ?_, ?_⟩
  · have h1 := sortAsc_sorted rem
    have h2 : (sortAsc rem).Pairwise (· ≠ ·) := hsnd
    exact (h1.and h2).imp (fun ⟨hle, hne⟩ => Nat.lt_of_le_of_ne hle hne)
  · intro id
    simp only [backfill, List.map_append, List.map_map, List.mem_append, Function.comp_def]
    have e1 : List.map (fun x : Res S => x.id) r.res = r.res.map (·.id) := rfl
    constructor
    · rintro (h | h)
      · obtain ⟨x, hx, rfl⟩ := List.mem_map.mp h; exact hwf x hx
      · simp only [List.map_id'] at h; exact ((hmem id).mp h).1
    · intro h
      by_cases hr : id ∈ r.res.map (·.id)
      · exact Or.inl hr
      · right; simp only [List.map_id']; exact (hmem id).mpr ⟨h, hr⟩
  · simp only [backfill, List.map_append, List.map_map, Function.comp_def, List.map_id']
    rw [List.nodup_append]
    refine ⟨hn, hsnd, ?_⟩
    intro a ha b hb hab
    subst hab
    exact ((hmem a).mp hb).2 ha

/-! ### select -/

/-- `C06_select`.  Provided no selected path runs into a value of the stored document that is
neither a map nor absent (`queryVal … ≠ error`), the select loop succeeds and

* every selected path that is present in the stored document comes back with exactly the stored value
  (whatever else was selected before or after it: colliding nested / parent paths included);
* nothing else comes back: every path present in the answer is present in the stored document, and
  every value that is not a rebuilt intermediate map is the stored value at that path. -/
theorem C06_select (d : Doc) (ps : List (List String)) (hstar : ["*"] ∉ ps)
    (hok : ∀ p ∈ ps, p ≠ [] ∧ queryVal (.map d) p ≠ .error ()) :
    ∃ m, selectDoc d ps [] = .ok m ∧
      (∀ p ∈ ps, ∀ u, queryVal (.map d) p = .ok (some u) → access m p = some u) ∧
      (∀ π x, π ≠ [] → access m π = some x → ∃ y, queryVal (.map d) π = .ok (some y) ∧ (isMap x ∨ x = y)) := by
  obtain ⟨m, hm, hinv⟩ := selectDoc_spec d ps [] [] ⟨faithful_nil _, by simp⟩ hstar hok
  refine ⟨m, hm, ?_, hinv.faithful⟩
  intro p hp u hu
  exact hinv.selected p (by simp [hp]) u hu

/-- `"*"` returns the document: when the star is reached (the paths before it being resolvable),
the answer has exactly the top-level fields of the stored document with their stored values; what
follows the star is ignored. -/
theorem C06_select_star (d : Doc) (pre post : List (List String)) (hd : (d.map (·.1)).Nodup)
    (hstar : ["*"] ∉ pre) (hok : ∀ p ∈ pre, p ≠ [] ∧ queryVal (.map d) p ≠ .error ()) :
    ∃ m, selectDoc d (pre ++ ["*"] :: post) [] = .ok m ∧ ∀ k, lookup m k = lookup d k := by
  obtain ⟨m0, hm0, hinv⟩ := selectDoc_spec d pre [] [] ⟨faithful_nil _, by simp⟩ hstar hok
  have hgen : ∀ (ps : List (List String)) (acc : Doc) (m0 : Doc), selectDoc d ps acc = .ok m0 → ["*"] ∉ ps →
      selectDoc d (ps ++ ["*"] :: post) acc = .ok (overlay m0 d) := by
    intro ps
    induction ps with
    | nil => intro acc m0 h _; simp only [selectDoc, Except.ok.injEq] at h; subst h; simp [selectDoc]
    | cons p rest ih =>
      intro acc m0 h hs
      have hp : p ≠ ["*"] := fun h => hs (by simp [h])
      have hrs : ["*"] ∉ rest := fun h => hs (List.mem_cons_of_mem _ h)
      simp only [List.cons_append, selectDoc, hp, if_false] at h ⊢
      cases hq : queryVal (.map d) p with
      | error e => simp [hq] at h
      | ok o =>
        cases o with
        | none => simp only [hq] at h ⊢; exact ih acc m0 h hrs
        | some v =>
          simp only [hq] at h ⊢
          cases hsn : setNested acc p v with
          | error e => simp [hsn] at h
          | ok acc' => simp only [hsn] at h ⊢; exact ih acc' m0 h hrs
  refine ⟨overlay m0 d, hgen pre [] m0 hm0 hstar, ?_⟩
  intro k
  rw [lookup_overlay m0 d k hd]
  cases hl : lookup d k with
  | some v => rfl
  | none =>
    cases hm : lookup m0 k with
    | none => rfl
    | some x =>
      exfalso
      have hacc : accessVal (.map m0) [k] = some x := by rw [accessVal_map_cons, hm]; rfl
      obtain ⟨y, hy, _⟩ := hinv.faithful [k] x (by simp) hacc
      simp [queryVal, hl] at hy

/-- **the hypothesis of `C06_select` is needed**: one stored point whose `a` is a scalar makes the
selection of `a.b` fail for the whole search, although another point has `a.b` (DecodedData of no
point comes back). -/
theorem C06_select_scalar_witness :
    let d1 : Doc := [("a", .map [("b", .str [0x78])])]
    let d2 : Doc := [("a", .str [0x73])]
    let rq : Request := { select := [["a", "b"]], sort := [], off := 0, lim := 10 }
    queryVal (.map d1) ["a", "b"] = .ok (some (.str [0x78])) ∧
    (∃ m, shape rq d1 = .ok m ∧ access m ["a", "b"] = some (.str [0x78])) ∧
    (match mapExcept (shape rq) [d1, d2] with | .error _ => True | .ok _ => False) := by
  refine ⟨by simp [queryVal, lookup], ⟨[("a", .map [("b", .str [0x78])])], ?_, ?_⟩, ?_⟩
  · simp [shape, needDecode, selectDoc, queryVal, lookup, setNested, put]
  · simp [access, accessVal, lookup]
  · simp [mapExcept, shape, needDecode, selectDoc, queryVal, lookup, setNested, put]

/-! ### comparator, sorting -/

/-- `C06_cmp_preorder`: `CompareAny` is a total preorder on the values msgpack can decode — it is
antisymmetric as a three-way comparison and its `≤` is transitive (totality is built into the
three-way form; reflexivity follows). -/
theorem C06_cmp_preorder :
    (∀ a b, cmpAny b a = - cmpAny a b) ∧ (∀ a, cmpAny a a = 0) ∧
    (∀ a b d, cmpAny a b ≤ 0 → cmpAny b d ≤ 0 → cmpAny a d ≤ 0) :=
  ⟨tpc_cmpAny.antisymm, tpc_cmpAny.refl, tpc_cmpAny.trans⟩

/-- the multi-key comparator handed to `slices.SortFunc` is a total preorder on the returned rows,
for every list of sort options -/
theorem C06_sortcmp_preorder (opts : List SortOpt) :
    (∀ a b, sortCmp opts b a = - sortCmp opts a b) ∧ (∀ a, sortCmp opts a a = 0) ∧
    (∀ a b d, sortCmp opts a b ≤ 0 → sortCmp opts b d ≤ 0 → sortCmp opts a d ≤ 0) :=
  ⟨(tpc_sortCmp opts).antisymm, (tpc_sortCmp opts).refl, (tpc_sortCmp opts).trans⟩

/-- hence "some sorted permutation" exists for every list: a correct sort can return an ordered list -/
theorem C06_sort_exists (opts : List SortOpt) (l : List Doc) :
    ∃ l' : List Doc, l'.Perm l ∧ l'.Pairwise (fun a b => sortCmp opts a b ≤ 0) :=
  ⟨isort (sortCmp opts) l, isort_perm _ _, isort_sorted (tpc_sortCmp opts) l⟩

/-- `C06_missing_last`: in any list ordered by the comparator, no row that lacks the first sort key
stands before a row that has it, and rows that both have it are ordered by `CompareAny` on it
(reversed for `descending`).  (Later keys order the rows tied on the earlier ones: `sortCmp`.) -/
theorem C06_missing_last (o : SortOpt) (rest : List SortOpt) (l : List Doc)
    (h : l.Pairwise (fun a b => sortCmp (o :: rest) a b ≤ 0)) :
    l.Pairwise (fun a b => (access b o.path ≠ none → access a o.path ≠ none) ∧
      ∀ x y, access a o.path = some x → access b o.path = some y →
        (if o.desc then cmpAny y x else cmpAny x y) ≤ 0) := by
  apply h.imp
  intro a b hab
  have hk : keyCmp o a b ≤ 0 := by
    simp only [sortCmp] at hab
    by_cases hz : keyCmp o a b = 0
    · omega
    · rwa [if_pos hz] at hab
  unfold keyCmp at hk
  cases ha : access a o.path <;> cases hb : access b o.path <;> simp [ha, hb] at hk ⊢
  exact hk

/-- tied on every key = the comparator is 0: then (and only then) the order is left to the sort -/
theorem C06_sort_ties (opts : List SortOpt) (a b : Doc) :
    sortCmp opts a b = 0 ↔ ∀ o ∈ opts, keyCmp o a b = 0 := by
  induction opts with
  | nil => simp [sortCmp]
  | cons o rest ih =>
    simp only [sortCmp, List.mem_cons, forall_eq_or_imp]
    by_cases hz : keyCmp o a b = 0
    · simp [hz, ih]
    · simp [hz]

/-- within one `reflect.Kind` the comparator is the order of the values: integers by value, floats
by `cmp.Compare` (IEEE order, NaN first), strings byte-wise -/
theorem C06_cmp_same_kind :
    (∀ w x y, cmpAny (.int w x) (.int w y) = cmpInt x y) ∧
    (∀ w x y, cmpAny (.uint w x) (.uint w y) = cmpInt x y) ∧
    (∀ x y, cmpAny (.f64 x) (.f64 y) = cmpF64 x y) ∧
    (∀ x y, cmpAny (.f32 x) (.f32 y) = cmpF32 x y) ∧
    (∀ x y, cmpAny (.str x) (.str y) = cmpStr x y) := by
  refine ⟨?_, ?_, ?_, ?_, ?_⟩
  · intro w x y
    have := kind_int w x
    have hk : kindOf (.int w x) = kindOf (.int w y) := by simp [kindOf]
    unfold cmpAny; simp only [hk, ne_eq, not_true_eq_false, if_false]
    have := kind_int w y
    rw [if_pos (by omega)]; rfl
  · intro w x y
    have := kind_uint w y
    have hk : kindOf (.uint w x) = kindOf (.uint w y) := by simp [kindOf]
    unfold cmpAny; simp only [hk, ne_eq, not_true_eq_false, if_false]
    rw [if_neg (by omega), if_pos (by omega)]; rfl
  · intro x y; simp [cmpAny, kindOf, asF64]
  · intro x y; simp [cmpAny, kindOf, asF32]
  · intro x y; simp [cmpAny, kindOf, asStr]

/-- **but numbers of different encoded width are ordered by width, not by value**: msgpack decodes
`5` (positive fixint) to `int8` and `-200` to `int16`, and `CompareAny` puts every `int8` before
every `int16`; likewise `300` (`uint16`) after `2^40` (`int64`), and the float `1.5` after every
integer. -/
theorem C06_cmp_cross_kind_witness :
    cmpAny (.int 8 5) (.int 16 (-200)) = -1 ∧
    cmpAny (.int 64 (2 ^ 40)) (.uint 16 300) = -1 ∧
    cmpAny (.uint 8 200) (.f64 0x3ff8000000000000#64) = -1 := by
  refine ⟨by decide, by decide, by decide⟩

/-! ### offset / limit -/

/-- `C06_page` (pinned slice expression): for `0 ≤ offset`, `0 ≤ limit` and **`offset + limit'` not
overflowing** the answer is `(rows.drop offset).take limit'`, where `limit' = limit`, or the number
of rows when `limit = 0`. -/
theorem C06_page {α : Type} (l : List α) (off lim : Nat)
    (hno : off + (if lim = 0 then l.length else lim) < 2 ^ 63) :
    pagePinned l off lim = .ok ((l.drop off).take (if lim = 0 then l.length else lim)) := by
  unfold pagePinned
  have hlim : (if (lim : Int) = 0 then (l.length : Int) else (lim : Int)) = ((if lim = 0 then l.length else lim : Nat) : Int) := by
    by_cases h : lim = 0 <;> simp [h]
  simp only [hlim]
  generalize (if lim = 0 then l.length else lim) = lim' at *
  rw [wrap64_id (by omega) (by omega)]
  have h1 : min (off : Int) (l.length : Int) = ((min off l.length : Nat) : Int) := by omega
  have h2 : min ((off : Int) + (lim' : Int)) (l.length : Int) = ((min (off + lim') l.length : Nat) : Int) := by omega
  rw [h1, h2, slice_eq l _ _ (by omega) (by omega), ← take_drop_min]

/-- **the hypothesis is needed**: `offset = 2^63 - 1` passes validation (`offset ≥ 0`), the sum
wraps to a negative number and the slice expression panics (DESIGN.md §8 no. 10). -/
theorem C06_page_overflow_witness :
    pagePinned [0] (2 ^ 63 - 1) 100 = .error () := by
  simp [pagePinned, goSlice, wrap64]
  omega

/-- after the repair the hypothesis is gone: for every `0 ≤ offset, limit < 2^63` the answer is
`(rows.drop offset).take limit'`, and no intermediate value leaves `[0, len]`. -/
theorem C06_page_repaired {α : Type} (l : List α) (off lim : Nat)
    (hoff : off < 2 ^ 63) (hlim : lim < 2 ^ 63) (hlen : l.length < 2 ^ 63) :
    pageRepaired l off lim = .ok ((l.drop off).take (if lim = 0 then l.length else lim)) := by
  unfold pageRepaired
  have hlim' : (if (lim : Int) = 0 then (l.length : Int) else (lim : Int)) = ((if lim = 0 then l.length else lim : Nat) : Int) := by
    by_cases h : lim = 0 <;> simp [h]
  simp only [hlim']
  have hb : (if lim = 0 then l.length else lim) < 2 ^ 63 := by split <;> omega
  generalize (if lim = 0 then l.length else lim) = lim' at *
  have h1 : min (max (off : Int) 0) (l.length : Int) = ((min off l.length : Nat) : Int) := by omega
  rw [h1]
  rw [wrap64_id (x := (l.length : Int) - ((min off l.length : Nat) : Int)) (by omega) (by omega)]
  have h2 : ((min off l.length : Nat) : Int) + min (max (lim' : Int) 0) ((l.length : Int) - ((min off l.length : Nat) : Int))
      = ((min (off + lim') l.length : Nat) : Int) := by omega
  rw [h2, wrap64_id (by omega) (by omega), slice_eq l _ _ (by omega) (by omega), ← take_drop_min]

/-! ### non-vacuity -/

/-- three sub-queries, overlapping results, a negative and a zero contribution, `_and` dropping a result -/
def exSubs : List (SubResult Int) :=
  [⟨[1, 2, 3], [⟨1, 5⟩, ⟨2, -3⟩, ⟨3, 0⟩]⟩, ⟨[2, 3, 4], [⟨3, 7⟩, ⟨2, 1⟩]⟩, ⟨[1, 2, 3, 9], []⟩]

def exSortRes (l : List (Res Int)) : List (Res Int) := isort (fun a b => cmpInt (-a.hybrid) (-b.hybrid)) l

example : exSubs.length ≠ 1 ∧ ∀ s ∈ exSubs, ∀ r ∈ s.res, r.id ∈ s.set := by decide

/-- every hypothesis of `C06_merge` at once (the sorter is an insertion sort on `Int` scores) -/
example : ((searchParallel (· + ·) exSortRes true exSubs).res.map (·.id)).Nodup := by
  have h := C06_merge (· + ·) (· ≤ ·) exSortRes (fun l => isort_perm _ l)
    (fun l => (isort_sorted (tpc_of_key (fun r : Res Int => -r.hybrid)) l).imp (by
      intro a b hab
      have := (cmpInt_le (-a.hybrid) (-b.hybrid)).mp hab
      show b.hybrid ≤ a.hybrid
      omega))
    true exSubs (by decide) (by decide)
  exact h.2.1

example : ((searchParallel (· + ·) exSortRes false exSubs).set, (searchParallel (· + ·) exSortRes false exSubs).res.map (fun r => (r.id, r.hybrid)))
    = ([2, 3], [(3, 7), (2, -2)]) := by decide

example : (backfill (searchParallel (· + ·) exSortRes true exSubs)).map (fun e => (e.id, e.hybrid))
    = [(3, some 7), (1, some 5), (2, some (-2)), (4, none), (9, none)] := by decide

/-- a stored document with a nested map and a scalar, colliding select paths -/
def exDoc : Doc := [("a", .map [("b", .int 8 1), ("c", .str [0x79])]), ("n", .int 16 300), ("z", .nil)]

example : ["*"] ∉ [["a", "b"], ["a"], ["a", "c"], ["q"], ["n"]] ∧
    ∀ p ∈ [["a", "b"], ["a"], ["a", "c"], ["q"], ["n"]], p ≠ [] ∧ queryVal (.map exDoc) p ≠ .error () := by
  refine ⟨by decide, ?_⟩
  intro p hp
  simp only [List.mem_cons, List.not_mem_nil, or_false] at hp
  rcases hp with rfl | rfl | rfl | rfl | rfl <;> simp [queryVal, lookup, exDoc]

example : (exDoc.map (·.1)).Nodup := by decide

/-- sort keys: present / missing / nested; the hypothesis of `C06_missing_last` on a sorted list -/
example : [exDoc, [("n", .int 16 400)], [("q", .nil)]].Pairwise
    (fun a b => sortCmp [⟨["n"], false⟩, ⟨["a", "b"], true⟩] a b ≤ 0) := by decide

example : (5 : Nat) + (if (3 : Nat) = 0 then [1, 2, 3, 4, 5, 6, 7].length else 3) < 2 ^ 63 := by decide

end Sema.C06
