/-
C06 — hybrid scores, field selection, sorting and paging behave as documented.

Model: SemaModel/C06/Model.lean (searchParallel, back-fill, select, CompareAny / SortSearchResults,
offset / limit).  All statements are unbounded: any number of sub-queries and results, any score
type with any `add`, any order relation on scores, any sorting routine that returns a sorted
permutation (Go's `slices.SortFunc` is unstable), any stored document, any select and sort list.

Where the documented behaviour holds only under a hypothesis, the hypothesis is stated and a witness
shows that it cannot be dropped (`…_witness`).  Three such hypotheses of the pinned tree (two or more
sub-queries for the rank order; no select path through a scalar; one `reflect.Kind` per sort key) were
defects; the repository repairs removed them and the model follows the repaired code:
`C06_rank_order` (every composite query), `C06_select` / `C06_select_total`, `C06_cmp_numeric` carry no
such hypothesis.  The hybrid-score order is stated for COMPOSITE queries (the property: "For composite
queries …"); a plain ranking query at the root keeps the order of its index (`C06_plain_order`), and
`C06_plain_negative_weight_witness` shows that the two orders differ for a negative weight.
-/
import SemaModel.C06.Lemmas
namespace Sema.C06
open Sema

/-! ### merge -/

/-- `C06_merge`.  For a composite query with ANY number of sub-queries (none, exactly one, many) whose
sub-results are well formed (ranked ids are in the sub-result's id set; each sub-query names a point
at most once):

* the id set is the union (`_or`) / intersection (`_and`) of the sub-sets;
* the ranked part names each point once, and names exactly the points of the id set that some
  sub-query ranked;
* each ranked point carries `c₁ + c₂ + … + cₙ`, its contributions in sub-query order;
* the ranked part is ordered by hybrid score, highest first — for exactly one sub-query too (the
  shortcut of `searchParallel` sorts), and for negative weights.

The first three clauses re-establish the hypotheses, so the statement composes over query trees of any
depth. -/
theorem C06_merge {S : Type} (add : S → S → S) (le : S → S → Prop)
    (sorter stable : List (Res S) → List (Res S))
    (hperm : ∀ l, (sorter l).Perm l) (hsorted : ∀ l, (sorter l).Pairwise (fun a b => le b.hybrid a.hybrid))
    (hstperm : ∀ l, (stable l).Perm l) (hstsorted : ∀ l, (stable l).Pairwise (fun a b => le b.hybrid a.hybrid))
    (isOr : Bool) (subs : List (SubResult S))
    (hwf : ∀ s ∈ subs, ∀ r ∈ s.res, r.id ∈ s.set) (hnd : ∀ s ∈ subs, (s.res.map (·.id)).Nodup) :
    let out := searchParallel add sorter stable isOr subs
    let all := (subs.map (·.res)).flatten
    (∀ id, id ∈ out.set ↔ if isOr then ∃ s ∈ subs, id ∈ s.set else subs ≠ [] ∧ ∀ s ∈ subs, id ∈ s.set) ∧
    (out.res.map (·.id)).Nodup ∧
    (∀ id, id ∈ out.res.map (·.id) ↔ id ∈ out.set ∧ id ∈ all.map (·.id)) ∧
    (∀ r ∈ out.res, some r.hybrid = sumLeft add (contribs all r.id)) ∧
    out.res.Pairwise (fun a b => le b.hybrid a.hybrid) :=
  merge_any add le sorter stable hperm hsorted hstperm hstsorted isOr subs hwf hnd

/-- a single sub-query: its id set as it is, its ranked results through the stable sort; when they are
in hybrid-score order already (weight ≥ 0) nothing moves -/
theorem C06_merge_single {S : Type} (add : S → S → S) (le : S → S → Prop) (sorter stable : List (Res S) → List (Res S))
    (hstable : ∀ l, l.Pairwise (fun a b => le b.hybrid a.hybrid) → stable l = l) (isOr : Bool) (one : SubResult S) :
    searchParallel add sorter stable isOr [one] = ⟨one.set, stable one.res⟩ ∧
    (one.res.Pairwise (fun a b => le b.hybrid a.hybrid) → searchParallel add sorter stable isOr [one] = one) := by
  refine ⟨rfl, fun h => ?_⟩
  show (⟨one.set, stable one.res⟩ : SubResult S) = one
  rw [hstable _ h]

/-- `C06_rank_order`.  **Every composite query** — `_and` / `_or` at the root with ONE sub-query or
many, any weights (negative ones included), any nesting, whatever the sub-queries returned — without
explicit sort keys comes back with the ranked rows first, highest hybrid score first, and the rows
matched only by filters after them, on every page.  No hypothesis on the number of sub-queries or on
the sub-results (not even well-formedness). -/
theorem C06_rank_order {S : Type} (add : S → S → S) (le : S → S → Prop)
    (sorter stable : List (Res S) → List (Res S))
    (hsorted : ∀ l, (sorter l).Pairwise (fun a b => le b.hybrid a.hybrid))
    (hstsorted : ∀ l, (stable l).Pairwise (fun a b => le b.hybrid a.hybrid))
    (docOf : Id → Doc) (rowSorter : List (Row S) → List (Row S)) (repaired : Bool)
    (t : QTree S) (hroot : t.isComposite = true) (rq : Request)
    (hs : rq.sort = []) (p : List (Row S))
    (h : searchPoints docOf rowSorter repaired (evalTree add sorter stable t) rq = .rows p) :
    p.Pairwise (fun a b => rankRel le a.hybrid b.hybrid) := by
  have hr : (evalTree add sorter stable t).res.Pairwise (fun a b => le b.hybrid a.hybrid) := by
    cases t with
    | leaf r => simp [QTree.isComposite] at hroot
    | node isOr ts => simp only [evalTree]; exact searchParallel_sorted add le sorter stable hsorted hstsorted isOr _
  generalize evalTree add sorter stable t = r at *
  unfold searchPoints at h
  cases hfull : fullRows docOf rowSorter r rq with
  | error e => simp [hfull] at h
  | ok rows =>
    have hrows : rows.Pairwise (fun a b => rankRel le a.hybrid b.hybrid) :=
      fullRows_rank_pairwise le docOf rowSorter r hr rq hs rows hfull
    simp only [hfull] at h
    have hsub : p.Sublist rows := by
      cases repaired
      · simp only [Bool.false_eq_true, if_false] at h
        cases hp : pagePinned rows rq.off rq.lim with
        | error e => simp [hp] at h
        | ok q =>
          simp only [hp, Outcome.rows.injEq] at h; subst h
          exact goSlice_sublist _ _ _ _ hp
      · simp only [if_true] at h
        cases hp : pageRepaired rows rq.off rq.lim with
        | error e => simp [hp] at h
        | ok q =>
          simp only [hp, Outcome.rows.injEq] at h; subst h
          exact goSlice_sublist _ _ _ _ hp
    exact List.Pairwise.sublist hsub hrows

/-- the sort in the shortcut is stable: it does not move anything when the sub-query returned its
results in order already (weights ≥ 0).  Such a sorter exists: insertion sort. -/
theorem C06_rank_sorter_exists (key : Int → Int) :
    let c := fun (a b : Res Int) => cmpInt (-(key a.hybrid)) (-(key b.hybrid))
    (∀ l, (isort c l).Perm l) ∧ (∀ l, (isort c l).Pairwise (fun a b => key b.hybrid ≤ key a.hybrid)) ∧
    (∀ l, l.Pairwise (fun a b => key b.hybrid ≤ key a.hybrid) → isort c l = l) := by
  intro c
  refine ⟨fun l => isort_perm _ l, fun l => ?_, fun l hl => ?_⟩
  · exact (isort_sorted (tpc_of_key (fun r : Res Int => -(key r.hybrid))) l).imp (by
      intro a b hab
      have := (cmpInt_le (-(key a.hybrid)) (-(key b.hybrid))).mp hab
      omega)
  · apply isort_id_of_sorted
    exact hl.imp (by
      intro a b hab
      exact (cmpInt_le (-(key a.hybrid)) (-(key b.hybrid))).mpr (by omega))

/-- ids and hybrid scores of an answer -/
def outcomeRows {S : Type} : Outcome S → Option (List (Id × Option S))
  | .rows p => some (p.map (fun x => (x.id, x.hybrid)))
  | _ => none

/-- `C06_plain_order`.  A plain (not composite) query at the root: the answer lists the ranked results
exactly as the index returned them — same order, same hybrid scores — followed by the points matched by
the filter only, ascending.  So a text query is answered by score, highest first, with hybrid score
`weight · score`, and a vector query by distance, lowest first, with hybrid score `−weight · distance`,
whatever the sign of the weight (C03–C05 say what the index returns). -/
theorem C06_plain_order {S : Type} (docOf : Id → Doc) (rowSorter : List (Row S) → List (Row S))
    (add : S → S → S) (sorter stable : List (Res S) → List (Res S))
    (r : SubResult S) (rq : Request) (hs : rq.sort = []) (rows : List (Row S))
    (h : fullRows docOf rowSorter (evalTree add sorter stable (.leaf r)) rq = .ok rows) :
    ∃ unranked : List Id,
      rows.map (fun x => (x.id, x.hybrid)) =
        r.res.map (fun x => (x.id, some x.hybrid)) ++ unranked.map (fun id => (id, none)) ∧
      unranked = sortAsc ((dedup r.set).filter (fun id => !(r.res.any (fun x => x.id == id)))) := by
  simp only [evalTree] at h
  unfold fullRows at h
  cases hm : mapExcept (fun (e : Entry S) => (shape rq (docOf e.id)).map (fun d => (⟨e.id, e.hybrid, d⟩ : Row S)))
      (backfill r) with
  | error e => simp [hm] at h
  | ok rows0 =>
    simp only [hm, hs, List.isEmpty_nil, if_true, Except.ok.injEq] at h
    subst h
    refine ⟨_, ?_, rfl⟩
    have := mapExcept_map _ (fun (e : Entry S) => (e.id, e.hybrid)) (fun (x : Row S) => (x.id, x.hybrid))
      (fun e row he => by
        obtain ⟨h1, h2, _⟩ := row_of_entry docOf rq e row he
        show (row.id, row.hybrid) = (e.id, e.hybrid)
        rw [h1, h2]) _ _ hm
    rw [this]
    simp [backfill, List.map_append, List.map_map, Function.comp_def]

set_option maxRecDepth 8192 in
/-- **the scoping is forced**: for a negative weight the order of the index and the hybrid-score order
differ.  A vector query of weight −1 finds point 1 at distance 1 and point 2 at distance 2 (hybrid
scores `1`, `2`).  As a plain query it is answered nearest first — lowest hybrid score first; wrapped in
`_or […]` it is answered highest hybrid score first.  (`searchParallel` without the sort in its shortcut
would hand the single sub-query on as it came: the former finding
`rank-order-single-subquery-negative-weight`.) -/
theorem C06_plain_negative_weight_witness :
    let srt := isort (fun (a b : Res Int) => cmpInt (-a.hybrid) (-b.hybrid))
    let hits : List (Id × Int) := [(1, 1), (2, 2)]                        -- (point, distance), nearest first
    let leaf : SubResult Int := ⟨[1, 2], hits.map (fun h => ⟨h.1, -((-1) * h.2)⟩)⟩   -- hybrid = −weight · distance
    outcomeRows (searchPoints (fun _ => []) (fun l => l) true (evalTree (· + ·) srt srt (.leaf leaf)) ⟨[], [], 0, 0⟩)
      = some [(1, some 1), (2, some 2)] ∧
    outcomeRows (searchPoints (fun _ => []) (fun l => l) true
        (evalTree (· + ·) srt srt (.node true (.cons (.leaf leaf) .nil))) ⟨[], [], 0, 0⟩)
      = some [(2, some 2), (1, some 1)] := by
  refine ⟨by decide, by decide⟩

/-- back-fill: the ranked results first, in their order; then exactly the remaining ids of the id
set, ascending; every id of the set once. -/
theorem C06_backfill {S : Type} (r : SubResult S) (hn : (r.res.map (·.id)).Nodup) (hwf : ∀ x ∈ r.res, x.id ∈ r.set) :
    ∃ unranked : List Id,
      backfill r = r.res.map (fun x => (⟨x.id, some x.hybrid⟩ : Entry S)) ++ unranked.map (fun id => ⟨id, none⟩) ∧
      unranked.Pairwise (· < ·) ∧
      (∀ id, id ∈ unranked ↔ id ∈ r.set ∧ id ∉ r.res.map (·.id)) ∧
      (∀ id, id ∈ (backfill r).map (·.id) ↔ id ∈ r.set) ∧
      ((backfill r).map (·.id)).Nodup := by
  let rem := (dedup r.set).filter (fun id => !(r.res.any (fun x => x.id == id)))
  have hrem : ∀ id, id ∈ rem ↔ id ∈ r.set ∧ id ∉ r.res.map (·.id) := by
    intro id
    simp only [rem, List.mem_filter, mem_dedup, Bool.not_eq_true', List.mem_map]
    constructor
    · rintro ⟨h1, h2⟩
      refine ⟨h1, ?_⟩
      rintro ⟨x, hx, rfl⟩
      have : r.res.any (fun y => y.id == x.id) = true := List.any_eq_true.mpr ⟨x, hx, by simp⟩
      rw [this] at h2; cases h2
    · rintro ⟨h1, h2⟩
      refine ⟨h1, ?_⟩
      cases hany : r.res.any (fun x => x.id == id) with
      | false => rfl
      | true =>
        obtain ⟨x, hx, hxi⟩ := List.any_eq_true.mp hany
        exact absurd ⟨x, hx, by simpa using hxi⟩ h2
  have hremnd : rem.Nodup := (nodup_dedup r.set).filter _
  have hsp := sortAsc_perm rem
  have hsnd : (sortAsc rem).Nodup := hsp.nodup_iff.mpr hremnd
  have hmem : ∀ id, id ∈ sortAsc rem ↔ id ∈ r.set ∧ id ∉ r.res.map (·.id) := fun id => by rw [hsp.mem_iff, hrem]
  refine ⟨sortAsc rem, rfl, ?_, hmem, ?_, ?_⟩
  · have h1 := sortAsc_sorted rem
    have h2 : (sortAsc rem).Pairwise (· ≠ ·) := hsnd
    exact (h1.and h2).imp (fun ⟨hle, hne⟩ => Nat.lt_of_le_of_ne hle hne)
  · intro id
    simp only [backfill, List.map_append, List.map_map, List.mem_append, Function.comp_def]
    have e1 : List.map (fun x : Res S => x.id) r.res = r.res.map (·.id) := rfl
    constructor
    · rintro (h | h)
      · obtain ⟨x, hx, rfl⟩ := List.mem_map.mp h; exact hwf x hx
      · simp only [List.map_id'] at h; exact ((hmem id).mp h).1
    · intro h
      by_cases hr : id ∈ r.res.map (·.id)
      · exact Or.inl hr
      · right; simp only [List.map_id']; exact (hmem id).mpr ⟨h, hr⟩
  · simp only [backfill, List.map_append, List.map_map, Function.comp_def, List.map_id']
    rw [List.nodup_append]
    refine ⟨hn, hsnd, ?_⟩
    intro a ha b hb hab
    subst hab
    exact ((hmem a).mp hb).2 ha

/-! ### select -/

/-- `C06_select`.  For every stored document and every select list without `"*"` the select loop
succeeds and

* every selected path that is present in the stored document comes back with exactly the stored value
  (whatever else was selected before or after it: colliding nested / parent paths included);
* nothing else comes back: every path present in the answer is present in the stored document, and
  every value that is not a rebuilt intermediate map is the stored value at that path.

A selected path that is absent — or that runs into a scalar, nil or array of THIS document — is simply
not part of the answer (no hypothesis on the document any more). -/
theorem C06_select (d : Doc) (ps : List (List String)) (hstar : ["*"] ∉ ps) (hne : ∀ p ∈ ps, p ≠ []) :
    ∃ m, selectDoc d ps [] = .ok m ∧
      (∀ p ∈ ps, ∀ u, access d p = some u → access m p = some u) ∧
      (∀ π x, π ≠ [] → access m π = some x → ∃ y, access d π = some y ∧ (isMap x ∨ x = y)) := by
  obtain ⟨m, hm, hinv⟩ := selectDoc_spec d ps [] [] ⟨faithful_nil _, by simp⟩ hstar hne
  refine ⟨m, hm, ?_, ?_⟩
  · intro p hp u hu
    exact hinv.selected p (by simp [hp]) u (access_ok_query hu)
  · intro π x hπ hx
    obtain ⟨y, hy, hxy⟩ := hinv.faithful π x hπ hx
    exact ⟨y, queryVal_ok_access hy, hxy⟩

/-- the select loop with a star somewhere: what precedes the star is selected as above, then the
whole document is decoded over it; what follows the star is ignored -/
theorem selectDoc_star (d : Doc) (post : List (List String)) :
    ∀ (ps : List (List String)) (acc m0 : Doc), selectDoc d ps acc = .ok m0 → ["*"] ∉ ps →
      selectDoc d (ps ++ ["*"] :: post) acc = .ok (overlay m0 d) := by
  intro ps
  induction ps with
  | nil => intro acc m0 h _; simp only [selectDoc, Except.ok.injEq] at h; subst h; simp [selectDoc]
  | cons p rest ih =>
    intro acc m0 h hs
    have hp : p ≠ ["*"] := fun h => hs (by simp [h])
    have hrs : ["*"] ∉ rest := fun h => hs (List.mem_cons_of_mem _ h)
    simp only [List.cons_append, selectDoc, hp, if_false] at h ⊢
    cases hq : queryVal (.map d) p with
    | error e => simp only [hq] at h ⊢; exact ih acc m0 h hrs
    | ok o =>
      cases o with
      | none => simp only [hq] at h ⊢; exact ih acc m0 h hrs
      | some v =>
        simp only [hq] at h ⊢
        cases hsn : setNested acc p v with
        | error e => simp only [hsn] at h ⊢; exact ih acc m0 h hrs
        | ok acc' => simp only [hsn] at h ⊢; exact ih acc' m0 h hrs

/-- `"*"` returns the document: when the star is reached the answer has exactly the top-level fields
of the stored document with their stored values; what follows the star is ignored. -/
theorem C06_select_star (d : Doc) (pre post : List (List String)) (hd : (d.map (·.1)).Nodup)
    (hstar : ["*"] ∉ pre) (hne : ∀ p ∈ pre, p ≠ []) :
    ∃ m, selectDoc d (pre ++ ["*"] :: post) [] = .ok m ∧ ∀ k, lookup m k = lookup d k := by
  obtain ⟨m0, hm0, hinv⟩ := selectDoc_spec d pre [] [] ⟨faithful_nil _, by simp⟩ hstar hne
  refine ⟨overlay m0 d, selectDoc_star d post pre [] m0 hm0 hstar, ?_⟩
  intro k
  rw [lookup_overlay m0 d k hd]
  cases hl : lookup d k with
  | some v => rfl
  | none =>
    cases hm : lookup m0 k with
    | none => rfl
    | some x =>
      exfalso
      have hacc : accessVal (.map m0) [k] = some x := by rw [accessVal_map_cons, hm]; rfl
      obtain ⟨y, hy, _⟩ := hinv.faithful [k] x (by simp) hacc
      simp [queryVal, hl] at hy

/-- `C06_select_total`: selection never fails a request.  For every request whose select paths have
no empty segment list, every stored document yields its data (`shape` succeeds), hence
`Shard.SearchPoints` does not return a select error whatever the other returned points store. -/
theorem C06_select_total {S : Type} (rq : Request) (hne : ∀ p ∈ rq.select, p ≠ []) :
    (∀ d : Doc, ∃ m, shape rq d = .ok m) ∧
    (∀ (docOf : Id → Doc) (sorter : List (Row S) → List (Row S))
       (repaired : Bool) (r : SubResult S),
       (match searchPoints docOf sorter repaired r rq with | .selectError => False | _ => True)) := by
  have hshape : ∀ d : Doc, ∃ m, shape rq d = .ok m := by
    intro d
    unfold shape
    split
    · split
      · exact ⟨[], rfl⟩
      · -- split the list at the first star
        have hsplit : ∀ ps : List (List String), (∀ p ∈ ps, p ≠ []) → ∃ m, selectDoc d ps [] = .ok m := by
          intro ps hps
          by_cases hst : ["*"] ∈ ps
          · obtain ⟨pre, post, hpp, hpre⟩ : ∃ pre post, ps = pre ++ ["*"] :: post ∧ ["*"] ∉ pre := by
              clear hps
              induction ps with
              | nil => simp at hst
              | cons q rest ih =>
                by_cases hq : q = ["*"]
                · exact ⟨[], rest, by simp [hq], by simp⟩
                · have : ["*"] ∈ rest := by
                    rcases List.mem_cons.mp hst with h | h
                    · exact absurd h.symm hq
                    · exact h
                  obtain ⟨pre, post, h1, h2⟩ := ih this
                  exact ⟨q :: pre, post, by simp [h1], by
                    intro hm; rcases List.mem_cons.mp hm with h | h
                    · exact hq h.symm
                    · exact h2 h⟩
            subst hpp
            obtain ⟨m0, hm0, _⟩ := selectDoc_spec d pre [] [] ⟨faithful_nil _, by simp⟩ hpre
              (fun p hp => hps p (by simp [hp]))
            exact ⟨_, selectDoc_star d post pre [] m0 hm0 hpre⟩
          · obtain ⟨m, hm, _⟩ := selectDoc_spec d ps [] [] ⟨faithful_nil _, by simp⟩ hst hps
            exact ⟨m, hm⟩
        exact hsplit rq.select hne
    · split
      · exact ⟨[], rfl⟩
      · exact ⟨d, rfl⟩
  refine ⟨hshape, ?_⟩
  intro docOf sorter repaired r
  unfold searchPoints fullRows
  obtain ⟨rows, hrows, _⟩ := mapExcept_ok
    (fun (e : Entry S) => (shape rq (docOf e.id)).map (fun d => (⟨e.id, e.hybrid, d⟩ : Row S)))
    (backfill r)
    (fun e _ => by obtain ⟨m, hm⟩ := hshape (docOf e.id); exact ⟨⟨e.id, e.hybrid, m⟩, by rw [hm]; rfl⟩)
  rw [hrows]
  simp only
  generalize (if repaired = true then _ else _) = pg
  cases pg <;> simp

/-- the witness of the former finding `select-nested-through-scalar`: one point has `a.b`, another
stores a scalar under `a`.  Selecting `a.b` now answers both: the first with its value, the second
without the path. -/
theorem C06_select_scalar :
    let d1 : Doc := [("a", .map [("b", .str [0x78])])]
    let d2 : Doc := [("a", .str [0x73])]
    let rq : Request := { select := [["a", "b"]], sort := [], off := 0, lim := 10 }
    queryVal (.map d2) ["a", "b"] = .error () ∧
    (∃ m1, mapExcept (shape rq) [d1, d2] = .ok [m1, []] ∧ access m1 ["a", "b"] = some (.str [0x78])) := by
  refine ⟨by simp [queryVal, lookup], ⟨[("a", .map [("b", .str [0x78])])], ?_, ?_⟩⟩
  · simp [mapExcept, shape, needDecode, selectDoc, queryVal, lookup, setNested, put]
  · simp [access, accessVal, lookup]

/-! ### comparator, sorting -/

/-- `C06_cmp_preorder`: `CompareAny` is a total preorder on the values msgpack can decode — it is
antisymmetric as a three-way comparison and its `≤` is transitive (totality is built into the
three-way form; reflexivity follows). -/
theorem C06_cmp_preorder :
    (∀ a b, cmpAny b a = - cmpAny a b) ∧ (∀ a, cmpAny a a = 0) ∧
    (∀ a b d, cmpAny a b ≤ 0 → cmpAny b d ≤ 0 → cmpAny a d ≤ 0) :=
  ⟨tpc_cmpAny.antisymm, tpc_cmpAny.refl, tpc_cmpAny.trans⟩

/-- the multi-key comparator handed to `slices.SortFunc` is a total preorder on the returned rows,
for every list of sort options -/
theorem C06_sortcmp_preorder (opts : List SortOpt) :
    (∀ a b, sortCmp opts b a = - sortCmp opts a b) ∧ (∀ a, sortCmp opts a a = 0) ∧
    (∀ a b d, sortCmp opts a b ≤ 0 → sortCmp opts b d ≤ 0 → sortCmp opts a d ≤ 0) :=
  ⟨(tpc_sortCmp opts).antisymm, (tpc_sortCmp opts).refl, (tpc_sortCmp opts).trans⟩

/-- hence "some sorted permutation" exists for every list: a correct sort can return an ordered list -/
theorem C06_sort_exists (opts : List SortOpt) (l : List Doc) :
    ∃ l' : List Doc, l'.Perm l ∧ l'.Pairwise (fun a b => sortCmp opts a b ≤ 0) :=
  ⟨isort (sortCmp opts) l, isort_perm _ _, isort_sorted (tpc_sortCmp opts) l⟩

/-- `C06_missing_last`: in any list ordered by the comparator, no row that lacks the first sort key
stands before a row that has it, and rows that both have it are ordered by `CompareAny` on it
(reversed for `descending`).  (Later keys order the rows tied on the earlier ones: `sortCmp`.) -/
theorem C06_missing_last (o : SortOpt) (rest : List SortOpt) (l : List Doc)
    (h : l.Pairwise (fun a b => sortCmp (o :: rest) a b ≤ 0)) :
    l.Pairwise (fun a b => (access b o.path ≠ none → access a o.path ≠ none) ∧
      ∀ x y, access a o.path = some x → access b o.path = some y →
        (if o.desc then cmpAny y x else cmpAny x y) ≤ 0) := by
  apply h.imp
  intro a b hab
  have hk : keyCmp o a b ≤ 0 := by
    simp only [sortCmp] at hab
    by_cases hz : keyCmp o a b = 0
    · omega
    · rwa [if_pos hz] at hab
  unfold keyCmp at hk
  cases ha : access a o.path <;> cases hb : access b o.path <;> simp [ha, hb] at hk ⊢
  exact hk

/-- tied on every key = the comparator is 0: then (and only then) the order is left to the sort -/
theorem C06_sort_ties (opts : List SortOpt) (a b : Doc) :
    sortCmp opts a b = 0 ↔ ∀ o ∈ opts, keyCmp o a b = 0 := by
  induction opts with
  | nil => simp [sortCmp]
  | cons o rest ih =>
    simp only [sortCmp, List.mem_cons, forall_eq_or_imp]
    by_cases hz : keyCmp o a b = 0
    · simp [hz, ih]
    · simp [hz]

/-- within one `reflect.Kind` the comparator is the order of the values: integers by value, floats
by `cmp.Compare` (IEEE order, NaN first), strings byte-wise -/
theorem C06_cmp_same_kind :
    (∀ w x y, cmpAny (.int w x) (.int w y) = cmpInt x.toInt y.toInt) ∧
    (∀ w x y, cmpAny (.uint w x) (.uint w y) = cmpInt x.toNat y.toNat) ∧
    (∀ x y, cmpAny (.f64 x) (.f64 y) = cmpF64 x y) ∧
    (∀ x y, cmpAny (.f32 x) (.f32 y) = cmpF32 x y) ∧
    (∀ x y, cmpAny (.str x) (.str y) = cmpStr x y) := by
  refine ⟨?_, ?_, ?_, ?_, ?_⟩
  · intro w x y
    have := kind_int w x
    have hk : kindOf (.int w x) = kindOf (.int w y) := by simp [kindOf]
    unfold cmpAny; simp only [hk, ne_eq, not_true_eq_false, if_false]
    have := kind_int w y
    rw [if_pos (by omega)]; rfl
  · intro w x y
    have := kind_uint w y
    have hk : kindOf (.uint w x) = kindOf (.uint w y) := by simp [kindOf]
    unfold cmpAny; simp only [hk, ne_eq, not_true_eq_false, if_false]
    rw [if_neg (by omega), if_pos (by omega)]; rfl
  · intro x y; simp [cmpAny, kindOf, asF64]
  · intro x y; simp [cmpAny, kindOf, asF32]
  · intro x y; simp [cmpAny, kindOf, asStr]

/-- `C06_cmp_numeric`: on numbers `CompareAny` IS the numeric order, whatever the two kinds — any
integer width, signed or unsigned, float32 or float64.  `numOrd` is the exact value scaled by `2^1074`
(an integer for every finite float64; `±Inf` beyond every finite value; NaN below everything, as
`cmp.Compare` has it), so nothing is rounded: `2^53 + 1` (int64) is greater than `2^53` (float64),
`2^63 − 1` (int64) is less than `2^63` (uint64 or float64), `−1` is less than every uint64. -/
theorem C06_cmp_numeric (a b : Val) (x y : Num) (ha : numOf a = some x) (hb : numOf b = some y) :
    cmpAny a b = cmpInt (numOrd x) (numOrd y) := cmpAny_num ha hb

/-- integers among themselves: by value across all widths and both signednesses -/
theorem C06_cmp_integers (w w' : Nat) (x y : BitVec 64) :
    cmpAny (.int w x) (.int w' y) = cmpInt x.toInt y.toInt ∧
    cmpAny (.int w x) (.uint w' y) = cmpInt x.toInt y.toNat ∧
    cmpAny (.uint w x) (.int w' y) = cmpInt x.toNat y.toInt ∧
    cmpAny (.uint w x) (.uint w' y) = cmpInt x.toNat y.toNat := by
  refine ⟨?_, ?_, ?_, ?_⟩ <;> rw [C06_cmp_numeric _ _ _ _ rfl rfl] <;> exact cmpInt_mul _ _

/-- the float order used above agrees with the IEEE order on bit patterns of `Base/Float.lean`
(sign-magnitude keys): the exact value is strictly increasing in the key -/
theorem C06_float_value_order :
    (∀ x y : BitVec 64, F64.key x < F64.key y ↔ scaled64 x < scaled64 y) ∧
    (∀ x y : BitVec 32, F32.key x < F32.key y ↔ scaled32 x < scaled32 y) :=
  ⟨key64_lt_iff, key32_lt_iff⟩

set_option maxRecDepth 4096 in
/-- the witnesses of the former finding `sort-numeric-cross-kind`, now in numeric order; and values
that a comparison through float64 would merge -/
theorem C06_cmp_cross_kind :
    cmpAny (.int 8 5) (.int 16 (-200)) = 1 ∧
    cmpAny (.int 64 (2 ^ 40)) (.uint 16 300) = 1 ∧
    cmpAny (.uint 8 200) (.f64 0x3ff8000000000000#64) = 1 ∧                 -- 200 > 1.5
    cmpAny (.int 64 (2 ^ 53 + 1)) (.f64 0x4340000000000000#64) = 1 ∧        -- 2^53 + 1 > 2^53 (float64)
    cmpAny (.int 64 (2 ^ 63 - 1)) (.f64 0x43e0000000000000#64) = -1 ∧       -- MaxInt64 < 2^63 (float64)
    cmpAny (.uint 64 (2 ^ 64 - 1)) (.int 8 (-1)) = 1 ∧                      -- MaxUint64 > −1
    cmpAny (.int 64 1700000000000000001) (.int 64 1700000000000000002) = -1 ∧
    cmpAny (.f32 0x3f000000#32) (.f64 0x3fe0000000000000#64) = 0 ∧          -- 0.5 (float32) = 0.5 (float64)
    cmpAny (.int 8 0) (.f64 0x8000000000000000#64) = 0 := by                -- 0 = −0.0
  refine ⟨by decide, by decide, by decide, by decide, by decide, by decide, by decide, by decide, by decide⟩

/-- hence explicit sort keys order numbers by value: in any list ordered by the comparator, two rows
that both carry a number under the first key stand in numeric order (reversed for `descending`) -/
theorem C06_sort_numeric (o : SortOpt) (rest : List SortOpt) (l : List Doc)
    (h : l.Pairwise (fun a b => sortCmp (o :: rest) a b ≤ 0)) :
    l.Pairwise (fun a b => ∀ x y nx ny, access a o.path = some x → access b o.path = some y →
      numOf x = some nx → numOf y = some ny →
      if o.desc then numOrd ny ≤ numOrd nx else numOrd nx ≤ numOrd ny) := by
  apply (C06_missing_last o rest l h).imp
  intro a b hab x y nx ny hx hy hnx hny
  have := hab.2 x y hx hy
  cases hd : o.desc
  · simp only [hd, Bool.false_eq_true, if_false] at this ⊢
    rw [C06_cmp_numeric x y nx ny hnx hny] at this
    exact (cmpInt_le _ _).mp this
  · simp only [hd, if_true] at this ⊢
    rw [C06_cmp_numeric y x ny nx hny hnx] at this
    exact (cmpInt_le _ _).mp this

/-! ### offset / limit -/

/-- `C06_page` (pinned slice expression): for `0 ≤ offset`, `0 ≤ limit` and **`offset + limit'` not
overflowing** the answer is `(rows.drop offset).take limit'`, where `limit' = limit`, or the number
of rows when `limit = 0`. -/
theorem C06_page {α : Type} (l : List α) (off lim : Nat)
    (hno : off + (if lim = 0 then l.length else lim) < 2 ^ 63) :
    pagePinned l off lim = .ok ((l.drop off).take (if lim = 0 then l.length else lim)) := by
  unfold pagePinned
  have hlim : (if (lim : Int) = 0 then (l.length : Int) else (lim : Int)) = ((if lim = 0 then l.length else lim : Nat) : Int) := by
    by_cases h : lim = 0 <;> simp [h]
  simp only [hlim]
  generalize (if lim = 0 then l.length else lim) = lim' at *
  rw [wrap64_id (by omega) (by omega)]
  have h1 : min (off : Int) (l.length : Int) = ((min off l.length : Nat) : Int) := by omega
  have h2 : min ((off : Int) + (lim' : Int)) (l.length : Int) = ((min (off + lim') l.length : Nat) : Int) := by omega
  rw [h1, h2, slice_eq l _ _ (by omega) (by omega), ← take_drop_min]

/-- **the hypothesis is needed**: `offset = 2^63 - 1` passes validation (`offset ≥ 0`), the sum
wraps to a negative number and the slice expression panics (DESIGN.md §8 no. 10). -/
theorem C06_page_overflow_witness :
    pagePinned [0] (2 ^ 63 - 1) 100 = .error () := by
  simp [pagePinned, goSlice, wrap64]
  omega

/-- after the repair the hypothesis is gone: for every `0 ≤ offset, limit < 2^63` the answer is
`(rows.drop offset).take limit'`, and no intermediate value leaves `[0, len]`. -/
theorem C06_page_repaired {α : Type} (l : List α) (off lim : Nat)
    (hoff : off < 2 ^ 63) (hlim : lim < 2 ^ 63) (hlen : l.length < 2 ^ 63) :
    pageRepaired l off lim = .ok ((l.drop off).take (if lim = 0 then l.length else lim)) := by
  unfold pageRepaired
  have hlim' : (if (lim : Int) = 0 then (l.length : Int) else (lim : Int)) = ((if lim = 0 then l.length else lim : Nat) : Int) := by
    by_cases h : lim = 0 <;> simp [h]
  simp only [hlim']
  have hb : (if lim = 0 then l.length else lim) < 2 ^ 63 := by split <;> omega
  generalize (if lim = 0 then l.length else lim) = lim' at *
  have h1 : min (max (off : Int) 0) (l.length : Int) = ((min off l.length : Nat) : Int) := by omega
  rw [h1]
  rw [wrap64_id (x := (l.length : Int) - ((min off l.length : Nat) : Int)) (by omega) (by omega)]
  have h2 : ((min off l.length : Nat) : Int) + min (max (lim' : Int) 0) ((l.length : Int) - ((min off l.length : Nat) : Int))
      = ((min (off + lim') l.length : Nat) : Int) := by omega
  rw [h2, wrap64_id (by omega) (by omega), slice_eq l _ _ (by omega) (by omega), ← take_drop_min]

/-! ### the whole answer -/

/-- the page an answer consists of -/
def outcomePage {S : Type} : Outcome S → Option (List (Row S))
  | .rows p => some p
  | _ => none

/-- `C06_tree`.  For every query tree — any depth, any number of sub-queries per composite (none and
exactly one included), any hybrid scores — whose leaves are well formed, `indexManager.Search` returns:
a well-formed result (ranked ids in the id set, each once); the documented id set (`inSetB`: union for
`_or`, intersection for `_and`); and for every point the documented hybrid score (`hybridSpec`: the
nested sum, in sub-query order, of the contributions of the sub-queries that rank it; not ranked where
no sub-query ranks it or the point is outside the composite's set). -/
theorem C06_tree {S : Type} (add : S → S → S) (le : S → S → Prop) (sorter stable : List (Res S) → List (Res S))
    (hperm : ∀ l, (sorter l).Perm l) (hsorted : ∀ l, (sorter l).Pairwise (fun a b => le b.hybrid a.hybrid))
    (hstperm : ∀ l, (stable l).Perm l) (hstsorted : ∀ l, (stable l).Pairwise (fun a b => le b.hybrid a.hybrid))
    (t : QTree S) (h : leavesWF t) :
    let out := evalTree add sorter stable t
    (∀ x ∈ out.res, x.id ∈ out.set) ∧ (out.res.map (·.id)).Nodup ∧
    (∀ id, id ∈ out.set ↔ inSetB t id = true) ∧
    (∀ id, hybridOf out.res id = hybridSpec add t id) ∧
    (∀ x ∈ out.res, hybridSpec add t x.id = some x.hybrid) ∧
    (t.isComposite = true → out.res.Pairwise (fun a b => le b.hybrid a.hybrid)) := by
  intro out
  obtain ⟨⟨w1, w2⟩, hset, hhyb⟩ := evalTree_ok add le sorter stable hperm hsorted hstperm hstsorted t h
  refine ⟨w1, w2, hset, hhyb, fun x hx => by rw [← hhyb x.id]; exact hybridOf_of_mem w2 hx, ?_⟩
  intro hroot
  cases t with
  | leaf r => simp [QTree.isComposite] at hroot
  | node isOr ts => exact searchParallel_sorted add le sorter stable hsorted hstsorted isOr _

/-- `C06_answer`.  The whole answer of `Shard.SearchPoints` before the offset / limit slice, for every
query tree with well-formed leaves, every select list and every sort list:

* each point of the documented id set exactly once, nothing else;
* each row carries the documented hybrid score (`none` = matched by filters only) and exactly the
  selected data of its stored document;
* without sort keys: the ranked rows first, in the order `indexManager.Search` returned them, the
  filter-only rows after them — for a composite query that is highest hybrid score first, for a plain
  query the order of its index (`C06_plain_order`);
  with sort keys: ordered by the multi-key comparator (`C06_missing_last`, `C06_sort_numeric` say what
  that means). -/
theorem C06_answer {S : Type} (add : S → S → S) (le : S → S → Prop) (sorter stable : List (Res S) → List (Res S))
    (hperm : ∀ l, (sorter l).Perm l) (hsorted : ∀ l, (sorter l).Pairwise (fun a b => le b.hybrid a.hybrid))
    (hstperm : ∀ l, (stable l).Perm l) (hstsorted : ∀ l, (stable l).Pairwise (fun a b => le b.hybrid a.hybrid))
    (rq : Request) (rowSorter : List (Row S) → List (Row S))
    (hsperm : ∀ l, (rowSorter l).Perm l)
    (hssorted : ∀ l, (rowSorter l).Pairwise (fun a b => sortCmp rq.sort a.data b.data ≤ 0))
    (docOf : Id → Doc) (hne : ∀ p ∈ rq.select, p ≠ [])
    (t : QTree S) (h : leavesWF t) :
    ∃ rows, fullRows docOf rowSorter (evalTree add sorter stable t) rq = .ok rows ∧
      (rows.map (·.id)).Nodup ∧ (∀ id, id ∈ rows.map (·.id) ↔ inSetB t id = true) ∧
      (∀ row ∈ rows, row.hybrid = hybridSpec add t row.id ∧ shape rq (docOf row.id) = .ok row.data) ∧
      (rq.sort = [] → rows.map (fun x => (x.id, x.hybrid)) =
        (backfill (evalTree add sorter stable t)).map (fun e => (e.id, e.hybrid))) ∧
      (rq.sort = [] → t.isComposite = true → rows.Pairwise (fun a b => rankRel le a.hybrid b.hybrid)) ∧
      (rq.sort ≠ [] → rows.Pairwise (fun a b => sortCmp rq.sort a.data b.data ≤ 0)) := by
  obtain ⟨w1, w2, hset, hhyb, _, hord⟩ := C06_tree add le sorter stable hperm hsorted hstperm hstsorted t h
  generalize evalTree add sorter stable t = o at *
  obtain ⟨unranked, hB, _, hun, hBmem, hBnd⟩ := C06_backfill o w2 w1
  generalize hBdef : backfill o = B at *
  -- every back-filled entry carries the documented hybrid score
  have hBh : ∀ e ∈ B, e.hybrid = hybridSpec add t e.id := by
    intro e he
    rw [hB] at he
    rcases List.mem_append.mp he with he | he
    · obtain ⟨x, hx, rfl⟩ := List.mem_map.mp he
      show some x.hybrid = hybridSpec add t x.id
      rw [← hhyb x.id, hybridOf_of_mem w2 hx]
    · obtain ⟨id, hid, rfl⟩ := List.mem_map.mp he
      show none = hybridSpec add t id
      have hnot : id ∉ o.res.map (·.id) := ((hun id).mp hid).2
      rw [← hhyb id, (hybridOf_none_of_not_mem hnot).1]
  obtain ⟨hshape, _⟩ := C06_select_total (S := S) rq hne
  obtain ⟨rows0, hrows0, _⟩ := mapExcept_ok
    (fun (e : Entry S) => (shape rq (docOf e.id)).map (fun d => (⟨e.id, e.hybrid, d⟩ : Row S))) B
    (fun e _ => by obtain ⟨m, hm⟩ := hshape (docOf e.id); exact ⟨⟨e.id, e.hybrid, m⟩, by show Except.map _ _ = _; rw [hm]; rfl⟩)
  have hids : rows0.map (·.id) = B.map (·.id) :=
    mapExcept_map _ (·.id) (·.id) (fun e row he => (row_of_entry docOf rq e row he).1) B rows0 hrows0
  have hpairs : rows0.map (fun x => (x.id, x.hybrid)) = B.map (fun e => (e.id, e.hybrid)) :=
    mapExcept_map _ (fun (e : Entry S) => (e.id, e.hybrid)) (fun (x : Row S) => (x.id, x.hybrid))
      (fun e row he => by
        obtain ⟨h1, h2, _⟩ := row_of_entry docOf rq e row he
        show (row.id, row.hybrid) = (e.id, e.hybrid)
        rw [h1, h2]) B rows0 hrows0
  have hrow0 : ∀ row ∈ rows0, row.hybrid = hybridSpec add t row.id ∧ shape rq (docOf row.id) = .ok row.data := by
    intro row hr
    obtain ⟨e, he, hfe⟩ := mapExcept_mem _ B rows0 hrows0 row hr
    obtain ⟨h1, h2, h3⟩ := row_of_entry docOf rq e row hfe
    exact ⟨by rw [h2, h1]; exact hBh e he, by rw [h1]; exact h3⟩
  have hfull : fullRows docOf rowSorter o rq = .ok (if rq.sort.isEmpty then rows0 else rowSorter rows0) := by
    unfold fullRows
    rw [hBdef, hrows0]
  by_cases hs : rq.sort = []
  · refine ⟨rows0, by rw [hfull]; simp [hs], ?_, ?_, hrow0, fun _ => hpairs, ?_, fun h => absurd hs h⟩
    · rw [hids]; exact hBnd
    · intro id; rw [hids, hBmem id]; exact hset id
    · intro _ hroot
      exact fullRows_rank_pairwise le docOf rowSorter o (hord hroot) rq hs rows0 (by rw [hfull]; simp [hs])
  · have hse : rq.sort.isEmpty = false := by
      cases hq : rq.sort with
      | nil => exact absurd hq hs
      | cons a l => rfl
    have hperm' := hsperm rows0
    refine ⟨rowSorter rows0, by rw [hfull]; simp [hse], ?_, ?_, ?_, fun h => absurd h hs, fun h => absurd h hs, fun _ => hssorted rows0⟩
    · rw [((hperm'.map (·.id)).nodup_iff), hids]; exact hBnd
    · intro id; rw [((hperm'.map (·.id)).mem_iff), hids, hBmem id]; exact hset id
    · intro row hr; exact hrow0 row (hperm'.mem_iff.mp hr)

/-- and the request returns the page `[offset, offset + limit)` of that answer (all of it from `offset`
on when `limit = 0`) — repaired slice expression, no overflow hypothesis -/
theorem C06_search_page {S : Type} (docOf : Id → Doc)
    (rowSorter : List (Row S) → List (Row S)) (r : SubResult S) (rq : Request) (rows : List (Row S))
    (hfull : fullRows docOf rowSorter r rq = .ok rows)
    (off lim : Nat) (ho : rq.off = off) (hl : rq.lim = lim)
    (hoff : off < 2 ^ 63) (hlim : lim < 2 ^ 63) (hlen : rows.length < 2 ^ 63) :
    outcomePage (searchPoints docOf rowSorter true r rq)
      = some ((rows.drop off).take (if lim = 0 then rows.length else lim)) := by
  unfold searchPoints
  rw [hfull]
  simp only [if_true, ho, hl, C06_page_repaired rows off lim hoff hlim hlen]
  rfl


/-! ### non-vacuity -/

/-- three sub-queries, overlapping results, a negative and a zero contribution, `_and` dropping a result -/
def exSubs : List (SubResult Int) :=
  [⟨[1, 2, 3], [⟨1, 5⟩, ⟨2, -3⟩, ⟨3, 0⟩]⟩, ⟨[2, 3, 4], [⟨3, 7⟩, ⟨2, 1⟩]⟩, ⟨[1, 2, 3, 9], []⟩]

def exSortRes (l : List (Res Int)) : List (Res Int) := isort (fun a b => cmpInt (-a.hybrid) (-b.hybrid)) l

example : exSubs.length ≠ 1 ∧ (∀ s ∈ exSubs, ∀ r ∈ s.res, r.id ∈ s.set) ∧ ∀ s ∈ exSubs, (s.res.map (·.id)).Nodup := by decide

/-- every hypothesis of `C06_merge` at once (the sorter is an insertion sort on `Int` scores) -/
example : ((searchParallel (· + ·) exSortRes exSortRes true exSubs).res.map (·.id)).Nodup := by
  have hso : ∀ l, (exSortRes l).Pairwise (fun a b => b.hybrid ≤ a.hybrid) :=
    fun l => (isort_sorted (tpc_of_key (fun r : Res Int => -r.hybrid)) l).imp (by
      intro a b hab
      have := (cmpInt_le (-a.hybrid) (-b.hybrid)).mp hab
      show b.hybrid ≤ a.hybrid
      omega)
  have h := C06_merge (· + ·) (· ≤ ·) exSortRes exSortRes (fun l => isort_perm _ l) hso (fun l => isort_perm _ l) hso
    true exSubs (by decide) (by decide)
  exact h.2.1

example : ((searchParallel (· + ·) exSortRes exSortRes false exSubs).set, (searchParallel (· + ·) exSortRes exSortRes false exSubs).res.map (fun r => (r.id, r.hybrid)))
    = ([2, 3], [(3, 7), (2, -2)]) := by decide

example : (backfill (searchParallel (· + ·) exSortRes exSortRes true exSubs)).map (fun e => (e.id, e.hybrid))
    = [(3, some 7), (1, some 5), (2, some (-2)), (4, none), (9, none)] := by decide

/-- a stored document with a nested map and a scalar, colliding select paths -/
def exDoc : Doc := [("a", .map [("b", .int 8 1), ("c", .str [0x79])]), ("n", .int 16 300), ("z", .nil)]

/-- the hypotheses of `C06_select` on a list that also runs into a scalar (`n.x`) and into nil (`z.q`);
the answer computed: the scalar-crossing paths are simply absent -/
example : ["*"] ∉ [["a", "b"], ["n", "x"], ["a"], ["z", "q"], ["a", "c"], ["q"], ["n"]] ∧
    ∀ p ∈ [["a", "b"], ["n", "x"], ["a"], ["z", "q"], ["a", "c"], ["q"], ["n"]], p ≠ [] := by decide

example : (match selectDoc exDoc [["a", "b"], ["n", "x"], ["z", "q"], ["q"], ["n"]] [] with
    | .ok m => access m ["a", "b"] = some (.int 8 1) ∧ access m ["n"] = some (.int 16 300) ∧ access m ["n", "x"] = none ∧
        lookup m "z" = none ∧ m.length = 2
    | .error _ => False) := by
  simp [selectDoc, queryVal, lookup, exDoc, setNested, put, access, accessVal]

/-- the hypotheses of `C06_rank_order` are satisfiable together with stability (`C06_rank_sorter_exists`);
a composite root over a single leaf in its own order with a negative weight and a tie, a filter-only
point behind it -/
example : outcomeRows (searchPoints (fun _ => []) (fun l => l) true
    (evalTree (· + ·) exSortRes exSortRes
      (.node false (.cons (.leaf (⟨[1, 2, 3, 7], [⟨1, -2⟩, ⟨3, -2⟩, ⟨2, -1⟩]⟩ : SubResult Int)) .nil))) ⟨[], [], 0, 0⟩)
    = some [(2, some (-1)), (1, some (-2)), (3, some (-2)), (7, none)] := by decide

set_option maxRecDepth 8192 in
/-- the hypothesis of `C06_sort_numeric`: a list in comparator order whose first key holds numbers of
five different kinds, two of them equal in value -/
example : [[("n", Val.int 16 (-200))], [("n", .f64 0x3ff8000000000000#64)], [("n", .int 8 5)], [("n", .f32 0x40a00000#32)],
      [("n", .uint 8 200)], [("n", .int 64 (2 ^ 40))], [("q", .nil)]].Pairwise
    (fun a b => sortCmp [⟨["n"], false⟩] a b ≤ 0) := by decide

example : (exDoc.map (·.1)).Nodup := by decide

/-- sort keys: present / missing / nested; the hypothesis of `C06_missing_last` on a sorted list -/
example : [exDoc, [("n", .int 16 400)], [("q", .nil)]].Pairwise
    (fun a b => sortCmp [⟨["n"], false⟩, ⟨["a", "b"], true⟩] a b ≤ 0) := by decide

example : (5 : Nat) + (if (3 : Nat) = 0 then [1, 2, 3, 4, 5, 6, 7].length else 3) < 2 ^ 63 := by decide

/-- a query tree of depth 2: `_and [ _or [ranked, ranked(negative), filter], _or [ranked] (a single
sub-query), filter ]` with overlapping results -/
def exTree : QTree Int :=
  .node false (.cons (.node true (.cons (.leaf ⟨[1, 2, 3], [⟨1, 5⟩, ⟨2, -3⟩, ⟨3, 0⟩]⟩)
      (.cons (.leaf ⟨[2, 3, 4], [⟨3, -7⟩, ⟨2, 1⟩]⟩) (.cons (.leaf ⟨[9], []⟩) .nil))))
    (.cons (.node true (.cons (.leaf ⟨[1, 2, 4, 9], [⟨2, -1⟩, ⟨4, 2⟩]⟩) .nil))
    (.cons (.leaf ⟨[1, 2, 4, 5, 9], []⟩) .nil)))

/-- the hypothesis of `C06_tree` / `C06_answer`, and what they conclude, computed: id set, hybrid
scores as nested sums `((−3) + 1) + (−1)`, point 1 ranked by the first sub-query only, point 9 by none -/
example : leavesWF exTree := by simp [exTree, leavesWF, forestWF]

example : (evalTree (· + ·) exSortRes exSortRes exTree).set = [1, 2, 4, 9] ∧
    ((evalTree (· + ·) exSortRes exSortRes exTree).res.map (fun r => (r.id, r.hybrid))) = [(1, 5), (4, 2), (2, -3)] ∧
    [1, 2, 3, 4, 5, 9].map (inSetB exTree) = [true, true, false, true, false, true] ∧
    [1, 2, 3, 4, 9].map (hybridSpec (· + ·) exTree) = [some 5, some (-3), none, some 2, none] := by decide

/-- the sorter hypotheses of `C06_answer` are satisfiable: insertion sorts (`C06_rank_sorter_exists`,
`C06_sort_exists`) -/
example (opts : List SortOpt) : ∃ rowSorter : List (Row Int) → List (Row Int), (∀ l, (rowSorter l).Perm l) ∧
    ∀ l, (rowSorter l).Pairwise (fun a b => sortCmp opts a.data b.data ≤ 0) :=
  ⟨isort (fun a b => sortCmp opts a.data b.data), fun l => isort_perm _ l, fun l =>
    isort_sorted (c := fun (a b : Row Int) => sortCmp opts a.data b.data)
      ⟨fun a b => (tpc_sortCmp opts).antisymm _ _, fun a b d => (tpc_sortCmp opts).trans _ _ _⟩ l⟩

end Sema.C06
