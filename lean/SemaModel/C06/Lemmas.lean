/- helper lemmas for C06 (merge, select, comparator, paging).  Core-only. -/
import SemaModel.C06.Model
namespace Sema.C06
open Sema

/-! ### three-way comparators that are total preorders -/

/-- `c a b < 0`: a before b, `= 0`: tied, `> 0`: a after b.  Antisymmetry + transitivity of `≤` make
`c` a total preorder (totality is built into the three-way form). -/
structure TPC {α : Type} (c : α → α → Int) : Prop where
  antisymm : ∀ a b, c b a = - c a b
  trans : ∀ a b d, c a b ≤ 0 → c b d ≤ 0 → c a d ≤ 0

namespace TPC
variable {α : Type} {c : α → α → Int}

theorem refl (h : TPC c) (a : α) : c a a = 0 := by have := h.antisymm a a; omega

theorem eq_trans (h : TPC c) {a b d : α} (h1 : c a b = 0) (h2 : c b d = 0) : c a d = 0 := by
  have t1 := h.trans a b d (by omega) (by omega)
  have t2 := h.trans d b a (by have := h.antisymm b d; omega) (by have := h.antisymm a b; omega)
  have := h.antisymm a d
  omega

theorem lt_of_eq_lt (h : TPC c) {a b d : α} (h1 : c a b = 0) (h2 : c b d < 0) : c a d < 0 := by
  have t1 := h.trans a b d (by omega) (by omega)
  by_cases h0 : c a d = 0
  · -- then d ~ a ~ b, so d ≤ b, i.e. c b d ≥ 0
    have hda : c d a ≤ 0 := by have := h.antisymm a d; omega
    have := h.trans d a b hda (by omega)
    have := h.antisymm b d
    omega
  · omega

theorem lt_of_lt_eq (h : TPC c) {a b d : α} (h1 : c a b < 0) (h2 : c b d = 0) : c a d < 0 := by
  have t1 := h.trans a b d (by omega) (by omega)
  by_cases h0 : c a d = 0
  · have hda : c d a ≤ 0 := by have := h.antisymm a d; omega
    have hdb : c d b ≤ 0 := by have := h.antisymm b d; omega
    -- b ≤ d ≤ a  gives c b a ≤ 0
    have := h.trans b d a (by omega) hda
    have := h.antisymm a b
    omega
  · omega

end TPC

theorem cmpInt_antisymm (a b : Int) : cmpInt b a = - cmpInt a b := by
  unfold cmpInt; split <;> split <;> omega

theorem cmpInt_le (a b : Int) : cmpInt a b ≤ 0 ↔ a ≤ b := by
  unfold cmpInt; split <;> (try split) <;> omega

theorem cmpInt_eq_zero (a b : Int) : cmpInt a b = 0 ↔ a = b := by
  unfold cmpInt; split <;> (try split) <;> omega

theorem tpc_of_key {α : Type} (f : α → Int) : TPC (fun a b => cmpInt (f a) (f b)) :=
  ⟨fun a b => cmpInt_antisymm _ _, fun a b d h1 h2 => by
    rw [cmpInt_le] at *; omega⟩

/-- lexicographic composition -/
def lex {α : Type} (c1 c2 : α → α → Int) (a b : α) : Int := if c1 a b ≠ 0 then c1 a b else c2 a b

theorem tpc_lex {α : Type} {c1 c2 : α → α → Int} (h1 : TPC c1) (h2 : TPC c2) : TPC (lex c1 c2) := by
  constructor
  · intro a b
    unfold lex
    have := h1.antisymm a b
    have := h2.antisymm a b
    split <;> split <;> omega
  · intro a b d hab hbd
    unfold lex at *
    by_cases e1 : c1 a b = 0
    · by_cases e2 : c1 b d = 0
      · have e3 := h1.eq_trans e1 e2
        simp only [e1, e2, e3, ne_eq, not_true_eq_false, if_false] at *
        exact h2.trans a b d hab hbd
      · simp only [e1, e2, ne_eq, not_true_eq_false, not_false_eq_true, if_false, if_true] at hab hbd
        have := h1.lt_of_eq_lt e1 (by omega : c1 b d < 0)
        rw [if_pos (by omega)]; omega
    · by_cases e2 : c1 b d = 0
      · simp only [e1, e2, ne_eq, not_true_eq_false, not_false_eq_true, if_false, if_true] at hab hbd
        have := h1.lt_of_lt_eq (by omega : c1 a b < 0) e2
        rw [if_pos (by omega)]; omega
      · simp only [e1, e2, ne_eq, not_false_eq_true, if_true] at hab hbd
        have := h1.trans a b d (by omega) (by omega)
        by_cases e3 : c1 a d = 0
        · -- a < b, b < d but a ~ d: impossible
          have hda : c1 d a ≤ 0 := by have := h1.antisymm a d; omega
          have := h1.trans d a b hda (by omega)
          have := h1.antisymm b d
          omega
        · rw [if_pos e3]; omega

/-! ### byte-wise string order -/

theorem lexLt_irrefl (a : Bytes) : lexLt a a = false := by
  induction a with
  | nil => rfl
  | cons x xs ih => simp [lexLt, ih]

theorem lexLt_asymm (a b : Bytes) (h : lexLt a b = true) : lexLt b a = false := by
  induction a generalizing b with
  | nil => cases b <;> simp [lexLt] at *
  | cons x xs ih =>
    cases b with
    | nil => simp [lexLt] at h
    | cons y ys =>
      simp only [lexLt, Bool.or_eq_true, decide_eq_true_eq, Bool.and_eq_true, beq_iff_eq] at h
      simp only [lexLt, Bool.or_eq_false_iff, decide_eq_false_iff_not, Nat.not_lt, Bool.and_eq_false_imp, beq_iff_eq]
      rcases h with h | ⟨rfl, h⟩
      · refine ⟨by omega, ?_⟩
        intro e; subst e; omega
      · exact ⟨by omega, fun _ => ih ys h⟩

theorem lexLt_trans (a b d : Bytes) (h1 : lexLt a b = true) (h2 : lexLt b d = true) : lexLt a d = true := by
  induction a generalizing b d with
  | nil =>
    cases b with
    | nil => simp [lexLt] at h1
    | cons y ys => cases d <;> simp [lexLt] at *
  | cons x xs ih =>
    cases b with
    | nil => simp [lexLt] at h1
    | cons y ys =>
      cases d with
      | nil => simp [lexLt] at h2
      | cons z zs =>
        simp only [lexLt, Bool.or_eq_true, decide_eq_true_eq, Bool.and_eq_true, beq_iff_eq] at *
        rcases h1 with h1 | ⟨rfl, h1⟩
        · rcases h2 with h2 | ⟨rfl, h2⟩
          · exact Or.inl (by omega)
          · exact Or.inl h1
        · rcases h2 with h2 | ⟨rfl, h2⟩
          · exact Or.inl h2
          · exact Or.inr ⟨rfl, ih ys zs h1 h2⟩

theorem lexLt_total (a b : Bytes) (h1 : lexLt a b = false) (h2 : lexLt b a = false) : a = b := by
  induction a generalizing b with
  | nil => cases b <;> simp [lexLt] at *
  | cons x xs ih =>
    cases b with
    | nil => simp [lexLt] at h2
    | cons y ys =>
      simp only [lexLt, Bool.or_eq_false_iff, decide_eq_false_iff_not, Nat.not_lt, Bool.and_eq_false_imp, beq_iff_eq] at h1 h2
      have hxy : x = y := by
        apply BitVec.eq_of_toNat_eq; omega
      subst hxy
      rw [ih ys (h1.2 rfl) (h2.2 rfl)]

theorem tpc_cmpStr : TPC cmpStr := by
  constructor
  · intro a b
    unfold cmpStr
    by_cases h1 : lexLt a b = true
    · have := lexLt_asymm a b h1; simp [h1, this]
    · by_cases h2 : lexLt b a = true
      · simp [h1, h2]
      · simp [h1, h2]
  · intro a b d hab hbd
    unfold cmpStr at *
    by_cases h1 : lexLt a b = true
    · by_cases h2 : lexLt b d = true
      · simp [lexLt_trans a b d h1 h2]
      · by_cases h3 : lexLt d b = true
        · simp [h2, h3] at hbd
        · have : b = d := lexLt_total b d (by simpa using h2) (by simpa using h3)
          subst this; simp [h1]
    · by_cases h1' : lexLt b a = true
      · simp [h1, h1'] at hab
      · have : a = b := lexLt_total a b (by simpa using h1) (by simpa using h1')
        subst this; exact hbd

/-! ### floats: `cmp.Compare` is the order of a key -/

def fkey64 (x : BitVec 64) : Int := if F64.isNaN x then -(2 ^ 64) else F64.key x
def fkey32 (x : BitVec 32) : Int := if F32.isNaN x then -(2 ^ 64) else F32.key x

theorem F64.key_bound (x : BitVec 64) : -(2 ^ 63 : Int) < F64.key x ∧ F64.key x < 2 ^ 63 := by
  unfold F64.key F64.mag
  have : x.toNat % 2 ^ 63 < 2 ^ 63 := Nat.mod_lt _ (by decide)
  split <;> omega

theorem F32.key_bound (x : BitVec 32) : -(2 ^ 31 : Int) < F32.key x ∧ F32.key x < 2 ^ 31 := by
  unfold F32.key F32.mag
  have : x.toNat % 2 ^ 31 < 2 ^ 31 := Nat.mod_lt _ (by decide)
  split <;> omega

theorem cmpF64_eq (x y : BitVec 64) : cmpF64 x y = cmpInt (fkey64 x) (fkey64 y) := by
  have bx := F64.key_bound x
  have bY := F64.key_bound y
  unfold cmpF64 fkey64 cmpInt F64.lt
  by_cases hx : F64.isNaN x = true <;> by_cases hy : F64.isNaN y = true
  · simp [hx, hy]
  · simp only [hx, hy, if_true, Bool.false_eq_true, if_false]
    rw [if_pos (by omega)]
  · simp only [hx, hy, if_true, Bool.false_eq_true, if_false]
    rw [if_neg (by omega), if_pos (by omega)]
  · simp [hx, hy]

theorem cmpF32_eq (x y : BitVec 32) : cmpF32 x y = cmpInt (fkey32 x) (fkey32 y) := by
  have bx := F32.key_bound x
  have bY := F32.key_bound y
  unfold cmpF32 fkey32 cmpInt F32.lt
  by_cases hx : F32.isNaN x = true <;> by_cases hy : F32.isNaN y = true
  · simp [hx, hy]
  · simp only [hx, hy, if_true, Bool.false_eq_true, if_false]
    rw [if_pos (by omega)]
  · simp only [hx, hy, if_true, Bool.false_eq_true, if_false]
    rw [if_neg (by omega), if_pos (by omega)]
  · simp [hx, hy]

/-! ### numbers: `compareNumbers` is the numeric order -/

theorem K_pos : 0 < K := by unfold K; exact Int.pow_pos (by decide)

theorem cmpInt_congr {a b c d : Int} (h1 : a < b ↔ c < d) (h2 : b < a ↔ d < c) : cmpInt a b = cmpInt c d := by
  unfold cmpInt
  by_cases x : a < b
  · rw [if_pos x, if_pos (h1.mp x)]
  · rw [if_neg x, if_neg (fun h => x (h1.mpr h))]
    by_cases y : b < a
    · rw [if_pos y, if_pos (h2.mp y)]
    · rw [if_neg y, if_neg (fun h => y (h2.mpr h))]

theorem mul_K_lt {a b : Int} : a * K < b * K ↔ a < b :=
  ⟨fun h => Int.lt_of_mul_lt_mul_right h (Int.le_of_lt K_pos), fun h => Int.mul_lt_mul_of_pos_right h K_pos⟩

theorem cmpInt_mul (a b : Int) : cmpInt (a * K) (b * K) = cmpInt a b :=
  cmpInt_congr mul_K_lt mul_K_lt

theorem truncK_bounds (s : Int) : truncK s * K - K < s ∧ s < truncK s * K + K := by
  have hK := K_pos
  unfold truncK
  split
  · have h1 := Int.mul_ediv_add_emod s K
    have h2 := Int.emod_nonneg s (Int.ne_of_gt hK)
    have h3 := Int.emod_lt_of_pos s hK
    have h4 : s / K * K = K * (s / K) := Int.mul_comm _ _
    omega
  · have h1 := Int.mul_ediv_add_emod (-s) K
    have h2 := Int.emod_nonneg (-s) (Int.ne_of_gt hK)
    have h3 := Int.emod_lt_of_pos (-s) hK
    have h4 : -(-s / K) * K = -(K * (-s / K)) := by rw [Int.neg_mul, Int.mul_comm]
    omega

theorem mag64_lt {a b : Nat} (h : a < b) : mag64 a < mag64 b := by
  unfold mag64
  simp only
  have hdiv : a / 2 ^ 52 < b / 2 ^ 52 ∨ (a / 2 ^ 52 = b / 2 ^ 52 ∧ a % 2 ^ 52 < b % 2 ^ 52) := by omega
  have hma : a % 2 ^ 52 < 2 ^ 52 := Nat.mod_lt _ (by decide)
  have hmb : b % 2 ^ 52 < 2 ^ 52 := Nat.mod_lt _ (by decide)
  generalize a / 2 ^ 52 = ea at *
  generalize b / 2 ^ 52 = eb at *
  generalize a % 2 ^ 52 = ma at *
  generalize b % 2 ^ 52 = mb at *
  rcases hdiv with hlt | ⟨heq, hm⟩
  · have hebpos : eb ≠ 0 := by omega
    rw [if_neg hebpos]
    have hQ : 0 < 2 ^ (eb - 1) := Nat.two_pow_pos _
    have hb : 2 ^ 52 * 2 ^ (eb - 1) ≤ (2 ^ 52 + mb) * 2 ^ (eb - 1) := Nat.mul_le_mul_right _ (by omega)
    by_cases hea : ea = 0
    · rw [if_pos hea]
      omega
    · rw [if_neg hea]
      have hPQ : 2 ^ (ea - 1) * 2 ≤ 2 ^ (eb - 1) := by
        rw [← Nat.pow_succ]
        exact Nat.pow_le_pow_right (by decide) (by omega)
      have hP : 0 < 2 ^ (ea - 1) := Nat.two_pow_pos _
      have ha : (2 ^ 52 + ma) * 2 ^ (ea - 1) < 2 ^ 53 * 2 ^ (ea - 1) := Nat.mul_lt_mul_of_pos_right (by omega) hP
      omega
  · subst heq
    by_cases hea : ea = 0
    · simp [hea]; exact hm
    · rw [if_neg hea, if_neg hea]
      exact Nat.mul_lt_mul_of_pos_right (by omega) (Nat.two_pow_pos _)

theorem cmpIntegerFloat_nan (n s lo hi : Int) : cmpIntegerFloat n true s lo hi = 1 := by
  simp [cmpIntegerFloat]

theorem cmpIntegerFloat_eq (n s lo hi : Int) (hlo : lo ≤ n) (hhi : n < hi) :
    cmpIntegerFloat n false s lo hi = cmpInt (n * K) s := by
  have hK := K_pos
  unfold cmpIntegerFloat
  simp only [Bool.false_eq_true, false_or]
  by_cases h1 : s < lo * K
  · rw [if_pos h1]
    have : lo * K ≤ n * K := Int.mul_le_mul_of_nonneg_right hlo (Int.le_of_lt hK)
    unfold cmpInt; rw [if_neg (by omega), if_pos (by omega)]
  rw [if_neg h1]
  by_cases h2 : hi * K ≤ s
  · rw [if_pos h2]
    have : n * K < hi * K := Int.mul_lt_mul_of_pos_right hhi hK
    unfold cmpInt; rw [if_pos (by omega)]
  rw [if_neg h2]
  obtain ⟨b1, b2⟩ := truncK_bounds s
  generalize truncK s = t at *
  by_cases h3 : cmpInt n t = 0
  · have : n = t := (by unfold cmpInt at h3; split at h3 <;> (try split at h3) <;> omega)
    subst this
    rw [if_neg (by simpa using h3)]
  · rw [if_pos h3]
    unfold cmpInt
    by_cases h4 : n < t
    · have : n * K ≤ (t - 1) * K := Int.mul_le_mul_of_nonneg_right (by omega) (Int.le_of_lt hK)
      rw [Int.sub_mul, Int.one_mul] at this
      rw [if_pos h4, if_pos (by omega)]
    · have h5 : t < n := by
        unfold cmpInt at h3; rw [if_neg h4] at h3
        by_cases h6 : t < n
        · exact h6
        · rw [if_neg h6] at h3; exact absurd rfl h3
      have : (t + 1) * K ≤ n * K := Int.mul_le_mul_of_nonneg_right (by omega) (Int.le_of_lt hK)
      rw [Int.add_mul, Int.one_mul] at this
      rw [if_neg h4, if_pos h5, if_neg (by omega), if_pos (by omega)]

theorem mag32_lt {a b : Nat} (h : a < b) (hb : b < 2 ^ 31) : mag32 a < mag32 b := by
  unfold mag32
  simp only
  have hdiv : a / 2 ^ 23 < b / 2 ^ 23 ∨ (a / 2 ^ 23 = b / 2 ^ 23 ∧ a % 2 ^ 23 < b % 2 ^ 23) := by omega
  have hma : a % 2 ^ 23 < 2 ^ 23 := Nat.mod_lt _ (by decide)
  have hmb : b % 2 ^ 23 < 2 ^ 23 := Nat.mod_lt _ (by decide)
  have heb : b / 2 ^ 23 ≤ 255 := by omega
  generalize a / 2 ^ 23 = ea at *
  generalize b / 2 ^ 23 = eb at *
  generalize a % 2 ^ 23 = ma at *
  generalize b % 2 ^ 23 = mb at *
  have hinf : mag64 (2047 * 2 ^ 52) = 2 ^ 52 * 2 ^ 2046 := by
    unfold mag64
    simp only [Nat.mul_div_cancel _ (Nat.two_pow_pos 52), Nat.mul_mod_left]
    rw [if_neg (by decide), Nat.add_zero, show 2047 - 1 = 2046 from rfl]
  rw [hinf]
  have hR : 0 < 2 ^ 925 := Nat.two_pow_pos _
  -- a finite float32 stays below 2^1202 ≤ the float64 infinity
  have hfin : ∀ e m, e ≠ 0 → e < 255 → m < 2 ^ 23 → (2 ^ 23 + m) * 2 ^ (e - 1) * 2 ^ 925 < 2 ^ 52 * 2 ^ 2046 := by
    intro e m he0 he hm
    have h1 : (2 ^ 23 + m) * 2 ^ (e - 1) < 2 ^ 24 * 2 ^ (e - 1) := Nat.mul_lt_mul_of_pos_right (by omega) (Nat.two_pow_pos _)
    have h2 : 2 ^ (e - 1) ≤ 2 ^ 253 := Nat.pow_le_pow_right (by decide) (by omega)
    have h3 : (2 ^ 23 + m) * 2 ^ (e - 1) < 2 ^ 24 * 2 ^ 253 := by omega
    have h4 := Nat.mul_lt_mul_of_pos_right h3 hR
    have h5 : 2 ^ 24 * 2 ^ 253 * 2 ^ 925 ≤ 2 ^ 52 * 2 ^ 2046 := by
      rw [← Nat.pow_add, ← Nat.pow_add, ← Nat.pow_add]; exact Nat.pow_le_pow_right (by decide) (by decide)
    omega
  have hsub : ∀ m, m < 2 ^ 23 → m * 2 ^ 925 < 2 ^ 23 * 2 ^ 925 := fun m hm => Nat.mul_lt_mul_of_pos_right hm hR
  rcases hdiv with hlt | ⟨heq, hm⟩
  · have hebpos : eb ≠ 0 := by omega
    rw [if_neg hebpos]
    by_cases hea : ea = 0
    · rw [if_pos hea]
      have h0 := hsub ma hma
      by_cases hbf : eb < 255
      · rw [if_pos hbf]
        have h1 : 2 ^ 23 * 1 ≤ (2 ^ 23 + mb) * 2 ^ (eb - 1) := Nat.mul_le_mul (by omega) (Nat.two_pow_pos _)
        have h2 := Nat.mul_le_mul_right (2 ^ 925) h1
        omega
      · rw [if_neg hbf]
        have h5 : 2 ^ 23 * 2 ^ 925 ≤ 2 ^ 52 * 2 ^ 2046 := by
          rw [← Nat.pow_add, ← Nat.pow_add]; exact Nat.pow_le_pow_right (by decide) (by decide)
        omega
    · rw [if_neg hea, if_pos (by omega)]
      by_cases hbf : eb < 255
      · rw [if_pos hbf]
        have hPQ : 2 ^ (ea - 1) * 2 ≤ 2 ^ (eb - 1) := by
          rw [← Nat.pow_succ]
          exact Nat.pow_le_pow_right (by decide) (by omega)
        have ha : (2 ^ 23 + ma) * 2 ^ (ea - 1) < 2 ^ 24 * 2 ^ (ea - 1) := Nat.mul_lt_mul_of_pos_right (by omega) (Nat.two_pow_pos _)
        have hb' : 2 ^ 23 * 2 ^ (eb - 1) ≤ (2 ^ 23 + mb) * 2 ^ (eb - 1) := Nat.mul_le_mul_right _ (by omega)
        exact Nat.mul_lt_mul_of_pos_right (by omega) hR
      · rw [if_neg hbf]
        have := hfin ea ma hea (by omega) hma
        omega
  · subst heq
    by_cases hea : ea = 0
    · rw [if_pos hea, if_pos hea]; exact Nat.mul_lt_mul_of_pos_right hm hR
    · rw [if_neg hea, if_neg hea]
      by_cases hbf : ea < 255
      · rw [if_pos hbf, if_pos hbf]
        exact Nat.mul_lt_mul_of_pos_right (Nat.mul_lt_mul_of_pos_right (by omega) (Nat.two_pow_pos _)) hR
      · rw [if_neg hbf, if_neg hbf]; omega

/-- the place of NaN: below every number -/
def nanKey : Int := -(2 ^ 2100)

/-- the numeric order: the exact value times `2^1074`; NaN below everything (as `cmp.Compare` has it) -/
def numOrd : Num → Int
  | .int v => v * K
  | .uint v => (v : Int) * K
  | .flt nan s => if nan then nanKey else s

/-- the ranges of what `Int()`, `Uint()`, `Float()` return -/
def Num.WF : Num → Prop
  | .int v => -(2 ^ 63) ≤ v ∧ v < 2 ^ 63
  | .uint v => v < 2 ^ 64
  | .flt _ s => nanKey < s

theorem nanKey_lt_mul {n : Int} (h : -(2 ^ 64) ≤ n) : nanKey < n * K := by
  have h1 : -(2 ^ 64) * K ≤ n * K := Int.mul_le_mul_of_nonneg_right h (Int.le_of_lt K_pos)
  have h2 : nanKey < -(2 ^ 64) * K := by
    unfold nanKey K
    rw [Int.neg_mul, ← Int.pow_add]
    apply Int.neg_lt_neg
    have : (2 : Nat) ^ (64 + 1074) < 2 ^ 2100 := Nat.pow_lt_pow_right (by decide) (by decide)
    exact_mod_cast this
  omega

theorem mag64_zero : mag64 0 = 0 := by simp [mag64]
theorem mag32_zero : mag32 0 = 0 := by simp [mag32]

theorem mag64_bound {b : Nat} (hb : b < 2 ^ 63) : mag64 b < 2 ^ 2099 := by
  have h1 : mag64 b < mag64 (2 ^ 63) := mag64_lt hb
  have h2 : mag64 (2 ^ 63) = 2 ^ 52 * 2 ^ 2047 := by
    unfold mag64
    have e1 : (2 : Nat) ^ 63 / 2 ^ 52 = 2048 := by decide
    have e2 : (2 : Nat) ^ 63 % 2 ^ 52 = 0 := by decide
    simp only [e1, e2]
    rw [if_neg (by decide), Nat.add_zero, show 2048 - 1 = 2047 from rfl]
  rw [h2, ← Nat.pow_add] at h1
  exact h1

theorem mag32_bound {b : Nat} (hb : b < 2 ^ 31) : mag32 b < 2 ^ 2099 := by
  have h1 : mag32 b ≤ mag32 (2 ^ 31 - 1) := by
    by_cases h : b = 2 ^ 31 - 1
    · rw [h]; exact Nat.le_refl _
    · exact Nat.le_of_lt (mag32_lt (by omega) (by decide))
  have h2 : mag32 (2 ^ 31 - 1) = 2 ^ 52 * 2 ^ 2046 + (2 ^ 23 - 1) := by
    unfold mag32 mag64
    have e1 : ((2 : Nat) ^ 31 - 1) / 2 ^ 23 = 255 := by decide
    have e2 : ((2 : Nat) ^ 31 - 1) % 2 ^ 23 = 2 ^ 23 - 1 := by decide
    simp only [e1, e2, Nat.mul_div_cancel _ (Nat.two_pow_pos 52), Nat.mul_mod_left]
    rw [if_neg (by decide), if_neg (by decide), if_neg (by decide), Nat.add_zero, show 2047 - 1 = 2046 from rfl]
  have h3 : 2 ^ 52 * 2 ^ 2046 + 2 ^ 52 * 2 ^ 2046 = 2 ^ 2099 := by
    rw [← Nat.pow_add, ← Nat.two_mul, ← Nat.pow_succ']
  have h4 : (2 : Nat) ^ 23 - 1 < 2 ^ 52 * 2 ^ 2046 := by
    have : (2 : Nat) ^ 23 ≤ 2 ^ 52 * 2 ^ 2046 := by rw [← Nat.pow_add]; exact Nat.pow_le_pow_right (by decide) (by decide)
    omega
  omega

theorem nanKey_lt_of_mag {m : Nat} (h : m < 2 ^ 2099) (neg : Bool) : nanKey < (if neg then -(m : Int) else (m : Int)) := by
  have h1 : ((2 : Nat) ^ 2099 : Int) < 2 ^ 2100 := by
    have : (2 : Nat) ^ 2099 < 2 ^ 2100 := Nat.pow_lt_pow_right (by decide) (by decide)
    exact_mod_cast this
  have h2 : (m : Int) < ((2 ^ 2099 : Nat) : Int) := by exact_mod_cast h
  unfold nanKey
  cases neg <;> simp <;> omega

theorem scaled64_gt (x : BitVec 64) : nanKey < scaled64 x :=
  nanKey_lt_of_mag (mag64_bound (by unfold F64.mag; exact Nat.mod_lt _ (by decide))) _

theorem scaled32_gt (x : BitVec 32) : nanKey < scaled32 x :=
  nanKey_lt_of_mag (mag32_bound (by unfold F32.mag; exact Nat.mod_lt _ (by decide))) _

theorem numOf_wf {a : Val} {x : Num} (h : numOf a = some x) : x.WF := by
  cases a <;> simp [numOf] at h <;> subst h
  · rename_i w v
    have h1 := BitVec.le_toInt v
    have h2 := @BitVec.toInt_lt 64 v
    exact ⟨by simpa using h1, by simpa using h2⟩
  · rename_i w v; exact v.isLt
  · exact scaled32_gt _
  · exact scaled64_gt _

theorem cmpInt_neg (a b : Int) : -(cmpInt a b) = cmpInt b a := by rw [cmpInt_antisymm]; omega

/-- `compareNumbers` is the numeric order -/
theorem cmpNumbers_eq (x y : Num) (hx : x.WF) (hy : y.WF) : cmpNumbers x y = cmpInt (numOrd x) (numOrd y) := by
  have hK := K_pos
  cases x <;> cases y <;> simp only [cmpNumbers, numOrd, Num.WF] at *
  · exact (cmpInt_mul _ _).symm
  · rename_i a b
    rw [cmpInt_mul]
    split
    · unfold cmpInt; rw [if_pos (by omega)]
    · rfl
  · rename_i a nb sb
    cases nb
    · simp only [Bool.false_eq_true, if_false]; exact cmpIntegerFloat_eq _ _ _ _ hx.1 hx.2
    · simp only [if_true, cmpIntegerFloat_nan]
      have := nanKey_lt_mul (n := a) (by omega)
      unfold cmpInt; rw [if_neg (by omega), if_pos this]
  · rename_i a b
    rw [cmpInt_mul]
    split
    · unfold cmpInt; rw [if_neg (by omega), if_pos (by omega)]; rfl
    · exact cmpInt_neg _ _
  · exact (cmpInt_mul _ _).symm
  · rename_i a nb sb
    cases nb
    · simp only [Bool.false_eq_true, if_false]; exact cmpIntegerFloat_eq _ _ _ _ (by omega) (by omega)
    · simp only [if_true, cmpIntegerFloat_nan]
      have := nanKey_lt_mul (n := (a : Int)) (by omega)
      unfold cmpInt; rw [if_neg (by omega), if_pos this]
  · rename_i na sa b
    cases na
    · simp only [Bool.false_eq_true, if_false]; rw [cmpIntegerFloat_eq _ _ _ _ hy.1 hy.2]; exact cmpInt_neg _ _
    · simp only [if_true, cmpIntegerFloat_nan]
      have := nanKey_lt_mul (n := b) (by omega)
      unfold cmpInt; rw [if_pos this]
  · rename_i na sa b
    cases na
    · simp only [Bool.false_eq_true, if_false]; rw [cmpIntegerFloat_eq _ _ _ _ (by omega) (by omega)]; exact cmpInt_neg _ _
    · simp only [if_true, cmpIntegerFloat_nan]
      have := nanKey_lt_mul (n := (b : Int)) (by omega)
      unfold cmpInt; rw [if_pos this]
  · rename_i na sa nb sb
    unfold cmpFlt
    cases na <;> cases nb <;> simp only [Bool.false_eq_true, if_false, if_true]
    · unfold cmpInt; rw [if_neg (by omega), if_pos hx]
    · unfold cmpInt; rw [if_pos hy]
    · unfold cmpInt; simp

/-- a strictly increasing map of magnitudes that fixes 0 preserves the sign-magnitude order -/
theorem smag_iso (g : Nat → Nat) (N : Nat) (hg : ∀ a b, a < b → b < N → g a < g b) (h0 : g 0 = 0)
    (n1 n2 : Bool) (a b : Nat) (ha : a < N) (hb : b < N) :
    ((if n1 then -(a : Int) else (a : Int)) < (if n2 then -(b : Int) else (b : Int))) ↔
    ((if n1 then -(g a : Int) else (g a : Int)) < (if n2 then -(g b : Int) else (g b : Int))) := by
  have i1 : a < b ↔ g a < g b := by
    constructor
    · intro h; exact hg a b h hb
    · intro h
      by_cases h' : a < b
      · exact h'
      · by_cases h'' : a = b
        · subst h''; omega
        · have := hg b a (by omega) ha; omega
  have i2 : b < a ↔ g b < g a := by
    constructor
    · intro h; exact hg b a h ha
    · intro h
      by_cases h' : b < a
      · exact h'
      · by_cases h'' : a = b
        · subst h''; omega
        · have := hg a b (by omega) hb; omega
  have z1 : a = 0 ↔ g a = 0 := by
    constructor
    · intro h; subst h; exact h0
    · intro h
      by_cases h' : a = 0
      · exact h'
      · have := hg 0 a (by omega) ha; omega
  have z2 : b = 0 ↔ g b = 0 := by
    constructor
    · intro h; subst h; exact h0
    · intro h
      by_cases h' : b = 0
      · exact h'
      · have := hg 0 b (by omega) hb; omega
  cases n1 <;> cases n2 <;> simp only [Bool.false_eq_true, if_false, if_true] <;> omega

theorem key64_lt_iff (x y : BitVec 64) : F64.key x < F64.key y ↔ scaled64 x < scaled64 y := by
  unfold F64.key scaled64
  exact smag_iso mag64 (2 ^ 63) (fun a b h _ => mag64_lt h) mag64_zero _ _ _ _
    (by unfold F64.mag; exact Nat.mod_lt _ (by decide)) (by unfold F64.mag; exact Nat.mod_lt _ (by decide))

theorem key32_lt_iff (x y : BitVec 32) : F32.key x < F32.key y ↔ scaled32 x < scaled32 y := by
  unfold F32.key scaled32
  exact smag_iso mag32 (2 ^ 31) (fun a b h hb => mag32_lt h hb) mag32_zero _ _ _ _
    (by unfold F32.mag; exact Nat.mod_lt _ (by decide)) (by unfold F32.mag; exact Nat.mod_lt _ (by decide))

/-- `cmp.Compare` on two float64 is the order of the exact values (NaN first) -/
theorem cmpF64_num (x y : BitVec 64) :
    cmpF64 x y = cmpInt (numOrd (.flt (F64.isNaN x) (scaled64 x))) (numOrd (.flt (F64.isNaN y) (scaled64 y))) := by
  have gx := scaled64_gt x
  have gy := scaled64_gt y
  unfold cmpF64 numOrd F64.lt
  cases hx : F64.isNaN x <;> cases hy : F64.isNaN y <;> simp only [Bool.false_eq_true, if_false, if_true, Bool.not_false, Bool.true_and, decide_eq_true_eq]
  · unfold cmpInt; simp only [key64_lt_iff]
  · unfold cmpInt; rw [if_neg (by omega), if_pos gx]
  · unfold cmpInt; rw [if_pos gy]
  · unfold cmpInt; simp

theorem cmpF32_num (x y : BitVec 32) :
    cmpF32 x y = cmpInt (numOrd (.flt (F32.isNaN x) (scaled32 x))) (numOrd (.flt (F32.isNaN y) (scaled32 y))) := by
  have gx := scaled32_gt x
  have gy := scaled32_gt y
  unfold cmpF32 numOrd F32.lt
  cases hx : F32.isNaN x <;> cases hy : F32.isNaN y <;> simp only [Bool.false_eq_true, if_false, if_true, Bool.not_false, Bool.true_and, decide_eq_true_eq]
  · unfold cmpInt; simp only [key32_lt_iff]
  · unfold cmpInt; rw [if_neg (by omega), if_pos gx]
  · unfold cmpInt; rw [if_pos gy]
  · unfold cmpInt; simp

/-! ### CompareAny = class, then numeric order, then string key -/

/-- the key `CompareAny` orders numbers by (0 for everything else) -/
def numKey (v : Val) : Int := match numOf v with | some x => numOrd x | none => 0

/-- numbers form one class (they sit between `Bool` and the containers in `reflect.Kind` order);
everything else is its `reflect.Kind` -/
def classOf (v : Val) : Nat := match numOf v with | some _ => 2 | none => kindOf v

def strKey : Val → Bytes
  | .str s => s
  | _ => []

def cmpClass (a b : Val) : Int := cmpInt (classOf a) (classOf b)
def cmpNum (a b : Val) : Int := cmpInt (numKey a) (numKey b)
def cmpStrKey (a b : Val) : Int := cmpStr (strKey a) (strKey b)

theorem kind_int (w : Nat) (v : BitVec 64) : 3 ≤ kindOf (.int w v) ∧ kindOf (.int w v) ≤ 6 := by
  by_cases h1 : w = 8 <;> by_cases h2 : w = 16 <;> by_cases h3 : w = 32 <;> simp [kindOf, h1, h2, h3]

theorem kind_uint (w : Nat) (v : BitVec 64) : 8 ≤ kindOf (.uint w v) ∧ kindOf (.uint w v) ≤ 11 := by
  by_cases h1 : w = 8 <;> by_cases h2 : w = 16 <;> by_cases h3 : w = 32 <;> simp [kindOf, h1, h2, h3]

theorem cmpStr_nil : cmpStr [] [] = 0 := by decide

/-- two numbers of different kinds go through `compareNumbers` -/
theorem cmpAny_of_kind_ne {a b : Val} {x y : Num} (hk : kindOf a ≠ kindOf b) (ha : numOf a = some x) (hb : numOf b = some y) :
    cmpAny a b = cmpNumbers x y := by
  unfold cmpAny
  simp only [hk, ne_eq, not_false_eq_true, if_true, ha, hb]

/-- on numbers `CompareAny` is the numeric order, whatever the kinds -/
theorem cmpAny_num {a b : Val} {x y : Num} (ha : numOf a = some x) (hb : numOf b = some y) :
    cmpAny a b = cmpInt (numOrd x) (numOrd y) := by
  by_cases hk : kindOf a = kindOf b
  · cases a <;> simp only [numOf, Option.some.injEq, reduceCtorEq] at ha <;>
      cases b <;> simp only [numOf, Option.some.injEq, reduceCtorEq] at hb <;> subst ha <;> subst hb
    · rename_i w v w' v'
      have h1 := kind_int w v
      unfold cmpAny; simp only [hk, ne_eq, not_true_eq_false, if_false]
      rw [← hk, if_pos (by omega)]
      simp only [asInt, numOrd]; exact (cmpInt_mul _ _).symm
    · rename_i w v w' v'
      have := kind_int w v; have := kind_uint w' v'; omega
    · rename_i w v x'
      have := kind_int w v; have h13 : ∀ z, kindOf (Val.f32 z) = 13 := fun _ => rfl; have h14 : ∀ z, kindOf (Val.f64 z) = 14 := fun _ => rfl; simp only [h13, h14] at hk; omega
    · rename_i w v x'
      have := kind_int w v; have h13 : ∀ z, kindOf (Val.f32 z) = 13 := fun _ => rfl; have h14 : ∀ z, kindOf (Val.f64 z) = 14 := fun _ => rfl; simp only [h13, h14] at hk; omega
    · rename_i w v w' v'
      have := kind_uint w v; have := kind_int w' v'; omega
    · rename_i w v w' v'
      have h1 := kind_uint w v
      unfold cmpAny; simp only [hk, ne_eq, not_true_eq_false, if_false]
      rw [← hk, if_neg (by omega), if_pos (by omega)]
      simp only [asUint, numOrd]; exact (cmpInt_mul _ _).symm
    · rename_i w v x'
      have := kind_uint w v; have h13 : ∀ z, kindOf (Val.f32 z) = 13 := fun _ => rfl; have h14 : ∀ z, kindOf (Val.f64 z) = 14 := fun _ => rfl; simp only [h13, h14] at hk; omega
    · rename_i w v x'
      have := kind_uint w v; have h13 : ∀ z, kindOf (Val.f32 z) = 13 := fun _ => rfl; have h14 : ∀ z, kindOf (Val.f64 z) = 14 := fun _ => rfl; simp only [h13, h14] at hk; omega
    · rename_i x' w v
      have := kind_int w v; have h13 : ∀ z, kindOf (Val.f32 z) = 13 := fun _ => rfl; have h14 : ∀ z, kindOf (Val.f64 z) = 14 := fun _ => rfl; simp only [h13, h14] at hk; omega
    · rename_i x' w v
      have := kind_uint w v; have h13 : ∀ z, kindOf (Val.f32 z) = 13 := fun _ => rfl; have h14 : ∀ z, kindOf (Val.f64 z) = 14 := fun _ => rfl; simp only [h13, h14] at hk; omega
    · rename_i x' y'
      simp [cmpAny, kindOf, asF32]; exact cmpF32_num _ _
    · simp [kindOf] at hk
    · rename_i x' w v
      have := kind_int w v; have h13 : ∀ z, kindOf (Val.f32 z) = 13 := fun _ => rfl; have h14 : ∀ z, kindOf (Val.f64 z) = 14 := fun _ => rfl; simp only [h13, h14] at hk; omega
    · rename_i x' w v
      have := kind_uint w v; have h13 : ∀ z, kindOf (Val.f32 z) = 13 := fun _ => rfl; have h14 : ∀ z, kindOf (Val.f64 z) = 14 := fun _ => rfl; simp only [h13, h14] at hk; omega
    · simp [kindOf] at hk
    · rename_i x' y'
      simp [cmpAny, kindOf, asF64]; exact cmpF64_num _ _
  · rw [cmpAny_of_kind_ne hk ha hb]
    exact cmpNumbers_eq x y (numOf_wf ha) (numOf_wf hb)

theorem num_kind {a : Val} {x : Num} (h : numOf a = some x) : 3 ≤ kindOf a ∧ kindOf a ≤ 14 ∧ strKey a = [] := by
  cases a <;> simp only [numOf, reduceCtorEq] at h
  · rename_i w v; have := kind_int w v; exact ⟨by omega, by omega, rfl⟩
  · rename_i w v; have := kind_uint w v; exact ⟨by omega, by omega, rfl⟩
  · simp [kindOf, strKey]
  · simp [kindOf, strKey]

theorem nonnum_kind {a : Val} (h : numOf a = none) :
    (kindOf a ≤ 1 ∨ 21 ≤ kindOf a) ∧ (kindOf a = 24 → strKey a = asStr a) ∧ (kindOf a ≠ 24 → strKey a = []) := by
  cases a <;> simp [numOf] at h <;> simp [kindOf, strKey, asStr]

theorem cmpAny_eq_lex (a b : Val) : cmpAny a b = lex cmpClass (lex cmpNum cmpStrKey) a b := by
  have hnn : cmpInt 0 0 = 0 := by decide
  cases hna : numOf a with
  | some x =>
    cases hnb : numOf b with
    | some y =>
      obtain ⟨_, _, sa⟩ := num_kind hna
      obtain ⟨_, _, sb⟩ := num_kind hnb
      rw [cmpAny_num hna hnb]
      have h0 : cmpClass a b = 0 := by unfold cmpClass classOf; rw [hna, hnb]; exact (by decide : cmpInt ((2 : Nat) : Int) ((2 : Nat) : Int) = 0)
      unfold lex; rw [if_neg (by simpa using h0)]
      unfold cmpNum cmpStrKey numKey; rw [hna, hnb, sa, sb, cmpStr_nil]
      simp only
      split <;> simp_all
    | none =>
      obtain ⟨ka1, ka2, _⟩ := num_kind hna
      obtain ⟨kb, _, _⟩ := nonnum_kind hnb
      have hk : kindOf a ≠ kindOf b := by omega
      have h1 : cmpAny a b = cmpInt (kindOf a) (kindOf b) := by
        unfold cmpAny; simp only [hk, ne_eq, not_false_eq_true, if_true, hna, hnb]
      have h2 : cmpClass a b = cmpInt (kindOf a) (kindOf b) := by
        unfold cmpClass classOf; rw [hna, hnb]; simp only
        unfold cmpInt
        rcases kb with kb | kb
        · rw [if_neg (by omega), if_pos (by omega), if_neg (by omega), if_pos (by omega)]
        · rw [if_pos (by omega), if_pos (by omega)]
      have h3 : cmpClass a b ≠ 0 := by rw [h2, Ne, cmpInt_eq_zero]; omega
      unfold lex; rw [if_pos h3, h1, h2]
  | none =>
    cases hnb : numOf b with
    | some y =>
      obtain ⟨kb1, kb2, _⟩ := num_kind hnb
      obtain ⟨ka, _, _⟩ := nonnum_kind hna
      have hk : kindOf a ≠ kindOf b := by omega
      have h1 : cmpAny a b = cmpInt (kindOf a) (kindOf b) := by
        unfold cmpAny; simp only [hk, ne_eq, not_false_eq_true, if_true, hna, hnb]
      have h2 : cmpClass a b = cmpInt (kindOf a) (kindOf b) := by
        unfold cmpClass classOf; rw [hna, hnb]; simp only
        unfold cmpInt
        rcases ka with ka | ka
        · rw [if_pos (by omega), if_pos (by omega)]
        · rw [if_neg (by omega), if_pos (by omega), if_neg (by omega), if_pos (by omega)]
      have h3 : cmpClass a b ≠ 0 := by rw [h2, Ne, cmpInt_eq_zero]; omega
      unfold lex; rw [if_pos h3, h1, h2]
    | none =>
      obtain ⟨ka, sa1, sa2⟩ := nonnum_kind hna
      obtain ⟨kb, sb1, sb2⟩ := nonnum_kind hnb
      have hc : cmpClass a b = cmpInt (kindOf a) (kindOf b) := by unfold cmpClass classOf; rw [hna, hnb]
      have hn : cmpNum a b = 0 := by unfold cmpNum numKey; rw [hna, hnb]; exact hnn
      by_cases hk : kindOf a = kindOf b
      · have h0 : cmpClass a b = 0 := by rw [hc]; exact (cmpInt_eq_zero _ _).mpr (by rw [hk])
        unfold lex; rw [if_neg (by simpa using h0), if_neg (by simpa using hn)]
        unfold cmpAny
        simp only [hk, ne_eq, not_true_eq_false, if_false]
        rw [if_neg (by omega), if_neg (by omega), if_neg (by omega), if_neg (by omega)]
        unfold cmpStrKey
        by_cases h24 : kindOf b = 24
        · rw [if_pos h24, sa1 (by omega), sb1 h24]
        · rw [if_neg h24, sa2 (by omega), sb2 h24, cmpStr_nil]
      · have h3 : cmpClass a b ≠ 0 := by rw [hc, Ne, cmpInt_eq_zero]; omega
        unfold lex; rw [if_pos h3, hc]
        unfold cmpAny; simp only [hk, ne_eq, not_false_eq_true, if_true, hna, hnb]

theorem tpc_cmpAny : TPC cmpAny := by
  have h : TPC (lex cmpClass (lex cmpNum cmpStrKey)) :=
    tpc_lex (tpc_of_key (fun v => (classOf v : Int)))
      (tpc_lex (tpc_of_key numKey) ⟨fun a b => tpc_cmpStr.antisymm _ _, fun a b d => tpc_cmpStr.trans _ _ _⟩)
  constructor
  · intro a b; rw [cmpAny_eq_lex, cmpAny_eq_lex]; exact h.antisymm a b
  · intro a b d; rw [cmpAny_eq_lex, cmpAny_eq_lex, cmpAny_eq_lex]; exact h.trans a b d

/-! ### the sort comparator -/

theorem tpc_flip {α : Type} {c : α → α → Int} (h : TPC c) : TPC (fun a b => c b a) :=
  ⟨fun a b => h.antisymm b a, fun a b d h1 h2 => h.trans d b a h2 h1⟩

theorem tpc_keyCmp (o : SortOpt) : TPC (keyCmp o) := by
  have hc : TPC (fun x y : Val => if o.desc then cmpAny y x else cmpAny x y) := by
    by_cases hd : o.desc
    · simpa [hd] using tpc_flip tpc_cmpAny
    · simpa [hd] using tpc_cmpAny
  constructor
  · intro a b
    unfold keyCmp
    cases access a o.path <;> cases access b o.path <;> simp
    exact hc.antisymm _ _
  · intro a b d
    unfold keyCmp
    cases ha : access a o.path <;> cases hb : access b o.path <;> cases hd : access d o.path <;> simp
    exact hc.trans _ _ _

theorem tpc_zero {α : Type} : TPC (fun (_ _ : α) => (0 : Int)) := ⟨fun _ _ => rfl, fun _ _ _ _ _ => Int.le_refl 0⟩

theorem sortCmp_cons (o : SortOpt) (rest : List SortOpt) : sortCmp (o :: rest) = lex (keyCmp o) (sortCmp rest) := by
  funext a b; simp [sortCmp, lex]

theorem tpc_sortCmp (opts : List SortOpt) : TPC (sortCmp opts) := by
  induction opts with
  | nil => exact ⟨fun _ _ => rfl, fun _ _ _ _ _ => Int.le_refl 0⟩
  | cons o rest ih => rw [sortCmp_cons]; exact tpc_lex (tpc_keyCmp o) ih

/-- insertion into a sorted list -/
def insertBy {α : Type} (c : α → α → Int) (a : α) : List α → List α
  | [] => [a]
  | x :: l => if c a x ≤ 0 then a :: x :: l else x :: insertBy c a l

def isort {α : Type} (c : α → α → Int) (l : List α) : List α := l.foldr (insertBy c) []

theorem insertBy_perm {α : Type} (c : α → α → Int) (a : α) (l : List α) : (insertBy c a l).Perm (a :: l) := by
  induction l with
  | nil => exact List.Perm.refl _
  | cons x l ih =>
    unfold insertBy
    split
    · exact List.Perm.refl _
    · exact (List.Perm.cons x ih).trans (List.Perm.swap a x l)

theorem insertBy_sorted {α : Type} {c : α → α → Int} (h : TPC c) (a : α) (l : List α)
    (hl : l.Pairwise (fun x y => c x y ≤ 0)) : (insertBy c a l).Pairwise (fun x y => c x y ≤ 0) := by
  induction l with
  | nil => simp [insertBy]
  | cons x l ih =>
    unfold insertBy
    rw [List.pairwise_cons] at hl
    split
    · rename_i hax
      rw [List.pairwise_cons]
      refine ⟨?_, List.pairwise_cons.mpr hl⟩
      intro y hy
      rcases List.mem_cons.mp hy with rfl | hy
      · exact hax
      · exact h.trans a x y hax (hl.1 y hy)
    · rename_i hax
      rw [List.pairwise_cons]
      refine ⟨?_, ih hl.2⟩
      intro y hy
      rcases List.mem_cons.mp ((insertBy_perm c a l).mem_iff.mp hy) with rfl | hy
      · have := h.antisymm y x; omega
      · exact hl.1 y hy

theorem isort_perm {α : Type} (c : α → α → Int) (l : List α) : (isort c l).Perm l := by
  induction l with
  | nil => exact List.Perm.refl _
  | cons a l ih => exact (insertBy_perm c a _).trans (List.Perm.cons a ih)

theorem isort_sorted {α : Type} {c : α → α → Int} (h : TPC c) (l : List α) :
    (isort c l).Pairwise (fun x y => c x y ≤ 0) := by
  induction l with
  | nil => simp [isort]
  | cons a l ih => exact insertBy_sorted h a _ ih

/-! ### offset / limit -/

theorem wrap64_id {x : Int} (h1 : -(2 ^ 63) ≤ x) (h2 : x < 2 ^ 63) : wrap64 x = x := by
  unfold wrap64
  rw [Int.emod_eq_of_lt (by omega) (by omega)]; omega

theorem slice_eq {α : Type} (l : List α) (lo hi : Nat) (h1 : lo ≤ hi) (h2 : hi ≤ l.length) :
    goSlice l (lo : Int) (hi : Int) = .ok ((l.drop lo).take (hi - lo)) := by
  unfold goSlice
  rw [if_pos ⟨by omega, by omega, by omega⟩]
  simp [List.drop_take]

theorem take_drop_min {α : Type} (l : List α) (off lim : Nat) :
    (l.drop off).take lim = (l.drop (min off l.length)).take (min (off + lim) l.length - min off l.length) := by
  by_cases h : off ≤ l.length
  · rw [Nat.min_eq_left h]
    by_cases h2 : off + lim ≤ l.length
    · rw [Nat.min_eq_left h2]; congr 1; omega
    · rw [Nat.min_eq_right (by omega)]
      rw [List.take_of_length_le (by simp; omega), List.take_of_length_le (by simp)]
  · rw [Nat.min_eq_right (by omega), Nat.min_eq_right (by omega)]
    simp [List.drop_of_length_le (show l.length ≤ off by omega)]


/-! ### rows keep the order of the back-filled list; a page is a sublist -/

theorem mapExcept_map {α β γ : Type} (f : α → Except Unit β) (ka : α → γ) (kb : β → γ)
    (hf : ∀ a b, f a = .ok b → kb b = ka a) (l : List α) (bs : List β) (h : mapExcept f l = .ok bs) :
    bs.map kb = l.map ka := by
  induction l generalizing bs with
  | nil => simp only [mapExcept, Except.ok.injEq] at h; subst h; rfl
  | cons a l ih =>
    simp only [mapExcept] at h
    cases hfa : f a with
    | error e => simp [hfa] at h
    | ok b =>
      simp only [hfa] at h
      cases hm : mapExcept f l with
      | error e => simp [hm] at h
      | ok bs' =>
        simp only [hm, Except.ok.injEq] at h
        subst h
        simp [hf a b hfa, ih bs' hm]

theorem mapExcept_mem {α β : Type} (f : α → Except Unit β) (l : List α) (bs : List β) (h : mapExcept f l = .ok bs) :
    ∀ b ∈ bs, ∃ a ∈ l, f a = .ok b := by
  induction l generalizing bs with
  | nil => simp only [mapExcept, Except.ok.injEq] at h; subst h; simp
  | cons a l ih =>
    simp only [mapExcept] at h
    cases hfa : f a with
    | error e => simp [hfa] at h
    | ok b0 =>
      simp only [hfa] at h
      cases hm : mapExcept f l with
      | error e => simp [hm] at h
      | ok bs' =>
        simp only [hm, Except.ok.injEq] at h
        subst h
        intro b hb
        rcases List.mem_cons.mp hb with rfl | hb
        · exact ⟨a, by simp, hfa⟩
        · obtain ⟨a', ha', hfa'⟩ := ih bs' hm b hb
          exact ⟨a', List.mem_cons_of_mem _ ha', hfa'⟩

theorem mapExcept_pairwise {α β γ : Type} (f : α → Except Unit β) (ka : α → γ) (kb : β → γ) (R : γ → γ → Prop)
    (hf : ∀ a b, f a = .ok b → kb b = ka a) (l : List α) (bs : List β) (h : mapExcept f l = .ok bs)
    (hl : l.Pairwise (fun x y => R (ka x) (ka y))) : bs.Pairwise (fun x y => R (kb x) (kb y)) := by
  have := mapExcept_map f ka kb hf l bs h
  rw [← List.pairwise_map (f := kb) (R := R), this, List.pairwise_map]
  exact hl

theorem goSlice_sublist {α : Type} (l : List α) (lo hi : Int) (q : List α) (h : goSlice l lo hi = .ok q) : q.Sublist l := by
  unfold goSlice at h
  split at h
  · simp only [Except.ok.injEq] at h; subst h
    exact (List.drop_sublist _ _).trans (List.take_sublist _ _)
  · cases h

/-- the insertion sort is stable, in particular the identity on a list that is in order already -/
theorem isort_id_of_sorted {α : Type} (c : α → α → Int) (l : List α) (h : l.Pairwise (fun x y => c x y ≤ 0)) :
    isort c l = l := by
  induction l with
  | nil => rfl
  | cons a l ih =>
    rw [List.pairwise_cons] at h
    show insertBy c a (isort c l) = a :: l
    rw [ih h.2]
    cases l with
    | nil => rfl
    | cons x l' => simp only [insertBy]; rw [if_pos (h.1 x (by simp))]

/-! ### select: documents as trees, paths -/

theorem lookup_put (d : Doc) (k k' : String) (v : Val) :
    lookup (put d k v) k' = if k = k' then some v else lookup d k' := by
  induction d with
  | nil => simp [put, lookup]
  | cons e rest ih =>
    obtain ⟨a, b⟩ := e
    by_cases h : a = k
    · subst h; simp only [put, if_true, lookup]
      by_cases h2 : a = k' <;> simp [h2]
    · simp only [put, h, if_false, lookup, ih]
      by_cases h2 : a = k'
      · subst h2; simp [Ne.symm h]
      · simp [h2]

theorem put_self {d : Doc} {k : String} {v : Val} (h : lookup d k = some v) : put d k v = d := by
  induction d with
  | nil => simp [lookup] at h
  | cons e rest ih =>
    obtain ⟨a, b⟩ := e
    by_cases h2 : a = k
    · subst h2; simp only [lookup, if_true, Option.some.injEq] at h; subst h; simp [put]
    · simp only [lookup, h2, if_false] at h
      simp [put, h2, ih h]

theorem accessVal_map_cons (m : Doc) (k : String) (rest : List String) :
    accessVal (.map m) (k :: rest) = (lookup m k).bind (fun v => accessVal v rest) := by
  simp only [accessVal]; cases lookup m k <;> rfl

theorem accessVal_append (v : Val) (p r : List String) :
    accessVal v (p ++ r) = (accessVal v p).bind (fun u => accessVal u r) := by
  induction p generalizing v with
  | nil => simp [accessVal]
  | cons k rest ih =>
    cases v with
    | map m =>
      simp only [List.cons_append, accessVal_map_cons]
      cases lookup m k with
      | none => rfl
      | some u => simp [ih]
    | _ => cases r <;> simp [accessVal]

theorem queryVal_ok_access {v : Val} {p : List String} {u : Val} (h : queryVal v p = .ok (some u)) :
    accessVal v p = some u := by
  induction p generalizing v with
  | nil => simp only [queryVal, Except.ok.injEq, Option.some.injEq] at h; simp [accessVal, h]
  | cons k rest ih =>
    cases v with
    | map m =>
      simp only [queryVal] at h
      rw [accessVal_map_cons]
      cases hl : lookup m k with
      | none => simp [hl] at h
      | some w => simp only [hl] at h; simp [ih h]
    | _ => simp [queryVal] at h

/-- a successful walk of `AccessNestedProperty` is also a successful `Query` -/
theorem access_ok_query {v : Val} {p : List String} {u : Val} (h : accessVal v p = some u) :
    queryVal v p = .ok (some u) := by
  induction p generalizing v with
  | nil => simp only [accessVal, Option.some.injEq] at h; simp [queryVal, h]
  | cons k rest ih =>
    cases v with
    | map m =>
      rw [accessVal_map_cons] at h
      simp only [queryVal]
      cases hl : lookup m k with
      | none => simp [hl] at h
      | some w => simp only [hl, Option.bind_some] at h; simp [ih h]
    | _ => simp [accessVal] at h

theorem queryVal_append {v : Val} {p r : List String} {u : Val} (h : queryVal v p = .ok (some u)) :
    queryVal v (p ++ r) = queryVal u r := by
  induction p generalizing v with
  | nil => simp only [queryVal, Except.ok.injEq, Option.some.injEq] at h; simp [h]
  | cons k rest ih =>
    cases v with
    | map m =>
      simp only [queryVal] at h
      simp only [List.cons_append, queryVal]
      cases hl : lookup m k with
      | none => simp [hl] at h
      | some w => simp only [hl] at h; simp [ih h]
    | _ => simp [queryVal] at h

/-- a query that goes on below a value found the value to be a map -/
theorem queryVal_cons_map {v : Val} {k : String} {rest : List String} {u : Val}
    (h : queryVal v (k :: rest) = .ok (some u)) : ∃ m w, v = .map m ∧ lookup m k = some w ∧ queryVal w rest = .ok (some u) := by
  cases v with
  | map m =>
    simp only [queryVal] at h
    cases hl : lookup m k with
    | none => simp [hl] at h
    | some w => simp only [hl] at h; exact ⟨m, w, rfl, hl, h⟩
  | _ => simp [queryVal] at h

def isMap : Val → Prop
  | .map _ => True
  | _ => False

/-- every path present in the rebuilt map is present in the stored document, and what sits there
is either a (rebuilt) map or exactly the stored value -/
def Faithful (acc : Doc) (dv : Val) : Prop :=
  ∀ π x, π ≠ [] → accessVal (.map acc) π = some x → ∃ y, queryVal dv π = .ok (some y) ∧ (isMap x ∨ x = y)

theorem queryVal_prefix {v : Val} {π r : List String} {u : Val} (h : queryVal v (π ++ r) = .ok (some u)) :
    ∃ y, queryVal v π = .ok (some y) := by
  induction π generalizing v with
  | nil => exact ⟨v, rfl⟩
  | cons k rest ih =>
    cases v with
    | map m =>
      simp only [List.cons_append, queryVal] at h ⊢
      cases hl : lookup m k with
      | none => simp [hl] at h
      | some w => simp only [hl] at h ⊢; exact ih h
    | _ => simp [queryVal] at h

theorem faithful_nil (dv : Val) : Faithful [] dv := by
  intro π x hπ h
  cases π with
  | nil => exact absurd rfl hπ
  | cons k rest => simp [accessVal, lookup] at h

theorem faithful_down {acc m : Doc} {dv w : Val} {dm : Doc} {s : String} (hf : Faithful acc dv)
    (hdv : dv = .map dm) (hw : lookup dm s = some w) (hm : lookup acc s = some (.map m)) : Faithful m w := by
  intro π x hπ h
  have h' : accessVal (.map acc) (s :: π) = some x := by rw [accessVal_map_cons, hm]; exact h
  obtain ⟨y, hq, hx⟩ := hf (s :: π) x (by simp) h'
  exact ⟨y, by subst hdv; simpa [queryVal, hw] using hq, hx⟩

/-- the rebuild never hits "could not access nested property" for a path the document resolves -/
theorem setNested_ok {acc : Doc} {dv : Val} {p : List String} {v : Val} (hf : Faithful acc dv)
    (hq : queryVal dv p = .ok (some v)) (hp : p ≠ []) : ∃ acc', setNested acc p v = .ok acc' := by
  induction p generalizing acc dv with
  | nil => exact absurd rfl hp
  | cons s rest ih =>
    cases rest with
    | nil => exact ⟨_, rfl⟩
    | cons s2 rest2 =>
      obtain ⟨dm, w, hdv, hw, hq'⟩ := queryVal_cons_map hq
      simp only [setNested]
      cases hl : lookup acc s with
      | none =>
        obtain ⟨m', hm'⟩ := ih (faithful_nil w) hq' (by simp)
        exact ⟨put acc s (.map m'), by simp [hm']⟩
      | some x =>
        have h1 : accessVal (.map acc) [s] = some x := by rw [accessVal_map_cons, hl]; rfl
        have hxmap : isMap x := by
          obtain ⟨y, hqq, hmap | hxy⟩ := hf [s] x (by simp) h1
          · exact hmap
          · subst hdv
            simp only [queryVal, hw, Except.ok.injEq, Option.some.injEq] at hqq
            subst hqq; subst hxy
            obtain ⟨_, _, hmm, _, _⟩ := queryVal_cons_map hq'
            rw [hmm]; trivial
        cases x with
        | map m =>
          obtain ⟨m', hm'⟩ := ih (faithful_down hf hdv hw hl) hq' (by simp)
          exact ⟨put acc s (.map m'), by simp [hm']⟩
        | _ => exact hxmap.elim

/-- what a successful rebuild step leaves at and below the path -/
theorem access_setNested_ext {d d' : Doc} {p : List String} {v : Val} (h : setNested d p v = .ok d') (hp : p ≠ [])
    (r : List String) : accessVal (.map d') (p ++ r) = accessVal v r := by
  induction p generalizing d d' with
  | nil => exact absurd rfl hp
  | cons s rest ih =>
    cases rest with
    | nil =>
      simp only [setNested, Except.ok.injEq] at h
      subst h
      simp [accessVal_map_cons, lookup_put]
    | cons s2 rest2 =>
      simp only [setNested] at h
      cases hl : lookup d s with
      | none =>
        simp only [hl] at h
        cases hm : setNested [] (s2 :: rest2) v with
        | error e => simp [hm] at h
        | ok m' =>
          simp only [hm, Except.ok.injEq] at h
          subst h
          rw [List.cons_append, accessVal_map_cons, lookup_put]
          simp only [if_true, Option.bind_some]
          exact ih hm (by simp)
      | some x =>
        cases x with
        | map m =>
          simp only [hl] at h
          cases hm : setNested m (s2 :: rest2) v with
          | error e => simp [hm] at h
          | ok m' =>
            simp only [hm, Except.ok.injEq] at h
            subst h
            rw [List.cons_append, accessVal_map_cons, lookup_put]
            simp only [if_true, Option.bind_some]
            exact ih hm (by simp)
        | _ => simp [hl] at h

/-- a path that leaves the rebuilt path at some segment sees what it saw before -/
theorem access_setNested_div {d d' : Doc} {c : List String} {x y : String} {π' p' : List String} {v : Val}
    (h : setNested d (c ++ y :: p') v = .ok d') (hxy : x ≠ y) :
    accessVal (.map d') (c ++ x :: π') = accessVal (.map d) (c ++ x :: π') := by
  induction c generalizing d d' with
  | nil =>
    simp only [List.nil_append] at *
    cases p' with
    | nil =>
      simp only [setNested, Except.ok.injEq] at h
      subst h
      simp [accessVal_map_cons, lookup_put, Ne.symm hxy]
    | cons s2 rest2 =>
      simp only [setNested] at h
      cases hl : lookup d y with
      | none =>
        simp only [hl] at h
        cases hm : setNested [] (s2 :: rest2) v with
        | error e => simp [hm] at h
        | ok m' =>
          simp only [hm, Except.ok.injEq] at h
          subst h
          simp [accessVal_map_cons, lookup_put, Ne.symm hxy]
      | some z =>
        cases z with
        | map m =>
          simp only [hl] at h
          cases hm : setNested m (s2 :: rest2) v with
          | error e => simp [hm] at h
          | ok m' =>
            simp only [hm, Except.ok.injEq] at h
            subst h
            simp [accessVal_map_cons, lookup_put, Ne.symm hxy]
        | _ => simp [hl] at h
  | cons s c' ih =>
    have hne : c' ++ y :: p' ≠ [] := by simp
    obtain ⟨s2, rest2, hrest⟩ : ∃ s2 rest2, c' ++ y :: p' = s2 :: rest2 := by
      cases hc : c' ++ y :: p' with
      | nil => exact absurd hc hne
      | cons a b => exact ⟨a, b, rfl⟩
    simp only [List.cons_append, hrest, setNested] at h
    simp only [List.cons_append, accessVal_map_cons]
    cases hl : lookup d s with
    | none =>
      simp only [hl] at h
      cases hm : setNested [] (s2 :: rest2) v with
      | error e => simp [hm] at h
      | ok m' =>
        simp only [hm, Except.ok.injEq] at h
        subst h
        simp only [lookup_put, if_true, Option.bind_some, Option.bind_none]
        rw [← hrest] at hm
        rw [ih hm]
        cases hc' : c' ++ x :: π' with
        | nil => simp at hc'
        | cons a b => simp [accessVal, lookup]
    | some z =>
      cases z with
      | map m =>
        simp only [hl] at h
        cases hm : setNested m (s2 :: rest2) v with
        | error e => simp [hm] at h
        | ok m' =>
          simp only [hm, Except.ok.injEq] at h
          subst h
          simp only [lookup_put, if_true, Option.bind_some]
          rw [← hrest] at hm
          exact ih hm
      | _ => simp [hl] at h

/-- a strict prefix of the rebuilt path holds a map: the one that was there, rebuilt below -/
theorem access_setNested_pre {d d' : Doc} {π r : List String} {v : Val}
    (h : setNested d (π ++ r) v = .ok d') (hπ : π ≠ []) (hr : r ≠ []) :
    ∃ m', accessVal (.map d') π = some (.map m') ∧
      ∀ m, accessVal (.map d) π = some (.map m) → setNested m r v = .ok m' := by
  induction π generalizing d d' with
  | nil => exact absurd rfl hπ
  | cons s π' ih =>
    obtain ⟨s2, rest2, hrest⟩ : ∃ s2 rest2, π' ++ r = s2 :: rest2 := by
      cases hc : π' ++ r with
      | nil => simp at hc; exact absurd hc.2 hr
      | cons a b => exact ⟨a, b, rfl⟩
    simp only [List.cons_append, hrest, setNested] at h
    cases hl : lookup d s with
    | none =>
      simp only [hl] at h
      cases hm : setNested [] (s2 :: rest2) v with
      | error e => simp [hm] at h
      | ok m' =>
        simp only [hm, Except.ok.injEq] at h
        subst h
        rw [← hrest] at hm
        cases π' with
        | nil =>
          refine ⟨m', by simp [accessVal_map_cons, lookup_put, accessVal], ?_⟩
          intro m hmm
          simp [accessVal_map_cons, hl] at hmm
        | cons a b =>
          obtain ⟨m'', h1, _⟩ := ih hm (by simp)
          refine ⟨m'', by simpa [accessVal_map_cons, lookup_put] using h1, ?_⟩
          intro m hmm
          simp [accessVal_map_cons, hl] at hmm
    | some z =>
      cases z with
      | map m0 =>
        simp only [hl] at h
        cases hm : setNested m0 (s2 :: rest2) v with
        | error e => simp [hm] at h
        | ok m' =>
          simp only [hm, Except.ok.injEq] at h
          subst h
          rw [← hrest] at hm
          cases π' with
          | nil =>
            refine ⟨m', by simp [accessVal_map_cons, lookup_put, accessVal], ?_⟩
            intro m hmm
            simp only [accessVal_map_cons, hl, Option.bind_some, accessVal, Option.some.injEq, Val.map.injEq] at hmm
            subst hmm
            simpa using hm
          | cons a b =>
            obtain ⟨m'', h1, h2⟩ := ih hm (by simp)
            refine ⟨m'', by simpa [accessVal_map_cons, lookup_put] using h1, ?_⟩
            intro m hmm
            apply h2
            simpa [accessVal_map_cons, hl] using hmm
      | _ => simp [hl] at h

/-- re-setting a path to the value the map already has there changes nothing -/
theorem setNested_self {m : Doc} {r : List String} {v : Val} (h : queryVal (.map m) r = .ok (some v)) (hr : r ≠ []) :
    setNested m r v = .ok m := by
  induction r generalizing m with
  | nil => exact absurd rfl hr
  | cons s rest ih =>
    obtain ⟨dm, w, hdv, hw, hq'⟩ := queryVal_cons_map h
    cases hdv
    cases rest with
    | nil =>
      simp only [queryVal, Except.ok.injEq, Option.some.injEq] at hq'
      subst hq'
      simp [setNested, put_self hw]
    | cons s2 rest2 =>
      obtain ⟨m2, w2, hw2, _, _⟩ := queryVal_cons_map hq'
      subst hw2
      simp only [setNested, hw]
      rw [ih hq' (by simp)]
      simp [put_self hw]

/-- two non-empty paths: one extends the other, or they part at some segment -/
theorem path_cases (p π : List String) :
    (∃ r, π = p ++ r) ∨ (∃ r, r ≠ [] ∧ p = π ++ r) ∨
    (∃ c x y π' p', x ≠ y ∧ π = c ++ x :: π' ∧ p = c ++ y :: p') := by
  induction p generalizing π with
  | nil => exact Or.inl ⟨π, rfl⟩
  | cons a p ih =>
    cases π with
    | nil => exact Or.inr (Or.inl ⟨a :: p, by simp, rfl⟩)
    | cons b π =>
      by_cases hab : a = b
      · subst hab
        rcases ih π with ⟨r, rfl⟩ | ⟨r, hr, rfl⟩ | ⟨c, x, y, π', p', hxy, rfl, rfl⟩
        · exact Or.inl ⟨r, rfl⟩
        · exact Or.inr (Or.inl ⟨r, hr, rfl⟩)
        · exact Or.inr (Or.inr ⟨a :: c, x, y, π', p', hxy, rfl, rfl⟩)
      · exact Or.inr (Or.inr ⟨[], b, a, π, p, Ne.symm hab, rfl, rfl⟩)

/-- the invariant of the select loop over one point -/
structure SelInv (d : Doc) (done : List (List String)) (acc : Doc) : Prop where
  faithful : Faithful acc (.map d)
  selected : ∀ q ∈ done, ∀ u, queryVal (.map d) q = .ok (some u) → access acc q = some u

theorem selInv_step {d : Doc} {done : List (List String)} {acc acc' : Doc} {p : List String} {v : Val}
    (hi : SelInv d done acc) (hp : p ≠ []) (hq : queryVal (.map d) p = .ok (some v))
    (hs : setNested acc p v = .ok acc') : SelInv d (p :: done) acc' := by
  constructor
  · intro π x hπ hx
    rcases path_cases p π with ⟨r, rfl⟩ | ⟨r, hr, rfl⟩ | ⟨c, a, b, π', p', hab, rfl, rfl⟩
    · rw [access_setNested_ext hs hp] at hx
      exact ⟨x, by rw [queryVal_append hq]; exact access_ok_query hx, Or.inr rfl⟩
    · obtain ⟨m', hm', _⟩ := access_setNested_pre hs hπ hr
      rw [hm'] at hx; cases hx
      obtain ⟨y, hy⟩ := queryVal_prefix hq
      exact ⟨y, hy, Or.inl trivial⟩
    · rw [access_setNested_div hs hab] at hx
      exact hi.faithful _ x hπ hx
  · intro q hqm u hu
    unfold access
    rcases List.mem_cons.mp hqm with rfl | hqm
    · have := access_setNested_ext hs hp []
      simp only [List.append_nil, accessVal] at this
      rw [this]; rw [hq] at hu; cases hu; rfl
    · have hold := hi.selected q hqm u hu
      unfold access at hold
      rcases path_cases p q with ⟨r, rfl⟩ | ⟨r, hr, rfl⟩ | ⟨c, a, b, π', p', hab, rfl, rfl⟩
      · rw [access_setNested_ext hs hp]
        rw [queryVal_append hq] at hu
        exact queryVal_ok_access hu
      · -- q is a strict prefix of p: the map at q is rebuilt with the value it already has
        by_cases hq0 : q = []
        · subst hq0
          simp only [queryVal, Except.ok.injEq, Option.some.injEq] at hu
          simp [accessVal] at hold
          -- the empty path is never selected with a value different from the whole map; not needed:
          subst hu
          simp only [accessVal, Option.some.injEq, Val.map.injEq] at hold
          subst hold
          simp only [List.nil_append] at hs hq
          rw [setNested_self hq hr] at hs
          cases hs; rfl
        · obtain ⟨m', hm', hrebuild⟩ := access_setNested_pre hs hq0 hr
          have hqr : queryVal u r = .ok (some v) := by rw [← queryVal_append hu]; exact hq
          obtain ⟨s, rest, hsr⟩ : ∃ s rest, r = s :: rest := by
            cases r with
            | nil => exact absurd rfl hr
            | cons s rest => exact ⟨s, rest, rfl⟩
          obtain ⟨mu, _, hmu, _, _⟩ := queryVal_cons_map (hsr ▸ hqr)
          subst hmu
          have := hrebuild mu hold
          rw [setNested_self hqr hr] at this
          cases this
          exact hm'
      · rw [access_setNested_div hs hab]; exact hold

theorem lookup_overlay (acc d : Doc) (k : String) (hn : (d.map (·.1)).Nodup) :
    lookup (overlay acc d) k = match lookup d k with | some v => some v | none => lookup acc k := by
  unfold overlay
  induction d generalizing acc with
  | nil => simp [lookup]
  | cons e rest ih =>
    obtain ⟨a, b⟩ := e
    simp only [List.map_cons, List.nodup_cons] at hn
    simp only [List.foldl_cons, lookup]
    rw [ih _ hn.2]
    by_cases h : a = k
    · subst h
      have hnone : lookup rest a = none := by
        clear ih
        induction rest with
        | nil => rfl
        | cons e2 r2 ih2 =>
          obtain ⟨a2, b2⟩ := e2
          simp only [List.map_cons, List.mem_cons, not_or, List.nodup_cons] at hn
          simp only [lookup, Ne.symm hn.1.1, if_false]
          exact ih2 ⟨hn.1.2, hn.2.2⟩
      simp [hnone, lookup_put]
    · simp only [h, if_false]
      cases lookup rest k with
      | some v => rfl
      | none => simp [lookup_put, h]

/-! ### merge -/

theorem mem_dedup (l : List Id) (a : Id) : a ∈ dedup l ↔ a ∈ l := by
  induction l with
  | nil => simp [dedup]
  | cons b rest ih =>
    simp only [dedup]
    by_cases h : b ∈ dedup rest
    · simp only [h, if_true, ih, List.mem_cons]
      constructor
      · exact Or.inr
      · rintro (rfl | h2)
        · exact ih.mp h
        · exact h2
    · simp [h, ih]

theorem nodup_dedup (l : List Id) : (dedup l).Nodup := by
  induction l with
  | nil => simp [dedup]
  | cons b rest ih =>
    simp only [dedup]
    by_cases h : b ∈ dedup rest
    · simpa [h] using ih
    · simp [h, ih]

theorem mem_interAll (sets : List (List Id)) (id : Id) :
    id ∈ interAll sets ↔ sets ≠ [] ∧ ∀ s ∈ sets, id ∈ s := by
  cases sets with
  | nil => simp [interAll]
  | cons s rest => simp [interAll, List.mem_filter, List.all_eq_true, mem_dedup]

theorem nodup_interAll (sets : List (List Id)) : (interAll sets).Nodup := by
  cases sets with
  | nil => simp [interAll]
  | cons s rest => exact (nodup_dedup s).filter _

theorem mem_unionAll (sets : List (List Id)) (id : Id) : id ∈ unionAll sets ↔ ∃ s ∈ sets, id ∈ s := by
  simp [unionAll, mem_dedup, List.mem_flatten]

section Merge
variable {S : Type}

def accum (add : S → S → S) (o : Option S) (c : S) : Option S :=
  some (match o with | some h => add h c | none => c)

theorem ids_mergeStep (add : S → S → S) (acc : List (Res S)) (r : Res S) :
    (mergeStep add acc r).map (·.id) = if acc.any (fun x => x.id == r.id) then acc.map (·.id) else acc.map (·.id) ++ [r.id] := by
  unfold mergeStep
  split
  · simp only [List.map_map]
    apply List.map_congr_left
    intro x _
    simp only [Function.comp]
    split <;> rfl
  · simp

theorem hybridOf_mergeStep (add : S → S → S) (acc : List (Res S)) (r : Res S) (id : Id) :
    hybridOf (mergeStep add acc r) id = if r.id = id then accum add (hybridOf acc id) r.hybrid else hybridOf acc id := by
  unfold mergeStep
  by_cases hany : acc.any (fun x => x.id == r.id) = true
  · simp only [hany, if_true]
    generalize hfdef : (fun x : Res S => if (x.id == r.id) = true then ({ x with hybrid := add x.hybrid r.hybrid } : Res S) else x) = f
    have hf : ∀ x, (f x).id = x.id := by intro x; subst hfdef; simp only; split <;> rfl
    have hcomp : ((fun x : Res S => x.id == id) ∘ f) = (fun x => x.id == id) := by
      funext x; simp [Function.comp, hf]
    unfold hybridOf
    rw [List.find?_map, hcomp]
    cases hfind : acc.find? (fun x => x.id == id) with
    | none =>
      have : r.id ≠ id := by
        intro h; subst h
        obtain ⟨y, hy, hyr⟩ := List.any_eq_true.mp hany
        rw [List.find?_eq_none] at hfind
        exact hfind y hy hyr
      simp [this]
    | some x =>
      have hx : x.id = id := by simpa using List.find?_some hfind
      by_cases hid : r.id = id
      · subst hfdef; simp [hid, hx, accum]
      · have : ¬ x.id = r.id := by rw [hx]; exact Ne.symm hid
        subst hfdef; simp [hid, this]
  · unfold hybridOf
    simp only [hany, Bool.false_eq_true, if_false, List.find?_append]
    have hnone : ∀ y ∈ acc, ¬ y.id = r.id := by
      intro y hy hc
      exact hany (List.any_eq_true.mpr ⟨y, hy, by simpa using hc⟩)
    by_cases hid : r.id = id
    · subst hid
      have : acc.find? (fun x => x.id == r.id) = none := by
        rw [List.find?_eq_none]; intro y hy; simpa using hnone y hy
      simp [this, accum]
    · simp only [hid, if_false]
      cases hf : acc.find? (fun x => x.id == id) with
      | some y => simp
      | none => simp [hid]

theorem foldl_accum_some (add : S → S → S) (cs : List S) (h : S) :
    cs.foldl (accum add) (some h) = some (cs.foldl add h) := by
  induction cs generalizing h with
  | nil => rfl
  | cons c rest ih => simp only [List.foldl_cons, accum]; exact ih _

theorem hybridOf_foldl (add : S → S → S) (rs acc : List (Res S)) (id : Id) :
    hybridOf (rs.foldl (mergeStep add) acc) id = (contribs rs id).foldl (accum add) (hybridOf acc id) := by
  induction rs generalizing acc with
  | nil => simp [contribs]
  | cons r rest ih =>
    simp only [List.foldl_cons, ih, hybridOf_mergeStep, contribs, List.filter_cons]
    by_cases h : r.id = id
    · simp [h]
    · have : (r.id == id) = false := by simpa using h
      simp [h, this]

theorem hybridOf_merge (add : S → S → S) (rs : List (Res S)) (id : Id) :
    hybridOf (rs.foldl (mergeStep add) []) id = sumLeft add (contribs rs id) := by
  rw [hybridOf_foldl]
  cases hc : contribs rs id with
  | nil => simp [hybridOf, sumLeft]
  | cons c cs => simp only [List.foldl_cons, hybridOf, List.find?_nil, Option.map_none, accum, sumLeft]; exact foldl_accum_some add cs c

theorem ids_foldl (add : S → S → S) (rs acc : List (Res S)) (hn : (acc.map (·.id)).Nodup) :
    ((rs.foldl (mergeStep add) acc).map (·.id)).Nodup ∧
    ∀ id, id ∈ (rs.foldl (mergeStep add) acc).map (·.id) ↔ id ∈ acc.map (·.id) ∨ id ∈ rs.map (·.id) := by
  induction rs generalizing acc with
  | nil => simp [hn]
  | cons r rest ih =>
    have hstep : ((mergeStep add acc r).map (·.id)).Nodup ∧
        ∀ id, id ∈ (mergeStep add acc r).map (·.id) ↔ id ∈ acc.map (·.id) ∨ id = r.id := by
      rw [ids_mergeStep]
      by_cases hany : acc.any (fun x => x.id == r.id) = true
      · simp only [hany, if_true]
        refine ⟨hn, fun id => ⟨Or.inl, ?_⟩⟩
        rintro (h | rfl)
        · exact h
        · obtain ⟨y, hy, hyr⟩ := List.any_eq_true.mp hany
          exact List.mem_map.mpr ⟨y, hy, by simpa using hyr⟩
      · simp only [hany, Bool.false_eq_true, if_false]
        refine ⟨?_, fun id => by simp⟩
        rw [List.nodup_append]
        refine ⟨hn, by simp, ?_⟩
        intro a ha b hb
        simp only [List.mem_singleton] at hb
        subst hb
        intro hab; subst hab
        obtain ⟨y, hy, hyr⟩ := List.mem_map.mp ha
        exact hany (List.any_eq_true.mpr ⟨y, hy, by simpa using hyr⟩)
    obtain ⟨h1, h2⟩ := ih (mergeStep add acc r) hstep.1
    refine ⟨h1, ?_⟩
    intro id
    simp only [List.foldl_cons, h2, hstep.2, List.map_cons, List.mem_cons]
    constructor
    · rintro ((h | h) | h)
      · exact Or.inl h
      · exact Or.inr (Or.inl h)
      · exact Or.inr (Or.inr h)
    · rintro (h | h | h)
      · exact Or.inl (Or.inl h)
      · exact Or.inl (Or.inr h)
      · exact Or.inr h

theorem hybridOf_of_mem {l : List (Res S)} (hn : (l.map (·.id)).Nodup) {r : Res S} (hr : r ∈ l) :
    hybridOf l r.id = some r.hybrid := by
  unfold hybridOf
  induction l with
  | nil => simp at hr
  | cons x rest ih =>
    simp only [List.map_cons, List.nodup_cons] at hn
    simp only [List.find?_cons]
    rcases List.mem_cons.mp hr with rfl | hr
    · simp
    · have : x.id ≠ r.id := by
        intro h; exact hn.1 (h ▸ List.mem_map.mpr ⟨r, hr, rfl⟩)
      have hb : (x.id == r.id) = false := by simpa using this
      simp only [hb]
      exact ih hn.2 hr

theorem hybridOf_perm {l l' : List (Res S)} (hp : l'.Perm l) (hn : (l.map (·.id)).Nodup) (id : Id) :
    hybridOf l' id = hybridOf l id := by
  have hn' : (l'.map (·.id)).Nodup := (hp.map _).nodup_iff.mpr hn
  cases h : l.find? (fun r => r.id == id) with
  | some r =>
    have hr := List.mem_of_find?_eq_some h
    have hid : r.id = id := by simpa using List.find?_some h
    rw [← hid, hybridOf_of_mem hn hr, hybridOf_of_mem hn' (hp.mem_iff.mpr hr)]
  | none =>
    have hnone : l'.find? (fun r => r.id == id) = none := by
      rw [List.find?_eq_none] at *
      intro x hx; exact h x (hp.mem_iff.mp hx)
    simp [hybridOf, h, hnone]

theorem contribs_filter (rs : List (Res S)) (F : List Id) (id : Id) :
    contribs (rs.filter (fun r => decide (r.id ∈ F))) id = if id ∈ F then contribs rs id else [] := by
  unfold contribs
  rw [List.filter_filter]
  by_cases h : id ∈ F
  · simp only [h, if_true]
    congr 1
    apply List.filter_congr
    intro x _
    by_cases hx : x.id = id
    · simp [hx, h]
    · simp [hx]
  · simp only [h, if_false, List.map_eq_nil_iff, List.filter_eq_nil_iff]
    intro x _
    by_cases hx : x.id = id
    · simp [hx, h]
    · simp [hx]

end Merge

/-! ### back-fill -/

theorem insertAsc_perm (a : Id) (l : List Id) : (insertAsc a l).Perm (a :: l) := by
  induction l with
  | nil => exact List.Perm.refl _
  | cons x l ih =>
    unfold insertAsc
    split
    · exact List.Perm.refl _
    · exact (List.Perm.cons x ih).trans (List.Perm.swap a x l)

theorem sortAsc_perm (l : List Id) : (sortAsc l).Perm l := by
  induction l with
  | nil => exact List.Perm.refl _
  | cons a l ih => exact (insertAsc_perm a _).trans (List.Perm.cons a ih)

theorem insertAsc_sorted (a : Id) (l : List Id) (h : l.Pairwise (· ≤ ·)) : (insertAsc a l).Pairwise (· ≤ ·) := by
  induction l with
  | nil => simp [insertAsc]
  | cons x l ih =>
    unfold insertAsc
    rw [List.pairwise_cons] at h
    split
    · rename_i hax
      rw [List.pairwise_cons]
      refine ⟨?_, List.pairwise_cons.mpr h⟩
      intro y hy
      rcases List.mem_cons.mp hy with rfl | hy
      · exact hax
      · exact Nat.le_trans hax (h.1 y hy)
    · rename_i hax
      rw [List.pairwise_cons]
      refine ⟨?_, ih h.2⟩
      intro y hy
      rcases List.mem_cons.mp ((insertAsc_perm a l).mem_iff.mp hy) with rfl | hy
      · exact Nat.le_of_lt (Nat.lt_of_not_le hax)
      · exact h.1 y hy

theorem sortAsc_sorted (l : List Id) : (sortAsc l).Pairwise (· ≤ ·) := by
  induction l with
  | nil => simp [sortAsc]
  | cons a l ih => exact insertAsc_sorted a _ ih

/-! ### the select loop -/

theorem selectDoc_spec (d : Doc) (ps done : List (List String)) (acc : Doc) (hi : SelInv d done acc)
    (hstar : ["*"] ∉ ps) (hok : ∀ p ∈ ps, p ≠ []) :
    ∃ m, selectDoc d ps acc = .ok m ∧ SelInv d (ps.reverse ++ done) m := by
  induction ps generalizing done acc with
  | nil => exact ⟨acc, rfl, by simpa using hi⟩
  | cons p rest ih =>
    have hp : p ≠ ["*"] := fun h => hstar (by simp [h])
    have hpne := hok p (by simp)
    have hrest_star : ["*"] ∉ rest := fun h => hstar (List.mem_cons_of_mem _ h)
    have hrest_ok : ∀ q ∈ rest, q ≠ [] := fun q hq => hok q (List.mem_cons_of_mem _ hq)
    -- a path the document does not resolve (absent, or running into a non-map) leaves `acc` alone
    have hskip : (∀ u, queryVal (.map d) p ≠ .ok (some u)) →
        ∃ m, selectDoc d rest acc = .ok m ∧ SelInv d (rest.reverse ++ (p :: done)) m := by
      intro hno
      have hi' : SelInv d (p :: done) acc := ⟨hi.faithful, fun q hqm u hu => by
        rcases List.mem_cons.mp hqm with rfl | hqm
        · exact absurd hu (hno u)
        · exact hi.selected q hqm u hu⟩
      exact ih (p :: done) acc hi' hrest_star hrest_ok
    simp only [selectDoc, hp, if_false]
    cases hq : queryVal (.map d) p with
    | error e =>
      obtain ⟨m, hm, hinv⟩ := hskip (by rw [hq]; intro u h; cases h)
      exact ⟨m, hm, by simpa using hinv⟩
    | ok o =>
      cases o with
      | none =>
        obtain ⟨m, hm, hinv⟩ := hskip (by rw [hq]; intro u h; cases h)
        exact ⟨m, hm, by simpa using hinv⟩
      | some v =>
        obtain ⟨acc', hs⟩ := setNested_ok hi.faithful hq hpne
        simp only [hs]
        obtain ⟨m, hm, hinv⟩ := ih (p :: done) acc' (selInv_step hi hpne hq hs) hrest_star hrest_ok
        exact ⟨m, hm, by simpa using hinv⟩

/-- `Query` finds a value exactly when `AccessNestedProperty` does -/
theorem queryVal_some_iff (v : Val) (p : List String) (u : Val) : queryVal v p = .ok (some u) ↔ accessVal v p = some u :=
  ⟨queryVal_ok_access, access_ok_query⟩

theorem mapExcept_ok {α β : Type} (f : α → Except Unit β) (l : List α) (h : ∀ a ∈ l, ∃ b, f a = .ok b) :
    ∃ bs, mapExcept f l = .ok bs ∧ bs.length = l.length := by
  induction l with
  | nil => exact ⟨[], rfl, rfl⟩
  | cons a l ih =>
    obtain ⟨b, hb⟩ := h a (by simp)
    obtain ⟨bs, hbs, hl⟩ := ih (fun x hx => h x (List.mem_cons_of_mem _ hx))
    exact ⟨b :: bs, by simp [mapExcept, hb, hbs], by simp [hl]⟩

/-- a point named once contributes exactly its own hybrid score -/
theorem contribs_nodup {S : Type} {l : List (Res S)} (hn : (l.map (·.id)).Nodup) {r : Res S} (hr : r ∈ l) :
    contribs l r.id = [r.hybrid] := by
  induction l with
  | nil => simp at hr
  | cons x rest ih =>
    simp only [List.map_cons, List.nodup_cons] at hn
    unfold contribs
    rcases List.mem_cons.mp hr with rfl | hr
    · have hnone : rest.filter (fun y => y.id == r.id) = [] := by
        rw [List.filter_eq_nil_iff]
        intro y hy hyr
        exact hn.1 (List.mem_map.mpr ⟨y, hy, by simpa using hyr⟩)
      simp [List.filter_cons, hnone]
    · have hx : (x.id == r.id) = false := by
        have : x.id ≠ r.id := fun h => hn.1 (h ▸ List.mem_map.mpr ⟨r, hr, rfl⟩)
        simpa using this
      simp only [List.filter_cons, hx]
      exact ih hn.2 hr

/-- the merge for a composite query with two or more sub-queries (or none), whose sub-results
are well formed (ranked ids are in the sub-result's id set):

* the id set is the union (`_or`) / intersection (`_and`) of the sub-sets;
* the ranked part names each point once, and names exactly the points of the id set that some
  sub-query ranked;
* each ranked point carries `c₁ + c₂ + … + cₙ`, its contributions in sub-query order;
* the ranked part is ordered by hybrid score, highest first. -/
theorem merge_many {S : Type} (add : S → S → S) (le : S → S → Prop)
    (sorter stable : List (Res S) → List (Res S))
    (hperm : ∀ l, (sorter l).Perm l) (hsorted : ∀ l, (sorter l).Pairwise (fun a b => le b.hybrid a.hybrid))
    (isOr : Bool) (subs : List (SubResult S)) (hlen : subs.length ≠ 1)
    (hwf : ∀ s ∈ subs, ∀ r ∈ s.res, r.id ∈ s.set) :
    let out := searchParallel add sorter stable isOr subs
    let all := (subs.map (·.res)).flatten
    (∀ id, id ∈ out.set ↔ if isOr then ∃ s ∈ subs, id ∈ s.set else subs ≠ [] ∧ ∀ s ∈ subs, id ∈ s.set) ∧
    (out.res.map (·.id)).Nodup ∧
    (∀ id, id ∈ out.res.map (·.id) ↔ id ∈ out.set ∧ id ∈ all.map (·.id)) ∧
    (∀ r ∈ out.res, some r.hybrid = sumLeft add (contribs all r.id)) ∧
    out.res.Pairwise (fun a b => le b.hybrid a.hybrid) := by
  intro out all
  -- the shortcut is not taken
  have hout : out = ⟨if isOr then unionAll (subs.map (·.set)) else interAll (subs.map (·.set)),
      sorter ((if isOr then all else all.filter (fun r => decide (r.id ∈
        (if isOr then unionAll (subs.map (·.set)) else interAll (subs.map (·.set)))))).foldl (mergeStep add) [])⟩ := by
    show searchParallel add sorter stable isOr subs = _
    unfold searchParallel
    cases subs with
    | nil => rfl
    | cons a rest =>
      cases rest with
      | nil => simp at hlen
      | cons b rest2 => rfl
  have hset : ∀ id, id ∈ out.set ↔ if isOr then ∃ s ∈ subs, id ∈ s.set else subs ≠ [] ∧ ∀ s ∈ subs, id ∈ s.set := by
    intro id
    rw [hout]
    cases isOr
    · simp only [Bool.false_eq_true, if_false, mem_interAll, ne_eq, List.map_eq_nil_iff, List.mem_map,
        forall_exists_index, and_imp, forall_apply_eq_imp_iff₂]
    · simp only [if_true, mem_unionAll, List.mem_map]
      constructor
      · rintro ⟨_, ⟨s, hs, rfl⟩, hm⟩; exact ⟨s, hs, hm⟩
      · rintro ⟨s, hs, hm⟩; exact ⟨_, ⟨s, hs, rfl⟩, hm⟩
  have hallset : isOr = true → ∀ id, id ∈ all.map (·.id) → id ∈ out.set := by
    intro hor id hid
    rw [hset, hor]
    simp only [if_true]
    simp only [all, List.mem_map, List.mem_flatten] at hid
    obtain ⟨r, ⟨l, ⟨s, hs, rfl⟩, hr⟩, rfl⟩ := hid
    exact ⟨s, hs, hwf s hs r hr⟩
  generalize hk : (if isOr then all else all.filter (fun r => decide (r.id ∈
        (if isOr then unionAll (subs.map (·.set)) else interAll (subs.map (·.set)))))) = kept at hout
  have hkept_ids : ∀ id, id ∈ kept.map (·.id) ↔ id ∈ out.set ∧ id ∈ all.map (·.id) := by
    intro id
    cases hor : isOr
    · subst hk; rw [hout]; simp only [hor, Bool.false_eq_true, if_false, List.mem_map, List.mem_filter, decide_eq_true_eq]
      constructor
      · rintro ⟨r, ⟨hr, hm⟩, rfl⟩; exact ⟨hm, r, hr, rfl⟩
      · rintro ⟨hm, r, hr, rfl⟩; exact ⟨r, ⟨hr, hm⟩, rfl⟩
    · subst hk; simp only [hor, if_true]
      exact ⟨fun h => ⟨hallset hor id h, h⟩, fun h => h.2⟩
  have hcontrib : ∀ id, id ∈ out.set → contribs kept id = contribs all id := by
    intro id hid
    cases hor : isOr
    · subst hk; simp only [hor, Bool.false_eq_true, if_false]
      rw [contribs_filter]
      rw [hout] at hid; simp only [hor, Bool.false_eq_true, if_false] at hid
      simp [hid]
    · subst hk; simp [hor]
  obtain ⟨hnd, hmem⟩ := ids_foldl add kept [] (by simp)
  have hres : out.res = sorter (kept.foldl (mergeStep add) []) := by rw [hout]
  have hp := hperm (kept.foldl (mergeStep add) [])
  refine ⟨hset, ?_, ?_, ?_, ?_⟩
  · rw [hres]; exact ((hp.map _).nodup_iff).mpr hnd
  · intro id
    rw [hres, ((hp.map (·.id)).mem_iff), hmem]
    simp only [List.map_nil, List.not_mem_nil, false_or]
    exact hkept_ids id
  · intro r hr
    rw [hres] at hr
    have hr' := hp.mem_iff.mp hr
    have hin : r.id ∈ out.set := by
      have : r.id ∈ kept.map (·.id) := by
        have := (hmem r.id).mp (List.mem_map.mpr ⟨r, hr', rfl⟩)
        simpa using this
      exact ((hkept_ids r.id).mp this).1
    rw [← hybridOf_of_mem hnd hr', hybridOf_merge, hcontrib r.id hin]
  · rw [hres]; exact hsorted _


/-- the merge for any number of sub-queries (the statement of `C06_merge`) -/
theorem merge_any {S : Type} (add : S → S → S) (le : S → S → Prop)
    (sorter stable : List (Res S) → List (Res S))
    (hperm : ∀ l, (sorter l).Perm l) (hsorted : ∀ l, (sorter l).Pairwise (fun a b => le b.hybrid a.hybrid))
    (hstperm : ∀ l, (stable l).Perm l) (hstsorted : ∀ l, (stable l).Pairwise (fun a b => le b.hybrid a.hybrid))
    (isOr : Bool) (subs : List (SubResult S))
    (hwf : ∀ s ∈ subs, ∀ r ∈ s.res, r.id ∈ s.set) (hnd : ∀ s ∈ subs, (s.res.map (·.id)).Nodup) :
    let out := searchParallel add sorter stable isOr subs
    let all := (subs.map (·.res)).flatten
    (∀ id, id ∈ out.set ↔ if isOr then ∃ s ∈ subs, id ∈ s.set else subs ≠ [] ∧ ∀ s ∈ subs, id ∈ s.set) ∧
    (out.res.map (·.id)).Nodup ∧
    (∀ id, id ∈ out.res.map (·.id) ↔ id ∈ out.set ∧ id ∈ all.map (·.id)) ∧
    (∀ r ∈ out.res, some r.hybrid = sumLeft add (contribs all r.id)) ∧
    out.res.Pairwise (fun a b => le b.hybrid a.hybrid) := by
  intro out all
  by_cases hlen : subs.length = 1
  · obtain ⟨one, rfl⟩ : ∃ one, subs = [one] := by
      cases subs with
      | nil => simp at hlen
      | cons a rest => cases rest with
        | nil => exact ⟨a, rfl⟩
        | cons b r => simp at hlen
    have hout : out = ⟨one.set, stable one.res⟩ := rfl
    have hall : all = one.res := by simp [all]
    have hw := hwf one (by simp)
    have hn := hnd one (by simp)
    have hp := hstperm one.res
    have hn' : ((stable one.res).map (·.id)).Nodup := ((hp.map (·.id)).nodup_iff).mpr hn
    rw [hout, hall]
    refine ⟨?_, hn', ?_, ?_, hstsorted one.res⟩
    · intro id; cases isOr <;> simp
    · intro id
      show id ∈ (stable one.res).map (·.id) ↔ id ∈ one.set ∧ id ∈ one.res.map (·.id)
      rw [(hp.map (·.id)).mem_iff]
      constructor
      · intro h
        obtain ⟨r, hr, rfl⟩ := List.mem_map.mp h
        exact ⟨hw r hr, h⟩
      · exact fun h => h.2
    · intro r hr
      have hr' : r ∈ one.res := hp.mem_iff.mp hr
      rw [contribs_nodup hn hr']; rfl
  · exact merge_many add le sorter stable hperm hsorted isOr subs hlen hwf


/-- whatever the sub-results, `searchParallel` hands on a ranked list in hybrid-score order -/
theorem searchParallel_sorted {S : Type} (add : S → S → S) (le : S → S → Prop)
    (sorter stable : List (Res S) → List (Res S))
    (hsorted : ∀ l, (sorter l).Pairwise (fun a b => le b.hybrid a.hybrid))
    (hstsorted : ∀ l, (stable l).Pairwise (fun a b => le b.hybrid a.hybrid))
    (isOr : Bool) (subs : List (SubResult S)) :
    (searchParallel add sorter stable isOr subs).res.Pairwise (fun a b => le b.hybrid a.hybrid) := by
  unfold searchParallel
  cases subs with
  | nil => exact hsorted _
  | cons a rest =>
    cases rest with
    | nil => exact hstsorted _
    | cons b r => exact hsorted _

/-- the order the documentation asks of two rows, the first standing before the second: ranked rows
highest hybrid score first, and no unranked row before a ranked one -/
def rankRel {S : Type} (le : S → S → Prop) : Option S → Option S → Prop
  | some x, some y => le y x
  | none, some _ => False
  | _, none => True


theorem backfill_rank_pairwise {S : Type} (le : S → S → Prop) (set : List Id) (rs : List (Res S))
    (h : rs.Pairwise (fun a b => le b.hybrid a.hybrid)) :
    (backfill ⟨set, rs⟩).Pairwise (fun a b => rankRel le a.hybrid b.hybrid) := by
  unfold backfill
  rw [List.pairwise_append]
  refine ⟨?_, ?_, ?_⟩
  · rw [List.pairwise_map]; exact h.imp (fun h => h)
  · rw [List.pairwise_map]; exact List.pairwise_of_forall (fun _ _ => trivial)
  · intro a ha b hb'
    obtain ⟨_, _, rfl⟩ := List.mem_map.mp hb'
    cases a.hybrid <;> trivial

/-- the row built for a back-filled entry keeps its id and hybrid score and carries the selected data -/
theorem row_of_entry {S : Type} (docOf : Id → Doc) (rq : Request) (e : Entry S) (row : Row S)
    (h : (shape rq (docOf e.id)).map (fun d => (⟨e.id, e.hybrid, d⟩ : Row S)) = .ok row) :
    row.id = e.id ∧ row.hybrid = e.hybrid ∧ shape rq (docOf e.id) = .ok row.data := by
  cases hsh : shape rq (docOf e.id) with
  | error _ => simp [hsh, Except.map] at h
  | ok d => simp only [hsh, Except.map, Except.ok.injEq] at h; subst h; exact ⟨rfl, rfl, rfl⟩

theorem fullRows_rank_pairwise {S : Type} (le : S → S → Prop) (docOf : Id → Doc)
    (sorter : List (Row S) → List (Row S)) (r : SubResult S)
    (hr : r.res.Pairwise (fun a b => le b.hybrid a.hybrid)) (rq : Request) (hs : rq.sort = [])
    (rows : List (Row S)) (h : fullRows docOf sorter r rq = .ok rows) :
    rows.Pairwise (fun a b => rankRel le a.hybrid b.hybrid) := by
  unfold fullRows at h
  cases hm : mapExcept (fun (e : Entry S) => (shape rq (docOf e.id)).map (fun d => (⟨e.id, e.hybrid, d⟩ : Row S)))
      (backfill r) with
  | error e => simp [hm] at h
  | ok rows0 =>
    simp only [hm, hs, List.isEmpty_nil, if_true, Except.ok.injEq] at h
    subst h
    exact mapExcept_pairwise _ (·.hybrid) (·.hybrid) (rankRel le)
      (fun e row he => (row_of_entry docOf rq e row he).2.1) _ _ hm
      (backfill_rank_pairwise le r.set r.res hr)

/-! ### query trees -/

section Tree
variable {S : Type}

theorem contribs_append (l1 l2 : List (Res S)) (id : Id) : contribs (l1 ++ l2) id = contribs l1 id ++ contribs l2 id := by
  simp [contribs, List.filter_append]

theorem hybridOf_none_of_not_mem {l : List (Res S)} {id : Id} (h : id ∉ l.map (·.id)) :
    hybridOf l id = none ∧ contribs l id = [] := by
  constructor
  · unfold hybridOf
    have : l.find? (fun r => r.id == id) = none := by
      rw [List.find?_eq_none]
      intro x hx hxi
      exact h (List.mem_map.mpr ⟨x, hx, by simpa using hxi⟩)
    rw [this]; rfl
  · unfold contribs
    rw [List.map_eq_nil_iff, List.filter_eq_nil_iff]
    intro x hx hxi
    exact h (List.mem_map.mpr ⟨x, hx, by simpa using hxi⟩)

/-- a ranked list that names each point once: the contributions of a point are its hybrid score, if any -/
theorem contribs_eq_toList {l : List (Res S)} (hn : (l.map (·.id)).Nodup) (id : Id) :
    contribs l id = (hybridOf l id).toList := by
  by_cases h : id ∈ l.map (·.id)
  · obtain ⟨r, hr, rfl⟩ := List.mem_map.mp h
    rw [contribs_nodup hn hr, hybridOf_of_mem hn hr]; rfl
  · obtain ⟨h1, h2⟩ := hybridOf_none_of_not_mem h
    rw [h1, h2]; rfl

/-- what `evalTree` / `evalForest` are shown to satisfy -/
def WFout (o : SubResult S) : Prop := (∀ x ∈ o.res, x.id ∈ o.set) ∧ (o.res.map (·.id)).Nodup

def TreeOK (add : S → S → S) (t : QTree S) (o : SubResult S) : Prop :=
  WFout o ∧ (∀ id, id ∈ o.set ↔ inSetB t id = true) ∧ (∀ id, hybridOf o.res id = hybridSpec add t id)

def ForestOK (add : S → S → S) (ts : QForest S) (os : List (SubResult S)) : Prop :=
  (∀ o ∈ os, WFout o) ∧ (∀ id, (∃ o ∈ os, id ∈ o.set) ↔ anySetB ts id = true) ∧
  (∀ id, (∀ o ∈ os, id ∈ o.set) ↔ allSetB ts id = true) ∧ (os = [] ↔ ts.isNil = true) ∧
  (∀ id, contribs (os.map (·.res)).flatten id = hybridsSpec add ts id)

theorem node_ok (add : S → S → S) (le : S → S → Prop) (sorter stable : List (Res S) → List (Res S))
    (hperm : ∀ l, (sorter l).Perm l) (hsorted : ∀ l, (sorter l).Pairwise (fun a b => le b.hybrid a.hybrid))
    (hstperm : ∀ l, (stable l).Perm l) (hstsorted : ∀ l, (stable l).Pairwise (fun a b => le b.hybrid a.hybrid))
    (isOr : Bool) (ts : QForest S) (os : List (SubResult S)) (h : ForestOK add ts os) :
    TreeOK add (.node isOr ts) (searchParallel add sorter stable isOr os) := by
  obtain ⟨hwf, hany, hall, hnil, hcon⟩ := h
  obtain ⟨m1, m2, m3, m4, _⟩ := merge_any add le sorter stable hperm hsorted hstperm hstsorted isOr os
    (fun s hs => (hwf s hs).1) (fun s hs => (hwf s hs).2)
  have hset : ∀ id, id ∈ (searchParallel add sorter stable isOr os).set ↔ inSetB (.node isOr ts) id = true := by
    intro id
    rw [m1 id]
    cases isOr
    · simp only [Bool.false_eq_true, if_false, inSetB, Bool.and_eq_true, Bool.not_eq_true']
      rw [hall id]
      constructor
      · rintro ⟨h1, h2⟩
        refine ⟨?_, h2⟩
        cases hn : ts.isNil with
        | false => rfl
        | true => exact absurd (hnil.mpr hn) h1
      · rintro ⟨h1, h2⟩
        refine ⟨fun he => ?_, h2⟩
        rw [hnil.mp he] at h1; cases h1
    · simp only [if_true, inSetB]
      exact hany id
  refine ⟨⟨?_, m2⟩, hset, ?_⟩
  · intro x hx
    exact ((m3 x.id).mp (List.mem_map.mpr ⟨x, hx, rfl⟩)).1
  · intro id
    by_cases hid : id ∈ (searchParallel add sorter stable isOr os).res.map (·.id)
    · obtain ⟨r, hr, rfl⟩ := List.mem_map.mp hid
      have hin := ((m3 r.id).mp hid).1
      rw [hybridOf_of_mem m2 hr, m4 r hr, hcon r.id]
      simp only [hybridSpec]
      rw [if_pos ((hset r.id).mp hin)]
    · rw [(hybridOf_none_of_not_mem hid).1]
      simp only [hybridSpec]
      by_cases hin : inSetB (.node isOr ts) id = true
      · rw [if_pos hin]
        have hnot : id ∉ ((os.map (·.res)).flatten).map (·.id) := fun hc => hid ((m3 id).mpr ⟨(hset id).mpr hin, hc⟩)
        rw [← hcon id, (hybridOf_none_of_not_mem hnot).2]; rfl
      · rw [if_neg hin]

mutual
theorem evalTree_ok (add : S → S → S) (le : S → S → Prop) (sorter stable : List (Res S) → List (Res S))
    (hperm : ∀ l, (sorter l).Perm l) (hsorted : ∀ l, (sorter l).Pairwise (fun a b => le b.hybrid a.hybrid))
    (hstperm : ∀ l, (stable l).Perm l) (hstsorted : ∀ l, (stable l).Pairwise (fun a b => le b.hybrid a.hybrid))
    (t : QTree S) (h : leavesWF t) : TreeOK add t (evalTree add sorter stable t) := by
  cases t with
  | leaf r =>
    simp only [leavesWF] at h
    refine ⟨h, ?_, ?_⟩
    · intro id; simp [evalTree, inSetB]
    · intro id; simp [evalTree, hybridSpec]
  | node isOr ts =>
    simp only [leavesWF] at h
    simp only [evalTree]
    exact node_ok add le sorter stable hperm hsorted hstperm hstsorted isOr ts _ (evalForest_ok add le sorter stable hperm hsorted hstperm hstsorted ts h)
theorem evalForest_ok (add : S → S → S) (le : S → S → Prop) (sorter stable : List (Res S) → List (Res S))
    (hperm : ∀ l, (sorter l).Perm l) (hsorted : ∀ l, (sorter l).Pairwise (fun a b => le b.hybrid a.hybrid))
    (hstperm : ∀ l, (stable l).Perm l) (hstsorted : ∀ l, (stable l).Pairwise (fun a b => le b.hybrid a.hybrid))
    (ts : QForest S) (h : forestWF ts) : ForestOK add ts (evalForest add sorter stable ts) := by
  cases ts with
  | nil =>
    simp only [evalForest]
    refine ⟨by simp, by simp [anySetB], by simp [allSetB], by simp [QForest.isNil], by simp [contribs, hybridsSpec]⟩
  | cons t ts =>
    simp only [forestWF] at h
    obtain ⟨w1, s1, y1⟩ := evalTree_ok add le sorter stable hperm hsorted hstperm hstsorted t h.1
    obtain ⟨w2, a2, l2, _, c2⟩ := evalForest_ok add le sorter stable hperm hsorted hstperm hstsorted ts h.2
    simp only [evalForest]
    refine ⟨?_, ?_, ?_, by simp [QForest.isNil], ?_⟩
    · intro o ho
      rcases List.mem_cons.mp ho with rfl | ho
      · exact w1
      · exact w2 o ho
    · intro id
      simp only [List.mem_cons, exists_eq_or_imp, anySetB, Bool.or_eq_true, s1 id, a2 id]
    · intro id
      simp only [List.mem_cons, forall_eq_or_imp, allSetB, Bool.and_eq_true, s1 id, l2 id]
    · intro id
      simp only [List.map_cons, List.flatten_cons, contribs_append, hybridsSpec, c2 id]
      rw [contribs_eq_toList w1.2, y1 id]
end

end Tree

end Sema.C06
