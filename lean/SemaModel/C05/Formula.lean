/-
C05 — the FORMULA of the score, as theorems about the definitions generated from
shard/index/text/text.go, composed with the structural theorem of the search.

* `C05_score_step`      the generated loop body is `score + tf * float32(idf)` with `tf = float32(freq) /
                        float32(length)`, `idf = log10(float64(N) / float64(df + 1))`, `freq` = the `Terms` entry or 0
* `C05_score_generated` the generated loop body folded over the query terms (any order) on the model's index
                        = `scoreDoc ScoreOps.ofGenerated` (the model's scoring with the generated arithmetic)
* `C05_match_ordered`   `C05_match` without the commutativity / associativity of `add` (floats have neither): the
                        score is the sum in the order in which the term set was traversed
* `C05_score_formula`   over the current corpus that sum is Σ_t (count t d / |d|) · float32(log10(N / (df t + 1)))
* `C05_match_generated` the two composed: the answer of `Search` with the generated arithmetic
* `C05_hybrid_formula`  hybrid = score * weight, weight = 1 when absent
IEEE rounding is not interpreted (`Go.FExpr` is symbolic); the driver evaluates the same trees (`scorecheck`).
-/
import SemaModel.C05.Lemmas
import SemaModel.C05.ScoreGen
namespace Sema.C05
open Sema Sema.Go Sema.Gen

/-! ### the generated loop body -/

/-- `freq := 0; if termItem, ok := docItem.Terms[term]; ok { freq = termItem.Frequency }` -/
def freqG (d : TextScore.docCacheItem) (term : String) : Int :=
  match Go.mapGet? d.Terms term with
  | some v => v.Frequency
  | none => 0

/-- one iteration of `for term := range queryTerms`: `score += tf * float32(idf)` with the `tf` and `idf`
statements as generated (`Search_tf`, `Search_idf`) and the frequency looked up in the document's `Terms` map -/
theorem C05_score_step {Bitmap : Type} [Inhabited Bitmap] (card : Bitmap → BitVec 64) (index : TextScore.indexText)
    (d : TextScore.docCacheItem) (term : String) (tsi : TextScore.setCacheItem Bitmap) (score : FExpr) :
    TextScore.Search_scoreStep card index d term tsi score =
      FExpr.add score (FExpr.mul (TextScore.Search_tf (freqG d term) d) (FExpr.toF32 (TextScore.Search_idf card index tsi))) := by
  unfold TextScore.Search_scoreStep TextScore.Search_tf TextScore.Search_idf freqG
  cases Go.mapGet? d.Terms term <;> rfl

/-- `tf = float32(freq) / float32(docItem.Length)` -/
theorem C05_tf_formula (freq : Int) (d : TextScore.docCacheItem) :
    TextScore.Search_tf freq d = FExpr.div (FExpr.ofInt freq) (FExpr.ofInt d.Length) := rfl

/-- `idf = math.Log10(float64(index.numDocs) / float64(termSetItem.set.GetCardinality()+1))`; both counts are
`uint64` (the `+1` wraps at 2^64) -/
theorem C05_idf_formula {Bitmap : Type} [Inhabited Bitmap] (card : Bitmap → BitVec 64) (index : TextScore.indexText)
    (tsi : TextScore.setCacheItem Bitmap) :
    TextScore.Search_idf card index tsi =
      FExpr.log10 (FExpr.div (FExpr.ofNat index.numDocs.toNat) (FExpr.ofNat (card tsi.set + 1#64).toNat)) := rfl

/-- the start value `score := float32(0)` -/
theorem C05_score0_formula : TextScore.Search_score0 = FExpr.lit 0 := rfl

namespace Formula

theorem mapGet_toDocItem (fs : List (String × Nat)) (t : String) :
    Go.mapGet? (fs.map (fun e => (e.1, (⟨(e.2 : Int)⟩ : TextScore.Term)))) t =
      (alookup fs t).map (fun f => (⟨(f : Int)⟩ : TextScore.Term)) := by
  induction fs with
  | nil => rfl
  | cons e rest ih =>
    obtain ⟨k, v⟩ := e
    simp only [List.map_cons, Go.mapGet?, alookup]
    by_cases h : k = t
    · simp [h]
    · have : (k == t) = false := by simp [h]
      simp [this, h, ih]

theorem freqG_toDocItem (r : DocRec String) (t : String) : freqG (toDocItem r) t = (freqOf r t : Int) := by
  unfold freqG toDocItem freqOf
  simp only [mapGet_toDocItem]
  cases alookup r.freqs t <;> simp

end Formula

/-- **generated code = the model's scoring with the generated arithmetic.**  The generated loop body folded
over the query terms in any order `ts`, on the model's index state, is `scoreDoc ScoreOps.ofGenerated`. -/
theorem C05_score_generated (ix : Index String) (ts : List String) (r : DocRec String) :
    scoreGen ix ts r = scoreDoc ScoreOps.ofGenerated ix ts r := by
  unfold scoreGen scoreDoc
  congr 1
  funext score t
  rw [C05_score_step, Formula.freqG_toDocItem]
  rfl

/-! ### the search theorem without commutativity of `add` -/

variable {T : Type} [DecidableEq T]

/-- `C05_match` for an arbitrary (non-commutative, non-associative) `add`: everything as there, except that
the score of a document is the sum over the query term set **in the order `ord id` in which it was traversed**
(Go map order; with float32 addition different orders may differ in the last bits). -/
theorem C05_match_ordered {S W : Type} (o : ScoreOps S W) (le : S → S → Prop)
    (sorter : List (Res S) → List (Res S))
    (hperm : ∀ l, (sorter l).Perm l) (hsorted : ∀ l, (sorter l).Pairwise (fun a b => le b.score a.score))
    {ix : Index T} {c : Corpus T} (hinv : TextInv ix c) (q : Query T) (w : W)
    (ord : Id → List T) :
    ∃ set rs, searchWith (fun id r => scoreDoc o ix (ord id) r) o.scale sorter ix q w = some (set, rs) ∧
      (∀ id, id ∈ set ↔ id ∈ rs.map (·.id)) ∧
      (rs.map (·.id)).Nodup ∧
      (∀ r ∈ rs, Matches c q r.id) ∧
      rs.length ≤ q.limit ∧
      (∀ id, Matches c q id → id ∉ rs.map (·.id) →
        rs.length = q.limit ∧ ∀ r ∈ rs, le (specScore o c (ord id) id) r.score) ∧
      rs.Pairwise (fun a b => le b.score a.score) ∧
      (∀ r ∈ rs, r.score = specScore o c (ord r.id) r.id ∧ r.hybrid = o.scale w r.score) := by
  have hscore : ∀ id r, alookup ix.docs id = some r → scoreDoc o ix (ord id) r = specScore o c (ord id) id :=
    fun id r hr => scoreDoc_eq_spec o hinv (ord id) id r hr
  let mk : Id → Res S := fun id => ⟨id, specScore o c (ord id) id, o.scale w (specScore o c (ord id) id)⟩
  have hmap : optMap (fun id => (alookup ix.docs id).map (fun r =>
        let s := scoreDoc o ix (ord id) r; (⟨id, s, o.scale w s⟩ : Res S))) (matchSet ix q)
      = some ((matchSet ix q).map mk) := by
    apply optMap_eq_some
    intro id hid
    have hm := (mem_matchSet hinv q id).mp hid
    cases hr : alookup ix.docs id with
    | none => exact absurd ((hinv.doc_none id).mp hr) hm.2.1
    | some r => simp only [Option.map_some, hscore id r hr, mk]
  have hids : ((matchSet ix q).map mk).map (·.id) = matchSet ix q := by simp [mk, List.map_map, Function.comp_def]
  have hsp : (sorter ((matchSet ix q).map mk)).Perm ((matchSet ix q).map mk) := hperm _
  have hsids : ((sorter ((matchSet ix q).map mk)).map (·.id)).Perm (matchSet ix q) := by
    have h1 := hsp.map (fun r : Res S => r.id)
    rw [hids] at h1; exact h1
  have hnd : ((sorter ((matchSet ix q).map mk)).map (·.id)).Nodup := hsids.nodup_iff.mpr (nodup_matchSet hinv q)
  have hmk : ∀ r ∈ sorter ((matchSet ix q).map mk), r = mk r.id ∧ r.id ∈ matchSet ix q := by
    intro r hr
    obtain ⟨id, hid, rfl⟩ := List.mem_map.mp (hsp.mem_iff.mp hr)
    exact ⟨rfl, hid⟩
  unfold searchWith
  simp only [hmap]
  by_cases hcut : (sorter ((matchSet ix q).map mk)).length > q.limit
  · simp only [hcut, if_true]
    refine ⟨_, _, rfl, fun id => Iff.rfl, ?_, ?_, ?_, ?_, ?_, ?_⟩
    · rw [List.map_take]; exact (List.take_sublist _ _).nodup hnd
    · intro r hr
      exact (mem_matchSet hinv q _).mp (hmk r (List.mem_of_mem_take hr)).2
    · simp [List.length_take]; omega
    · intro id hm hnot
      refine ⟨by simp [List.length_take]; omega, ?_⟩
      intro r hr
      have hidm : id ∈ (sorter ((matchSet ix q).map mk)).map (·.id) := hsids.mem_iff.mpr ((mem_matchSet hinv q id).mpr hm)
      obtain ⟨r', hr', rfl⟩ := List.mem_map.mp hidm
      have hdrop : r' ∈ (sorter ((matchSet ix q).map mk)).drop q.limit := by
        have := List.take_append_drop q.limit (sorter ((matchSet ix q).map mk))
        rw [← this] at hr'
        rcases List.mem_append.mp hr' with h | h
        · exact absurd (List.mem_map.mpr ⟨r', h, rfl⟩) hnot
        · exact h
      have := pairwise_take_drop (hsorted _) q.limit r hr r' hdrop
      rw [(hmk r' hr').1] at this
      exact this
    · exact (hsorted _).sublist (List.take_sublist _ _)
    · intro r hr
      have := (hmk r (List.mem_of_mem_take hr)).1
      rw [this]; exact ⟨rfl, rfl⟩
  · simp only [hcut, if_false]
    refine ⟨_, _, rfl, ?_, hnd, ?_, by omega, ?_, hsorted _, ?_⟩
    · intro id; exact (hsids.mem_iff).symm
    · intro r hr; exact (mem_matchSet hinv q _).mp (hmk r hr).2
    · intro id hm hnot
      exact absurd (hsids.mem_iff.mpr ((mem_matchSet hinv q id).mpr hm)) hnot
    · intro r hr
      have := (hmk r hr).1
      rw [this]; exact ⟨rfl, rfl⟩

/-! ### the formula -/

/-- the contribution of one query term `t` to the score of document `id` over the corpus `c`:
`(float32(count) / float32(length)) * float32(log10(float64(N) / float64(df + 1)))` -/
def termScore (c : Corpus T) (id : Id) (t : T) : FExpr :=
  FExpr.mul (FExpr.div (FExpr.ofInt ((c.get id).count t)) (FExpr.ofInt (c.get id).length))
    (FExpr.toF32 (FExpr.log10 (FExpr.div (FExpr.ofNat (specNumDocs c)) (FExpr.ofNat (specDf c t + 1)))))

/-- **score = Σ_t tf(t, d) · log10(N / (df(t) + 1))**, with tf = occurrences / document length, N = corpus size,
df = number of documents containing `t`, the conversions and the `+1` as the code has them, the terms added
from the left in the order `ts`.  (The two `uint64` counts of the code do not wrap: corpus size below 2^64 - 1.) -/
theorem C05_score_formula (c : Corpus T) (ts : List T) (id : Id) (hN : specNumDocs c + 1 < 2 ^ 64) :
    specScore ScoreOps.ofGenerated c ts id = FExpr.sumL (ts.map (termScore c id)) := by
  have hdf : ∀ t, specDf c t ≤ specNumDocs c := by
    intro t; unfold specDf specNumDocs; exact List.length_filter_le _ _
  unfold specScore FExpr.sumL
  rw [List.foldl_map]
  congr 1
  funext acc t
  have h1 : (cardU64 (specNumDocs c)).toNat = specNumDocs c := by
    simp only [cardU64, BitVec.toNat_ofNat]; exact Nat.mod_eq_of_lt (by omega)
  have h2 : (cardU64 (specDf c t) + 1#64).toNat = specDf c t + 1 := by
    have := hdf t
    simp only [cardU64, BitVec.toNat_add, BitVec.toNat_ofNat]
    omega
  show FExpr.add acc (FExpr.mul (TextScore.Search_tf _ _) (FExpr.toF32 (TextScore.Search_idf cardU64 _ _))) = _
  rw [C05_tf_formula, C05_idf_formula]
  simp only [h1, h2, termScore]

/-- **hybrid = score * weight**, the weight being 1 when the query gives none -/
theorem C05_hybrid_formula (w : Option FExpr) (s : FExpr) :
    ScoreOps.ofGenerated.scale w s = FExpr.mul s (w.getD (FExpr.lit 1)) := by
  cases w <;> rfl

/-- the weight default as generated -/
theorem C05_weight_default (w : Option FExpr) : Hybrid.text_weight ⟨w⟩ = w.getD (FExpr.lit 1) := by
  cases w <;> rfl

/-- **the composition**: `Search` with the arithmetic generated from the source, on an index that carries the
statistics of corpus `c` (by `C05_history`: after every history), for any sorting routine that returns a sorted
permutation w.r.t. any relation `le` on scores and any traversal order of the term set per document: the
structural clauses of `C05_match`, every returned score is the documented formula over the current corpus, and
the hybrid score is score · weight. -/
theorem C05_match_generated (le : FExpr → FExpr → Prop)
    (sorter : List (Res FExpr) → List (Res FExpr))
    (hperm : ∀ l, (sorter l).Perm l) (hsorted : ∀ l, (sorter l).Pairwise (fun a b => le b.score a.score))
    {ix : Index String} {c : Corpus String} (hinv : TextInv ix c) (hN : specNumDocs c + 1 < 2 ^ 64)
    (q : Query String) (w : Option FExpr) (ord : Id → List String) :
    ∃ set rs, searchWith (fun id r => scoreGen ix (ord id) r) ScoreOps.ofGenerated.scale sorter ix q w = some (set, rs) ∧
      (∀ id, id ∈ set ↔ id ∈ rs.map (·.id)) ∧
      (rs.map (·.id)).Nodup ∧
      (∀ r ∈ rs, Matches c q r.id) ∧
      rs.length ≤ q.limit ∧
      (∀ id, Matches c q id → id ∉ rs.map (·.id) →
        rs.length = q.limit ∧ ∀ r ∈ rs, le (FExpr.sumL ((ord id).map (termScore c id))) r.score) ∧
      rs.Pairwise (fun a b => le b.score a.score) ∧
      (∀ r ∈ rs, r.score = FExpr.sumL ((ord r.id).map (termScore c r.id)) ∧
        r.hybrid = FExpr.mul r.score (w.getD (FExpr.lit 1))) := by
  have e : (fun id r => scoreGen ix (ord id) r) = (fun id r => scoreDoc ScoreOps.ofGenerated ix (ord id) r) := by
    funext id r; exact C05_score_generated ix (ord id) r
  rw [e]
  obtain ⟨set, rs, h, h1, h2, h3, h4, h5, h6, h7⟩ :=
    C05_match_ordered ScoreOps.ofGenerated le sorter hperm hsorted hinv q w ord
  refine ⟨set, rs, h, h1, h2, h3, h4, ?_, h6, ?_⟩
  · intro id hm hn
    have := h5 id hm hn
    rw [C05_score_formula c (ord id) id hN] at this
    exact this
  · intro r hr
    obtain ⟨a, b⟩ := h7 r hr
    rw [C05_score_formula c (ord r.id) r.id hN] at a
    exact ⟨a, by rw [b, C05_hybrid_formula]⟩

/-! ### non-vacuity -/

/-- the formula on a two-document corpus: query terms "a", "b" against document 1 = "a a b" -/
example : specScore ScoreOps.ofGenerated ([(1, ["a", "a", "b"]), (2, ["b"])] : Corpus String) ["a", "b"] 1 =
    .add (.add (.lit 0)
      (.mul (.div (.ofInt 2) (.ofInt 3)) (.toF32 (.log10 (.div (.ofNat 2) (.ofNat 2))))))
      (.mul (.div (.ofInt 1) (.ofInt 3)) (.toF32 (.log10 (.div (.ofNat 2) (.ofNat 3))))) := by
  rw [C05_score_formula _ _ _ (by decide)]
  decide

/-- the generated loop on a concrete index state (two terms, one document record) -/
example : scoreGen { sets := [("a", [1]), ("b", [1, 2])], docs := [], numDocs := 2 } ["a", "b"] ⟨[("a", 2), ("b", 1)], 3⟩ =
    .add (.add (.lit 0)
      (.mul (.div (.ofInt 2) (.ofInt 3)) (.toF32 (.log10 (.div (.ofNat 2) (.ofNat 2))))))
      (.mul (.div (.ofInt 1) (.ofInt 3)) (.toF32 (.log10 (.div (.ofNat 2) (.ofNat 3))))) := by
  decide

end Sema.C05
