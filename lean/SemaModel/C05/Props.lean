/-
C05 — text search matches, ranks and limits by tf-idf over the current corpus.

Model: SemaModel/C05/Model.lean (transcription of shard/index/text/text.go and of the text arm of
shard/index/dispatch.go).  Everything here is unbounded: any term type, any history, any query,
any score arithmetic (`ScoreOps`), any total preorder on scores, any sorting routine that returns
a sorted permutation (Go's unstable pdqsort is one).

Only the property theorems and their non-vacuity examples live in this file.
-/
import SemaModel.C05.Lemmas
namespace Sema.C05

variable {T : Type} [DecidableEq T]

/-! ### statistics follow the corpus -/

/-- `processAnalysedDoc` keeps "postings, document records and numDocs are those of the corpus", in
each of its four arms: skip (absent, zero tokens), insert (absent, tokens), delete / blank-out
(present, zero tokens), rewrite (present, tokens). -/
theorem C05_maintain {ix : Index T} {c : Corpus T} (h : TextInv ix c) (id : Id) (toks : List T) :
    TextInv (processDoc ix (id, toks)) (c.set id toks) :=
  processDoc_inv h id toks

/-- the write-back keeps the invariant and stores no empty posting -/
theorem C05_flush {ix : Index T} {c : Corpus T} (h : TextInv ix c) :
    TextInv (flush ix) c ∧ ∀ e ∈ (flush ix).sets, e.2 ≠ [] :=
  ⟨flush_inv h, flush_no_empty ix⟩

/-- every history of write batches (insert, rewrite, blank out, delete — in any mix, any number,
the same id any number of times) leaves the index with exactly the statistics of the documents that
are live and non-empty after the history.  Batches are applied in arrival order. -/
theorem C05_history (batches : List (List (Doc T))) :
    TextInv (batches.foldl applyBatch ({} : Index T)) (batches.foldl Corpus.apply ([] : Corpus T)) := by
  suffices h : ∀ (ix : Index T) (c : Corpus T), TextInv ix c →
      TextInv (batches.foldl applyBatch ix) (batches.foldl Corpus.apply c) from h _ _ TextInv.empty
  induction batches with
  | nil => intro ix c h; exact h
  | cons b rest ih => intro ix c h; exact ih _ _ (applyBatch_inv h b)

/-- what the invariant says about the numbers the scoring reads: corpus size, document frequency,
term frequency and document length are those of the current corpus, and a document record exists
exactly for the live non-empty documents. -/
theorem C05_stats {ix : Index T} {c : Corpus T} (h : TextInv ix c) :
    ix.numDocs = specNumDocs c ∧
    (∀ t, (getSet ix.sets t).length = (c.filter (fun e => decide (t ∈ e.2))).length) ∧
    (∀ id, (alookup ix.docs id).isSome ↔ c.get id ≠ []) ∧
    (∀ id r, alookup ix.docs id = some r → r.length = (c.get id).length ∧ ∀ t, freqOf r t = (c.get id).count t) := by
  refine ⟨h.num, ?_, ?_, ?_⟩
  · intro t
    have hperm : (getSet ix.sets t).Perm (akeys (c.filter (fun e => decide (t ∈ e.2)))) := by
      apply (List.perm_ext_iff_of_nodup (h.set_nodup t) (nodup_akeys_filter h.cwf.nodup _)).mpr
      intro x
      rw [h.mem_set]
      simp only [akeys, List.mem_map, List.mem_filter, decide_eq_true_eq]
      constructor
      · intro hx
        have hne : c.get x ≠ [] := by intro hn; rw [hn] at hx; simp at hx
        have hsome := (Corpus.get_ne_nil h.cwf x).mp hne
        cases hl : alookup c x with
        | none => exact absurd hl hsome
        | some v =>
          refine ⟨(x, v), ⟨alookup_mem hl, ?_⟩, rfl⟩
          simpa [Corpus.get, hl] using hx
      · rintro ⟨⟨k, v⟩, ⟨hm, ht⟩, rfl⟩
        have := alookup_of_mem h.cwf.nodup hm
        simpa [Corpus.get, this] using ht
    rw [hperm.length_eq]; simp [akeys]
  · intro id
    have := h.doc_none id
    cases hl : alookup ix.docs id with
    | none => simp [this.mp hl]
    | some r =>
      simp only [Option.isSome_some, true_iff]
      intro hn; rw [this.mpr hn] at hl; cases hl
  · intro id r hr
    exact ⟨(h.doc_some id r hr).1, (h.doc_some id r hr).2.1⟩

/-- the invariant determines everything a search can observe: two indexes that carry the
statistics of corpora with the same documents answer alike.  (So "equal to the index computed from
scratch" is meant up to the order inside Go maps and bitmaps.) -/
theorem C05_inv_unique {ix ix' : Index T} {c c' : Corpus T} (h : TextInv ix c) (h' : TextInv ix' c')
    (hc : ∀ id, c.get id = c'.get id) :
    ix.numDocs = ix'.numDocs ∧
    (∀ t id, id ∈ getSet ix.sets t ↔ id ∈ getSet ix'.sets t) ∧
    (∀ t, (getSet ix.sets t).length = (getSet ix'.sets t).length) ∧
    (∀ id, (alookup ix.docs id).isSome = (alookup ix'.docs id).isSome) ∧
    (∀ id r r', alookup ix.docs id = some r → alookup ix'.docs id = some r' →
      r.length = r'.length ∧ ∀ t, freqOf r t = freqOf r' t) := by
  have hmem : ∀ t id, id ∈ getSet ix.sets t ↔ id ∈ getSet ix'.sets t := by
    intro t id; rw [h.mem_set, h'.mem_set, hc]
  refine ⟨?_, hmem, ?_, ?_, ?_⟩
  · rw [h.num, h'.num]
    have hp : (akeys c).Perm (akeys c') := by
      apply (List.perm_ext_iff_of_nodup h.cwf.nodup h'.cwf.nodup).mpr
      intro x
      rw [mem_akeys_iff, mem_akeys_iff, ← Corpus.get_ne_nil h.cwf, ← Corpus.get_ne_nil h'.cwf, hc]
    simpa [akeys, specNumDocs] using hp.length_eq
  · intro t
    exact ((List.perm_ext_iff_of_nodup (h.set_nodup t) (h'.set_nodup t)).mpr (hmem t)).length_eq
  · intro id
    rw [Bool.eq_iff_iff]
    simp only [(C05_stats h).2.2.1 id, (C05_stats h').2.2.1 id, hc]
  · intro id r r' hr hr'
    obtain ⟨h1, h2, _⟩ := h.doc_some id r hr
    obtain ⟨h1', h2', _⟩ := h'.doc_some id r' hr'
    refine ⟨by rw [h1, h1', hc], fun t => by rw [h2, h2', hc]⟩

/-- "computed from scratch": feeding the live non-empty documents of any corpus to an empty index
as one batch yields an index with that corpus' statistics; by `C05_inv_unique` the index reached
through any history is observably that index. -/
theorem C05_scratch (c : Corpus T) (h : c.WF) :
    TextInv (applyBatch ({} : Index T) c) (Corpus.apply [] c) ∧ ∀ id, (Corpus.apply [] c).get id = c.get id := by
  refine ⟨applyBatch_inv TextInv.empty c, ?_⟩
  intro id
  rw [Corpus.get_apply]
  unfold lastOf
  rw [filter_key_nodup h.nodup]
  unfold Corpus.get
  cases alookup c id <;> simp [alookup]

/-! ### rewrites that keep some statistics, and returns to an earlier text

`C05_maintain` already covers every rewrite.  The corollaries below spell out the cases in which an
implementation is tempted to skip work because "nothing changed": the record written for a non-empty
text depends on the new tokens only; the last text written to a point determines what a search sees,
whatever came in between; returning to an earlier text returns to the earlier observable index;
rotating texts between documents keeps corpus size and every document frequency and still exchanges
the records (so none of these statistics can stand in for a comparison of the records). -/

/-- the record stored for a point whose new text has tokens is computed from the new tokens alone —
length = number of tokens, frequency of `t` = occurrences of `t` — whatever record (same
vocabulary, same length, …) the index held before.  No invariant is needed. -/
theorem C05_rewrite_record (ix : Index T) (id : Id) (toks : List T) (h : toks ≠ []) :
    ∃ r, alookup (processDoc ix (id, toks)).docs id = some r ∧ r.length = toks.length ∧
      ∀ t, freqOf r t = toks.count t := by
  obtain ⟨a, l, rfl⟩ := List.exists_cons_of_ne_nil h
  refine ⟨⟨freqsOf (a :: l), (a :: l).length⟩, ?_, rfl, fun t => freqOf_freqsOf _ _ t⟩
  unfold processDoc
  cases hd : alookup ix.docs id <;> simp [hd, alookup_aput]

/-- only the last text written to a point counts: writing `t1` and then `t2` leaves what a search
can observe exactly as writing `t2` directly (in one batch or across batches; `t1`, `t2` may be
empty = blank-out / removal). -/
theorem C05_last_write_wins {ix : Index T} {c : Corpus T} (h : TextInv ix c) (id : Id) (t1 t2 : List T) :
    ObsEq (processDoc (processDoc ix (id, t1)) (id, t2)) (processDoc ix (id, t2)) := by
  apply C05_inv_unique (C05_maintain (C05_maintain h id t1) id t2) (C05_maintain h id t2)
  intro x
  simp only [Corpus.get_set]
  by_cases hx : id = x <;> simp [hx]

/-- returning to an earlier state: after any detour `mid` (another text, a blank-out, a removal),
writing back the tokens the document had gives back the observable index it had; with
`mid = c.get id` this is "rewriting a document with the same tokens changes nothing". -/
theorem C05_return {ix : Index T} {c : Corpus T} (h : TextInv ix c) (id : Id) (mid : List T) :
    ObsEq (processDoc (processDoc ix (id, mid)) (id, c.get id)) ix := by
  apply C05_inv_unique (C05_maintain (C05_maintain h id mid) id (c.get id)) h
  intro x
  simp only [Corpus.get_set]
  by_cases hx : id = x <;> simp [hx]

/-- exchanging the texts of two documents keeps the corpus size and **every** document frequency,
and exchanges the two documents' token lists (hence, by `C05_maintain` + `C05_stats`, their records
and scores): unchanged corpus statistics do not mean unchanged records. -/
theorem C05_rotate {c : Corpus T} (h : c.WF) (a b : Id) (hab : a ≠ b) :
    let c' := (c.set a (c.get b)).set b (c.get a)
    specNumDocs c' = specNumDocs c ∧ (∀ t, specDf c' t = specDf c t) ∧
    c'.get a = c.get b ∧ c'.get b = c.get a ∧ (∀ id, id ≠ a → id ≠ b → c'.get id = c.get id) := by
  intro c'
  have h1 := Corpus.WF_set h a (c.get b)
  have hb1 : (c.set a (c.get b)).get b = c.get b := by rw [Corpus.get_set]; simp [hab]
  refine ⟨?_, ?_, ?_, ?_, ?_⟩
  · have e1 := Corpus.length_set h a (c.get b)
    have e2 := Corpus.length_set h1 b (c.get a)
    rw [hb1] at e2
    show ((c.set a (c.get b)).set b (c.get a)).length = c.length
    generalize (if c.get a = [] then 0 else 1) = x at e1 e2
    generalize (if c.get b = [] then 0 else 1) = y at e1 e2
    omega
  · intro t
    have e1 := specDf_set h a (c.get b) t
    have e2 := specDf_set h1 b (c.get a) t
    rw [hb1] at e2
    show specDf ((c.set a (c.get b)).set b (c.get a)) t = specDf c t
    omega
  · show ((c.set a (c.get b)).set b (c.get a)).get a = c.get b
    rw [Corpus.get_set, Corpus.get_set]; simp [Ne.symm hab]
  · show ((c.set a (c.get b)).set b (c.get a)).get b = c.get a
    rw [Corpus.get_set]; simp
  · intro id ha hb
    show ((c.set a (c.get b)).set b (c.get a)).get id = c.get id
    rw [Corpus.get_set, Corpus.get_set]; simp [Ne.symm ha, Ne.symm hb]

/-! ### the order inside a batch

`parallelAnalyse` hands the documents of a batch to `NumCPU-1` workers and merges their outputs
without order, so `processAnalysedDoc` sees the batch in *some* order. -/

/-- **forced hypothesis.** If two arrival orders of a batch agree on the relative order of the
changes to each single point, they leave the same corpus — hence (by `C05_maintain`,
`C05_inv_unique`) observably the same index. -/
theorem C05_order (c : Corpus T) (b b' : List (Doc T))
    (hsame : ∀ id, b.filter (fun d => decide (d.1 = id)) = b'.filter (fun d => decide (d.1 = id))) :
    ∀ id, (c.apply b).get id = (c.apply b').get id := by
  intro id
  rw [Corpus.get_apply, Corpus.get_apply]
  unfold lastOf
  rw [hsame id]

/-- in particular: when the ids of a batch are pairwise distinct, every arrival order (every
permutation) gives the same corpus and the same index statistics as the batch order. -/
theorem C05_order_distinct {ix : Index T} {c : Corpus T} (h : TextInv ix c) (b b' : List (Doc T))
    (hperm : b'.Perm b) (hdistinct : (b.map (·.1)).Nodup) :
    TextInv (applyBatch ix b') (c.apply b') ∧ TextInv (applyBatch ix b) (c.apply b) ∧
    ∀ id, (c.apply b').get id = (c.apply b).get id := by
  refine ⟨applyBatch_inv h b', applyBatch_inv h b, C05_order c b' b ?_⟩
  intro id
  have hp : (b'.filter (fun d => decide (d.1 = id))).Perm (b.filter (fun d => decide (d.1 = id))) := hperm.filter _
  have hlen : (b.filter (fun d => decide (d.1 = id))).length ≤ 1 := by
    clear hp hperm
    induction b with
    | nil => simp
    | cons d rest ih =>
      simp only [List.map_cons, List.nodup_cons] at hdistinct
      by_cases hd : d.1 = id
      · have : rest.filter (fun d => decide (d.1 = id)) = [] := by
          rw [List.filter_eq_nil_iff]
          intro e he
          simp only [decide_eq_true_eq]
          intro hid
          exact hdistinct.1 (List.mem_map.mpr ⟨e, he, by rw [hid, hd]⟩)
        simp [List.filter_cons, hd, this]
      · simpa [List.filter_cons, hd] using ih hdistinct.2
  cases hb : b.filter (fun d => decide (d.1 = id)) with
  | nil => rw [hb] at hp; exact hp.eq_nil
  | cons e es =>
    cases es with
    | nil => rw [hb] at hp; exact List.perm_singleton.mp hp
    | cons e' es' => rw [hb] at hlen; simp at hlen

/-- **the excluded point is real** (DESIGN.md §8 no. 12): a batch naming point 1 twice, arriving in
the other order, leaves an index that no longer matches the term of the point's final text although
the corpus (the point store applies the batch in order) says it does. -/
theorem C05_dup_witness :
    let ix0 : Index Nat := applyBatch {} [(1, [10])]
    let b : List (Doc Nat) := [(1, [20, 21]), (1, [30])]
    let q : Query Nat := { terms := [30], all := true, filter := none, limit := 10 }
    matchSet (applyBatch ix0 b.reverse) q = [] ∧
    Matches (Corpus.apply (Corpus.apply ([] : Corpus Nat) [(1, [10])]) b) q 1 ∧
    matchSet (applyBatch ix0 b) q = [1] := by
  refine ⟨by decide, ?_, by decide⟩
  refine ⟨by decide, by decide, ?_, ?_⟩
  · simp only [if_true]; decide
  · intro f hf; cases hf

/-! ### search -/

/-- `C05_match`.  For an index that carries the statistics of corpus `c` (by `C05_history`: after
every history), any sorting routine that returns a sorted permutation, any per-document order in
which the query term set is traversed (Go map order), `Search` succeeds and

* the returned id set and the returned result list name the same documents, without repetition;
* every returned document matches: the query has at least one term, the document is live and
  non-empty, contains all (containsAll) / one (containsAny) of the query terms and is in the
  pre-filter;
* at most `limit` documents are returned; a matching document is left out only when `limit`
  documents are returned and each of them scores at least as high;
* the list is non-increasing in score;
* each score is Σ over the query term set of tf ⊗ idf with term frequency, document length, corpus
  size and document frequency taken from the current corpus, and hybrid score = weight · score. -/
theorem C05_match {S W : Type} (o : ScoreOps S W) (le : S → S → Prop)
    (add_comm : ∀ a b, o.add a b = o.add b a) (add_assoc : ∀ a b c, o.add (o.add a b) c = o.add a (o.add b c))
    (sorter : List (Res S) → List (Res S))
    (hperm : ∀ l, (sorter l).Perm l) (hsorted : ∀ l, (sorter l).Pairwise (fun a b => le b.score a.score))
    {ix : Index T} {c : Corpus T} (hinv : TextInv ix c) (q : Query T) (w : W)
    (ord : Id → List T) (hord : ∀ id, (ord id).Perm (dedup q.terms)) :
    ∃ set rs, searchWith (fun id r => scoreDoc o ix (ord id) r) o.scale sorter ix q w = some (set, rs) ∧
      (∀ id, id ∈ set ↔ id ∈ rs.map (·.id)) ∧
      (rs.map (·.id)).Nodup ∧
      (∀ r ∈ rs, Matches c q r.id) ∧
      rs.length ≤ q.limit ∧
      (∀ id, Matches c q id → id ∉ rs.map (·.id) →
        rs.length = q.limit ∧ ∀ r ∈ rs, le (specScore o c (dedup q.terms) id) r.score) ∧
      rs.Pairwise (fun a b => le b.score a.score) ∧
      (∀ r ∈ rs, r.score = specScore o c (dedup q.terms) r.id ∧ r.hybrid = o.scale w r.score) := by
  -- the score of a stored record does not depend on the traversal order of the term set
  have hscore : ∀ id r, alookup ix.docs id = some r → scoreDoc o ix (ord id) r = specScore o c (dedup q.terms) id := by
    intro id r hr
    rw [← scoreDoc_eq_spec o hinv (dedup q.terms) id r hr]
    unfold scoreDoc
    apply List.Perm.foldl_eq' (hord id)
    intro x _ y _ z
    rw [add_assoc, add_assoc, add_comm (o.mul _ _)]
  -- all candidate documents have a record
  let mk : Id → Res S := fun id => ⟨id, specScore o c (dedup q.terms) id, o.scale w (specScore o c (dedup q.terms) id)⟩
  have hmap : optMap (fun id => (alookup ix.docs id).map (fun r =>
        let s := scoreDoc o ix (ord id) r; (⟨id, s, o.scale w s⟩ : Res S))) (matchSet ix q)
      = some ((matchSet ix q).map mk) := by
    apply optMap_eq_some
    intro id hid
    have hm := (mem_matchSet hinv q id).mp hid
    cases hr : alookup ix.docs id with
    | none => exact absurd ((hinv.doc_none id).mp hr) hm.2.1
    | some r => simp only [Option.map_some, hscore id r hr, mk]
  have hids : ((matchSet ix q).map mk).map (·.id) = matchSet ix q := by simp [mk, List.map_map, Function.comp_def]
  have hsp : (sorter ((matchSet ix q).map mk)).Perm ((matchSet ix q).map mk) := hperm _
  have hsids : ((sorter ((matchSet ix q).map mk)).map (·.id)).Perm (matchSet ix q) := by
    have h1 := hsp.map (fun r : Res S => r.id)
    rw [hids] at h1; exact h1
  have hnd : ((sorter ((matchSet ix q).map mk)).map (·.id)).Nodup := hsids.nodup_iff.mpr (nodup_matchSet hinv q)
  have hmk : ∀ r ∈ sorter ((matchSet ix q).map mk), r = mk r.id ∧ r.id ∈ matchSet ix q := by
    intro r hr
    obtain ⟨id, hid, rfl⟩ := List.mem_map.mp (hsp.mem_iff.mp hr)
    exact ⟨rfl, hid⟩
  unfold searchWith
  simp only [hmap]
  by_cases hcut : (sorter ((matchSet ix q).map mk)).length > q.limit
  · -- more than `limit` candidates: cut, and rebuild the id set from the cut
    simp only [hcut, if_true]
    refine ⟨_, _, rfl, fun id => Iff.rfl, ?_, ?_, ?_, ?_, ?_, ?_⟩
    · rw [List.map_take]; exact (List.take_sublist _ _).nodup hnd
    · intro r hr
      exact (mem_matchSet hinv q _).mp (hmk r (List.mem_of_mem_take hr)).2
    · simp [List.length_take]; omega
    · intro id hm hnot
      refine ⟨by simp [List.length_take]; omega, ?_⟩
      intro r hr
      -- id sits in the dropped part, r in the kept part of a sorted list
      have hidm : id ∈ (sorter ((matchSet ix q).map mk)).map (·.id) := hsids.mem_iff.mpr ((mem_matchSet hinv q id).mpr hm)
      obtain ⟨r', hr', rfl⟩ := List.mem_map.mp hidm
      have hdrop : r' ∈ (sorter ((matchSet ix q).map mk)).drop q.limit := by
        have := List.take_append_drop q.limit (sorter ((matchSet ix q).map mk))
        rw [← this] at hr'
        rcases List.mem_append.mp hr' with h | h
        · exact absurd (List.mem_map.mpr ⟨r', h, rfl⟩) hnot
        · exact h
      have := pairwise_take_drop (hsorted _) q.limit r hr r' hdrop
      rw [(hmk r' hr').1] at this
      exact this
    · exact (hsorted _).sublist (List.take_sublist _ _)
    · intro r hr
      have := (hmk r (List.mem_of_mem_take hr)).1
      rw [this]; exact ⟨rfl, rfl⟩
  · simp only [hcut, if_false]
    refine ⟨_, _, rfl, ?_, hnd, ?_, by omega, ?_, hsorted _, ?_⟩
    · intro id; exact (hsids.mem_iff).symm
    · intro r hr; exact (mem_matchSet hinv q _).mp (hmk r hr).2
    · intro id hm hnot
      exact absurd (hsids.mem_iff.mpr ((mem_matchSet hinv q id).mpr hm)) hnot
    · intro r hr
      have := (hmk r hr).1
      rw [this]; exact ⟨rfl, rfl⟩

/-- a query that analyses to zero terms matches nothing, for both operators -/
theorem C05_empty_query (ix : Index T) (all : Bool) (f : Option (List Id)) (limit : Nat) :
    matchSet ix { terms := [], all := all, filter := f, limit := limit } = [] := by
  cases all <;> cases f <;> simp [matchSet, dedup, interAll, unionAll]

/-! ### non-vacuity: the hypotheses are satisfiable on a non-trivial state -/

/-- a three-batch history: insert two documents, rewrite one and blank out the other, re-insert -/
def exHistory : List (List (Doc Nat)) :=
  [[(2, [7, 8, 7]), (3, [8, 9])], [(2, [9]), (3, [])], [(3, [7, 7, 7]), (4, [])]]

example : TextInv (exHistory.foldl applyBatch ({} : Index Nat)) (exHistory.foldl Corpus.apply []) :=
  C05_history exHistory

example : (exHistory.foldl applyBatch ({} : Index Nat)).numDocs = 2 ∧
    getSet (exHistory.foldl applyBatch ({} : Index Nat)).sets 7 = [3] ∧
    getSet (exHistory.foldl applyBatch ({} : Index Nat)).sets 8 = [] := by decide

/-- an instance of the score arithmetic and of the sorter (insertion sort on `Nat` scores) -/
def exOps : ScoreOps Nat Nat :=
  { zero := 0, add := (· + ·), tf := fun f l => f * 100 / l, idf := fun n k => n + k, mul := (· * ·), scale := (· * ·) }

def exInsert (r : Res Nat) : List (Res Nat) → List (Res Nat)
  | [] => [r]
  | x :: l => if x.score ≤ r.score then r :: x :: l else x :: exInsert r l

def exSort (l : List (Res Nat)) : List (Res Nat) := l.foldr exInsert []

example : (searchWith (fun _ r => scoreDoc exOps (exHistory.foldl applyBatch ({} : Index Nat)) [7, 9] r) exOps.scale exSort
      (exHistory.foldl applyBatch ({} : Index Nat)) { terms := [9, 7, 9], all := false, filter := none, limit := 1 } 2).map
      (fun p => (p.1, p.2.map (·.id))) = some ([3], [3]) := by decide

example : Matches (exHistory.foldl Corpus.apply ([] : Corpus Nat)) { terms := [9, 7, 9], all := false, filter := some [2, 3], limit := 1 } 2 := by
  refine ⟨by decide, by decide, ?_, ?_⟩
  · simp only [Bool.false_eq_true, if_false]; exact ⟨9, by decide, by decide⟩
  · intro f hf; cases hf; decide

theorem exInsert_perm (r : Res Nat) (l : List (Res Nat)) : (exInsert r l).Perm (r :: l) := by
  induction l with
  | nil => exact List.Perm.refl _
  | cons x l ih =>
    unfold exInsert
    split
    · exact List.Perm.refl _
    · exact (List.Perm.cons x ih).trans (List.Perm.swap r x l)

theorem exSort_perm (l : List (Res Nat)) : (exSort l).Perm l := by
  induction l with
  | nil => exact List.Perm.refl _
  | cons a l ih => exact (exInsert_perm a _).trans (List.Perm.cons a ih)

theorem exSort_sorted (l : List (Res Nat)) : (exSort l).Pairwise (fun a b => b.score ≤ a.score) := by
  induction l with
  | nil => simp [exSort]
  | cons a l ih =>
    show (exInsert a (exSort l)).Pairwise _
    generalize exSort l = s at ih
    induction s with
    | nil => simp [exInsert]
    | cons x s ihs =>
      unfold exInsert
      rw [List.pairwise_cons] at ih
      split
      · rename_i hxa
        rw [List.pairwise_cons]
        refine ⟨?_, List.pairwise_cons.mpr ih⟩
        intro y hy
        rcases List.mem_cons.mp hy with rfl | hy
        · exact hxa
        · exact Nat.le_trans (ih.1 y hy) hxa
      · rename_i hxa
        rw [List.pairwise_cons]
        refine ⟨?_, ihs ih.2⟩
        intro y hy
        rcases List.mem_cons.mp ((exInsert_perm a s).mem_iff.mp hy) with rfl | hy
        · exact Nat.le_of_lt (Nat.lt_of_not_le hxa)
        · exact ih.1 y hy

/-- every hypothesis of `C05_match` at once: a commutative associative `add`, a sorter that returns
a sorted permutation, an index reached through a history, a term order per document -/
example : ∃ set rs,
    searchWith (fun _ r => scoreDoc exOps (exHistory.foldl applyBatch ({} : Index Nat)) (dedup [9, 7, 9]) r) exOps.scale exSort
      (exHistory.foldl applyBatch ({} : Index Nat)) { terms := [9, 7, 9], all := false, filter := none, limit := 1 } 2 = some (set, rs) ∧
    rs.length ≤ 1 := by
  obtain ⟨set, rs, h, _, _, _, hl, _⟩ := C05_match exOps (· ≤ ·) Nat.add_comm Nat.add_assoc exSort exSort_perm exSort_sorted
    (C05_history exHistory) { terms := [9, 7, 9], all := false, filter := none, limit := 1 } 2
    (fun _ => dedup [9, 7, 9]) (fun _ => List.Perm.refl _)
  exact ⟨set, rs, h, hl⟩

/-- distinct ids: the hypothesis of `C05_order_distinct` holds for a permuted batch -/
example : ([(2, [7]), (3, [8])] : List (Doc Nat)).Perm [(3, [8]), (2, [7])] ∧
    (([(3, [8]), (2, [7])] : List (Doc Nat)).map (·.1)).Nodup := by
  refine ⟨List.Perm.swap _ _ _, by decide⟩

/-- **the statistics a shortcut might compare do not determine the score.**  Rewriting
`[1,1,2]` into `[1,2,2]` keeps the vocabulary, the length, the multiset of frequencies, the corpus
size and every document frequency — and changes the score of the document for the query `[1]`. -/
theorem C05_preserved_statistics_witness :
    let old : List Nat := [1, 1, 2]
    let new : List Nat := [1, 2, 2]
    let c : Corpus Nat := [(5, old), (6, [1, 3])]
    let c' := c.set 5 new
    (∀ t, t ∈ old ↔ t ∈ new) ∧ old.length = new.length ∧
    ((dedup old).map old.count).Perm ((dedup new).map new.count) ∧
    specNumDocs c' = specNumDocs c ∧ (∀ t, specDf c' t = specDf c t) ∧
    specScore exOps c' [1] 5 ≠ specScore exOps c [1] 5 := by
  intro old new c c'
  have hwf : c.WF := ⟨by decide, by decide⟩
  have hv : ∀ t, t ∈ old ↔ t ∈ new := by intro t; simp [old, new]
  refine ⟨hv, rfl, by decide, by decide, ?_, by decide⟩
  intro t
  have e := specDf_set hwf 5 new t
  have hg : c.get 5 = old := by decide
  rw [hg] at e
  show specDf (c.set 5 new) t = specDf c t
  by_cases ht : t ∈ old
  · have := (hv t).mp ht; simp [ht, this] at e; exact e
  · have : t ∉ new := fun hn => ht ((hv t).mpr hn)
    simp [ht, this] at e; exact e


/-- `C05_last_write_wins` / `C05_return` on an index reached through a history; `C05_rotate` on a
concrete corpus with two different documents -/
example : ObsEq (processDoc (processDoc (exHistory.foldl applyBatch ({} : Index Nat)) (2, [])) (2, [5, 5, 9]))
    (processDoc (exHistory.foldl applyBatch ({} : Index Nat)) (2, [5, 5, 9])) :=
  C05_last_write_wins (C05_history exHistory) 2 [] [5, 5, 9]

example : (exHistory.foldl Corpus.apply ([] : Corpus Nat)).get 3 = [7, 7, 7] ∧
    ObsEq (processDoc (processDoc (exHistory.foldl applyBatch ({} : Index Nat)) (3, [])) (3, [7, 7, 7]))
      (exHistory.foldl applyBatch ({} : Index Nat)) :=
  ⟨by decide, C05_return (C05_history exHistory) 3 []⟩

example : Corpus.WF ([(1, [4, 4, 5]), (2, [5, 6])] : Corpus Nat) ∧ (1 : Id) ≠ 2 ∧
    ([(1, [4, 4, 5]), (2, [5, 6])] : Corpus Nat).get 1 ≠ ([(1, [4, 4, 5]), (2, [5, 6])] : Corpus Nat).get 2 :=
  ⟨⟨by decide, by decide⟩, by decide, by decide⟩

/-! ### tie (T2): the text the model was transcribed from: see `Pins.lean` (a module of its own, built by C05's check only) -/

end Sema.C05
