/-
C05 — text search matches, ranks and limits by tf-idf over the current corpus.

Model: SemaModel/C05/Model.lean (transcription of shard/index/text/text.go and of the text arm of
shard/index/dispatch.go).  Everything here is unbounded: any term type, any history, any query,
any score arithmetic (`ScoreOps`), any total preorder on scores, any sorting routine that returns
a sorted permutation (Go's unstable pdqsort is one).

Only the property theorems and their non-vacuity examples live in this file.
-/
import SemaModel.C05.Lemmas
import SemaModel.Generated.FactsC05
namespace Sema.C05

variable {T : Type} [DecidableEq T]

/-! ### statistics follow the corpus -/

/-- `processAnalysedDoc` keeps "postings, document records and numDocs are those of the corpus", in
each of its four arms: skip (absent, zero tokens), insert (absent, tokens), delete / blank-out
(present, zero tokens), rewrite (present, tokens). -/
theorem C05_maintain {ix : Index T} {c : Corpus T} (h : TextInv ix c) (id : Id) (toks : List T) :
    TextInv (processDoc ix (id, toks)) (c.set id toks) :=
  processDoc_inv h id toks

/-- the write-back keeps the invariant and stores no empty posting -/
theorem C05_flush {ix : Index T} {c : Corpus T} (h : TextInv ix c) :
    TextInv (flush ix) c ∧ ∀ e ∈ (flush ix).sets, e.2 ≠ [] :=
  ⟨flush_inv h, flush_no_empty ix⟩

/-- every history of write batches (insert, rewrite, blank out, delete — in any mix, any number,
the same id any number of times) leaves the index with exactly the statistics of the documents that
are live and non-empty after the history.  Batches are applied in arrival order. -/
theorem C05_history (batches : List (List (Doc T))) :
    TextInv (batches.foldl applyBatch ({} : Index T)) (batches.foldl Corpus.apply ([] : Corpus T)) := by
  suffices h : ∀ (ix : Index T) (c : Corpus T), TextInv ix c →
      TextInv (batches.foldl applyBatch ix) (batches.foldl Corpus.apply c) from h _ _ TextInv.empty
  induction batches with
  | nil => intro ix c h; exact h
  | cons b rest ih => intro ix c h; exact ih _ _ (applyBatch_inv h b)

/-- what the invariant says about the numbers the scoring reads: corpus size, document frequency,
term frequency and document length are those of the current corpus, and a document record exists
exactly for the live non-empty documents. -/
theorem C05_stats {ix : Index T} {c : Corpus T} (h : TextInv ix c) :
    ix.numDocs = specNumDocs c ∧
    (∀ t, (getSet ix.sets t).length = (c.filter (fun e => decide (t ∈ e.2))).length) ∧
    (∀ id, (alookup ix.docs id).isSome ↔ c.get id ≠ []) ∧
    (∀ id r, alookup ix.docs id = some r → r.length = (c.get id).length ∧ ∀ t, freqOf r t = (c.get id).count t) := by
  refine ⟨h.num, ?_, ?_, ?_⟩
  · intro t
    have hperm : (getSet ix.sets t).Perm (akeys (c.filter (fun e => decide (t ∈ e.2)))) := by
      apply (List.perm_ext_iff_of_nodup (h.set_nodup t) (nodup_akeys_filter h.cwf.nodup _)).mpr
      intro x
      rw [h.mem_set]
      simp only [akeys, List.mem_map, List.mem_filter, decide_eq_true_eq]
      constructor
      · intro hx
        have hne : c.get x ≠ [] := by intro hn; rw [hn] at hx; simp at hx
        have hsome := (Corpus.get_ne_nil h.cwf x).mp hne
        cases hl : alookup c x with
        | none => exact absurd hl hsome
        | some v =>
          refine ⟨(x, v), ⟨alookup_mem hl, ?_⟩, rfl⟩
          simpa [Corpus.get, hl] using hx
      · rintro ⟨⟨k, v⟩, ⟨hm, ht⟩, rfl⟩
        have := alookup_of_mem h.cwf.nodup hm
        simpa [Corpus.get, this] using ht
    rw [hperm.length_eq]; simp [akeys]
  · intro id
    have := h.doc_none id
    cases hl : alookup ix.docs id with
    | none => simp [this.mp hl]
    | some r =>
      simp only [Option.isSome_some, true_iff]
      intro hn; rw [this.mpr hn] at hl; cases hl
  · intro id r hr
    exact ⟨(h.doc_some id r hr).1, (h.doc_some id r hr).2.1⟩

/-- the invariant determines everything a search can observe: two indexes that carry the
statistics of corpora with the same documents answer alike.  (So "equal to the index computed from
scratch" is meant up to the order inside Go maps and bitmaps.) -/
theorem C05_inv_unique {ix ix' : Index T} {c c' : Corpus T} (h : TextInv ix c) (h' : TextInv ix' c')
    (hc : ∀ id, c.get id = c'.get id) :
    ix.numDocs = ix'.numDocs ∧
    (∀ t id, id ∈ getSet ix.sets t ↔ id ∈ getSet ix'.sets t) ∧
    (∀ t, (getSet ix.sets t).length = (getSet ix'.sets t).length) ∧
    (∀ id, (alookup ix.docs id).isSome = (alookup ix'.docs id).isSome) ∧
    (∀ id r r', alookup ix.docs id = some r → alookup ix'.docs id = some r' →
      r.length = r'.length ∧ ∀ t, freqOf r t = freqOf r' t) := by
  have hmem : ∀ t id, id ∈ getSet ix.sets t ↔ id ∈ getSet ix'.sets t := by
    intro t id; rw [h.mem_set, h'.mem_set, hc]
  refine ⟨?_, hmem, ?_, ?_, ?_⟩
  · rw [h.num, h'.num]
    have hp : (akeys c).Perm (akeys c') := by
      apply (List.perm_ext_iff_of_nodup h.cwf.nodup h'.cwf.nodup).mpr
      intro x
      rw [mem_akeys_iff, mem_akeys_iff, ← Corpus.get_ne_nil h.cwf, ← Corpus.get_ne_nil h'.cwf, hc]
    simpa [akeys, specNumDocs] using hp.length_eq
  · intro t
    exact ((List.perm_ext_iff_of_nodup (h.set_nodup t) (h'.set_nodup t)).mpr (hmem t)).length_eq
  · intro id
    rw [Bool.eq_iff_iff]
    simp only [(C05_stats h).2.2.1 id, (C05_stats h').2.2.1 id, hc]
  · intro id r r' hr hr'
    obtain ⟨h1, h2, _⟩ := h.doc_some id r hr
    obtain ⟨h1', h2', _⟩ := h'.doc_some id r' hr'
    refine ⟨by rw [h1, h1', hc], fun t => by rw [h2, h2', hc]⟩

/-- "computed from scratch": feeding the live non-empty documents of any corpus to an empty index
as one batch yields an index with that corpus' statistics; by `C05_inv_unique` the index reached
through any history is observably that index. -/
theorem C05_scratch (c : Corpus T) (h : c.WF) :
    TextInv (applyBatch ({} : Index T) c) (Corpus.apply [] c) ∧ ∀ id, (Corpus.apply [] c).get id = c.get id := by
  refine ⟨applyBatch_inv TextInv.empty c, ?_⟩
  intro id
  rw [Corpus.get_apply]
  unfold lastOf
  rw [filter_key_nodup h.nodup]
  unfold Corpus.get
  cases alookup c id <;> simp [alookup]

/-! ### rewrites that keep some statistics, and returns to an earlier text

`C05_maintain` already covers every rewrite.  The corollaries below spell out the cases in which an
implementation is tempted to skip work because "nothing changed": the record written for a non-empty
text depends on the new tokens only; the last text written to a point determines what a search sees,
whatever came in between; returning to an earlier text returns to the earlier observable index;
rotating texts between documents keeps corpus size and every document frequency and still exchanges
the records (so none of these statistics can stand in for a comparison of the records). -/

/-- the record stored for a point whose new text has tokens is computed from the new tokens alone —
length = number of tokens, frequency of `t` = occurrences of `t` — whatever record (same
vocabulary, same length, …) the index held before.  No invariant is needed. -/
theorem C05_rewrite_record (ix : Index T) (id : Id) (toks : List T) (h : toks ≠ []) :
    ∃ r, alookup (processDoc ix (id, toks)).docs id = some r ∧ r.length = toks.length ∧
      ∀ t, freqOf r t = toks.count t := by
  obtain ⟨a, l, rfl⟩ := List.exists_cons_of_ne_nil h
  refine ⟨⟨freqsOf (a :: l), (a :: l).length⟩, ?_, rfl, fun t => freqOf_freqsOf _ _ t⟩
  unfold processDoc
  cases hd : alookup ix.docs id <;> simp [hd, alookup_aput]

/-- only the last text written to a point counts: writing `t1` and then `t2` leaves what a search
can observe exactly as writing `t2` directly (in one batch or across batches; `t1`, `t2` may be
empty = blank-out / removal). -/
theorem C05_last_write_wins {ix : Index T} {c : Corpus T} (h : TextInv ix c) (id : Id) (t1 t2 : List T) :
    ObsEq (processDoc (processDoc ix (id, t1)) (id, t2)) (processDoc ix (id, t2)) := by
  apply C05_inv_unique (C05_maintain (C05_maintain h id t1) id t2) (C05_maintain h id t2)
  intro x
  simp only [Corpus.get_set]
  by_cases hx : id = x <;> simp [hx]

/-- returning to an earlier state: after any detour `mid` (another text, a blank-out, a removal),
writing back the tokens the document had gives back the observable index it had; with
`mid = c.get id` this is "rewriting a document with the same tokens changes nothing". -/
theorem C05_return {ix : Index T} {c : Corpus T} (h : TextInv ix c) (id : Id) (mid : List T) :
    ObsEq (processDoc (processDoc ix (id, mid)) (id, c.get id)) ix := by
  apply C05_inv_unique (C05_maintain (C05_maintain h id mid) id (c.get id)) h
  intro x
  simp only [Corpus.get_set]
  by_cases hx : id = x <;> simp [hx]

/-- exchanging the texts of two documents keeps the corpus size and **every** document frequency,
and exchanges the two documents' token lists (hence, by `C05_maintain` + `C05_stats`, their records
and scores): unchanged corpus statistics do not mean unchanged records. -/
theorem C05_rotate {c : Corpus T} (h : c.WF) (a b : Id) (hab : a ≠ b) :
    let c' := (c.set a (c.get b)).set b (c.get a)
    specNumDocs c' = specNumDocs c ∧ (∀ t, specDf c' t = specDf c t) ∧
    c'.get a = c.get b ∧ c'.get b = c.get a ∧ (∀ id, id ≠ a → id ≠ b → c'.get id = c.get id) := by
  intro c'
  have h1 := Corpus.WF_set h a (c.get b)
  have hb1 : (c.set a (c.get b)).get b = c.get b := by rw [Corpus.get_set]; simp [hab]
  refine ⟨?_, ?_, ?_, ?_, ?_⟩
  · have e1 := Corpus.length_set h a (c.get b)
    have e2 := Corpus.length_set h1 b (c.get a)
    rw [hb1] at e2
    show ((c.set a (c.get b)).set b (c.get a)).length = c.length
    generalize (if c.get a = [] then 0 else 1) = x at e1 e2
    generalize (if c.get b = [] then 0 else 1) = y at e1 e2
    omega
  · intro t
    have e1 := specDf_set h a (c.get b) t
    have e2 := specDf_set h1 b (c.get a) t
    rw [hb1] at e2
    show specDf ((c.set a (c.get b)).set b (c.get a)) t = specDf c t
    omega
  · show ((c.set a (c.get b)).set b (c.get a)).get a = c.get b
    rw [Corpus.get_set, Corpus.get_set]; simp [Ne.symm hab]
  · show ((c.set a (c.get b)).set b (c.get a)).get b = c.get a
    rw [Corpus.get_set]; simp
  · intro id ha hb
    show ((c.set a (c.get b)).set b (c.get a)).get id = c.get id
    rw [Corpus.get_set, Corpus.get_set]; simp [Ne.symm ha, Ne.symm hb]

/-! ### the order inside a batch

`parallelAnalyse` hands the documents of a batch to `NumCPU-1` workers and merges their outputs
without order, so `processAnalysedDoc` sees the batch in *some* order. -/

/-- **forced hypothesis.** If two arrival orders of a batch agree on the relative order of the
changes to each single point, they leave the same corpus — hence (by `C05_maintain`,
`C05_inv_unique`) observably the same index. -/
theorem C05_order (c : Corpus T) (b b' : List (Doc T))
    (hsame : ∀ id, b.filter (fun d => decide (d.1 = id)) = b'.filter (fun d => decide (d.1 = id))) :
    ∀ id, (c.apply b).get id = (c.apply b').get id := by
  intro id
  rw [Corpus.get_apply, Corpus.get_apply]
  unfold lastOf
  rw [hsame id]

/-- in particular: when the ids of a batch are pairwise distinct, every arrival order (every
permutation) gives the same corpus and the same index statistics as the batch order. -/
theorem C05_order_distinct {ix : Index T} {c : Corpus T} (h : TextInv ix c) (b b' : List (Doc T))
    (hperm : b'.Perm b) (hdistinct : (b.map (·.1)).Nodup) :
    TextInv (applyBatch ix b') (c.apply b') ∧ TextInv (applyBatch ix b) (c.apply b) ∧
    ∀ id, (c.apply b').get id = (c.apply b).get id := by
  refine ⟨applyBatch_inv h b', applyBatch_inv h b, C05_order c b' b ?_⟩
  intro id
  have hp : (b'.filter (fun d => decide (d.1 = id))).Perm (b.filter (fun d => decide (d.1 = id))) := hperm.filter _
  have hlen : (b.filter (fun d => decide (d.1 = id))).length ≤ 1 := by
    clear hp hperm
    induction b with
    | nil => simp
    | cons d rest ih =>
      simp only [List.map_cons, List.nodup_cons] at hdistinct
      by_cases hd : d.1 = id
      · have : rest.filter (fun d => decide (d.1 = id)) = [] := by
          rw [List.filter_eq_nil_iff]
          intro e he
          simp only [decide_eq_true_eq]
          intro hid
          exact hdistinct.1 (List.mem_map.mpr ⟨e, he, by rw [hid, hd]⟩)
        simp [List.filter_cons, hd, this]
      · simpa [List.filter_cons, hd] using ih hdistinct.2
  cases hb : b.filter (fun d => decide (d.1 = id)) with
  | nil => rw [hb] at hp; exact hp.eq_nil
  | cons e es =>
    cases es with
    | nil => rw [hb] at hp; exact List.perm_singleton.mp hp
    | cons e' es' => rw [hb] at hlen; simp at hlen

/-- **the excluded point is real** (DESIGN.md §8 no. 12): a batch naming point 1 twice, arriving in
the other order, leaves an index that no longer matches the term of the point's final text although
the corpus (the point store applies the batch in order) says it does. -/
theorem C05_dup_witness :
    let ix0 : Index Nat := applyBatch {} [(1, [10])]
    let b : List (Doc Nat) := [(1, [20, 21]), (1, [30])]
    let q : Query Nat := { terms := [30], all := true, filter := none, limit := 10 }
    matchSet (applyBatch ix0 b.reverse) q = [] ∧
    Matches (Corpus.apply (Corpus.apply ([] : Corpus Nat) [(1, [10])]) b) q 1 ∧
    matchSet (applyBatch ix0 b) q = [1] := by
  refine ⟨by decide, ?_, by decide⟩
  refine ⟨by decide, by decide, ?_, ?_⟩
  · simp only [if_true]; decide
  · intro f hf; cases hf

/-! ### search -/

/-- `C05_match`.  For an index that carries the statistics of corpus `c` (by `C05_history`: after
every history), any sorting routine that returns a sorted permutation, any per-document order in
which the query term set is traversed (Go map order), `Search` succeeds and

* the returned id set and the returned result list name the same documents, without repetition;
* every returned document matches: the query has at least one term, the document is live and
  non-empty, contains all (containsAll) / one (containsAny) of the query terms and is in the
  pre-filter;
* at most `limit` documents are returned; a matching document is left out only when `limit`
  documents are returned and each of them scores at least as high;
* the list is non-increasing in score;
* each score is Σ over the query term set of tf ⊗ idf with term frequency, document length, corpus
  size and document frequency taken from the current corpus, and hybrid score = weight · score. -/
theorem C05_match {S W : Type} (o : ScoreOps S W) (le : S → S → Prop)
    (add_comm : ∀ a b, o.add a b = o.add b a) (add_assoc : ∀ a b c, o.add (o.add a b) c = o.add a (o.add b c))
    (sorter : List (Res S) → List (Res S))
    (hperm : ∀ l, (sorter l).Perm l) (hsorted : ∀ l, (sorter l).Pairwise (fun a b => le b.score a.score))
    {ix : Index T} {c : Corpus T} (hinv : TextInv ix c) (q : Query T) (w : W)
    (ord : Id → List T) (hord : ∀ id, (ord id).Perm (dedup q.terms)) :
    ∃ set rs, searchWith (fun id r => scoreDoc o ix (ord id) r) o.scale sorter ix q w = some (set, rs) ∧
      (∀ id, id ∈ set ↔ id ∈ rs.map (·.id)) ∧
      (rs.map (·.id)).Nodup ∧
      (∀ r ∈ rs, Matches c q r.id) ∧
      rs.length ≤ q.limit ∧
      (∀ id, Matches c q id → id ∉ rs.map (·.id) →
        rs.length = q.limit ∧ ∀ r ∈ rs, le (specScore o c (dedup q.terms) id) r.score) ∧
      rs.Pairwise (fun a b => le b.score a.score) ∧
      (∀ r ∈ rs, r.score = specScore o c (dedup q.terms) r.id ∧ r.hybrid = o.scale w r.score) := by
  -- the score of a stored record does not depend on the traversal order of the term set
  have hscore : ∀ id r, alookup ix.docs id = some r → scoreDoc o ix (ord id) r = specScore o c (dedup q.terms) id := by
    intro id r hr
    rw [← scoreDoc_eq_spec o hinv (dedup q.terms) id r hr]
    unfold scoreDoc
    apply List.Perm.foldl_eq' (hord id)
    intro x _ y _ z
    rw [add_assoc, add_assoc, add_comm (o.mul _ _)]
  -- all candidate documents have a record
  let mk : Id → Res S := fun id => ⟨id, specScore o c (dedup q.terms) id, o.scale w (specScore o c (dedup q.terms) id)⟩
  have hmap : optMap (fun id => (alookup ix.docs id).map (fun r =>
        let s := scoreDoc o ix (ord id) r; (⟨id, s, o.scale w s⟩ : Res S))) (matchSet ix q)
      = some ((matchSet ix q).map mk) := by
    apply optMap_eq_some
    intro id hid
    have hm := (mem_matchSet hinv q id).mp hid
    cases hr : alookup ix.docs id with
    | none => exact absurd ((hinv.doc_none id).mp hr) hm.2.1
    | some r => simp only [Option.map_some, hscore id r hr, mk]
  have hids : ((matchSet ix q).map mk).map (·.id) = matchSet ix q := by simp [mk, List.map_map, Function.comp_def]
  have hsp : (sorter ((matchSet ix q).map mk)).Perm ((matchSet ix q).map mk) := hperm _
  have hsids : ((sorter ((matchSet ix q).map mk)).map (·.id)).Perm (matchSet ix q) := by
    have h1 := hsp.map (fun r : Res S => r.id)
    rw [hids] at h1; exact h1
  have hnd : ((sorter ((matchSet ix q).map mk)).map (·.id)).Nodup := hsids.nodup_iff.mpr (nodup_matchSet hinv q)
  have hmk : ∀ r ∈ sorter ((matchSet ix q).map mk), r = mk r.id ∧ r.id ∈ matchSet ix q := by
    intro r hr
    obtain ⟨id, hid, rfl⟩ := List.mem_map.mp (hsp.mem_iff.mp hr)
    exact ⟨rfl, hid⟩
  unfold searchWith
  simp only [hmap]
  by_cases hcut : (sorter ((matchSet ix q).map mk)).length > q.limit
  · -- more than `limit` candidates: cut, and rebuild the id set from the cut
    simp only [hcut, if_true]
    refine ⟨_, _, rfl, fun id => Iff.rfl, ?_, ?_, ?_, ?_, ?_, ?_⟩
    · rw [List.map_take]; exact (List.take_sublist _ _).nodup hnd
    · intro r hr
      exact (mem_matchSet hinv q _).mp (hmk r (List.mem_of_mem_take hr)).2
    · simp [List.length_take]; omega
    · intro id hm hnot
      refine ⟨by simp [List.length_take]; omega, ?_⟩
      intro r hr
      -- id sits in the dropped part, r in the kept part of a sorted list
      have hidm : id ∈ (sorter ((matchSet ix q).map mk)).map (·.id) := hsids.mem_iff.mpr ((mem_matchSet hinv q id).mpr hm)
      obtain ⟨r', hr', rfl⟩ := List.mem_map.mp hidm
      have hdrop : r' ∈ (sorter ((matchSet ix q).map mk)).drop q.limit := by
        have := List.take_append_drop q.limit (sorter ((matchSet ix q).map mk))
        rw [← this] at hr'
        rcases List.mem_append.mp hr' with h | h
        · exact absurd (List.mem_map.mpr ⟨r', h, rfl⟩) hnot
        · exact h
      have := pairwise_take_drop (hsorted _) q.limit r hr r' hdrop
      rw [(hmk r' hr').1] at this
      exact this
    · exact (hsorted _).sublist (List.take_sublist _ _)
    · intro r hr
      have := (hmk r (List.mem_of_mem_take hr)).1
      rw [this]; exact ⟨rfl, rfl⟩
  · simp only [hcut, if_false]
    refine ⟨_, _, rfl, ?_, hnd, ?_, by omega, ?_, hsorted _, ?_⟩
    · intro id; exact (hsids.mem_iff).symm
    · intro r hr; exact (mem_matchSet hinv q _).mp (hmk r hr).2
    · intro id hm hnot
      exact absurd (hsids.mem_iff.mpr ((mem_matchSet hinv q id).mpr hm)) hnot
    · intro r hr
      have := (hmk r hr).1
      rw [this]; exact ⟨rfl, rfl⟩

/-- a query that analyses to zero terms matches nothing, for both operators -/
theorem C05_empty_query (ix : Index T) (all : Bool) (f : Option (List Id)) (limit : Nat) :
    matchSet ix { terms := [], all := all, filter := f, limit := limit } = [] := by
  cases all <;> cases f <;> simp [matchSet, dedup, interAll, unionAll]

/-! ### non-vacuity: the hypotheses are satisfiable on a non-trivial state -/

/-- a three-batch history: insert two documents, rewrite one and blank out the other, re-insert -/
def exHistory : List (List (Doc Nat)) :=
  [[(2, [7, 8, 7]), (3, [8, 9])], [(2, [9]), (3, [])], [(3, [7, 7, 7]), (4, [])]]

example : TextInv (exHistory.foldl applyBatch ({} : Index Nat)) (exHistory.foldl Corpus.apply []) :=
  C05_history exHistory

example : (exHistory.foldl applyBatch ({} : Index Nat)).numDocs = 2 ∧
    getSet (exHistory.foldl applyBatch ({} : Index Nat)).sets 7 = [3] ∧
    getSet (exHistory.foldl applyBatch ({} : Index Nat)).sets 8 = [] := by decide

/-- an instance of the score arithmetic and of the sorter (insertion sort on `Nat` scores) -/
def exOps : ScoreOps Nat Nat :=
  { zero := 0, add := (· + ·), tf := fun f l => f * 100 / l, idf := fun n k => n + k, mul := (· * ·), scale := (· * ·) }

def exInsert (r : Res Nat) : List (Res Nat) → List (Res Nat)
  | [] => [r]
  | x :: l => if x.score ≤ r.score then r :: x :: l else x :: exInsert r l

def exSort (l : List (Res Nat)) : List (Res Nat) := l.foldr exInsert []

example : (searchWith (fun _ r => scoreDoc exOps (exHistory.foldl applyBatch ({} : Index Nat)) [7, 9] r) exOps.scale exSort
      (exHistory.foldl applyBatch ({} : Index Nat)) { terms := [9, 7, 9], all := false, filter := none, limit := 1 } 2).map
      (fun p => (p.1, p.2.map (·.id))) = some ([3], [3]) := by decide

example : Matches (exHistory.foldl Corpus.apply ([] : Corpus Nat)) { terms := [9, 7, 9], all := false, filter := some [2, 3], limit := 1 } 2 := by
  refine ⟨by decide, by decide, ?_, ?_⟩
  · simp only [Bool.false_eq_true, if_false]; exact ⟨9, by decide, by decide⟩
  · intro f hf; cases hf; decide

theorem exInsert_perm (r : Res Nat) (l : List (Res Nat)) : (exInsert r l).Perm (r :: l) := by
  induction l with
  | nil => exact List.Perm.refl _
  | cons x l ih =>
    unfold exInsert
    split
    · exact List.Perm.refl _
    · exact (List.Perm.cons x ih).trans (List.Perm.swap r x l)

theorem exSort_perm (l : List (Res Nat)) : (exSort l).Perm l := by
  induction l with
  | nil => exact List.Perm.refl _
  | cons a l ih => exact (exInsert_perm a _).trans (List.Perm.cons a ih)

theorem exSort_sorted (l : List (Res Nat)) : (exSort l).Pairwise (fun a b => b.score ≤ a.score) := by
  induction l with
  | nil => simp [exSort]
  | cons a l ih =>
    show (exInsert a (exSort l)).Pairwise _
    generalize exSort l = s at ih
    induction s with
    | nil => simp [exInsert]
    | cons x s ihs =>
      unfold exInsert
      rw [List.pairwise_cons] at ih
      split
      · rename_i hxa
        rw [List.pairwise_cons]
        refine ⟨?_, List.pairwise_cons.mpr ih⟩
        intro y hy
        rcases List.mem_cons.mp hy with rfl | hy
        · exact hxa
        · exact Nat.le_trans (ih.1 y hy) hxa
      · rename_i hxa
        rw [List.pairwise_cons]
        refine ⟨?_, ihs ih.2⟩
        intro y hy
        rcases List.mem_cons.mp ((exInsert_perm a s).mem_iff.mp hy) with rfl | hy
        · exact Nat.le_of_lt (Nat.lt_of_not_le hxa)
        · exact ih.1 y hy

/-- every hypothesis of `C05_match` at once: a commutative associative `add`, a sorter that returns
a sorted permutation, an index reached through a history, a term order per document -/
example : ∃ set rs,
    searchWith (fun _ r => scoreDoc exOps (exHistory.foldl applyBatch ({} : Index Nat)) (dedup [9, 7, 9]) r) exOps.scale exSort
      (exHistory.foldl applyBatch ({} : Index Nat)) { terms := [9, 7, 9], all := false, filter := none, limit := 1 } 2 = some (set, rs) ∧
    rs.length ≤ 1 := by
  obtain ⟨set, rs, h, _, _, _, hl, _⟩ := C05_match exOps (· ≤ ·) Nat.add_comm Nat.add_assoc exSort exSort_perm exSort_sorted
    (C05_history exHistory) { terms := [9, 7, 9], all := false, filter := none, limit := 1 } 2
    (fun _ => dedup [9, 7, 9]) (fun _ => List.Perm.refl _)
  exact ⟨set, rs, h, hl⟩

/-- distinct ids: the hypothesis of `C05_order_distinct` holds for a permuted batch -/
example : ([(2, [7]), (3, [8])] : List (Doc Nat)).Perm [(3, [8]), (2, [7])] ∧
    (([(3, [8]), (2, [7])] : List (Doc Nat)).map (·.1)).Nodup := by
  refine ⟨List.Perm.swap _ _ _, by decide⟩

/-- **the statistics a shortcut might compare do not determine the score.**  Rewriting
`[1,1,2]` into `[1,2,2]` keeps the vocabulary, the length, the multiset of frequencies, the corpus
size and every document frequency — and changes the score of the document for the query `[1]`. -/
theorem C05_preserved_statistics_witness :
    let old : List Nat := [1, 1, 2]
    let new : List Nat := [1, 2, 2]
    let c : Corpus Nat := [(5, old), (6, [1, 3])]
    let c' := c.set 5 new
    (∀ t, t ∈ old ↔ t ∈ new) ∧ old.length = new.length ∧
    ((dedup old).map old.count).Perm ((dedup new).map new.count) ∧
    specNumDocs c' = specNumDocs c ∧ (∀ t, specDf c' t = specDf c t) ∧
    specScore exOps c' [1] 5 ≠ specScore exOps c [1] 5 := by
  intro old new c c'
  have hwf : c.WF := ⟨by decide, by decide⟩
  have hv : ∀ t, t ∈ old ↔ t ∈ new := by intro t; simp [old, new]
  refine ⟨hv, rfl, by decide, by decide, ?_, by decide⟩
  intro t
  have e := specDf_set hwf 5 new t
  have hg : c.get 5 = old := by decide
  rw [hg] at e
  show specDf (c.set 5 new) t = specDf c t
  by_cases ht : t ∈ old
  · have := (hv t).mp ht; simp [ht, this] at e; exact e
  · have : t ∉ new := fun hn => ht ((hv t).mpr hn)
    simp [ht, this] at e; exact e


/-- `C05_last_write_wins` / `C05_return` on an index reached through a history; `C05_rotate` on a
concrete corpus with two different documents -/
example : ObsEq (processDoc (processDoc (exHistory.foldl applyBatch ({} : Index Nat)) (2, [])) (2, [5, 5, 9]))
    (processDoc (exHistory.foldl applyBatch ({} : Index Nat)) (2, [5, 5, 9])) :=
  C05_last_write_wins (C05_history exHistory) 2 [] [5, 5, 9]

example : (exHistory.foldl Corpus.apply ([] : Corpus Nat)).get 3 = [7, 7, 7] ∧
    ObsEq (processDoc (processDoc (exHistory.foldl applyBatch ({} : Index Nat)) (3, [])) (3, [7, 7, 7]))
      (exHistory.foldl applyBatch ({} : Index Nat)) :=
  ⟨by decide, C05_return (C05_history exHistory) 3 []⟩

example : Corpus.WF ([(1, [4, 4, 5]), (2, [5, 6])] : Corpus Nat) ∧ (1 : Id) ≠ 2 ∧
    ([(1, [4, 4, 5]), (2, [5, 6])] : Corpus Nat).get 1 ≠ ([(1, [4, 4, 5]), (2, [5, 6])] : Corpus Nat).get 2 :=
  ⟨⟨by decide, by decide⟩, by decide, by decide⟩

/-! ### tie (T2): the text the model was transcribed from

`tools/facts_c05` regenerates, on every check, the statement skeleton (simple statements and
headers of compound statements, comments and `if err != nil { return … }` plumbing dropped) of every
function `Model.lean` transcribes.  The skeletons below are the ones the model was written from: an
added early return, a skipped change, a narrowed posting set, a changed formula or write-back
condition alters a skeleton and stops the build until model and text have been compared again.
(The correspondence run ties the *behaviour*; this ties the *text*, also where no generated input
happens to exercise a change.) -/

/-- shard/index/text/text.go `indexText.processAnalysedDoc`: the four arms: skip / insert / delete / update (Model.processDoc) -/
example : Gen.FactsC05.processAnalysedDoc = [
  "v3, v4 := v1.docCache.Get(v2.Id)",
  "if v4 != cache.ErrNotFound && v4 != nil {",
  "return fmt.Errorf(\"%w\", v4)",
  "}",
  "v5 := v4 != cache.ErrNotFound",
  "switch {",
  "case !v5 && v2.Length == 0:",
  "case !v5 && v2.Length > 0:",
  "v6 := make(map[string]Term)",
  "for v7, v8 := range v2.Frequencies {",
  "v6[v7] = Term{ Frequency: v8, }",
  "v9, v10 := v1.setCache.Get(v7)",
  "v9.isDirty = v9.set.CheckedAdd(v2.Id) || v9.isDirty",
  "}",
  "v11 := docCacheItem{ Terms: v6, Length: v2.Length, }",
  "v1.docCache.Put(v2.Id, v11)",
  "v1.numDocs += 1",
  "case v2.Length == 0 && v5:",
  "for v12 := range v3.Terms {",
  "v13, v14 := v1.setCache.Get(v12)",
  "v13.isDirty = v13.set.CheckedRemove(v2.Id) || v13.isDirty",
  "}",
  "if v15 := v1.docCache.Delete(v2.Id); v15 != nil {",
  "return fmt.Errorf(\"%w\", v15)",
  "}",
  "v1.numDocs -= 1",
  "case v2.Length > 0 && v5:",
  "for v16 := range v3.Terms {",
  "if _, v17 := v2.Frequencies[v16]; v17 {",
  "continue",
  "}",
  "v18, v19 := v1.setCache.Get(v16)",
  "v18.isDirty = v18.set.CheckedRemove(v2.Id) || v18.isDirty",
  "}",
  "v20 := make(map[string]Term)",
  "for v21, v22 := range v2.Frequencies {",
  "v20[v21] = Term{ Frequency: v22, }",
  "if _, v23 := v3.Terms[v21]; v23 {",
  "continue",
  "}",
  "v24, v25 := v1.setCache.Get(v21)",
  "v24.isDirty = v24.set.CheckedAdd(v2.Id) || v24.isDirty",
  "}",
  "v3.Terms = v20",
  "v3.Length = v2.Length",
  "v1.docCache.Put(v2.Id, v3)",
  "default:",
  "return fmt.Errorf(\"%v %+v\", v5, v2)",
  "}",
  "return nil"
] := rfl

/-- shard/index/text/text.go `indexText.parallelAnalyse`: tokens -> frequencies and length; one worker per id (Model.freqsOf, C05_order) -/
example : Gen.FactsC05.parallelAnalyse = [
  "v4 := max(runtime.NumCPU()-1, 1)",
  "v5 := make([]chan Document, v4)",
  "for v6 := range v5 {",
  "v5[v6] = make(chan Document)",
  "}",
  "go func() { defer func() { for _, b1 := range v5 { close(b1) } }() for a1 := range v3 { select { case v5[a1.Id%uint64(v4)] <- a1: case <-v2.Done(): return } } }()",
  "v7 := make([]<-chan analysedDocument, v4)",
  "v8 := make([]<-chan error, v4)",
  "for v9 := 0; v9 < v4; v9 += 1 {",
  "v10, v11 := utils.TransformWithContext(v2, v5[v9], func(a1 Document) (a2 analysedDocument, a3 bool, a4 error) { a5, a4 := v1.analyser.Analyse(a1.Text) if a4 != nil { return } a6 := make(map[string]int) for _, a7 := range a5 { a6[a7.Term] += 1 } a2.Id = a1.Id a2.Frequencies = a6 a2.Length = len(a5) return })",
  "v7[v9] = v10",
  "v8[v9] = v11",
  "}",
  "return utils.MergeWithContext(v2, v7...), utils.MergeErrorsWithContext(v2, v8...)"
] := rfl

/-- shard/index/text/text.go `indexText.flush`: write-back of _numDocuments and both caches (Model.flush) -/
example : Gen.FactsC05.flush = [
  "v2 := v1.numDocs",
  "if v3 := v1.bucket.Put([]byte(numDocumentsKey), conversion.Uint64ToBytes(v2)); v3 != nil {",
  "return fmt.Errorf(\"%w\", v3)",
  "}",
  "if v4 := v1.setCache.Flush(); v4 != nil {",
  "return fmt.Errorf(\"%w\", v4)",
  "}",
  "if v5 := v1.docCache.Flush(); v5 != nil {",
  "return fmt.Errorf(\"%w\", v5)",
  "}",
  "return nil"
] := rfl

/-- shard/index/text/text.go `indexText.Search`: term set, FastAnd/FastOr, pre-filter, tf-idf, sort, limit cut (Model.matchSet, scoreDoc, searchWith) -/
example : Gen.FactsC05.search = [
  "v1.mu.Lock()",
  "defer v1.mu.Unlock()",
  "v4, v5 := v1.analyser.Analyse(v2.Value)",
  "v6 := make(map[string]struct{})",
  "for _, v7 := range v4 {",
  "v6[v7.Term] = struct{}{}",
  "}",
  "v8 := make([]*roaring64.Bitmap, 0, len(v6))",
  "for v9 := range v6 {",
  "v10, v11 := v1.setCache.Get(v9)",
  "v8 = append(v8, v10.set)",
  "}",
  "var v12 *roaring64.Bitmap",
  "if v2.Operator == models.OperatorContainsAll {",
  "v12 = roaring64.FastAnd(v8...)",
  "} else {",
  "v12 = roaring64.FastOr(v8...)",
  "}",
  "if v3 != nil {",
  "v12 = roaring64.And(v12, v3)",
  "}",
  "var v13 float32 = 1",
  "if v2.Weight != nil {",
  "v13 = *v2.Weight",
  "}",
  "v14 := make([]models.SearchResult, 0, v12.GetCardinality())",
  "v15 := v12.Iterator()",
  "for ; v15.HasNext();  {",
  "v16 := v15.Next()",
  "v17, v18 := v1.docCache.Get(v16)",
  "var v19 float32",
  "for v20 := range v6 {",
  "v21 := 0",
  "if v22, v23 := v17.Terms[v20]; v23 {",
  "v21 = v22.Frequency",
  "}",
  "v24 := float32(v21) / float32(v17.Length)",
  "v25, _ := v1.setCache.Get(v20)",
  "v26 := math.Log10(float64(v1.numDocs) / float64(v25.set.GetCardinality()+1))",
  "v19 += v24 * float32(v26)",
  "}",
  "v27 := models.SearchResult{ NodeId: v16, Score: &v19, HybridScore: v19 * v13, }",
  "v14 = append(v14, v27)",
  "}",
  "slices.SortFunc(v14, func(a1, a2 models.SearchResult) int { return cmp.Compare(*a2.Score, *a1.Score) })",
  "if len(v14) > v2.Limit {",
  "v12.Clear()",
  "v14 = v14[:v2.Limit]",
  "for _, v28 := range v14 {",
  "v12.Add(v28.NodeId)",
  "}",
  "}",
  "return v12, v14, nil"
] := rfl

/-- shard/index/text/text.go `setCacheItem.CheckAndClearDirty`: a posting is written back iff it was changed -/
example : Gen.FactsC05.setCheckAndClearDirty = [
  "if v1.isDirty {",
  "v1.isDirty = false",
  "return true",
  "}",
  "return false"
] := rfl

/-- shard/index/text/text.go `setCacheItem.ReadFrom`: an absent posting key is the empty set (Model.getSet) -/
example : Gen.FactsC05.setReadFrom = [
  "v4 := v3.Get(termKey(v2))",
  "v5 := roaring64.New()",
  "if v4 != nil {",
  "if _, v6 := v5.ReadFrom(bytes.NewReader(v4)); v6 != nil {",
  "return nil, fmt.Errorf(\"%w\", v6)",
  "}",
  "}",
  "v7 := &setCacheItem{ set: v5, }",
  "return v7, nil"
] := rfl

/-- shard/index/text/text.go `setCacheItem.WriteTo`: an empty posting loses its key (Model.flush) -/
example : Gen.FactsC05.setWriteTo = [
  "if v1.set.IsEmpty() {",
  "if v4 := v3.Delete(termKey(v2)); v4 != nil {",
  "return fmt.Errorf(\"%w\", v4)",
  "}",
  "return nil",
  "}",
  "v5, v6 := v1.set.ToBytes()",
  "if v7 := v3.Put(termKey(v2), v5); v7 != nil {",
  "return fmt.Errorf(\"%w\", v7)",
  "}",
  "return nil"
] := rfl

/-- shard/index/text/text.go `docCacheItem.ReadFrom`: an absent record is ErrNotFound (`exists` in processAnalysedDoc) -/
example : Gen.FactsC05.docReadFrom = [
  "v6 := v3.Get(documentKey(v2))",
  "if v6 == nil {",
  "v5 = cache.ErrNotFound",
  "return",
  "}",
  "v5 = msgpack.Unmarshal(v6, &v4)",
  "return"
] := rfl

/-- shard/index/text/text.go `docCacheItem.WriteTo`: record write-back -/
example : Gen.FactsC05.docWriteTo = [
  "if v1.Length == 0 {",
  "if v4 := v3.Delete(documentKey(v2)); v4 != nil {",
  "return fmt.Errorf(\"%w\", v4)",
  "}",
  "return nil",
  "}",
  "v5, v6 := msgpack.Marshal(v1)",
  "if v7 := v3.Put(documentKey(v2), v5); v7 != nil {",
  "return fmt.Errorf(\"%w\", v7)",
  "}",
  "return nil"
] := rfl

/-- shard/index/dispatch.go `preProcessText`: every change that reaches the drain is sent on; absent new text = empty text (Model.dispatchText) -/
example : Gen.FactsC05.preProcessText = [
  "v2.Id = v1.nodeId",
  "if v1.newData != nil {",
  "v5, v6 := v1.newData.(string)",
  "if !v6 {",
  "v4 = fmt.Errorf(\"%v\", v1.newData)",
  "return",
  "}",
  "v2.Text = v5",
  "}",
  "return"
] := rfl

/-- shard/index/utils.go `getOperation`: absent/absent is the only skipped combination (Model.dispatchText) -/
example : Gen.FactsC05.getOperation = [
  "v5, v8 = getPropertyFromBytes(v1, v3, v2)",
  "if v8 != nil {",
  "v8 = fmt.Errorf(\"%s %w\", v2, v8)",
  "return",
  "}",
  "v6, v8 = getPropertyFromBytes(v1, v4, v2)",
  "if v8 != nil {",
  "v8 = fmt.Errorf(\"%s %w\", v2, v8)",
  "return",
  "}",
  "switch {",
  "case v5 == nil && v6 != nil:",
  "v7 = opInsert",
  "case v5 != nil && v6 != nil:",
  "v7 = opUpdate",
  "case v5 != nil && v6 == nil:",
  "v7 = opDelete",
  "case v5 == nil && v6 == nil:",
  "v7 = opSkip",
  "default:",
  "v8 = fmt.Errorf(\"%s %v %v\", v2, v5, v6)",
  "}",
  "return"
] := rfl

end Sema.C05
