/-
C05 — executable model of the text index (shard/index/text/text.go) as it is reached through
shard/index/dispatch.go.  Core-only (linked into the driver).

State of one text index bucket (`index/text/<property>`):
  `t<term>s -> posting bitmap`      ↦ `sets  : term → id list`  (association list, set semantics)
  `d<docId> -> {terms, length}`     ↦ `docs  : id → DocRec`
  `_numDocuments`                   ↦ `numDocs`
`processDoc` transcribes `processAnalysedDoc` arm by arm (exists × new length), `flush` the
write-back (`setCacheItem.WriteTo` deletes the key of an empty posting), `search` transcribes
`indexText.Search`.  The two `ItemCache`s of one `indexText` value are modelled by their write-back
contract (a read sees the earlier writes of the same batch, `Flush` persists all of them); that
contract is exercised by the correspondence run, which compares the bucket after every batch.

Scores live in an arbitrary type `S`; the arithmetic (`tf`, `idf`, `⊗`, `+`, `weight ·`) is a
parameter (`ScoreOps`), so nothing here ever computes a float.
-/
namespace Sema.C05

abbrev Id := Nat

/-! ### association lists (Go maps / bbolt buckets keyed by term or id) -/

def alookup {K V : Type} [DecidableEq K] : List (K × V) → K → Option V
  | [], _ => none
  | (k', v) :: rest, k => if k' = k then some v else alookup rest k

/-- overwrite the binding of `k`, or append one -/
def aput {K V : Type} [DecidableEq K] : List (K × V) → K → V → List (K × V)
  | [], k, v => [(k, v)]
  | (k', v') :: rest, k, v => if k' = k then (k, v) :: rest else (k', v') :: aput rest k v

def aerase {K V : Type} [DecidableEq K] : List (K × V) → K → List (K × V)
  | [], _ => []
  | (k', v') :: rest, k => if k' = k then aerase rest k else (k', v') :: aerase rest k

def akeys {K V : Type} (l : List (K × V)) : List K := l.map (·.1)

/-- duplicates removed (first occurrence from the right is kept; only membership matters) -/
def dedup {A : Type} [DecidableEq A] : List A → List A
  | [] => []
  | a :: l => if a ∈ dedup l then dedup l else a :: dedup l

/-! ### index state -/

/-- `docCacheItem`: `Terms` (term → frequency) and `Length` (number of tokens) -/
structure DocRec (T : Type) where
  freqs : List (T × Nat)
  length : Nat
  deriving Repr

structure Index (T : Type) where
  sets : List (T × List Id) := []
  docs : List (Id × DocRec T) := []
  numDocs : Nat := 0
  deriving Repr

variable {T : Type} [DecidableEq T]

/-- `setCache.Get(term)`: an absent key is the empty set (ReadFrom never fails with NotFound) -/
def getSet (sets : List (T × List Id)) (t : T) : List Id := (alookup sets t).getD []

/-- `set.CheckedAdd(id)` -/
def addTo (sets : List (T × List Id)) (t : T) (id : Id) : List (T × List Id) :=
  let s := getSet sets t
  if id ∈ s then sets else aput sets t (id :: s)

/-- `set.CheckedRemove(id)` -/
def removeFrom (sets : List (T × List Id)) (t : T) (id : Id) : List (T × List Id) :=
  let s := getSet sets t
  if id ∈ s then aput sets t (s.filter (· ≠ id)) else sets

/-- the frequency map built by `parallelAnalyse`: `freq[t.Term]++` over the token list -/
def freqsOf : List T → List (T × Nat)
  | [] => []
  | t :: rest => let f := freqsOf rest; aput f t ((alookup f t).getD 0 + 1)

/-- a document as it reaches `processAnalysedDoc`: node id and analysed token list
(`Length = len(tokens)`, `Frequencies = freqsOf tokens`) -/
abbrev Doc (T : Type) := Id × List T

/-- `processAnalysedDoc`, one arm per (exists, Length = 0) -/
def processDoc (ix : Index T) (d : Doc T) : Index T :=
  let id := d.1
  let fr := freqsOf d.2
  let len := d.2.length
  match alookup ix.docs id, len with
  | none, 0 => ix                                                   -- skip
  | none, _ + 1 =>                                                  -- insert
    { sets := (akeys fr).foldl (fun s t => addTo s t id) ix.sets
      docs := aput ix.docs id ⟨fr, len⟩
      numDocs := ix.numDocs + 1 }
  | some old, 0 =>                                                  -- delete
    { sets := (akeys old.freqs).foldl (fun s t => removeFrom s t id) ix.sets
      docs := aerase ix.docs id
      numDocs := ix.numDocs - 1 }
  | some old, _ + 1 =>                                              -- update
    let s1 := ((akeys old.freqs).filter (fun t => (alookup fr t).isNone)).foldl (fun s t => removeFrom s t id) ix.sets
    let s2 := ((akeys fr).filter (fun t => (alookup old.freqs t).isNone)).foldl (fun s t => addTo s t id) s1
    { sets := s2, docs := aput ix.docs id ⟨fr, len⟩, numDocs := ix.numDocs }

/-- `flush`: `setCacheItem.WriteTo` deletes the key of an empty posting -/
def flush (ix : Index T) : Index T := { ix with sets := ix.sets.filter (fun e => !e.2.isEmpty) }

/-- one write batch as the text index sees it: a fresh `indexText` on the bucket, every analysed
document through `processAnalysedDoc` in arrival order, then `flush` -/
def applyBatch (ix : Index T) (b : List (Doc T)) : Index T := flush (b.foldl processDoc ix)

/-- `getOperation` + `preProcessText` of dispatch.go: what a point change sends to the text index.
`prev`/`cur` = the text property in the old / new point data (`none` = absent).
`none` = opSkip (nothing is sent); a removed field or a deleted point is sent as the empty text. -/
def dispatchText {X : Type} (prev cur : Option X) (empty : X) : Option X :=
  match prev, cur with
  | none, none => none
  | _, some x => some x
  | some _, none => some empty

/-! ### search -/

structure Query (T : Type) where
  terms : List T              -- analysed tokens of `options.Value`, in order, with repeats
  all : Bool                  -- containsAll / containsAny
  filter : Option (List Id)   -- the pre-filter bitmap, when a `filter` query is given
  limit : Nat

structure Res (S : Type) where
  id : Id
  score : S
  hybrid : S
  deriving Repr

/-- `roaring64.FastAnd(sets...)`: no sets → empty -/
def interAll : List (List Id) → List Id
  | [] => []
  | s :: rest => s.filter (fun id => rest.all (fun r => decide (id ∈ r)))

/-- `roaring64.FastOr(sets...)` -/
def unionAll (sets : List (List Id)) : List Id := dedup sets.flatten

/-- the candidate set of `Search`: term set of the query, FastAnd / FastOr, pre-filter -/
def matchSet (ix : Index T) (q : Query T) : List Id :=
  let qts := dedup q.terms
  let sets := qts.map (getSet ix.sets)
  let fs := if q.all then interAll sets else unionAll sets
  match q.filter with
  | none => fs
  | some f => fs.filter (fun id => decide (id ∈ f))

/-- the score arithmetic, left abstract -/
structure ScoreOps (S W : Type) where
  zero : S
  add : S → S → S
  /-- `float32(freq) / float32(docItem.Length)` -/
  tf : Nat → Nat → S
  /-- `math.Log10(float64(numDocs) / float64(df + 1))` — arguments: numDocs, df -/
  idf : Nat → Nat → S
  mul : S → S → S
  /-- `score * weight` -/
  scale : W → S → S

def freqOf (r : DocRec T) (t : T) : Nat := (alookup r.freqs t).getD 0

/-- `score += tf * float32(idf)` over the query term set, in the order `ts` -/
def scoreDoc {S W : Type} (o : ScoreOps S W) (ix : Index T) (ts : List T) (r : DocRec T) : S :=
  ts.foldl (fun acc t => o.add acc (o.mul (o.tf (freqOf r t) r.length) (o.idf ix.numDocs (getSet ix.sets t).length))) o.zero

/-- `for it.HasNext() { docItem, err := docCache.Get(docId); if err != nil { return err } … }` -/
def optMap {A B : Type} (f : A → Option B) : List A → Option (List B)
  | [] => some []
  | a :: l => match f a, optMap f l with
    | some b, some bs => some (b :: bs)
    | _, _ => none

/-- `Search`.  `scoreFn` yields the score of a matching document (the theorems use `scoreDoc`, the
driver a table of the real scores); `sorter` is Go's `slices.SortFunc` (any sorted permutation);
`none` = the error return "error getting doc cache item". -/
def searchWith {S W : Type} (scoreFn : Id → DocRec T → S) (scale : W → S → S)
    (sorter : List (Res S) → List (Res S)) (ix : Index T) (q : Query T) (w : W) :
    Option (List Id × List (Res S)) :=
  let ms := matchSet ix q
  match optMap (fun id => (alookup ix.docs id).map (fun r => let s := scoreFn id r; (⟨id, s, scale w s⟩ : Res S))) ms with
  | none => none
  | some rs =>
    let sorted := sorter rs
    if sorted.length > q.limit then
      let cut := sorted.take q.limit
      some (cut.map (·.id), cut)
    else some (ms, sorted)

/-! ### the reference the property speaks about: the *current corpus*

`Corpus` = the live documents whose analysed token list is non-empty, by node id.  Statistics are
computed from it from scratch. -/

abbrev Corpus (T : Type) := List (Id × List T)

/-- token list of a document; `[]` = no such document (or one that analyses to zero tokens) -/
def Corpus.get (c : Corpus T) (id : Id) : List T := (alookup c id).getD []

/-- the text property of point `id` now analyses to `toks` (`[]`: blanked out, removed, deleted) -/
def Corpus.set (c : Corpus T) (id : Id) (toks : List T) : Corpus T :=
  if toks.isEmpty then aerase c id else aput c id toks

def Corpus.apply (c : Corpus T) (b : List (Doc T)) : Corpus T := b.foldl (fun c d => c.set d.1 d.2) c

structure Corpus.WF (c : Corpus T) : Prop where
  nodup : (akeys c).Nodup
  nonempty : ∀ e ∈ c, e.2 ≠ []

/-- corpus size -/
def specNumDocs (c : Corpus T) : Nat := c.length
/-- document frequency of a term -/
def specDf (c : Corpus T) (t : T) : Nat := (c.filter (fun e => decide (t ∈ e.2))).length

/-- Σ over the query term set of tf(t,d) ⊗ idf(numDocs, df t), over the current corpus -/
def specScore {S W : Type} (o : ScoreOps S W) (c : Corpus T) (ts : List T) (id : Id) : S :=
  ts.foldl (fun acc t => o.add acc (o.mul (o.tf ((c.get id).count t) (c.get id).length) (o.idf (specNumDocs c) (specDf c t)))) o.zero

/-- the documented match condition.  A query that analyses to zero terms matches nothing
(interpretation fixed in DESIGN.md, C05). -/
def Matches (c : Corpus T) (q : Query T) (id : Id) : Prop :=
  q.terms ≠ [] ∧ c.get id ≠ [] ∧
  (if q.all then ∀ t ∈ q.terms, t ∈ c.get id else ∃ t ∈ q.terms, t ∈ c.get id) ∧
  (∀ f, q.filter = some f → id ∈ f)

/-- postings, document records and `numDocs` are those of the corpus -/
structure TextInv (ix : Index T) (c : Corpus T) : Prop where
  cwf : c.WF
  sets_nodup : (akeys ix.sets).Nodup
  mem_set : ∀ t id, id ∈ getSet ix.sets t ↔ t ∈ c.get id
  set_nodup : ∀ t, (getSet ix.sets t).Nodup
  doc_none : ∀ id, alookup ix.docs id = none ↔ c.get id = []
  doc_some : ∀ id r, alookup ix.docs id = some r →
    r.length = (c.get id).length ∧ (∀ t, freqOf r t = (c.get id).count t) ∧ (∀ t, t ∈ akeys r.freqs ↔ t ∈ c.get id)
  num : ix.numDocs = specNumDocs c

end Sema.C05
