/- helper lemmas for C05 (text index).  Core-only. -/
import SemaModel.C05.Model
namespace Sema.C05

/-! ### association lists -/
section AList
variable {K V : Type} [DecidableEq K]

theorem alookup_aput (l : List (K × V)) (k k' : K) (v : V) :
    alookup (aput l k v) k' = if k = k' then some v else alookup l k' := by
  induction l with
  | nil => simp [aput, alookup]
  | cons e rest ih =>
    obtain ⟨a, b⟩ := e
    by_cases h : a = k
    · subst h; simp only [aput, if_true, alookup]
      by_cases h2 : a = k' <;> simp [h2]
    · simp only [aput, h, if_false, alookup, ih]
      by_cases h2 : a = k'
      · subst h2; simp [Ne.symm h]
      · simp [h2]

theorem alookup_aerase (l : List (K × V)) (k k' : K) :
    alookup (aerase l k) k' = if k = k' then none else alookup l k' := by
  induction l with
  | nil => simp [aerase, alookup]
  | cons e rest ih =>
    obtain ⟨a, b⟩ := e
    by_cases h : a = k
    · subst h; simp only [aerase, if_true, ih, alookup]
      by_cases h2 : a = k' <;> simp [h2]
    · simp only [aerase, h, if_false, alookup, ih]
      by_cases h2 : a = k'
      · subst h2; simp [Ne.symm h]
      · simp [h2]

theorem mem_akeys_iff (l : List (K × V)) (k : K) : k ∈ akeys l ↔ alookup l k ≠ none := by
  induction l with
  | nil => simp [akeys, alookup]
  | cons e rest ih =>
    obtain ⟨a, b⟩ := e
    simp only [akeys, List.map_cons, List.mem_cons, alookup] at *
    by_cases h : a = k
    · simp [h]
    · simp [h, Ne.symm h, ih]

theorem alookup_none_iff (l : List (K × V)) (k : K) : alookup l k = none ↔ k ∉ akeys l := by
  rw [mem_akeys_iff]; simp

theorem alookup_mem {l : List (K × V)} {k : K} {v : V} (h : alookup l k = some v) : (k, v) ∈ l := by
  induction l with
  | nil => simp [alookup] at h
  | cons e rest ih =>
    obtain ⟨a, b⟩ := e
    simp only [alookup] at h
    by_cases h2 : a = k
    · simp only [h2, if_true, Option.some.injEq] at h; subst h; subst h2; simp
    · simp only [h2, if_false] at h; exact List.mem_cons_of_mem _ (ih h)

theorem alookup_of_mem {l : List (K × V)} (hn : (akeys l).Nodup) {k : K} {v : V} (h : (k, v) ∈ l) :
    alookup l k = some v := by
  induction l with
  | nil => simp at h
  | cons e rest ih =>
    obtain ⟨a, b⟩ := e
    simp only [akeys, List.map_cons, List.nodup_cons] at hn
    simp only [List.mem_cons, Prod.mk.injEq] at h
    rcases h with ⟨rfl, rfl⟩ | h
    · simp [alookup]
    · have : a ≠ k := by
        intro hak; subst hak
        exact hn.1 (List.mem_map.mpr ⟨(a, v), h, rfl⟩)
      simp only [alookup, this, if_false]
      exact ih hn.2 h

theorem length_aput_none {l : List (K × V)} {k : K} (v : V) (h : alookup l k = none) :
    (aput l k v).length = l.length + 1 := by
  induction l with
  | nil => simp [aput]
  | cons e rest ih =>
    obtain ⟨a, b⟩ := e
    simp only [alookup] at h
    by_cases h2 : a = k
    · simp [h2] at h
    · simp only [h2, if_false] at h
      simp [aput, h2, ih h]

theorem length_aput_some {l : List (K × V)} {k : K} (v : V) (h : alookup l k ≠ none) :
    (aput l k v).length = l.length := by
  induction l with
  | nil => simp [alookup] at h
  | cons e rest ih =>
    obtain ⟨a, b⟩ := e
    simp only [alookup] at h
    by_cases h2 : a = k
    · simp [aput, h2]
    · simp only [h2, if_false] at h
      simp [aput, h2, ih h]

theorem aerase_of_not_mem {l : List (K × V)} {k : K} (h : k ∉ akeys l) : aerase l k = l := by
  induction l with
  | nil => rfl
  | cons e rest ih =>
    obtain ⟨a, b⟩ := e
    simp only [akeys, List.map_cons, List.mem_cons, not_or] at h
    simp only [aerase, Ne.symm h.1, if_false]
    rw [ih h.2]

theorem length_aerase {l : List (K × V)} (hn : (akeys l).Nodup) {k : K} (h : alookup l k ≠ none) :
    (aerase l k).length + 1 = l.length := by
  induction l with
  | nil => simp [alookup] at h
  | cons e rest ih =>
    obtain ⟨a, b⟩ := e
    simp only [akeys, List.map_cons, List.nodup_cons] at hn
    simp only [alookup] at h
    by_cases h2 : a = k
    · subst h2
      simp only [aerase, if_true]
      rw [aerase_of_not_mem hn.1]; simp
    · simp only [h2, if_false] at h
      simp only [aerase, h2, if_false, List.length_cons]
      rw [ih hn.2 h]

theorem akeys_aput (l : List (K × V)) (k : K) (v : V) :
    ∀ x, x ∈ akeys (aput l k v) ↔ x = k ∨ x ∈ akeys l := by
  intro x
  rw [mem_akeys_iff, alookup_aput, mem_akeys_iff]
  by_cases h : k = x
  · simp [h]
  · simp [h, Ne.symm h]

theorem nodup_akeys_aput {l : List (K × V)} (hn : (akeys l).Nodup) (k : K) (v : V) :
    (akeys (aput l k v)).Nodup := by
  induction l with
  | nil => simp [aput, akeys]
  | cons e rest ih =>
    obtain ⟨a, b⟩ := e
    simp only [akeys, List.map_cons, List.nodup_cons] at hn
    by_cases h2 : a = k
    · subst h2; simpa [aput, akeys] using hn
    · simp only [aput, h2, if_false, akeys, List.map_cons, List.nodup_cons]
      refine ⟨?_, ih hn.2⟩
      intro hm
      have := (akeys_aput rest k v a).mp hm
      rcases this with h | h
      · exact h2 h
      · exact hn.1 h

theorem akeys_aerase (l : List (K × V)) (k : K) :
    ∀ x, x ∈ akeys (aerase l k) ↔ x ≠ k ∧ x ∈ akeys l := by
  intro x
  rw [mem_akeys_iff, alookup_aerase, mem_akeys_iff]
  by_cases h : k = x
  · simp [h]
  · simp [h, Ne.symm h]

theorem nodup_akeys_aerase {l : List (K × V)} (hn : (akeys l).Nodup) (k : K) :
    (akeys (aerase l k)).Nodup := by
  induction l with
  | nil => simp [aerase, akeys]
  | cons e rest ih =>
    obtain ⟨a, b⟩ := e
    simp only [akeys, List.map_cons, List.nodup_cons] at hn
    by_cases h2 : a = k
    · simp only [aerase, h2, if_true]; exact ih hn.2
    · simp only [aerase, h2, if_false, akeys, List.map_cons, List.nodup_cons]
      refine ⟨?_, ih hn.2⟩
      intro hm
      exact hn.1 ((akeys_aerase rest k a).mp hm).2

theorem mem_aerase {l : List (K × V)} {k : K} {e : K × V} (h : e ∈ aerase l k) : e ∈ l ∧ e.1 ≠ k := by
  induction l with
  | nil => simp [aerase] at h
  | cons e' rest ih =>
    obtain ⟨a, b⟩ := e'
    by_cases h2 : a = k
    · simp only [aerase, h2, if_true] at h
      exact ⟨List.mem_cons_of_mem _ (ih h).1, (ih h).2⟩
    · simp only [aerase, h2, if_false, List.mem_cons] at h
      rcases h with rfl | h
      · exact ⟨by simp, h2⟩
      · exact ⟨List.mem_cons_of_mem _ (ih h).1, (ih h).2⟩

theorem mem_aput {l : List (K × V)} {k : K} {v : V} {e : K × V} (h : e ∈ aput l k v) : e = (k, v) ∨ e ∈ l := by
  induction l with
  | nil => simp [aput] at h; exact Or.inl h
  | cons e' rest ih =>
    obtain ⟨a, b⟩ := e'
    by_cases h2 : a = k
    · simp only [aput, h2, if_true, List.mem_cons] at h
      rcases h with h | h
      · exact Or.inl h
      · exact Or.inr (List.mem_cons_of_mem _ h)
    · simp only [aput, h2, if_false, List.mem_cons] at h
      rcases h with h | h
      · exact Or.inr (by simp [h])
      · rcases ih h with h | h
        · exact Or.inl h
        · exact Or.inr (List.mem_cons_of_mem _ h)

/-- lookup in a value-filtered list with unique keys -/
theorem alookup_filter_val {l : List (K × V)} (hn : (akeys l).Nodup) (p : V → Bool) (k : K) :
    alookup (l.filter (fun e => p e.2)) k = (alookup l k).filter p := by
  induction l with
  | nil => simp [alookup]
  | cons e rest ih =>
    obtain ⟨a, b⟩ := e
    simp only [akeys, List.map_cons, List.nodup_cons] at hn
    by_cases h2 : a = k
    · subst h2
      simp only [alookup, if_true]
      by_cases hp : p b
      · simp [List.filter, hp, alookup, Option.filter]
      · have hnone : alookup rest a = none := (alookup_none_iff rest a).mpr hn.1
        simp only [List.filter, hp, Option.filter]
        rw [ih hn.2, hnone]; simp [Option.filter]
    · by_cases hp : p b
      · simp [List.filter, hp, alookup, h2, ih hn.2]
      · simp [List.filter, hp, alookup, h2, ih hn.2]

omit [DecidableEq K] in
theorem nodup_akeys_filter {l : List (K × V)} (hn : (akeys l).Nodup) (p : K × V → Bool) :
    (akeys (l.filter p)).Nodup := by
  unfold akeys at *
  exact (List.Sublist.map _ (List.filter_sublist)).nodup hn

end AList

/-! ### dedup -/
section Dedup
variable {A : Type} [DecidableEq A]

theorem mem_dedup (l : List A) (a : A) : a ∈ dedup l ↔ a ∈ l := by
  induction l with
  | nil => simp [dedup]
  | cons b rest ih =>
    simp only [dedup]
    by_cases h : b ∈ dedup rest
    · simp only [h, if_true, ih, List.mem_cons]
      constructor
      · exact Or.inr
      · rintro (rfl | h2)
        · exact ih.mp h
        · exact h2
    · simp [h, ih]

theorem nodup_dedup (l : List A) : (dedup l).Nodup := by
  induction l with
  | nil => simp [dedup]
  | cons b rest ih =>
    simp only [dedup]
    by_cases h : b ∈ dedup rest
    · simpa [h] using ih
    · simp [h, ih]

theorem dedup_eq_nil (l : List A) : dedup l = [] ↔ l = [] := by
  constructor
  · intro h
    cases l with
    | nil => rfl
    | cons a rest =>
      have : a ∈ dedup (a :: rest) := (mem_dedup _ _).mpr (by simp)
      rw [h] at this; simp at this
  · rintro rfl; rfl

end Dedup

variable {T : Type} [DecidableEq T]

/-! ### frequency maps -/

theorem freqsOf_lookup (toks : List T) (t : T) :
    alookup (freqsOf toks) t = if t ∈ toks then some (toks.count t) else none := by
  induction toks with
  | nil => simp [freqsOf, alookup]
  | cons a rest ih =>
    simp only [freqsOf, alookup_aput]
    by_cases h : a = t
    · subst h
      simp only [if_true, List.mem_cons, true_or, List.count_cons_self, ih]
      by_cases hm : a ∈ rest
      · simp [hm]
      · simp [hm, List.count_eq_zero_of_not_mem hm]
    · simp only [h, if_false, ih, List.mem_cons, Ne.symm h, false_or]
      by_cases hm : t ∈ rest
      · simp [hm, h]
      · simp [hm]

theorem mem_akeys_freqsOf (toks : List T) (t : T) : t ∈ akeys (freqsOf toks) ↔ t ∈ toks := by
  rw [mem_akeys_iff, freqsOf_lookup]
  by_cases h : t ∈ toks <;> simp [h]

theorem freqOf_freqsOf (toks : List T) (n : Nat) (t : T) : freqOf ⟨freqsOf toks, n⟩ t = toks.count t := by
  simp only [freqOf, freqsOf_lookup]
  by_cases h : t ∈ toks
  · simp [h]
  · simp [h, List.count_eq_zero_of_not_mem h]

/-! ### postings -/

theorem getSet_aput (s : List (T × List Id)) (t t' : T) (v : List Id) :
    getSet (aput s t v) t' = if t = t' then v else getSet s t' := by
  simp only [getSet, alookup_aput]
  by_cases h : t = t' <;> simp [h]

theorem mem_getSet_addTo (s : List (T × List Id)) (t t' : T) (id x : Id) :
    x ∈ getSet (addTo s t id) t' ↔ x ∈ getSet s t' ∨ (t' = t ∧ x = id) := by
  unfold addTo
  by_cases hm : id ∈ getSet s t
  · simp only [hm, if_true]
    constructor
    · exact Or.inl
    · rintro (h | ⟨rfl, rfl⟩)
      · exact h
      · exact hm
  · simp only [hm, if_false, getSet_aput]
    by_cases h : t = t'
    · subst h; simp only [if_true, List.mem_cons, true_and]
      constructor
      · rintro (h | h)
        · exact Or.inr h
        · exact Or.inl h
      · rintro (h | h)
        · exact Or.inr h
        · exact Or.inl h
    · simp [h, Ne.symm h]

theorem nodup_getSet_addTo {s : List (T × List Id)} (hn : ∀ t, (getSet s t).Nodup) (t : T) (id : Id) :
    ∀ t', (getSet (addTo s t id) t').Nodup := by
  intro t'
  unfold addTo
  by_cases hm : id ∈ getSet s t
  · simpa [hm] using hn t'
  · simp only [hm, if_false, getSet_aput]
    by_cases h : t = t'
    · simp only [h, if_true, List.nodup_cons]; subst h; exact ⟨hm, hn t⟩
    · simpa [h] using hn t'

theorem nodup_akeys_addTo {s : List (T × List Id)} (hn : (akeys s).Nodup) (t : T) (id : Id) :
    (akeys (addTo s t id)).Nodup := by
  unfold addTo
  by_cases hm : id ∈ getSet s t
  · simpa [hm] using hn
  · simpa [hm] using nodup_akeys_aput hn _ _

theorem mem_getSet_removeFrom (s : List (T × List Id)) (t t' : T) (id x : Id) :
    x ∈ getSet (removeFrom s t id) t' ↔ x ∈ getSet s t' ∧ ¬ (t' = t ∧ x = id) := by
  unfold removeFrom
  by_cases hm : id ∈ getSet s t
  · simp only [hm, if_true, getSet_aput]
    by_cases h : t = t'
    · subst h; simp [List.mem_filter]
    · simp [h, Ne.symm h]
  · simp only [hm, if_false]
    constructor
    · intro h
      refine ⟨h, ?_⟩
      rintro ⟨rfl, rfl⟩
      exact hm h
    · exact fun h => h.1

theorem nodup_getSet_removeFrom {s : List (T × List Id)} (hn : ∀ t, (getSet s t).Nodup) (t : T) (id : Id) :
    ∀ t', (getSet (removeFrom s t id) t').Nodup := by
  intro t'
  unfold removeFrom
  by_cases hm : id ∈ getSet s t
  · simp only [hm, if_true, getSet_aput]
    by_cases h : t = t'
    · simp only [h, if_true]; subst h; exact (hn t).filter _
    · simpa [h] using hn t'
  · simpa [hm] using hn t'

theorem nodup_akeys_removeFrom {s : List (T × List Id)} (hn : (akeys s).Nodup) (t : T) (id : Id) :
    (akeys (removeFrom s t id)).Nodup := by
  unfold removeFrom
  by_cases hm : id ∈ getSet s t
  · simpa [hm] using nodup_akeys_aput hn _ _
  · simpa [hm] using hn

/-- the posting invariants kept while folding over a term list -/
structure SetsOK (s : List (T × List Id)) : Prop where
  keys : (akeys s).Nodup
  sets : ∀ t, (getSet s t).Nodup

theorem fold_addTo (ts : List T) (id : Id) (s : List (T × List Id)) (hs : SetsOK s) :
    SetsOK (ts.foldl (fun s t => addTo s t id) s) ∧
    ∀ t' x, x ∈ getSet (ts.foldl (fun s t => addTo s t id) s) t' ↔ x ∈ getSet s t' ∨ (t' ∈ ts ∧ x = id) := by
  induction ts generalizing s with
  | nil => simp [hs]
  | cons a rest ih =>
    have hs' : SetsOK (addTo s a id) := ⟨nodup_akeys_addTo hs.keys _ _, nodup_getSet_addTo hs.sets _ _⟩
    obtain ⟨h1, h2⟩ := ih (addTo s a id) hs'
    refine ⟨h1, ?_⟩
    intro t' x
    simp only [List.foldl_cons, h2, mem_getSet_addTo, List.mem_cons]
    constructor
    · rintro ((h | ⟨rfl, rfl⟩) | ⟨h, rfl⟩)
      · exact Or.inl h
      · exact Or.inr ⟨Or.inl rfl, rfl⟩
      · exact Or.inr ⟨Or.inr h, rfl⟩
    · rintro (h | ⟨rfl | h, rfl⟩)
      · exact Or.inl (Or.inl h)
      · exact Or.inl (Or.inr ⟨rfl, rfl⟩)
      · exact Or.inr ⟨h, rfl⟩

theorem fold_removeFrom (ts : List T) (id : Id) (s : List (T × List Id)) (hs : SetsOK s) :
    SetsOK (ts.foldl (fun s t => removeFrom s t id) s) ∧
    ∀ t' x, x ∈ getSet (ts.foldl (fun s t => removeFrom s t id) s) t' ↔ x ∈ getSet s t' ∧ ¬ (t' ∈ ts ∧ x = id) := by
  induction ts generalizing s with
  | nil => simp [hs]
  | cons a rest ih =>
    have hs' : SetsOK (removeFrom s a id) := ⟨nodup_akeys_removeFrom hs.keys _ _, nodup_getSet_removeFrom hs.sets _ _⟩
    obtain ⟨h1, h2⟩ := ih (removeFrom s a id) hs'
    refine ⟨h1, ?_⟩
    intro t' x
    simp only [List.foldl_cons, h2, mem_getSet_removeFrom, List.mem_cons]
    constructor
    · rintro ⟨⟨h, hn1⟩, hn2⟩
      refine ⟨h, ?_⟩
      rintro ⟨rfl | h3, rfl⟩
      · exact hn1 ⟨rfl, rfl⟩
      · exact hn2 ⟨h3, rfl⟩
    · rintro ⟨h, hn⟩
      exact ⟨⟨h, fun ⟨h3, h4⟩ => hn ⟨Or.inl h3, h4⟩⟩, fun ⟨h3, h4⟩ => hn ⟨Or.inr h3, h4⟩⟩

/-! ### corpus -/

theorem Corpus.get_set (c : Corpus T) (id id' : Id) (toks : List T) :
    (c.set id toks).get id' = if id = id' then toks else c.get id' := by
  unfold Corpus.set Corpus.get
  by_cases he : toks.isEmpty
  · have : toks = [] := List.isEmpty_iff.mp he
    subst this
    simp only [List.isEmpty_nil, if_true, alookup_aerase]
    by_cases h : id = id' <;> simp [h]
  · rw [if_neg he]
    simp only [alookup_aput]
    by_cases h : id = id' <;> simp [h]

theorem Corpus.WF_set {c : Corpus T} (h : c.WF) (id : Id) (toks : List T) : (c.set id toks).WF := by
  unfold Corpus.set
  by_cases he : toks.isEmpty
  · simp only [he, if_true]
    exact ⟨nodup_akeys_aerase h.nodup _, fun e hm => h.nonempty e (mem_aerase hm).1⟩
  · rw [if_neg he]
    refine ⟨nodup_akeys_aput h.nodup _ _, fun e hm => ?_⟩
    rcases mem_aput hm with rfl | hm
    · simpa [List.isEmpty_iff] using he
    · exact h.nonempty e hm

theorem Corpus.get_eq_nil {c : Corpus T} (h : c.WF) (id : Id) : c.get id = [] ↔ alookup c id = none := by
  unfold Corpus.get
  constructor
  · intro hg
    cases hl : alookup c id with
    | none => rfl
    | some v =>
      rw [hl] at hg
      simp only [Option.getD_some] at hg
      exact absurd hg (h.nonempty _ (alookup_mem hl))
  · intro hl; simp [hl]

theorem Corpus.WF_nil : Corpus.WF ([] : Corpus T) := ⟨by simp [akeys], by simp⟩

theorem Corpus.get_ne_nil {c : Corpus T} (h : c.WF) (id : Id) : c.get id ≠ [] ↔ alookup c id ≠ none := by
  rw [Ne, Corpus.get_eq_nil h]

theorem Corpus.length_set {c : Corpus T} (h : c.WF) (id : Id) (toks : List T) :
    (c.set id toks).length + (if c.get id = [] then 0 else 1) = c.length + (if toks = [] then 0 else 1) := by
  unfold Corpus.set
  by_cases he : toks.isEmpty
  · have ht : toks = [] := List.isEmpty_iff.mp he
    subst ht
    simp only [List.isEmpty_nil, if_true]
    by_cases hg : c.get id = []
    · have := (Corpus.get_eq_nil h id).mp hg
      rw [aerase_of_not_mem ((alookup_none_iff c id).mp this)]; simp [hg]
    · have := (Corpus.get_ne_nil h id).mp hg
      simp only [hg, if_false, Nat.add_zero]
      exact length_aerase h.nodup this
  · have ht : toks ≠ [] := by simpa [List.isEmpty_iff] using he
    rw [if_neg he]
    by_cases hg : c.get id = []
    · have := (Corpus.get_eq_nil h id).mp hg
      simp [hg, ht, length_aput_none toks this]
    · have := (Corpus.get_ne_nil h id).mp hg
      simp [hg, ht, length_aput_some toks this]

/-! ### `processAnalysedDoc` keeps the invariant (one lemma per arm) -/

theorem TextInv.setsOK {ix : Index T} {c : Corpus T} (h : TextInv ix c) : SetsOK ix.sets :=
  ⟨h.sets_nodup, h.set_nodup⟩

theorem processDoc_inv {ix : Index T} {c : Corpus T} (h : TextInv ix c) (id : Id) (toks : List T) :
    TextInv (processDoc ix (id, toks)) (c.set id toks) := by
  have hlen := Corpus.length_set h.cwf id toks
  cases hd : alookup ix.docs id with
  | none =>
    have hg : c.get id = [] := (h.doc_none id).mp hd
    cases toks with
    | nil =>
      -- skip
      have hc : c.set id [] = c := by
        unfold Corpus.set
        simp only [List.isEmpty_nil, if_true]
        exact aerase_of_not_mem ((alookup_none_iff c id).mp ((Corpus.get_eq_nil h.cwf id).mp hg))
      have : processDoc ix (id, []) = ix := by simp [processDoc, hd]
      rw [this, hc]; exact h
    | cons a rest =>
      -- insert
      have hp : processDoc ix (id, a :: rest) =
          { sets := (akeys (freqsOf (a :: rest))).foldl (fun s t => addTo s t id) ix.sets
            docs := aput ix.docs id ⟨freqsOf (a :: rest), (a :: rest).length⟩
            numDocs := ix.numDocs + 1 } := by
        simp [processDoc, hd]
      rw [hp]
      obtain ⟨hok, hmem⟩ := fold_addTo (akeys (freqsOf (a :: rest))) id ix.sets h.setsOK
      refine ⟨Corpus.WF_set h.cwf _ _, hok.keys, ?_, hok.sets, ?_, ?_, ?_⟩
      · intro t x
        simp only [hmem, Corpus.get_set, mem_akeys_freqsOf, h.mem_set]
        by_cases hx : id = x
        · subst hx; simp [hg]
        · simp [hx, Ne.symm hx]
      · intro id'
        simp only [alookup_aput, Corpus.get_set]
        by_cases hx : id = id'
        · simp [hx]
        · simp only [hx, if_false]; exact h.doc_none id'
      · intro id' r
        simp only [alookup_aput, Corpus.get_set]
        by_cases hx : id = id'
        · simp only [hx, if_true, Option.some.injEq]
          rintro rfl
          exact ⟨rfl, freqOf_freqsOf _ _, mem_akeys_freqsOf _⟩
        · simp only [hx, if_false]; exact h.doc_some id' r
      · simp only [specNumDocs] at *
        have := h.num
        simp only [specNumDocs] at this
        simp [hg] at hlen
        omega
  | some old =>
    have hne : c.get id ≠ [] := by
      intro hg; have := (h.doc_none id).mpr hg; rw [hd] at this; cases this
    obtain ⟨_, _, hkeys⟩ := h.doc_some id old hd
    cases toks with
    | nil =>
      -- delete
      have hp : processDoc ix (id, []) =
          { sets := (akeys old.freqs).foldl (fun s t => removeFrom s t id) ix.sets
            docs := aerase ix.docs id
            numDocs := ix.numDocs - 1 } := by
        simp [processDoc, hd]
      rw [hp]
      obtain ⟨hok, hmem⟩ := fold_removeFrom (akeys old.freqs) id ix.sets h.setsOK
      refine ⟨Corpus.WF_set h.cwf _ _, hok.keys, ?_, hok.sets, ?_, ?_, ?_⟩
      · intro t x
        simp only [hmem, Corpus.get_set, hkeys, h.mem_set]
        by_cases hx : id = x
        · subst hx; simp
        · simp [hx, Ne.symm hx]
      · intro id'
        simp only [alookup_aerase, Corpus.get_set]
        by_cases hx : id = id'
        · simp [hx]
        · simp only [hx, if_false]; exact h.doc_none id'
      · intro id' r
        simp only [alookup_aerase, Corpus.get_set]
        by_cases hx : id = id'
        · simp [hx]
        · simp only [hx, if_false]; exact h.doc_some id' r
      · simp only [specNumDocs] at *
        have := h.num
        simp only [specNumDocs] at this
        simp [hne] at hlen
        omega
    | cons a rest =>
      -- update
      have hp : processDoc ix (id, a :: rest) =
          { sets := ((akeys (freqsOf (a :: rest))).filter (fun t => (alookup old.freqs t).isNone)).foldl (fun s t => addTo s t id)
              (((akeys old.freqs).filter (fun t => (alookup (freqsOf (a :: rest)) t).isNone)).foldl (fun s t => removeFrom s t id) ix.sets)
            docs := aput ix.docs id ⟨freqsOf (a :: rest), (a :: rest).length⟩
            numDocs := ix.numDocs } := by
        simp [processDoc, hd]
      rw [hp]
      obtain ⟨hok1, hmem1⟩ := fold_removeFrom ((akeys old.freqs).filter (fun t => (alookup (freqsOf (a :: rest)) t).isNone)) id ix.sets h.setsOK
      obtain ⟨hok2, hmem2⟩ := fold_addTo ((akeys (freqsOf (a :: rest))).filter (fun t => (alookup old.freqs t).isNone)) id _ hok1
      refine ⟨Corpus.WF_set h.cwf _ _, hok2.keys, ?_, hok2.sets, ?_, ?_, ?_⟩
      · intro t x
        have hnone1 : (alookup (freqsOf (a :: rest)) t).isNone = true ↔ t ∉ (a :: rest) := by
          rw [← mem_akeys_freqsOf, mem_akeys_iff]; cases alookup (freqsOf (a :: rest)) t <;> simp
        have hnone2 : (alookup old.freqs t).isNone = true ↔ t ∉ c.get id := by
          rw [← hkeys, mem_akeys_iff]; cases alookup old.freqs t <;> simp
        simp only [hmem2, hmem1, List.mem_filter, hnone1, hnone2, hkeys, mem_akeys_freqsOf, Corpus.get_set, h.mem_set]
        by_cases hx : id = x
        · subst hx
          simp only [if_true, and_true]
          by_cases h1 : t ∈ c.get id <;> by_cases h2 : t ∈ a :: rest <;> simp [h1, h2]
        · simp [hx, Ne.symm hx]
      · intro id'
        simp only [alookup_aput, Corpus.get_set]
        by_cases hx : id = id'
        · simp [hx]
        · simp only [hx, if_false]; exact h.doc_none id'
      · intro id' r
        simp only [alookup_aput, Corpus.get_set]
        by_cases hx : id = id'
        · simp only [hx, if_true, Option.some.injEq]
          rintro rfl
          exact ⟨rfl, freqOf_freqsOf _ _, mem_akeys_freqsOf _⟩
        · simp only [hx, if_false]; exact h.doc_some id' r
      · simp only [specNumDocs] at *
        have := h.num
        simp only [specNumDocs] at this
        simp [hne] at hlen
        omega

theorem getSet_flush {s : List (T × List Id)} (hn : (akeys s).Nodup) (t : T) :
    getSet (s.filter (fun e => !e.2.isEmpty)) t = getSet s t := by
  unfold getSet
  rw [alookup_filter_val hn (fun v => !v.isEmpty)]
  cases alookup s t with
  | none => simp [Option.filter]
  | some v =>
    cases v with
    | nil => simp [Option.filter]
    | cons a r => simp [Option.filter]

theorem flush_inv {ix : Index T} {c : Corpus T} (h : TextInv ix c) : TextInv (flush ix) c := by
  refine ⟨h.cwf, nodup_akeys_filter h.sets_nodup _, ?_, ?_, h.doc_none, h.doc_some, h.num⟩
  · intro t id; simp only [flush, getSet_flush h.sets_nodup]; exact h.mem_set t id
  · intro t; simp only [flush, getSet_flush h.sets_nodup]; exact h.set_nodup t

/-- after `flush` no empty posting is stored -/
theorem flush_no_empty (ix : Index T) : ∀ e ∈ (flush ix).sets, e.2 ≠ [] := by
  intro e he
  simp only [flush, List.mem_filter, Bool.not_eq_true', List.isEmpty_eq_false_iff] at he
  exact he.2

theorem TextInv.empty : TextInv ({} : Index T) ([] : Corpus T) := by
  refine ⟨Corpus.WF_nil, by simp [akeys], ?_, ?_, ?_, ?_, rfl⟩
  · intro t id; simp [getSet, alookup, Corpus.get]
  · intro t; simp [getSet, alookup]
  · intro id; simp [alookup, Corpus.get]
  · intro id r; simp [alookup]

theorem foldl_processDoc_inv {ix : Index T} {c : Corpus T} (h : TextInv ix c) (b : List (Doc T)) :
    TextInv (b.foldl processDoc ix) (c.apply b) := by
  induction b generalizing ix c with
  | nil => exact h
  | cons d rest ih =>
    simp only [List.foldl_cons, Corpus.apply]
    exact ih (processDoc_inv h d.1 d.2)

theorem applyBatch_inv {ix : Index T} {c : Corpus T} (h : TextInv ix c) (b : List (Doc T)) :
    TextInv (applyBatch ix b) (c.apply b) :=
  flush_inv (foldl_processDoc_inv h b)

/-! ### search -/

theorem mem_interAll (sets : List (List Id)) (id : Id) :
    id ∈ interAll sets ↔ sets ≠ [] ∧ ∀ s ∈ sets, id ∈ s := by
  cases sets with
  | nil => simp [interAll]
  | cons s rest => simp [interAll, List.mem_filter, List.all_eq_true]

theorem nodup_interAll {sets : List (List Id)} (h : ∀ s ∈ sets, s.Nodup) : (interAll sets).Nodup := by
  cases sets with
  | nil => simp [interAll]
  | cons s rest => exact (h s (by simp)).filter _

theorem mem_unionAll (sets : List (List Id)) (id : Id) : id ∈ unionAll sets ↔ ∃ s ∈ sets, id ∈ s := by
  simp [unionAll, mem_dedup, List.mem_flatten]

theorem mem_matchSet {ix : Index T} {c : Corpus T} (h : TextInv ix c) (q : Query T) (id : Id) :
    id ∈ matchSet ix q ↔ Matches c q id := by
  have hall : id ∈ interAll ((dedup q.terms).map (getSet ix.sets)) ↔ q.terms ≠ [] ∧ ∀ t ∈ q.terms, t ∈ c.get id := by
    rw [mem_interAll]
    simp only [ne_eq, List.map_eq_nil_iff, dedup_eq_nil, List.mem_map, forall_exists_index, and_imp,
      forall_apply_eq_imp_iff₂, mem_dedup, h.mem_set]
  have hany : id ∈ unionAll ((dedup q.terms).map (getSet ix.sets)) ↔ ∃ t ∈ q.terms, t ∈ c.get id := by
    rw [mem_unionAll]
    simp only [List.mem_map, mem_dedup]
    constructor
    · rintro ⟨s, ⟨t, ht, rfl⟩, hm⟩; exact ⟨t, ht, (h.mem_set t id).mp hm⟩
    · rintro ⟨t, ht, hm⟩; exact ⟨_, ⟨t, ht, rfl⟩, (h.mem_set t id).mpr hm⟩
  have hbase : id ∈ (if q.all then interAll ((dedup q.terms).map (getSet ix.sets)) else unionAll ((dedup q.terms).map (getSet ix.sets))) ↔
      q.terms ≠ [] ∧ c.get id ≠ [] ∧ (if q.all then ∀ t ∈ q.terms, t ∈ c.get id else ∃ t ∈ q.terms, t ∈ c.get id) := by
    by_cases ha : q.all
    · simp only [ha, if_true, hall]
      constructor
      · rintro ⟨h1, h2⟩
        refine ⟨h1, ?_, h2⟩
        cases hq : q.terms with
        | nil => exact absurd hq h1
        | cons t rest =>
          have := h2 t (by simp [hq])
          intro hn; rw [hn] at this; simp at this
      · rintro ⟨h1, _, h2⟩; exact ⟨h1, h2⟩
    · simp only [ha, Bool.false_eq_true, if_false, hany]
      constructor
      · rintro ⟨t, ht, hm⟩
        refine ⟨?_, ?_, t, ht, hm⟩
        · intro hn; rw [hn] at ht; simp at ht
        · intro hn; rw [hn] at hm; simp at hm
      · rintro ⟨_, _, h2⟩; exact h2
  unfold matchSet Matches
  cases hf : q.filter with
  | none => simp only [hbase]; simp
  | some f =>
    simp only [List.mem_filter, hbase, decide_eq_true_eq, Option.some.injEq, forall_eq']
    constructor
    · rintro ⟨⟨h1, h2, h3⟩, h4⟩; exact ⟨h1, h2, h3, h4⟩
    · rintro ⟨h1, h2, h3, h4⟩; exact ⟨⟨h1, h2, h3⟩, h4⟩

theorem nodup_matchSet {ix : Index T} {c : Corpus T} (h : TextInv ix c) (q : Query T) :
    (matchSet ix q).Nodup := by
  have hbase : (if q.all then interAll ((dedup q.terms).map (getSet ix.sets)) else unionAll ((dedup q.terms).map (getSet ix.sets))).Nodup := by
    by_cases ha : q.all
    · simp only [ha, if_true]
      apply nodup_interAll
      intro s hs
      obtain ⟨t, _, rfl⟩ := List.mem_map.mp hs
      exact h.set_nodup t
    · simp only [ha, Bool.false_eq_true, if_false, unionAll]; exact nodup_dedup _
  unfold matchSet
  cases q.filter with
  | none => exact hbase
  | some f => exact hbase.filter _

theorem optMap_eq_some {A B : Type} (f : A → Option B) (g : A → B) (l : List A)
    (h : ∀ a ∈ l, f a = some (g a)) : optMap f l = some (l.map g) := by
  induction l with
  | nil => rfl
  | cons a rest ih =>
    simp only [optMap, h a (by simp), ih (fun x hx => h x (List.mem_cons_of_mem _ hx)), List.map_cons]

/-- the model's score of a stored record is the score over the corpus statistics -/
theorem scoreDoc_eq_spec {S W : Type} (o : ScoreOps S W) {ix : Index T} {c : Corpus T} (h : TextInv ix c)
    (ts : List T) (id : Id) (r : DocRec T) (hr : alookup ix.docs id = some r) :
    scoreDoc o ix ts r = specScore o c ts id := by
  obtain ⟨hl, hf, _⟩ := h.doc_some id r hr
  have hdf : ∀ t, (getSet ix.sets t).length = specDf c t := by
    intro t
    -- both are duplicate-free enumerations of the ids whose document contains t
    have hperm : (getSet ix.sets t).Perm (akeys (c.filter (fun e => decide (t ∈ e.2)))) := by
      apply (List.perm_ext_iff_of_nodup (h.set_nodup t) (nodup_akeys_filter h.cwf.nodup _)).mpr
      intro x
      rw [h.mem_set]
      simp only [akeys, List.mem_map, List.mem_filter, decide_eq_true_eq]
      constructor
      · intro hx
        have hne : c.get x ≠ [] := by intro hn; rw [hn] at hx; simp at hx
        have hsome := (Corpus.get_ne_nil h.cwf x).mp hne
        cases hl : alookup c x with
        | none => exact absurd hl hsome
        | some v =>
          refine ⟨(x, v), ⟨alookup_mem hl, ?_⟩, rfl⟩
          simpa [Corpus.get, hl] using hx
      · rintro ⟨⟨k, v⟩, ⟨hm, ht⟩, rfl⟩
        have := alookup_of_mem h.cwf.nodup hm
        simpa [Corpus.get, this] using ht
    rw [hperm.length_eq]; simp [specDf, akeys]
  unfold scoreDoc specScore
  congr 1
  funext acc t
  rw [hf t, hl, hdf t, h.num]

/-- every sorted list splits into a prefix whose elements dominate the rest -/
theorem pairwise_take_drop {A : Type} {R : A → A → Prop} {l : List A} (h : l.Pairwise R) (k : Nat) :
    ∀ a ∈ l.take k, ∀ b ∈ l.drop k, R a b := by
  have := List.take_append_drop k l
  rw [← this] at h
  exact (List.pairwise_append.mp h).2.2

/-! ### the order inside a batch -/

omit [DecidableEq T] in
theorem filter_key_nodup {V : Type} {l : List (Id × V)} (hn : (akeys l).Nodup) (k : Id) :
    l.filter (fun d => decide (d.1 = k)) = (alookup l k).toList.map (fun v => (k, v)) := by
  induction l with
  | nil => simp [alookup]
  | cons e rest ih =>
    obtain ⟨a, b⟩ := e
    simp only [akeys, List.map_cons, List.nodup_cons] at hn
    by_cases h : a = k
    · subst h
      have hnone : alookup rest a = none := (alookup_none_iff rest a).mpr hn.1
      simp [List.filter_cons, alookup, ih hn.2, hnone]
    · simp [List.filter_cons, alookup, h, ih hn.2]

/-- the last change a batch makes to `id` -/
def lastOf (b : List (Doc T)) (id : Id) : Option (List T) :=
  ((b.filter (fun d => decide (d.1 = id))).getLast?).map (·.2)

theorem Corpus.get_apply (c : Corpus T) (b : List (Doc T)) (id : Id) :
    (c.apply b).get id = (lastOf b id).getD (c.get id) := by
  induction b generalizing c with
  | nil => simp [Corpus.apply, lastOf]
  | cons d rest ih =>
    have : c.apply (d :: rest) = (c.set d.1 d.2).apply rest := by simp [Corpus.apply]
    rw [this, ih, Corpus.get_set]
    unfold lastOf
    by_cases hd : d.1 = id
    · simp only [hd, if_true, List.filter_cons, decide_true]
      cases hf : List.filter (fun d => decide (d.1 = id)) rest with
      | nil => simp
      | cons e es =>
        rw [List.getLast?_cons_cons]
        cases hl : (e :: es).getLast? with
        | none => simp at hl
        | some x => simp
    · simp [hd]


/-! ### counting under one change (document frequency), observational equality -/

section AList
variable {K V : Type} [DecidableEq K]

/-- how many bindings satisfy `p` after `aput` -/
theorem length_filter_aput (l : List (K × V)) (k : K) (v : V) (p : K × V → Bool) :
    ((aput l k v).filter p).length + ((alookup l k).toList.filter (fun v0 => p (k, v0))).length
      = (l.filter p).length + (if p (k, v) then 1 else 0) := by
  induction l with
  | nil => cases hp : p (k, v) <;> simp [aput, alookup, hp]
  | cons e rest ih =>
    obtain ⟨a, b⟩ := e
    by_cases h : a = k
    · subst h
      simp only [aput, if_true, alookup, List.filter_cons, Option.toList]
      cases p (a, v) <;> cases p (a, b) <;> simp <;> omega
    · simp only [aput, h, if_false, alookup, List.filter_cons]
      cases p (a, b) <;> simp <;> omega

theorem length_filter_aerase {l : List (K × V)} (hn : (akeys l).Nodup) (k : K) (p : K × V → Bool) :
    ((aerase l k).filter p).length + ((alookup l k).toList.filter (fun v0 => p (k, v0))).length
      = (l.filter p).length := by
  induction l with
  | nil => simp [aerase, alookup]
  | cons e rest ih =>
    obtain ⟨a, b⟩ := e
    simp only [akeys, List.map_cons, List.nodup_cons] at hn
    by_cases h : a = k
    · subst h
      have : aerase rest a = rest := aerase_of_not_mem hn.1
      simp only [aerase, if_true, this, alookup, List.filter_cons, Option.toList]
      cases p (a, b) <;> simp
    · have := ih hn.2
      simp only [aerase, h, if_false, alookup, List.filter_cons]
      cases p (a, b) <;> simp <;> omega
end AList

/-- document frequency after one change: the changed document leaves the count of `t` if it held
`t` and enters it if its new text holds `t` -/
theorem specDf_set {c : Corpus T} (h : c.WF) (id : Id) (toks : List T) (t : T) :
    specDf (c.set id toks) t + (if t ∈ c.get id then 1 else 0) = specDf c t + (if t ∈ toks then 1 else 0) := by
  have hget : ((alookup c id).toList.filter (fun v0 => (fun e : Id × List T => decide (t ∈ e.2)) (id, v0))).length
      = (if t ∈ c.get id then 1 else 0) := by
    unfold Corpus.get
    cases alookup c id with
    | none => simp
    | some v0 => by_cases hv : t ∈ v0 <;> simp [hv]
  unfold specDf Corpus.set
  by_cases he : toks.isEmpty
  · have ht : toks = [] := List.isEmpty_iff.mp he
    subst ht
    simp only [List.isEmpty_nil, if_true]
    have := length_filter_aerase h.nodup id (fun e : Id × List T => decide (t ∈ e.2))
    rw [hget] at this
    simp [this]
  · rw [if_neg he]
    have := length_filter_aput c id toks (fun e : Id × List T => decide (t ∈ e.2))
    rw [hget] at this
    simpa using this


/-- everything a search reads from an index: corpus size, postings (membership and size), which
documents have a record, and each record's length and frequencies -/
def ObsEq (ix ix' : Index T) : Prop :=
  ix.numDocs = ix'.numDocs ∧
  (∀ t id, id ∈ getSet ix.sets t ↔ id ∈ getSet ix'.sets t) ∧
  (∀ t, (getSet ix.sets t).length = (getSet ix'.sets t).length) ∧
  (∀ id, (alookup ix.docs id).isSome = (alookup ix'.docs id).isSome) ∧
  (∀ id r r', alookup ix.docs id = some r → alookup ix'.docs id = some r' →
    r.length = r'.length ∧ ∀ t, freqOf r t = freqOf r' t)


end Sema.C05
