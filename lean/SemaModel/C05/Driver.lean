/-
line protocol for C05 (stateful): the text index model is driven with the same batches and
queries as the real shard.

  new
  batch <id>:<pc>:<t>,<t>,…;…          one entry per point change, in batch order.  <pc> says whether
                                       the text property is present in the old / new point data
                                       (`ap` insert, `pp` rewrite, `pa` removed or point deleted, `aa` untouched:
                                       `dispatchText` decides what reaches the index); terms are hex strings of
                                       the analysed tokens of the new text; `batch -` = empty
  search <all|any> limit=<n> filter=<-|id,id,…> q=<-|t,t,…> sc=<-|id:score:hybrid,…> pick=<-|id,id,…>

`sc` carries, for every candidate the harness knows of, the float32 bit patterns of `_score` and
`_hybridScore` *as returned by the real code* — the model never computes a float; it orders the
patterns by `F32.key` (IEEE order on non-NaN values, -0 = +0).  `pick` is the order in which the
implementation returned the documents; it is used only to break ties between equal scores (Go's
sort is unstable: any sorted permutation is a correct answer, see `C05_match`).

  scorecheck w=<-|hex32> q=<-|t,t,…> sc=<id:score:hybrid,…>          (state unchanged)

The FORMULA line: for every listed document the driver evaluates the expression generated from text.go
(`scoreGen`: the generated loop body folded over the query term set, on the MODEL's index state — its
numDocs, posting sizes, document record) with hardware floats and answers `ok n=<k>` when for some order
of the term set (Go ranges over a map) the result is the real `_score` (bit for bit; at most `scoreUlp`
float32 ulps when the C library's log10 differs from Go's), and the generated `score * weight`
applied to the real score is the real `_hybridScore` bit for bit.  More than 7 distinct terms: the
orders are not enumerated; the first order must be within the rounding bound of a k-term float32 sum.
-/
import SemaModel.Base.DriverUtil
import SemaModel.Base.Float
import SemaModel.C05.Model
import SemaModel.C05.ScoreGen
namespace Sema.C05
open Sema

structure DScore where
  bits : Nat
  hbits : Nat
  deriving Inhabited

def dkey (s : DScore) : Int := F32.key (BitVec.ofNat 32 s.bits)

def parseIds (s : String) : List Nat :=
  if s == "-" || s.isEmpty then [] else (s.splitOn ",").filterMap (·.toNat?)

def parseTerms (s : String) : List String :=
  if s == "-" || s.isEmpty then [] else s.splitOn ","

def parseBatch (s : String) : List (Doc String) :=
  if s == "-" || s.isEmpty then [] else
  (s.splitOn ";").filterMap fun e =>
    match e.splitOn ":" with
    | [id, pc, ts] =>
      let prev : Option (List String) := if pc.startsWith "p" then some [] else none
      let cur : Option (List String) := if pc.endsWith "p" then some (parseTerms ts) else none
      match id.toNat?, dispatchText prev cur [] with
      | some i, some toks => some (i, toks)
      | _, _ => none
    | _ => none

def parseScores (s : String) : List (Nat × DScore) :=
  if s == "-" || s.isEmpty then [] else
  (s.splitOn ",").filterMap fun e =>
    match e.splitOn ":" with
    | [id, a, b] => match id.toNat?, natOfHex a, natOfHex b with
      | some i, some x, some y => some (i, ⟨x, y⟩)
      | _, _, _ => none
    | _ => none

def field (key : String) (parts : List String) : String :=
  match parts.find? (fun p => p.startsWith (key ++ "=")) with
  | some p => (p.drop (key.length + 1)).toString
  | none => "-"

def joinWith (sep : String) (l : List String) : String := sep.intercalate l

def insertNat (a : Nat) : List Nat → List Nat
  | [] => [a]
  | x :: l => if a ≤ x then a :: x :: l else x :: insertNat a l
def sortNat (l : List Nat) : List Nat := l.foldr insertNat []

def insertStr (a : String × String) : List (String × String) → List (String × String)
  | [] => [a]
  | x :: l => if a.1 ≤ x.1 then a :: x :: l else x :: insertStr a l
def sortStr (l : List (String × String)) : List (String × String) := l.foldr insertStr []

def dumpIndex (ix : Index String) : String :=
  let sets := sortStr (ix.sets.map fun e => (e.1, joinWith "," ((sortNat e.2).map toString)))
  let docs := (sortNat (akeys ix.docs)).map fun id =>
    match alookup ix.docs id with
    | some r => s!"{id}:{r.length}:" ++ joinWith "," ((sortStr (r.freqs.map fun f => (f.1, toString f.2))).map fun f => f.1 ++ "=" ++ f.2)
    | none => s!"{id}:?"
  s!"n={ix.numDocs} sets=" ++ joinWith "|" (sets.map fun e => e.1 ++ ":" ++ e.2) ++ " docs=" ++ joinWith "|" docs

def idxOf (l : List Nat) (a : Nat) : Nat := (l.findIdx? (· == a)).getD (l.length + 1 + a)

/-- a sorted permutation of the candidates: score descending; equal scores in the implementation's
order (unreturned ones afterwards, by id) -/
def dsorter (pick : List Nat) (l : List (Res DScore)) : List (Res DScore) :=
  l.mergeSort fun a b =>
    let ka := dkey a.score; let kb := dkey b.score
    if ka > kb then true else if ka < kb then false else idxOf pick a.id ≤ idxOf pick b.id

/-- all orders of a list -/
def insertAll {A : Type} (a : A) : List A → List (List A)
  | [] => [[a]]
  | x :: l => (a :: x :: l) :: (insertAll a l).map (x :: ·)
def perms {A : Type} : List A → List (List A)
  | [] => [[]]
  | a :: l => (perms l).flatMap (insertAll a)

def f32Of (bits : Nat) : Float32 := Float32.ofBits bits.toUInt32
def ulp32 (a b : Float32) : Nat :=
  let k (f : Float32) : Int := if f.toBits.toNat ≥ 2 ^ 31 then -((f.toBits.toNat - 2 ^ 31 : Nat) : Int) else (f.toBits.toNat : Int)
  (k a - k b).natAbs
/-- stated bound for the score: Lean's `Float.log10` is the C library's, Go's `math.Log10(x)` is `log2(x) * (Ln2/Ln10)`;
they may differ in the last places of the float64, which survives `float32(idf)` only on a rounding boundary.
Measured (notes/C05.md): 0 ulp on every compared score. -/
def scoreUlp : Nat := 1

def checkOne (ix : Index String) (ts : List String) (w : Option Go.FExpr) (id : Nat) (d : DScore) : Option String :=
  match alookup ix.docs id with
  | none => some s!"no-doc:{id}"
  | some r =>
    let real := f32Of d.bits
    let hyb := (ScoreOps.ofGenerated.scale w (Go.FExpr.var (BitVec.ofNat 32 d.bits))).eval
    if hyb.toBits.toNat != d.hbits && !(hyb.isNaN && (f32Of d.hbits).isNaN) then
      some s!"hybrid-mismatch:{id}:real={hexOfNat 8 d.hbits}:model={hexOfNat 8 hyb.toBits.toNat}"
    else
      let first := (scoreGen ix ts r).eval
      let okScore :=
        if ts.length ≤ 7 then
          (perms ts).any fun o => let m := (scoreGen ix o r).eval; !m.isNaN && ulp32 m real ≤ scoreUlp
        else
          -- too many orders: within the rounding bound of a k-term float32 sum around the first order
          let terms := ts.map fun t => (scoreGen ix [t] r).eval.toFloat.abs
          let bound := (terms.foldl (· + ·) 0.0) * (ts.length.toFloat + 4.0) * 1.1920929e-7
          (first.toFloat - real.toFloat).abs ≤ bound
      if okScore then none
      else some s!"score-mismatch:{id}:real={hexOfNat 8 d.bits}:model-first-order={hexOfNat 8 first.toBits.toNat}"

def step (ix : Index String) (line : String) : Index String × String :=
  let ws := (line.trimAscii.toString.splitOn " ").filter (· ≠ "")
  match ws with
  | ["new"] => ({}, "ok")
  | ["batch", b] =>
    let ix' := applyBatch ix (parseBatch b)
    (ix', dumpIndex ix')
  | "search" :: op :: rest =>
    let q : Query String := {
      terms := parseTerms (field "q" rest), all := op == "all",
      filter := if field "filter" rest == "-" then none else some (parseIds (field "filter" rest)),
      limit := (field "limit" rest).toNat?.getD 0 }
    let table := parseScores (field "sc" rest)
    let pick := parseIds (field "pick" rest)
    let missing := (matchSet ix q).filter (fun id => (alookup table id).isNone)
    if !missing.isEmpty then (ix, "missing-score:" ++ joinWith "," ((sortNat missing).map toString)) else
    match searchWith (W := Unit) (fun id _ => (alookup table id).getD default) (fun _ s => s) (dsorter pick) ix q () with
    | none => (ix, "error:doc-not-found")
    | some (set, rs) =>
      (ix, "set=" ++ joinWith "," ((sortNat set).map toString) ++ " res=" ++
        joinWith "," (rs.map fun r => s!"{r.id}:{hexOfNat 8 r.score.bits}:{hexOfNat 8 r.hybrid.hbits}"))
  | "scorecheck" :: rest =>
    let ts := dedup (parseTerms (field "q" rest))
    let w : Option Go.FExpr := match natOfHex (field "w" rest) with
      | some b => if field "w" rest == "-" then none else some (Go.FExpr.var (BitVec.ofNat 32 b))
      | none => none
    let table := parseScores (field "sc" rest)
    match table.filterMap (fun e => checkOne ix ts w e.1 e.2) with
    | [] => (ix, s!"ok n={table.length}")
    | errs => (ix, joinWith " " errs)
  | _ => (ix, "bad-op")

end Sema.C05

def Sema.C05.driverMain (stdin stdout : IO.FS.Stream) (_args : List String) : IO Unit :=
  Sema.loopState stdin stdout Sema.C05.step ({} : Sema.C05.Index String)
