/-
C05 — the score arithmetic taken from the code: an instance of the abstract `ScoreOps` (Model.lean)
whose operations are the definitions GENERATED from shard/index/text/text.go
(SemaModel/Generated/TextScore.lean: `Search_score0`, `Search_tf`, `Search_idf`, `Search_scoreStep`;
SemaModel/Generated/Hybrid.lean: `text_weight`, `text_hybrid`).  Scores are symbolic float
expressions `Go.FExpr` (one constructor per Go operation; IEEE rounding is not interpreted).
Core-only: the driver evaluates these trees (`scorecheck` op lines).
-/
import SemaModel.C05.Model
import SemaModel.Generated.TextScore
import SemaModel.Generated.Hybrid
namespace Sema.C05
open Sema Sema.Go Sema.Gen

/-- a posting set as the generated code sees it: an opaque `*roaring64.Bitmap` of which only
`GetCardinality()` is read; here its cardinality as a `uint64` -/
def cardU64 (n : Nat) : BitVec 64 := BitVec.ofNat 64 n

/-- `docCacheItem` of a model record: the `Terms` map in the record's order, `Length` -/
def toDocItem (r : DocRec String) : TextScore.docCacheItem :=
  ⟨r.freqs.map (fun e => (e.1, (⟨(e.2 : Int)⟩ : TextScore.Term))), (r.length : Int)⟩

/-- the score arithmetic of `indexText.Search`, from the generated definitions:
* `zero`  = `score := float32(0)`
* `tf`    = `float32(freq) / float32(docItem.Length)`
* `idf`   = `float32(math.Log10(float64(index.numDocs) / float64(termSetItem.set.GetCardinality()+1)))`
            (`numDocs` and the cardinality are Go `uint64`; the `float32(..)` is the conversion at the use `tf * float32(idf)`)
* `add`, `mul` = the `+=` and `*` of `score += tf * float32(idf)` (that the generated statement is exactly
  `add score (mul tf idf)` is `C05_score_step`)
* `scale` = `HybridScore: score * weight` with `weight` defaulting to 1 when `options.Weight` is nil -/
def ScoreOps.ofGenerated : ScoreOps FExpr (Option FExpr) where
  zero := TextScore.Search_score0
  add := FExpr.add
  tf := fun f l => TextScore.Search_tf (f : Int) ⟨[], (l : Int)⟩
  idf := fun n df => FExpr.toF32 (TextScore.Search_idf (Bitmap := Nat) cardU64 ⟨cardU64 n⟩ ⟨df⟩)
  mul := FExpr.mul
  scale := fun w s => Hybrid.text_hybrid s (Hybrid.text_weight ⟨w⟩)

/-- the generated loop body of the scoring loop, run over the query terms in the order `ts` (Go ranges
over a map: the order is not defined), starting from the generated start value, on the model's index -/
def scoreGen (ix : Index String) (ts : List String) (r : DocRec String) : FExpr :=
  ts.foldl (fun score t =>
    TextScore.Search_scoreStep (Bitmap := Nat) cardU64 ⟨cardU64 ix.numDocs⟩ (toDocItem r) t ⟨(getSet ix.sets t).length⟩ score)
    TextScore.Search_score0

end Sema.C05
