/-
C09 helper lemmas: what each enabled step looks like ("shape" lemmas), then the invariants behind
the property theorems of Props.lean.
-/
import SemaModel.C09.Model
namespace Sema.C09

theorem applyAll_snoc (d : Disk) (ops : List Op) (op : Op) :
    d.applyAll (ops ++ [op]) = (d.applyAll ops).apply op := by
  simp [Disk.applyAll, List.foldl_append]

/-! ### shapes of the enabled steps -/

theorem stepBeginR_some {s s' : State} {t : TxId} (h : stepBeginR s t = some s') :
    s.txs t = none ∧ s' = { s with txs := upd s.txs t (some (newTx s false)) } := by
  unfold stepBeginR at h
  cases ht : s.txs t with
  | some tx => simp [ht] at h
  | none => simp [ht] at h; exact ⟨rfl, h.symm⟩

theorem stepBeginW_some {s s' : State} {t : TxId} (h : stepBeginW s t = some s') :
    s.txs t = none ∧ s.writer = none ∧
      s' = { s with txs := upd s.txs t (some (newTx s true)), writer := some t } := by
  unfold stepBeginW at h
  cases ht : s.txs t <;> cases hw : s.writer <;> simp [ht, hw] at h
  exact ⟨rfl, rfl, h.symm⟩

/-- the ways `access` can hand out an object: `(o, ob', nextObj', map')` -/
inductive AccessCase (s : State) (t : TxId) (tx : Tx) (n : Name) : ObjId → Obj → ObjId → (Name → Option ObjId) → Prop
  | fresh (inMap : Bool)
      (hmap : inMap = true → s.shared = true ∧ s.map n = none)
      (hpriv : inMap = false → s.shared = false ∨
        (∃ o ob, s.map n = some o ∧ s.objs o = some ob ∧ tx.isWrite = false ∧ ob.writer.isSome = true) ∨
        (tx.isWrite = true → s.map n = none)) :
      AccessCase s t tx n s.nextObj
        (if tx.isWrite then freshObj n t 0 (some t) (!inMap) else freshObj n t (if inMap then 1 else 0) none (!inMap))
        (s.nextObj + 1) (if inMap then upd s.map n (some s.nextObj) else s.map)
  | existing (o : ObjId) (ob : Obj) (hsh : s.shared = true) (hm : s.map n = some o) (ho : s.objs o = some ob)
      (hw : ob.writer = none) (hr : tx.isWrite = true → ob.readers = 0) :
      AccessCase s t tx n o (takeShared t tx ob) s.nextObj s.map

/-- what an enabled `access` / `accessCold` does -/
abbrev AccessOut (s : State) (t : TxId) (n : Name) (s' : State) : Prop :=
    ∃ tx o ob' nx mp, s.txs t = some tx ∧ tx.isOpen = true ∧ tx.cur n = none ∧
      AccessCase s t tx n o ob' nx mp ∧ s' = withAccess s t tx n o ob' nx mp

theorem stepAccessCold_some {s s' : State} {t : TxId} {n : Name} (h : stepAccessCold s t n = some s') :
    AccessOut s t n s' := by
  unfold AccessOut
  unfold stepAccessCold at h
  cases ht : s.txs t with
  | none => simp [ht] at h
  | some tx =>
    simp only [ht] at h
    by_cases hopen : tx.isOpen = false
    · rw [if_pos hopen] at h; simp at h
    · rw [if_neg hopen] at h
      have hopen' : tx.isOpen = true := by simpa using hopen
      by_cases hcs : (tx.cur n).isSome = true
      · rw [if_pos hcs] at h; simp at h
      · rw [if_neg hcs] at h
        have hcur : tx.cur n = none := by
          cases hh : tx.cur n with
          | none => rfl
          | some o => simp [hh] at hcs
        by_cases hwm : tx.isWrite = true ∧ (s.map n).isSome = true
        · rw [if_pos hwm] at h; simp at h
        · rw [if_neg hwm] at h
          simp only [Option.some.injEq] at h
          refine ⟨tx, _, _, _, _, rfl, hopen', hcur, AccessCase.fresh false (by simp) (fun _ => Or.inr (Or.inr ?_)), h.symm⟩
          intro hw
          cases hm : s.map n with
          | none => rfl
          | some o => exact absurd ⟨hw, by simp [hm]⟩ hwm

theorem stepAccess_some {s s' : State} {t : TxId} {n : Name} (h : stepAccess s t n = some s') :
    AccessOut s t n s' := by
  unfold AccessOut
  unfold stepAccess at h
  cases ht : s.txs t with
  | none => simp [ht] at h
  | some tx =>
    simp only [ht] at h
    by_cases hopen : tx.isOpen = false
    · rw [if_pos hopen] at h; simp at h
    · rw [if_neg hopen] at h
      have hopen' : tx.isOpen = true := by simpa using hopen
      by_cases hcs : (tx.cur n).isSome = true
      · rw [if_pos hcs] at h; simp at h
      · rw [if_neg hcs] at h
        have hcur : tx.cur n = none := by
          cases hh : tx.cur n with
          | none => rfl
          | some o => simp [hh] at hcs
        by_cases hsh : s.shared = false
        · rw [if_pos hsh] at h
          simp only [Option.some.injEq] at h
          exact ⟨tx, _, _, _, _, rfl, hopen', hcur, AccessCase.fresh false (by simp) (fun _ => Or.inl hsh), h.symm⟩
        · rw [if_neg hsh] at h
          have hsh' : s.shared = true := by simpa using hsh
          cases hm : s.map n with
          | none =>
            simp only [hm, Option.some.injEq] at h
            exact ⟨tx, _, _, _, _, rfl, hopen', hcur, AccessCase.fresh true (fun _ => ⟨hsh', hm⟩) (by simp), h.symm⟩
          | some o =>
            simp only [hm] at h
            cases ho : s.objs o with
            | none => simp [ho] at h
            | some ob =>
              simp only [ho] at h
              by_cases hw : tx.isWrite = true
              · rw [if_pos hw] at h
                by_cases hc : ob.readers = 0 ∧ ob.writer = none
                · rw [if_pos hc] at h
                  simp only [Option.some.injEq] at h
                  exact ⟨tx, _, _, _, _, rfl, hopen', hcur, AccessCase.existing o ob hsh' hm ho hc.2 (fun _ => hc.1), h.symm⟩
                · rw [if_neg hc] at h; simp at h
              · rw [if_neg hw] at h
                have hw' : tx.isWrite = false := by simpa using hw
                by_cases hws : ob.writer.isSome = true
                · rw [if_pos hws] at h
                  simp only [Option.some.injEq] at h
                  exact ⟨tx, _, _, _, _, rfl, hopen', hcur,
                    AccessCase.fresh false (by simp) (fun _ => Or.inr (Or.inl ⟨o, ob, hm, ho, hw', hws⟩)), h.symm⟩
                · rw [if_neg hws] at h
                  simp only [Option.some.injEq] at h
                  have : ob.writer = none := by
                    cases hh : ob.writer with
                    | none => rfl
                    | some w => simp [hh] at hws
                  exact ⟨tx, _, _, _, _, rfl, hopen', hcur,
                    AccessCase.existing o ob hsh' hm ho this (fun hh => absurd hh hw), h.symm⟩

theorem bool_not_true {b : Bool} (h : ¬ b = true) : b = false := by simpa using h
theorem bool_not_false {b : Bool} (h : ¬ b = false) : b = true := by simpa using h

theorem stepLeave_some {s s' : State} {t : TxId} {n : Name} (h : stepLeave s t n = some s') :
    ∃ tx o ob, s.txs t = some tx ∧ tx.isWrite = false ∧ tx.cur n = some o ∧ s.objs o = some ob ∧
      s' = { s with objs := upd s.objs o (some { ob with readers := ob.readers - 1 }),
                    txs := upd s.txs t (some { tx with cur := upd tx.cur n none, inUse := tx.inUse - 1 }) } := by
  unfold stepLeave at h
  cases ht : s.txs t with
  | none => simp [ht] at h
  | some tx =>
    simp only [ht] at h
    by_cases hw : tx.isWrite = true
    · rw [if_pos hw] at h; simp at h
    · rw [if_neg hw] at h
      cases hc : tx.cur n with
      | none => simp [hc] at h
      | some o =>
        simp only [hc] at h
        cases ho : s.objs o with
        | none => simp [ho] at h
        | some ob =>
          simp only [ho, Option.some.injEq] at h
          exact ⟨tx, o, ob, rfl, bool_not_true hw, hc, ho, h.symm⟩

/-- the outcomes of a read -/
inductive ReadCase (s : State) (t : TxId) (tx : Tx) (n : Name) (i : Item) (o : ObjId) (ob : Obj) : State → Prop
  | hit (v : Val) (k : Nat) (hi : ob.items i = some (v, k)) : ReadCase s t tx n i o ob (observe s t tx n i (some v))
  | dead (otx : Tx) (hi : ob.items i = none) (ho : s.txs ob.owner = some otx) (hc : otx.isOpen = false) :
      ReadCase s t tx n i o ob (setBad { s with txs := upd s.txs t (some { tx with u1 := true }) } .u1)
  | through (otx : Tx) (hi : ob.items i = none) (ho : s.txs ob.owner = some otx) (hc : otx.isOpen = true) :
      ReadCase s t tx n i o ob
        (observe { s with objs := upd s.objs o (some (cacheFill ob i (otx.view.idx n i) otx.snap)) } t tx n i
          (otx.view.idx n i))

theorem stepRead_some {s s' : State} {t : TxId} {n : Name} {i : Item} (h : stepRead s t n i = some s') :
    ∃ tx o ob, s.txs t = some tx ∧ tx.isOpen = true ∧ tx.cur n = some o ∧ s.objs o = some ob ∧
      ReadCase s t tx n i o ob s' := by
  unfold stepRead at h
  cases ht : s.txs t with
  | none => simp [ht] at h
  | some tx =>
    simp only [ht] at h
    by_cases hopen : tx.isOpen = false
    · rw [if_pos hopen] at h; simp at h
    · rw [if_neg hopen] at h
      cases hc : tx.cur n with
      | none => simp [hc] at h
      | some o =>
        simp only [hc] at h
        cases ho : s.objs o with
        | none => simp [ho] at h
        | some ob =>
          simp only [ho] at h
          refine ⟨tx, o, ob, rfl, bool_not_false hopen, hc, ho, ?_⟩
          cases hi : ob.items i with
          | some vk =>
            obtain ⟨v, k⟩ := vk
            simp only [hi, Option.some.injEq] at h
            subst h; exact ReadCase.hit v k hi
          | none =>
            simp only [hi] at h
            cases hot : s.txs ob.owner with
            | none => simp [hot] at h
            | some otx =>
              simp only [hot] at h
              by_cases hoo : otx.isOpen = false
              · rw [if_pos hoo] at h
                simp only [Option.some.injEq] at h
                subst h; exact ReadCase.dead otx hi hot hoo
              · rw [if_neg hoo] at h
                simp only [Option.some.injEq] at h
                subst h; exact ReadCase.through otx hi hot (bool_not_false hoo)

/-- a writer's op: the view and the batch grow; index ops also go through the held cache object -/
theorem stepWr_some {s s' : State} {t : TxId} {op : Op} (h : stepWr s t op = some s') :
    ∃ tx, s.txs t = some tx ∧ tx.isWrite = true ∧ tx.isOpen = true ∧
      ∃ objs', s' = { s with objs := objs', txs := upd s.txs t (some { tx with view := tx.view.apply op, ops := tx.ops ++ [op] }) } ∧
        ((objs' = s.objs ∧ op.name? = none) ∨
         (∃ n i o ob, tx.cur n = some o ∧ s.objs o = some ob ∧
            ((∃ v, op = .put n i v ∧ objs' = upd s.objs o (some { ob with items := upd ob.items i (some (v, s.nver + 1)) })) ∨
             (op = .del n i ∧ objs' = upd s.objs o (some { ob with items := upd ob.items i none }))))) := by
  unfold stepWr at h
  cases ht : s.txs t with
  | none => simp [ht] at h
  | some tx =>
    simp only [ht] at h
    by_cases hc : tx.isWrite = false ∨ tx.isOpen = false
    · rw [if_pos hc] at h; simp at h
    · rw [if_neg hc] at h
      have hw : tx.isWrite = true := bool_not_false (fun hh => hc (Or.inl hh))
      have hop : tx.isOpen = true := bool_not_false (fun hh => hc (Or.inr hh))
      refine ⟨tx, rfl, hw, hop, ?_⟩
      cases op with
      | put n i v =>
        simp only at h
        cases hcu : tx.cur n with
        | none => simp [hcu] at h
        | some o =>
          simp only [hcu] at h
          cases ho : s.objs o with
          | none => simp [ho] at h
          | some ob =>
            simp only [ho, Option.some.injEq] at h
            exact ⟨_, h.symm, Or.inr ⟨n, i, o, ob, hcu, ho, Or.inl ⟨v, rfl, rfl⟩⟩⟩
      | del n i =>
        simp only at h
        cases hcu : tx.cur n with
        | none => simp [hcu] at h
        | some o =>
          simp only [hcu] at h
          cases ho : s.objs o with
          | none => simp [ho] at h
          | some ob =>
            simp only [ho, Option.some.injEq] at h
            exact ⟨_, h.symm, Or.inr ⟨n, i, o, ob, hcu, ho, Or.inr ⟨rfl, rfl⟩⟩⟩
      | setPt i d =>
        simp only [Option.some.injEq] at h
        exact ⟨s.objs, h.symm, Or.inl ⟨rfl, rfl⟩⟩
      | delPt i =>
        simp only [Option.some.injEq] at h
        exact ⟨s.objs, h.symm, Or.inl ⟨rfl, rfl⟩⟩

theorem stepBackfill_some {s s' : State} {t : TxId} {i : Item} (h : stepBackfill s t i = some s') :
    ∃ tx, s.txs t = some tx ∧ tx.isWrite = false ∧ tx.isOpen = true ∧ i ∈ tx.seen ∧
      ((tx.view.pts i ≠ none ∧ s' = s) ∨
       (tx.view.pts i = none ∧ s' = setBad { s with txs := upd s.txs t (some { tx with u2 := true }) } .u2)) := by
  unfold stepBackfill at h
  cases ht : s.txs t with
  | none => simp [ht] at h
  | some tx =>
    simp only [ht] at h
    by_cases hc : tx.isWrite = true ∨ tx.isOpen = false ∨ i ∉ tx.seen
    · rw [if_pos hc] at h; simp at h
    · rw [if_neg hc] at h
      have hw : tx.isWrite = false := bool_not_true (fun hh => hc (Or.inl hh))
      have hop : tx.isOpen = true := bool_not_false (fun hh => hc (Or.inr (Or.inl hh)))
      have hseen : i ∈ tx.seen := Classical.byContradiction (fun hh => hc (Or.inr (Or.inr hh)))
      refine ⟨tx, rfl, hw, hop, hseen, ?_⟩
      cases hp : tx.view.pts i with
      | some d => simp only [hp, Option.some.injEq] at h; exact Or.inl ⟨by simp, h.symm⟩
      | none => simp only [hp, Option.some.injEq] at h; exact Or.inr ⟨rfl, h.symm⟩

inductive CloseCase (s : State) (t : TxId) (tx : Tx) : State → Prop
  | reader (hw : tx.isWrite = false) (hu : tx.inUse = 0) :
      CloseCase s t tx { s with txs := upd s.txs t (some { tx with isOpen := false, endVer := s.nver }) }
  | commit (hw : tx.isWrite = true) :
      CloseCase s t tx { s with latest := tx.view, older := s.latest :: s.older, nver := s.nver + 1, writer := none,
                                log := s.log ++ [tx.ops],
                                txs := upd s.txs t (some { tx with isOpen := false, endVer := s.nver + 1 }) }
  | rollback (hw : tx.isWrite = true) :
      CloseCase s t tx { s with writer := none,
                                txs := upd s.txs t (some { tx with isOpen := false, failed := true, endVer := s.nver }) }

theorem stepClose_some {s s' : State} {t : TxId} {ok : Bool} (h : stepClose s t ok = some s') :
    ∃ tx, s.txs t = some tx ∧ tx.isOpen = true ∧ CloseCase s t tx s' := by
  unfold stepClose at h
  cases ht : s.txs t with
  | none => simp [ht] at h
  | some tx =>
    simp only [ht] at h
    by_cases hopen : tx.isOpen = false
    · rw [if_pos hopen] at h; simp at h
    · rw [if_neg hopen] at h
      refine ⟨tx, rfl, bool_not_false hopen, ?_⟩
      by_cases hw : tx.isWrite = false
      · rw [if_pos hw] at h
        by_cases hu : tx.inUse = 0
        · rw [if_pos hu] at h
          simp only [Option.some.injEq] at h
          subst h; exact CloseCase.reader hw hu
        · rw [if_neg hu] at h; simp at h
      · rw [if_neg hw] at h
        have hw' : tx.isWrite = true := bool_not_false hw
        cases ok with
        | true =>
          simp only [if_true, Option.some.injEq] at h
          subst h; exact CloseCase.commit hw'
        | false =>
          simp only [Bool.false_eq_true, if_false, Option.some.injEq] at h
          subst h; exact CloseCase.rollback hw'

theorem stepRelease_some {s s' : State} {t : TxId} {n : Name} (h : stepRelease s t n = some s') :
    ∃ tx o ob, s.txs t = some tx ∧ tx.isWrite = true ∧ tx.isOpen = false ∧ tx.cur n = some o ∧ s.objs o = some ob ∧
      s' = { s with objs := upd s.objs o (some { ob with writer := none }),
                    map := if tx.failed ∧ s.map n = some o then upd s.map n none else s.map,
                    txs := upd s.txs t (some { tx with cur := upd tx.cur n none }) } := by
  unfold stepRelease at h
  cases ht : s.txs t with
  | none => simp [ht] at h
  | some tx =>
    simp only [ht] at h
    by_cases hc : tx.isWrite = false ∨ tx.isOpen = true
    · rw [if_pos hc] at h; simp at h
    · rw [if_neg hc] at h
      have hw : tx.isWrite = true := bool_not_false (fun hh => hc (Or.inl hh))
      have hop : tx.isOpen = false := bool_not_true (fun hh => hc (Or.inr hh))
      cases hcu : tx.cur n with
      | none => simp [hcu] at h
      | some o =>
        simp only [hcu] at h
        cases ho : s.objs o with
        | none => simp [ho] at h
        | some ob =>
          simp only [ho, Option.some.injEq] at h
          exact ⟨tx, o, ob, rfl, hw, hop, hcu, ho, h.symm⟩

theorem run_inv {P : State → Prop} (hstep : ∀ s l s', P s → step s l = some s' → P s') :
    ∀ sched s s', P s → run s sched = some s' → P s' := by
  intro sched
  induction sched with
  | nil => intro s s' hp h; simp [run] at h; subst h; exact hp
  | cons l rest ih =>
    intro s s' hp h
    simp only [run] at h
    cases hs : step s l with
    | none => simp [hs] at h
    | some s1 => simp only [hs] at h; exact ih s1 s' (hstep s l s1 hp hs) h

/-! ### serial equivalence -/

structure SerInv (d0 : Disk) (s : State) : Prop where
  latest : s.latest = s.log.foldl Disk.applyAll d0
  wr : ∀ t tx, s.txs t = some tx → tx.isWrite = true → tx.isOpen = true →
    s.writer = some t ∧ tx.view = s.latest.applyAll tx.ops

theorem serInv_init (sh : Bool) (d0 : Disk) : SerInv d0 (init sh d0) :=
  ⟨by simp [init], by intro t tx h; simp [init] at h⟩

/-- steps that leave the history alone and keep (isWrite, view, ops) of every open writer -/
theorem serInv_frame {d0 : Disk} {s s' : State} (h : SerInv d0 s)
    (hl : s'.latest = s.latest) (hg : s'.log = s.log) (hw : s'.writer = s.writer)
    (ht : ∀ u tx', s'.txs u = some tx' → tx'.isWrite = true → tx'.isOpen = true →
      ∃ tx, s.txs u = some tx ∧ tx.isWrite = true ∧ tx.isOpen = true ∧ tx.view = tx'.view ∧ tx.ops = tx'.ops) :
    SerInv d0 s' := by
  refine ⟨by rw [hl, hg]; exact h.latest, ?_⟩
  intro u tx' hu hw' ho
  obtain ⟨tx, h1, h2, h3, h4, h5⟩ := ht u tx' hu hw' ho
  have := h.wr u tx h1 h2 h3
  rw [hw, hl, ← h4, ← h5]; exact this

/-- discharge the per-transaction side condition of a frame lemma when `txs` was updated at `t`
with a record that agrees with the old one `tx` (hypothesis `ht : s.txs t = some tx`) -/
macro "frame_at" t:ident ht:ident : tactic =>
  `(tactic| (intro u tx' hu hw' ho
             by_cases hut : u = $t
             · subst hut
               simp only [upd_same, Option.some.injEq] at hu
               subst hu
               first
                 | exact ⟨_, $ht, by assumption, by assumption, rfl, rfl⟩
                 | (simp_all)
             · simp only [upd_other _ _ _ _ hut] at hu
               exact ⟨tx', hu, hw', ho, rfl, rfl⟩))

theorem serInv_step {d0 : Disk} (s : State) (l : Label) (s' : State) (h : SerInv d0 s) (hs : step s l = some s') :
    SerInv d0 s' := by
  cases l with
  | beginR t =>
    obtain ⟨ht, rfl⟩ := stepBeginR_some hs
    apply serInv_frame h <;> (try rfl)
    intro u tx' hu hw' ho
    by_cases hut : u = t
    · subst hut; simp [newTx] at hu; subst hu; simp at hw'
    · simp only [upd_other _ _ _ _ hut] at hu; exact ⟨tx', hu, hw', ho, rfl, rfl⟩
  | beginW t =>
    obtain ⟨ht, hwn, rfl⟩ := stepBeginW_some hs
    refine ⟨h.latest, ?_⟩
    intro u tx hu hw ho
    by_cases hut : u = t
    · subst hut; simp [newTx] at hu; subst hu; simp [Disk.applyAll]
    · simp only [upd_other _ _ _ _ hut] at hu
      have := (h.wr u tx hu hw ho).1
      simp [hwn] at this
  | access t n | accessCold t n =>
    obtain ⟨tx, o, ob', nx, mp, ht, hop, hc, _, rfl⟩ : AccessOut s t n s' := by
      first | exact stepAccess_some hs | exact stepAccessCold_some hs
    apply serInv_frame h <;> (try rfl)
    simp only [withAccess]
    frame_at t ht
  | leave t n =>
    obtain ⟨tx, o, ob, ht, hw, hc, ho, rfl⟩ := stepLeave_some hs
    apply serInv_frame h <;> (try rfl)
    frame_at t ht
  | read t n i =>
    obtain ⟨tx, o, ob, ht, hop, hc, ho, hcase⟩ := stepRead_some hs
    cases hcase with
    | hit v k hi =>
      apply serInv_frame h <;> (try (simp only [observe, setBad]; split <;> rfl))
      simp only [observe, setBad]
      split <;> frame_at t ht
    | dead otx hi hoo hcl =>
      apply serInv_frame h <;> (try rfl)
      simp only [setBad]
      frame_at t ht
    | through otx hi hoo hcl =>
      apply serInv_frame h <;> (try (simp only [observe, setBad]; split <;> rfl))
      simp only [observe, setBad]
      split <;> frame_at t ht
  | wr t op =>
    obtain ⟨tx, ht, hw, hop, objs', rfl, _⟩ := stepWr_some hs
    refine ⟨h.latest, ?_⟩
    intro u tx' hu hw' ho
    by_cases hut : u = t
    · subst hut
      simp only [upd_same, Option.some.injEq] at hu
      subst hu
      have := h.wr u tx ht hw hop
      exact ⟨this.1, by simp only [applyAll_snoc]; rw [this.2]⟩
    · simp only [upd_other _ _ _ _ hut] at hu
      exact h.wr u tx' hu hw' ho
  | backfill t i =>
    obtain ⟨tx, ht, hw, hop, hseen, hcase⟩ := stepBackfill_some hs
    rcases hcase with ⟨_, rfl⟩ | ⟨_, rfl⟩
    · exact h
    · apply serInv_frame h <;> (try rfl)
      simp only [setBad]
      frame_at t ht
  | closeTx t ok =>
    obtain ⟨tx, ht, hop, hcase⟩ := stepClose_some hs
    cases hcase with
    | reader hw hu =>
      apply serInv_frame h <;> (try rfl)
      frame_at t ht
    | commit hw =>
      have hme := h.wr t tx ht hw hop
      refine ⟨?_, ?_⟩
      · simp only [List.foldl_append, List.foldl_cons, List.foldl_nil]
        rw [← h.latest]; exact hme.2
      · intro u tx' hu hw' ho
        by_cases hut : u = t
        · subst hut; simp only [upd_same, Option.some.injEq] at hu; subst hu; simp at ho
        · simp only [upd_other _ _ _ _ hut] at hu
          have := (h.wr u tx' hu hw' ho).1
          rw [hme.1] at this
          simp at this; exact absurd this.symm hut
    | rollback hw =>
      have hme := h.wr t tx ht hw hop
      refine ⟨h.latest, ?_⟩
      intro u tx' hu hw' ho
      by_cases hut : u = t
      · subst hut; simp only [upd_same, Option.some.injEq] at hu; subst hu; simp at ho
      · simp only [upd_other _ _ _ _ hut] at hu
        have := (h.wr u tx' hu hw' ho).1
        rw [hme.1] at this
        simp at this; exact absurd this.symm hut
  | release t n =>
    obtain ⟨tx, o, ob, ht, hw, hop, hc, ho, rfl⟩ := stepRelease_some hs
    apply serInv_frame h <;> (try rfl)
    frame_at t ht
  | evict n =>
    simp only [step, stepEvict, Option.some.injEq] at hs
    subst hs
    apply serInv_frame h <;> (try rfl)
    intro u tx' hu hw' ho; exact ⟨tx', hu, hw', ho, rfl, rfl⟩

theorem serial_equiv (sh : Bool) (d0 : Disk) (sched : List Label) (s : State)
    (h : run (init sh d0) sched = some s) : s.latest = s.log.foldl Disk.applyAll d0 :=
  (run_inv (P := SerInv d0) serInv_step sched _ _ (serInv_init sh d0) h).latest

/-! ### facts about disks -/

theorem apply_idx_other (d : Disk) (op : Op) (m : Name) (h : op.name? ≠ some m) : (d.apply op).idx m = d.idx m := by
  cases op with
  | put n i v =>
    have : m ≠ n := by intro e; subst e; simp [Op.name?] at h
    simp [Disk.apply, upd, this]
  | del n i =>
    have : m ≠ n := by intro e; subst e; simp [Op.name?] at h
    simp [Disk.apply, upd, this]
  | setPt i d' => rfl
  | delPt i => rfl

theorem apply_put_idx (d : Disk) (n : Name) (i j : Item) (v : Val) :
    (d.apply (.put n i v)).idx n j = if j = i then some v else d.idx n j := by
  simp [Disk.apply, upd]

theorem apply_del_idx (d : Disk) (n : Name) (i j : Item) :
    (d.apply (.del n i)).idx n j = if j = i then none else d.idx n j := by
  simp [Disk.apply, upd]

theorem disks_mono {s s' : State} {l : Label} (hs : step s l = some s') : ∀ d ∈ s.disks, d ∈ s'.disks := by
  intro d hd
  cases l with
  | beginR t => obtain ⟨_, rfl⟩ := stepBeginR_some hs; exact hd
  | beginW t => obtain ⟨_, _, rfl⟩ := stepBeginW_some hs; exact hd
  | access t n | accessCold t n =>
    obtain ⟨tx, o, ob', nx, mp, _, _, _, _, rfl⟩ : AccessOut s t n s' := by
      first | exact stepAccess_some hs | exact stepAccessCold_some hs
    exact hd
  | leave t n => obtain ⟨tx, o, ob, _, _, _, _, rfl⟩ := stepLeave_some hs; exact hd
  | read t n i =>
    obtain ⟨tx, o, ob, _, _, _, _, hcase⟩ := stepRead_some hs
    cases hcase <;> (simp only [observe, setBad]; try split) <;> exact hd
  | wr t op => obtain ⟨tx, _, _, _, objs', rfl, _⟩ := stepWr_some hs; exact hd
  | backfill t i =>
    obtain ⟨tx, _, _, _, _, hcase⟩ := stepBackfill_some hs
    rcases hcase with ⟨_, rfl⟩ | ⟨_, rfl⟩ <;> exact hd
  | closeTx t ok =>
    obtain ⟨tx, _, _, hcase⟩ := stepClose_some hs
    cases hcase with
    | reader => exact hd
    | commit => simp only [State.disks] at hd ⊢; exact List.mem_cons_of_mem _ hd
    | rollback => exact hd
  | release t n => obtain ⟨tx, o, ob, _, _, _, _, _, rfl⟩ := stepRelease_some hs; exact hd
  | evict n => simp only [step, stepEvict, Option.some.injEq] at hs; subst hs; exact hd

/-! ### private caches (`maxSize = 0`) -/

/-- every cached item of `ob` (an object for index `n`) is what disk `d` holds -/
def Agree (ob : Obj) (n : Name) (d : Disk) : Prop := ∀ i v k, ob.items i = some (v, k) → d.idx n i = some v

theorem agree_fresh (n m : Name) (t : TxId) (r : Nat) (w : Option TxId) (p : Bool) (d : Disk) :
    Agree (freshObj n t r w p) m d := by
  intro i v k h; simp [freshObj] at h

theorem agree_cacheFill {ob : Obj} {n : Name} {d : Disk} (h : Agree ob n d) (i : Item) (ver : Nat) :
    Agree (cacheFill ob i (d.idx n i) ver) n d := by
  intro j v k hj
  unfold cacheFill at hj
  cases hr : d.idx n i with
  | none => simp only [hr] at hj; exact h j v k hj
  | some w =>
    simp only [hr] at hj
    by_cases hji : j = i
    · subst hji; simp at hj; rw [← hj.1]; exact hr
    · simp [upd, hji] at hj; exact h j v k hj

/-- the observation flags of a transaction and the global flag -/
structure Flags13 (s : State) : Prop where
  bad : s.bad = none ∨ s.bad = some .u2
  tx : ∀ t tx, s.txs t = some tx → tx.u1 = false ∧ tx.u3 = false

structure PrivInv (s : State) : Prop where
  sh : s.shared = false
  cur : ∀ t tx n o, s.txs t = some tx → tx.cur n = some o →
    o < s.nextObj ∧ ∃ ob, s.objs o = some ob ∧ ob.owner = t ∧ Agree ob n tx.view
  inj : ∀ t tx n o t' tx' n', s.txs t = some tx → tx.cur n = some o → s.txs t' = some tx' → tx'.cur n' = some o →
    t = t' ∧ n = n'
  seen : ∀ t tx i, s.txs t = some tx → tx.isWrite = false → i ∈ tx.seen → ∃ n, tx.view.idx n i ≠ none
  viewIn : ∀ t tx, s.txs t = some tx → tx.isWrite = false → tx.view ∈ s.disks
  f13 : Flags13 s
  f2 : (∀ d ∈ s.disks, d.WF) → s.bad ≠ some .u2 ∧ ∀ t tx, s.txs t = some tx → tx.u2 = false

theorem privInv_init (d0 : Disk) : PrivInv (init false d0) := by
  refine ⟨rfl, ?_, ?_, ?_, ?_, ⟨Or.inl rfl, ?_⟩, ?_⟩ <;> intros <;> simp_all [init]

/-- `observe` when the value obtained is what the transaction's own view holds -/
theorem observe_own (s : State) (t : TxId) (tx : Tx) (n : Name) (i : Item) :
    observe s t tx n i (tx.view.idx n i) =
      { s with txs := upd s.txs t (some { tx with seen := if (tx.view.idx n i).isSome then i :: tx.seen else tx.seen,
                                                  obs := (n, i, tx.view.idx n i) :: tx.obs, u3 := tx.u3 || false }) } := by
  simp [observe]


theorem upd_some_cases {α : Type} {f : Nat → Option α} {k u : Nat} {v x : α} (h : upd f k (some v) u = some x) :
    (u = k ∧ x = v) ∨ (u ≠ k ∧ f u = some x) := by
  by_cases hu : u = k
  · subst hu; simp at h; exact Or.inl ⟨rfl, h.symm⟩
  · rw [upd_other _ _ _ _ hu] at h; exact Or.inr ⟨hu, h⟩

theorem upd_opt_cases {α : Type} {f : Nat → Option α} {k u : Nat} {v : Option α} {x : α} (h : upd f k v u = some x) :
    (u = k ∧ v = some x) ∨ (u ≠ k ∧ f u = some x) := by
  by_cases hu : u = k
  · subst hu; simp at h; exact Or.inl ⟨rfl, h⟩
  · rw [upd_other _ _ _ _ hu] at h; exact Or.inr ⟨hu, h⟩

theorem privInv_access {s s' : State} {t : TxId} {n : Name} (h : PrivInv s) (hs : AccessOut s t n s') :
    PrivInv s' := by
  obtain ⟨tx, o, ob', nx, mp, ht, hop, hc, hcase, rfl⟩ := hs
  cases hcase with
  | existing o ob hsh => rw [h.sh] at hsh; exact absurd hsh (by simp)
  | fresh inMap hmap hpriv =>
    have hin : inMap = false := by
      cases inMap with
      | false => rfl
      | true => have := (hmap rfl).1; rw [h.sh] at this; exact absurd this (by simp)
    subst hin
    simp only [withAccess, Bool.false_eq_true, if_false, Bool.not_false]
    refine ⟨h.sh, ?_, ?_, ?_, ?_, ⟨h.f13.bad, ?_⟩, ?_⟩
    all_goals dsimp only
    · -- cur
      intro u tx' m o' hu hcu
      rcases upd_some_cases hu with ⟨rfl, rfl⟩ | ⟨hne, hold⟩
      · simp only at hcu
        rcases upd_opt_cases hcu with ⟨rfl, ho⟩ | ⟨hmn, hold⟩
        · simp only [Option.some.injEq] at ho; subst ho
          refine ⟨Nat.lt_succ_self _, _, upd_same _ _ _, ?_, ?_⟩
          · split <;> rfl
          · split <;> exact agree_fresh _ _ _ _ _ _ _
        · obtain ⟨hlt, ob, hob, how, hag⟩ := h.cur u tx m o' ht hold
          refine ⟨Nat.lt_succ_of_lt hlt, ob, ?_, how, hag⟩
          rw [upd_other _ _ _ _ (Nat.ne_of_lt hlt)]; exact hob
      · obtain ⟨hlt, ob, hob, how, hag⟩ := h.cur u tx' m o' hold hcu
        refine ⟨Nat.lt_succ_of_lt hlt, ob, ?_, how, hag⟩
        rw [upd_other _ _ _ _ (Nat.ne_of_lt hlt)]; exact hob
    · -- inj
      intro u tx1 m o' u' tx2 m' hu hcu hu' hcu'
      have key : ∀ (w : TxId) (txw : Tx) (mw : Name),
          upd s.txs t (some { tx with cur := upd tx.cur n (some s.nextObj), inUse := tx.inUse + 1 }) w = some txw →
          txw.cur mw = some o' → (w = t ∧ mw = n ∧ o' = s.nextObj) ∨ (o' < s.nextObj ∧ ∃ txo, s.txs w = some txo ∧ txo.cur mw = some o') := by
        intro w txw mw hw hcw
        rcases upd_some_cases hw with ⟨rfl, rfl⟩ | ⟨hne, hold⟩
        · simp only at hcw
          rcases upd_opt_cases hcw with ⟨rfl, ho⟩ | ⟨hmn, hold⟩
          · simp only [Option.some.injEq] at ho; exact Or.inl ⟨rfl, rfl, ho.symm⟩
          · exact Or.inr ⟨(h.cur w tx mw o' ht hold).1, tx, ht, hold⟩
        · exact Or.inr ⟨(h.cur w txw mw o' hold hcw).1, txw, hold, hcw⟩
      rcases key u tx1 m hu hcu with ⟨rfl, rfl, ho⟩ | ⟨hlt, txo, hto, hco⟩
      · rcases key u' tx2 m' hu' hcu' with ⟨rfl, rfl, _⟩ | ⟨hlt', _⟩
        · exact ⟨rfl, rfl⟩
        · rw [ho] at hlt'; exact absurd hlt' (Nat.lt_irrefl _)
      · rcases key u' tx2 m' hu' hcu' with ⟨rfl, rfl, ho⟩ | ⟨hlt', txo', hto', hco'⟩
        · rw [ho] at hlt; exact absurd hlt (Nat.lt_irrefl _)
        · exact h.inj u txo m o' u' txo' m' hto hco hto' hco'
    · -- seen
      intro u tx' i hu hw hi
      rcases upd_some_cases hu with ⟨rfl, rfl⟩ | ⟨hne, hold⟩
      · exact h.seen u tx i ht hw hi
      · exact h.seen u tx' i hold hw hi
    · -- viewIn
      intro u tx' hu hw
      rcases upd_some_cases hu with ⟨rfl, rfl⟩ | ⟨hne, hold⟩
      · exact h.viewIn u tx ht hw
      · exact h.viewIn u tx' hold hw
    · intro u tx' hu
      rcases upd_some_cases hu with ⟨rfl, rfl⟩ | ⟨hne, hold⟩
      · exact h.f13.tx u tx ht
      · exact h.f13.tx u tx' hold
    · intro hwf
      refine ⟨(h.f2 hwf).1, ?_⟩
      intro u tx' hu
      rcases upd_some_cases hu with ⟨rfl, rfl⟩ | ⟨hne, hold⟩
      · exact (h.f2 hwf).2 u tx ht
      · exact (h.f2 hwf).2 u tx' hold


theorem agree_congr {ob ob' : Obj} {n : Name} {d d' : Disk} (h : Agree ob n d) (hi : ob'.items = ob.items)
    (hd : d'.idx n = d.idx n) : Agree ob' n d' := by
  intro i v k hk; rw [hi] at hk; rw [hd]; exact h i v k hk

/-- transfer of the object part of `PrivInv` along a step that only shrinks `cur`, keeps the index
part of every view, and keeps owner and items of every existing object -/
theorem priv_core_transfer {s s' : State} (h : PrivInv s) (hnx : s.nextObj ≤ s'.nextObj)
    (htx : ∀ u tx' m o, s'.txs u = some tx' → tx'.cur m = some o →
      ∃ tx, s.txs u = some tx ∧ tx.cur m = some o ∧ tx'.view.idx m = tx.view.idx m)
    (hob : ∀ o ob, s.objs o = some ob → ∃ ob', s'.objs o = some ob' ∧ ob'.owner = ob.owner ∧ ob'.items = ob.items) :
    (∀ t tx n o, s'.txs t = some tx → tx.cur n = some o →
        o < s'.nextObj ∧ ∃ ob, s'.objs o = some ob ∧ ob.owner = t ∧ Agree ob n tx.view) ∧
    (∀ t tx n o t' tx' n', s'.txs t = some tx → tx.cur n = some o → s'.txs t' = some tx' → tx'.cur n' = some o →
        t = t' ∧ n = n') := by
  constructor
  · intro t tx' n o ht hc
    obtain ⟨tx, h1, h2, h3⟩ := htx t tx' n o ht hc
    obtain ⟨hlt, ob, hob1, how, hag⟩ := h.cur t tx n o h1 h2
    obtain ⟨ob', hob', ho', hi'⟩ := hob o ob hob1
    exact ⟨Nat.lt_of_lt_of_le hlt hnx, ob', hob', ho'.trans how, agree_congr hag hi' h3⟩
  · intro t tx1 n o t' tx2 n' ht hc ht' hc'
    obtain ⟨txa, a1, a2, _⟩ := htx t tx1 n o ht hc
    obtain ⟨txb, b1, b2, _⟩ := htx t' tx2 n' o ht' hc'
    exact h.inj t txa n o t' txb n' a1 a2 b1 b2

/-- the observation part of `PrivInv` is kept when every transaction of `s'` is either pristine or
a transaction of `s` with the same kind, flags and found ids whose view is unchanged (readers) and
whose found ids are still justified, the disks only grow and `bad` is unchanged -/
theorem priv_obs_transfer {s s' : State} (h : PrivInv s) (hd : ∀ d ∈ s.disks, d ∈ s'.disks) (hb : s'.bad = s.bad)
    (htx : ∀ u tx', s'.txs u = some tx' →
      (tx'.seen = [] ∧ tx'.u1 = false ∧ tx'.u2 = false ∧ tx'.u3 = false ∧ tx'.view ∈ s'.disks) ∨
      ∃ tx, s.txs u = some tx ∧ (tx'.view = tx.view ∨ tx'.isWrite = true) ∧ tx'.isWrite = tx.isWrite ∧
        (∀ i ∈ tx'.seen, i ∈ tx.seen ∨ ∃ n, tx'.view.idx n i ≠ none) ∧ tx'.u1 = tx.u1 ∧ tx'.u2 = tx.u2 ∧ tx'.u3 = tx.u3) :
    (∀ t tx i, s'.txs t = some tx → tx.isWrite = false → i ∈ tx.seen → ∃ n, tx.view.idx n i ≠ none) ∧
    (∀ t tx, s'.txs t = some tx → tx.isWrite = false → tx.view ∈ s'.disks) ∧ Flags13 s' ∧
    ((∀ d ∈ s'.disks, d.WF) → s'.bad ≠ some .u2 ∧ ∀ t tx, s'.txs t = some tx → tx.u2 = false) := by
  refine ⟨?_, ?_, ⟨by rw [hb]; exact h.f13.bad, ?_⟩, ?_⟩
  · intro t tx' i ht hw hi
    rcases htx t tx' ht with ⟨hs, _⟩ | ⟨tx, h1, hv, hw', hs, _⟩
    · rw [hs] at hi; simp at hi
    · rcases hs i hi with hold | hnew
      · rcases hv with hv | hv
        · rw [hv]; exact h.seen t tx i h1 (hw' ▸ hw) hold
        · rw [hw] at hv; simp at hv
      · exact hnew
  · intro t tx' ht hw
    rcases htx t tx' ht with ⟨_, _, _, _, hin⟩ | ⟨tx, h1, hv, hw', _⟩
    · exact hin
    · rcases hv with hv | hv
      · rw [hv]; exact hd _ (h.viewIn t tx h1 (hw' ▸ hw))
      · rw [hw] at hv; simp at hv
  · intro t tx' ht
    rcases htx t tx' ht with ⟨_, e1, _, e3, _⟩ | ⟨tx, h1, _, _, _, e1, _, e3⟩
    · exact ⟨e1, e3⟩
    · rw [e1, e3]; exact h.f13.tx t tx h1
  · intro hwf
    have := h.f2 (fun d hdd => hwf d (hd d hdd))
    refine ⟨by rw [hb]; exact this.1, ?_⟩
    intro t tx' ht
    rcases htx t tx' ht with ⟨_, _, e2, _⟩ | ⟨tx, h1, _, _, _, _, e2, _⟩
    · exact e2
    · rw [e2]; exact this.2 t tx h1

theorem privInv_mk {s' : State} (hsh : s'.shared = false)
    (core : (∀ t tx n o, s'.txs t = some tx → tx.cur n = some o →
        o < s'.nextObj ∧ ∃ ob, s'.objs o = some ob ∧ ob.owner = t ∧ Agree ob n tx.view) ∧
      (∀ t tx n o t' tx' n', s'.txs t = some tx → tx.cur n = some o → s'.txs t' = some tx' → tx'.cur n' = some o →
        t = t' ∧ n = n'))
    (obs : (∀ t tx i, s'.txs t = some tx → tx.isWrite = false → i ∈ tx.seen → ∃ n, tx.view.idx n i ≠ none) ∧
      (∀ t tx, s'.txs t = some tx → tx.isWrite = false → tx.view ∈ s'.disks) ∧ Flags13 s' ∧
      ((∀ d ∈ s'.disks, d.WF) → s'.bad ≠ some .u2 ∧ ∀ t tx, s'.txs t = some tx → tx.u2 = false)) : PrivInv s' :=
  ⟨hsh, core.1, core.2, obs.1, obs.2.1, obs.2.2.1, obs.2.2.2⟩

/-- an object update that keeps owner and items -/
theorem objs_keep_upd {objs : ObjId → Option Obj} {o : ObjId} {ob ob1 : Obj} (ho : objs o = some ob)
    (h1 : ob1.owner = ob.owner) (h2 : ob1.items = ob.items) :
    ∀ o' ob', objs o' = some ob' → ∃ ob'', upd objs o (some ob1) o' = some ob'' ∧ ob''.owner = ob'.owner ∧ ob''.items = ob'.items := by
  intro o' ob' h
  by_cases e : o' = o
  · subst e; rw [ho] at h; simp at h; subst h; exact ⟨ob1, by simp, h1, h2⟩
  · exact ⟨ob', by rw [upd_other _ _ _ _ e]; exact h, rfl, rfl⟩

theorem objs_keep_id {objs : ObjId → Option Obj} :
    ∀ o' ob', objs o' = some ob' → ∃ ob'', objs o' = some ob'' ∧ ob''.owner = ob'.owner ∧ ob''.items = ob'.items :=
  fun _ ob' h => ⟨ob', h, rfl, rfl⟩


/-- the usual side condition: `txs` was updated at `t` with a record that keeps view, kind, found ids
and flags of the old one -/
macro "obs_same" ht:ident : tactic =>
  `(tactic| (intro u tx' hu
             rcases upd_some_cases hu with hcase | hcase
             · obtain ⟨e1, e2⟩ := hcase
               subst e1; subst e2
               exact Or.inr ⟨_, $ht, Or.inl rfl, rfl, fun i hi => Or.inl hi, rfl, rfl, rfl⟩
             · exact Or.inr ⟨tx', hcase.2, Or.inl rfl, rfl, fun i hi => Or.inl hi, rfl, rfl, rfl⟩))

theorem latest_mem_disks (s : State) : s.latest ∈ s.disks := by simp [State.disks]

theorem privInv_step (s : State) (l : Label) (s' : State) (h : PrivInv s) (hs : step s l = some s') : PrivInv s' := by
  cases l with
  | beginR t =>
    obtain ⟨ht, rfl⟩ := stepBeginR_some hs
    refine privInv_mk h.sh (priv_core_transfer h (Nat.le_refl _) ?_ objs_keep_id) (priv_obs_transfer h (fun d hd => hd) rfl ?_)
    · intro u tx' m o hu hc
      rcases upd_some_cases hu with ⟨rfl, rfl⟩ | ⟨_, hold⟩
      · simp [newTx] at hc
      · exact ⟨tx', hold, hc, rfl⟩
    · intro u tx' hu
      rcases upd_some_cases hu with ⟨rfl, rfl⟩ | ⟨_, hold⟩
      · exact Or.inl ⟨rfl, rfl, rfl, rfl, latest_mem_disks s⟩
      · exact Or.inr ⟨tx', hold, Or.inl rfl, rfl, fun i hi => Or.inl hi, rfl, rfl, rfl⟩
  | beginW t =>
    obtain ⟨ht, _, rfl⟩ := stepBeginW_some hs
    refine privInv_mk h.sh (priv_core_transfer h (Nat.le_refl _) ?_ objs_keep_id) (priv_obs_transfer h (fun d hd => hd) rfl ?_)
    · intro u tx' m o hu hc
      rcases upd_some_cases hu with ⟨rfl, rfl⟩ | ⟨_, hold⟩
      · simp [newTx] at hc
      · exact ⟨tx', hold, hc, rfl⟩
    · intro u tx' hu
      rcases upd_some_cases hu with ⟨rfl, rfl⟩ | ⟨_, hold⟩
      · exact Or.inl ⟨rfl, rfl, rfl, rfl, latest_mem_disks s⟩
      · exact Or.inr ⟨tx', hold, Or.inl rfl, rfl, fun i hi => Or.inl hi, rfl, rfl, rfl⟩
  | access t n => exact privInv_access h (stepAccess_some hs)
  | accessCold t n => exact privInv_access h (stepAccessCold_some hs)
  | leave t n =>
    obtain ⟨tx, o, ob, ht, hw, hc, ho, rfl⟩ := stepLeave_some hs
    refine privInv_mk h.sh (priv_core_transfer h (Nat.le_refl _) ?_ (objs_keep_upd ho rfl rfl))
      (priv_obs_transfer h (fun d hd => hd) rfl ?_)
    · intro u tx' m o' hu hcu
      rcases upd_some_cases hu with ⟨rfl, rfl⟩ | ⟨_, hold⟩
      · dsimp only at hcu
        rcases upd_opt_cases hcu with ⟨_, hx⟩ | ⟨_, hold⟩
        · simp at hx
        · exact ⟨tx, ht, hold, rfl⟩
      · exact ⟨tx', hold, hcu, rfl⟩
    · obs_same ht
  | read t n i =>
    obtain ⟨tx, o, ob, ht, hop, hc, ho, hcase⟩ := stepRead_some hs
    obtain ⟨hlt, ob0, hob0, hown, hag⟩ := h.cur t tx n o ht hc
    rw [ho] at hob0; simp only [Option.some.injEq] at hob0; subst hob0
    cases hcase with
    | hit v k hi =>
      have hv : tx.view.idx n i = some v := hag i v k hi
      rw [← hv, observe_own]
      refine privInv_mk h.sh (priv_core_transfer h (Nat.le_refl _) ?_ objs_keep_id) (priv_obs_transfer h (fun d hd => hd) rfl ?_)
      · intro u tx' m o' hu hcu
        rcases upd_some_cases hu with ⟨rfl, rfl⟩ | ⟨_, hold⟩
        · exact ⟨tx, ht, hcu, rfl⟩
        · exact ⟨tx', hold, hcu, rfl⟩
      · intro u tx' hu
        rcases upd_some_cases hu with ⟨rfl, rfl⟩ | ⟨_, hold⟩
        · refine Or.inr ⟨tx, ht, Or.inl rfl, rfl, ?_, rfl, rfl, by simp⟩
          intro j hj
          dsimp only at hj
          rw [hv] at hj
          simp at hj
          rcases hj with rfl | hj
          · exact Or.inr ⟨n, by rw [hv]; simp⟩
          · exact Or.inl hj
        · exact Or.inr ⟨tx', hold, Or.inl rfl, rfl, fun i hi => Or.inl hi, rfl, rfl, rfl⟩
    | dead otx hi hoo hcl =>
      rw [hown, ht] at hoo
      simp only [Option.some.injEq] at hoo
      subst hoo
      rw [hop] at hcl; simp at hcl
    | through otx hi hoo hcl =>
      rw [hown, ht] at hoo
      simp only [Option.some.injEq] at hoo
      subst hoo
      rw [observe_own]
      refine privInv_mk h.sh ⟨?_, ?_⟩ (priv_obs_transfer h (fun d hd => hd) rfl ?_)
      · intro u tx' m o' hu hcu
        dsimp only at hu hcu ⊢
        have hold : ∃ txo, s.txs u = some txo ∧ txo.cur m = some o' ∧ tx'.view = txo.view := by
          rcases upd_some_cases hu with ⟨rfl, rfl⟩ | ⟨_, hold⟩
          · exact ⟨tx, ht, hcu, rfl⟩
          · exact ⟨tx', hold, hcu, rfl⟩
        obtain ⟨txo, h1, h2, h3⟩ := hold
        obtain ⟨hlt', ob1, hob1, hown1, hag1⟩ := h.cur u txo m o' h1 h2
        refine ⟨hlt', ?_⟩
        by_cases e : o' = o
        · subst e
          obtain ⟨rfl, rfl⟩ := h.inj u txo m o' t tx n h1 h2 ht hc
          rw [ht] at h1; simp only [Option.some.injEq] at h1; subst h1
          refine ⟨_, upd_same _ _ _, ?_, ?_⟩
          · unfold cacheFill; split <;> exact hown
          · rw [h3]; exact agree_cacheFill hag i _
        · exact ⟨ob1, by rw [upd_other _ _ _ _ e]; exact hob1, hown1, by rw [h3]; exact hag1⟩
      · intro u tx1 m o' u' tx2 m' hu hcu hu' hcu'
        dsimp only at hu hcu hu' hcu'
        have ex : ∀ (w : TxId) (txw : Tx) (mw : Name), upd s.txs t (some { tx with
              seen := if (tx.view.idx n i).isSome then i :: tx.seen else tx.seen,
              obs := (n, i, tx.view.idx n i) :: tx.obs, u3 := tx.u3 || false }) w = some txw → txw.cur mw = some o' →
            ∃ txo, s.txs w = some txo ∧ txo.cur mw = some o' := by
          intro w txw mw hw hcw
          rcases upd_some_cases hw with ⟨rfl, rfl⟩ | ⟨_, hold⟩
          · exact ⟨tx, ht, hcw⟩
          · exact ⟨txw, hold, hcw⟩
        obtain ⟨txa, a1, a2⟩ := ex u tx1 m hu hcu
        obtain ⟨txb, b1, b2⟩ := ex u' tx2 m' hu' hcu'
        exact h.inj u txa m o' u' txb m' a1 a2 b1 b2
      · intro u tx' hu
        rcases upd_some_cases hu with ⟨rfl, rfl⟩ | ⟨_, hold⟩
        · refine Or.inr ⟨tx, ht, Or.inl rfl, rfl, ?_, rfl, rfl, by simp⟩
          intro j hj
          dsimp only at hj
          split at hj
          · rename_i hsome
            simp at hj
            rcases hj with rfl | hj
            · refine Or.inr ⟨n, ?_⟩
              intro hnone; rw [hnone] at hsome; simp at hsome
            · exact Or.inl hj
          · exact Or.inl hj
        · exact Or.inr ⟨tx', hold, Or.inl rfl, rfl, fun i hi => Or.inl hi, rfl, rfl, rfl⟩
  | wr t op =>
    obtain ⟨tx, ht, hw, hop, objs', rfl, hcase⟩ := stepWr_some hs
    have hobs : ∀ u tx', upd s.txs t (some { tx with view := tx.view.apply op, ops := tx.ops ++ [op] }) u = some tx' →
        (tx'.seen = [] ∧ tx'.u1 = false ∧ tx'.u2 = false ∧ tx'.u3 = false ∧ tx'.view ∈ s.disks) ∨
        ∃ tx0, s.txs u = some tx0 ∧ (tx'.view = tx0.view ∨ tx'.isWrite = true) ∧ tx'.isWrite = tx0.isWrite ∧
          (∀ i ∈ tx'.seen, i ∈ tx0.seen ∨ ∃ n, tx'.view.idx n i ≠ none) ∧ tx'.u1 = tx0.u1 ∧ tx'.u2 = tx0.u2 ∧ tx'.u3 = tx0.u3 := by
      intro u tx' hu
      rcases upd_some_cases hu with ⟨rfl, rfl⟩ | ⟨_, hold⟩
      · exact Or.inr ⟨tx, ht, Or.inr hw, rfl, fun i hi => Or.inl hi, rfl, rfl, rfl⟩
      · exact Or.inr ⟨tx', hold, Or.inl rfl, rfl, fun i hi => Or.inl hi, rfl, rfl, rfl⟩
    rcases hcase with ⟨rfl, hnone⟩ | ⟨n, i, o, ob, hcu, ho, hop2⟩
    · refine privInv_mk h.sh (priv_core_transfer h (Nat.le_refl _) ?_ objs_keep_id) (priv_obs_transfer h (fun d hd => hd) rfl hobs)
      intro u tx' m o' hu hcu
      rcases upd_some_cases hu with ⟨rfl, rfl⟩ | ⟨_, hold⟩
      · exact ⟨tx, ht, hcu, apply_idx_other _ _ _ (by rw [hnone]; simp)⟩
      · exact ⟨tx', hold, hcu, rfl⟩
    · obtain ⟨hlt, ob0, hob0, hown, hag⟩ := h.cur t tx n o ht hcu
      rw [ho] at hob0; simp only [Option.some.injEq] at hob0; subst hob0
      refine privInv_mk h.sh ⟨?_, ?_⟩ (priv_obs_transfer h (fun d hd => hd) rfl hobs)
      · intro u tx' m o' hu hcu'
        dsimp only at hu hcu' ⊢
        rcases upd_some_cases hu with ⟨rfl, rfl⟩ | ⟨hne, hold⟩
        · dsimp only at hcu' ⊢
          obtain ⟨hlt', ob1, hob1, hown1, hag1⟩ := h.cur u tx m o' ht hcu'
          refine ⟨hlt', ?_⟩
          by_cases e : o' = o
          · subst e
            obtain ⟨_, rfl⟩ := h.inj u tx m o' u tx n ht hcu' ht hcu
            rcases hop2 with ⟨v, rfl, rfl⟩ | ⟨rfl, rfl⟩
            · refine ⟨_, upd_same _ _ _, hown, ?_⟩
              intro j w k hj
              dsimp only at hj
              rw [apply_put_idx]
              by_cases ej : j = i
              · subst ej; simp at hj; simp [hj.1]
              · simp only [upd_other _ _ _ _ ej] at hj; simp only [ej, if_false]; exact hag j w k hj
            · refine ⟨_, upd_same _ _ _, hown, ?_⟩
              intro j w k hj
              dsimp only at hj
              rw [apply_del_idx]
              by_cases ej : j = i
              · subst ej; simp at hj
              · simp only [upd_other _ _ _ _ ej] at hj; simp only [ej, if_false]; exact hag j w k hj
          · have hmn : m ≠ n := by
              intro emn; subst emn; rw [hcu] at hcu'; simp at hcu'; exact e hcu'.symm
            have hidx : (tx.view.apply op).idx m = tx.view.idx m := by
              apply apply_idx_other
              rcases hop2 with ⟨v, rfl, _⟩ | ⟨rfl, _⟩ <;> simp [Op.name?] <;> exact fun e' => hmn e'.symm
            refine ⟨ob1, ?_, hown1, agree_congr hag1 rfl hidx⟩
            rcases hop2 with ⟨v, _, rfl⟩ | ⟨_, rfl⟩ <;> rw [upd_other _ _ _ _ e] <;> exact hob1
        · obtain ⟨hlt', ob1, hob1, hown1, hag1⟩ := h.cur u tx' m o' hold hcu'
          have e : o' ≠ o := by
            intro e; subst e
            exact hne (h.inj u tx' m o' t tx n hold hcu' ht hcu).1
          refine ⟨hlt', ob1, ?_, hown1, hag1⟩
          rcases hop2 with ⟨v, _, rfl⟩ | ⟨_, rfl⟩ <;> rw [upd_other _ _ _ _ e] <;> exact hob1
      · intro u tx1 m o' u' tx2 m' hu hcu1 hu' hcu2
        dsimp only at hu hcu1 hu' hcu2
        have ex : ∀ (w : TxId) (txw : Tx) (mw : Name),
            upd s.txs t (some { tx with view := tx.view.apply op, ops := tx.ops ++ [op] }) w = some txw →
            txw.cur mw = some o' → ∃ txo, s.txs w = some txo ∧ txo.cur mw = some o' := by
          intro w txw mw hw' hcw
          rcases upd_some_cases hw' with ⟨rfl, rfl⟩ | ⟨_, hold⟩
          · exact ⟨tx, ht, hcw⟩
          · exact ⟨txw, hold, hcw⟩
        obtain ⟨txa, a1, a2⟩ := ex u tx1 m hu hcu1
        obtain ⟨txb, b1, b2⟩ := ex u' tx2 m' hu' hcu2
        exact h.inj u txa m o' u' txb m' a1 a2 b1 b2
  | backfill t i =>
    obtain ⟨tx, ht, hw, hop, hseen, hcase⟩ := stepBackfill_some hs
    rcases hcase with ⟨_, rfl⟩ | ⟨hnone, rfl⟩
    · exact h
    · have core := priv_core_transfer (s' := setBad { s with txs := upd s.txs t (some { tx with u2 := true }) } .u2) h
        (Nat.le_refl _)
        (by
          intro u tx' m o hu hc
          simp only [setBad] at hu
          rcases upd_some_cases hu with ⟨rfl, rfl⟩ | ⟨_, hold⟩
          · exact ⟨tx, ht, hc, rfl⟩
          · exact ⟨tx', hold, hc, rfl⟩)
        (by simp only [setBad]; exact objs_keep_id)
      refine ⟨h.sh, core.1, core.2, ?_, ?_, ⟨?_, ?_⟩, ?_⟩
      · intro u tx' j hu hw' hj
        simp only [setBad] at hu
        rcases upd_some_cases hu with ⟨rfl, rfl⟩ | ⟨_, hold⟩
        · exact h.seen u tx j ht hw' hj
        · exact h.seen u tx' j hold hw' hj
      · intro u tx' hu hw'
        simp only [setBad] at hu
        rcases upd_some_cases hu with ⟨rfl, rfl⟩ | ⟨_, hold⟩
        · exact h.viewIn u tx ht hw'
        · exact h.viewIn u tx' hold hw'
      · simp only [setBad]
        rcases h.f13.bad with hb | hb <;> rw [hb] <;> simp
      · intro u tx' hu
        simp only [setBad] at hu
        rcases upd_some_cases hu with ⟨rfl, rfl⟩ | ⟨_, hold⟩
        · exact h.f13.tx u tx ht
        · exact h.f13.tx u tx' hold
      · intro hwf
        exfalso
        have hv : tx.view ∈ s.disks := h.viewIn t tx ht hw
        have hwfv : tx.view.WF := hwf _ (by simp only [setBad]; exact hv)
        obtain ⟨n, hn⟩ := h.seen t tx i ht hw hseen
        exact hwfv n i hn hnone
  | closeTx t ok =>
    obtain ⟨tx, ht, hop, hcase⟩ := stepClose_some hs
    have hcore : ∀ (tx1 : Tx), tx1.cur = tx.cur → tx1.view = tx.view →
        ∀ u tx' m o, upd s.txs t (some tx1) u = some tx' → tx'.cur m = some o →
          ∃ tx0, s.txs u = some tx0 ∧ tx0.cur m = some o ∧ tx'.view.idx m = tx0.view.idx m := by
      intro tx1 e1 e2 u tx' m o hu hc
      rcases upd_some_cases hu with ⟨rfl, rfl⟩ | ⟨_, hold⟩
      · exact ⟨tx, ht, by rw [← e1]; exact hc, by rw [e2]⟩
      · exact ⟨tx', hold, hc, rfl⟩
    cases hcase with
    | reader hw hu =>
      refine privInv_mk h.sh (priv_core_transfer h (Nat.le_refl _) (hcore _ rfl rfl) objs_keep_id)
        (priv_obs_transfer h (fun d hd => hd) rfl ?_)
      obs_same ht
    | commit hw =>
      refine privInv_mk h.sh (priv_core_transfer h (Nat.le_refl _) (hcore _ rfl rfl) objs_keep_id)
        (priv_obs_transfer h (fun d hd => by simp only [State.disks] at hd ⊢; exact List.mem_cons_of_mem _ hd) rfl ?_)
      obs_same ht
    | rollback hw =>
      refine privInv_mk h.sh (priv_core_transfer h (Nat.le_refl _) (hcore _ rfl rfl) objs_keep_id)
        (priv_obs_transfer h (fun d hd => hd) rfl ?_)
      obs_same ht
  | release t n =>
    obtain ⟨tx, o, ob, ht, hw, hop, hc, ho, rfl⟩ := stepRelease_some hs
    refine privInv_mk h.sh (priv_core_transfer h (Nat.le_refl _) ?_ (objs_keep_upd ho rfl rfl))
      (priv_obs_transfer h (fun d hd => hd) rfl ?_)
    · intro u tx' m o' hu hcu
      rcases upd_some_cases hu with ⟨rfl, rfl⟩ | ⟨_, hold⟩
      · dsimp only at hcu
        rcases upd_opt_cases hcu with ⟨_, hx⟩ | ⟨_, hold⟩
        · simp at hx
        · exact ⟨tx, ht, hold, rfl⟩
      · exact ⟨tx', hold, hcu, rfl⟩
    · obs_same ht
  | evict n =>
    simp only [step, stepEvict, Option.some.injEq] at hs
    subst hs
    refine privInv_mk h.sh (priv_core_transfer h (Nat.le_refl _) ?_ objs_keep_id) (priv_obs_transfer h (fun d hd => hd) rfl ?_)
    · intro u tx' m o hu hc; exact ⟨tx', hu, hc, rfl⟩
    · intro u tx' hu; exact Or.inr ⟨tx', hu, Or.inl rfl, rfl, fun i hi => Or.inl hi, rfl, rfl, rfl⟩

/-! ### one reader running alone on a coherent cache -/

/-- labels of a search of transaction `t` -/
def Label.soloR (t : TxId) : Label → Bool
  | .access u _ => u == t
  | .accessCold u _ => u == t
  | .leave u _ => u == t
  | .read u _ _ => u == t
  | .backfill u _ => u == t
  | .closeTx u _ => u == t
  | _ => false

/-- what a sequence of reads returns when every read returns the content of disk `d` -/
def pushReads (d : Disk) : List Label → List (Name × Item × Option Val) → List (Name × Item × Option Val)
  | [], acc => acc
  | .read _ n i :: rest, acc => pushReads d rest ((n, i, d.idx n i) :: acc)
  | _ :: rest, acc => pushReads d rest acc

structure Solo (d : Disk) (t : TxId) (acc : List (Name × Item × Option Val)) (s : State) : Prop where
  tx : ∃ tx, s.txs t = some tx ∧ tx.isWrite = false ∧ tx.view = d ∧ tx.obs = acc ∧ tx.u1 = false ∧ tx.u3 = false ∧
    ∀ n o, tx.cur n = some o → ∃ ob, s.objs o = some ob ∧ ob.name = n ∧ ob.owner = t ∧ Agree ob n d
  map : ∀ n o, s.map n = some o → ∃ ob, s.objs o = some ob ∧ ob.name = n ∧ Agree ob n d
  bound : ∀ o ob, s.objs o = some ob → o < s.nextObj

theorem cacheFill_name (ob : Obj) (i : Item) (r : Option Val) (k : Nat) : (cacheFill ob i r k).name = ob.name := by
  unfold cacheFill; split <;> rfl
theorem cacheFill_owner (ob : Obj) (i : Item) (r : Option Val) (k : Nat) : (cacheFill ob i r k).owner = ob.owner := by
  unfold cacheFill; split <;> rfl
theorem cacheFill_writer (ob : Obj) (i : Item) (r : Option Val) (k : Nat) : (cacheFill ob i r k).writer = ob.writer := by
  unfold cacheFill; split <;> rfl

theorem bound_upd {objs : ObjId → Option Obj} {nx : Nat} (hb : ∀ o ob, objs o = some ob → o < nx) {o : ObjId} {ob1 : Obj}
    {nx' : Nat} (ho : o < nx') (hle : nx ≤ nx') : ∀ o' ob', upd objs o (some ob1) o' = some ob' → o' < nx' := by
  intro o' ob' h
  rcases upd_some_cases h with ⟨rfl, _⟩ | ⟨_, hold⟩
  · exact ho
  · exact Nat.lt_of_lt_of_le (hb o' ob' hold) hle

/-- the manager's object for `n`, with what is known about it -/
theorem solo_map_obj {d t acc s} (h : Solo d t acc s) {n o ob} (hm : s.map n = some o) (ho : s.objs o = some ob) :
    ob.name = n ∧ Agree ob n d := by
  obtain ⟨ob', ho', h1⟩ := h.map n o hm
  rw [ho] at ho'; simp only [Option.some.injEq] at ho'; subst ho'; exact h1

theorem solo_step {d : Disk} {t : TxId} {acc} {s s' : State} {l : Label} (h : Solo d t acc s) (hl : l.soloR t = true)
    (hs : step s l = some s') : Solo d t (pushReads d [l] acc) s' := by
  have hmapo := fun {n o ob} => solo_map_obj h (n := n) (o := o) (ob := ob)
  obtain ⟨⟨tx0, ht0, hw0, hv0, hobs0, hu10, hu30, hcur0⟩, hmap, hbound⟩ := h
  cases l with
  | beginR u => simp [Label.soloR] at hl
  | beginW u => simp [Label.soloR] at hl
  | wr u op => simp [Label.soloR] at hl
  | release u n => simp [Label.soloR] at hl
  | evict n => simp [Label.soloR] at hl
  | access u n | accessCold u n =>
    simp only [Label.soloR, beq_iff_eq] at hl; subst hl
    obtain ⟨tx, o, ob', nx, mp, ht, hop, hc, hcase, rfl⟩ : AccessOut s u n s' := by
      first | exact stepAccess_some hs | exact stepAccessCold_some hs
    rw [ht0] at ht; simp only [Option.some.injEq] at ht; subst ht
    simp only [pushReads, withAccess]
    have hob' : ob'.name = n ∧ ob'.owner = u ∧ Agree ob' n d := by
      cases hcase with
      | fresh inMap _ _ =>
        rw [if_neg (by simp [hw0])]
        exact ⟨rfl, rfl, agree_fresh _ _ _ _ _ _ _⟩
      | existing o ob hsh hm ho hwn hr =>
        have := hmapo hm ho
        unfold takeShared
        rw [if_neg (by simp [hw0])]
        exact ⟨this.1, rfl, agree_congr this.2 rfl rfl⟩
    -- an object of another index is not the one handed out
    have hother : ∀ m o1 ob1, m ≠ n → s.objs o1 = some ob1 → ob1.name = m → o1 ≠ o := by
      intro m o1 ob1 hmn hob1 hn1 e
      subst e
      cases hcase with
      | fresh inMap _ _ => exact absurd (hbound _ _ hob1) (Nat.lt_irrefl _)
      | existing o2 ob2 hsh hm ho hwn hr =>
        rw [ho] at hob1; simp only [Option.some.injEq] at hob1; subst hob1
        exact hmn (hn1.symm.trans (hmapo hm ho).1)
    have hnx : o < nx ∧ s.nextObj ≤ nx := by
      cases hcase with
      | fresh inMap _ _ => exact ⟨Nat.lt_succ_self _, Nat.le_succ _⟩
      | existing o2 ob2 hsh hm ho hwn hr => exact ⟨hbound _ _ ho, Nat.le_refl _⟩
    refine ⟨?_, ?_, bound_upd hbound hnx.1 hnx.2⟩
    · refine ⟨_, upd_same _ _ _, hw0, hv0, hobs0, hu10, hu30, ?_⟩
      intro m o' hcm
      dsimp only at hcm ⊢
      rcases upd_opt_cases hcm with ⟨rfl, hx⟩ | ⟨hmn, hold⟩
      · simp only [Option.some.injEq] at hx; subst hx
        exact ⟨ob', upd_same _ _ _, hob'.1, hob'.2.1, hob'.2.2⟩
      · obtain ⟨ob1, hob1, hn1, how1, hag1⟩ := hcur0 m o' hold
        exact ⟨ob1, by rw [upd_other _ _ _ _ (hother m o' ob1 hmn hob1 hn1)]; exact hob1, hn1, how1, hag1⟩
    · intro m o' hm
      dsimp only at hm ⊢
      -- either the entry is the one just installed, or it is an old entry
      have hcases : (m = n ∧ o' = o) ∨ s.map m = some o' := by
        cases hcase with
        | fresh inMap _ _ =>
          cases inMap with
          | false => exact Or.inr (by simpa using hm)
          | true =>
            simp only [if_true] at hm
            rcases upd_opt_cases hm with ⟨rfl, hx⟩ | ⟨_, hold⟩
            · simp only [Option.some.injEq] at hx; exact Or.inl ⟨rfl, hx.symm⟩
            · exact Or.inr hold
        | existing o2 ob2 hsh hm2 ho hwn hr => exact Or.inr hm
      rcases hcases with ⟨rfl, rfl⟩ | hold
      · exact ⟨ob', upd_same _ _ _, hob'.1, hob'.2.2⟩
      · obtain ⟨ob1, hob1, hn1, hag1⟩ := hmap m o' hold
        by_cases emn : m = n
        · subst emn
          by_cases e : o' = o
          · subst e; exact ⟨ob', upd_same _ _ _, hob'.1, hob'.2.2⟩
          · exact ⟨ob1, by rw [upd_other _ _ _ _ e]; exact hob1, hn1, hag1⟩
        · exact ⟨ob1, by rw [upd_other _ _ _ _ (hother m o' ob1 emn hob1 hn1)]; exact hob1, hn1, hag1⟩
  | leave u n =>
    simp only [Label.soloR, beq_iff_eq] at hl; subst hl
    obtain ⟨tx, o, ob, ht, hw, hc, ho, rfl⟩ := stepLeave_some hs
    rw [ht0] at ht; simp only [Option.some.injEq] at ht; subst ht
    simp only [pushReads]
    refine ⟨?_, ?_, bound_upd hbound (hbound _ _ ho) (Nat.le_refl _)⟩
    · refine ⟨_, upd_same _ _ _, hw0, hv0, hobs0, hu10, hu30, ?_⟩
      intro m o' hcm
      dsimp only at hcm ⊢
      have hold : tx0.cur m = some o' := by
        rcases upd_opt_cases hcm with ⟨_, hx⟩ | ⟨_, hold⟩
        · simp at hx
        · exact hold
      obtain ⟨ob1, hob1, hn1, how1, hag1⟩ := hcur0 m o' hold
      by_cases e : o' = o
      · subst e
        rw [ho] at hob1; simp only [Option.some.injEq] at hob1; subst hob1
        exact ⟨_, upd_same _ _ _, hn1, how1, agree_congr hag1 rfl rfl⟩
      · exact ⟨ob1, by rw [upd_other _ _ _ _ e]; exact hob1, hn1, how1, hag1⟩
    · intro m o' hm
      dsimp only at hm ⊢
      obtain ⟨ob1, hob1, hn1, hag1⟩ := hmap m o' hm
      by_cases e : o' = o
      · subst e
        rw [ho] at hob1; simp only [Option.some.injEq] at hob1; subst hob1
        exact ⟨_, upd_same _ _ _, hn1, agree_congr hag1 rfl rfl⟩
      · exact ⟨ob1, by rw [upd_other _ _ _ _ e]; exact hob1, hn1, hag1⟩
  | read u n i =>
    simp only [Label.soloR, beq_iff_eq] at hl; subst hl
    obtain ⟨tx, o, ob, ht, hop, hc, ho, hcase⟩ := stepRead_some hs
    rw [ht0] at ht; simp only [Option.some.injEq] at ht; subst ht
    obtain ⟨ob0, hob0, hname, hown, hag⟩ := hcur0 n o hc
    rw [ho] at hob0; simp only [Option.some.injEq] at hob0; subst hob0
    simp only [pushReads]
    cases hcase with
    | hit v k hi =>
      have hv : tx0.view.idx n i = some v := by rw [hv0]; exact hag i v k hi
      rw [← hv, observe_own]
      refine ⟨?_, hmap, hbound⟩
      refine ⟨_, upd_same _ _ _, hw0, hv0, by dsimp only; rw [hobs0, hv0], hu10, by dsimp only; simp [hu30], ?_⟩
      intro m o' hcm; exact hcur0 m o' hcm
    | dead otx hi hoo hcl =>
      rw [hown, ht0] at hoo
      simp only [Option.some.injEq] at hoo
      subst hoo
      rw [hop] at hcl; simp at hcl
    | through otx hi hoo hcl =>
      rw [hown, ht0] at hoo
      simp only [Option.some.injEq] at hoo
      subst hoo
      rw [observe_own]
      have hfill : Agree (cacheFill ob i (tx0.view.idx n i) tx0.snap) n d := by
        rw [hv0]; exact agree_cacheFill hag i _
      refine ⟨?_, ?_, bound_upd hbound (hbound _ _ ho) (Nat.le_refl _)⟩
      · refine ⟨_, upd_same _ _ _, hw0, hv0, by dsimp only; rw [hobs0, hv0], hu10, by dsimp only; simp [hu30], ?_⟩
        intro m o' hcm
        dsimp only at hcm ⊢
        obtain ⟨ob1, hob1, hn1, how1, hag1⟩ := hcur0 m o' hcm
        by_cases e : o' = o
        · subst e
          rw [ho] at hob1; simp only [Option.some.injEq] at hob1; subst hob1
          have emn : m = n := hn1.symm.trans hname
          subst emn
          exact ⟨_, upd_same _ _ _, (cacheFill_name _ _ _ _).trans hn1, (cacheFill_owner _ _ _ _).trans how1, hfill⟩
        · exact ⟨ob1, by rw [upd_other _ _ _ _ e]; exact hob1, hn1, how1, hag1⟩
      · intro m o' hm
        dsimp only at hm ⊢
        obtain ⟨ob1, hob1, hn1, hag1⟩ := hmap m o' hm
        by_cases e : o' = o
        · subst e
          rw [ho] at hob1; simp only [Option.some.injEq] at hob1; subst hob1
          have emn : m = n := hn1.symm.trans hname
          subst emn
          exact ⟨_, upd_same _ _ _, (cacheFill_name _ _ _ _).trans hn1, hfill⟩
        · exact ⟨ob1, by rw [upd_other _ _ _ _ e]; exact hob1, hn1, hag1⟩
  | backfill u i =>
    simp only [Label.soloR, beq_iff_eq] at hl; subst hl
    obtain ⟨tx, ht, hw, hop, hseen, hcase⟩ := stepBackfill_some hs
    rw [ht0] at ht; simp only [Option.some.injEq] at ht; subst ht
    simp only [pushReads]
    rcases hcase with ⟨_, rfl⟩ | ⟨hnone, rfl⟩
    · exact ⟨⟨tx0, ht0, hw0, hv0, hobs0, hu10, hu30, hcur0⟩, hmap, hbound⟩
    · simp only [setBad]
      exact ⟨⟨_, upd_same _ _ _, hw0, hv0, hobs0, hu10, hu30, hcur0⟩, hmap, hbound⟩
  | closeTx u ok =>
    simp only [Label.soloR, beq_iff_eq] at hl; subst hl
    obtain ⟨tx, ht, hop, hcase⟩ := stepClose_some hs
    rw [ht0] at ht; simp only [Option.some.injEq] at ht; subst ht
    simp only [pushReads]
    cases hcase with
    | reader hw hu => exact ⟨⟨_, upd_same _ _ _, hw0, hv0, hobs0, hu10, hu30, hcur0⟩, hmap, hbound⟩
    | commit hw => rw [hw0] at hw; simp at hw
    | rollback hw => rw [hw0] at hw; simp at hw

theorem pushReads_append (d : Disk) (a b : List Label) (acc) : pushReads d (a ++ b) acc = pushReads d b (pushReads d a acc) := by
  induction a generalizing acc with
  | nil => rfl
  | cons l rest ih => cases l <;> simp [pushReads, ih]

theorem solo_run {d : Disk} {t : TxId} : ∀ (sched : List Label) (acc) (s s' : State), Solo d t acc s →
    (∀ l ∈ sched, Label.soloR t l = true) → run s sched = some s' → Solo d t (pushReads d sched acc) s' := by
  intro sched
  induction sched with
  | nil => intro acc s s' h _ hr; simp [run] at hr; subst hr; exact h
  | cons l rest ih =>
    intro acc s s' h hall hr
    simp only [run] at hr
    cases hs : step s l with
    | none => simp [hs] at hr
    | some s1 =>
      simp only [hs] at hr
      have h1 := solo_step h (hall l (by simp)) hs
      have := ih _ s1 s' h1 (fun l' hl' => hall l' (by simp [hl'])) hr
      have e : pushReads d (l :: rest) acc = pushReads d rest (pushReads d [l] acc) := by
        have := pushReads_append d [l] rest acc
        simpa using this
      rw [e]; exact this

/-! ### no two transactions overlap on one cache name -/

/-- Prop form of `doneWith` -/
def Done (s : State) (u : TxId) (n : Name) : Prop :=
  ∃ tx, s.txs u = some tx ∧ tx.isOpen = false ∧ (tx.isWrite = true → tx.cur n = none)

theorem doneWith_iff (s : State) (u : TxId) (n : Name) : doneWith s u n = true ↔ Done s u n := by
  unfold doneWith Done
  cases h : s.txs u with
  | none => simp
  | some tx =>
    simp only [Option.some.injEq, exists_eq_left']
    cases tx.isOpen <;> cases tx.isWrite <;> cases tx.cur n <;> simp

theorem mayAccess_spec {s : State} {t : TxId} {n : Name} (h : mayAccess s t n = true) :
    ∃ tx, s.txs t = some tx ∧ ∀ u ∈ s.users n, u ≠ t → Done s u n ∧ endVerOf s u ≤ tx.snap := by
  unfold mayAccess at h
  cases ht : s.txs t with
  | none => simp [ht] at h
  | some tx =>
    simp only [ht, List.all_eq_true, Bool.or_eq_true, beq_iff_eq, Bool.and_eq_true, decide_eq_true_eq] at h
    refine ⟨tx, rfl, ?_⟩
    intro u hu hne
    rcases h u hu with e | ⟨hd, he⟩
    · exact absurd e hne
    · exact ⟨(doneWith_iff s u n).1 hd, he⟩

/-- the observation part shared by the private and the no-overlap invariants -/
structure ObsInv (s : State) : Prop where
  seen : ∀ t tx i, s.txs t = some tx → tx.isWrite = false → i ∈ tx.seen → ∃ n, tx.view.idx n i ≠ none
  viewIn : ∀ t tx, s.txs t = some tx → tx.isWrite = false → tx.view ∈ s.disks
  f13 : Flags13 s
  f2 : (∀ d ∈ s.disks, d.WF) → s.bad ≠ some .u2 ∧ ∀ t tx, s.txs t = some tx → tx.u2 = false

theorem obsInv_init (sh : Bool) (d0 : Disk) : ObsInv (init sh d0) := by
  refine ⟨?_, ?_, ⟨Or.inl rfl, ?_⟩, ?_⟩ <;> intros <;> simp_all [init]

theorem obs_transfer {s s' : State} (h : ObsInv s) (hd : ∀ d ∈ s.disks, d ∈ s'.disks) (hb : s'.bad = s.bad)
    (htx : ∀ u tx', s'.txs u = some tx' →
      (tx'.seen = [] ∧ tx'.u1 = false ∧ tx'.u2 = false ∧ tx'.u3 = false ∧ tx'.view ∈ s'.disks) ∨
      ∃ tx, s.txs u = some tx ∧ (tx'.view = tx.view ∨ tx'.isWrite = true) ∧ tx'.isWrite = tx.isWrite ∧
        (∀ i ∈ tx'.seen, i ∈ tx.seen ∨ ∃ n, tx'.view.idx n i ≠ none) ∧ tx'.u1 = tx.u1 ∧ tx'.u2 = tx.u2 ∧ tx'.u3 = tx.u3) :
    ObsInv s' := by
  refine ⟨?_, ?_, ⟨by rw [hb]; exact h.f13.bad, ?_⟩, ?_⟩
  · intro t tx' i ht hw hi
    rcases htx t tx' ht with ⟨hs, _⟩ | ⟨tx, h1, hv, hw', hs, _⟩
    · rw [hs] at hi; simp at hi
    · rcases hs i hi with hold | hnew
      · rcases hv with hv | hv
        · rw [hv]; exact h.seen t tx i h1 (hw' ▸ hw) hold
        · rw [hw] at hv; simp at hv
      · exact hnew
  · intro t tx' ht hw
    rcases htx t tx' ht with ⟨_, _, _, _, hin⟩ | ⟨tx, h1, hv, hw', _⟩
    · exact hin
    · rcases hv with hv | hv
      · rw [hv]; exact hd _ (h.viewIn t tx h1 (hw' ▸ hw))
      · rw [hw] at hv; simp at hv
  · intro t tx' ht
    rcases htx t tx' ht with ⟨_, e1, _, e3, _⟩ | ⟨tx, h1, _, _, _, e1, _, e3⟩
    · exact ⟨e1, e3⟩
    · rw [e1, e3]; exact h.f13.tx t tx h1
  · intro hwf
    have := h.f2 (fun d hdd => hwf d (hd d hdd))
    refine ⟨by rw [hb]; exact this.1, ?_⟩
    intro t tx' ht
    rcases htx t tx' ht with ⟨_, _, e2, _⟩ | ⟨tx, h1, _, _, _, _, e2, _⟩
    · exact e2
    · rw [e2]; exact this.2 t tx h1

macro "obs_same'" ht:ident : tactic =>
  `(tactic| (intro u tx' hu
             rcases upd_some_cases hu with hcase | hcase
             · obtain ⟨e1, e2⟩ := hcase
               subst e1; subst e2
               exact Or.inr ⟨_, $ht, Or.inl rfl, rfl, fun i hi => Or.inl hi, rfl, rfl, rfl⟩
             · exact Or.inr ⟨tx', hcase.2, Or.inl rfl, rfl, fun i hi => Or.inl hi, rfl, rfl, rfl⟩))

/-- `ObsInv` is kept by every step as long as an open transaction reads through its own handle an
object whose cached items agree with its view -/
theorem obsInv_step {s s' : State} {l : Label} (h : ObsInv s)
    (hcoh : ∀ t tx n o ob, s.txs t = some tx → tx.isOpen = true → tx.cur n = some o → s.objs o = some ob →
      ob.owner = t ∧ Agree ob n tx.view)
    (hs : step s l = some s') : ObsInv s' := by
  cases l with
  | beginR t =>
    obtain ⟨ht, rfl⟩ := stepBeginR_some hs
    refine obs_transfer h (fun d hd => hd) rfl ?_
    intro u tx' hu
    rcases upd_some_cases hu with ⟨rfl, rfl⟩ | ⟨_, hold⟩
    · exact Or.inl ⟨rfl, rfl, rfl, rfl, latest_mem_disks s⟩
    · exact Or.inr ⟨tx', hold, Or.inl rfl, rfl, fun i hi => Or.inl hi, rfl, rfl, rfl⟩
  | beginW t =>
    obtain ⟨ht, _, rfl⟩ := stepBeginW_some hs
    refine obs_transfer h (fun d hd => hd) rfl ?_
    intro u tx' hu
    rcases upd_some_cases hu with ⟨rfl, rfl⟩ | ⟨_, hold⟩
    · exact Or.inl ⟨rfl, rfl, rfl, rfl, latest_mem_disks s⟩
    · exact Or.inr ⟨tx', hold, Or.inl rfl, rfl, fun i hi => Or.inl hi, rfl, rfl, rfl⟩
  | access t n | accessCold t n =>
    obtain ⟨tx, o, ob', nx, mp, ht, hop, hc, hcase, rfl⟩ : AccessOut s t n s' := by
      first | exact stepAccess_some hs | exact stepAccessCold_some hs
    refine obs_transfer h (fun d hd => hd) rfl ?_
    simp only [withAccess]
    obs_same' ht
  | leave t n =>
    obtain ⟨tx, o, ob, ht, hw, hc, ho, rfl⟩ := stepLeave_some hs
    refine obs_transfer h (fun d hd => hd) rfl ?_
    obs_same' ht
  | read t n i =>
    obtain ⟨tx, o, ob, ht, hop, hc, ho, hcase⟩ := stepRead_some hs
    obtain ⟨hown, hag⟩ := hcoh t tx n o ob ht hop hc ho
    have key : ∀ (s0 : State), s0.txs = s.txs → s0.bad = s.bad → s0.disks = s.disks →
        ObsInv (observe s0 t tx n i (tx.view.idx n i)) := by
      intro s0 e1 e2 e3
      rw [observe_own]
      refine obs_transfer h (fun d hd => by show d ∈ s0.disks; rw [e3]; exact hd) e2 ?_
      intro u tx' hu
      dsimp only at hu
      rw [e1] at hu
      rcases upd_some_cases hu with ⟨rfl, rfl⟩ | ⟨_, hold⟩
      · refine Or.inr ⟨tx, ht, Or.inl rfl, rfl, ?_, rfl, rfl, by simp⟩
        intro j hj
        dsimp only at hj
        split at hj
        · rename_i hsome
          simp at hj
          rcases hj with rfl | hj
          · refine Or.inr ⟨n, ?_⟩
            intro hnone; rw [hnone] at hsome; simp at hsome
          · exact Or.inl hj
        · exact Or.inl hj
      · exact Or.inr ⟨tx', hold, Or.inl rfl, rfl, fun i hi => Or.inl hi, rfl, rfl, rfl⟩
    cases hcase with
    | hit v k hi =>
      have hv : tx.view.idx n i = some v := hag i v k hi
      rw [← hv]; exact key s rfl rfl rfl
    | dead otx hi hoo hcl =>
      rw [hown, ht] at hoo
      simp only [Option.some.injEq] at hoo
      subst hoo
      rw [hop] at hcl; simp at hcl
    | through otx hi hoo hcl =>
      rw [hown, ht] at hoo
      simp only [Option.some.injEq] at hoo
      subst hoo
      exact key _ rfl rfl rfl
  | wr t op =>
    obtain ⟨tx, ht, hw, hop, objs', rfl, hcase⟩ := stepWr_some hs
    refine obs_transfer h (fun d hd => hd) rfl ?_
    intro u tx' hu
    rcases upd_some_cases hu with ⟨rfl, rfl⟩ | ⟨_, hold⟩
    · exact Or.inr ⟨tx, ht, Or.inr hw, rfl, fun i hi => Or.inl hi, rfl, rfl, rfl⟩
    · exact Or.inr ⟨tx', hold, Or.inl rfl, rfl, fun i hi => Or.inl hi, rfl, rfl, rfl⟩
  | backfill t i =>
    obtain ⟨tx, ht, hw, hop, hseen, hcase⟩ := stepBackfill_some hs
    rcases hcase with ⟨_, rfl⟩ | ⟨hnone, rfl⟩
    · exact h
    · refine ⟨?_, ?_, ⟨?_, ?_⟩, ?_⟩
      · intro u tx' j hu hw' hj
        simp only [setBad] at hu
        rcases upd_some_cases hu with ⟨rfl, rfl⟩ | ⟨_, hold⟩
        · exact h.seen u tx j ht hw' hj
        · exact h.seen u tx' j hold hw' hj
      · intro u tx' hu hw'
        simp only [setBad] at hu
        rcases upd_some_cases hu with ⟨rfl, rfl⟩ | ⟨_, hold⟩
        · exact h.viewIn u tx ht hw'
        · exact h.viewIn u tx' hold hw'
      · simp only [setBad]
        rcases h.f13.bad with hb | hb <;> rw [hb] <;> simp
      · intro u tx' hu
        simp only [setBad] at hu
        rcases upd_some_cases hu with ⟨rfl, rfl⟩ | ⟨_, hold⟩
        · exact h.f13.tx u tx ht
        · exact h.f13.tx u tx' hold
      · intro hwf
        exfalso
        have hv : tx.view ∈ s.disks := h.viewIn t tx ht hw
        have hwfv : tx.view.WF := hwf _ (by simp only [setBad]; exact hv)
        obtain ⟨n, hn⟩ := h.seen t tx i ht hw hseen
        exact hwfv n i hn hnone
  | closeTx t ok =>
    obtain ⟨tx, ht, hop, hcase⟩ := stepClose_some hs
    cases hcase with
    | reader hw hu =>
      refine obs_transfer h (fun d hd => hd) rfl ?_
      obs_same' ht
    | commit hw =>
      refine obs_transfer h (fun d hd => by simp only [State.disks] at hd ⊢; exact List.mem_cons_of_mem _ hd) rfl ?_
      obs_same' ht
    | rollback hw =>
      refine obs_transfer h (fun d hd => hd) rfl ?_
      obs_same' ht
  | release t n =>
    obtain ⟨tx, o, ob, ht, hw, hop, hc, ho, rfl⟩ := stepRelease_some hs
    refine obs_transfer h (fun d hd => hd) rfl ?_
    obs_same' ht
  | evict n =>
    simp only [step, stepEvict, Option.some.injEq] at hs
    subst hs
    refine obs_transfer h (fun d hd => hd) rfl ?_
    intro u tx' hu; exact Or.inr ⟨tx', hu, Or.inl rfl, rfl, fun i hi => Or.inl hi, rfl, rfl, rfl⟩

/-- committed writers among the users of `n` ended no later (in commits) than version `k` -/
def CommittedBefore (s : State) (n : Name) (k : Nat) : Prop :=
  ∀ u ∈ s.users n, ∀ utx, s.txs u = some utx → utx.isWrite = true → utx.isOpen = false → utx.failed = false → utx.endVer ≤ k

structure NOInv (s : State) : Prop where
  ver : ∀ t tx, s.txs t = some tx → tx.snap ≤ s.nver ∧ tx.endVer ≤ s.nver ∧
    (tx.isWrite = true → tx.isOpen = true → tx.snap = s.nver ∧ s.writer = some t)
  fresh : ∀ t tx n, s.txs t = some tx → tx.isOpen = true → (tx.isWrite = true → t ∉ s.users n) →
    CommittedBefore s n tx.snap → tx.view.idx n = s.latest.idx n
  committed : ∀ w tx n o, s.txs w = some tx → tx.isWrite = true → tx.isOpen = false → tx.failed = false →
    tx.cur n = some o → tx.view.idx n = s.latest.idx n
  cur : ∀ t tx n o, s.txs t = some tx → tx.cur n = some o → ¬ Done s t n →
    t ∈ s.users n ∧ ∃ ob, s.objs o = some ob ∧ ob.name = n ∧ ob.owner = t ∧ Agree ob n tx.view
  excl : ∀ n t tx, t ∈ s.users n → s.txs t = some tx → ¬ Done s t n →
    ∀ u ∈ s.users n, u ≠ t → Done s u n ∧ endVerOf s u ≤ tx.snap
  map : ∀ n o, s.map n = some o → ∃ ob, s.objs o = some ob ∧ ob.name = n ∧
    (∀ u ∈ s.users n, ¬ Done s u n → ∃ tx, s.txs u = some tx ∧ Agree ob n tx.view) ∧
    ((∀ u ∈ s.users n, Done s u n) → Agree ob n s.latest)
  wmap : ∀ t tx n o, s.txs t = some tx → tx.isWrite = true → tx.cur n = some o → (s.map n = none ∨ s.map n = some o)
  wusers : ∀ w tx n, s.txs w = some tx → tx.isWrite = true → tx.isOpen = true → w ∈ s.users n → tx.cur n ≠ none
  pm : s.shared = false → ∀ n, s.map n = none
  bound : ∀ o ob, s.objs o = some ob → o < s.nextObj
  users : ∀ n u, u ∈ s.users n → ∃ tx, s.txs u = some tx
  openOk : ∀ t tx, s.txs t = some tx → tx.isOpen = true → tx.failed = false

theorem noInv_init (sh : Bool) (d0 : Disk) : NOInv (init sh d0) := by
  refine ⟨?_, ?_, ?_, ?_, ?_, ?_, ?_, ?_, ?_, ?_, ?_, ?_⟩ <;> intros <;> simp_all [init]

/-- `Done` only looks at three fields of the transaction's record -/
theorem done_of_eq {s s' : State} {u : TxId} {n : Name}
    (h : ∀ tx, s.txs u = some tx → ∃ tx', s'.txs u = some tx' ∧ tx'.isOpen = tx.isOpen ∧ tx'.isWrite = tx.isWrite ∧
      tx'.cur n = tx.cur n) : Done s u n → Done s' u n := by
  rintro ⟨tx, h1, h2, h3⟩
  obtain ⟨tx', g1, g2, g3, g4⟩ := h tx h1
  exact ⟨tx', g1, g2.trans h2, fun hw => g4.trans (h3 (g3 ▸ hw))⟩

theorem done_same {s s' : State} {u : TxId} {n : Name} (h : s'.txs u = s.txs u) : Done s' u n ↔ Done s u n := by
  unfold Done; rw [h]

theorem endVerOf_same {s s' : State} {u : TxId} (h : s'.txs u = s.txs u) : endVerOf s' u = endVerOf s u := by
  unfold endVerOf; rw [h]

theorem not_done_of_open {s : State} {t : TxId} {tx : Tx} {n : Name} (ht : s.txs t = some tx) (ho : tx.isOpen = true) :
    ¬ Done s t n := by
  rintro ⟨tx', h1, h2, _⟩
  rw [ht] at h1; simp only [Option.some.injEq] at h1; subst h1
  rw [ho] at h2; simp at h2

/-- a new transaction (begin) keeps the invariant -/
theorem noInv_begin {s : State} (h : NOInv s) {t : TxId} (w : Bool) (ht : s.txs t = none) (wr' : Option TxId)
    (hw : w = true → s.writer = none ∧ wr' = some t) (hr : w = false → wr' = s.writer) :
    NOInv { s with txs := upd s.txs t (some (newTx s w)), writer := wr' } := by
  have hnu : ∀ n, t ∉ s.users n := fun n hmem => by
    obtain ⟨tx, htx⟩ := h.users n t hmem; rw [ht] at htx; simp at htx
  have hdone : ∀ u n, u ≠ t → (Done { s with txs := upd s.txs t (some (newTx s w)), writer := wr' } u n ↔ Done s u n) :=
    fun u n hne => done_same (by simp [upd, hne])
  have hdone' : ∀ u n, u ∈ s.users n → (Done { s with txs := upd s.txs t (some (newTx s w)), writer := wr' } u n ↔ Done s u n) :=
    fun u n hu => hdone u n (fun e => hnu n (e ▸ hu))
  -- an open writer of `s` contradicts `writer = none`
  have hnow : w = true → ∀ u tx, s.txs u = some tx → tx.isWrite = true → tx.isOpen = true → False := by
    intro hwt u tx hu h1 h2
    have := ((h.ver u tx hu).2.2 h1 h2).2
    rw [(hw hwt).1] at this; simp at this
  refine ⟨?_, ?_, ?_, ?_, ?_, ?_, ?_, ?_, h.pm, h.bound, ?_, ?_⟩
  · intro u tx hu
    dsimp only at hu ⊢
    rcases upd_some_cases hu with ⟨rfl, rfl⟩ | ⟨hne, hold⟩
    · refine ⟨Nat.le_refl _, Nat.zero_le _, ?_⟩
      intro hw1 _
      cases w with
      | false => simp [newTx] at hw1
      | true => exact ⟨rfl, (hw rfl).2⟩
    · obtain ⟨a, b, c⟩ := h.ver u tx hold
      refine ⟨a, b, ?_⟩
      intro h1 h2
      cases w with
      | false => rw [hr rfl]; exact c h1 h2
      | true => exact absurd (hnow rfl u tx hold h1 h2) id
  · intro u tx n hu hop hwn hcb
    dsimp only at hu hwn hcb ⊢
    rcases upd_some_cases hu with ⟨rfl, rfl⟩ | ⟨hne, hold⟩
    · rfl
    · refine h.fresh u tx n hold hop hwn ?_
      intro v hv vtx hvt
      have : v ≠ t := fun e => hnu n (e ▸ hv)
      exact hcb v hv vtx (by simp [upd, this]; exact hvt)
  · intro u tx n o hu h1 h2 h3 h4
    dsimp only at hu ⊢
    rcases upd_some_cases hu with ⟨rfl, rfl⟩ | ⟨hne, hold⟩
    · simp [newTx] at h2
    · exact h.committed u tx n o hold h1 h2 h3 h4
  · intro u tx n o hu hc hnd
    dsimp only at hu ⊢
    rcases upd_some_cases hu with ⟨rfl, rfl⟩ | ⟨hne, hold⟩
    · simp [newTx] at hc
    · exact h.cur u tx n o hold hc (fun hd => hnd ((hdone u n hne).2 hd))
  · intro n u tx hu hut hnd v hv hne
    dsimp only at hu hut hv ⊢
    have hut' : u ≠ t := fun e => hnu n (e ▸ hu)
    have hvt' : v ≠ t := fun e => hnu n (e ▸ hv)
    rw [upd_other _ _ _ _ hut'] at hut
    have := h.excl n u tx hu hut (fun hd => hnd ((hdone u n hut').2 hd)) v hv hne
    exact ⟨(hdone v n hvt').2 this.1, by rw [endVerOf_same (s := s) (by simp [upd, hvt'])]; exact this.2⟩
  · intro n o hm
    dsimp only at hm ⊢
    obtain ⟨ob, hob, hn, ha, hb⟩ := h.map n o hm
    refine ⟨ob, hob, hn, ?_, ?_⟩
    · intro u hu hnd
      obtain ⟨tx, htx, hag⟩ := ha u hu (fun hd => hnd ((hdone' u n hu).2 hd))
      have : u ≠ t := fun e => hnu n (e ▸ hu)
      exact ⟨tx, by simp [upd, this]; exact htx, hag⟩
    · intro hall
      exact hb (fun u hu => (hdone' u n hu).1 (hall u hu))
  · intro u tx n o hu h1 h2
    dsimp only at hu ⊢
    rcases upd_some_cases hu with ⟨rfl, rfl⟩ | ⟨hne, hold⟩
    · simp [newTx] at h2
    · exact h.wmap u tx n o hold h1 h2
  · intro u tx n hu h1 h2 h3
    dsimp only at hu h3 ⊢
    rcases upd_some_cases hu with ⟨rfl, rfl⟩ | ⟨hne, hold⟩
    · exact absurd h3 (hnu n)
    · exact h.wusers u tx n hold h1 h2 h3
  · intro n u hu
    dsimp only at hu ⊢
    obtain ⟨tx, htx⟩ := h.users n u hu
    have : u ≠ t := fun e => hnu n (e ▸ hu)
    exact ⟨tx, by simp [upd, this]; exact htx⟩
  · intro u tx hu hop
    dsimp only at hu
    rcases upd_some_cases hu with ⟨rfl, rfl⟩ | ⟨hne, hold⟩
    · rfl
    · exact h.openOk u tx hold hop


/-- the fields of a transaction record the no-overlap invariant looks at -/
def CoreEq (tx tx' : Tx) : Prop :=
  tx'.isWrite = tx.isWrite ∧ tx'.snap = tx.snap ∧ tx'.view = tx.view ∧ tx'.isOpen = tx.isOpen ∧
  tx'.failed = tx.failed ∧ tx'.endVer = tx.endVer ∧ tx'.cur = tx.cur

theorem CoreEq.refl (tx : Tx) : CoreEq tx tx := ⟨rfl, rfl, rfl, rfl, rfl, rfl, rfl⟩

/-- steps that change no field the invariant looks at, except that the object `o` which the open
transaction `t` uses for `n` may get new items that agree with `t`'s view -/
theorem noInv_readlike {s s' : State} (h : NOInv s) (e0 : s'.shared = s.shared)
    (e1 : s'.latest = s.latest) (e2 : s'.nver = s.nver) (e3 : s'.writer = s.writer) (e4 : s'.map = s.map)
    (e5 : s'.users = s.users) (e6 : s'.nextObj = s.nextObj)
    (htx : ∀ u tx', s'.txs u = some tx' → ∃ tx, s.txs u = some tx ∧ CoreEq tx tx')
    (htx2 : ∀ u tx, s.txs u = some tx → ∃ tx', s'.txs u = some tx' ∧ CoreEq tx tx')
    {t : TxId} {txt : Tx} {n : Name} {o : ObjId} (ht : s.txs t = some txt) (hop : txt.isOpen = true) (hc : txt.cur n = some o)
    (hob : ∀ o1 ob1, s.objs o1 = some ob1 → ∃ ob1', s'.objs o1 = some ob1' ∧ ob1'.name = ob1.name ∧ ob1'.owner = ob1.owner ∧
      (o1 ≠ o → ob1' = ob1) ∧ (∀ d, Agree ob1 n d → d.idx n = txt.view.idx n → Agree ob1' n d))
    (hob2 : ∀ o1 ob1', s'.objs o1 = some ob1' → ∃ ob1, s.objs o1 = some ob1) : NOInv s' := by
  have hdone : ∀ u m, Done s' u m ↔ Done s u m := by
    intro u m
    constructor
    · rintro ⟨tx', g1, g2, g3⟩
      obtain ⟨tx, f1, c⟩ := htx u tx' g1
      exact ⟨tx, f1, c.2.2.2.1 ▸ g2, fun hw => by rw [← c.2.2.2.2.2.2]; exact g3 (c.1 ▸ hw)⟩
    · rintro ⟨tx, f1, f2, f3⟩
      obtain ⟨tx', g1, c⟩ := htx2 u tx f1
      exact ⟨tx', g1, c.2.2.2.1.trans f2, fun hw => by rw [c.2.2.2.2.2.2]; exact f3 (c.1 ▸ hw)⟩
  have hend : ∀ u, endVerOf s' u = endVerOf s u := by
    intro u
    unfold endVerOf
    cases hu : s.txs u with
    | none =>
      cases hu' : s'.txs u with
      | none => rfl
      | some tx' => obtain ⟨tx, f1, _⟩ := htx u tx' hu'; rw [hu] at f1; simp at f1
    | some tx =>
      obtain ⟨tx', g1, c⟩ := htx2 u tx hu
      rw [g1]; exact c.2.2.2.2.2.1
  have hcb : ∀ m k, CommittedBefore s' m k → CommittedBefore s m k := by
    intro m k hcb u hu utx f1 f2 f3 f4
    obtain ⟨tx', g1, c⟩ := htx2 u utx f1
    have := hcb u (e5 ▸ hu) tx' g1 (c.1.trans f2) (c.2.2.2.1.trans f3) (c.2.2.2.2.1.trans f4)
    rw [c.2.2.2.2.2.1] at this; exact this
  obtain ⟨hmem, obt, hobt, hnm, hown, hagt⟩ := h.cur t txt n o ht hc (not_done_of_open ht hop)
  refine ⟨?_, ?_, ?_, ?_, ?_, ?_, ?_, ?_, by rw [e0, e4]; exact h.pm, ?_, ?_, ?_⟩
  · intro u tx' g1
    obtain ⟨tx, f1, c⟩ := htx u tx' g1
    obtain ⟨a, b, d⟩ := h.ver u tx f1
    rw [e2, e3, c.2.1, c.2.2.2.2.2.1, c.1, c.2.2.2.1]; exact ⟨a, b, d⟩
  · intro u tx' m g1 g2 g3 g4
    obtain ⟨tx, f1, c⟩ := htx u tx' g1
    rw [e1, c.2.2.1]
    exact h.fresh u tx m f1 (c.2.2.2.1 ▸ g2) (fun hw => by rw [← e5]; exact g3 (c.1.trans hw)) (hcb m _ (c.2.1 ▸ g4))
  · intro u tx' m o' g1 g2 g3 g4 g5
    obtain ⟨tx, f1, c⟩ := htx u tx' g1
    rw [e1, c.2.2.1]
    exact h.committed u tx m o' f1 (c.1 ▸ g2) (c.2.2.2.1 ▸ g3) (c.2.2.2.2.1 ▸ g4) (by rw [← c.2.2.2.2.2.2]; exact g5)
  · intro u tx' m o' g1 g2 g3
    obtain ⟨tx, f1, c⟩ := htx u tx' g1
    obtain ⟨hm, ob1, hob1, hn1, how1, hag1⟩ := h.cur u tx m o' f1 (by rw [← c.2.2.2.2.2.2]; exact g2) (fun hd => g3 ((hdone u m).2 hd))
    obtain ⟨ob1', g5, g6, g7, g8, g9⟩ := hob o' ob1 hob1
    refine ⟨e5 ▸ hm, ob1', g5, g6.trans hn1, g7.trans how1, ?_⟩
    rw [c.2.2.1]
    by_cases e : o' = o
    · subst e
      rw [hobt] at hob1; simp only [Option.some.injEq] at hob1; subst hob1
      have hut : u = t := how1.symm.trans hown
      subst hut
      rw [ht] at f1; simp only [Option.some.injEq] at f1; subst f1
      have hmn : m = n := hn1.symm.trans hnm
      subst hmn
      exact g9 _ hag1 rfl
    · rw [g8 e]; exact hag1
  · intro m u tx' g1 g2 g3 v g4 g5
    obtain ⟨tx, f1, c⟩ := htx u tx' g2
    have := h.excl m u tx (e5 ▸ g1) f1 (fun hd => g3 ((hdone u m).2 hd)) v (e5 ▸ g4) g5
    rw [c.2.1, hend]; exact ⟨(hdone v m).2 this.1, this.2⟩
  · intro m o' g1
    rw [e4] at g1
    obtain ⟨ob1, hob1, hn1, ha, hb⟩ := h.map m o' g1
    obtain ⟨ob1', g5, g6, g7, g8, g9⟩ := hob o' ob1 hob1
    refine ⟨ob1', g5, g6.trans hn1, ?_, ?_⟩
    · intro u g2 g3
      obtain ⟨tx, f1, hag⟩ := ha u (e5 ▸ g2) (fun hd => g3 ((hdone u m).2 hd))
      obtain ⟨tx', g4, c⟩ := htx2 u tx f1
      refine ⟨tx', g4, ?_⟩
      rw [c.2.2.1]
      by_cases e : o' = o
      · subst e
        rw [hobt] at hob1; simp only [Option.some.injEq] at hob1; subst hob1
        have hmn : m = n := hn1.symm.trans hnm
        subst hmn
        -- the active user of `m` is `t`
        have hut : u = t := by
          by_cases hut : u = t
          · exact hut
          · exact absurd (h.excl m t txt hmem ht (not_done_of_open ht hop) u (e5 ▸ g2) hut).1 (fun hd => g3 ((hdone u m).2 hd))
        subst hut
        rw [ht] at f1; simp only [Option.some.injEq] at f1; subst f1
        exact g9 _ hag rfl
      · rw [g8 e]; exact hag
    · intro hall
      by_cases e : o' = o
      · subst e
        rw [hobt] at hob1; simp only [Option.some.injEq] at hob1; subst hob1
        have hmn : m = n := hn1.symm.trans hnm
        subst hmn
        exact absurd ((hdone t m).1 (hall t (e5 ▸ hmem))) (not_done_of_open ht hop)
      · rw [g8 e, e1]; exact hb (fun u hu => (hdone u m).1 (hall u (e5 ▸ hu)))
  · intro u tx' m o' g1 g2 g3
    obtain ⟨tx, f1, c⟩ := htx u tx' g1
    rw [e4]; exact h.wmap u tx m o' f1 (c.1 ▸ g2) (by rw [← c.2.2.2.2.2.2]; exact g3)
  · intro u tx' m g1 g2 g3 g4
    obtain ⟨tx, f1, c⟩ := htx u tx' g1
    rw [c.2.2.2.2.2.2]; exact h.wusers u tx m f1 (c.1 ▸ g2) (c.2.2.2.1 ▸ g3) (e5 ▸ g4)
  · intro o1 ob1' g1
    obtain ⟨ob1, f1⟩ := hob2 o1 ob1' g1
    rw [e6]; exact h.bound o1 ob1 f1
  · intro m u g1
    obtain ⟨tx, f1⟩ := h.users m u (e5 ▸ g1)
    obtain ⟨tx', g2, _⟩ := htx2 u tx f1
    exact ⟨tx', g2⟩
  · intro u tx' g1 g2
    obtain ⟨tx, f1, c⟩ := htx u tx' g1
    rw [c.2.2.2.2.1]; exact h.openOk u tx f1 (c.2.2.2.1 ▸ g2)


/-- like `CoreEq`, but a reader may have left a cache object (`cur` shrinks) -/
def CoreLe (tx tx' : Tx) : Prop :=
  tx'.isWrite = tx.isWrite ∧ tx'.snap = tx.snap ∧ tx'.view = tx.view ∧ tx'.isOpen = tx.isOpen ∧
  tx'.failed = tx.failed ∧ tx'.endVer = tx.endVer ∧ (∀ m o, tx'.cur m = some o → tx.cur m = some o) ∧
  (tx.isWrite = true → tx'.cur = tx.cur)

theorem CoreEq.le {tx tx' : Tx} (c : CoreEq tx tx') : CoreLe tx tx' :=
  ⟨c.1, c.2.1, c.2.2.1, c.2.2.2.1, c.2.2.2.2.1, c.2.2.2.2.2.1, fun m o h => by rw [← c.2.2.2.2.2.2]; exact h, fun _ => c.2.2.2.2.2.2⟩

/-- steps that change no field the invariant looks at (readers may drop objects; objects keep
name, owner and items) -/
theorem noInv_coreSame {s s' : State} (h : NOInv s) (e0 : s'.shared = s.shared)
    (e1 : s'.latest = s.latest) (e2 : s'.nver = s.nver) (e3 : s'.writer = s.writer) (e4 : s'.map = s.map)
    (e5 : s'.users = s.users) (e6 : s'.nextObj = s.nextObj)
    (hob : ∀ o1 ob1, s.objs o1 = some ob1 → ∃ ob1', s'.objs o1 = some ob1' ∧ ob1'.name = ob1.name ∧ ob1'.owner = ob1.owner ∧
      ob1'.items = ob1.items)
    (hob2 : ∀ o1 ob1', s'.objs o1 = some ob1' → ∃ ob1, s.objs o1 = some ob1)
    (htx : ∀ u tx', s'.txs u = some tx' → ∃ tx, s.txs u = some tx ∧ CoreLe tx tx')
    (htx2 : ∀ u tx, s.txs u = some tx → ∃ tx', s'.txs u = some tx' ∧ CoreLe tx tx') : NOInv s' := by
  have hdone : ∀ u m, Done s' u m ↔ Done s u m := by
    intro u m
    constructor
    · rintro ⟨tx', g1, g2, g3⟩
      obtain ⟨tx, f1, c⟩ := htx u tx' g1
      exact ⟨tx, f1, c.2.2.2.1 ▸ g2, fun hw => by rw [← c.2.2.2.2.2.2.2 hw]; exact g3 (c.1 ▸ hw)⟩
    · rintro ⟨tx, f1, f2, f3⟩
      obtain ⟨tx', g1, c⟩ := htx2 u tx f1
      exact ⟨tx', g1, c.2.2.2.1.trans f2, fun hw => by rw [c.2.2.2.2.2.2.2 (c.1 ▸ hw)]; exact f3 (c.1 ▸ hw)⟩
  have hend : ∀ u, endVerOf s' u = endVerOf s u := by
    intro u
    unfold endVerOf
    cases hu : s.txs u with
    | none =>
      cases hu' : s'.txs u with
      | none => rfl
      | some tx' => obtain ⟨tx, f1, _⟩ := htx u tx' hu'; rw [hu] at f1; simp at f1
    | some tx =>
      obtain ⟨tx', g1, c⟩ := htx2 u tx hu
      rw [g1]; exact c.2.2.2.2.2.1
  have hcb : ∀ m k, CommittedBefore s' m k → CommittedBefore s m k := by
    intro m k hcb u hu utx f1 f2 f3 f4
    obtain ⟨tx', g1, c⟩ := htx2 u utx f1
    have := hcb u (e5 ▸ hu) tx' g1 (c.1.trans f2) (c.2.2.2.1.trans f3) (c.2.2.2.2.1.trans f4)
    rw [c.2.2.2.2.2.1] at this; exact this
  refine ⟨?_, ?_, ?_, ?_, ?_, ?_, ?_, ?_, by rw [e0, e4]; exact h.pm, ?_, ?_, ?_⟩
  · intro u tx' g1
    obtain ⟨tx, f1, c⟩ := htx u tx' g1
    obtain ⟨a, b, d⟩ := h.ver u tx f1
    rw [e2, e3, c.2.1, c.2.2.2.2.2.1, c.1, c.2.2.2.1]; exact ⟨a, b, d⟩
  · intro u tx' m g1 g2 g3 g4
    obtain ⟨tx, f1, c⟩ := htx u tx' g1
    rw [e1, c.2.2.1]
    exact h.fresh u tx m f1 (c.2.2.2.1 ▸ g2) (fun hw => by rw [← e5]; exact g3 (c.1.trans hw)) (hcb m _ (c.2.1 ▸ g4))
  · intro u tx' m o' g1 g2 g3 g4 g5
    obtain ⟨tx, f1, c⟩ := htx u tx' g1
    rw [e1, c.2.2.1]
    exact h.committed u tx m o' f1 (c.1 ▸ g2) (c.2.2.2.1 ▸ g3) (c.2.2.2.2.1 ▸ g4) (c.2.2.2.2.2.2.1 m o' g5)
  · intro u tx' m o' g1 g2 g3
    obtain ⟨tx, f1, c⟩ := htx u tx' g1
    obtain ⟨hm, ob1, hob1, hn1, how1, hag1⟩ := h.cur u tx m o' f1 (c.2.2.2.2.2.2.1 m o' g2) (fun hd => g3 ((hdone u m).2 hd))
    obtain ⟨ob1', k1, k2, k3, k4⟩ := hob o' ob1 hob1
    exact ⟨e5 ▸ hm, ob1', k1, k2.trans hn1, k3.trans how1, c.2.2.1 ▸ agree_congr hag1 k4 rfl⟩
  · intro m u tx' g1 g2 g3 v g4 g5
    obtain ⟨tx, f1, c⟩ := htx u tx' g2
    have := h.excl m u tx (e5 ▸ g1) f1 (fun hd => g3 ((hdone u m).2 hd)) v (e5 ▸ g4) g5
    rw [c.2.1, hend]; exact ⟨(hdone v m).2 this.1, this.2⟩
  · intro m o' g1
    rw [e4] at g1
    obtain ⟨ob1, hob1, hn1, ha, hb⟩ := h.map m o' g1
    obtain ⟨ob1', k1, k2, k3, k4⟩ := hob o' ob1 hob1
    refine ⟨ob1', k1, k2.trans hn1, ?_, ?_⟩
    · intro u g2 g3
      obtain ⟨tx, f1, hag⟩ := ha u (e5 ▸ g2) (fun hd => g3 ((hdone u m).2 hd))
      obtain ⟨tx', g4, c⟩ := htx2 u tx f1
      exact ⟨tx', g4, c.2.2.1 ▸ agree_congr hag k4 rfl⟩
    · intro hall
      rw [e1]; exact agree_congr (hb (fun u hu => (hdone u m).1 (hall u (e5 ▸ hu)))) k4 rfl
  · intro u tx' m o' g1 g2 g3
    obtain ⟨tx, f1, c⟩ := htx u tx' g1
    rw [e4]; exact h.wmap u tx m o' f1 (c.1 ▸ g2) (c.2.2.2.2.2.2.1 m o' g3)
  · intro u tx' m g1 g2 g3 g4
    obtain ⟨tx, f1, c⟩ := htx u tx' g1
    rw [c.2.2.2.2.2.2.2 (c.1 ▸ g2)]; exact h.wusers u tx m f1 (c.1 ▸ g2) (c.2.2.2.1 ▸ g3) (e5 ▸ g4)
  · intro o1 ob1' g1
    obtain ⟨ob1, f1⟩ := hob2 o1 ob1' g1
    rw [e6]; exact h.bound o1 ob1 f1
  · intro m u g1
    obtain ⟨tx, f1⟩ := h.users m u (e5 ▸ g1)
    obtain ⟨tx', g2, _⟩ := htx2 u tx f1
    exact ⟨tx', g2⟩
  · intro u tx' g1 g2
    obtain ⟨tx, f1, c⟩ := htx u tx' g1
    rw [c.2.2.2.2.1]; exact h.openOk u tx f1 (c.2.2.2.1 ▸ g2)

theorem objs_same_keep {objs : ObjId → Option Obj} :
    (∀ o1 ob1, objs o1 = some ob1 → ∃ ob1', objs o1 = some ob1' ∧ ob1'.name = ob1.name ∧ ob1'.owner = ob1.owner ∧
      ob1'.items = ob1.items) ∧ (∀ o1 ob1', objs o1 = some ob1' → ∃ ob1, objs o1 = some ob1) :=
  ⟨fun _ ob1 h => ⟨ob1, h, rfl, rfl, rfl⟩, fun _ ob1 h => ⟨ob1, h⟩⟩

theorem objs_upd_keep {objs : ObjId → Option Obj} {o : ObjId} {ob ob' : Obj} (ho : objs o = some ob)
    (h1 : ob'.name = ob.name) (h2 : ob'.owner = ob.owner) (h3 : ob'.items = ob.items) :
    (∀ o1 ob1, objs o1 = some ob1 → ∃ ob1', upd objs o (some ob') o1 = some ob1' ∧ ob1'.name = ob1.name ∧
      ob1'.owner = ob1.owner ∧ ob1'.items = ob1.items) ∧
    (∀ o1 ob1', upd objs o (some ob') o1 = some ob1' → ∃ ob1, objs o1 = some ob1) := by
  constructor
  · intro o1 ob1 h
    by_cases e : o1 = o
    · subst e; rw [ho] at h; simp only [Option.some.injEq] at h; subst h
      exact ⟨ob', upd_same _ _ _, h1, h2, h3⟩
    · exact ⟨ob1, by rw [upd_other _ _ _ _ e]; exact h, rfl, rfl, rfl⟩
  · intro o1 ob1' h
    rcases upd_some_cases h with ⟨rfl, _⟩ | ⟨_, hold⟩
    · exact ⟨ob, ho⟩
    · exact ⟨ob1', hold⟩

/-- `txs` updated at `t` with a record that has the same core -/
theorem coreEq_upd {txs : TxId → Option Tx} {t : TxId} {tx tx1 : Tx} (ht : txs t = some tx) (c : CoreEq tx tx1) :
    (∀ u tx', upd txs t (some tx1) u = some tx' → ∃ tx0, txs u = some tx0 ∧ CoreEq tx0 tx') ∧
    (∀ u tx0, txs u = some tx0 → ∃ tx', upd txs t (some tx1) u = some tx' ∧ CoreEq tx0 tx') := by
  constructor
  · intro u tx' hu
    rcases upd_some_cases hu with ⟨rfl, rfl⟩ | ⟨_, hold⟩
    · exact ⟨tx, ht, c⟩
    · exact ⟨tx', hold, CoreEq.refl _⟩
  · intro u tx0 hu
    by_cases e : u = t
    · subst e; rw [ht] at hu; simp only [Option.some.injEq] at hu; subst hu
      exact ⟨tx1, upd_same _ _ _, c⟩
    · exact ⟨tx0, by rw [upd_other _ _ _ _ e]; exact hu, CoreEq.refl _⟩

theorem coreLe_upd {txs : TxId → Option Tx} {t : TxId} {tx tx1 : Tx} (ht : txs t = some tx) (c : CoreLe tx tx1) :
    (∀ u tx', upd txs t (some tx1) u = some tx' → ∃ tx0, txs u = some tx0 ∧ CoreLe tx0 tx') ∧
    (∀ u tx0, txs u = some tx0 → ∃ tx', upd txs t (some tx1) u = some tx' ∧ CoreLe tx0 tx') := by
  constructor
  · intro u tx' hu
    rcases upd_some_cases hu with ⟨rfl, rfl⟩ | ⟨_, hold⟩
    · exact ⟨tx, ht, c⟩
    · exact ⟨tx', hold, (CoreEq.refl _).le⟩
  · intro u tx0 hu
    by_cases e : u = t
    · subst e; rw [ht] at hu; simp only [Option.some.injEq] at hu; subst hu
      exact ⟨tx1, upd_same _ _ _, c⟩
    · exact ⟨tx0, by rw [upd_other _ _ _ _ e]; exact hu, (CoreEq.refl _).le⟩

macro "corele_upd" ht:ident : tactic =>
  `(tactic| (dsimp only
             first
               | (refine (coreLe_upd $ht ?_).1; exact (CoreEq.le ⟨rfl, rfl, rfl, rfl, rfl, rfl, rfl⟩))
               | (refine (coreLe_upd $ht ?_).2; exact (CoreEq.le ⟨rfl, rfl, rfl, rfl, rfl, rfl, rfl⟩))))

/-- both transaction side conditions of `noInv_coreSame` / `noInv_readlike` when `txs` was updated at
`t` (hypothesis `ht : s.txs t = some tx`) with a record that has the same core -/
macro "core_upd" ht:ident : tactic =>
  `(tactic| (dsimp only
             first
               | (refine (coreEq_upd $ht ?_).1; exact ⟨rfl, rfl, rfl, rfl, rfl, rfl, rfl⟩)
               | (refine (coreEq_upd $ht ?_).2; exact ⟨rfl, rfl, rfl, rfl, rfl, rfl, rfl⟩)))

theorem noInv_read {s s' : State} {t : TxId} {n : Name} {i : Item} (h : NOInv s) (hs : stepRead s t n i = some s') :
    NOInv s' := by
  obtain ⟨tx, o, ob, ht, hop, hc, ho, hcase⟩ := stepRead_some hs
  obtain ⟨hmem, ob0, hob0, hnm, hown, hag⟩ := h.cur t tx n o ht hc (not_done_of_open ht hop)
  rw [ho] at hob0; simp only [Option.some.injEq] at hob0; subst hob0
  cases hcase with
  | hit v k hi =>
    simp only [observe, setBad]
    split <;> (refine noInv_coreSame h rfl rfl rfl rfl rfl rfl rfl objs_same_keep.1 objs_same_keep.2 ?_ ?_ <;> corele_upd ht)
  | dead otx hi hoo hcl =>
    simp only [setBad]
    refine noInv_coreSame h rfl rfl rfl rfl rfl rfl rfl objs_same_keep.1 objs_same_keep.2 ?_ ?_ <;> corele_upd ht
  | through otx hi hoo hcl =>
    rw [hown, ht] at hoo
    simp only [Option.some.injEq] at hoo
    subst hoo
    have hobj : ∀ o1 ob1, s.objs o1 = some ob1 → ∃ ob1', upd s.objs o (some (cacheFill ob i (tx.view.idx n i) tx.snap)) o1 = some ob1' ∧
        ob1'.name = ob1.name ∧ ob1'.owner = ob1.owner ∧ (o1 ≠ o → ob1' = ob1) ∧
        (∀ d, Agree ob1 n d → d.idx n = tx.view.idx n → Agree ob1' n d) := by
      intro o1 ob1 h1
      by_cases e : o1 = o
      · subst e
        rw [ho] at h1; simp only [Option.some.injEq] at h1; subst h1
        refine ⟨_, upd_same _ _ _, cacheFill_name _ _ _ _, cacheFill_owner _ _ _ _, fun e => absurd rfl e, ?_⟩
        intro d hd hdi
        have := agree_cacheFill hd i tx.snap
        rw [hdi] at this; exact this
      · exact ⟨ob1, by rw [upd_other _ _ _ _ e]; exact h1, rfl, rfl, fun _ => rfl, fun d hd _ => hd⟩
    have hobj2 : ∀ o1 ob1', upd s.objs o (some (cacheFill ob i (tx.view.idx n i) tx.snap)) o1 = some ob1' → ∃ ob1, s.objs o1 = some ob1 := by
      intro o1 ob1' h1
      rcases upd_some_cases h1 with ⟨rfl, _⟩ | ⟨_, hold⟩
      · exact ⟨ob, ho⟩
      · exact ⟨ob1', hold⟩
    simp only [observe, setBad]
    split <;> (refine noInv_readlike h rfl rfl rfl rfl rfl rfl rfl ?_ ?_ ht hop hc hobj hobj2 <;> core_upd ht)


theorem noInv_backfill {s s' : State} {t : TxId} {i : Item} (h : NOInv s) (hs : stepBackfill s t i = some s') : NOInv s' := by
  obtain ⟨tx, ht, hw, hop, hseen, hcase⟩ := stepBackfill_some hs
  rcases hcase with ⟨_, rfl⟩ | ⟨hnone, rfl⟩
  · exact h
  · simp only [setBad]
    refine noInv_coreSame h rfl rfl rfl rfl rfl rfl rfl objs_same_keep.1 objs_same_keep.2 ?_ ?_ <;> corele_upd ht

theorem noInv_leave {s s' : State} {t : TxId} {n : Name} (h : NOInv s) (hs : stepLeave s t n = some s') : NOInv s' := by
  obtain ⟨tx, o, ob, ht, hw, hc, ho, rfl⟩ := stepLeave_some hs
  have hk := objs_upd_keep (ob' := { ob with readers := ob.readers - 1 }) ho rfl rfl rfl
  refine noInv_coreSame h rfl rfl rfl rfl rfl rfl rfl hk.1 hk.2 ?_ ?_
  · dsimp only
    refine (coreLe_upd ht ?_).1
    refine ⟨rfl, rfl, rfl, rfl, rfl, rfl, ?_, ?_⟩
    · intro m o' hm
      dsimp only at hm
      rcases upd_opt_cases hm with ⟨_, hx⟩ | ⟨_, hold⟩
      · simp at hx
      · exact hold
    · intro hw'; rw [hw] at hw'; simp at hw'
  · dsimp only
    refine (coreLe_upd ht ?_).2
    refine ⟨rfl, rfl, rfl, rfl, rfl, rfl, ?_, ?_⟩
    · intro m o' hm
      dsimp only at hm
      rcases upd_opt_cases hm with ⟨_, hx⟩ | ⟨_, hold⟩
      · simp at hx
      · exact hold
    · intro hw'; rw [hw] at hw'; simp at hw'

theorem noInv_evict {s : State} (n0 : Name) (h : NOInv s) : NOInv { s with map := upd s.map n0 none } := by
  have hdone : ∀ u m, Done { s with map := upd s.map n0 none } u m ↔ Done s u m := fun u m => Iff.rfl
  refine ⟨h.ver, h.fresh, h.committed, h.cur, h.excl, ?_, ?_, h.wusers, ?_, h.bound, h.users, h.openOk⟩
  · intro m o hm
    dsimp only at hm ⊢
    rcases upd_opt_cases hm with ⟨_, hx⟩ | ⟨_, hold⟩
    · simp at hx
    · exact h.map m o hold
  · intro u tx m o hu h1 h2
    dsimp only
    by_cases e : m = n0
    · subst e; exact Or.inl (upd_same _ _ _)
    · rw [upd_other _ _ _ _ e]; exact h.wmap u tx m o hu h1 h2
  · intro hsh m
    dsimp only at hsh ⊢
    by_cases e : m = n0
    · subst e; exact upd_same _ _ _
    · rw [upd_other _ _ _ _ e]; exact h.pm hsh m

theorem not_done_writer_cur {s : State} {t : TxId} {tx : Tx} {n : Name} {o : ObjId} (ht : s.txs t = some tx)
    (hw : tx.isWrite = true) (hc : tx.cur n = some o) : ¬ Done s t n := by
  rintro ⟨tx', h1, _, h3⟩
  rw [ht] at h1; simp only [Option.some.injEq] at h1; subst h1
  rw [h3 hw] at hc; simp at hc

theorem noInv_release {s s' : State} {t : TxId} {n : Name} (h : NOInv s) (hs : stepRelease s t n = some s') : NOInv s' := by
  obtain ⟨tx, o, ob, ht, hw, hop, hc, ho, hS⟩ := stepRelease_some hs
  have hnd : ¬ Done s t n := not_done_writer_cur ht hw hc
  obtain ⟨hmem, ob0, hob0, hnm, hown, hag⟩ := h.cur t tx n o ht hc hnd
  rw [ho] at hob0; simp only [Option.some.injEq] at hob0; subst hob0
  have hothers := h.excl n t tx hmem ht hnd
  generalize s' = S at hS ⊢
  have eT : S.txs = upd s.txs t (some { tx with cur := upd tx.cur n none }) := by rw [hS]
  have eO : S.objs = upd s.objs o (some { ob with writer := none }) := by rw [hS]
  have eM : S.map = if tx.failed ∧ s.map n = some o then upd s.map n none else s.map := by rw [hS]
  have eU : S.users = s.users := by rw [hS]
  have eL : S.latest = s.latest := by rw [hS]
  have eV : S.nver = s.nver := by rw [hS]
  have eW : S.writer = s.writer := by rw [hS]
  have eN : S.nextObj = s.nextObj := by rw [hS]
  have eSh : S.shared = s.shared := by rw [hS]
  -- transactions of the new state
  have htx : ∀ u tx', S.txs u = some tx' → ∃ tx0, s.txs u = some tx0 ∧ tx'.isWrite = tx0.isWrite ∧ tx'.snap = tx0.snap ∧
      tx'.view = tx0.view ∧ tx'.isOpen = tx0.isOpen ∧ tx'.failed = tx0.failed ∧ tx'.endVer = tx0.endVer ∧
      (∀ m o', tx'.cur m = some o' → tx0.cur m = some o' ∧ (u = t → m ≠ n)) ∧ (u ≠ t → tx' = tx0) := by
    intro u tx' hu
    rw [eT] at hu
    rcases upd_some_cases hu with ⟨rfl, rfl⟩ | ⟨hne, hold⟩
    · refine ⟨tx, ht, rfl, rfl, rfl, rfl, rfl, rfl, ?_, fun e => absurd rfl e⟩
      intro m o' hm
      dsimp only at hm
      rcases upd_opt_cases hm with ⟨_, hx⟩ | ⟨hmn, hold⟩
      · simp at hx
      · exact ⟨hold, fun _ => hmn⟩
    · exact ⟨tx', hold, rfl, rfl, rfl, rfl, rfl, rfl, fun m o' hm => ⟨hm, fun e => absurd e hne⟩, fun _ => rfl⟩
  have htx2 : ∀ u tx0, s.txs u = some tx0 → ∃ tx', S.txs u = some tx' ∧ tx'.isWrite = tx0.isWrite ∧
      tx'.view = tx0.view ∧ tx'.isOpen = tx0.isOpen ∧ tx'.failed = tx0.failed ∧ tx'.endVer = tx0.endVer ∧ tx'.snap = tx0.snap ∧
      (∀ m, (u ≠ t ∨ m ≠ n) → tx'.cur m = tx0.cur m) ∧ (u = t → tx'.cur n = none) := by
    intro u tx0 hu
    rw [eT]
    by_cases e : u = t
    · subst e; rw [ht] at hu; simp only [Option.some.injEq] at hu; subst hu
      refine ⟨_, upd_same _ _ _, rfl, rfl, rfl, rfl, rfl, rfl, ?_, fun _ => upd_same _ _ _⟩
      intro m hm
      rcases hm with hm | hm
      · exact absurd rfl hm
      · exact upd_other _ _ _ _ hm
    · exact ⟨tx0, by rw [upd_other _ _ _ _ e]; exact hu, rfl, rfl, rfl, rfl, rfl, rfl, fun _ _ => rfl, fun e' => absurd e' e⟩
  have hmono : ∀ u m, Done s u m → Done S u m := by
    rintro u m ⟨tx0, f1, f2, f3⟩
    obtain ⟨tx', g1, g2, _, g4, _, _, _, g8, g9⟩ := htx2 u tx0 f1
    refine ⟨tx', g1, g4.trans f2, ?_⟩
    intro hw'
    by_cases e : u = t ∧ m = n
    · obtain ⟨rfl, rfl⟩ := e; exact g9 rfl
    · have : u ≠ t ∨ m ≠ n := by
        by_cases e1 : u = t
        · exact Or.inr (fun e2 => e ⟨e1, e2⟩)
        · exact Or.inl e1
      rw [g8 m this]; exact f3 (g2 ▸ hw')
  have hback : ∀ u m, (u ≠ t ∨ m ≠ n) → Done S u m → Done s u m := by
    rintro u m hne ⟨tx', g1, g2, g3⟩
    obtain ⟨tx0, f1, a1, _, _, a4, _, _, _, _⟩ := htx u tx' g1
    obtain ⟨tx'', g1', _, _, _, _, _, _, g8, _⟩ := htx2 u tx0 f1
    rw [g1] at g1'; simp only [Option.some.injEq] at g1'; subst g1'
    exact ⟨tx0, f1, a4 ▸ g2, fun hw' => by rw [← g8 m hne]; exact g3 (a1.trans hw')⟩
  have hdoneT : Done S t n := by
    obtain ⟨tx', g1, _, _, g4, _, _, _, _, g9⟩ := htx2 t tx ht
    exact ⟨tx', g1, g4.trans hop, fun _ => g9 rfl⟩
  have hend : ∀ u, endVerOf S u = endVerOf s u := by
    intro u
    unfold endVerOf
    cases hu : s.txs u with
    | none =>
      cases hu' : S.txs u with
      | none => rfl
      | some tx' => obtain ⟨tx0, f1, _⟩ := htx u tx' hu'; rw [hu] at f1; simp at f1
    | some tx0 =>
      obtain ⟨tx', g1, _, _, _, _, g6, _⟩ := htx2 u tx0 hu
      rw [g1]; exact g6
  have hobj : ∀ o1 ob1, s.objs o1 = some ob1 → ∃ ob1', S.objs o1 = some ob1' ∧ ob1'.name = ob1.name ∧ ob1'.owner = ob1.owner ∧
      ob1'.items = ob1.items := by
    rw [eO]; exact (objs_upd_keep (ob' := { ob with writer := none }) ho rfl rfl rfl).1
  have hcb : ∀ m k, CommittedBefore S m k → CommittedBefore s m k := by
    intro m k hcb u hu utx f1 f2 f3 f4
    obtain ⟨tx', g1, g2, _, g4, g5, g6, _⟩ := htx2 u utx f1
    have := hcb u (eU ▸ hu) tx' g1 (g2.trans f2) (g4.trans f3) (g5.trans f4)
    rw [g6] at this; exact this
  refine ⟨?_, ?_, ?_, ?_, ?_, ?_, ?_, ?_, ?_, ?_, ?_, ?_⟩
  · intro u tx' g1
    obtain ⟨tx0, f1, a1, a2, _, a4, _, a6, _, _⟩ := htx u tx' g1
    obtain ⟨x, y, z⟩ := h.ver u tx0 f1
    rw [eV, eW, a2, a6, a1, a4]; exact ⟨x, y, z⟩
  · intro u tx' m g1 g2 g3 g4
    obtain ⟨tx0, f1, a1, a2, a3, a4, _, _, _, _⟩ := htx u tx' g1
    rw [eL, a3]
    exact h.fresh u tx0 m f1 (a4 ▸ g2) (fun hw' => by rw [← eU]; exact g3 (a1.trans hw')) (hcb m _ (a2 ▸ g4))
  · intro u tx' m o' g1 g2 g3 g4 g5
    obtain ⟨tx0, f1, a1, _, a3, a4, a5, _, a7, _⟩ := htx u tx' g1
    rw [eL, a3]
    exact h.committed u tx0 m o' f1 (a1 ▸ g2) (a4 ▸ g3) (a5 ▸ g4) (a7 m o' g5).1
  · intro u tx' m o' g1 g2 g3
    obtain ⟨tx0, f1, _, _, a3, _, _, _, a7, _⟩ := htx u tx' g1
    have hne : u ≠ t ∨ m ≠ n := by
      by_cases e1 : u = t
      · exact Or.inr ((a7 m o' g2).2 e1)
      · exact Or.inl e1
    obtain ⟨hm, ob1, hob1, hn1, how1, hag1⟩ := h.cur u tx0 m o' f1 (a7 m o' g2).1 (fun hd => g3 (hmono u m hd))
    obtain ⟨ob1', k1, k2, k3, k4⟩ := hobj o' ob1 hob1
    exact ⟨eU ▸ hm, ob1', k1, k2.trans hn1, k3.trans how1, a3 ▸ agree_congr hag1 k4 rfl⟩
  · intro m u tx' g1 g2 g3 v g4 g5
    obtain ⟨tx0, f1, _, a2, _, _, _, _, _, _⟩ := htx u tx' g2
    have := h.excl m u tx0 (eU ▸ g1) f1 (fun hd => g3 (hmono u m hd)) v (eU ▸ g4) g5
    rw [a2, hend]; exact ⟨hmono v m this.1, this.2⟩
  · intro m o' g1
    rw [eM] at g1
    by_cases emn : m = n
    · subst emn
      -- the manager's object for `m` survives only if `t` committed
      have hmo : s.map m = some o' ∧ ¬ (tx.failed = true ∧ s.map m = some o) := by
        by_cases hcnd : tx.failed = true ∧ s.map m = some o
        · rw [if_pos hcnd, upd_same] at g1; simp at g1
        · rw [if_neg hcnd] at g1; exact ⟨g1, hcnd⟩
      have hoo : o' = o := by
        rcases h.wmap t tx m o ht hw hc with hx | hx
        · rw [hx] at hmo; simp at hmo
        · rw [hx] at hmo; simp only [Option.some.injEq] at hmo; exact hmo.1.symm
      subst hoo
      have hnf : tx.failed = false := by
        cases hf : tx.failed with
        | false => rfl
        | true => exact absurd ⟨hf, hmo.1⟩ hmo.2
      refine ⟨{ ob with writer := none }, by rw [eO]; exact upd_same _ _ _, hnm, ?_, ?_⟩
      · intro u g2 g3
        exfalso
        have hut : u ≠ t := fun e => g3 (e ▸ hdoneT)
        exact g3 (hmono u m (hothers u (eU ▸ g2) hut).1)
      · intro _
        rw [eL]
        exact agree_congr hag rfl (h.committed t tx m o' ht hw hop hnf hc).symm
    · have hmo : s.map m = some o' := by
        by_cases hcnd : tx.failed = true ∧ s.map n = some o
        · rw [if_pos hcnd, upd_other _ _ _ _ emn] at g1; exact g1
        · rw [if_neg hcnd] at g1; exact g1
      obtain ⟨ob1, hob1, hn1, ha, hb⟩ := h.map m o' hmo
      obtain ⟨ob1', k1, k2, k3, k4⟩ := hobj o' ob1 hob1
      refine ⟨ob1', k1, k2.trans hn1, ?_, ?_⟩
      · intro u g2 g3
        obtain ⟨tx0, f1, hag0⟩ := ha u (eU ▸ g2) (fun hd => g3 (hmono u m hd))
        obtain ⟨tx', g4, _, g6, _⟩ := htx2 u tx0 f1
        exact ⟨tx', g4, g6 ▸ agree_congr hag0 k4 rfl⟩
      · intro hall
        rw [eL]
        exact agree_congr (hb (fun u hu => hback u m (Or.inr emn) (hall u (eU ▸ hu)))) k4 rfl
  · intro u tx' m o' g1 g2 g3
    obtain ⟨tx0, f1, a1, _, _, _, _, _, a7, _⟩ := htx u tx' g1
    have hold := h.wmap u tx0 m o' f1 (a1 ▸ g2) (a7 m o' g3).1
    rw [eM]
    by_cases emn : m = n
    · subst emn
      by_cases hut : u = t
      · exact absurd rfl ((a7 m o' g3).2 hut)
      · -- another writer holding an object of `m`: it would be a second active user
        exfalso
        have hndu : ¬ Done s u m := not_done_writer_cur f1 (a1 ▸ g2) (a7 m o' g3).1
        obtain ⟨hmu, _⟩ := h.cur u tx0 m o' f1 (a7 m o' g3).1 hndu
        exact hndu (hothers u hmu hut).1
    · by_cases hcnd : tx.failed = true ∧ s.map n = some o
      · rw [if_pos hcnd, upd_other _ _ _ _ emn]; exact hold
      · rw [if_neg hcnd]; exact hold
  · intro u tx' m g1 g2 g3 g4
    obtain ⟨tx0, f1, a1, _, _, a4, _, _, _, a9⟩ := htx u tx' g1
    have hut : u ≠ t := by
      intro e; subst e
      rw [ht] at f1; simp only [Option.some.injEq] at f1; subst f1
      rw [a4, hop] at g3; simp at g3
    rw [a9 hut]; rw [a9 hut] at g2 g3
    exact h.wusers u tx0 m f1 g2 g3 (eU ▸ g4)
  · intro hsh m
    rw [eSh] at hsh
    rw [eM]
    have := h.pm hsh
    by_cases hcnd : tx.failed = true ∧ s.map n = some o
    · rw [this n] at hcnd; simp at hcnd
    · rw [if_neg hcnd]; exact this m
  · intro o1 ob1' g1
    rw [eO] at g1
    obtain ⟨ob1, f1⟩ := (objs_upd_keep (ob' := { ob with writer := none }) ho rfl rfl rfl).2 o1 ob1' g1
    rw [eN]; exact h.bound o1 ob1 f1
  · intro m u g1
    obtain ⟨tx0, f1⟩ := h.users m u (eU ▸ g1)
    obtain ⟨tx', g2, _⟩ := htx2 u tx0 f1
    exact ⟨tx', g2⟩
  · intro u tx' g1 g2
    obtain ⟨tx0, f1, _, _, _, a4, a5, _, _, _⟩ := htx u tx' g1
    rw [a5]; exact h.openOk u tx0 f1 (a4 ▸ g2)


/-- a reader ends -/
theorem noInv_closeR {s : State} (h : NOInv s) {t : TxId} {tx : Tx} (ht : s.txs t = some tx) (hop : tx.isOpen = true)
    (hw : tx.isWrite = false) :
    NOInv { s with txs := upd s.txs t (some { tx with isOpen := false, endVer := s.nver }) } := by
  generalize hS : ({ s with txs := upd s.txs t (some { tx with isOpen := false, endVer := s.nver }) } : State) = S
  have eT : S.txs = upd s.txs t (some { tx with isOpen := false, endVer := s.nver }) := by rw [← hS]
  have eO : S.objs = s.objs := by rw [← hS]
  have eM : S.map = s.map := by rw [← hS]
  have eU : S.users = s.users := by rw [← hS]
  have eL : S.latest = s.latest := by rw [← hS]
  have eV : S.nver = s.nver := by rw [← hS]
  have eW : S.writer = s.writer := by rw [← hS]
  have eN : S.nextObj = s.nextObj := by rw [← hS]
  have eSh : S.shared = s.shared := by rw [← hS]
  have hother : ∀ u, u ≠ t → S.txs u = s.txs u := fun u hu => by rw [eT, upd_other _ _ _ _ hu]
  have hself : S.txs t = some { tx with isOpen := false, endVer := s.nver } := by rw [eT, upd_same]
  have hdoneT : ∀ m, Done S t m := fun m => ⟨_, hself, rfl, fun hw' => by rw [hw] at hw'; simp at hw'⟩
  have hnotdone : ∀ m, ¬ Done s t m := fun m => not_done_of_open ht hop
  have hdone : ∀ u m, u ≠ t → (Done S u m ↔ Done s u m) := fun u m hu => done_same (hother u hu)
  have hmono : ∀ u m, Done s u m → Done S u m := by
    intro u m hd
    by_cases e : u = t
    · subst e; exact hdoneT m
    · exact (hdone u m e).2 hd
  have hcb : ∀ m k, CommittedBefore S m k → CommittedBefore s m k := by
    intro m k hcb u hu utx f1 f2 f3 f4
    have hut : u ≠ t := by intro e; subst e; rw [ht] at f1; simp only [Option.some.injEq] at f1; subst f1; rw [hw] at f2; simp at f2
    exact hcb u (eU ▸ hu) utx (by rw [hother u hut]; exact f1) f2 f3 f4
  refine ⟨?_, ?_, ?_, ?_, ?_, ?_, ?_, ?_, by rw [eSh, eM]; exact h.pm, by rw [eO, eN]; exact h.bound, ?_, ?_⟩
  · intro u tx' g1
    rw [eV, eW]
    by_cases e : u = t
    · subst e; rw [hself] at g1; simp only [Option.some.injEq] at g1; subst g1
      refine ⟨(h.ver u tx ht).1, Nat.le_refl _, ?_⟩
      intro hw'; rw [hw] at hw'; simp at hw'
    · rw [hother u e] at g1; exact h.ver u tx' g1
  · intro u tx' m g1 g2 g3 g4
    have e : u ≠ t := by intro e; subst e; rw [hself] at g1; simp only [Option.some.injEq] at g1; subst g1; simp at g2
    rw [hother u e] at g1
    rw [eL]; exact h.fresh u tx' m g1 g2 (by rw [← eU]; exact g3) (hcb m _ g4)
  · intro u tx' m o' g1 g2 g3 g4 g5
    have e : u ≠ t := by intro e; subst e; rw [hself] at g1; simp only [Option.some.injEq] at g1; subst g1; rw [hw] at g2; simp at g2
    rw [hother u e] at g1
    rw [eL]; exact h.committed u tx' m o' g1 g2 g3 g4 g5
  · intro u tx' m o' g1 g2 g3
    have e : u ≠ t := fun e => g3 (e ▸ hdoneT m)
    rw [hother u e] at g1
    rw [eU, eO]; exact h.cur u tx' m o' g1 g2 (fun hd => g3 (hmono u m hd))
  · intro m u tx' g1 g2 g3 v g4 g5
    have e : u ≠ t := fun e => g3 (e ▸ hdoneT m)
    rw [hother u e] at g2
    have := h.excl m u tx' (eU ▸ g1) g2 (fun hd => g3 (hmono u m hd)) v (eU ▸ g4) g5
    have evt : v ≠ t := fun e' => hnotdone m (e' ▸ this.1)
    exact ⟨hmono v m this.1, by rw [endVerOf_same (hother v evt)]; exact this.2⟩
  · intro m o' g1
    rw [eM] at g1
    obtain ⟨ob1, hob1, hn1, ha, hb⟩ := h.map m o' g1
    refine ⟨ob1, by rw [eO]; exact hob1, hn1, ?_, ?_⟩
    · intro u g2 g3
      have e : u ≠ t := fun e => g3 (e ▸ hdoneT m)
      obtain ⟨tx0, f1, hag0⟩ := ha u (eU ▸ g2) (fun hd => g3 (hmono u m hd))
      exact ⟨tx0, by rw [hother u e]; exact f1, hag0⟩
    · intro hall
      rw [eL]
      by_cases hmem : t ∈ s.users m
      · -- `t` was the active user of `m`: the object agrees with its view, which is still current
        obtain ⟨tx0, f1, hag0⟩ := ha t hmem (hnotdone m)
        rw [ht] at f1; simp only [Option.some.injEq] at f1; subst f1
        have hfr := h.fresh t tx m ht hop (fun hw' => by rw [hw] at hw'; simp at hw') (by
          intro v hv vtx f1 f2 f3 f4
          have evt : v ≠ t := by intro e; subst e; rw [ht] at f1; simp only [Option.some.injEq] at f1; subst f1; rw [hw] at f2; simp at f2
          have := (h.excl m t tx hmem ht (hnotdone m) v hv evt).2
          unfold endVerOf at this; rw [f1] at this; exact this)
        exact agree_congr hag0 rfl hfr.symm
      · exact hb (fun u hu => by
          have e : u ≠ t := fun e => hmem (e ▸ hu)
          exact (hdone u m e).1 (hall u (eU ▸ hu)))
  · intro u tx' m o' g1 g2 g3
    have e : u ≠ t := by intro e; subst e; rw [hself] at g1; simp only [Option.some.injEq] at g1; subst g1; rw [hw] at g2; simp at g2
    rw [hother u e] at g1
    rw [eM]; exact h.wmap u tx' m o' g1 g2 g3
  · intro u tx' m g1 g2 g3 g4
    have e : u ≠ t := by intro e; subst e; rw [hself] at g1; simp only [Option.some.injEq] at g1; subst g1; simp at g3
    rw [hother u e] at g1
    exact h.wusers u tx' m g1 g2 g3 (eU ▸ g4)
  · intro m u g1
    by_cases e : u = t
    · subst e; exact ⟨_, hself⟩
    · obtain ⟨tx0, f1⟩ := h.users m u (eU ▸ g1); exact ⟨tx0, by rw [hother u e]; exact f1⟩
  · intro u tx' g1 g2
    have e : u ≠ t := by intro e; subst e; rw [hself] at g1; simp only [Option.some.injEq] at g1; subst g1; simp at g2
    rw [hother u e] at g1
    exact h.openOk u tx' g1 g2


/-- a writer ends: commit (`f = false`: the new latest disk is its view, version `nver + 1`) or
rollback (`f = true`) -/
theorem noInv_closeW {s : State} (h : NOInv s) {t : TxId} {tx : Tx} (ht : s.txs t = some tx) (hop : tx.isOpen = true)
    (hw : tx.isWrite = true) (L : Disk) (k : Nat) (f : Bool) (old : List Disk) (lg : List (List Op))
    (hcase : (f = false ∧ L = tx.view ∧ k = s.nver + 1) ∨ (f = true ∧ L = s.latest ∧ k = s.nver)) :
    NOInv { s with latest := L, older := old, nver := k, writer := none, log := lg,
                   txs := upd s.txs t (some { tx with isOpen := false, failed := f, endVer := k }) } := by
  generalize hS : ({ s with latest := L, older := old, nver := k, writer := none, log := lg, txs := upd s.txs t (some { tx with isOpen := false, failed := f, endVer := k }) } : State) = S
  have eT : S.txs = upd s.txs t (some { tx with isOpen := false, failed := f, endVer := k }) := by rw [← hS]
  have eO : S.objs = s.objs := by rw [← hS]
  have eM : S.map = s.map := by rw [← hS]
  have eU : S.users = s.users := by rw [← hS]
  have eL : S.latest = L := by rw [← hS]
  have eV : S.nver = k := by rw [← hS]
  have eW : S.writer = none := by rw [← hS]
  have eN : S.nextObj = s.nextObj := by rw [← hS]
  have eSh : S.shared = s.shared := by rw [← hS]
  have hother : ∀ u, u ≠ t → S.txs u = s.txs u := fun u hu => by rw [eT, upd_other _ _ _ _ hu]
  have hself : S.txs t = some { tx with isOpen := false, failed := f, endVer := k } := by rw [eT, upd_same]
  have hk : s.nver ≤ k := by rcases hcase with ⟨_, _, e⟩ | ⟨_, _, e⟩ <;> omega
  have hsnap : tx.snap = s.nver ∧ s.writer = some t := (h.ver t tx ht).2.2 hw hop
  have hnf : tx.failed = false := h.openOk t tx ht hop
  -- `t` is the only open writer
  have honly : ∀ u txu, s.txs u = some txu → txu.isWrite = true → txu.isOpen = true → u = t := by
    intro u txu f1 f2 f3
    have := ((h.ver u txu f1).2.2 f2 f3).2
    rw [hsnap.2] at this; simp only [Option.some.injEq] at this; exact this.symm
  have hnotdone : ∀ m, ¬ Done s t m := fun m => not_done_of_open ht hop
  have hdone : ∀ u m, u ≠ t → (Done S u m ↔ Done s u m) := fun u m hu => done_same (hother u hu)
  have hmono : ∀ u m, Done s u m → Done S u m := by
    intro u m hd
    by_cases e : u = t
    · subst e; exact absurd hd (hnotdone m)
    · exact (hdone u m e).2 hd
  -- a name `t` never accessed has the same index content in its view as in the latest disk
  have hidx : ∀ m, t ∉ s.users m → tx.view.idx m = s.latest.idx m := by
    intro m hm
    refine h.fresh t tx m ht hop (fun _ => hm) ?_
    intro v _ vtx f1 _ _ _
    rw [hsnap.1]; exact (h.ver v vtx f1).2.1
  have hL : ∀ m, t ∉ s.users m → L.idx m = s.latest.idx m := by
    intro m hm
    rcases hcase with ⟨_, e, _⟩ | ⟨_, e, _⟩
    · rw [e]; exact hidx m hm
    · rw [e]
  have hcb : ∀ m j, t ∉ s.users m → CommittedBefore S m j → CommittedBefore s m j := by
    intro m j hm hcb u hu utx f1 f2 f3 f4
    have hut : u ≠ t := fun e => hm (e ▸ hu)
    exact hcb u (eU ▸ hu) utx (by rw [hother u hut]; exact f1) f2 f3 f4
  refine ⟨?_, ?_, ?_, ?_, ?_, ?_, ?_, ?_, by rw [eSh, eM]; exact h.pm, by rw [eO, eN]; exact h.bound, ?_, ?_⟩
  · intro u tx' g1
    rw [eV, eW]
    by_cases e : u = t
    · subst e; rw [hself] at g1; simp only [Option.some.injEq] at g1; subst g1
      refine ⟨Nat.le_trans (h.ver u tx ht).1 hk, Nat.le_refl _, ?_⟩
      intro _ hop'; simp at hop'
    · rw [hother u e] at g1
      obtain ⟨a, b, c⟩ := h.ver u tx' g1
      refine ⟨Nat.le_trans a hk, Nat.le_trans b hk, ?_⟩
      intro f2 f3; exact absurd (honly u tx' g1 f2 f3) e
  · intro u tx' m g1 g2 g3 g4
    have e : u ≠ t := by intro e; subst e; rw [hself] at g1; simp only [Option.some.injEq] at g1; subst g1; simp at g2
    rw [hother u e] at g1
    rw [eL]
    by_cases hm : t ∈ s.users m
    · rcases hcase with ⟨ef, eL', ek⟩ | ⟨ef, eL', ek⟩
      · -- `t` committed a version newer than the snapshot of `u`
        exfalso
        have := g4 t (eU ▸ hm) _ hself hw rfl (by simp [ef])
        simp only [ek] at this
        have := (h.ver u tx' g1).1
        omega
      · rw [eL']
        refine h.fresh u tx' m g1 g2 (by rw [← eU]; exact g3) ?_
        intro v hv vtx f1 f2 f3 f4
        have hvt : v ≠ t := by intro e'; subst e'; rw [ht] at f1; simp only [Option.some.injEq] at f1; subst f1; rw [hop] at f3; simp at f3
        exact g4 v (eU ▸ hv) vtx (by rw [hother v hvt]; exact f1) f2 f3 f4
    · rw [hL m hm]
      exact h.fresh u tx' m g1 g2 (by rw [← eU]; exact g3) (hcb m _ hm g4)
  · intro u tx' m o' g1 g2 g3 g4 g5
    rw [eL]
    by_cases e : u = t
    · subst e; rw [hself] at g1; simp only [Option.some.injEq] at g1; subst g1
      dsimp only at g4 ⊢
      rcases hcase with ⟨_, eL', _⟩ | ⟨ef, _, _⟩
      · rw [eL']
      · rw [ef] at g4; simp at g4
    · rw [hother u e] at g1
      have hndu : ¬ Done s u m := not_done_writer_cur g1 g2 g5
      obtain ⟨hmu, _⟩ := h.cur u tx' m o' g1 g5 hndu
      have hm : t ∉ s.users m := by
        intro hm
        exact hnotdone m (h.excl m u tx' hmu g1 hndu t hm (fun e' => e e'.symm)).1
      rw [hL m hm]; exact h.committed u tx' m o' g1 g2 g3 g4 g5
  · intro u tx' m o' g1 g2 g3
    have hnd : ¬ Done s u m := fun hd => g3 (hmono u m hd)
    by_cases e : u = t
    · subst e; rw [hself] at g1; simp only [Option.some.injEq] at g1; subst g1
      rw [eU, eO]; exact h.cur u tx m o' ht g2 hnd
    · rw [hother u e] at g1
      rw [eU, eO]; exact h.cur u tx' m o' g1 g2 hnd
  · intro m u tx' g1 g2 g3 v g4 g5
    have hnd : ¬ Done s u m := fun hd => g3 (hmono u m hd)
    have key : ∀ txu, s.txs u = some txu → txu.snap = tx'.snap → Done S v m ∧ endVerOf S v ≤ tx'.snap := by
      intro txu f1 f2
      have := h.excl m u txu (eU ▸ g1) f1 hnd v (eU ▸ g4) g5
      have evt : v ≠ t := fun e' => hnotdone m (e' ▸ this.1)
      exact ⟨hmono v m this.1, by rw [endVerOf_same (hother v evt), ← f2]; exact this.2⟩
    by_cases e : u = t
    · subst e; rw [hself] at g2; simp only [Option.some.injEq] at g2; subst g2
      exact key tx ht rfl
    · rw [hother u e] at g2; exact key tx' g2 rfl
  · intro m o' g1
    rw [eM] at g1
    obtain ⟨ob1, hob1, hn1, ha, hb⟩ := h.map m o' g1
    refine ⟨ob1, by rw [eO]; exact hob1, hn1, ?_, ?_⟩
    · intro u g2 g3
      obtain ⟨tx0, f1, hag0⟩ := ha u (eU ▸ g2) (fun hd => g3 (hmono u m hd))
      by_cases e : u = t
      · subst e; rw [ht] at f1; simp only [Option.some.injEq] at f1; subst f1
        exact ⟨_, hself, hag0⟩
      · exact ⟨tx0, by rw [hother u e]; exact f1, hag0⟩
    · intro hall
      rw [eL]
      by_cases hm : t ∈ s.users m
      · -- `t` still holds its object of `m`, so not everybody is done
        exfalso
        obtain ⟨tx1, f1, _, f3⟩ := hall t (eU ▸ hm)
        rw [hself] at f1; simp only [Option.some.injEq] at f1; subst f1
        exact h.wusers t tx m ht hw hop hm (f3 hw)
      · refine agree_congr (hb (fun u hu => ?_)) rfl (hL m hm)
        have e : u ≠ t := fun e => hm (e ▸ hu)
        exact (hdone u m e).1 (hall u (eU ▸ hu))
  · intro u tx' m o' g1 g2 g3
    rw [eM]
    by_cases e : u = t
    · subst e; rw [hself] at g1; simp only [Option.some.injEq] at g1; subst g1
      exact h.wmap u tx m o' ht hw g3
    · rw [hother u e] at g1; exact h.wmap u tx' m o' g1 g2 g3
  · intro u tx' m g1 g2 g3 g4
    exfalso
    by_cases e : u = t
    · subst e; rw [hself] at g1; simp only [Option.some.injEq] at g1; subst g1; simp at g3
    · rw [hother u e] at g1; exact e (honly u tx' g1 g2 g3)
  · intro m u g1
    by_cases e : u = t
    · subst e; exact ⟨_, hself⟩
    · obtain ⟨tx0, f1⟩ := h.users m u (eU ▸ g1); exact ⟨tx0, by rw [hother u e]; exact f1⟩
  · intro u tx' g1 g2
    have e : u ≠ t := by intro e; subst e; rw [hself] at g1; simp only [Option.some.injEq] at g1; subst g1; simp at g2
    rw [hother u e] at g1
    exact h.openOk u tx' g1 g2

theorem noInv_close {s s' : State} {t : TxId} {ok : Bool} (h : NOInv s) (hs : stepClose s t ok = some s') : NOInv s' := by
  obtain ⟨tx, ht, hop, hcase⟩ := stepClose_some hs
  cases hcase with
  | reader hw hu => exact noInv_closeR h ht hop hw
  | commit hw =>
    have hnf := h.openOk t tx ht hop
    exact noInv_closeW h ht hop hw tx.view (s.nver + 1) tx.failed (s.latest :: s.older) (s.log ++ [tx.ops]) (Or.inl ⟨hnf, rfl, rfl⟩)
  | rollback hw =>
    exact noInv_closeW h ht hop hw s.latest s.nver true s.older s.log (Or.inr ⟨rfl, rfl, rfl⟩)

theorem agree_put {ob : Obj} {n : Name} {d : Disk} (h : Agree ob n d) (i : Item) (v : Val) (k : Nat) :
    Agree { ob with items := upd ob.items i (some (v, k)) } n (d.apply (.put n i v)) := by
  intro j w k' hj
  dsimp only at hj
  rw [apply_put_idx]
  by_cases ej : j = i
  · subst ej; simp at hj; simp [hj.1]
  · simp only [upd_other _ _ _ _ ej] at hj; simp only [ej, if_false]; exact h j w k' hj

theorem agree_del {ob : Obj} {n : Name} {d : Disk} (h : Agree ob n d) (i : Item) :
    Agree { ob with items := upd ob.items i none } n (d.apply (.del n i)) := by
  intro j w k' hj
  dsimp only at hj
  rw [apply_del_idx]
  by_cases ej : j = i
  · subst ej; simp at hj
  · simp only [upd_other _ _ _ _ ej] at hj; simp only [ej, if_false]; exact h j w k' hj

theorem noInv_wr {s s' : State} {t : TxId} {op : Op} (h : NOInv s) (hs : stepWr s t op = some s') : NOInv s' := by
  obtain ⟨tx, ht, hw, hop, objs', hS, hcase⟩ := stepWr_some hs
  generalize s' = S at hS ⊢
  have eT : S.txs = upd s.txs t (some { tx with view := tx.view.apply op, ops := tx.ops ++ [op] }) := by rw [hS]
  have eO : S.objs = objs' := by rw [hS]
  have eM : S.map = s.map := by rw [hS]
  have eU : S.users = s.users := by rw [hS]
  have eL : S.latest = s.latest := by rw [hS]
  have eV : S.nver = s.nver := by rw [hS]
  have eW : S.writer = s.writer := by rw [hS]
  have eN : S.nextObj = s.nextObj := by rw [hS]
  have eSh : S.shared = s.shared := by rw [hS]
  have hother : ∀ u, u ≠ t → S.txs u = s.txs u := fun u hu => by rw [eT, upd_other _ _ _ _ hu]
  have hself : S.txs t = some { tx with view := tx.view.apply op, ops := tx.ops ++ [op] } := by rw [eT, upd_same]
  have hndT : ∀ m, ¬ Done s t m := fun m => not_done_of_open ht hop
  have hdone : ∀ u m, Done S u m ↔ Done s u m := by
    intro u m
    by_cases e : u = t
    · subst e
      constructor
      · rintro ⟨tx', g1, g2, _⟩
        rw [hself] at g1; simp only [Option.some.injEq] at g1; subst g1
        rw [hop] at g2; simp at g2
      · intro hd; exact absurd hd (hndT m)
    · exact done_same (hother u e)
  have hend : ∀ u, endVerOf S u = endVerOf s u := by
    intro u
    by_cases e : u = t
    · subst e; unfold endVerOf; rw [hself, ht]
    · exact endVerOf_same (hother u e)
  -- what the op touches: an index `n0` whose object `o0` the writer holds, or nothing
  have htouch : (op.name? = none ∧ objs' = s.objs) ∨
      ∃ n0 o0 ob0 ob0', op.name? = some n0 ∧ tx.cur n0 = some o0 ∧ s.objs o0 = some ob0 ∧ objs' = upd s.objs o0 (some ob0') ∧
        ob0'.name = ob0.name ∧ ob0'.owner = ob0.owner ∧
        (∀ d, Agree ob0 n0 d → Agree ob0' n0 (d.apply op)) := by
    rcases hcase with ⟨e1, e2⟩ | ⟨n0, i, o0, ob0, h1, h2, h3⟩
    · exact Or.inl ⟨e2, e1⟩
    · rcases h3 with ⟨v, rfl, rfl⟩ | ⟨rfl, rfl⟩
      · exact Or.inr ⟨n0, o0, ob0, _, rfl, h1, h2, rfl, rfl, rfl, fun d hd => agree_put hd i v _⟩
      · exact Or.inr ⟨n0, o0, ob0, _, rfl, h1, h2, rfl, rfl, rfl, fun d hd => agree_del hd i⟩
  have hview : ∀ m, op.name? ≠ some m → (tx.view.apply op).idx m = tx.view.idx m := fun m hm => apply_idx_other _ _ _ hm
  -- objects other than the touched one are unchanged
  have hobjs : ∀ o1 ob1, s.objs o1 = some ob1 → (∀ n0 o0, op.name? = some n0 → tx.cur n0 = some o0 → o1 ≠ o0) → S.objs o1 = some ob1 := by
    intro o1 ob1 h1 hne
    rw [eO]
    rcases htouch with ⟨_, e2⟩ | ⟨n0, o0, ob0, ob0', e1, e2, _, e4, _⟩
    · rw [e2]; exact h1
    · rw [e4, upd_other _ _ _ _ (hne n0 o0 e1 e2)]; exact h1
  -- the object `t` holds for `m`, in the new state
  have hcurT : ∀ m o', tx.cur m = some o' → t ∈ s.users m ∧ ∃ ob, S.objs o' = some ob ∧ ob.name = m ∧ ob.owner = t ∧
      Agree ob m (tx.view.apply op) := by
    intro m o' hc
    obtain ⟨hm, ob1, hob1, hn1, how1, hag1⟩ := h.cur t tx m o' ht hc (hndT m)
    refine ⟨hm, ?_⟩
    rcases htouch with ⟨e1, e2⟩ | ⟨n0, o0, ob0, ob0', e1, e2, e3, e4, e5, e6, e7⟩
    · exact ⟨ob1, by rw [eO, e2]; exact hob1, hn1, how1, agree_congr hag1 rfl (hview m (by rw [e1]; simp))⟩
    · by_cases emn : m = n0
      · subst emn
        rw [e2] at hc; simp only [Option.some.injEq] at hc; subst hc
        rw [e3] at hob1; simp only [Option.some.injEq] at hob1; subst hob1
        exact ⟨ob0', by rw [eO, e4]; exact upd_same _ _ _, e5.trans hn1, e6.trans how1, e7 _ hag1⟩
      · have hoo : o' ≠ o0 := by
          intro e; subst e
          obtain ⟨_, ob2, hob2, hn2, _, _⟩ := h.cur t tx n0 o' ht e2 (hndT n0)
          rw [hob1] at hob2; simp only [Option.some.injEq] at hob2; subst hob2
          exact emn (hn1.symm.trans hn2)
        refine ⟨ob1, by rw [eO, e4, upd_other _ _ _ _ hoo]; exact hob1, hn1, how1, ?_⟩
        exact agree_congr hag1 rfl (hview m (by rw [e1]; simp; exact fun e => emn e.symm))
  refine ⟨?_, ?_, ?_, ?_, ?_, ?_, ?_, ?_, by rw [eSh, eM]; exact h.pm, ?_, ?_, ?_⟩
  · intro u tx' g1
    rw [eV, eW]
    by_cases e : u = t
    · subst e; rw [hself] at g1; simp only [Option.some.injEq] at g1; subst g1; exact h.ver u tx ht
    · rw [hother u e] at g1; exact h.ver u tx' g1
  · intro u tx' m g1 g2 g3 g4
    have hcb : CommittedBefore s m tx'.snap := by
      intro v hv vtx f1 f2 f3 f4
      have hvt : v ≠ t := by intro e; subst e; rw [ht] at f1; simp only [Option.some.injEq] at f1; subst f1; rw [hop] at f3; simp at f3
      exact g4 v (eU ▸ hv) vtx (by rw [hother v hvt]; exact f1) f2 f3 f4
    rw [eL]
    by_cases e : u = t
    · subst e; rw [hself] at g1; simp only [Option.some.injEq] at g1; subst g1
      have hm : u ∉ s.users m := by rw [← eU]; exact g3 hw
      dsimp only
      rw [hview m ?_]
      · exact h.fresh u tx m ht hop (fun _ => hm) hcb
      · intro e1
        rcases htouch with ⟨e2, _⟩ | ⟨n0, o0, _, _, e2, e3, _⟩
        · rw [e2] at e1; simp at e1
        · rw [e2] at e1; simp only [Option.some.injEq] at e1; subst e1
          exact hm (h.cur u tx n0 o0 ht e3 (hndT n0)).1
    · rw [hother u e] at g1
      exact h.fresh u tx' m g1 g2 (by rw [← eU]; exact g3) hcb
  · intro u tx' m o' g1 g2 g3 g4 g5
    have e : u ≠ t := by intro e; subst e; rw [hself] at g1; simp only [Option.some.injEq] at g1; subst g1; dsimp only at g3; rw [hop] at g3; simp at g3
    rw [hother u e] at g1
    rw [eL]; exact h.committed u tx' m o' g1 g2 g3 g4 g5
  · intro u tx' m o' g1 g2 g3
    by_cases e : u = t
    · subst e; rw [hself] at g1; simp only [Option.some.injEq] at g1; subst g1
      obtain ⟨hm, hrest⟩ := hcurT m o' g2
      exact ⟨eU ▸ hm, hrest⟩
    · rw [hother u e] at g1
      have hnd : ¬ Done s u m := fun hd => g3 ((hdone u m).2 hd)
      obtain ⟨hm, ob1, hob1, hn1, how1, hag1⟩ := h.cur u tx' m o' g1 g2 hnd
      refine ⟨eU ▸ hm, ob1, hobjs o' ob1 hob1 ?_, hn1, how1, hag1⟩
      intro n0 o0 e1 e2 eo
      subst eo
      obtain ⟨hmt, ob2, hob2, hn2, _, _⟩ := h.cur t tx n0 o' ht e2 (hndT n0)
      rw [hob1] at hob2; simp only [Option.some.injEq] at hob2; subst hob2
      have emn : m = n0 := hn1.symm.trans hn2
      subst emn
      exact hndT m (h.excl m u tx' hm g1 hnd t hmt (fun e' => e e'.symm)).1
  · intro m u tx' g1 g2 g3 v g4 g5
    have hnd : ¬ Done s u m := fun hd => g3 ((hdone u m).2 hd)
    have key : ∀ txu, s.txs u = some txu → txu.snap = tx'.snap → Done S v m ∧ endVerOf S v ≤ tx'.snap := by
      intro txu f1 f2
      have := h.excl m u txu (eU ▸ g1) f1 hnd v (eU ▸ g4) g5
      exact ⟨(hdone v m).2 this.1, by rw [hend, ← f2]; exact this.2⟩
    by_cases e : u = t
    · subst e; rw [hself] at g2; simp only [Option.some.injEq] at g2; subst g2; exact key tx ht rfl
    · rw [hother u e] at g2; exact key tx' g2 rfl
  · intro m o' g1
    rw [eM] at g1
    obtain ⟨ob1, hob1, hn1, ha, hb⟩ := h.map m o' g1
    by_cases hheld : tx.cur m = some o'
    · -- the manager's object is the one the writer holds
      obtain ⟨hm, ob', hob', hn', _, hag'⟩ := hcurT m o' hheld
      refine ⟨ob', hob', hn', ?_, ?_⟩
      · intro u g2 g3
        have hut : u = t := by
          by_cases hut : u = t
          · exact hut
          · exact absurd (h.excl m t tx hm ht (hndT m) u (eU ▸ g2) hut).1 (fun hd => g3 ((hdone u m).2 hd))
        subst hut
        exact ⟨_, hself, hag'⟩
      · intro hall
        exact absurd ((hdone t m).1 (hall t (eU ▸ hm))) (hndT m)
    · have hsame : S.objs o' = some ob1 := by
        refine hobjs o' ob1 hob1 ?_
        intro n0 o0 e1 e2 eo
        subst eo
        obtain ⟨_, ob2, hob2, hn2, _, _⟩ := h.cur t tx n0 o' ht e2 (hndT n0)
        rw [hob1] at hob2; simp only [Option.some.injEq] at hob2; subst hob2
        have emn : m = n0 := hn1.symm.trans hn2
        subst emn
        exact hheld e2
      refine ⟨ob1, hsame, hn1, ?_, ?_⟩
      · intro u g2 g3
        obtain ⟨tx0, f1, hag0⟩ := ha u (eU ▸ g2) (fun hd => g3 ((hdone u m).2 hd))
        by_cases e : u = t
        · subst e; rw [ht] at f1; simp only [Option.some.injEq] at f1; subst f1
          refine ⟨_, hself, ?_⟩
          dsimp only
          refine agree_congr hag0 rfl (hview m ?_)
          intro e1
          rcases htouch with ⟨e2, _⟩ | ⟨n0, o0, _, _, e2, e3, _⟩
          · rw [e2] at e1; simp at e1
          · rw [e2] at e1; simp only [Option.some.injEq] at e1; subst e1
            -- the writer holds an object of `m` other than the manager's: excluded by `wmap`
            rcases h.wmap u tx n0 o0 ht hw e3 with hx | hx
            · rw [hx] at g1; simp at g1
            · rw [hx] at g1; simp only [Option.some.injEq] at g1; subst g1; exact hheld e3
        · exact ⟨tx0, by rw [hother u e]; exact f1, hag0⟩
      · intro hall
        rw [eL]; exact hb (fun u hu => (hdone u m).1 (hall u (eU ▸ hu)))
  · intro u tx' m o' g1 g2 g3
    rw [eM]
    by_cases e : u = t
    · subst e; rw [hself] at g1; simp only [Option.some.injEq] at g1; subst g1; exact h.wmap u tx m o' ht hw g3
    · rw [hother u e] at g1; exact h.wmap u tx' m o' g1 g2 g3
  · intro u tx' m g1 g2 g3 g4
    by_cases e : u = t
    · subst e; rw [hself] at g1; simp only [Option.some.injEq] at g1; subst g1; exact h.wusers u tx m ht hw hop (eU ▸ g4)
    · rw [hother u e] at g1; exact h.wusers u tx' m g1 g2 g3 (eU ▸ g4)
  · intro o1 ob1' g1
    rw [eN]
    rw [eO] at g1
    rcases htouch with ⟨_, e2⟩ | ⟨n0, o0, ob0, ob0', _, _, e3, e4, _⟩
    · rw [e2] at g1; exact h.bound o1 ob1' g1
    · rw [e4] at g1
      rcases upd_some_cases g1 with ⟨rfl, _⟩ | ⟨_, hold⟩
      · exact h.bound _ _ e3
      · exact h.bound _ _ hold
  · intro m u g1
    by_cases e : u = t
    · subst e; exact ⟨_, hself⟩
    · obtain ⟨tx0, f1⟩ := h.users m u (eU ▸ g1); exact ⟨tx0, by rw [hother u e]; exact f1⟩
  · intro u tx' g1 g2
    by_cases e : u = t
    · subst e; rw [hself] at g1; simp only [Option.some.injEq] at g1; subst g1; exact h.openOk u tx ht hop
    · rw [hother u e] at g1; exact h.openOk u tx' g1 g2


theorem noInv_access {s s' : State} {t : TxId} {n : Name} (h : NOInv s) (hg : mayAccess s t n = true)
    (hs : AccessOut s t n s') : NOInv s' := by
  obtain ⟨tx, o, ob', nx, mp, ht, hop, hc, hcase, hS⟩ := hs
  obtain ⟨tx0, ht0, hG⟩ := mayAccess_spec hg
  rw [ht] at ht0; simp only [Option.some.injEq] at ht0; subst ht0
  generalize s' = S at hS ⊢
  have eT : S.txs = upd s.txs t (some { tx with cur := upd tx.cur n (some o), inUse := tx.inUse + 1 }) := by rw [hS]; rfl
  have eO : S.objs = upd s.objs o (some ob') := by rw [hS]; rfl
  have eM : S.map = mp := by rw [hS]; rfl
  have eU : S.users = upd s.users n (t :: s.users n) := by rw [hS]; rfl
  have eL : S.latest = s.latest := by rw [hS]; rfl
  have eV : S.nver = s.nver := by rw [hS]; rfl
  have eW : S.writer = s.writer := by rw [hS]; rfl
  have eN : S.nextObj = nx := by rw [hS]; rfl
  have eSh : S.shared = s.shared := by rw [hS]; rfl
  have hother : ∀ u, u ≠ t → S.txs u = s.txs u := fun u hu => by rw [eT, upd_other _ _ _ _ hu]
  have hself : S.txs t = some { tx with cur := upd tx.cur n (some o), inUse := tx.inUse + 1 } := by rw [eT, upd_same]
  have hndT : ∀ m, ¬ Done s t m := fun m => not_done_of_open ht hop
  have hdone : ∀ u m, Done S u m ↔ Done s u m := by
    intro u m
    by_cases e : u = t
    · subst e
      constructor
      · rintro ⟨tx', g1, g2, _⟩
        rw [hself] at g1; simp only [Option.some.injEq] at g1; subst g1
        dsimp only at g2; rw [hop] at g2; simp at g2
      · intro hd; exact absurd hd (hndT m)
    · exact done_same (hother u e)
  have hend : ∀ u, endVerOf S u = endVerOf s u := by
    intro u
    by_cases e : u = t
    · subst e; unfold endVerOf; rw [hself, ht]
    · exact endVerOf_same (hother u e)
  have husers_n : ∀ u, u ∈ S.users n ↔ (u = t ∨ u ∈ s.users n) := by
    intro u; rw [eU, upd_same]; simp
  have husers_m : ∀ m, m ≠ n → S.users m = s.users m := fun m hm => by rw [eU, upd_other _ _ _ _ hm]
  have husers_sub : ∀ m u, u ∈ s.users m → u ∈ S.users m := by
    intro m u hu
    by_cases e : m = n
    · subst e; exact (husers_n u).2 (Or.inr hu)
    · rw [husers_m m e]; exact hu
  have husers_back : ∀ m u, u ∈ S.users m → u ≠ t → u ∈ s.users m := by
    intro m u hu hne
    by_cases e : m = n
    · subst e; rcases (husers_n u).1 hu with h1 | h1
      · exact absurd h1 hne
      · exact h1
    · rw [husers_m m e] at hu; exact hu
  -- committed writers known to `S` were known to `s`
  have hcb : ∀ m k, CommittedBefore S m k → CommittedBefore s m k := by
    intro m k hcb v hv vtx f1 f2 f3 f4
    have hvt : v ≠ t := by intro e; subst e; rw [ht] at f1; simp only [Option.some.injEq] at f1; subst f1; rw [hop] at f3; simp at f3
    exact hcb v (husers_sub m v hv) vtx (by rw [hother v hvt]; exact f1) f2 f3 f4
  -- the view of `t` is current for index `n`
  have hcur_idx : t ∉ s.users n → tx.view.idx n = s.latest.idx n := by
    intro hm
    refine h.fresh t tx n ht hop (fun _ => hm) ?_
    intro v hv vtx f1 _ _ _
    have hvt : v ≠ t := fun e => hm (e ▸ hv)
    have := (hG v hv hvt).2
    unfold endVerOf at this; rw [f1] at this; exact this
  -- every object the manager holds for `n` agrees with the view of `t`
  have hmapAgree : ∀ o1 ob1, s.map n = some o1 → s.objs o1 = some ob1 → ob1.name = n ∧ Agree ob1 n tx.view := by
    intro o1 ob1 hm1 ho1
    obtain ⟨ob2, hob2, hn2, ha, hb⟩ := h.map n o1 hm1
    rw [ho1] at hob2; simp only [Option.some.injEq] at hob2; subst hob2
    refine ⟨hn2, ?_⟩
    by_cases hm : t ∈ s.users n
    · obtain ⟨tx1, f1, hag⟩ := ha t hm (hndT n)
      rw [ht] at f1; simp only [Option.some.injEq] at f1; subst f1; exact hag
    · have hall : ∀ u ∈ s.users n, Done s u n := fun u hu => (hG u hu (fun e => hm (e ▸ hu))).1
      exact agree_congr (hb hall) rfl (hcur_idx hm)
  have hob' : ob'.name = n ∧ ob'.owner = t ∧ Agree ob' n tx.view := by
    cases hcase with
    | fresh inMap _ _ => exact ⟨by split <;> rfl, by split <;> rfl, by split <;> exact agree_fresh _ _ _ _ _ _ _⟩
    | existing o2 ob2 hsh hm ho hwn hr =>
      obtain ⟨a, b⟩ := hmapAgree o ob2 hm ho
      unfold takeShared
      exact ⟨by split <;> exact a, by split <;> rfl, by split <;> exact agree_congr b rfl rfl⟩
  have hoth : ∀ m o1 ob1, m ≠ n → s.objs o1 = some ob1 → ob1.name = m → o1 ≠ o := by
    intro m o1 ob1 hmn hob1 hn1 e
    subst e
    cases hcase with
    | fresh inMap _ _ => exact absurd (h.bound _ _ hob1) (Nat.lt_irrefl _)
    | existing o2 ob2 hsh hm ho hwn hr =>
      rw [ho] at hob1; simp only [Option.some.injEq] at hob1; subst hob1
      exact hmn (hn1.symm.trans (hmapAgree o1 ob2 hm ho).1)
  have hnx : o < nx ∧ s.nextObj ≤ nx := by
    cases hcase with
    | fresh inMap _ _ => exact ⟨Nat.lt_succ_self _, Nat.le_succ _⟩
    | existing o2 ob2 hsh hm ho hwn hr => exact ⟨h.bound _ _ ho, Nat.le_refl _⟩
  -- another user of `n` that is still busy cannot exist
  have hbusy : ∀ u, u ≠ t → u ∈ s.users n → ¬ Done s u n → False := fun u hne hu hnd => hnd (hG u hu hne).1
  -- the manager's map in the new state
  have hmp : ∀ m o1, mp m = some o1 → (m = n ∧ o1 = o) ∨ s.map m = some o1 := by
    intro m o1 hm1
    cases hcase with
    | fresh inMap _ _ =>
      cases inMap with
      | false => exact Or.inr (by simpa using hm1)
      | true =>
        simp only [if_true] at hm1
        rcases upd_opt_cases hm1 with ⟨rfl, hx⟩ | ⟨_, hold⟩
        · simp only [Option.some.injEq] at hx; exact Or.inl ⟨rfl, hx.symm⟩
        · exact Or.inr hold
    | existing o2 ob2 hsh hm2 ho hwn hr => exact Or.inr hm1
  have hmp_other : ∀ m, m ≠ n → mp m = s.map m := by
    intro m hmn
    cases hcase with
    | fresh inMap _ _ =>
      cases inMap with
      | false => simp
      | true => simp only [if_true]; exact upd_other _ _ _ _ hmn
    | existing o2 ob2 hsh hm2 ho hwn hr => rfl
  refine ⟨?_, ?_, ?_, ?_, ?_, ?_, ?_, ?_, ?_, ?_, ?_, ?_⟩
  · intro u tx' g1
    rw [eV, eW]
    by_cases e : u = t
    · subst e; rw [hself] at g1; simp only [Option.some.injEq] at g1; subst g1; exact h.ver u tx ht
    · rw [hother u e] at g1; exact h.ver u tx' g1
  · intro u tx' m g1 g2 g3 g4
    rw [eL]
    by_cases e : u = t
    · subst e; rw [hself] at g1; simp only [Option.some.injEq] at g1; subst g1
      exact h.fresh u tx m ht hop (fun hw' hm => g3 hw' (husers_sub m u hm)) (hcb m _ g4)
    · rw [hother u e] at g1
      exact h.fresh u tx' m g1 g2 (fun hw' hm => g3 hw' (husers_sub m u hm)) (hcb m _ g4)
  · intro u tx' m o' g1 g2 g3 g4 g5
    have e : u ≠ t := by intro e; subst e; rw [hself] at g1; simp only [Option.some.injEq] at g1; subst g1; dsimp only at g3; rw [hop] at g3; simp at g3
    rw [hother u e] at g1
    rw [eL]; exact h.committed u tx' m o' g1 g2 g3 g4 g5
  · intro u tx' m o' g1 g2 g3
    by_cases e : u = t
    · subst e; rw [hself] at g1; simp only [Option.some.injEq] at g1; subst g1
      dsimp only at g2
      rcases upd_opt_cases g2 with ⟨rfl, hx⟩ | ⟨hmn, hold⟩
      · simp only [Option.some.injEq] at hx; subst hx
        exact ⟨(husers_n u).2 (Or.inl rfl), ob', by rw [eO]; exact upd_same _ _ _, hob'.1, hob'.2.1, hob'.2.2⟩
      · obtain ⟨hm, ob1, hob1, hn1, how1, hag1⟩ := h.cur u tx m o' ht hold (hndT m)
        exact ⟨husers_sub m u hm, ob1, by rw [eO, upd_other _ _ _ _ (hoth m o' ob1 hmn hob1 hn1)]; exact hob1, hn1, how1, hag1⟩
    · rw [hother u e] at g1
      have hnd : ¬ Done s u m := fun hd => g3 ((hdone u m).2 hd)
      obtain ⟨hm, ob1, hob1, hn1, how1, hag1⟩ := h.cur u tx' m o' g1 g2 hnd
      have hoo : o' ≠ o := by
        by_cases emn : m = n
        · subst emn; exact absurd (hbusy u e hm hnd) id
        · exact hoth m o' ob1 emn hob1 hn1
      exact ⟨husers_sub m u hm, ob1, by rw [eO, upd_other _ _ _ _ hoo]; exact hob1, hn1, how1, hag1⟩
  · intro m u tx' g1 g2 g3 v g4 g5
    have hnd : ¬ Done s u m := fun hd => g3 ((hdone u m).2 hd)
    by_cases emn : m = n
    · subst emn
      by_cases e : u = t
      · subst e; rw [hself] at g2; simp only [Option.some.injEq] at g2; subst g2
        have hv := husers_back m v g4 g5
        have := hG v hv g5
        exact ⟨(hdone v m).2 this.1, by rw [hend]; exact this.2⟩
      · exact absurd (hbusy u e (husers_back m u g1 e) hnd) id
    · rw [husers_m m emn] at g1 g4
      have key : ∀ txu, s.txs u = some txu → txu.snap = tx'.snap → Done S v m ∧ endVerOf S v ≤ tx'.snap := by
        intro txu f1 f2
        have := h.excl m u txu g1 f1 hnd v g4 g5
        exact ⟨(hdone v m).2 this.1, by rw [hend, ← f2]; exact this.2⟩
      by_cases e : u = t
      · subst e; rw [hself] at g2; simp only [Option.some.injEq] at g2; subst g2; exact key tx ht rfl
      · rw [hother u e] at g2; exact key tx' g2 rfl
  · intro m o' g1
    rw [eM] at g1
    rcases hmp m o' g1 with ⟨rfl, rfl⟩ | hold
    · -- the object just handed out is the manager's object for `n`
      refine ⟨ob', by rw [eO]; exact upd_same _ _ _, hob'.1, ?_, ?_⟩
      · intro u g2 g3
        have hut : u = t := by
          by_cases hut : u = t
          · exact hut
          · exact absurd (hbusy u hut (husers_back m u g2 hut) (fun hd => g3 ((hdone u m).2 hd))) id
        subst hut
        exact ⟨_, hself, hob'.2.2⟩
      · intro hall
        exact absurd ((hdone t m).1 (hall t ((husers_n t).2 (Or.inl rfl)))) (hndT m)
    · obtain ⟨ob1, hob1, hn1, ha, hb⟩ := h.map m o' hold
      by_cases emn : m = n
      · subst emn
        by_cases eoo : o' = o
        · subst eoo
          refine ⟨ob', by rw [eO]; exact upd_same _ _ _, hob'.1, ?_, ?_⟩
          · intro u g2 g3
            have hut : u = t := by
              by_cases hut : u = t
              · exact hut
              · exact absurd (hbusy u hut (husers_back m u g2 hut) (fun hd => g3 ((hdone u m).2 hd))) id
            subst hut
            exact ⟨_, hself, hob'.2.2⟩
          · intro hall
            exact absurd ((hdone t m).1 (hall t ((husers_n t).2 (Or.inl rfl)))) (hndT m)
        · refine ⟨ob1, by rw [eO, upd_other _ _ _ _ eoo]; exact hob1, hn1, ?_, ?_⟩
          · intro u g2 g3
            have hut : u = t := by
              by_cases hut : u = t
              · exact hut
              · exact absurd (hbusy u hut (husers_back m u g2 hut) (fun hd => g3 ((hdone u m).2 hd))) id
            subst hut
            exact ⟨_, hself, (hmapAgree o' ob1 hold hob1).2⟩
          · intro hall
            exact absurd ((hdone t m).1 (hall t ((husers_n t).2 (Or.inl rfl)))) (hndT m)
      · have hoo : o' ≠ o := hoth m o' ob1 emn hob1 hn1
        refine ⟨ob1, by rw [eO, upd_other _ _ _ _ hoo]; exact hob1, hn1, ?_, ?_⟩
        · intro u g2 g3
          rw [husers_m m emn] at g2
          obtain ⟨tx1, f1, hag1⟩ := ha u g2 (fun hd => g3 ((hdone u m).2 hd))
          by_cases e : u = t
          · subst e; rw [ht] at f1; simp only [Option.some.injEq] at f1; subst f1; exact ⟨_, hself, hag1⟩
          · exact ⟨tx1, by rw [hother u e]; exact f1, hag1⟩
        · intro hall
          rw [eL]; exact hb (fun u hu => (hdone u m).1 (hall u (by rw [husers_m m emn]; exact hu)))
  · intro u tx' m o' g1 g2 g3
    rw [eM]
    by_cases e : u = t
    · subst e; rw [hself] at g1; simp only [Option.some.injEq] at g1; subst g1
      dsimp only at g2 g3
      rcases upd_opt_cases g3 with ⟨rfl, hx⟩ | ⟨hmn, hold⟩
      · simp only [Option.some.injEq] at hx; subst hx
        cases hcase with
        | fresh inMap hmap hpriv =>
          cases inMap with
          | true => exact Or.inr (by simp)
          | false =>
            rcases hpriv rfl with hsh | ⟨_, _, _, _, hwf, _⟩ | hwm
            · exact Or.inl (by simpa using h.pm hsh m)
            · rw [g2] at hwf; simp at hwf
            · exact Or.inl (by simpa using hwm g2)
        | existing o2 ob2 hsh hm ho hwn hr => exact Or.inr hm
      · rw [hmp_other m hmn]; exact h.wmap u tx m o' ht g2 hold
    · rw [hother u e] at g1
      by_cases emn : m = n
      · subst emn
        exfalso
        have hnd : ¬ Done s u m := not_done_writer_cur g1 g2 g3
        exact hbusy u e (h.cur u tx' m o' g1 g3 hnd).1 hnd
      · rw [hmp_other m emn]; exact h.wmap u tx' m o' g1 g2 g3
  · intro u tx' m g1 g2 g3 g4
    by_cases e : u = t
    · subst e; rw [hself] at g1; simp only [Option.some.injEq] at g1; subst g1
      dsimp only
      by_cases emn : m = n
      · subst emn; rw [upd_same]; simp
      · rw [upd_other _ _ _ _ emn]
        rw [husers_m m emn] at g4
        exact h.wusers u tx m ht g2 hop g4
    · rw [hother u e] at g1
      exact h.wusers u tx' m g1 g2 g3 (husers_back m u g4 e)
  · intro hsh m
    rw [eSh] at hsh
    rw [eM]
    cases hcase with
    | fresh inMap hmap hpriv =>
      cases inMap with
      | true => have := (hmap rfl).1; rw [hsh] at this; simp at this
      | false => simpa using h.pm hsh m
    | existing o2 ob2 hsh' hm ho hwn hr => rw [hsh] at hsh'; simp at hsh'
  · rw [eO, eN]; exact bound_upd h.bound hnx.1 hnx.2
  · intro m u g1
    by_cases e : u = t
    · subst e; exact ⟨_, hself⟩
    · obtain ⟨tx1, f1⟩ := h.users m u (husers_back m u g1 e); exact ⟨tx1, by rw [hother u e]; exact f1⟩
  · intro u tx' g1 g2
    by_cases e : u = t
    · subst e; rw [hself] at g1; simp only [Option.some.injEq] at g1; subst g1; exact h.openOk u tx ht hop
    · rw [hother u e] at g1; exact h.openOk u tx' g1 g2


/-- one step of the no-overlap discipline keeps both invariants -/
theorem noInv_stepNO {s s' : State} {l : Label} (h : NOInv s) (hs : stepNO s l = some s') : NOInv s' := by
  cases l with
  | beginR t =>
    simp only [stepNO, step] at hs
    obtain ⟨ht, rfl⟩ := stepBeginR_some hs
    exact noInv_begin h false ht s.writer (fun e => by simp at e) (fun _ => rfl)
  | beginW t =>
    simp only [stepNO, step] at hs
    obtain ⟨ht, hw, rfl⟩ := stepBeginW_some hs
    exact noInv_begin h true ht (some t) (fun _ => ⟨hw, rfl⟩) (fun e => by simp at e)
  | access t n =>
    simp only [stepNO] at hs
    by_cases hg : mayAccess s t n = true
    · rw [if_pos hg] at hs; exact noInv_access h hg (stepAccess_some hs)
    · rw [if_neg hg] at hs; simp at hs
  | accessCold t n =>
    simp only [stepNO] at hs
    by_cases hg : mayAccess s t n = true
    · rw [if_pos hg] at hs; exact noInv_access h hg (stepAccessCold_some hs)
    · rw [if_neg hg] at hs; simp at hs
  | leave t n => simp only [stepNO, step] at hs; exact noInv_leave h hs
  | read t n i => simp only [stepNO, step] at hs; exact noInv_read h hs
  | wr t op => simp only [stepNO, step] at hs; exact noInv_wr h hs
  | backfill t i => simp only [stepNO, step] at hs; exact noInv_backfill h hs
  | closeTx t ok => simp only [stepNO, step] at hs; exact noInv_close h hs
  | release t n => simp only [stepNO, step] at hs; exact noInv_release h hs
  | evict n =>
    simp only [stepNO, step, stepEvict, Option.some.injEq] at hs
    subst hs; exact noInv_evict n h

theorem stepNO_step {s s' : State} {l : Label} (hs : stepNO s l = some s') : step s l = some s' := by
  cases l with
  | access t n =>
    simp only [stepNO] at hs
    by_cases hg : mayAccess s t n = true
    · rw [if_pos hg] at hs; exact hs
    · rw [if_neg hg] at hs; simp at hs
  | accessCold t n =>
    simp only [stepNO] at hs
    by_cases hg : mayAccess s t n = true
    · rw [if_pos hg] at hs; exact hs
    · rw [if_neg hg] at hs; simp at hs
  | _ => simpa [stepNO] using hs

theorem no_coh {s : State} (h : NOInv s) : ∀ t tx n o ob, s.txs t = some tx → tx.isOpen = true → tx.cur n = some o →
    s.objs o = some ob → ob.owner = t ∧ Agree ob n tx.view := by
  intro t tx n o ob ht hop hc ho
  obtain ⟨_, ob1, hob1, _, how, hag⟩ := h.cur t tx n o ht hc (not_done_of_open ht hop)
  rw [ho] at hob1; simp only [Option.some.injEq] at hob1; subst hob1
  exact ⟨how, hag⟩

theorem runNO_inv : ∀ (sched : List Label) (s s' : State), NOInv s ∧ ObsInv s → runNO s sched = some s' → NOInv s' ∧ ObsInv s' := by
  intro sched
  induction sched with
  | nil => intro s s' hp h; simp [runNO] at h; subst h; exact hp
  | cons l rest ih =>
    intro s s' hp h
    simp only [runNO] at h
    cases hs : stepNO s l with
    | none => simp [hs] at h
    | some s1 =>
      simp only [hs] at h
      exact ih s1 s' ⟨noInv_stepNO hp.1 hs, obsInv_step hp.2 (no_coh hp.1) (stepNO_step hs)⟩ h


/-! ### definitions used by the statements in Props.lean -/

/-- items 1, 2, 3 (and 7, the point a writer deletes in w2b) in index 0, each with a point record -/
def exDisk : Disk :=
  { idx := fun n i => if n = 0 ∧ (i = 1 ∨ i = 2 ∨ i = 3 ∨ i = 7) then some i else none,
    pts := fun i => if i = 1 ∨ i = 2 ∨ i = 3 ∨ i = 7 then some i else none }

theorem exDisk_WF : exDisk.WF := by
  intro n i h
  simp only [exDisk] at h ⊢
  split at h
  · rename_i hc; simp [hc.2]
  · exact absurd rfl h

def badOf (o : Option State) : Option Bad := match o with | some s => s.bad | none => none
def flagsOf (o : Option State) (t : TxId) : Option (Bool × Bool × Bool) :=
  match o with
  | some s => (s.txs t).map fun tx => (tx.u1, tx.u2, tx.u3)
  | none => none

/-- w1: readers 1 and 2 share the new cache object of index 0; 2 called `UpdateBucket` last and ends;
1 reads an item that is not cached: through the dead handle of 2 -/
def w1 : List Label :=
  [.beginR 1, .access 1 0, .read 1 0 1, .beginR 2, .access 2 0, .read 2 0 1, .read 2 0 3, .leave 2 0, .closeTx 2 true,
   .read 1 0 2]

/-- w2a: reader 1 begins; writer 2 inserts item 8 (with its point), commits and releases the cache;
reader 1 finds 8 in the shared cache and back-fills it from its own snapshot -/
def w2a : List Label :=
  [.beginR 1, .beginW 2, .access 2 0, .wr 2 (.setPt 8 208), .wr 2 (.put 0 8 208), .closeTx 2 true, .release 2 0,
   .access 1 0, .read 1 0 8, .leave 1 0, .backfill 1 8]

/-- w2b: reader 1 begins; writer 2 deletes item 7, commits and releases; reader 1 reads 7 through the
shared cache (a miss: read from its old snapshot and cached); it ends; reader 3, which began after
everything else had ended, hits the stale 7 and back-fills it from its snapshot -/
def w2b : List Label :=
  [.beginR 1, .beginW 2, .access 2 0, .wr 2 (.del 0 7), .wr 2 (.delPt 7), .closeTx 2 true, .release 2 0,
   .access 1 0, .read 1 0 7, .leave 1 0, .backfill 1 7, .closeTx 1 true,
   .beginR 3, .access 3 0, .read 3 0 7, .leave 3 0, .backfill 3 7]

/-- the sequential version of w2b: the same three transactions one after the other (passes the
no-overlap discipline) -/
def seqb : List Label :=
  [.beginW 2, .access 2 0, .wr 2 (.del 0 7), .wr 2 (.delPt 7), .closeTx 2 true, .release 2 0,
   .beginR 1, .access 1 0, .read 1 0 7, .read 1 0 1, .leave 1 0, .backfill 1 1, .closeTx 1 true,
   .beginR 3, .access 3 0, .read 3 0 1, .read 3 0 2, .leave 3 0, .backfill 3 2, .closeTx 3 true]

/-- the hand-off of a ROLLED-BACK writer's object (forced families `wfailq`): writer 2 inserts item 8 and fails
(`closeTx 2 false`); writer 3 has begun and waits for the object; writer 2 gives it up (`release`: scrapped and out of
the map in one step); writer 3 is sent to a temporary cold object (`accessCold`), looks for 8 (absent), inserts item 9
and commits; reader 4, alone, builds the manager's new object and reads 8 (absent), 9 and 1 -/
def handoff : List Label :=
  [.beginW 2, .access 2 0, .wr 2 (.setPt 8 208), .wr 2 (.put 0 8 208), .closeTx 2 false, .beginW 3, .release 2 0,
   .accessCold 3 0, .read 3 0 8, .wr 3 (.setPt 9 309), .wr 3 (.put 0 9 309), .closeTx 3 true, .release 3 0,
   .beginR 4, .access 4 0, .read 4 0 8, .read 4 0 9, .read 4 0 1, .leave 4 0, .backfill 4 9, .closeTx 4 true]

/-- What `cacheTx.Commit` of a rolled-back writer must NOT do: give the object up (unlock) without taking it out of
the manager's map and without marking it - the effect, at this level, of `seeded/C07-2p` (dropped from the map but not
marked: the writer queued for it still has the pointer) and of `seeded/C09-r3-1` (unlocked before it is marked and
dropped).  NOT a step of the model: only used by `handoffKept` / `C09_handoff_needed`. -/
def stepReleaseKeep (s : State) (t : TxId) (n : Name) : Option State :=
  match s.txs t with
  | none => none
  | some tx =>
    if tx.isWrite = false ∨ tx.isOpen = true then none
    else match tx.cur n with
      | none => none
      | some o =>
        match s.objs o with
        | none => none
        | some ob =>
          some { s with objs := upd s.objs o (some { ob with writer := none }),
                        txs := upd s.txs t (some { tx with cur := upd tx.cur n none }) }

/-- `handoff` with the faulty give-up: writer 3 gets the object of the rolled-back writer 2 (every `access` still
satisfies the no-overlap discipline: 2 has ended and has let go), reader 4 after it -/
def handoffKept : Option State :=
  (runNO (init true exDisk)
    [.beginW 2, .access 2 0, .wr 2 (.setPt 8 208), .wr 2 (.put 0 8 208), .closeTx 2 false, .beginW 3]).bind fun s1 =>
  (stepReleaseKeep s1 2 0).bind fun s2 =>
  runNO s2 [.access 3 0, .read 3 0 8, .wr 3 (.setPt 9 309), .wr 3 (.put 0 9 309), .closeTx 3 true, .release 3 0,
            .beginR 4, .access 4 0, .read 4 0 8, .leave 4 0, .backfill 4 8]

/-- The cache-coherence invariant of the quiescent state: every object in the manager's map is an
object of that index and every item it caches is what the latest committed disk holds; object ids
are allocated. -/
structure Coherent (s : State) : Prop where
  map : ∀ n o, s.map n = some o → ∃ ob, s.objs o = some ob ∧ ob.name = n ∧ Agree ob n s.latest
  bound : ∀ o ob, s.objs o = some ob → o < s.nextObj

/-- every transaction that ever used a cache is done with it -/
def Quiescent (s : State) : Prop := ∀ n u, u ∈ s.users n → Done s u n

theorem noInv_coherent {s : State} (h : NOInv s) (hq : Quiescent s) : Coherent s := by
  refine ⟨?_, h.bound⟩
  intro n o hm
  obtain ⟨ob, hob, hn, _, hb⟩ := h.map n o hm
  exact ⟨ob, hob, hn, hb (hq n)⟩

end Sema.C09
