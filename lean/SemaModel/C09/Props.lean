/-
C09 — concurrent searches and writes are safe and every search sees committed data.

The model is SemaModel/C09/Model.lean (interleaving model: committed disks, snapshot readers, one
writer, shared cache objects that keep the bucket handle of the transaction that touched them
last).  Only the property theorems and their non-vacuity examples live here.

The full property is FALSE on the pinned tree (the property text says so); what is proved:

  C09_private_safe         with the shared cache disabled every search reads exactly its snapshot
  C09_serial_equiv         the committed state is the sequential application of the committed batches
  C09_quiescent_warm_cold  on a coherent cache a search alone answers warm exactly as cold
  C09_partial              safety when no two transactions overlap on one cache name
  C09_handoff_needed       a rolled-back writer's object that is given up without being scrapped breaks it
  C09_shared_unsafe        the negation of the full property, with three closed witnesses
-/
import SemaModel.C09.Lemmas
namespace Sema.C09

/-! ### what holds -/

/-- **C09_private_safe.** Shared cache disabled (`maxSize = 0`): under EVERY schedule no unsafe event is
reachable - no read through a dead handle, no back-fill of a missing point, and every read of
every transaction returned exactly what its own snapshot (writer: its own working copy) holds.
Hypothesis: every committed disk is well formed (each indexed id has a point record). -/
theorem C09_private_safe (d0 : Disk) (sched : List Label) (s : State)
    (hrun : run (init false d0) sched = some s) (hwf : ∀ d ∈ s.disks, d.WF) :
    s.bad = none ∧ ∀ t tx, s.txs t = some tx → tx.u1 = false ∧ tx.u2 = false ∧ tx.u3 = false := by
  have h := run_inv (P := PrivInv) privInv_step sched _ _ (privInv_init d0) hrun
  have h2 := h.f2 hwf
  refine ⟨?_, fun t tx ht => ⟨(h.f13.tx t tx ht).1, h2.2 t tx ht, (h.f13.tx t tx ht).2⟩⟩
  rcases h.f13.bad with hb | hb
  · exact hb
  · exact absurd hb h2.1

/-- non-vacuity: the schedules of the witnesses run with private caches, on a well-formed disk, and the
readers are flagged with nothing (in w2b the last reader does not find item 7, so its back-fill step
does not exist) -/
example : flagsOf (run (init false exDisk) w1) 1 = some (false, false, false) ∧
    flagsOf (run (init false exDisk) w2b.dropLast) 3 = some (false, false, false) ∧
    flagsOf (run (init false exDisk) w2b.dropLast) 1 = some (false, false, false) := by decide

/-- **C09_serial_equiv.** At most one write transaction is open at a time, so under every schedule
(shared cache or not) the latest committed disk is the sequential application, in commit order, of
the batches of the write transactions that committed (`log`); rolled-back batches leave no trace. -/
theorem C09_serial_equiv (shared : Bool) (d0 : Disk) (sched : List Label) (s : State)
    (hrun : run (init shared d0) sched = some s) : s.latest = s.log.foldl Disk.applyAll d0 :=
  serial_equiv shared d0 sched s hrun

/-- non-vacuity: in w2b one batch commits; a rolled-back one would not be logged -/
example : (match run (init true exDisk) w2b with | some s => s.log | none => []) = [[.del 0 7, .delPt 7]] := by decide
example : (match run (init true exDisk) [.beginW 2, .access 2 0, .wr 2 (.del 0 7), .closeTx 2 false] with
    | some s => s.log | none => [[]]) = [] := by decide

/-- **C09_quiescent_warm_cold.** In a state whose shared cache is coherent, a search `t` that runs
alone (no other step interleaves: the writers have finished) observes on the warm shared cache
exactly what it observes with a cold private cache: every read returns the content of the latest
committed disk, and nothing unsafe happens (no dead handle, no foreign value). -/
theorem C09_quiescent_warm_cold (s : State) (t : TxId) (sched : List Label)
    (hco : Coherent s) (hsolo : ∀ l ∈ sched, Label.soloR t l = true)
    (sw sc : State) (hw : run s (.beginR t :: sched) = some sw)
    (hc : run { s with shared := false } (.beginR t :: sched) = some sc) :
    ∃ txw txc, sw.txs t = some txw ∧ sc.txs t = some txc ∧ txw.obs = txc.obs ∧
      txw.obs = pushReads s.latest sched [] ∧ txw.u1 = false ∧ txw.u3 = false ∧ txc.u1 = false ∧ txc.u3 = false := by
  have start : ∀ (s0 : State), s0.latest = s.latest → s0.map = s.map → s0.objs = s.objs → s0.nextObj = s.nextObj →
      s0.txs = s.txs → ∀ s1, run s0 (.beginR t :: sched) = some s1 → Solo s.latest t (pushReads s.latest sched []) s1 := by
    intro s0 e1 e2 e3 e4 e5 s1 hr
    simp only [run] at hr
    cases hs : step s0 (.beginR t) with
    | none => simp [hs] at hr
    | some s' =>
      simp only [hs] at hr
      obtain ⟨_, rfl⟩ := stepBeginR_some hs
      refine solo_run sched [] _ s1 ?_ hsolo hr
      refine ⟨⟨newTx s0 false, upd_same _ _ _, rfl, e1, rfl, rfl, rfl, ?_⟩, ?_, ?_⟩
      · intro n o h; simp [newTx] at h
      · intro n o hm
        dsimp only at hm ⊢
        rw [e2] at hm; rw [e3]; exact hco.map n o hm
      · intro o ob ho
        dsimp only at ho ⊢
        rw [e3] at ho; rw [e4]; exact hco.bound o ob ho
  obtain ⟨⟨txw, h1, _, _, ho1, hu1, hu3, _⟩, _, _⟩ := start s rfl rfl rfl rfl rfl sw hw
  obtain ⟨⟨txc, h2, _, _, ho2, hv1, hv3, _⟩, _, _⟩ := start { s with shared := false } rfl rfl rfl rfl rfl sc hc
  exact ⟨txw, txc, h1, h2, ho1.trans ho2.symm, ho1, hu1, hu3, hv1, hv3⟩

/-- non-vacuity: after the writer of w2a has finished (without the overlapping reader) the state is
coherent-looking enough for a lone search to read the inserted item both warm and cold -/
example : (match run (init true exDisk) [.beginW 2, .access 2 0, .wr 2 (.setPt 8 208), .wr 2 (.put 0 8 208),
      .closeTx 2 true, .release 2 0, .beginR 3, .access 3 0, .read 3 0 8, .read 3 0 1, .leave 3 0, .backfill 3 8, .closeTx 3 true] with
    | some s => (s.txs 3).map (·.obs) | none => none) = some [(0, 1, some 1), (0, 8, some 208)] := by decide

/-- **C09_partial.** Safety for schedules in which no two transactions overlap on one cache name:
`runNO` lets a transaction enter `With` for index `n` (`access t n`) only if every other
transaction that ever used the cache of `n` has ended, has released it (writers: `cacheTx.Commit`)
and ended no later, in commits, than `t` began (`mayAccess`); all other steps are unrestricted
(any number of transactions, commits on other indexes, evictions at any time).  Then, shared cache
or not, no unsafe event is reachable: no read through a dead handle, no back-fill of a missing
point, every read returns what the reader's own snapshot holds.
Hypothesis: every committed disk is well formed. -/
theorem C09_partial (shared : Bool) (d0 : Disk) (sched : List Label) (s : State)
    (hrun : runNO (init shared d0) sched = some s) (hwf : ∀ d ∈ s.disks, d.WF) :
    s.bad = none ∧ ∀ t tx, s.txs t = some tx → tx.u1 = false ∧ tx.u2 = false ∧ tx.u3 = false := by
  have h := (runNO_inv sched _ _ ⟨noInv_init shared d0, obsInv_init shared d0⟩ hrun).2
  have h2 := h.f2 hwf
  refine ⟨?_, fun t tx ht => ⟨(h.f13.tx t tx ht).1, h2.2 t tx ht, (h.f13.tx t tx ht).2⟩⟩
  rcases h.f13.bad with hb | hb
  · exact hb
  · exact absurd hb h2.1

/-- ... and when every transaction is done with every cache, the shared cache is coherent, so
`C09_quiescent_warm_cold` applies to the state the discipline leaves behind. -/
theorem C09_partial_coherent (shared : Bool) (d0 : Disk) (sched : List Label) (s : State)
    (hrun : runNO (init shared d0) sched = some s) (hq : Quiescent s) : Coherent s :=
  noInv_coherent (runNO_inv sched _ _ ⟨noInv_init shared d0, obsInv_init shared d0⟩ hrun).1 hq

/-- non-vacuity: the three transactions of w2b run one after the other pass the discipline on the
shared cache (and touch it: the last reader is served from the cache the first one filled), while the
discipline stops w1, w2a and w2b at the step that enters the cache while another user is not done -/
example : flagsOf (runNO (init true exDisk) seqb) 3 = some (false, false, false) ∧
    (match runNO (init true exDisk) seqb with | some s => (s.txs 3).map (·.obs) | none => none)
      = some [(0, 2, some 2), (0, 1, some 1)] ∧
    (runNO (init true exDisk) w1).isNone ∧ (runNO (init true exDisk) w2a).isNone ∧
    (runNO (init true exDisk) w2b).isNone := by decide

/-- non-vacuity for the fall-back to a temporary cold object (`accessCold`, part of every schedule the theorems above
quantify over): in `handoff` the writer that queued for the object of a rolled-back writer passes the discipline, is sent
to a temporary object, and everybody reads exactly its own snapshot - the rolled-back item 8 is seen by nobody, the
reader after the writers builds the manager's new object and sees the committed item 9 -/
example : flagsOf (runNO (init true exDisk) handoff) 3 = some (false, false, false) ∧
    flagsOf (runNO (init true exDisk) handoff) 4 = some (false, false, false) ∧
    (match runNO (init true exDisk) handoff with | some s => (s.txs 4).map (·.obs) | none => none)
      = some [(0, 1, some 1), (0, 9, some 309), (0, 8, none)] ∧
    (match runNO (init true exDisk) handoff with | some s => s.log | none => [])
      = [[.setPt 9 309, .put 0 9 309]] := by decide

/-- a writer is sent to a temporary object only while the manager has no entry for the name: with an entry (the object
another transaction registered meanwhile would never see the batch, notes/C09.md F6) the step is not enabled -/
example : (run (init true exDisk) [.beginR 1, .access 1 0, .leave 1 0, .beginW 2, .accessCold 2 0]).isNone ∧
    (run (init true exDisk) [.beginR 1, .access 1 0, .leave 1 0, .beginW 2, .evict 0, .accessCold 2 0]).isSome ∧
    (run (init true exDisk) [.beginW 2, .access 2 0, .beginR 1, .accessCold 1 0, .read 1 0 1]).isSome := by decide

/-! ### what is false on the pinned tree, proved false -/

/-- w1 reaches a read through a handle whose transaction has ended -/
theorem C09_shared_unsafe_w1 : badOf (run (init true exDisk) w1) = some .u1 := by decide

/-- w2a reaches a back-fill of a point that the reader's own snapshot does not contain
("point does not exist"); before that the reader saw an item newer than its snapshot -/
theorem C09_shared_unsafe_w2a : flagsOf (run (init true exDisk) w2a) 1 = some (false, true, true) := by decide

/-- w2b: the reader that began after all other transactions had ended is served a stale item (cached
from a snapshot older than the delete) and fails to back-fill it; the overlapping reader itself is fine -/
theorem C09_shared_unsafe_w2b : flagsOf (run (init true exDisk) w2b) 3 = some (false, true, true) ∧
    flagsOf (run (init true exDisk) w2b) 1 = some (false, false, false) := by decide

/-- **C09_shared_unsafe.** With the shared cache enabled there are schedules, from a well-formed disk,
that reach each kind of unsafe state: the full property C09 does not hold for the modelled code. -/
theorem C09_shared_unsafe :
    exDisk.WF ∧ (∃ sched s, run (init true exDisk) sched = some s ∧ s.bad = some .u1) ∧
    (∃ sched s t tx, run (init true exDisk) sched = some s ∧ s.txs t = some tx ∧ tx.u2 = true) ∧
    (∃ sched s t tx, run (init true exDisk) sched = some s ∧ s.txs t = some tx ∧ tx.u3 = true) := by
  refine ⟨exDisk_WF, ?_, ?_, ?_⟩
  · have h := C09_shared_unsafe_w1
    cases hr : run (init true exDisk) w1 with
    | none => rw [hr] at h; simp [badOf] at h
    | some s => rw [hr] at h; exact ⟨w1, s, hr, h⟩
  · have h := C09_shared_unsafe_w2a
    cases hr : run (init true exDisk) w2a with
    | none => rw [hr] at h; simp [flagsOf] at h
    | some s =>
      rw [hr] at h
      simp only [flagsOf] at h
      cases ht : s.txs 1 with
      | none => rw [ht] at h; simp at h
      | some tx => rw [ht] at h; simp at h; exact ⟨w2a, s, 1, tx, hr, ht, h.2.1⟩
  · have h := C09_shared_unsafe_w2a
    cases hr : run (init true exDisk) w2a with
    | none => rw [hr] at h; simp [flagsOf] at h
    | some s =>
      rw [hr] at h
      simp only [flagsOf] at h
      cases ht : s.txs 1 with
      | none => rw [ht] at h; simp at h
      | some tx => rw [ht] at h; simp at h; exact ⟨w2a, s, 1, tx, hr, ht, h.2.2⟩

/-- **C09_handoff_needed.** Why `cacheTx.Commit` of a rolled-back writer has to scrap its object and drop it from the
manager *before* anybody else can lock it (the single step `release` of the model; in manager.go: under the manager
lock, before `s.mu.Unlock()`).  If the object is merely given up (`stepReleaseKeep`: the effect of `seeded/C07-2p` and
`seeded/C09-r3-1`), a schedule in which every `access` satisfies the no-overlap discipline of `C09_partial` - the failed
writer 2 has ended and let go before writer 3 touches the cache, reader 4 begins after 3 has finished - makes writer 3
read the rolled-back item 8 (u3) and reader 4 find it and fail to back-fill it (u3, u2: "point does not exist").
Closed witness; the forced families `wfailq` / `wfailr` are its replay on the real shard. -/
theorem C09_handoff_needed : flagsOf handoffKept 3 = some (false, false, true) ∧
    flagsOf handoffKept 4 = some (false, true, true) ∧ badOf handoffKept = some .u3 := by decide

/-
**C09_full** (the property as stated; NOT provable - `C09_shared_unsafe` refutes it):

  theorem C09_full (d0 : Disk) (hd0 : d0.WF) (sched : List Label) (s : State)
      (hrun : run (init true d0) sched = some s) (hwf : ∀ d ∈ s.disks, d.WF) :
      s.bad = none ∧
      (∀ t tx, s.txs t = some tx → tx.u1 = false ∧ tx.u2 = false ∧ tx.u3 = false) ∧
      s.latest = s.log.foldl Disk.applyAll d0 ∧
      ((∀ t tx, s.txs t = some tx → tx.isOpen = false ∧ ∀ n, tx.cur n = none) → Coherent s)

What is missing in the code for it to hold: the bucket handle would have to travel with the
transaction (be an argument of every cache read) instead of being stored in the shared object by
`UpdateBucket`, and a cached item would have to be usable only by transactions whose snapshot is
the version the item belongs to (or the shared object be versioned / taken only by transactions
that began after its last writer finished).  `C09_partial` is the part that survives: it excludes
exactly the overlap on one cache name that w1, w2a and w2b need.
-/

end Sema.C09
