/-
Line protocol for C09.  One forced schedule per line:

  sched <family> seed=<n> | <shared|private> [pre <item>…] | <step> ; <step> ; … | <Thread>=<tx> …

Steps: beginR t · beginW t · access t n · cold t n (temporary cold object) · leave t n · read t n i · put t n i · del t n i ·
backfill t i · end t · commit t · rollback t · finish t · evict n.
`put t n i` writes a fresh value for item i of index n and the point record of i; `del` removes both.
The initial disk holds items 1, 2, 3 (and the `pre` items) in index 0, each with a point record.

Answer: for every listed thread `<Thread>=<ok|u1|u2|u3|blocked>` (the most severe event of its
transaction; `blocked` if the schedule stopped at a step of that transaction that is not enabled).
-/
import SemaModel.Base.DriverUtil
import SemaModel.C09.Model
namespace Sema.C09

def driverDisk (pre : List Nat) : Disk :=
  let live := [1, 2, 3] ++ pre
  { idx := fun n i => if n = 0 ∧ i ∈ live then some i else none,
    pts := fun i => if i ∈ live then some i else none }

def nat? (s : String) : Option Nat := s.toNat?

/-- one textual step = a few model labels, all belonging to transaction `t` (0 for `evict`) -/
def parseStep (ws : List String) : Option (Nat × List Label) :=
  match ws with
  | ["beginR", t] => (nat? t).map fun t => (t, [.beginR t])
  | ["beginW", t] => (nat? t).map fun t => (t, [.beginW t])
  | ["access", t, n] => do let t ← nat? t; let n ← nat? n; pure (t, [.access t n])
  | ["cold", t, n] => do let t ← nat? t; let n ← nat? n; pure (t, [.accessCold t n])
  | ["leave", t, n] => do let t ← nat? t; let n ← nat? n; pure (t, [.leave t n])
  | ["read", t, n, i] => do let t ← nat? t; let n ← nat? n; let i ← nat? i; pure (t, [.read t n i])
  | ["put", t, n, i] => do
      let t ← nat? t; let n ← nat? n; let i ← nat? i
      pure (t, [.wr t (.setPt i (100 * t + i)), .wr t (.put n i (100 * t + i))])
  | ["del", t, n, i] => do
      let t ← nat? t; let n ← nat? n; let i ← nat? i
      pure (t, [.wr t (.del n i), .wr t (.delPt i)])
  | ["backfill", t, i] => do let t ← nat? t; let i ← nat? i; pure (t, [.backfill t i])
  | ["end", t] => (nat? t).map fun t => (t, [.closeTx t true])
  | ["commit", t] => (nat? t).map fun t => (t, [.closeTx t true])
  | ["rollback", t] => (nat? t).map fun t => (t, [.closeTx t false])
  | ["finish", t] => (nat? t).map fun t => (t, [.release t 0])
  | ["evict", n] => (nat? n).map fun n => (0, [.evict n])
  | _ => none

def words (s : String) : List String := (s.splitOn " ").filter (· ≠ "")

/-- run the steps; returns the final state and the transaction whose step was not enabled -/
def runSteps (s : State) : List (Nat × List Label) → State × Option Nat
  | [] => (s, none)
  | (t, ls) :: rest =>
    match run s ls with
    | none => (s, some t)
    | some s' => runSteps s' rest

def status (s : State) (blocked : Option Nat) (t : Nat) : String :=
  if blocked = some t then "blocked"
  else match s.txs t with
    | none => "absent"
    | some tx => if tx.u1 then "u1" else if tx.u2 then "u2" else if tx.u3 then "u3" else "ok"

def stepLine (line : String) : String :=
  match (line.trimAscii.toString.splitOn " | ") with
  | [_, cfg, steps, threads] =>
    let cw := words cfg
    let shared := cw.head? == some "shared"
    let pre := (cw.drop 2).filterMap nat?
    match ((steps.splitOn " ; ").map words).mapM parseStep with
    | none => "bad-op"
    | some ps =>
      let (s, blocked) := runSteps (init shared (driverDisk pre)) ps
      let outs := (words threads).map fun w =>
        match w.splitOn "=" with
        | [name, t] => match nat? t with
          | some t => name ++ "=" ++ status s blocked t
          | none => name ++ "=?"
        | _ => "?"
      " ".intercalate outs
  | _ => "bad-op"

end Sema.C09

def Sema.C09.driverMain (stdin stdout : IO.FS.Stream) (_args : List String) : IO Unit :=
  Sema.loopPure stdin stdout Sema.C09.stepLine
