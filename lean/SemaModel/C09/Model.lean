/-
C09 — concurrent searches and writes on one file-backed shard with a shared cache:
the interleaving model (core Lean only; linked into the driver).

What is modelled (one atomic step per line of the list; anchors in the repository):

* storage (diskstore/bbolt.go, trusted MVCC): the committed disks form a history; `beginR`/`beginW`
  copy the latest disk into the transaction's `view` (a reader's snapshot never changes, a writer
  works on its private copy); at most one write transaction is open; `closeTx t true` of a writer
  appends its working copy as the new latest disk, `closeTx t false` drops it.  After `closeTx` the
  transaction's bucket handle is dead.
* cache manager (shard/cache/manager.go, at interface level): `access t n` is the entry of
  `Transaction.With(n, …)` (`accessCold t n`: its fall-back to a temporary cold object, see
  `stepAccessCold`) *including* the `UpdateBucket(bucket)` every callback starts with
  (shard/index/search.go, dispatch.go): a reader gets the shared object of the manager map when it
  is not write-held (`TryRLock`), else a private cold object; when the map has no object the caller
  creates one, which goes into the map unless the shared cache is disabled (`maxSize = 0`); a writer
  takes the object exclusively (the step is not enabled while readers hold it) and keeps it until
  `release` (= `cacheTx.Commit`, which runs after the storage transaction has ended); a failed
  writer's object is dropped from the map (scrapped).  `evict n` = `checkAndPrune` removing an
  entry at any time.
* cache object (shard/cache/itemcache.go, vamana.go `UpdateBucket`): `owner` is the transaction
  whose bucket handle was stored last; `items` are the cached entries, each tagged with the
  version it was read from / written at.  `read t n i` = `ItemCache.Get`: a hit returns the cached
  value, a miss reads **through the handle stored in the object** (`owner`'s view) and caches it.
* search (shard/shard.go `SearchPoints`): reads through the cache, then back-fills every found id
  from the points bucket of its **own** snapshot (`backfill`).

Unsafe events (recorded per transaction and, the first one, in `State.bad`):
  u1  read through a handle whose transaction has ended   (bbolt: nil dereference in `DB.page`)
  u2  back-fill of an id that is absent from the reader's own snapshot ("point does not exist")
  u3  a read returned something else than the reader's own snapshot holds for that item
-/
namespace Sema.C09

abbrev TxId := Nat
abbrev Name := Nat
abbrev Item := Nat
abbrev Val := Nat
abbrev ObjId := Nat

inductive Bad | u1 | u2 | u3
  deriving DecidableEq, Repr, Inhabited

/-- pointwise update of a function on `Nat` -/
def upd {α : Type} (f : Nat → α) (k : Nat) (v : α) : Nat → α := fun x => if x = k then v else f x

@[simp] theorem upd_same {α : Type} (f : Nat → α) (k : Nat) (v : α) : upd f k v k = v := by simp [upd]
@[simp] theorem upd_other {α : Type} (f : Nat → α) (k x : Nat) (v : α) (h : x ≠ k) : upd f k v x = f x := by
  simp [upd, h]

/-- one committed state of the file: the index buckets (per cache name) and the points bucket -/
structure Disk where
  idx : Name → Item → Option Val
  pts : Item → Option Nat

/-- every indexed id has a point record (maintained by every batch: C01 / C10) -/
def Disk.WF (d : Disk) : Prop := ∀ n i, d.idx n i ≠ none → d.pts i ≠ none

inductive Op
  | put (n : Name) (i : Item) (v : Val)
  | del (n : Name) (i : Item)
  | setPt (i : Item) (doc : Nat)
  | delPt (i : Item)
  deriving DecidableEq, Repr

def Op.name? : Op → Option Name
  | .put n _ _ => some n
  | .del n _ => some n
  | _ => none

def Disk.apply (d : Disk) : Op → Disk
  | .put n i v => { d with idx := upd d.idx n (upd (d.idx n) i (some v)) }
  | .del n i => { d with idx := upd d.idx n (upd (d.idx n) i none) }
  | .setPt i doc => { d with pts := upd d.pts i (some doc) }
  | .delPt i => { d with pts := upd d.pts i none }

/-- sequential application of one batch -/
def Disk.applyAll (d : Disk) (ops : List Op) : Disk := ops.foldl Disk.apply d

structure Obj where
  name : Name                           -- the index the object caches (ghost)
  owner : TxId                          -- the transaction whose bucket handle `UpdateBucket` stored last
  items : Item → Option (Val × Nat)     -- cached value, tagged with the version it came from
  readers : Nat
  writer : Option TxId
  isPrivate : Bool

structure Tx where
  isWrite : Bool
  snap : Nat                            -- number of the version the transaction started from
  view : Disk                           -- reader: its snapshot; writer: its working copy
  isOpen : Bool
  failed : Bool
  endVer : Nat                          -- version number when the transaction ended
  cur : Name → Option ObjId             -- cache object in use (reader: inside `With`; writer: until `release`)
  inUse : Nat                           -- reader: number of `With` callbacks in progress
  ops : List Op                         -- writer: the batch so far
  seen : List Item                      -- ids found by the search (back-fill candidates)
  obs : List (Name × Item × Option Val) -- what every read returned, newest first
  u1 : Bool
  u2 : Bool
  u3 : Bool

structure State where
  shared : Bool                         -- `maxSize ≠ 0`
  latest : Disk
  older : List Disk                     -- earlier committed disks, newest first
  nver : Nat                            -- number of commits so far
  txs : TxId → Option Tx
  objs : ObjId → Option Obj
  nextObj : ObjId
  map : Name → Option ObjId             -- the manager's `sharedCaches`
  writer : Option TxId                  -- the open write transaction
  bad : Option Bad                      -- first unsafe event
  log : List (List Op)                  -- committed batches in commit order
  users : Name → List TxId              -- every transaction that ever accessed the name (ghost)

def State.disks (s : State) : List Disk := s.latest :: s.older

def init (shared : Bool) (d0 : Disk) : State :=
  { shared := shared, latest := d0, older := [], nver := 0, txs := fun _ => none, objs := fun _ => none,
    nextObj := 0, map := fun _ => none, writer := none, bad := none, log := [], users := fun _ => [] }

inductive Label
  | beginR (t : TxId)
  | beginW (t : TxId)
  | access (t : TxId) (n : Name)
  | accessCold (t : TxId) (n : Name)
  | leave (t : TxId) (n : Name)
  | read (t : TxId) (n : Name) (i : Item)
  | wr (t : TxId) (op : Op)
  | backfill (t : TxId) (i : Item)
  | closeTx (t : TxId) (ok : Bool)
  | release (t : TxId) (n : Name)
  | evict (n : Name)
  deriving DecidableEq, Repr

def newTx (s : State) (w : Bool) : Tx :=
  { isWrite := w, snap := s.nver, view := s.latest, isOpen := true, failed := false, endVer := 0,
    cur := fun _ => none, inUse := 0, ops := [], seen := [], obs := [], u1 := false, u2 := false, u3 := false }

def freshObj (n : Name) (t : TxId) (readers : Nat) (w : Option TxId) (priv : Bool) : Obj :=
  { name := n, owner := t, items := fun _ => none, readers := readers, writer := w, isPrivate := priv }

def setBad (s : State) (b : Bad) : State :=
  { s with bad := match s.bad with | some x => some x | none => some b }

def stepBeginR (s : State) (t : TxId) : Option State :=
  match s.txs t with
  | some _ => none
  | none => some { s with txs := upd s.txs t (some (newTx s false)) }

def stepBeginW (s : State) (t : TxId) : Option State :=
  match s.txs t, s.writer with
  | none, none => some { s with txs := upd s.txs t (some (newTx s true)), writer := some t }
  | _, _ => none

/-- `t` (record `tx`) starts using object `o` (new content `ob'`) for name `n` -/
def withAccess (s : State) (t : TxId) (tx : Tx) (n : Name) (o : ObjId) (ob' : Obj) (nx : ObjId)
    (mp : Name → Option ObjId) : State :=
  { s with objs := upd s.objs o (some ob'), nextObj := nx, map := mp,
           txs := upd s.txs t (some { tx with cur := upd tx.cur n (some o), inUse := tx.inUse + 1 }),
           users := upd s.users n (t :: s.users n) }

/-- hand a new object to `t` for name `n`; `inMap`: it becomes the manager's object for `n` -/
def giveFresh (s : State) (t : TxId) (tx : Tx) (n : Name) (inMap : Bool) : State :=
  withAccess s t tx n s.nextObj
    (if tx.isWrite then freshObj n t 0 (some t) (!inMap) else freshObj n t (if inMap then 1 else 0) none (!inMap))
    (s.nextObj + 1) (if inMap then upd s.map n (some s.nextObj) else s.map)

/-- take the manager's object: exclusively (writer) or shared (reader); either way the callback's
first statement is `UpdateBucket(bucket of t)` -/
def takeShared (t : TxId) (tx : Tx) (ob : Obj) : Obj :=
  if tx.isWrite then { ob with owner := t, writer := some t } else { ob with owner := t, readers := ob.readers + 1 }

def stepAccess (s : State) (t : TxId) (n : Name) : Option State :=
  match s.txs t with
  | none => none
  | some tx =>
    if tx.isOpen = false then none
    else if (tx.cur n).isSome then none
    else if s.shared = false then some (giveFresh s t tx n false)
    else match s.map n with
      | none => some (giveFresh s t tx n true)
      | some o =>
        match s.objs o with
        | none => none
        | some ob =>
          if tx.isWrite then
            -- `existingCache.mu.Lock()`: blocks while anybody holds the object
            if ob.readers = 0 ∧ ob.writer = none then some (withAccess s t tx n o (takeShared t tx ob) s.nextObj s.map)
            else none
          else if ob.writer.isSome then
            -- `TryRLock` fails: private cold object
            some (giveFresh s t tx n false)
          else some (withAccess s t tx n o (takeShared t tx ob) s.nextObj s.map)

/-- `With` sends the caller to a TEMPORARY cold object that nobody else will ever see: the object it had
looked up and locked turned out to be scrapped by the rolled-back transaction that held it before
(manager.go, `cacheToUse.scrapped` → `createFn()`), or a reader's `TryRLock` failed.  The model lets a
reader do this at any moment (a private cold object only ever shows the reader its own snapshot); a
writer only while the manager has no entry for the name - which is the case when the entry was scrapped,
because `Commit` of the failed holder drops it from the map in the same critical section.  (A writer
on a temporary object while ANOTHER object is registered under the name would leave that object
without its batch: notes/C09.md, F6.) -/
def stepAccessCold (s : State) (t : TxId) (n : Name) : Option State :=
  match s.txs t with
  | none => none
  | some tx =>
    if tx.isOpen = false then none
    else if (tx.cur n).isSome then none
    else if tx.isWrite = true ∧ (s.map n).isSome = true then none
    else some (giveFresh s t tx n false)

/-- a reader's `With` returns (`RUnlock`) -/
def stepLeave (s : State) (t : TxId) (n : Name) : Option State :=
  match s.txs t with
  | none => none
  | some tx =>
    if tx.isWrite then none
    else match tx.cur n with
      | none => none
      | some o =>
        match s.objs o with
        | none => none
        | some ob =>
          some { s with objs := upd s.objs o (some { ob with readers := ob.readers - 1 }),
                        txs := upd s.txs t (some { tx with cur := upd tx.cur n none, inUse := tx.inUse - 1 }) }

/-- what the transaction sees for an item it read; `got` is compared with its own view -/
def observe (s : State) (t : TxId) (tx : Tx) (n : Name) (i : Item) (got : Option Val) : State :=
  let foreign := decide (got ≠ tx.view.idx n i)
  let tx' := { tx with seen := if got.isSome then i :: tx.seen else tx.seen, obs := (n, i, got) :: tx.obs,
                       u3 := tx.u3 || foreign }
  let s' := { s with txs := upd s.txs t (some tx') }
  if foreign then setBad s' .u3 else s'

/-- `ItemCache.read`: what was found in the bucket is put into the cache (a miss is not cached) -/
def cacheFill (ob : Obj) (i : Item) (r : Option Val) (ver : Nat) : Obj :=
  match r with
  | some v => { ob with items := upd ob.items i (some (v, ver)) }
  | none => ob

def stepRead (s : State) (t : TxId) (n : Name) (i : Item) : Option State :=
  match s.txs t with
  | none => none
  | some tx =>
    if tx.isOpen = false then none   -- reads happen inside a callback, inside the storage transaction
    else match tx.cur n with
    | none => none
    | some o =>
      match s.objs o with
      | none => none
      | some ob =>
        match ob.items i with
        | some (v, _) => some (observe s t tx n i (some v))
        | none =>
          match s.txs ob.owner with
          | none => none
          | some otx =>
            if otx.isOpen = false then
              -- the stored bucket handle belongs to a transaction that has ended
              some (setBad { s with txs := upd s.txs t (some { tx with u1 := true }) } .u1)
            else
              some (observe { s with objs := upd s.objs o (some (cacheFill ob i (otx.view.idx n i) otx.snap)) } t tx n i
                (otx.view.idx n i))

def stepWr (s : State) (t : TxId) (op : Op) : Option State :=
  match s.txs t with
  | none => none
  | some tx =>
    if tx.isWrite = false ∨ tx.isOpen = false then none
    else
      let tx' := { tx with view := tx.view.apply op, ops := tx.ops ++ [op] }
      match op with
      | .put n i v =>
        match tx.cur n with
        | none => none
        | some o =>
          match s.objs o with
          | none => none
          | some ob => some { s with objs := upd s.objs o (some { ob with items := upd ob.items i (some (v, s.nver + 1)) }),
                                     txs := upd s.txs t (some tx') }
      | .del n i =>
        match tx.cur n with
        | none => none
        | some o =>
          match s.objs o with
          | none => none
          | some ob => some { s with objs := upd s.objs o (some { ob with items := upd ob.items i none }),
                                     txs := upd s.txs t (some tx') }
      | _ => some { s with txs := upd s.txs t (some tx') }

def stepBackfill (s : State) (t : TxId) (i : Item) : Option State :=
  match s.txs t with
  | none => none
  | some tx =>
    if tx.isWrite = true ∨ tx.isOpen = false ∨ i ∉ tx.seen then none
    else match tx.view.pts i with
      | some _ => some s
      | none => some (setBad { s with txs := upd s.txs t (some { tx with u2 := true }) } .u2)

def stepClose (s : State) (t : TxId) (ok : Bool) : Option State :=
  match s.txs t with
  | none => none
  | some tx =>
    if tx.isOpen = false then none
    else if tx.isWrite = false then
      if tx.inUse = 0 then
        some { s with txs := upd s.txs t (some { tx with isOpen := false, endVer := s.nver }) }
      else none
    else if ok then
      some { s with latest := tx.view, older := s.latest :: s.older, nver := s.nver + 1, writer := none,
                    log := s.log ++ [tx.ops],
                    txs := upd s.txs t (some { tx with isOpen := false, endVer := s.nver + 1 }) }
    else
      some { s with writer := none,
                    txs := upd s.txs t (some { tx with isOpen := false, failed := true, endVer := s.nver }) }

/-- `cacheTx.Commit(fail)` for one written cache: unlock; a failed transaction's object is scrapped -/
def stepRelease (s : State) (t : TxId) (n : Name) : Option State :=
  match s.txs t with
  | none => none
  | some tx =>
    if tx.isWrite = false ∨ tx.isOpen = true then none
    else match tx.cur n with
      | none => none
      | some o =>
        match s.objs o with
        | none => none
        | some ob =>
          some { s with objs := upd s.objs o (some { ob with writer := none }),
                        map := if tx.failed ∧ s.map n = some o then upd s.map n none else s.map,
                        txs := upd s.txs t (some { tx with cur := upd tx.cur n none }) }

def stepEvict (s : State) (n : Name) : Option State := some { s with map := upd s.map n none }

def step (s : State) : Label → Option State
  | .beginR t => stepBeginR s t
  | .beginW t => stepBeginW s t
  | .access t n => stepAccess s t n
  | .accessCold t n => stepAccessCold s t n
  | .leave t n => stepLeave s t n
  | .read t n i => stepRead s t n i
  | .wr t op => stepWr s t op
  | .backfill t i => stepBackfill s t i
  | .closeTx t ok => stepClose s t ok
  | .release t n => stepRelease s t n
  | .evict n => stepEvict s n

/-- run a schedule; `none` as soon as a step is not enabled -/
def run (s : State) : List Label → Option State
  | [] => some s
  | l :: rest => match step s l with
    | none => none
    | some s' => run s' rest

/-! ### the discipline of `C09_partial`: no two transactions overlap on one cache name -/

/-- `u` no longer uses name `n`: its storage transaction has ended and, if it is a writer, it has
released its object of `n` (`cacheTx.Commit`) -/
def doneWith (s : State) (u : TxId) (n : Name) : Bool :=
  match s.txs u with
  | none => false
  | some tx => !tx.isOpen && (!tx.isWrite || (tx.cur n).isNone)

def endVerOf (s : State) (u : TxId) : Nat :=
  match s.txs u with
  | none => 0
  | some tx => tx.endVer

/-- `t` may access `n`: every other transaction that ever accessed `n` is done with it and ended
no later (in commits) than `t` began -/
def mayAccess (s : State) (t : TxId) (n : Name) : Bool :=
  match s.txs t with
  | none => false
  | some tx => (s.users n).all fun u => u == t || (doneWith s u n && decide (endVerOf s u ≤ tx.snap))

def stepNO (s : State) (l : Label) : Option State :=
  match l with
  | .access t n => if mayAccess s t n then step s l else none
  | .accessCold t n => if mayAccess s t n then step s l else none
  | .evict _ => step s l
  | _ => step s l

def runNO (s : State) : List Label → Option State
  | [] => some s
  | l :: rest => match stepNO s l with
    | none => none
    | some s' => runNO s' rest

end Sema.C09
