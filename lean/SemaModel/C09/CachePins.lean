/-
C09 — the cache manager's lock skeleton the interface-level model of Model.lean was written against.

Model.lean treats `cache.Manager` at interface level (With / Commit / TryRLock fallback / scrapping /
eviction); that this interface is what shard/cache/manager.go implements is C11's subject. The same
regenerated facts (tools/facts_c11 → Generated/FactsC11.lean) are pinned here, so that a change of the
manager's protocol breaks C09's tie as well and sends C09's own search (stress on every cache mode)
looking for a schedule on which a search result is no longer explained.
-/
import SemaModel.C11.Skeleton
import SemaModel.Generated.FactsC11
namespace Sema.C09
open Sema.Gen Sema.C11

theorem C09_cache_protocol_pinned :
    FactsC11.withSkeleton = Skeleton.expectedWith ∧
    FactsC11.commitSkeleton = Skeleton.expectedCommit ∧
    FactsC11.pruneSkeleton = Skeleton.expectedPrune ∧
    FactsC11.releaseSkeleton = Skeleton.expectedRelease := by decide

end Sema.C09
