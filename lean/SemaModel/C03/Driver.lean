/-
line protocol for C03 (core-only):
  search limit= ss= filter=<-|=ids> max= V= N= dq=<id:key,...> hy=<key:bits,...>
      → "ok id:distkey:hybridbits ..." — the model of IndexVamana.Search on the dump of the real graph with
        the real distances of the query (order-preserving image of the float32 bits), or "err <kind>"
  hyb vamana <weight hex32|-> <dist hex32>
      → hex32: the hybrid expression generated from vamana.go (`(-1 * dist) * weight`, weight 1 when absent),
        evaluated with hardware float32 (bit for bit against the real `_hybridScore`)
-/
import SemaModel.Base.DriverUtil
import SemaModel.Base.Bytes
import SemaModel.C10.Driver
import SemaModel.C03.HybridGen
namespace Sema.C03
open Sema.C10

def parseHy (s : String) : Std.HashMap Nat Nat :=
  if s.isEmpty then {} else
  (s.splitOn ",").foldl (fun m e =>
    match e.splitOn ":" with
    | [k, h] => match k.toNat?, Sema.natOfHex h with
      | some k, some h => m.insert k h
      | _, _ => m
    | _ => m) {}

def step (line : String) : String :=
  let toks := line.trimAscii.toString.splitOn " "
  match toks with
  | "search" :: rest =>
    let g := parseGraph rest
    let dq := parseQ (field rest "dq")
    let hy := parseHy (field rest "hy")
    let limit := (field rest "limit").toNat?.getD 0
    let ss := (field rest "ss").toNat?.getD 0
    let f := field rest "filter"
    let filter : Option (List Nat) := if f == "-" then none else some (natList (f.drop 1).toString)
    match search (H := Nat) g.view (fun i => dq.getD i 0) (fun d => hy.getD d 0) limit ss filter (g.vecs.length + 1) with
    | .ok hits =>
      (" ".intercalate ("ok" :: hits.map fun h => s!"{h.id}:{h.dist}:{Sema.hexOfNat 8 h.hybrid}"))
    | .error .searchSizeLtK => "err searchSizeLtK"
    | .error _ => "err other"
  | ["hyb", "vamana", w, d] =>
    match (if w == "-" then some none else (Sema.natOfHex w).map some), Sema.natOfHex d with
    | some w, some d =>
      let r := (hybridGen (w.map fun b => Sema.Go.FExpr.var (BitVec.ofNat 32 b)) (Sema.Go.FExpr.var (BitVec.ofNat 32 d))).eval
      if r.isNaN then "nan" else Sema.hexOfNat 8 r.toBits.toNat
    | _, _ => "bad-op"
  | _ => "skip (not a model line)"

end Sema.C03

def Sema.C03.driverMain (stdin stdout : IO.FS.Stream) (_args : List String) : IO Unit :=
  Sema.loopPure stdin stdout Sema.C03.step
